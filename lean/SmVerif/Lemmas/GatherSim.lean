/-
C07 / C08, the instance tie, part 2: simulation between two instances of the generic gather model.

`SkSim K1 K2 R P`: every sketch operation of `K1` that succeeds is matched by the operation of `K2` on related
arguments, with related results (`R` relates sketches, `P` says which scaled values may be asked for).  From
it, every function of the prefetch-mode gather round is simulated: whatever the `K1` run returns, the `K2` run
returns the related thing -- in particular the same `GatherResult` numbers.

`Lemmas/GatherSimOps.lean` provides `SkSim mhOps lsOps` (`Lemmas/GatherSimMH.lean`), so the theorems proved
about the list-sketch instance speak about the runs of the shared-MinHash instance.
-/
import SmVerif.Model.Gather
import Mathlib.Data.List.Forall2

set_option autoImplicit false

namespace Sm.Gather

open Sm

variable {α β : Type}

/-- one-directional simulation of the sketch operations (success of `K1` ⇒ related success of `K2`) -/
structure SkSim (K1 : SkOps α) (K2 : SkOps β) (R : α → β → Prop) (P : Nat → Prop) : Prop where
  scaled : ∀ {a b}, R a b → K1.scaled a = K2.scaled b
  scaledP : ∀ {a b}, R a b → P (K1.scaled a)
  Pmax : ∀ {x y}, P x → P y → P (max x y)
  num : ∀ {a b}, R a b → K1.num a = K2.num b
  mins : ∀ {a b}, R a b → K1.mins a = K2.mins b
  track : ∀ {a b}, R a b → K1.track a = K2.track b
  pairs : ∀ {a b}, R a b → K1.pairs a = K2.pairs b
  dsM : ∀ {a b sc a'}, R a b → P sc → K1.dsM a sc = .ok a' → ∃ b', K2.dsM b sc = .ok b' ∧ R a' b'
  dsF : ∀ {a b sc a'}, R a b → P sc → K1.dsF a sc = .ok a' → ∃ b', K2.dsF b sc = .ok b' ∧ R a' b'
  flat : ∀ {a b a'}, R a b → K1.flat a = .ok a' → ∃ b', K2.flat b = .ok b' ∧ R a' b'
  and : ∀ {a b a2 b2 r}, R a b → R a2 b2 → K1.and a a2 = .ok r → ∃ r', K2.and b b2 = .ok r' ∧ R r r'
  cc : ∀ {a b a2 b2 n}, R a b → R a2 b2 → K1.cc a a2 = .ok n → K2.cc b b2 = .ok n
  compatible : ∀ {a b a2 b2}, R a b → R a2 b2 → K1.compatible a a2 = K2.compatible b b2
  interSize : ∀ {a b a2 b2 v}, R a b → R a2 b2 → K1.interSize a a2 = .ok v → K2.interSize b b2 = .ok v
  copyAndClear : ∀ {a b r}, R a b → K1.copyAndClear a = .ok r → ∃ r', K2.copyAndClear b = .ok r' ∧ R r r'
  toMutable : ∀ {a b}, R a b → R (K1.toMutable a) (K2.toMutable b)
  removeFrom : ∀ {a b a2 b2}, R a b → R a2 b2 → R (K1.removeFrom a a2) (K2.removeFrom b b2)

section
variable {K1 : SkOps α} {K2 : SkOps β} {R : α → β → Prop} {P : Nat → Prop} (S : SkSim K1 K2 R P)
variable {σ : Type} {ops : ScoreOps σ}

include S

theorem SkSim.len {a : α} {b : β} (h : R a b) : len K1 a = len K2 b := by
  unfold Gather.len
  rw [S.mins h]

/-! ### relations on the composite objects -/

/-- related signatures: same md5 and name, related sketches -/
def RSig (R : α → β → Prop) (s1 : Sig α) (s2 : Sig β) : Prop :=
  s1.md5 = s2.md5 ∧ s1.name = s2.name ∧ R s1.mh s2.mh

def REnt (R : α → β → Prop) (e1 : CEntry α) (e2 : CEntry β) : Prop :=
  e1.md5 = e2.md5 ∧ e1.count = e2.count ∧ RSig R e1.sig e2.sig

structure RCnt (R : α → β → Prop) (P : Nat → Prop) (c1 : Counter α) (c2 : Counter β) : Prop where
  orig : R c1.origQuery c2.origQuery
  scaled : c1.scaled = c2.scaled
  scaledP : P c1.scaled
  entries : List.Forall₂ (REnt R) c1.entries c2.entries

/-- a `peek` result: same score, related signature and intersection -/
def RPeek (R : α → β → Prop) (x1 : σ × Sig α × α) (x2 : σ × Sig β × β) : Prop :=
  x1.1 = x2.1 ∧ RSig R x1.2.1 x2.2.1 ∧ R x1.2.2 x2.2.2

def ROpt {γ δ : Type} (Q : γ → δ → Prop) : Option γ → Option δ → Prop
  | none, none => True
  | some x, some y => Q x y
  | _, _ => False

/-! ### `contained_by`, the counter -/

theorem sim_containedBy {a : α} {b : β} {a2 : α} {b2 : β} {v : σ} (h1 : R a b) (h2 : R a2 b2)
    (h : containedBy K1 ops a a2 = .ok v) : containedBy K2 ops b b2 = .ok v := by
  unfold containedBy at h ⊢
  rw [← S.scaled h1, ← S.scaled h2, ← S.len h1]
  split at h
  · cases h
  · rename_i hz
    rw [if_neg hz]
    split at h
    · rename_i hl
      rw [if_pos hl]
      exact h
    · rename_i hl
      rw [if_neg hl]
      cases hc : K1.cc a a2 with
      | error e => rw [hc] at h; cases h
      | ok c =>
        rw [hc] at h
        rw [S.cc h1 h2 hc]
        exact h

omit S in
theorem sim_mostCommon : ∀ {l1 : List (CEntry α)} {l2 : List (CEntry β)}, List.Forall₂ (REnt R) l1 l2 →
    ROpt (REnt R) (mostCommon l1) (mostCommon l2) := by
  intro l1 l2 h
  induction h with
  | nil => exact trivial
  | @cons x y xs ys hxy _ ih =>
    simp only [mostCommon]
    cases h1 : mostCommon xs with
    | none =>
      cases h2 : mostCommon ys with
      | none => exact hxy
      | some w => rw [h1, h2] at ih; exact ih.elim
    | some v =>
      cases h2 : mostCommon ys with
      | none => rw [h1, h2] at ih; exact ih.elim
      | some w =>
        rw [h1, h2] at ih
        have hc : v.count = w.count := ih.2.1
        have hx : x.count = y.count := hxy.2.1
        simp only []
        rw [hc, hx]
        split
        · exact ih
        · exact hxy

omit S in
theorem sim_setCount (md5 : Nat) (v : Int) : ∀ {l1 : List (CEntry α)} {l2 : List (CEntry β)},
    List.Forall₂ (REnt R) l1 l2 → List.Forall₂ (REnt R) (setCount md5 v l1) (setCount md5 v l2) := by
  intro l1 l2 h
  induction h with
  | nil => exact List.Forall₂.nil
  | @cons x y xs ys hxy hrest ih =>
    simp only [setCount]
    rw [hxy.1]
    split
    · exact List.Forall₂.cons ⟨rfl, rfl, hxy.2.2⟩ hrest
    · exact List.Forall₂.cons hxy ih

omit S in
theorem sim_delEntry (md5 : Nat) : ∀ {l1 : List (CEntry α)} {l2 : List (CEntry β)},
    List.Forall₂ (REnt R) l1 l2 → List.Forall₂ (REnt R) (delEntry md5 l1) (delEntry md5 l2) := by
  intro l1 l2 h
  induction h with
  | nil => exact List.Forall₂.nil
  | @cons x y xs ys hxy hrest ih =>
    simp only [delEntry]
    rw [hxy.1]
    split
    · exact hrest
    · exact List.Forall₂.cons hxy ih

/-- result of the lazy-refresh loop -/
def RLoop (R : α → β → Prop) (x1 : List (CEntry α) × Option (CEntry α × α))
    (x2 : List (CEntry β) × Option (CEntry β × β)) : Prop :=
  List.Forall₂ (REnt R) x1.1 x2.1 ∧ ROpt (fun p q => REnt R p.1 q.1 ∧ R p.2 q.2) x1.2 x2.2

theorem sim_peekLoop {cur1 : α} {cur2 : β} (hc : R cur1 cur2) {sc : Nat} (hsc : P sc) (nT : F64.F) :
    ∀ (fuel : Nat) {l1 : List (CEntry α)} {l2 : List (CEntry β)} {r1},
      List.Forall₂ (REnt R) l1 l2 → peekLoop K1 cur1 sc nT fuel l1 = .ok r1 →
      ∃ r2, peekLoop K2 cur2 sc nT fuel l2 = .ok r2 ∧ RLoop R r1 r2 := by
  intro fuel
  induction fuel with
  | zero => intro l1 l2 r1 _ h; simp [peekLoop] at h
  | succ n ih =>
    intro l1 l2 r1 hl h
    unfold peekLoop at h ⊢
    have hm := sim_mostCommon hl
    cases h1 : mostCommon l1 with
    | none =>
      cases h2 : mostCommon l2 with
      | some w => rw [h1, h2] at hm; exact hm.elim
      | none =>
        rw [h1] at h
        cases h
        exact ⟨_, rfl, hl, trivial⟩
    | some b1 =>
      cases h2 : mostCommon l2 with
      | none => rw [h1, h2] at hm; exact hm.elim
      | some b2 =>
        rw [h1, h2] at hm
        rw [h1] at h
        simp only [] at h ⊢
        have hcount : b1.count = b2.count := hm.2.1
        rw [← hcount]
        by_cases hb : belowThreshold b1.count nT = true
        · rw [if_pos hb] at h ⊢
          cases h
          exact ⟨_, rfl, hl, trivial⟩
        · rw [if_neg hb] at h ⊢
          cases hd : K1.dsF b1.sig.mh sc with
          | error e => rw [hd] at h; cases h
          | ok m1 =>
            rw [hd] at h
            obtain ⟨m1', hd', rm1⟩ := S.dsF hm.2.2.2.2 hsc hd
            rw [hd']
            simp only [] at h ⊢
            cases hf : K1.flat m1 with
            | error e => rw [hf] at h; cases h
            | ok m2 =>
              rw [hf] at h
              obtain ⟨m2', hf', rm2⟩ := S.flat rm1 hf
              rw [hf']
              simp only [] at h ⊢
              cases ha : K1.and cur1 m2 with
              | error e => rw [ha] at h; cases h
              | ok i1 =>
                rw [ha] at h
                obtain ⟨i2, ha', ri⟩ := S.and hc rm2 ha
                rw [ha']
                simp only [] at h ⊢
                rw [← S.len ri, ← hm.1]
                by_cases hlen : ((len K1 i1 : Nat) : Int) = b1.count
                · rw [if_pos hlen] at h ⊢
                  cases h
                  exact ⟨_, rfl, hl, hm, ri⟩
                · rw [if_neg hlen] at h ⊢
                  by_cases hz : len K1 i1 ≠ 0
                  · rw [if_pos hz] at h ⊢
                    exact ih (sim_setCount _ _ hl) h
                  · rw [if_neg hz] at h ⊢
                    exact ih (sim_delEntry _ hl) h

/-- `CounterGather.peek` -/
theorem sim_peek {c1 : Counter α} {c2 : Counter β} (hc : RCnt R P c1 c2) {cur1 : α} {cur2 : β}
    (hcur : R cur1 cur2) (thr : Nat) {r1 : Counter α × Option (σ × Sig α × α)}
    (h : c1.peek K1 ops cur1 thr = .ok r1) :
    ∃ r2, c2.peek K2 ops cur2 thr = .ok r2 ∧ RCnt R P r1.1 r2.1 ∧ ROpt (RPeek R) r1.2 r2.2 := by
  unfold Counter.peek at h ⊢
  have hemp' : ∀ {l1 : List (CEntry α)} {l2 : List (CEntry β)}, List.Forall₂ (REnt R) l1 l2 →
      l1.isEmpty = l2.isEmpty := by
    intro l1 l2 h; cases h <;> rfl
  have hemp : c1.entries.isEmpty = c2.entries.isEmpty := hemp' hc.entries
  rw [← hemp]
  by_cases he : c1.entries.isEmpty = true
  · rw [if_pos he] at h ⊢
    cases h
    exact ⟨_, rfl, hc, trivial⟩
  rw [if_neg he] at h ⊢
  simp only [] at h ⊢
  rw [← hc.scaled, ← S.scaled hcur]
  have hP : P (max c1.scaled (K1.scaled cur1)) := S.Pmax hc.scaledP (S.scaledP hcur)
  cases hd : K1.dsF cur1 (max c1.scaled (K1.scaled cur1)) with
  | error e => rw [hd] at h; cases h
  | ok q1 =>
    rw [hd] at h
    obtain ⟨q2, hd', rq⟩ := S.dsF hcur hP hd
    rw [hd']
    simp only [] at h ⊢
    rw [← S.len rq]
    have hcnt : RCnt R P { c1 with scaled := max c1.scaled (K1.scaled cur1) }
        { c2 with scaled := max c1.scaled (K1.scaled cur1) } := ⟨hc.orig, rfl, hP, hc.entries⟩
    by_cases hl0 : len K1 q1 = 0
    · rw [if_pos hl0] at h ⊢
      cases h
      exact ⟨_, rfl, hcnt, trivial⟩
    rw [if_neg hl0] at h ⊢
    cases hcb : containedBy K1 ops q1 c1.origQuery with
    | error e => rw [hcb] at h; cases h
    | ok sub =>
      rw [hcb] at h
      rw [sim_containedBy S rq hc.orig hcb]
      simp only [] at h ⊢
      by_cases hlt : ops.ltOne sub = true
      · rw [if_pos hlt] at h; cases h
      rw [if_neg hlt] at h ⊢
      cases hct : calcThreshold thr (max c1.scaled (K1.scaled cur1)) (len K1 q1) with
      | error e =>
        rw [hct] at h
        cases e <;> simp only [] at h ⊢ <;> first | (cases h; done) | skip
        cases h
        exact ⟨_, rfl, hcnt, trivial⟩
      | ok tn =>
        obtain ⟨t, nT⟩ := tn
        rw [hct] at h
        simp only [] at h ⊢
        rw [List.Forall₂.length_eq hc.entries] at h
        cases hpl : peekLoop K1 q1 (max c1.scaled (K1.scaled cur1)) nT (c2.entries.length + 1) c1.entries with
        | error e => rw [hpl] at h; cases h
        | ok lr =>
          rw [hpl] at h
          obtain ⟨lr2, hpl', rl⟩ := sim_peekLoop S rq hP nT _ hc.entries hpl
          rw [hpl']
          obtain ⟨es1, o1⟩ := lr
          obtain ⟨es2, o2⟩ := lr2
          obtain ⟨rl1, rl2⟩ := rl
          simp only [] at rl1 rl2
          cases o1 with
          | none =>
            cases o2 with
            | some w => exact rl2.elim
            | none =>
              simp only [] at h ⊢
              cases h
              exact ⟨_, rfl, ⟨hc.orig, rfl, hP, rl1⟩, trivial⟩
          | some p1 =>
            cases o2 with
            | none => exact rl2.elim
            | some p2 =>
              obtain ⟨b1, i1⟩ := p1
              obtain ⟨b2, i2⟩ := p2
              obtain ⟨rb, ri⟩ := rl2
              simp only [] at rb ri h ⊢
              cases hcb2 : containedBy K1 ops q1 b1.sig.mh with
              | error e => rw [hcb2] at h; cases h
              | ok cont =>
                rw [hcb2] at h
                rw [sim_containedBy S rq rb.2.2.2.2 hcb2]
                simp only [] at h ⊢
                by_cases hz : ops.isZero cont = true
                · rw [if_pos hz] at h; cases h
                rw [if_neg hz] at h ⊢
                by_cases hg : (!ops.ge cont (ops.ofF t)) = true
                · rw [if_pos hg] at h; cases h
                rw [if_neg hg] at h ⊢
                cases h
                exact ⟨_, rfl, ⟨hc.orig, rfl, hP, rl1⟩, rfl, rb.2.2, ri⟩

theorem sim_consumeEntries {i1 : α} {i2 : β} (hi : R i1 i2) :
    ∀ {l1 : List (CEntry α)} {l2 : List (CEntry β)} {r1}, List.Forall₂ (REnt R) l1 l2 →
      consumeEntries K1 i1 l1 = .ok r1 →
      ∃ r2, consumeEntries K2 i2 l2 = .ok r2 ∧ List.Forall₂ (REnt R) r1 r2 := by
  intro l1 l2 r1 h
  induction h generalizing r1 with
  | nil =>
    intro h
    simp only [consumeEntries, Except.ok.injEq] at h
    subst h
    exact ⟨[], rfl, List.Forall₂.nil⟩
  | @cons x y xs ys hxy hrest ih =>
    intro h
    simp only [consumeEntries] at h ⊢
    cases hc : K1.cc i1 x.sig.mh with
    | error e => rw [hc] at h; cases h
    | ok k =>
      rw [hc] at h
      rw [S.cc hi hxy.2.2.2.2 hc]
      simp only [] at h ⊢
      cases hr : consumeEntries K1 i1 xs with
      | error e => rw [hr] at h; cases h
      | ok rest1 =>
        rw [hr] at h
        obtain ⟨rest2, hr2, rr⟩ := ih hr
        rw [hr2]
        simp only [] at h ⊢
        rw [← hxy.2.1]
        by_cases hk : k ≠ 0
        · rw [if_pos hk] at h ⊢
          by_cases hz : x.count - (k : Int) = 0
          · rw [if_pos hz] at h ⊢
            cases h
            exact ⟨_, rfl, rr⟩
          · rw [if_neg hz] at h ⊢
            cases h
            exact ⟨_, rfl, List.Forall₂.cons ⟨hxy.1, by simp only [hxy.2.1], hxy.2.2⟩ rr⟩
        · rw [if_neg hk] at h ⊢
          cases h
          exact ⟨_, rfl, List.Forall₂.cons hxy rr⟩

/-- `CounterGather.consume` -/
theorem sim_consume {c1 : Counter α} {c2 : Counter β} (hc : RCnt R P c1 c2) {i1 : α} {i2 : β} (hi : R i1 i2)
    {r1 : Counter α} (h : c1.consume K1 i1 = .ok r1) :
    ∃ r2, c2.consume K2 i2 = .ok r2 ∧ RCnt R P r1 r2 := by
  unfold Counter.consume at h ⊢
  rw [← S.len hi]
  by_cases hl : len K1 i1 = 0
  · rw [if_pos hl] at h ⊢
    cases h
    exact ⟨_, rfl, hc⟩
  · rw [if_neg hl] at h ⊢
    cases he : consumeEntries K1 i1 c1.entries with
    | error e => rw [he] at h; cases h
    | ok es =>
      rw [he] at h
      cases h
      obtain ⟨es2, he2, re⟩ := sim_consumeEntries S hi hc.entries he
      rw [he2]
      exact ⟨_, rfl, hc.orig, hc.scaled, hc.scaledP, re⟩

/-! ### `_find_best` over prefetch counters -/

/-- related counter objects (prefetch counters only: the on-demand wrapper catches a `ValueError`, which a
one-directional simulation cannot follow) -/
def RObj (R : α → β → Prop) (P : Nat → Prop) : CObj α → CObj β → Prop
  | .cg c1, .cg c2 => RCnt R P c1 c2
  | _, _ => False

theorem sim_objPeek {o1 : CObj α} {o2 : CObj β} (ho : RObj R P o1 o2) {cur1 : α} {cur2 : β}
    (hcur : R cur1 cur2) (thr : Nat) {r1 : CObj α × Option (σ × Sig α × α)}
    (h : o1.peek K1 ops cur1 thr = .ok r1) :
    ∃ r2, o2.peek K2 ops cur2 thr = .ok r2 ∧ RObj R P r1.1 r2.1 ∧ ROpt (RPeek R) r1.2 r2.2 := by
  cases o1 with
  | idx db => cases o2 <;> exact ho.elim
  | cg c1 =>
    cases o2 with
    | idx db => exact ho.elim
    | cg c2 =>
      simp only [CObj.peek] at h ⊢
      cases hp : c1.peek K1 ops cur1 thr with
      | error e => rw [hp] at h; cases h
      | ok pr =>
        rw [hp] at h
        obtain ⟨pr2, hp2, rc, rr⟩ := sim_peek S ho hcur thr hp
        rw [hp2]
        obtain ⟨c1', x1⟩ := pr
        obtain ⟨c2', x2⟩ := pr2
        simp only [] at h ⊢
        cases h
        exact ⟨_, rfl, rc, rr⟩

theorem sim_objConsume {o1 : CObj α} {o2 : CObj β} (ho : RObj R P o1 o2) {i1 : α} {i2 : β} (hi : R i1 i2)
    {r1 : CObj α} (h : o1.consume K1 i1 = .ok r1) :
    ∃ r2, o2.consume K2 i2 = .ok r2 ∧ RObj R P r1 r2 := by
  cases o1 with
  | idx db => cases o2 <;> exact ho.elim
  | cg c1 =>
    cases o2 with
    | idx db => exact ho.elim
    | cg c2 =>
      simp only [CObj.consume] at h ⊢
      cases hp : c1.consume K1 i1 with
      | error e => rw [hp] at h; cases h
      | ok c1' =>
        rw [hp] at h
        obtain ⟨c2', hp2, rc⟩ := sim_consume S ho hi hp
        rw [hp2]
        cases h
        exact ⟨_, rfl, rc⟩

omit S in
theorem sim_better {r1 b1 : Option (σ × Sig α × α)} {r2 b2 : Option (σ × Sig β × β)}
    (hr : ROpt (RPeek R) r1 r2) (hb : ROpt (RPeek R) b1 b2) :
    ROpt (RPeek R) (better ops r1 b1) (better ops r2 b2) := by
  cases r1 with
  | none =>
    cases r2 with
    | some _ => exact hr.elim
    | none => simpa [better] using hb
  | some x1 =>
    cases r2 with
    | none => exact hr.elim
    | some x2 =>
      cases b1 with
      | none =>
        cases b2 with
        | some _ => exact hb.elim
        | none => simpa [better] using hr
      | some y1 =>
        cases b2 with
        | none => exact hb.elim
        | some y2 =>
          simp only [better]
          have e1 : x1.1 = x2.1 := hr.1
          have e2 : y1.1 = y2.1 := hb.1
          rw [e1, e2]
          split
          · exact hr
          · exact hb

theorem sim_peekAll {cur1 : α} {cur2 : β} (hcur : R cur1 cur2) (thr : Nat) :
    ∀ {l1 : List (CObj α)} {l2 : List (CObj β)} {a1 : Option (σ × Sig α × α)} {a2 : Option (σ × Sig β × β)} {r1},
      List.Forall₂ (RObj R P) l1 l2 → ROpt (RPeek R) a1 a2 →
      peekAll K1 ops cur1 thr l1 a1 = .ok r1 →
      ∃ r2, peekAll K2 ops cur2 thr l2 a2 = .ok r2 ∧ List.Forall₂ (RObj R P) r1.1 r2.1 ∧
        ROpt (RPeek R) r1.2 r2.2 := by
  intro l1 l2 a1 a2 r1 hl
  induction hl generalizing a1 a2 r1 with
  | nil =>
    intro ha h
    simp only [peekAll, Except.ok.injEq] at h
    subst h
    exact ⟨_, rfl, List.Forall₂.nil, ha⟩
  | @cons o1 o2 t1 t2 ho _ ih =>
    intro ha h
    simp only [peekAll] at h ⊢
    cases hp : o1.peek K1 ops cur1 thr with
    | error e => rw [hp] at h; cases h
    | ok pr =>
      rw [hp] at h
      obtain ⟨pr2, hp2, ro, rr⟩ := sim_objPeek S ho hcur thr hp
      rw [hp2]
      obtain ⟨o1', x1⟩ := pr
      obtain ⟨o2', x2⟩ := pr2
      simp only [] at h ⊢ ro rr
      cases hrest : peekAll K1 ops cur1 thr t1 (better ops x1 a1) with
      | error e => rw [hrest] at h; cases h
      | ok rr1 =>
        rw [hrest] at h
        obtain ⟨rr2, hrest2, rl, rb⟩ := ih (sim_better rr ha) hrest
        rw [hrest2]
        obtain ⟨t1', b1⟩ := rr1
        obtain ⟨t2', b2⟩ := rr2
        simp only [] at h ⊢
        cases h
        exact ⟨_, rfl, List.Forall₂.cons ro rl, rb⟩

theorem sim_consumeAll {i1 : α} {i2 : β} (hi : R i1 i2) :
    ∀ {l1 : List (CObj α)} {l2 : List (CObj β)} {r1}, List.Forall₂ (RObj R P) l1 l2 →
      consumeAll K1 i1 l1 = .ok r1 → ∃ r2, consumeAll K2 i2 l2 = .ok r2 ∧ List.Forall₂ (RObj R P) r1 r2 := by
  intro l1 l2 r1 hl
  induction hl generalizing r1 with
  | nil =>
    intro h
    simp only [consumeAll, Except.ok.injEq] at h
    subst h
    exact ⟨_, rfl, List.Forall₂.nil⟩
  | @cons o1 o2 t1 t2 ho _ ih =>
    intro h
    simp only [consumeAll] at h ⊢
    cases hc : o1.consume K1 i1 with
    | error e => rw [hc] at h; cases h
    | ok o1' =>
      rw [hc] at h
      obtain ⟨o2', hc2, ro⟩ := sim_objConsume S ho hi hc
      rw [hc2]
      simp only [] at h ⊢
      cases hrest : consumeAll K1 i1 t1 with
      | error e => rw [hrest] at h; cases h
      | ok t1' =>
        rw [hrest] at h
        obtain ⟨t2', hrest2, rl⟩ := ih hrest
        rw [hrest2]
        cases h
        exact ⟨_, rfl, List.Forall₂.cons ro rl⟩

/-- `_find_best` -/
theorem sim_findBest {l1 : List (CObj α)} {l2 : List (CObj β)} (hl : List.Forall₂ (RObj R P) l1 l2)
    {cur1 : α} {cur2 : β} (hcur : R cur1 cur2) (thr : Nat) {r1 : List (CObj α) × Option (σ × Sig α × α)}
    (h : findBest K1 ops l1 cur1 thr = .ok r1) :
    ∃ r2, findBest K2 ops l2 cur2 thr = .ok r2 ∧ List.Forall₂ (RObj R P) r1.1 r2.1 ∧
      ROpt (RPeek R) r1.2 r2.2 := by
  unfold findBest at h ⊢
  cases hp : peekAll K1 ops cur1 thr l1 none with
  | error e => rw [hp] at h; cases h
  | ok pr =>
    rw [hp] at h
    obtain ⟨pr2, hp2, rl, rb⟩ := sim_peekAll S hcur thr (a1 := none) (a2 := none) hl trivial hp
    rw [hp2]
    obtain ⟨cs1, b1⟩ := pr
    obtain ⟨cs2, b2⟩ := pr2
    simp only [] at rl rb
    cases b1 with
    | none =>
      cases b2 with
      | some _ => exact rb.elim
      | none =>
        simp only [] at h ⊢
        cases h
        exact ⟨_, rfl, rl, trivial⟩
    | some x1 =>
      cases b2 with
      | none => exact rb.elim
      | some x2 =>
        obtain ⟨sc1, s1, i1⟩ := x1
        obtain ⟨sc2, s2, i2⟩ := x2
        simp only [] at h ⊢
        cases hc : consumeAll K1 i1 cs1 with
        | error e => rw [hc] at h; cases h
        | ok cs1' =>
          rw [hc] at h
          obtain ⟨cs2', hc2, rl'⟩ := sim_consumeAll S rb.2.2 rl hc
          rw [hc2]
          cases h
          exact ⟨_, rfl, rl', rb⟩

/-! ### `GatherDatabases` -/

structure RGD (R : α → β → Prop) (P : Nat → Prop) (g1 : GD α) (g2 : GD β) : Prop where
  origSig : R g1.origSigMh g2.origSigMh
  query : R g1.query g2.query
  counters : List.Forall₂ (RObj R P) g1.counters g2.counters
  thr : g1.thresholdBp = g2.thresholdBp
  track : g1.trackAbundance = g2.trackAbundance
  origQ : R g1.origQueryMh g2.origQueryMh
  abunds : g1.origQueryAbunds = g2.origQueryAbunds
  noident : R g1.noidentMh g2.noidentMh
  cmp : g1.cmpScaled = g2.cmpScaled
  cmpP : g1.cmpScaled = 0 ∨ P g1.cmpScaled
  nsum : g1.noidentSum = g2.noidentSum
  tot : g1.totalWeighted = g2.totalWeighted
  rank : g1.resultN = g2.resultN

/-- `_update_scaled` -/
theorem sim_updateScaled {g1 : GD α} {g2 : GD β} (hg : RGD R P g1 g2) {sc : Nat} (hsc : P sc) {r1 : GD α}
    (h : g1.updateScaled K1 sc = .ok r1) :
    ∃ r2, g2.updateScaled K2 sc = .ok r2 ∧ RGD R P r1 r2 ∧ P r1.cmpScaled := by
  unfold GD.updateScaled at h ⊢
  simp only [] at h ⊢
  rw [← hg.cmp]
  have hPmax : P (max g1.cmpScaled sc) := by
    rcases hg.cmpP with h0 | hp
    · rw [h0, Nat.zero_max]; exact hsc
    · exact S.Pmax hp hsc
  by_cases hne : g1.cmpScaled ≠ max g1.cmpScaled sc
  · rw [if_pos hne] at h ⊢
    cases h1 : K1.dsM g1.origQueryMh sc with
    | error e => rw [h1] at h; cases h
    | ok oq1 =>
      rw [h1] at h
      obtain ⟨oq2, h1', roq⟩ := S.dsM hg.origQ hsc h1
      rw [h1']
      simp only [] at h ⊢
      cases h2 : K1.dsF g1.noidentMh sc with
      | error e => rw [h2] at h; cases h
      | ok ni1 =>
        rw [h2] at h
        obtain ⟨ni2, h2', rni⟩ := S.dsF hg.noident hsc h2
        rw [h2']
        simp only [] at h ⊢
        rw [← hg.abunds, ← S.mins rni, ← S.mins roq]
        cases h3 : abSum g1.origQueryAbunds (K1.mins ni1) with
        | error e => rw [h3] at h; cases h
        | ok nsum =>
          rw [h3] at h
          simp only [] at h ⊢
          cases h4 : abSum g1.origQueryAbunds (K1.mins oq1) with
          | error e => rw [h4] at h; cases h
          | ok tot =>
            rw [h4] at h
            simp only [] at h ⊢
            cases h
            exact ⟨_, rfl, ⟨hg.origSig, hg.query, hg.counters, hg.thr, hg.track, roq, rfl, rni, rfl,
              Or.inr hPmax, rfl, rfl, hg.rank⟩, hPmax⟩
  · rw [if_neg hne] at h ⊢
    cases h
    refine ⟨_, rfl, hg, ?_⟩
    have : g1.cmpScaled = max g1.cmpScaled sc := by simpa using hne
    rw [this]
    exact hPmax

theorem sim_fracCmpCore {a1 b1 : α} {a2 b2 : β} (ha : R a1 a2) (hb : R b1 b2) {sc : Nat} (hsc : P sc)
    {r1 : α × α × α} (h : fracCmpCore K1 a1 b1 sc = .ok r1) :
    ∃ r2, fracCmpCore K2 a2 b2 sc = .ok r2 ∧ R r1.1 r2.1 ∧ R r1.2.1 r2.2.1 ∧ R r1.2.2 r2.2.2 := by
  unfold fracCmpCore at h ⊢
  cases h1 : K1.dsF a1 sc with
  | error e => rw [h1] at h; cases h
  | ok x1 =>
    rw [h1] at h
    obtain ⟨x2, h1', rx⟩ := S.dsF ha hsc h1
    rw [h1']
    simp only [] at h ⊢
    cases h2 : K1.dsF b1 sc with
    | error e => rw [h2] at h; cases h
    | ok y1 =>
      rw [h2] at h
      obtain ⟨y2, h2', ry⟩ := S.dsF hb hsc h2
      rw [h2']
      simp only [] at h ⊢
      rw [← S.compatible rx ry]
      by_cases hc : (!K1.compatible x1 y1) = true
      · rw [if_pos hc] at h; cases h
      rw [if_neg hc] at h ⊢
      cases h3 : K1.flat x1 with
      | error e => rw [h3] at h; cases h
      | ok fx1 =>
        rw [h3] at h
        obtain ⟨fx2, h3', rfx⟩ := S.flat rx h3
        rw [h3']
        simp only [] at h ⊢
        cases h4 : K1.flat y1 with
        | error e => rw [h4] at h; cases h
        | ok fy1 =>
          rw [h4] at h
          obtain ⟨fy2, h4', rfy⟩ := S.flat ry h4
          rw [h4']
          simp only [] at h ⊢
          cases h5 : K1.and fx1 fy1 with
          | error e => rw [h5] at h; cases h
          | ok i1 =>
            rw [h5] at h
            obtain ⟨i2, h5', ri⟩ := S.and rfx rfy h5
            rw [h5']
            cases h
            exact ⟨_, rfl, rx, ry, ri⟩

theorem sim_fracCmp {a1 b1 : α} {a2 b2 : β} (ha : R a1 a2) (hb : R b1 b2) {sc : Nat} (hsc : P sc) (ign : Bool)
    {r1 : α × α × α} (h : fracCmp K1 a1 b1 sc ign = .ok r1) :
    ∃ r2, fracCmp K2 a2 b2 sc ign = .ok r2 ∧ R r1.1 r2.1 ∧ R r1.2.1 r2.2.1 ∧ R r1.2.2 r2.2.2 := by
  unfold fracCmp at h ⊢
  rw [← S.num ha, ← S.num hb, ← S.scaled ha, ← S.scaled hb]
  split at h
  · cases h
  · rename_i hc
    rw [if_neg hc]
    cases ign with
    | false =>
      simp only [Bool.false_eq_true, if_false] at h ⊢
      exact sim_fracCmpCore S ha hb hsc h
    | true =>
      simp only [if_true] at h ⊢
      cases h1 : K1.flat a1 with
      | error e => rw [h1] at h; cases h
      | ok fa1 =>
        rw [h1] at h
        obtain ⟨fa2, h1', rfa⟩ := S.flat ha h1
        rw [h1']
        simp only [] at h ⊢
        cases h2 : K1.flat b1 with
        | error e => rw [h2] at h; cases h
        | ok fb1 =>
          rw [h2] at h
          obtain ⟨fb2, h2', rfb⟩ := S.flat hb h2
          rw [h2']
          exact sim_fracCmpCore S rfa rfb hsc h

/-- `GatherResult`: the same record -/
theorem sim_buildResult {g1 : GD α} {g2 : GD β} (hg : RGD R P g1 g2) {b1 : Sig α} {b2 : Sig β}
    (hb : RSig R b1 b2) {sc : Nat} (hsc : P sc) {q1 : α} {q2 : β} (hq : R q1 q2) (swf N noid : Nat)
    {res : GRes σ} (h : buildResult K1 ops g1 b1 sc q1 swf N noid = .ok res) :
    buildResult K2 ops g2 b2 sc q2 swf N noid = .ok res := by
  unfold buildResult at h ⊢
  simp only [] at h ⊢
  rw [← hg.tot, ← hg.abunds, ← S.scaled hg.origSig, ← S.scaled hb.2.2, ← hg.track]
  split at h
  · cases h
  rename_i c1
  rw [if_neg c1]
  split at h
  · cases h
  rename_i c2
  rw [if_neg c2]
  split at h
  · cases h
  rename_i c3
  rw [if_neg c3]
  cases hf1 : fracCmp K1 g1.origSigMh b1.mh sc (!g1.trackAbundance) with
  | error e => rw [hf1] at h; cases h
  | ok r1 =>
    rw [hf1] at h
    obtain ⟨r1', hf1', _, rm2, ri0⟩ := sim_fracCmp S hg.origSig hb.2.2 hsc _ hf1
    rw [hf1']
    obtain ⟨m1, m2, i0⟩ := r1
    obtain ⟨m1', m2', i0'⟩ := r1'
    simp only [] at h ⊢ rm2 ri0
    cases hfl : K1.flat b1.mh with
    | error e => rw [hfl] at h; cases h
    | ok bf1 =>
      rw [hfl] at h
      obtain ⟨bf2, hfl', rbf⟩ := S.flat hb.2.2 hfl
      rw [hfl']
      simp only [] at h ⊢
      rw [← S.scaled hq, ← S.scaled rbf]
      have hP2 : P (max (K1.scaled q1) (K1.scaled bf1)) := S.Pmax (S.scaledP hq) (S.scaledP rbf)
      cases hf2 : fracCmp K1 q1 bf1 (max (K1.scaled q1) (K1.scaled bf1)) false with
      | error e => rw [hf2] at h; cases h
      | ok r2 =>
        rw [hf2] at h
        obtain ⟨r2', hf2', rg1, rg2, ri1⟩ := sim_fracCmp S hq rbf hP2 false hf2
        rw [hf2']
        obtain ⟨g1', g2', i1⟩ := r2
        obtain ⟨g1'', g2'', i1'⟩ := r2'
        simp only [] at h ⊢ rg1 rg2 ri1
        split at h
        · cases h
        rename_i c4
        rw [if_neg c4]
        rw [← S.len ri1]
        split at h
        · cases h
        rename_i c5
        rw [if_neg c5]
        rw [← S.mins ri1, ← S.len ri0, ← S.len rg2, ← S.scaled rg2, ← S.len rm2, ← S.scaled rm2,
          ← S.len rg1, ← S.scaled rg1, ← S.mins ri0, ← hb.1, ← hb.2.1, ← hg.rank]
        exact h

/-- the part of `__next__` after `_find_best` returned a match -/
theorem sim_report {g1 : GD α} {g2 : GD β} (hg : RGD R P g1 g2) {b1 : Sig α} {b2 : Sig β}
    (hb : RSig R b1 b2) {r1 : GD α × Option (GRes σ)} (h : GD.report K1 ops g1 b1 = .ok r1) :
    ∃ g2', GD.report K2 ops g2 b2 = .ok (g2', r1.2) ∧ RGD R P r1.1 g2' := by
  unfold GD.report at h ⊢
  simp only [] at h ⊢
  rw [← S.scaled hb.2.2]
  split at h
  · cases h
  rename_i c0
  rw [if_neg c0]
  cases hu : g1.updateScaled K1 (K1.scaled b1.mh) with
  | error e => rw [hu] at h; cases h
  | ok u1 =>
    rw [hu] at h
    obtain ⟨u2, hu', ru, hPu⟩ := sim_updateScaled S hg (S.scaledP hb.2.2) hu
    rw [hu']
    simp only [] at h ⊢
    rw [← ru.cmp]
    cases h1 : K1.dsF u1.query u1.cmpScaled with
    | error e => rw [h1] at h; cases h
    | ok qm1 =>
      rw [h1] at h
      obtain ⟨qm2, h1', rqm⟩ := S.dsF ru.query hPu h1
      rw [h1']
      simp only [] at h ⊢
      cases h2 : K1.dsF b1.mh u1.cmpScaled with
      | error e => rw [h2] at h; cases h
      | ok f01 =>
        rw [h2] at h
        obtain ⟨f02, h2', rf0⟩ := S.dsF hb.2.2 hPu h2
        rw [h2']
        simp only [] at h ⊢
        cases h3 : K1.flat f01 with
        | error e => rw [h3] at h; cases h
        | ok fm1 =>
          rw [h3] at h
          obtain ⟨fm2, h3', rfm⟩ := S.flat rf0 h3
          rw [h3']
          simp only [] at h ⊢
          have rnew : R (K1.removeFrom (K1.toMutable qm1) fm1) (K2.removeFrom (K2.toMutable qm2) fm2) :=
            S.removeFrom (S.toMutable rqm) rfm
          rw [← ru.abunds, ← S.mins rnew]
          cases h4 : abSum u1.origQueryAbunds (K1.mins (K1.removeFrom (K1.toMutable qm1) fm1)) with
          | error e => rw [h4] at h; cases h
          | ok missed =>
            rw [h4] at h
            simp only [] at h ⊢
            rw [← ru.tot, ← ru.nsum, ← S.len ru.origQ, ← S.len ru.noident, ← S.scaled ru.noident]
            cases h5 : buildResult K1 ops u1 b1 u1.cmpScaled u1.query
                (u1.totalWeighted - (missed + u1.noidentSum)) (len K1 u1.origQueryMh + len K1 u1.noidentMh)
                (len K1 u1.noidentMh * K1.scaled u1.noidentMh) with
            | error e => rw [h5] at h; cases h
            | ok res =>
              rw [h5] at h
              rw [sim_buildResult S ru hb hPu ru.query _ _ _ h5]
              simp only [] at h ⊢
              cases h
              refine ⟨_, by rw [ru.rank], ?_⟩
              exact ⟨ru.origSig, rnew, ru.counters, ru.thr, ru.track, ru.origQ, rfl, ru.noident, rfl,
                ru.cmpP, rfl, rfl, by simp only [ru.rank]⟩

/-- **one call of `__next__`**: whatever the `K1` instance returns, the `K2` instance returns the same result
record (or the same `StopIteration`) and a related state -/
theorem sim_next {g1 : GD α} {g2 : GD β} (hg : RGD R P g1 g2) {r1 : GD α × Option (GRes σ)}
    (h : g1.next K1 ops = .ok r1) :
    ∃ g2', g2.next K2 ops = .ok (g2', r1.2) ∧ RGD R P r1.1 g2' := by
  unfold GD.next at h ⊢
  rw [← S.len hg.query, ← hg.thr]
  by_cases h0 : len K1 g1.query = 0
  · rw [if_pos h0] at h ⊢
    cases h
    exact ⟨_, rfl, hg⟩
  rw [if_neg h0] at h ⊢
  cases hf : findBest K1 ops g1.counters g1.query g1.thresholdBp with
  | error e => rw [hf] at h; cases h
  | ok fr =>
    rw [hf] at h
    obtain ⟨fr2, hf2, rl, rb⟩ := sim_findBest S hg.counters hg.query _ hf
    rw [hf2]
    obtain ⟨cs1, b1⟩ := fr
    obtain ⟨cs2, b2⟩ := fr2
    simp only [] at rl rb
    cases b1 with
    | none =>
      cases b2 with
      | some _ => exact rb.elim
      | none =>
        simp only [] at h ⊢
        cases h
        exact ⟨_, rfl, hg.origSig, hg.query, rl, rfl, hg.track, hg.origQ, hg.abunds, hg.noident, hg.cmp, hg.cmpP,
          hg.nsum, hg.tot, hg.rank⟩
    | some x1 =>
      cases b2 with
      | none => exact rb.elim
      | some x2 =>
        obtain ⟨sc1, s1, i1⟩ := x1
        obtain ⟨sc2, s2, i2⟩ := x2
        simp only [] at h ⊢
        have hg' : RGD R P { g1 with counters := cs1 }
            { g2 with counters := cs2, thresholdBp := g1.thresholdBp } :=
          ⟨hg.origSig, hg.query, rl, rfl, hg.track, hg.origQ, hg.abunds, hg.noident, hg.cmp, hg.cmpP,
            hg.nsum, hg.tot, hg.rank⟩
        exact sim_report S hg' rb.2.1 h

/-- **the whole iteration**: the same list of results -/
theorem sim_run : ∀ (n : Nat) {g1 : GD α} {g2 : GD β}, RGD R P g1 g2 → ∀ {r1 : GD α × List (GRes σ)},
    g1.run K1 ops n = .ok r1 → ∃ g2', g2.run K2 ops n = .ok (g2', r1.2) ∧ RGD R P r1.1 g2' := by
  intro n
  induction n with
  | zero =>
    intro g1 g2 hg r1 h
    simp only [GD.run, Except.ok.injEq] at h
    subst h
    exact ⟨g2, rfl, hg⟩
  | succ n ih =>
    intro g1 g2 hg r1 h
    simp only [GD.run] at h ⊢
    cases hn : g1.next K1 ops with
    | error e => rw [hn] at h; cases h
    | ok nr =>
      rw [hn] at h
      obtain ⟨g2', hn2, rg⟩ := sim_next S hg hn
      rw [hn2]
      obtain ⟨g1', o⟩ := nr
      simp only [] at h ⊢ rg
      cases o with
      | none =>
        simp only [] at h ⊢
        cases h
        exact ⟨_, rfl, rg⟩
      | some res =>
        simp only [] at h ⊢
        cases hr : GD.run K1 ops n g1' with
        | error e => rw [hr] at h; cases h
        | ok rr =>
          rw [hr] at h
          obtain ⟨g2'', hr2, rg'⟩ := ih rg hr
          rw [hr2]
          obtain ⟨gf, rs⟩ := rr
          simp only [] at h ⊢
          cases h
          exact ⟨_, rfl, rg'⟩

/-! ### establishment: `counter_gather`, `GatherDatabases.__init__` -/

theorem sim_flattenAndDownsample {a1 : α} {a2 : β} (ha : R a1 a2) {sc : Nat} (hsc : P sc) {r1 : α}
    (h : flattenAndDownsample K1 a1 sc = .ok r1) :
    ∃ r2, flattenAndDownsample K2 a2 sc = .ok r2 ∧ R r1 r2 := by
  unfold flattenAndDownsample at h ⊢
  rw [← S.scaled ha]
  split at h
  · cases h
  rename_i c0
  rw [if_neg c0]
  cases hf : K1.flat a1 with
  | error e => rw [hf] at h; cases h
  | ok f1 =>
    rw [hf] at h
    obtain ⟨f2, hf', rf⟩ := S.flat ha hf
    rw [hf']
    simp only [] at h ⊢
    rw [← S.scaled rf]
    by_cases hgt : sc > K1.scaled f1
    · rw [if_pos hgt] at h ⊢
      exact S.dsM rf hsc h
    · rw [if_neg hgt] at h ⊢
      cases h
      exact ⟨_, rfl, rf⟩

theorem sim_findOne {q1 : α} {q2 : β} (hq : R q1 q2) {s1 : Sig α} {s2 : Sig β} (hs : RSig R s1 s2)
    (thr : F64.F) {r : F64.F × Bool} (h : findOne K1 q1 s1 thr = .ok r) : findOne K2 q2 s2 thr = .ok r := by
  unfold findOne at h ⊢
  rw [← S.scaled hq]
  cases h1 : flattenAndDownsample K1 s1.mh (K1.scaled q1) with
  | error e => rw [h1] at h; cases h
  | ok sm1 =>
    rw [h1] at h
    obtain ⟨sm2, h1', rsm⟩ := sim_flattenAndDownsample S hs.2.2 (S.scaledP hq) h1
    rw [h1']
    simp only [] at h ⊢
    rw [← S.scaled rsm]
    cases h2 : flattenAndDownsample K1 q1 (K1.scaled sm1) with
    | error e => rw [h2] at h; cases h
    | ok qm1 =>
      rw [h2] at h
      obtain ⟨qm2, h2', rqm⟩ := sim_flattenAndDownsample S hq (S.scaledP rsm) h2
      rw [h2']
      simp only [] at h ⊢
      rw [← S.track rqm, ← S.track rsm, ← S.compatible rqm rsm]
      split at h
      · cases h
      rename_i c1
      rw [if_neg c1]
      split at h
      · cases h
      rename_i c2
      rw [if_neg c2]
      cases h3 : K1.interSize qm1 sm1 with
      | error e => rw [h3] at h; cases h
      | ok v =>
        rw [h3] at h
        rw [S.interSize rqm rsm h3]
        rw [← S.len rqm]
        exact h

theorem sim_findLoop {q1 : α} {q2 : β} (hq : R q1 q2) (bo : Bool) :
    ∀ {d1 : List (Sig α)} {d2 : List (Sig β)} (thr : F64.F) {r1 : List (F64.F × Sig α)},
      List.Forall₂ (RSig R) d1 d2 → findLoop K1 q1 bo d1 thr = .ok r1 →
      ∃ r2, findLoop K2 q2 bo d2 thr = .ok r2 ∧
        List.Forall₂ (fun x y => x.1 = y.1 ∧ RSig R x.2 y.2) r1 r2 := by
  intro d1 d2 thr r1 hd
  induction hd generalizing thr r1 with
  | nil =>
    intro h
    simp only [findLoop, Except.ok.injEq] at h
    subst h
    exact ⟨[], rfl, List.Forall₂.nil⟩
  | @cons s1 s2 t1 t2 hs _ ih =>
    intro h
    simp only [findLoop] at h ⊢
    cases h1 : findOne K1 q1 s1 thr with
    | error e => rw [h1] at h; cases h
    | ok v =>
      rw [h1] at h
      rw [sim_findOne S hq hs thr h1]
      obtain ⟨score, ok⟩ := v
      simp only [] at h ⊢
      cases ok with
      | true =>
        simp only [if_true] at h ⊢
        cases h2 : findLoop K1 q1 bo t1
            (if bo = true then if F64.ge thr score = true then thr else score else thr) with
        | error e => rw [h2] at h; cases h
        | ok l1 =>
          rw [h2] at h
          obtain ⟨l2, h2', rl⟩ := ih _ h2
          rw [h2']
          cases h
          exact ⟨_, rfl, List.Forall₂.cons ⟨rfl, hs⟩ rl⟩
      | false =>
        simp only [Bool.false_eq_true, if_false] at h ⊢
        exact ih _ h

theorem sim_prefetch {d1 : List (Sig α)} {d2 : List (Sig β)} (hd : List.Forall₂ (RSig R) d1 d2)
    {q1 : α} {q2 : β} (hq : R q1 q2) (thr : Nat) (bo : Bool) {r1 : List (F64.F × Sig α)}
    (h : prefetch K1 d1 q1 thr bo = .ok r1) :
    ∃ r2, prefetch K2 d2 q2 thr bo = .ok r2 ∧
      List.Forall₂ (fun x y => x.1 = y.1 ∧ RSig R x.2 y.2) r1 r2 := by
  unfold prefetch at h ⊢
  have hemp : d1.isEmpty = d2.isEmpty := by cases hd <;> rfl
  rw [← hemp, ← S.len hq, ← S.scaled hq, ← S.track hq]
  split at h
  · cases h
  rename_i c0
  rw [if_neg c0]
  split at h
  · cases h
  rename_i c1
  rw [if_neg c1]
  split at h
  · cases h
  rename_i c2
  rw [if_neg c2]
  cases hc : calcThreshold thr (K1.scaled q1) (len K1 q1) with
  | error e => rw [hc] at h; cases h
  | ok tn =>
    rw [hc] at h
    obtain ⟨t, nT⟩ := tn
    simp only [] at h ⊢
    split at h
    · cases h
    rename_i c3
    rw [if_neg c3]
    exact sim_findLoop S hq bo t hd h

omit S in
theorem sim_upsert {e1 : CEntry α} {e2 : CEntry β} (he : REnt R e1 e2) :
    ∀ {l1 : List (CEntry α)} {l2 : List (CEntry β)}, List.Forall₂ (REnt R) l1 l2 →
      List.Forall₂ (REnt R) (upsert e1 l1) (upsert e2 l2) := by
  intro l1 l2 h
  induction h with
  | nil => exact List.Forall₂.cons he List.Forall₂.nil
  | @cons x y xs ys hxy hrest ih =>
    simp only [upsert]
    rw [hxy.1, he.1]
    split
    · exact List.Forall₂.cons he hrest
    · exact List.Forall₂.cons hxy ih

theorem sim_add {c1 : Counter α} {c2 : Counter β} (hc : RCnt R P c1 c2) {s1 : Sig α} {s2 : Sig β}
    (hs : RSig R s1 s2) {r1 : Counter α} (h : c1.add K1 s1 = .ok r1) :
    ∃ r2, c2.add K2 s2 = .ok r2 ∧ RCnt R P r1 r2 := by
  unfold Counter.add at h ⊢
  cases hcc : K1.cc c1.origQuery s1.mh with
  | error e => rw [hcc] at h; cases h
  | ok k =>
    rw [hcc] at h
    rw [S.cc hc.orig hs.2.2 hcc]
    simp only [] at h ⊢
    split at h
    · rename_i hk
      rw [if_pos hk]
      cases h
      refine ⟨_, rfl, hc.orig, ?_, S.Pmax hc.scaledP (S.scaledP hs.2.2), ?_⟩
      · show max c1.scaled (K1.scaled s1.mh) = max c2.scaled (K2.scaled s2.mh)
        rw [hc.scaled, S.scaled hs.2.2]
      · exact sim_upsert (R := R) (e1 := ⟨s1.md5, (k : Int), s1⟩) (e2 := ⟨s2.md5, (k : Int), s2⟩)
          ⟨hs.1, rfl, hs⟩ hc.entries
    · cases h

theorem sim_addAll : ∀ {l1 : List (F64.F × Sig α)} {l2 : List (F64.F × Sig β)} {c1 : Counter α} {c2 : Counter β}
    {r1 : Counter α}, List.Forall₂ (fun x y => x.1 = y.1 ∧ RSig R x.2 y.2) l1 l2 → RCnt R P c1 c2 →
    addAll K1 c1 l1 = .ok r1 → ∃ r2, addAll K2 c2 l2 = .ok r2 ∧ RCnt R P r1 r2 := by
  intro l1 l2 c1 c2 r1 hl
  induction hl generalizing c1 c2 r1 with
  | nil =>
    intro hc h
    simp only [addAll, Except.ok.injEq] at h
    subst h
    exact ⟨_, rfl, hc⟩
  | @cons x y xs ys hxy _ ih =>
    intro hc h
    obtain ⟨sc1, s1⟩ := x
    obtain ⟨sc2, s2⟩ := y
    simp only [addAll] at h ⊢
    cases ha : c1.add K1 s1 with
    | error e => rw [ha] at h; cases h
    | ok c1' =>
      rw [ha] at h
      obtain ⟨c2', ha', rc⟩ := sim_add S hc hxy.2 ha
      rw [ha']
      exact ih rc h

theorem sim_counterNew {q1 : α} {q2 : β} (hq : R q1 q2) {r1 : Counter α} (h : Counter.new K1 q1 = .ok r1) :
    ∃ r2, Counter.new K2 q2 = .ok r2 ∧ RCnt R P r1 r2 := by
  unfold Counter.new at h ⊢
  rw [← S.scaled hq]
  split at h
  · cases h
  rename_i c0
  rw [if_neg c0]
  cases hf2 : K1.flat q1 with
  | error e => rw [hf2] at h; cases h
  | ok f1 =>
    rw [hf2] at h
    obtain ⟨f2, hf2', rf⟩ := S.flat hq hf2
    rw [hf2']
    cases h
    exact ⟨_, rfl, rf, rfl, S.scaledP hq, List.Forall₂.nil⟩

/-- `Index.counter_gather` -/
theorem sim_counterGather {d1 : List (Sig α)} {d2 : List (Sig β)} (hd : List.Forall₂ (RSig R) d1 d2)
    {q1 : α} {q2 : β} (hq : R q1 q2) (thr : Nat) {r1 : Counter α}
    (h : counterGather K1 d1 q1 thr = .ok r1) :
    ∃ r2, counterGather K2 d2 q2 thr = .ok r2 ∧ RCnt R P r1 r2 := by
  unfold counterGather at h ⊢
  cases hf : K1.flat q1 with
  | error e => rw [hf] at h; cases h
  | ok pq1 =>
    rw [hf] at h
    obtain ⟨pq2, hf', rpq⟩ := S.flat hq hf
    rw [hf']
    simp only [] at h ⊢
    cases hn : Counter.new K1 pq1 with
    | error e => rw [hn] at h; cases h
    | ok c1 =>
      rw [hn] at h
      obtain ⟨c2, hn', rc⟩ := sim_counterNew S rpq hn
      rw [hn']
      simp only [] at h ⊢
      cases hp : prefetch K1 d1 pq1 thr false with
      | error e => rw [hp] at h; cases h
      | ok l1 =>
        rw [hp] at h
        obtain ⟨l2, hp', rl⟩ := sim_prefetch S hd rpq thr false hp
        rw [hp']
        simp only [] at h ⊢
        exact sim_addAll S rl rc h

theorem sim_initCore {q1 : α} {q2 : β} (hq : R q1 q2) {cs1 : List (CObj α)} {cs2 : List (CObj β)}
    (hcs : List.Forall₂ (RObj R P) cs1 cs2) (thr : Nat) (tr : Bool) (ab : List (Nat × Nat))
    {n1 qm1 : α} {n2 qm2 : β} (rn : R n1 n2) (rqm : R qm1 qm2) {r1 : GD α}
    (h : (match K1.flat qm1 with
      | Except.error e => (Except.error e : Except GErr (GD α))
      | Except.ok oq =>
        GD.updateScaled K1
          { origSigMh := q1, query := oq, counters := cs1, thresholdBp := thr, trackAbundance := tr,
            origQueryMh := oq, origQueryAbunds := ab, noidentMh := n1, cmpScaled := 0, noidentSum := 0,
            totalWeighted := 0, resultN := 0 } (K1.scaled oq)) = .ok r1) :
    ∃ r2, (match K2.flat qm2 with
      | Except.error e => (Except.error e : Except GErr (GD β))
      | Except.ok oq =>
        GD.updateScaled K2
          { origSigMh := q2, query := oq, counters := cs2, thresholdBp := thr, trackAbundance := tr,
            origQueryMh := oq, origQueryAbunds := ab, noidentMh := n2, cmpScaled := 0, noidentSum := 0,
            totalWeighted := 0, resultN := 0 } (K2.scaled oq)) = .ok r2 ∧ RGD R P r1 r2 := by
  cases hf : K1.flat qm1 with
  | error e => rw [hf] at h; cases h
  | ok oq1 =>
    rw [hf] at h
    obtain ⟨oq2, hf', roq⟩ := S.flat rqm hf
    rw [hf']
    simp only [] at h ⊢
    rw [← S.scaled roq]
    have hrel : RGD R P
        { origSigMh := q1, query := oq1, counters := cs1, thresholdBp := thr, trackAbundance := tr,
          origQueryMh := oq1, origQueryAbunds := ab, noidentMh := n1, cmpScaled := 0, noidentSum := 0,
          totalWeighted := 0, resultN := 0 }
        { origSigMh := q2, query := oq2, counters := cs2, thresholdBp := thr, trackAbundance := tr,
          origQueryMh := oq2, origQueryAbunds := ab, noidentMh := n2, cmpScaled := 0, noidentSum := 0,
          totalWeighted := 0, resultN := 0 } :=
      ⟨hq, roq, hcs, rfl, rfl, roq, rfl, rn, rfl, Or.inl rfl, rfl, rfl, rfl⟩
    obtain ⟨r2, hu, rg, _⟩ := sim_updateScaled S hrel (S.scaledP roq) h
    exact ⟨r2, hu, rg⟩

/-- `GatherDatabases.__init__` -/
theorem sim_init {q1 : α} {q2 : β} (hq : R q1 q2) {cs1 : List (CObj α)} {cs2 : List (CObj β)}
    (hcs : List.Forall₂ (RObj R P) cs1 cs2) (thr : Nat) (ign : Bool)
    {ni1 id1 : Option α} {ni2 id2 : Option β} (hni : ROpt R ni1 ni2) (hid : ROpt R id1 id2) {r1 : GD α}
    (h : GD.init K1 q1 cs1 thr ign ni1 id1 = .ok r1) :
    ∃ r2, GD.init K2 q2 cs2 thr ign ni2 id2 = .ok r2 ∧ RGD R P r1 r2 := by
  unfold GD.init at h ⊢
  simp only [] at h ⊢
  rw [← S.track hq, ← S.pairs hq, ← S.mins hq]
  cases ni1 with
  | none =>
    cases ni2 with
    | some _ => exact hni.elim
    | none =>
      simp only [] at h ⊢
      cases hc : K1.copyAndClear q1 with
      | error e => rw [hc] at h; cases h
      | ok n1 =>
        rw [hc] at h
        obtain ⟨n2, hc', rn⟩ := S.copyAndClear hq hc
        rw [hc']
        simp only [] at h ⊢
        cases id1 with
        | none =>
          cases id2 with
          | some _ => exact hid.elim
          | none => exact sim_initCore S hq hcs thr _ _ rn (S.removeFrom (S.toMutable hq) rn) h
        | some a =>
          cases id2 with
          | none => exact hid.elim
          | some b => exact sim_initCore S hq hcs thr _ _ rn (S.toMutable hid) h
  | some n1 =>
    cases ni2 with
    | none => exact hni.elim
    | some n2 =>
      simp only [] at h ⊢
      cases id1 with
      | none =>
        cases id2 with
        | some _ => exact hid.elim
        | none => exact sim_initCore S hq hcs thr _ _ hni (S.removeFrom (S.toMutable hq) hni) h
      | some a =>
        cases id2 with
        | none => exact hid.elim
        | some b => exact sim_initCore S hq hcs thr _ _ hni (S.toMutable hid) h

end

end Sm.Gather
