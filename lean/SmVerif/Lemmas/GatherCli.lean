/-
C07, the command-line path: `commands.gather` splits the (flattened) query into the hashes some prefetch
candidate contains (`ident_mh`) and the rest (`noident_mh`) and hands both to `GatherDatabases`.  This file
establishes the run invariants (`GInv`, `AInv`) for that path, so that the per-round and whole-run theorems
(`round`, `column_defs`, `uniq_disjoint`, `fractions_sum`, termination) hold for the CLI as they do for the
plain API.

The key fact: the counters were counted against the WHOLE query, gather starts from `ident_mh` only, but every
candidate's overlap with the query lies inside `ident_mh` (it is the union of exactly those overlaps), so the
counters are exact for `ident_mh` as well.
-/
import SmVerif.Lemmas.GatherReach
import SmVerif.Lemmas.GatherNoAssert

set_option autoImplicit false

namespace Sm.Gather

open Sm

/-! ### sorted union -/

namespace LS

@[simp] theorem unionL_nil_left (ys : List Nat) : unionL [] ys = ys := rfl

@[simp] theorem unionL_nil_right (xs : List Nat) : unionL xs [] = xs := by
  cases xs <;> rfl

theorem unionL_cons_cons (x : Nat) (xs : List Nat) (y : Nat) (ys : List Nat) :
    unionL (x :: xs) (y :: ys) =
      if y < x then y :: unionL (x :: xs) ys
      else if y = x then x :: unionL xs ys
      else x :: unionL xs (y :: ys) := rfl

theorem mem_unionL (k : Nat) : ∀ (xs ys : List Nat), k ∈ unionL xs ys ↔ k ∈ xs ∨ k ∈ ys := by
  apply two_cursor_induct
  · intro ys; simp
  · intro x xs; simp
  · intro x xs y ys ih1 ih2 ih3
    rw [unionL_cons_cons]
    split
    · simp only [List.mem_cons] at ih1 ⊢
      rw [ih1]
      grind
    · split
      · rename_i _ he
        simp only [List.mem_cons] at ih2 ⊢
        rw [ih2, he]
        grind
      · simp only [List.mem_cons] at ih3 ⊢
        rw [ih3]
        grind

theorem sorted_unionL : ∀ (xs ys : List Nat), Sorted xs → Sorted ys → Sorted (unionL xs ys) := by
  apply two_cursor_induct
  · intro ys _ h; simpa using h
  · intro x xs h _; simpa using h
  · intro x xs y ys ih1 ih2 ih3 hx hy
    have hxt : Sorted xs := Sorted.tail hx
    have hyt : Sorted ys := Sorted.tail hy
    have hxh := Sorted.head_lt hx
    have hyh := Sorted.head_lt hy
    rw [unionL_cons_cons]
    split
    · rename_i hlt
      refine List.pairwise_cons.2 ⟨?_, ih1 hx hyt⟩
      intro k hk
      rcases (mem_unionL k _ _).1 hk with hk | hk
      · rcases List.mem_cons.1 hk with rfl | hk
        · exact hlt
        · have := hxh k hk; omega
      · exact hyh k hk
    · split
      · rename_i _ he
        refine List.pairwise_cons.2 ⟨?_, ih2 hxt hyt⟩
        intro k hk
        rcases (mem_unionL k _ _).1 hk with hk | hk
        · exact hxh k hk
        · have := hyh k hk; omega
      · rename_i hnlt hne
        refine List.pairwise_cons.2 ⟨?_, ih3 hxt hy⟩
        intro k hk
        rcases (mem_unionL k _ _).1 hk with hk | hk
        · exact hxh k hk
        · rcases List.mem_cons.1 hk with rfl | hk
          · omega
          · have := hyh k hk; omega

end LS

/-! ### `union_found` and the ident / noident split on list sketches -/

theorem flattenAndIntersect_ls {a b : LS} (ha : Sorted a.hs) (hb : Sorted b.hs) :
    flattenAndIntersect lsOps a b =
      .ok ⟨max a.scaled b.scaled,
        (dn (max a.scaled b.scaled) a.hs).filter (inL (dn (max a.scaled b.scaled) b.hs)), none⟩ := by
  unfold flattenAndIntersect
  simp only [lsOps_flat, lsOps_scaled, lsOps_dsF]
  have e1 : a.flat.ds (max a.scaled b.scaled) = .ok (a.flat.dsv (max a.scaled b.scaled)) :=
    LS.ds_eq (x := a.flat) (show a.flat.scaled ≤ _ from le_max_left _ _)
  have e2 : b.flat.ds (max a.scaled b.scaled) = .ok (b.flat.dsv (max a.scaled b.scaled)) :=
    LS.ds_eq (x := b.flat) (show b.flat.scaled ≤ _ from le_max_right _ _)
  rw [e1, e2]
  simp only [lsOps_and]
  have hsa : Sorted (a.flat.dsv (max a.scaled b.scaled)).hs := sorted_dn ha _
  have hsb : Sorted (b.flat.dsv (max a.scaled b.scaled)).hs := sorted_dn hb _
  unfold LS.and
  rw [if_neg (by simp [LS.dsv, LS.flat, LS.filterH]), if_neg (by simp [LS.dsv_scaled])]
  rw [interL_eq_filter _ _ hsa hsb]
  rfl

/-- a hash of the query some entry of the counter list covers (at the resolution the entry is compared at) -/
def CovE (sq : Nat) (Q : List Nat) (es : List (CEntry LS)) (x : Nat) : Prop :=
  ∃ e ∈ es, x ∈ dn (max e.sig.mh.scaled sq) e.sig.mh.hs ∧ x ∈ dn (max e.sig.mh.scaled sq) Q

theorem unionFoundLoop_ls {q : LS} (hq : q.WF) :
    ∀ (es : List (CEntry LS)) (found : LS), (∀ e ∈ es, e.sig.mh.WF) → found.scaled = q.scaled →
      found.ab = none → Sorted found.hs →
      ∃ r, unionFoundLoop lsOps q.flat found es = .ok r ∧ r.scaled = q.scaled ∧ r.ab = none ∧ Sorted r.hs ∧
        ∀ x, x ∈ r.hs ↔ x ∈ found.hs ∨ CovE q.scaled q.hs es x := by
  intro es
  induction es with
  | nil =>
    intro found _ hs hab hso
    refine ⟨found, rfl, hs, hab, hso, ?_⟩
    intro x
    constructor
    · intro h; exact Or.inl h
    · rintro (h | ⟨e, he, _⟩)
      · exact h
      · cases he
  | cons e rest ih =>
    intro found hwf hs hab hso
    have hewf := hwf e List.mem_cons_self
    simp only [unionFoundLoop]
    rw [flattenAndIntersect_ls hewf.sorted (show Sorted q.flat.hs from hq.sorted)]
    simp only []
    have hm : max e.sig.mh.scaled q.flat.scaled = max e.sig.mh.scaled q.scaled := rfl
    rw [hm]
    -- the new accumulator
    have hfs : Sorted ((dn (max e.sig.mh.scaled q.scaled) e.sig.mh.hs).filter
        (inL (dn (max e.sig.mh.scaled q.scaled) q.flat.hs))) := (sorted_dn hewf.sorted _).filter _
    obtain ⟨r, hr, r1, r2, r3, r4⟩ := ih
      (lsOps.addFrom found ⟨max e.sig.mh.scaled q.scaled,
        (dn (max e.sig.mh.scaled q.scaled) e.sig.mh.hs).filter
          (inL (dn (max e.sig.mh.scaled q.scaled) q.flat.hs)), none⟩)
      (fun x hx => hwf x (List.mem_cons_of_mem _ hx)) hs hab
      (LS.sorted_unionL _ _ hso (hfs.filter _))
    refine ⟨r, hr, r1, r2, r3, ?_⟩
    intro x
    rw [r4 x]
    have hadd : ∀ y, y ∈ (lsOps.addFrom found ⟨max e.sig.mh.scaled q.scaled,
        (dn (max e.sig.mh.scaled q.scaled) e.sig.mh.hs).filter
          (inL (dn (max e.sig.mh.scaled q.scaled) q.flat.hs)), none⟩).hs ↔
        y ∈ found.hs ∨ (y ∈ dn (max e.sig.mh.scaled q.scaled) e.sig.mh.hs ∧
          y ∈ dn (max e.sig.mh.scaled q.scaled) q.hs) := by
      intro y
      show y ∈ LS.unionL found.hs _ ↔ _
      rw [LS.mem_unionL, List.mem_filter, List.mem_filter, inL_iff]
      constructor
      · rintro (h | ⟨⟨h1, h2⟩, _⟩)
        · exact Or.inl h
        · exact Or.inr ⟨h1, h2⟩
      · rintro (h | ⟨h1, h2⟩)
        · exact Or.inl h
        · refine Or.inr ⟨⟨h1, h2⟩, ?_⟩
          rw [hs]
          have hb := (mem_dn.1 h2).2
          have := mhR_anti (s1 := q.scaled) (s2 := max e.sig.mh.scaled q.scaled) hq.lo (le_max_right _ _)
            (max_le hewf.hi hq.hi)
          simpa using le_trans hb this
    rw [hadd x]
    constructor
    · rintro ((h | h) | ⟨e', he', h'⟩)
      · exact Or.inl h
      · exact Or.inr ⟨e, List.mem_cons_self, h⟩
      · exact Or.inr ⟨e', List.mem_cons_of_mem _ he', h'⟩
    · rintro (h | ⟨e', he', h'⟩)
      · exact Or.inl (Or.inl h)
      · rcases List.mem_cons.1 he' with rfl | he'
        · exact Or.inl (Or.inr h')
        · exact Or.inr ⟨e', he', h'⟩

/-- `CounterGather.union_found` -/
theorem unionFound_ls {q : LS} (hq : q.WF) {c : Counter LS} (horig : c.origQuery = q.flat)
    (hwf : ∀ e ∈ c.entries, e.sig.mh.WF) :
    ∃ r, c.unionFound lsOps = .ok r ∧ r.scaled = q.scaled ∧ r.ab = none ∧ Sorted r.hs ∧
      ∀ x, x ∈ r.hs ↔ CovE q.scaled q.hs c.entries x := by
  unfold Counter.unionFound
  rw [horig, lsOps_copyAndClear]
  simp only []
  obtain ⟨r, hr, r1, r2, r3, r4⟩ := unionFoundLoop_ls hq c.entries
    { q.flat with hs := [], ab := q.flat.ab.map (fun _ => []) } hwf rfl rfl (by exact List.Pairwise.nil)
  refine ⟨r, hr, r1, r2, r3, ?_⟩
  intro x
  rw [r4 x]
  constructor
  · rintro (h | h)
    · cases h
    · exact h
  · intro h; exact Or.inr h

/-- covered by some entry of some counter -/
def Cov (sq : Nat) (Q : List Nat) (cs : List (Counter LS)) (x : Nat) : Prop :=
  ∃ c ∈ cs, CovE sq Q c.entries x

theorem cliSplitLoop_ls {q : LS} (hq : q.WF) :
    ∀ (cs : List (Counter LS)) (ident noident : LS),
      (∀ c ∈ cs, c.origQuery = q.flat ∧ ∀ e ∈ c.entries, e.sig.mh.WF) →
      ident.scaled = q.scaled → ident.ab = none → Sorted ident.hs →
      noident.scaled = q.scaled → noident.ab = none → Sorted noident.hs →
      ∃ i n, cliSplitLoop lsOps ident noident cs = .ok (i, n) ∧
        i.scaled = q.scaled ∧ i.ab = none ∧ Sorted i.hs ∧ n.scaled = q.scaled ∧ n.ab = none ∧ Sorted n.hs ∧
        (∀ x, x ∈ i.hs ↔ x ∈ ident.hs ∨ Cov q.scaled q.hs cs x) ∧
        (∀ x, x ∈ n.hs ↔ x ∈ noident.hs ∧ ¬ Cov q.scaled q.hs cs x) := by
  intro cs
  induction cs with
  | nil =>
    intro ident noident _ i1 i2 i3 n1 n2 n3
    refine ⟨ident, noident, rfl, i1, i2, i3, n1, n2, n3, ?_, ?_⟩
    · intro x
      constructor
      · intro h; exact Or.inl h
      · rintro (h | ⟨c, hc, _⟩)
        · exact h
        · cases hc
    · intro x
      constructor
      · intro h; exact ⟨h, fun ⟨c, hc, _⟩ => by cases hc⟩
      · intro h; exact h.1
  | cons c rest ih =>
    intro ident noident hcs i1 i2 i3 n1 n2 n3
    obtain ⟨ho, hwf⟩ := hcs c List.mem_cons_self
    obtain ⟨u, hu, u1, u2, u3, u4⟩ := unionFound_ls hq ho hwf
    simp only [cliSplitLoop, hu]
    have hub : ∀ y ∈ u.hs, y ≤ mhR q.scaled := by
      intro y hy
      obtain ⟨e, he, _, h2⟩ := (u4 y).1 hy
      have hewf := hwf e he
      have hb := (mem_dn.1 h2).2
      exact le_trans hb (mhR_anti hq.lo (le_max_right _ _) (max_le hewf.hi hq.hi))
    have hnf : (lsOps.removeFrom noident u).hs = noident.hs.filter (fun h => !u.hs.contains h) := rfl
    have hnab : (lsOps.removeFrom noident u).ab = none := by
      show (LS.filterH _ noident).ab = none
      simp [LS.filterH, n2]
    obtain ⟨i, n, hr, r1, r2, r3, r4, r5, r6, r7, r8⟩ := ih (lsOps.addFrom ident u) (lsOps.removeFrom noident u)
      (fun c' hc' => hcs c' (List.mem_cons_of_mem _ hc')) i1 i2
      (LS.sorted_unionL _ _ i3 (u3.filter _)) n1 hnab (by rw [hnf]; exact n3.filter _)
    refine ⟨i, n, hr, r1, r2, r3, r4, r5, r6, ?_, ?_⟩
    · intro x
      rw [r7 x]
      have : x ∈ (lsOps.addFrom ident u).hs ↔ x ∈ ident.hs ∨ x ∈ u.hs := by
        show x ∈ LS.unionL ident.hs _ ↔ _
        rw [LS.mem_unionL, List.mem_filter]
        constructor
        · rintro (h | ⟨h, _⟩)
          · exact Or.inl h
          · exact Or.inr h
        · rintro (h | h)
          · exact Or.inl h
          · exact Or.inr ⟨h, by rw [i1]; simpa using hub x h⟩
      rw [this, u4 x]
      constructor
      · rintro ((h | h) | ⟨c', hc', h'⟩)
        · exact Or.inl h
        · exact Or.inr ⟨c, List.mem_cons_self, h⟩
        · exact Or.inr ⟨c', List.mem_cons_of_mem _ hc', h'⟩
      · rintro (h | ⟨c', hc', h'⟩)
        · exact Or.inl (Or.inl h)
        · rcases List.mem_cons.1 hc' with rfl | hc'
          · exact Or.inl (Or.inr h')
          · exact Or.inr ⟨c', hc', h'⟩
    · intro x
      rw [r8 x, hnf, List.mem_filter]
      have hcont : (!u.hs.contains x) = true ↔ ¬ CovE q.scaled q.hs c.entries x := by
        rw [← u4 x]; simp
      rw [hcont]
      constructor
      · rintro ⟨⟨h1, h2⟩, h3⟩
        refine ⟨h1, ?_⟩
        rintro ⟨c', hc', h'⟩
        rcases List.mem_cons.1 hc' with rfl | hc'
        · exact h2 h'
        · exact h3 ⟨c', hc', h'⟩
      · rintro ⟨h1, h2⟩
        exact ⟨⟨h1, fun h' => h2 ⟨c, List.mem_cons_self, h'⟩⟩,
          fun ⟨c', hc', h'⟩ => h2 ⟨c', List.mem_cons_of_mem _ hc', h'⟩⟩

/-- **the ident / noident split of `commands.gather`**: `ident_mh` holds exactly the query hashes some prefetch
candidate covers, `noident_mh` the others; both flat, at the query's scaled, ascending -/
theorem cliSplit_ls {q : LS} (hq : q.WF) {cs : List (Counter LS)}
    (hcs : ∀ c ∈ cs, c.origQuery = q.flat ∧ ∀ e ∈ c.entries, e.sig.mh.WF) :
    ∃ i n, cliSplit lsOps q cs = .ok (i, n) ∧
      i.scaled = q.scaled ∧ i.ab = none ∧ Sorted i.hs ∧ n.scaled = q.scaled ∧ n.ab = none ∧ Sorted n.hs ∧
      (∀ x, x ∈ i.hs ↔ x ∈ q.hs ∧ Cov q.scaled q.hs cs x) ∧
      (∀ x, x ∈ n.hs ↔ x ∈ q.hs ∧ ¬ Cov q.scaled q.hs cs x) := by
  unfold cliSplit
  simp only [lsOps_flat, lsOps_toMutable, lsOps_copyAndClear]
  obtain ⟨i, n, hr, r1, r2, r3, r4, r5, r6, r7, r8⟩ := cliSplitLoop_ls hq cs
    { q.flat with hs := [], ab := q.flat.ab.map (fun _ => []) } q.flat hcs rfl rfl List.Pairwise.nil rfl rfl
    hq.sorted
  refine ⟨i, n, hr, r1, r2, r3, r4, r5, r6, ?_, r8⟩
  intro x
  rw [r7 x]
  constructor
  · rintro (h | h)
    · cases h
    · obtain ⟨c, hc, e, he, _, h2⟩ := h
      exact ⟨(mem_dn.1 h2).1, c, hc, e, he, by assumption, h2⟩
  · intro h; exact Or.inr h.2

/-! ### `GatherDatabases.__init__` with `noident_mh` / `ident_mh` -/

/-- `GatherDatabases.__init__(query, counters, threshold_bp=, ignore_abundance=, noident_mh=n, ident_mh=i)` for
flat `i`, `n` at the query's scaled -/
theorem init_cli {q : LS} (hq : q.WF) {i n : LS} (hi : i.scaled = q.scaled) (hn : n.scaled = q.scaled)
    {counters : List (CObj LS)} {thr : Nat} {ign : Bool} {g : GD LS}
    (h : GD.init lsOps q counters thr ign (some n) (some i) = .ok g) :
    g.query = i.flat ∧ g.cmpScaled = q.scaled ∧ g.counters = counters ∧
    g.thresholdBp = thr ∧ g.origSigMh = q ∧ g.resultN = 0 ∧
    g.trackAbundance = (q.ab.isSome && !ign) ∧
    g.origQueryAbunds = (if (q.ab.isSome && !ign) then q.pairs else q.hs.map (fun h => (h, 1))) ∧
    g.origQueryMh.hs = dn q.scaled i.hs ∧ g.origQueryMh.scaled = q.scaled ∧
    g.noidentMh.hs = dn q.scaled n.hs ∧ g.noidentMh.scaled = q.scaled ∧
    g.noidentSum = wsum g.origQueryAbunds (dn q.scaled n.hs) ∧
    g.totalWeighted = wsum g.origQueryAbunds (dn q.scaled i.hs) + g.noidentSum := by
  unfold GD.init at h
  simp only [lsOps_flat, lsOps_toMutable, lsOps_scaled] at h
  cases hu : GD.updateScaled lsOps
      { origSigMh := q, query := i.flat, counters := counters, thresholdBp := thr,
        trackAbundance := lsOps.track q && !ign, origQueryMh := i.flat,
        origQueryAbunds := if (lsOps.track q && !ign) = true then lsOps.pairs q
          else List.map (fun h => (h, 1)) (lsOps.mins q),
        noidentMh := n, cmpScaled := 0, noidentSum := 0, totalWeighted := 0, resultN := 0 }
      i.flat.scaled with
  | error e => rw [hu] at h; cases h
  | ok g1 =>
    rw [hu] at h
    simp only [Except.ok.injEq] at h
    subst h
    obtain ⟨u1, u2, u3, u4, u5, u6, u7, u8, _, u10⟩ := updateScaled_ls hu
    simp only [] at u1 u2 u3 u4 u5 u6 u7 u8 u10
    have hsc : i.flat.scaled = q.scaled := hi
    rw [hsc] at u1 u10
    have hne : (0 : Nat) ≠ max 0 q.scaled := by have := hq.lo; omega
    obtain ⟨_, _, v3, v4, v5, v6⟩ := u10 hne
    have hcs : g1.cmpScaled = q.scaled := by rw [u1]; omega
    refine ⟨u2, hcs, u3, u5, u4, u6, u8, u7, ?_, ?_, ?_, ?_, ?_, ?_⟩
    · rw [v3]; rfl
    · rw [v3]; rfl
    · rw [v4]; rfl
    · rw [v4]; rfl
    · rw [v5, u7]
    · rw [v6, u7]; rfl

theorem ovl_mono_left {Q Q' D : List Nat} (h : ∀ x, x ∈ Q' → x ∈ Q) (hs : Sorted Q) (hs' : Sorted Q')
    (hd : Sorted D) : ovl Q' D ≤ ovl Q D := by
  rw [ovl_comm hs' hd, ovl_comm hs hd]
  exact ovl_mono_right h

/-- exactness against the whole query is exactness against `ident_mh`: every candidate's overlap with the
query lies inside `ident_mh` -/
theorem CInv.to_ident {q i : LS} (hq : q.WF) {sd : Nat} {cs : List (Counter LS)} {c : Counter LS}
    (hc : c ∈ cs) {cl : List (Sig LS)} (hcl : ∀ d ∈ cl, d.mh.WF ∧ d.mh.scaled = sd)
    (hinv : CInv (max q.scaled sd) cl (dn (max q.scaled sd) q.hs) c)
    (his : Sorted i.hs) (hi : ∀ x, x ∈ i.hs ↔ x ∈ q.hs ∧ Cov q.scaled q.hs cs x) :
    CInv (max q.scaled sd) cl (dn (max q.scaled sd) i.hs) c := by
  have hsub : ∀ x, x ∈ dn (max q.scaled sd) i.hs → x ∈ dn (max q.scaled sd) q.hs := by
    intro x hx
    obtain ⟨h1, h2⟩ := mem_dn.1 hx
    exact mem_dn.2 ⟨((hi x).1 h1).1, h2⟩
  have hkey : ∀ e ∈ c.entries, ovl (dn (max q.scaled sd) i.hs) (dn (max q.scaled sd) e.sig.mh.hs)
      = ovl (dn (max q.scaled sd) q.hs) (dn (max q.scaled sd) e.sig.mh.hs) := by
    intro e he
    have hesd : e.sig.mh.scaled = sd := (hcl _ (hinv.sound e he)).2
    have hewf := (hcl _ (hinv.sound e he)).1
    unfold ovl
    congr 1
    apply Sorted.eq_of_mem_iff ((sorted_dn his _).filter _) ((sorted_dn hq.sorted _).filter _)
    intro x
    rw [List.mem_filter, List.mem_filter]
    constructor
    · rintro ⟨h1, h2⟩; exact ⟨hsub x h1, h2⟩
    · rintro ⟨h1, h2⟩
      refine ⟨?_, h2⟩
      obtain ⟨hxq, hxb⟩ := mem_dn.1 h1
      refine mem_dn.2 ⟨(hi x).2 ⟨hxq, c, hc, e, he, ?_, ?_⟩, hxb⟩
      · rw [hesd, max_comm]; exact inL_iff.1 h2
      · rw [hesd, max_comm]; exact h1
  refine ⟨?_, hinv.sound, ?_, hinv.scaled_ok⟩
  · intro e he
    obtain ⟨e1, e2, e3⟩ := hinv.exact e he
    exact ⟨e1, e2, by rw [e3, hkey e he]⟩
  · intro d hd hne
    apply hinv.complete d hd
    intro hz
    apply hne
    have := ovl_mono_left hsub (sorted_dn hq.sorted _) (sorted_dn his _)
      (sorted_dn (hcl d hd).1.sorted (max q.scaled sd))
    omega

theorem allInv_to_ident {q i : LS} (hq : q.WF) {sd : Nat} {cs : List (Counter LS)}
    (his : Sorted i.hs) (hi : ∀ x, x ∈ i.hs ↔ x ∈ q.hs ∧ Cov q.scaled q.hs cs x) :
    ∀ {cls : List (List (Sig LS))} {objs : List (CObj LS)},
      AllInv (max q.scaled sd) (dn (max q.scaled sd) q.hs) cls objs →
      (∀ cl ∈ cls, ∀ d ∈ cl, d.mh.WF ∧ d.mh.scaled = sd) →
      (∀ o ∈ objs, ∀ c, o = CObj.cg c → c ∈ cs) →
      AllInv (max q.scaled sd) (dn (max q.scaled sd) i.hs) cls objs := by
  intro cls objs hall
  induction hall with
  | nil => intro _ _; exact List.Forall₂.nil
  | @cons cl o cls' objs' ho _ ih =>
    intro hcand hmem
    obtain ⟨c, rfl, hci⟩ := ho
    refine List.Forall₂.cons ⟨c, rfl, ?_⟩ (ih (fun cl' hcl' => hcand cl' (List.mem_cons_of_mem _ hcl'))
      (fun o ho' => hmem o (List.mem_cons_of_mem _ ho')))
    exact CInv.to_ident hq (hmem _ List.mem_cons_self c rfl) (hcand cl List.mem_cons_self) hci his hi

/-- **the run invariants hold on the command-line path**: counters by `counter_gather` per database, the
ident / noident split, `GatherDatabases.__init__(..., noident_mh=, ident_mh=)`.  `Q0 = ident_mh`, `NI0 =
noident_mh`; together they are the query's hashes, so `orig_query_len` is the size of the query at the
comparison resolution, exactly as in the plain API. -/
theorem init_invariants_cli {q : LS} (hq : q.WF) {sd thr : Nat} (hsd1 : 1 ≤ sd) (hsd2 : sd ≤ 2 ^ 31)
    {t nT : F64.F} (hthr : calcThreshold thr q.scaled q.hs.length = .ok (t, nT))
    {dbs : List (List (Sig LS))} {cs : List (Counter LS)} {ign : Bool} {g : GD LS} {i n : LS}
    (hdb : ∀ db ∈ dbs, ∀ d ∈ db, d.mh.WF ∧ d.mh.scaled = sd) (hmd5 : ∀ db ∈ dbs, MD5OK db)
    (hcs : List.Forall₂ (fun db c => counterGather lsOps db q thr = .ok c) dbs cs)
    (hsize : q.hs.length < 2 ^ 53)
    (hsplit : cliSplit lsOps q cs = .ok (i, n))
    (h : GD.init lsOps q (cs.map CObj.cg) thr ign (some n) (some i) = .ok g) :
    GInv q.scaled sd (candLists q t dbs) g ∧ AInv q.scaled sd i.hs n.hs g ∧
    g.unassigned q.scaled sd = dn (max q.scaled sd) i.hs ∧ g.thresholdBp = thr ∧ g.origSigMh = q ∧
    g.resultN = 0 ∧
    (∀ x, x ∈ q.hs ↔ x ∈ i.hs ∨ x ∈ n.hs) ∧ (∀ x, x ∈ i.hs → x ∉ n.hs) ∧
    (∀ s, (dn s i.hs).length + (dn s n.hs).length = (dn s q.hs).length) := by
  -- every counter: built on the flat query, entries are well-formed candidates
  have horig : ∀ c ∈ cs, c.origQuery = q.flat ∧ ∀ e ∈ c.entries, e.sig.mh.WF := by
    clear hsplit h
    intro c hc
    induction hcs with
    | nil => cases hc
    | @cons db c0 dbs' cs' hd _ ih =>
      rcases List.mem_cons.1 hc with rfl | hc
      · obtain ⟨_, _, _, hci, ho⟩ := counterGather_spec hq (hdb db List.mem_cons_self)
          (hmd5 db List.mem_cons_self) hd
        exact ⟨ho, fun e he => (hci.exact e he).1⟩
      · exact ih (fun d hd' => hdb d (List.mem_cons_of_mem _ hd'))
          (fun d hd' => hmd5 d (List.mem_cons_of_mem _ hd')) hc
  have hall := allInv_counterGather hq hthr dbs cs hdb hmd5 hcs
  have hcand : ∀ cl ∈ candLists q t dbs, ∀ d ∈ cl, d.mh.WF ∧ d.mh.scaled = sd := by
    intro cl hcl d hd
    obtain ⟨db, hdbm, rfl⟩ := List.mem_map.1 hcl
    exact hdb db hdbm d (List.mem_filter.1 hd).1
  obtain ⟨i', n', hsp, i1, i2, i3, n1, n2, n3, i4, n4⟩ := cliSplit_ls hq horig
  rw [hsp] at hsplit
  simp only [Except.ok.injEq, Prod.mk.injEq] at hsplit
  obtain ⟨rfl, rfl⟩ := hsplit
  obtain ⟨j1, j2, j3, j4, j5, j6, j7, j8, j9, j10, j11, j12, j13, j14⟩ := init_cli hq i1 n1 h
  have hqhs : g.query.hs = i'.hs := by rw [j1]; rfl
  -- counters exact against ident
  have hall' : AllInv (max q.scaled sd) (dn (max q.scaled sd) i'.hs) (candLists q t dbs) (cs.map CObj.cg) :=
    allInv_to_ident hq i3 i4 hall hcand (by
      intro o ho c hoc
      obtain ⟨c', hc', rfl⟩ := List.mem_map.1 ho
      cases hoc
      exact hc')
  classical
  have e1 : i'.hs = q.hs.filter (fun x => decide (Cov q.scaled q.hs cs x)) := by
    apply Sorted.eq_of_mem_iff i3 (hq.sorted.filter _)
    intro x
    rw [i4 x, List.mem_filter]
    simp
  have e2 : n'.hs = q.hs.filter (fun x => !decide (Cov q.scaled q.hs cs x)) := by
    apply Sorted.eq_of_mem_iff n3 (hq.sorted.filter _)
    intro x
    rw [n4 x, List.mem_filter]
    simp
  have hilen : i'.hs.length ≤ q.hs.length := by rw [e1]; exact List.length_filter_le _ _
  refine ⟨⟨?_, ?_, ?_, Or.inl j2, hcand, ?_, ?_⟩, ⟨⟨hq.lo, hq.hi, hsd1, hsd2⟩, ?_, ?_, ?_, ?_, ?_, ?_⟩, ?_, j4, j5,
    j6, ?_, ?_, ?_⟩
  · rw [j5]; exact hq.sorted
  · rw [hqhs]; exact i3
  · rw [j1, j2]; exact i1
  · rw [j3, hqhs]; exact hall'
  · rw [hqhs]; exact lt_of_le_of_lt hilen hsize
  · rw [j9, j2]
  · rw [j10, j2]
  · rw [j11, j2]
  · rw [j12, j2]
  · rw [j13, j2]
  · rw [j14, j2]
  · unfold GD.unassigned; rw [hqhs]
  · intro x
    rw [i4 x, n4 x]
    by_cases hc : Cov q.scaled q.hs cs x
    · simp [hc]
    · simp [hc]
  · intro x hx hxn
    exact ((n4 x).1 hxn).2 ((i4 x).1 hx).2
  · intro s
    -- both are filters of the query by a (classically decidable) predicate and its negation
    rw [e1, e2, dn_filter, dn_filter]
    generalize dn s q.hs = l
    induction l with
    | nil => rfl
    | cons a l ih =>
      by_cases ha : Cov q.scaled q.hs cs a
      · simp [List.filter_cons, ha] at ih ⊢; omega
      · simp [List.filter_cons, ha] at ih ⊢; omega

end Sm.Gather
