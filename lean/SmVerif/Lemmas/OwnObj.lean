/-
Lemmas for C15, layers 2 and 3 (`Model/OwnObj.lean`): signature objects and collection views.

As in `Lemmas/Ownership.lean` everything follows from a classification of what ONE step can do
to each table — `SigShape` for the signature table, `ViewShape` for the view table, "unchanged or
one sketch-layer step or one fresh cell" for the sketch heap, "append only" for rows and stores —
without unfolding any sketch-level function.
-/
import SmVerif.Model.OwnObj
import SmVerif.Lemmas.Ownership

namespace Sm.Obj

open Sm.Own (Heap Cell Res)

/-! ### generic table helpers -/

namespace Tab
variable {α : Type}

theorem cid_bind_self (t : Tab α) (r c : Nat) : (t.bind r c).cid r = some c := by
  simp [Tab.bind, Tab.cid]

theorem cid_bind_ne (t : Tab α) (r r' c : Nat) (h : r ≠ r') : (t.bind r' c).cid r = t.cid r := by
  have : (r == r') = false := by simpa using h
  simp only [Tab.bind, Tab.cid, List.lookup, this]
  exact Sm.Own.lookup_filter_ne t.handles r r' h

theorem cells_bind (t : Tab α) (r c : Nat) : (t.bind r c).cells = t.cells := rfl

theorem cells_alloc (t : Tab α) (r : Nat) (x : α) : (t.alloc r x).cells = t.cells ++ [x] := rfl

theorem cells_setCell (t : Tab α) (c : Nat) (x : α) : (t.setCell c x).cells = t.cells.set c x := rfl

theorem cid_setCell (t : Tab α) (c : Nat) (x : α) (h : Nat) : (t.setCell c x).cid h = t.cid h := rfl

theorem cid_alloc_self (t : Tab α) (r : Nat) (x : α) : (t.alloc r x).cid r = some t.cells.length := by
  simp [Tab.alloc, cid_bind_self]

theorem cid_alloc_ne (t : Tab α) (r r' : Nat) (x : α) (h : r ≠ r') : (t.alloc r' x).cid r = t.cid r := by
  simp only [Tab.alloc]
  rw [cid_bind_ne _ _ _ _ h]
  rfl

theorem cell_eq (t : Tab α) (h : Nat) (x : α) (hc : t.cell h = some x) :
    ∃ c, t.cid h = some c ∧ t.cells[c]? = some x := by
  unfold Tab.cell at hc
  split at hc
  · next c hcid => exact ⟨c, hcid, hc⟩
  · cases hc

theorem cell_of_cid (t : Tab α) (h c : Nat) (hcid : t.cid h = some c) : t.cell h = t.cells[c]? := by
  simp [Tab.cell, hcid]

/-- writing the cell that was just allocated = allocating the final value -/
theorem alloc_setCell (t : Tab α) (r : Nat) (x y : α) :
    (t.alloc r x).setCell t.cells.length y = t.alloc r y := by
  simp [Tab.alloc, Tab.setCell, Tab.bind]

end Tab

theorem getElem?_set_ne' {α : Type} (l : List α) (i c : Nat) (x cell : α) (hne : i ≠ c)
    (hc : l[c]? = some cell) : (l.set i x)[c]? = some cell := by
  rw [List.getElem?_set_ne hne]; exact hc

theorem lt_of_getElem? {α : Type} (l : List α) (c : Nat) (cell : α) (hc : l[c]? = some cell) :
    c < l.length := by
  rcases Nat.lt_or_ge c l.length with h | h
  · exact h
  · rw [List.getElem?_eq_none h] at hc; cases hc

theorem getElem?_append_old {α : Type} (l : List α) (x : α) (c : Nat) (cell : α)
    (hc : l[c]? = some cell) : (l ++ [x])[c]? = some cell := by
  rw [List.getElem?_append_left (lt_of_getElem? l c cell hc)]; exact hc

theorem getElem?_append_old' {α : Type} (l m : List α) (c : Nat) (cell : α)
    (hc : l[c]? = some cell) : (l ++ m)[c]? = some cell := by
  rw [List.getElem?_append_left (lt_of_getElem? l c cell hc)]; exact hc

/-! ### projections of the primitive effects (all by `rfl`) -/

@[simp] theorem sigFresh_heap (w : World) (r : Nat) (v : SigVal) (fr : Bool) : (w.sigFresh r v fr).heap = w.heap := rfl
@[simp] theorem sigFresh_views (w : World) (r : Nat) (v : SigVal) (fr : Bool) : (w.sigFresh r v fr).views = w.views := rfl
@[simp] theorem sigFresh_rows (w : World) (r : Nat) (v : SigVal) (fr : Bool) : (w.sigFresh r v fr).rows = w.rows := rfl
@[simp] theorem sigFresh_stores (w : World) (r : Nat) (v : SigVal) (fr : Bool) : (w.sigFresh r v fr).stores = w.stores := rfl
@[simp] theorem sigFresh_sigs (w : World) (r : Nat) (v : SigVal) (fr : Bool) :
    (w.sigFresh r v fr).sigs = w.sigs.alloc r ⟨v, fr⟩ := rfl
@[simp] theorem sigAlias_heap (w : World) (r c : Nat) : (w.sigAlias r c).heap = w.heap := rfl
@[simp] theorem sigAlias_views (w : World) (r c : Nat) : (w.sigAlias r c).views = w.views := rfl
@[simp] theorem sigAlias_rows (w : World) (r c : Nat) : (w.sigAlias r c).rows = w.rows := rfl
@[simp] theorem sigAlias_stores (w : World) (r c : Nat) : (w.sigAlias r c).stores = w.stores := rfl
@[simp] theorem sigAlias_sigs (w : World) (r c : Nat) : (w.sigAlias r c).sigs = w.sigs.bind r c := rfl
@[simp] theorem viewFresh_heap (w : World) (r : Nat) (vc : ViewCell) : (w.viewFresh r vc).heap = w.heap := rfl
@[simp] theorem viewFresh_sigs (w : World) (r : Nat) (vc : ViewCell) : (w.viewFresh r vc).sigs = w.sigs := rfl
@[simp] theorem viewFresh_rows (w : World) (r : Nat) (vc : ViewCell) : (w.viewFresh r vc).rows = w.rows := rfl
@[simp] theorem viewFresh_stores (w : World) (r : Nat) (vc : ViewCell) : (w.viewFresh r vc).stores = w.stores := rfl
@[simp] theorem viewFresh_views (w : World) (r : Nat) (vc : ViewCell) : (w.viewFresh r vc).views = w.views.alloc r vc := rfl
@[simp] theorem viewAlias_heap (w : World) (r c : Nat) : (w.viewAlias r c).heap = w.heap := rfl
@[simp] theorem viewAlias_sigs (w : World) (r c : Nat) : (w.viewAlias r c).sigs = w.sigs := rfl
@[simp] theorem viewAlias_rows (w : World) (r c : Nat) : (w.viewAlias r c).rows = w.rows := rfl
@[simp] theorem viewAlias_stores (w : World) (r c : Nat) : (w.viewAlias r c).stores = w.stores := rfl
@[simp] theorem viewAlias_views (w : World) (r c : Nat) : (w.viewAlias r c).views = w.views.bind r c := rfl
@[simp] theorem viewSet_heap (w : World) (c : Nat) (vc : ViewCell) : (w.viewSet c vc).heap = w.heap := rfl
@[simp] theorem viewSet_sigs (w : World) (c : Nat) (vc : ViewCell) : (w.viewSet c vc).sigs = w.sigs := rfl
@[simp] theorem viewSet_rows (w : World) (c : Nat) (vc : ViewCell) : (w.viewSet c vc).rows = w.rows := rfl
@[simp] theorem viewSet_stores (w : World) (c : Nat) (vc : ViewCell) : (w.viewSet c vc).stores = w.stores := rfl
@[simp] theorem viewSet_views (w : World) (c : Nat) (vc : ViewCell) : (w.viewSet c vc).views = w.views.setCell c vc := rfl
@[simp] theorem mhFresh_sigs (w : World) (r : Nat) (v : MH) (fr : Bool) : (w.mhFresh r v fr).sigs = w.sigs := rfl
@[simp] theorem mhFresh_views (w : World) (r : Nat) (v : MH) (fr : Bool) : (w.mhFresh r v fr).views = w.views := rfl
@[simp] theorem mhFresh_rows (w : World) (r : Nat) (v : MH) (fr : Bool) : (w.mhFresh r v fr).rows = w.rows := rfl
@[simp] theorem mhFresh_stores (w : World) (r : Nat) (v : MH) (fr : Bool) : (w.mhFresh r v fr).stores = w.stores := rfl
@[simp] theorem mhFresh_heap (w : World) (r : Nat) (v : MH) (fr : Bool) : (w.mhFresh r v fr).heap = w.heap.alloc r v fr := rfl

/-! ### the source still has the copy discipline the model is built on (`Generated.lean`, re-read every run) -/

/-- the two facts about the CURRENT source that the model's `step` follows (`Generated.lean`).  Every lemma about
    `step` takes this as a hypothesis; `Props/C15.lean` discharges it by `rfl` inside each theorem, so that a changed
    `to_mutable` / `update` body breaks exactly the theorems that rest on it. -/
structure SourceOk : Prop where
  toMutable : Gen.ownSigToMutableCopies = true
  update : Gen.ownUpdateCopiesThenFreezes = true

theorem toMutableSig_eq (hsrc : SourceOk) (w : World) (r s : Nat) : toMutableSig w r s = toMutableSigCopy w r s := by
  simp [toMutableSig, hsrc.toMutable]

theorem updateWith_eq (hsrc : SourceOk) (w : World) (r s : Nat) (body : SigVal → Except MH.Err SigVal) :
    updateWith w r s body = updateCopy w r s body := by
  simp [updateWith, hsrc.update]

/-! ### `sigMutate` -/

/-- `sigMutate` touches the signature table only -/
theorem sigMutate_others (w : World) (s : Nat) (f : SigVal → SigVal × Res) :
    (w.sigMutate s f).1.heap = w.heap ∧ (w.sigMutate s f).1.views = w.views ∧
    (w.sigMutate s f).1.rows = w.rows ∧ (w.sigMutate s f).1.stores = w.stores := by
  unfold World.sigMutate
  split
  · exact ⟨rfl, rfl, rfl, rfl⟩
  · split
    · exact ⟨rfl, rfl, rfl, rfl⟩
    · split <;> exact ⟨rfl, rfl, rfl, rfl⟩

theorem sigMutate_frozen (w : World) (s : Nat) (f : SigVal → SigVal × Res) (sc : SigCell)
    (hc : w.sigs.cell s = some sc) (hf : sc.frozen = true) :
    w.sigMutate s f = (w, .err "ValueError") := by
  obtain ⟨c, hcid, hcell⟩ := Tab.cell_eq w.sigs s sc hc
  simp [World.sigMutate, hcid, hcell, hf]

/-! ### shape of one step on the signature table -/

inductive SigShape (t : Tab SigCell) (op : Op) : Tab SigCell → Prop
  | same : SigShape t op t
  | write (s c : Nat) (cell : SigCell) (v : SigVal) :
      sigReceiver op = some s → isSigMutator op = true →
      t.cid s = some c → t.cells[c]? = some cell → cell.frozen = false →
      SigShape t op (t.setCell c ⟨v, false⟩)
  | freeze (s c : Nat) (cell : SigCell) :
      op = .sIntoFrozen s → t.cid s = some c → t.cells[c]? = some cell →
      SigShape t op (t.setCell c ⟨cell.val, true⟩)
  | alloc (r : Nat) (v : SigVal) (fr : Bool) :
      sigReceiver op = none → SigShape t op (t.alloc r ⟨v, fr⟩)
  | alias (r c : Nat) :
      sigReceiver op = none →
      ((∃ cell, t.cells[c]? = some cell ∧ cell.frozen = true) ∨ ∃ v i, op = .vGet r v i) →
      SigShape t op (t.bind r c)

theorem sigMutate_shape (w : World) (op : Op) (s : Nat) (f : SigVal → SigVal × Res)
    (hr : sigReceiver op = some s) (hm : isSigMutator op = true) :
    SigShape w.sigs op (w.sigMutate s f).1.sigs := by
  unfold World.sigMutate
  split
  · exact .same
  · next c hcid =>
    split
    · exact .same
    · next cell hcell =>
      by_cases hf : cell.frozen = true
      · simp only [hf, if_true]; exact .same
      · have hf' : cell.frozen = false := by simpa using hf
        simp only [hf', Bool.false_eq_true, if_false]
        exact .write s c cell _ hr hm hcid hcell hf'

/-- `GatherDatabases.__init__` over the real `to_mutable`: exactly one fresh mutable cell holding the
    flattened query; nothing else -/
theorem gatherInit_eq (hsrc : SourceOk) (w : World) (r s : Nat) :
    gatherInitWith toMutableSig w r s = (w, .bad) ∨
    (∃ e, gatherInitWith toMutableSig w r s = (w, .err e)) ∨
    (∃ sc q, w.sigs.cell s = some sc ∧
      gatherInitWith toMutableSig w r s = (w.sigFresh r { sc.val with mh := q } false, .ok)) := by
  unfold gatherInitWith
  cases hs : w.sigs.cell s with
  | none => exact .inl rfl
  | some sc =>
    simp only
    split
    · exact .inr (.inl ⟨_, rfl⟩)
    · split
      · exact .inr (.inl ⟨_, rfl⟩)
      · next q _ =>
        refine .inr (.inr ⟨sc, q, rfl, ?_⟩)
        simp only [toMutableSig_eq hsrc, toMutableSigCopy, hs]
        simp only [World.sigMutate, World.sigFresh, Tab.cid_alloc_self, Tab.cells_alloc]
        simp [Tab.alloc_setCell]


theorem step_sigs_shape (hsrc : SourceOk) (w : World) (op : Op) : SigShape w.sigs op (step w op).1.sigs := by
  cases op with
  | mh o => exact .same
  | sNew r h nm fn =>
    simp only [step]; split
    · exact .alloc _ _ _ rfl
    · exact .same
  | sMinhash r s => simp only [step]; split <;> exact .same
  | sSetMh s h =>
    simp only [step]; split
    · exact sigMutate_shape _ _ _ _ rfl rfl
    · exact .same
  | sSetName s x => exact sigMutate_shape _ _ _ _ rfl rfl
  | sSetFilename s x => exact sigMutate_shape _ _ _ _ rfl rfl
  | sAddSeq s sq f => exact sigMutate_shape _ _ _ _ rfl rfl
  | sAddProt s sq => exact sigMutate_shape _ _ _ _ rfl rfl
  | sSetState s h nm fn =>
    simp only [step]; split
    · exact sigMutate_shape _ _ _ _ rfl rfl
    · exact .same
  | sIntoFrozen s =>
    simp only [step]; split
    · next c sc hcid hcell =>
      rw [Tab.cell_of_cid _ _ _ hcid] at hcell
      exact .freeze s c sc rfl hcid hcell
    · exact .same
  | sToMutable r s =>
    simp only [step, toMutableSig_eq hsrc, toMutableSigCopy]; split
    · exact .alloc _ _ _ rfl
    · exact .same
  | sToFrozen r s =>
    simp only [step]; split
    · next c sc hcid hcell =>
      rw [Tab.cell_of_cid _ _ _ hcid] at hcell
      split
      · next hf => exact .alias r c rfl (.inl ⟨sc, hcell, hf⟩)
      · exact .alloc _ _ _ rfl
    · exact .same
  | sCopy r s =>
    simp only [step]; split
    · next c sc hcid hcell =>
      rw [Tab.cell_of_cid _ _ _ hcid] at hcell
      split
      · next hf => exact .alias r c rfl (.inl ⟨sc, hcell, hf⟩)
      · exact .alloc _ _ _ rfl
    · exact .same
  | sPickle r s =>
    simp only [step]; split
    · exact .alloc _ _ _ rfl
    · exact .same
  | sUpdateFlat r s =>
    simp only [step, updateWith_eq hsrc, updateCopy]; split
    · exact .same
    · split
      · exact .same
      · split
        · exact .alloc _ _ _ rfl
        · exact .same
  | sUpdateName r s x =>
    simp only [step, updateWith_eq hsrc, updateCopy]; split
    · exact .same
    · split
      · exact .same
      · exact .alloc _ _ _ rfl
  | sGatherInit r s =>
    simp only [step]
    rcases gatherInit_eq hsrc w r s with h | ⟨e, h⟩ | ⟨sc, q, _, h⟩
    · rw [h]; exact .same
    · rw [h]; exact .same
    · rw [h]; exact .alloc _ _ _ rfl
  | sCounterGather r s ds =>
    simp only [step]; split
    · split
      · exact .same
      · split
        · exact .same
        · split
          · exact .same
          · split
            · exact .same
            · split <;> exact .same
    · exact .same
  | sRead nm ss => simp only [step]; split <;> exact .same
  | vLinear r ss => simp only [step]; split <;> exact .same
  | vLazy r v =>
    simp only [step]; split
    · split <;> exact .same
    · exact .same
  | vZip r m ss =>
    simp only [step]; split
    · split
      · exact .same
      · split <;> exact .same
    · exact .same
  | vMulti r vs =>
    simp only [step]; split
    · split <;> exact .same
    · exact .same
  | vStandalone r ss =>
    simp only [step]; split
    · split <;> exact .same
    · exact .same
  | vSbt r ss =>
    simp only [step]; split
    · split
      · exact .same
      · split <;> exact .same
    · exact .same
  | vLca r ss =>
    simp only [step]; split
    · split
      · exact .same
      · split <;> exact .same
    · exact .same
  | vInsert v s => simp only [step]; (repeat' split) <;> exact .same
  | vSbtLoad r fmt cache ss => simp only [step]; (repeat' split) <;> exact .same
  | vSqlite r ss => simp only [step]; (repeat' split) <;> exact .same
  | vLcaLoad r fmt ss => simp only [step]; (repeat' split) <;> exact .same
  | vManifest nm v u ss => simp only [step]; (repeat' split) <;> exact .same
  | vZipGroups r m k ss => simp only [step]; (repeat' split) <;> exact .same
  | vSelect r v kw =>
    simp only [step]; split
    · split <;> exact .same
    · exact .same
  | vSelectPick r v names =>
    simp only [step]; split
    · split <;> exact .same
    · exact .same
  | vGet r v i =>
    simp only [step]; (repeat' split) <;>
      first
      | exact .same
      | exact .alias r _ rfl (.inr ⟨v, i, rfl⟩)
      | exact .alloc _ _ _ rfl
  | vRead nm v qs => simp only [step]; split <;> exact .same
  | vMultiOf r pre ins => simp only [step]; (repeat' split) <;> exact .same
  | vFrom r kind v => simp only [step]; (repeat' split) <;> exact .same
  | vStandOf r v => simp only [step]; (repeat' split) <;> exact .same
  | vMPath r mode v => simp only [step]; (repeat' split) <;> exact .same

/-! ### rows and stores are append-only; the sketch heap sees one sketch step or one fresh cell -/

theorem step_rows_append (hsrc : SourceOk) (w : World) (op : Op) : ∃ new, (step w op).1.rows = w.rows ++ new := by
  cases op <;> simp only [step, toMutableSig_eq hsrc, toMutableSigCopy, updateWith_eq hsrc, updateCopy] <;> (repeat' split) <;>
    first
    | exact ⟨[], (List.append_nil _).symm⟩
    | exact ⟨_, rfl⟩
    | (rw [(sigMutate_others _ _ _).2.2.1]; exact ⟨[], (List.append_nil _).symm⟩)
    | skip
  all_goals
    rename_i r s
    rcases gatherInit_eq hsrc w r s with h | ⟨e, h⟩ | ⟨sc, q, _, h⟩ <;> rw [h] <;> exact ⟨[], (List.append_nil _).symm⟩

theorem step_stores_append (hsrc : SourceOk) (w : World) (op : Op) : ∃ new, (step w op).1.stores = w.stores ++ new := by
  cases op <;> simp only [step, toMutableSig_eq hsrc, toMutableSigCopy, updateWith_eq hsrc, updateCopy] <;> (repeat' split) <;>
    first
    | exact ⟨[], (List.append_nil _).symm⟩
    | exact ⟨_, rfl⟩
    | (rw [(sigMutate_others _ _ _).2.2.2]; exact ⟨[], (List.append_nil _).symm⟩)
    | skip
  all_goals
    rename_i r s
    rcases gatherInit_eq hsrc w r s with h | ⟨e, h⟩ | ⟨sc, q, _, h⟩ <;> rw [h] <;> exact ⟨[], (List.append_nil _).symm⟩

inductive HeapShape (hp : Heap) (op : Op) : Heap → Prop
  | same : HeapShape hp op hp
  | mh (o : Own.Op) : op = .mh o → HeapShape hp op (Own.step hp o).1
  | alloc (r : Nat) (v : MH) (fr : Bool) : (∀ o, op ≠ .mh o) → HeapShape hp op (hp.alloc r v fr)

theorem step_heap_shape (hsrc : SourceOk) (w : World) (op : Op) : HeapShape w.heap op (step w op).1.heap := by
  cases op <;> simp only [step, toMutableSig_eq hsrc, toMutableSigCopy, updateWith_eq hsrc, updateCopy] <;> (repeat' split) <;>
    first
    | exact .same
    | exact .mh _ rfl
    | exact .alloc _ _ _ (by intro o h; cases h)
    | (rw [(sigMutate_others _ _ _).1]; exact .same)
    | skip
  all_goals
    rename_i r s
    rcases gatherInit_eq hsrc w r s with h | ⟨e, h⟩ | ⟨sc, q, _, h⟩ <;> rw [h] <;> exact .same

/-! ### shape of one step on the view table -/

/-- `select` rewrites its receiver only on the in-place kinds (and then leaves the cell as it was: the
    criteria other than picklists are checks), and builds a new cell only on the copying kinds -/
theorem selectOutcome_inplace (w : World) (vc vc' : ViewCell) (kw : Sel)
    (h : selectOutcome w vc kw = .inplace vc') : vc.kind.inPlace = true ∧ vc' = vc := by
  unfold selectOutcome at h
  cases hk : vc.kind <;> simp only [hk] at h <;> (repeat' (split at h)) <;>
    first
    | (cases h; done)
    | (injection h with h; subst h; exact ⟨rfl, rfl⟩)

theorem selectOutcome_fresh (w : World) (vc vc' : ViewCell) (kw : Sel)
    (h : selectOutcome w vc kw = .fresh vc') : vc.kind.inPlace = false := by
  unfold selectOutcome at h
  cases hk : vc.kind <;> simp only [hk] at h <;> (repeat' (split at h)) <;>
    first
    | rfl
    | (cases h; done)

theorem pickOutcome_inplace (w : World) (vc vc' : ViewCell) (names : List String) (r : Res)
    (h : pickOutcome w vc names = some (vc', r)) : vc.kind.inPlace = true := by
  unfold pickOutcome at h
  cases hk : vc.kind <;> simp only [hk] at h <;> first | rfl | cases h

inductive ViewShape (t : Tab ViewCell) (op : Op) : Tab ViewCell → Prop
  | same : ViewShape t op t
  /-- `insert`, or a select on an in-place kind that was refused after appending its picklist -/
  | write (v c : Nat) (vc vc' : ViewCell) :
      viewReceiver op = some v → t.cid v = some c → t.cells[c]? = some vc →
      ((∃ s, op = .vInsert v s) ∨ vc.kind.inPlace = true) →
      ViewShape t op (t.setCell c vc')
  /-- a select on an in-place kind: the receiver rewritten and handed back -/
  | writeAlias (r v c : Nat) (vc vc' : ViewCell) :
      viewReceiver op = some v → t.cid v = some c → t.cells[c]? = some vc → vc.kind.inPlace = true →
      ViewShape t op ((t.setCell c vc').bind r c)
  /-- a constructor, or a select on a copying kind -/
  | alloc (r : Nat) (vc : ViewCell) :
      (∀ v c rc, viewReceiver op = some v → t.cid v = some c → t.cells[c]? = some rc → rc.kind.inPlace = false) →
      ViewShape t op (t.alloc r vc)

theorem step_views_shape (hsrc : SourceOk) (w : World) (op : Op) : ViewShape w.views op (step w op).1.views := by
  cases op with
  | vInsert v s =>
    simp only [step]; split
    · next c vc sc scell hcid hcell _ _ =>
      rw [Tab.cell_of_cid _ _ _ hcid] at hcell
      split
      · exact .write v c vc _ rfl hcid hcell (.inl ⟨s, rfl⟩)
      · split
        · exact .same
        · exact .write v c vc _ rfl hcid hcell (.inl ⟨s, rfl⟩)
      · split
        · exact .same
        · split
          · exact .same
          · exact .write v c vc _ rfl hcid hcell (.inl ⟨s, rfl⟩)
      · exact .same
      · exact .same
      · exact .same
    · exact .same
  | vSbtLoad r fmt cache ss =>
    simp only [step]; (repeat' split) <;>
      first | exact .same | exact .alloc _ _ (by intro v c rc h; cases h)
  | vSqlite r ss =>
    simp only [step]; (repeat' split) <;>
      first | exact .same | exact .alloc _ _ (by intro v c rc h; cases h)
  | vLcaLoad r fmt ss =>
    simp only [step]; (repeat' split) <;>
      first | exact .same | exact .alloc _ _ (by intro v c rc h; cases h)
  | vZipGroups r m k ss =>
    simp only [step]; (repeat' split) <;>
      first | exact .same | exact .alloc _ _ (by intro v c rc h; cases h)
  | vMultiOf r pre ins =>
    simp only [step]; (repeat' split) <;>
      first | exact .same | exact .alloc _ _ (by intro v c rc h; cases h)
  | vFrom r kind v =>
    simp only [step]; (repeat' split) <;>
      first | exact .same | exact .alloc _ _ (by intro v c rc h; cases h)
  | vStandOf r v =>
    simp only [step]; (repeat' split) <;>
      first | exact .same | exact .alloc _ _ (by intro v c rc h; cases h)
  | vMPath r mode v =>
    simp only [step]; (repeat' split) <;>
      first | exact .same | exact .alloc _ _ (by intro v c rc h; cases h)
  | vSelect r v kw =>
    simp only [step]; split
    · next c vc hcid hcell =>
      rw [Tab.cell_of_cid _ _ _ hcid] at hcell
      split
      · next vc' ho =>
        refine .alloc r vc' ?_
        intro v' c' rc hv hc' hrc
        simp only [viewReceiver, Option.some.injEq] at hv
        subst hv
        rw [hcid] at hc'; cases hc'
        rw [hcell] at hrc; cases hrc
        exact selectOutcome_fresh w vc vc' kw ho
      · next vc' ho =>
        exact .writeAlias r v c vc vc' rfl hcid hcell (selectOutcome_inplace w vc vc' kw ho).1
      · exact .same
    · exact .same
  | vSelectPick r v names =>
    simp only [step]; split
    · next c vc hcid hcell =>
      rw [Tab.cell_of_cid _ _ _ hcid] at hcell
      split
      · next vc' ho =>
        exact .writeAlias r v c vc vc' rfl hcid hcell (pickOutcome_inplace w vc vc' names _ ho)
      · next vc' e _ ho =>
        exact .write v c vc vc' rfl hcid hcell (.inr (pickOutcome_inplace w vc vc' names _ ho))
      · exact .same
    · exact .same
  | vLinear r ss =>
    simp only [step]; split
    · exact .alloc _ _ (by intro v c rc h; cases h)
    · exact .same
  | vLazy r v =>
    simp only [step]; split
    · split
      · exact .alloc _ _ (by intro v c rc h; cases h)
      · exact .same
    · exact .same
  | vZip r m ss =>
    simp only [step]; split
    · split
      · exact .same
      · split <;> exact .alloc _ _ (by intro v c rc h; cases h)
    · exact .same
  | vMulti r vs =>
    simp only [step]; split
    · split
      · exact .same
      · exact .alloc _ _ (by intro v c rc h; cases h)
    · exact .same
  | vStandalone r ss =>
    simp only [step]; split
    · split
      · exact .same
      · exact .alloc _ _ (by intro v c rc h; cases h)
    · exact .same
  | vSbt r ss =>
    simp only [step]; split
    · split
      · exact .same
      · split
        · exact .same
        · exact .alloc _ _ (by intro v c rc h; cases h)
    · exact .same
  | vLca r ss =>
    simp only [step]; split
    · split
      · exact .same
      · split
        · exact .same
        · exact .alloc _ _ (by intro v c rc h; cases h)
    · exact .same
  | sGatherInit r s =>
    simp only [step]
    rcases gatherInit_eq hsrc w r s with h | ⟨e, h⟩ | ⟨sc, q, _, h⟩ <;> rw [h] <;> exact .same
  | _ =>
    simp only [step, toMutableSig_eq hsrc, toMutableSigCopy, updateWith_eq hsrc, updateCopy] <;> (repeat' split) <;>
      first
      | exact .same
      | (rw [(sigMutate_others _ _ _).2.1]; exact .same)

/-! ### consequences: signature layer -/

/-- frame rule for signatures: an existing signature cell can only be written through a handle bound to it,
    by one of the signature's own mutators (or `into_frozen`) -/
theorem sig_frame' (hsrc : SourceOk) (w : World) (op : Op) (c : Nat) (cell : SigCell)
    (hc : w.sigs.cells[c]? = some cell)
    (hne : ∀ s, sigReceiver op = some s → w.sigs.cid s ≠ some c) :
    (step w op).1.sigs.cells[c]? = some cell := by
  have hs := step_sigs_shape hsrc w op
  generalize (step w op).1.sigs = t' at hs
  cases hs with
  | same => exact hc
  | write s c₀ cell₀ v hr _ hcid _ _ =>
    have : c₀ ≠ c := fun e => hne s hr (e ▸ hcid)
    exact getElem?_set_ne' _ _ _ _ _ this hc
  | freeze s c₀ cell₀ hop hcid _ =>
    have : c₀ ≠ c := fun e => hne s (by rw [hop]; rfl) (e ▸ hcid)
    exact getElem?_set_ne' _ _ _ _ _ this hc
  | alloc r v fr _ => exact getElem?_append_old _ _ _ _ hc
  | alias r c₀ _ _ => exact hc

/-- a frozen signature cell is left exactly as it is by every operation -/
theorem sig_frozen_cell_step (hsrc : SourceOk) (w : World) (op : Op) (c : Nat) (cell : SigCell)
    (hc : w.sigs.cells[c]? = some cell) (hf : cell.frozen = true) :
    (step w op).1.sigs.cells[c]? = some cell := by
  have hs := step_sigs_shape hsrc w op
  generalize (step w op).1.sigs = t' at hs
  cases hs with
  | same => exact hc
  | write s c₀ cell₀ v _ _ _ hcell hf₀ =>
    have : c₀ ≠ c := by
      intro e; subst e
      rw [hc] at hcell; cases hcell
      rw [hf] at hf₀; cases hf₀
    exact getElem?_set_ne' _ _ _ _ _ this hc
  | freeze s c₀ cell₀ _ _ hcell =>
    by_cases e : c₀ = c
    · subst e
      rw [hc] at hcell; cases hcell
      have : (⟨cell.val, true⟩ : SigCell) = cell := by
        cases cell; simp_all
      simp [Tab.setCell, List.getElem?_set_self (lt_of_getElem? _ _ _ hc), this]
    · exact getElem?_set_ne' _ _ _ _ _ e hc
  | alloc r v fr _ => exact getElem?_append_old _ _ _ _ hc
  | alias r c₀ _ _ => exact hc

theorem sig_frozen_cell_foldl (hsrc : SourceOk) (ops : List Op) (w : World) (c : Nat) (cell : SigCell)
    (hc : w.sigs.cells[c]? = some cell) (hf : cell.frozen = true) :
    (ops.foldl (fun w op => (step w op).1) w).sigs.cells[c]? = some cell := by
  induction ops generalizing w with
  | nil => exact hc
  | cons op ops ih => exact ih _ (sig_frozen_cell_step hsrc w op c cell hc hf)

/-- every signature mutator applied to a frozen signature: ValueError, and the WHOLE world unchanged -/
theorem sig_frozen_refused' (w : World) (op : Op) (s : Nat) (sc : SigCell)
    (hm : isSigMutator op = true) (hr : sigReceiver op = some s)
    (hc : w.sigs.cell s = some sc) (hf : sc.frozen = true) (hwf : (step w op).2 ≠ .bad) :
    step w op = (w, .err "ValueError") := by
  cases op with
  | sSetMh s' h =>
    simp only [sigReceiver, Option.some.injEq] at hr; subst hr
    simp only [step] at hwf ⊢
    split
    · exact sigMutate_frozen w _ _ sc hc hf
    · next hn => simp [hn] at hwf
  | sSetState s' h nm fn =>
    simp only [sigReceiver, Option.some.injEq] at hr; subst hr
    simp only [step] at hwf ⊢
    split
    · exact sigMutate_frozen w _ _ sc hc hf
    · next hn => simp [hn] at hwf
  | sSetName s' x | sSetFilename s' x | sAddSeq s' sq f | sAddProt s' sq =>
    simp only [sigReceiver, Option.some.injEq] at hr; subst hr
    simp only [step]
    exact sigMutate_frozen w _ _ sc hc hf
  | _ => simp [isSigMutator] at hm

/-- a second handle on an EXISTING signature cell arises only from `to_frozen()` / `copy()` of a frozen
    signature, or from a collection handing out the object it holds -/
theorem sig_alias_only' (hsrc : SourceOk) (w : World) (op : Op) (r c : Nat)
    (hnew : (step w op).1.sigs.cid r = some c) (hold : w.sigs.cid r ≠ some c)
    (hlt : c < w.sigs.cells.length) :
    (∃ cell, w.sigs.cells[c]? = some cell ∧ cell.frozen = true) ∨ (∃ v i, op = .vGet r v i) := by
  have hs := step_sigs_shape hsrc w op
  generalize (step w op).1.sigs = t' at hs hnew
  cases hs with
  | same => exact absurd hnew hold
  | write s c₀ cell₀ v _ _ _ _ _ => exact absurd hnew hold
  | freeze s c₀ cell₀ _ _ _ => exact absurd hnew hold
  | alloc r' v fr _ =>
    by_cases e : r = r'
    · subst e
      rw [Tab.cid_alloc_self] at hnew
      cases hnew; omega
    · rw [Tab.cid_alloc_ne _ _ _ _ e] at hnew
      exact absurd hnew hold
  | alias r' c₀ _ hwhy =>
    by_cases e : r = r'
    · subst e
      rw [Tab.cid_bind_self] at hnew
      cases hnew
      exact hwhy
    · rw [Tab.cid_bind_ne _ _ _ _ e] at hnew
      exact absurd hnew hold

/-- `Index.counter_gather` / `CounterGather.__init__`: signatures and views untouched -/
theorem counter_gather_others (w : World) (r s : Nat) (ds : List Nat) :
    (step w (.sCounterGather r s ds)).1.sigs = w.sigs ∧ (step w (.sCounterGather r s ds)).1.views = w.views := by
  simp only [step]
  (repeat' split) <;> exact ⟨rfl, rfl⟩

/-! ### consequences: the two layers cannot reach each other -/

/-- a sketch-layer operation leaves signatures, views, rows and stores alone (they hold VALUES) -/
theorem mh_op_others (w : World) (o : Own.Op) :
    (step w (.mh o)).1.sigs = w.sigs ∧ (step w (.mh o)).1.views = w.views ∧
    (step w (.mh o)).1.rows = w.rows ∧ (step w (.mh o)).1.stores = w.stores :=
  ⟨rfl, rfl, rfl, rfl⟩

theorem mh_ops_foldl_others (ops : List Own.Op) (w : World) :
    (ops.foldl (fun w o => (step w (.mh o)).1) w).sigs = w.sigs ∧
    (ops.foldl (fun w o => (step w (.mh o)).1) w).views = w.views ∧
    (ops.foldl (fun w o => (step w (.mh o)).1) w).rows = w.rows ∧
    (ops.foldl (fun w o => (step w (.mh o)).1) w).stores = w.stores := by
  induction ops generalizing w with
  | nil => exact ⟨rfl, rfl, rfl, rfl⟩
  | cons o ops ih =>
    obtain ⟨h1, h2, h3, h4⟩ := ih (step w (.mh o)).1
    exact ⟨h1, h2, h3, h4⟩

/-- an operation of the signature / view layers never writes an existing sketch cell and never re-binds an
    existing sketch handle other than its result handle: at most one fresh sketch cell appears -/
theorem obj_op_heap (hsrc : SourceOk) (w : World) (op : Op) (hn : ∀ o, op ≠ .mh o) :
    (step w op).1.heap = w.heap ∨ ∃ r v fr, (step w op).1.heap = w.heap.alloc r v fr := by
  have hs := step_heap_shape hsrc w op
  generalize (step w op).1.heap = hp' at hs
  cases hs with
  | same => exact .inl rfl
  | mh o h => exact absurd h (hn o)
  | alloc r v fr _ => exact .inr ⟨r, v, fr, rfl⟩

theorem obj_op_heap_cells (hsrc : SourceOk) (w : World) (op : Op) (hn : ∀ o, op ≠ .mh o) (c : Nat) (cell : Cell)
    (hc : w.heap.cells[c]? = some cell) : (step w op).1.heap.cells[c]? = some cell := by
  rcases obj_op_heap hsrc w op hn with h | ⟨r, v, fr, h⟩
  · rw [h]; exact hc
  · rw [h, Sm.Own.cells_alloc]; exact getElem?_append_old _ _ _ _ hc

/-- `sig.minhash`: a fresh, frozen sketch cell holding a copy of the inner sketch -/
theorem sig_minhash_fresh' (w : World) (r s : Nat) (hok : (step w (.sMinhash r s)).2 = .ok) :
    ∃ sc, w.sigs.cell s = some sc ∧
      (step w (.sMinhash r s)).1.heap.cid r = some w.heap.cells.length ∧
      (step w (.sMinhash r s)).1.heap.cells[w.heap.cells.length]? = some ⟨sc.val.mh, true⟩ ∧
      (step w (.sMinhash r s)).1.sigs = w.sigs := by
  simp only [step] at hok ⊢
  cases hs : w.sigs.cell s with
  | none => simp [hs] at hok
  | some sc =>
    refine ⟨sc, rfl, ?_, ?_, rfl⟩
    · simp [Sm.Own.cid_alloc_self]
    · simp [Sm.Own.cells_alloc]

/-! ### consequences: copies of signatures -/

theorem sig_to_mutable_fresh' (hsrc : SourceOk) (w : World) (r s : Nat) (hok : (step w (.sToMutable r s)).2 = .ok) :
    ∃ sc, w.sigs.cell s = some sc ∧
      (step w (.sToMutable r s)).1.sigs = w.sigs.alloc r ⟨sc.val, false⟩ := by
  simp only [step, toMutableSig_eq hsrc, toMutableSigCopy] at hok ⊢
  cases hs : w.sigs.cell s with
  | none => simp [hs] at hok
  | some sc => exact ⟨sc, rfl, rfl⟩

theorem sig_copy_disjoint' (hsrc : SourceOk) (w : World) (r s : Nat) (hok : (step w (.sToMutable r s)).2 = .ok)
    (op : Op) (hrec : ∀ s', sigReceiver op = some s' → s' = r)
    (c : Nat) (cell : SigCell) (hcell : w.sigs.cells[c]? = some cell) :
    (step (step w (.sToMutable r s)).1 op).1.sigs.cells[c]? = some cell := by
  obtain ⟨sc, _, hv⟩ := sig_to_mutable_fresh' hsrc w r s hok
  apply sig_frame' hsrc
  · rw [hv, Tab.cells_alloc]; exact getElem?_append_old _ _ _ _ hcell
  · intro s' hs'
    rw [hrec s' hs', hv, Tab.cid_alloc_self]
    have := lt_of_getElem? _ _ _ hcell
    intro e; cases e; omega

/-- `with s.update() as q: …`: the object handed to the body, and returned frozen, is a new cell -/
theorem sig_update_fresh' (hsrc : SourceOk) (w : World) (r s : Nat) (body : SigVal → Except MH.Err SigVal)
    (hok : (updateWith w r s body).2 = .ok) :
    ∃ v, (updateWith w r s body).1.sigs = w.sigs.alloc r ⟨v, true⟩ ∧
      (updateWith w r s body).1.heap = w.heap ∧ (updateWith w r s body).1.views = w.views := by
  rw [updateWith_eq hsrc] at hok ⊢
  unfold updateCopy at hok ⊢
  cases hs : w.sigs.cell s with
  | none => simp [hs] at hok
  | some sc =>
    simp only [hs] at hok ⊢
    by_cases hf : sc.frozen = true
    · simp only [hf, Bool.not_true, Bool.false_eq_true, if_false] at hok ⊢
      cases hb : body sc.val with
      | ok v => exact ⟨v, rfl, rfl, rfl⟩
      | error e => simp [hb] at hok
    · have hf' : sc.frozen = false := by simpa using hf
      simp [hf'] at hok

/-- `GatherDatabases.__init__` writes no caller-owned cell: its result is one fresh mutable signature -/
theorem gather_init_fresh' (hsrc : SourceOk) (w : World) (r s : Nat) (hok : (step w (.sGatherInit r s)).2 = .ok) :
    ∃ v, (step w (.sGatherInit r s)).1 = w.sigFresh r v false := by
  simp only [step] at hok ⊢
  rcases gatherInit_eq hsrc w r s with h | ⟨e, h⟩ | ⟨sc, q, _, h⟩
  · rw [h] at hok; cases hok
  · rw [h] at hok; cases hok
  · exact ⟨_, by rw [h]⟩

/-- … whereas over a `to_mutable()` that returns the object itself (seeded change C15a) the very same
    constructor overwrites the caller's query with the flattened one -/
theorem gather_init_aliasing_overwrites' (w : World) (r s c : Nat) (sc : SigCell) (q : MH)
    (hcid : w.sigs.cid s = some c) (hcell : w.sigs.cells[c]? = some sc) (hmut : sc.frozen = false)
    (hnum : sc.val.mh.num = 0) (hq : gatherQueryMh sc.val.mh = .ok q) :
    (gatherInitWith toMutableSigAliasing w r s).1.sigs.cells[c]? = some ⟨{ sc.val with mh := q }, false⟩ := by
  have hc : w.sigs.cell s = some sc := by rw [Tab.cell_of_cid _ _ _ hcid]; exact hcell
  unfold gatherInitWith
  simp only [hc, hnum, hq, ne_eq, not_true_eq_false, if_false]
  simp only [toMutableSigAliasing, hcid, hc, hmut, Bool.false_eq_true, if_false]
  simp only [World.sigMutate, World.sigAlias, Tab.cid_bind_self, Tab.cells_bind, hcell, hmut,
    Bool.false_eq_true, if_false]
  simp [Tab.setCell, Tab.bind, List.getElem?_set_self (lt_of_getElem? _ _ _ hcell)]

/-- `update()` without the copy (thaw, modify, freeze) rewrites the frozen receiver -/
theorem update_in_place_overwrites' (w : World) (r s c : Nat) (sc : SigCell) (v : SigVal)
    (body : SigVal → Except MH.Err SigVal)
    (hcid : w.sigs.cid s = some c) (hcell : w.sigs.cells[c]? = some sc) (hf : sc.frozen = true)
    (hb : body sc.val = .ok v) :
    (updateInPlace w r s body).1.sigs.cells[c]? = some ⟨v, true⟩ := by
  have hc : w.sigs.cell s = some sc := by rw [Tab.cell_of_cid _ _ _ hcid]; exact hcell
  simp only [updateInPlace, hcid, hc, hf, hb, Bool.not_true, Bool.false_eq_true, if_false]
  simp [Tab.setCell, Tab.bind, List.getElem?_set_self (lt_of_getElem? _ _ _ hcell)]

/-! ### consequences: collection views -/

/-- frame rule for views: an existing view cell can only be written through a handle bound to it, by `insert`
    or by `select` when the receiver is one of the in-place kinds -/
theorem view_frame' (hsrc : SourceOk) (w : World) (op : Op) (c : Nat) (vc : ViewCell)
    (hc : w.views.cells[c]? = some vc)
    (hne : ∀ v, viewReceiver op = some v → w.views.cid v ≠ some c) :
    (step w op).1.views.cells[c]? = some vc := by
  have hs := step_views_shape hsrc w op
  generalize (step w op).1.views = t' at hs
  cases hs with
  | same => exact hc
  | write v c₀ vc₀ vc' hr hcid _ _ =>
    have : c₀ ≠ c := fun e => hne v hr (e ▸ hcid)
    exact getElem?_set_ne' _ _ _ _ _ this hc
  | writeAlias r v c₀ vc₀ vc' hr hcid _ _ =>
    have : c₀ ≠ c := fun e => hne v hr (e ▸ hcid)
    exact getElem?_set_ne' _ _ _ _ _ this hc
  | alloc r vc' _ => exact getElem?_append_old _ _ _ _ hc

/-- `select` on a copying kind changes NO existing view cell — not even its receiver -/
theorem select_frame' (hsrc : SourceOk) (w : World) (op : Op) (v : Nat) (rc : ViewCell)
    (hop : (∃ r kw, op = .vSelect r v kw) ∨ (∃ r names, op = .vSelectPick r v names))
    (hv : w.views.cell v = some rc) (hk : rc.kind.inPlace = false)
    (c : Nat) (vc : ViewCell) (hc : w.views.cells[c]? = some vc) :
    (step w op).1.views.cells[c]? = some vc := by
  obtain ⟨c₁, hcid₁, hcell₁⟩ := Tab.cell_eq w.views v rc hv
  have hrecv : viewReceiver op = some v := by
    rcases hop with ⟨r, kw, h⟩ | ⟨r, names, h⟩ <;> rw [h] <;> rfl
  have hnotins : ¬ ∃ v' s, op = .vInsert v' s := by
    rcases hop with ⟨r, kw, h⟩ | ⟨r, names, h⟩ <;> rw [h] <;> intro ⟨_, _, e⟩ <;> cases e
  have hs := step_views_shape hsrc w op
  generalize (step w op).1.views = t' at hs
  cases hs with
  | same => exact hc
  | write v' c₀ vc₀ vc' hr hcid hcell hwhy =>
    rw [hrecv] at hr; cases hr
    rw [hcid₁] at hcid; cases hcid
    rw [hcell₁] at hcell; cases hcell
    rcases hwhy with ⟨s, e⟩ | hin
    · exact absurd ⟨_, _, e⟩ hnotins
    · rw [hk] at hin; cases hin
  | writeAlias r v' c₀ vc₀ vc' hr hcid hcell hin =>
    rw [hrecv] at hr; cases hr
    rw [hcid₁] at hcid; cases hcid
    rw [hcell₁] at hcell; cases hcell
    rw [hk] at hin; cases hin
  | alloc r vc' _ => exact getElem?_append_old _ _ _ _ hc

/-- … and hands back a NEW cell -/
theorem copying_select_fresh' (w : World) (r v : Nat) (kw : Sel) (rc : ViewCell)
    (hv : w.views.cell v = some rc) (hk : rc.kind.inPlace = false)
    (hok : (step w (.vSelect r v kw)).2 = .ok) :
    ∃ vc', selectOutcome w rc kw = .fresh vc' ∧ (step w (.vSelect r v kw)).1 = w.viewFresh r vc' := by
  obtain ⟨c, hcid, _⟩ := Tab.cell_eq w.views v rc hv
  simp only [step, hcid, hv] at hok ⊢
  cases ho : selectOutcome w rc kw with
  | fresh vc' => exact ⟨vc', rfl, rfl⟩
  | inplace vc' =>
    have := (selectOutcome_inplace w rc vc' kw ho).1
    rw [hk] at this; cases this
  | err e => simp [ho] at hok

theorem set_self' {α : Type} (l : List α) (c : Nat) (x : α) (h : l[c]? = some x) : l.set c x = l := by
  induction l generalizing c with
  | nil => rfl
  | cons a l ih =>
    cases c with
    | zero => simp at h; simp [h]
    | succ c => simp at h; simp [ih c h]

/-- `select` on an in-place kind (SBT, LCA_Database) returns the receiver itself; without a picklist
    the criteria are mere checks: no view cell changes -/
theorem inplace_select_returns_self' (w : World) (r v c : Nat) (kw : Sel) (rc : ViewCell)
    (hcid : w.views.cid v = some c) (hv : w.views.cell v = some rc) (hk : rc.kind.inPlace = true)
    (hok : (step w (.vSelect r v kw)).2 = .ok) :
    (step w (.vSelect r v kw)).1.views.cid r = some c ∧
    (step w (.vSelect r v kw)).1.views.cells = w.views.cells := by
  have hcell : w.views.cells[c]? = some rc := by rw [← Tab.cell_of_cid _ _ _ hcid]; exact hv
  simp only [step, hcid, hv] at hok ⊢
  cases ho : selectOutcome w rc kw with
  | fresh vc' =>
    have := selectOutcome_fresh w rc vc' kw ho
    rw [hk] at this; cases this
  | inplace vc' =>
    have := (selectOutcome_inplace w rc vc' kw ho).2
    subst this
    refine ⟨?_, ?_⟩
    · simp only [viewAlias_views, Tab.cid_bind_self]
    · simp only [viewAlias_views, viewSet_views, Tab.cells_bind, Tab.cells_setCell]
      exact set_self' _ _ _ hcell
  | err e => simp [ho] at hok

/-- whatever is later done THROUGH the result of a copying select leaves the parent's cell alone -/
theorem select_result_independent' (hsrc : SourceOk) (w : World) (r v : Nat) (kw : Sel) (rc : ViewCell)
    (hv : w.views.cell v = some rc) (hk : rc.kind.inPlace = false)
    (hok : (step w (.vSelect r v kw)).2 = .ok)
    (op : Op) (hrec : ∀ v', viewReceiver op = some v' → v' = r)
    (c : Nat) (vc : ViewCell) (hc : w.views.cells[c]? = some vc) :
    (step (step w (.vSelect r v kw)).1 op).1.views.cells[c]? = some vc := by
  obtain ⟨vc', _, hw⟩ := copying_select_fresh' w r v kw rc hv hk hok
  apply view_frame' hsrc
  · rw [hw]; simp only [viewFresh_views, Tab.cells_alloc]; exact getElem?_append_old _ _ _ _ hc
  · intro v' hv'
    rw [hrec v' hv', hw]
    simp only [viewFresh_views, Tab.cid_alloc_self]
    have := lt_of_getElem? _ _ _ hc
    intro e; cases e; omega

/-- no operation writes an existing manifest row or an existing store -/
theorem rows_stable (hsrc : SourceOk) (w : World) (op : Op) (i : Nat) (row : Row) (h : w.rows[i]? = some row) :
    (step w op).1.rows[i]? = some row := by
  obtain ⟨new, hn⟩ := step_rows_append hsrc w op
  rw [hn]; exact getElem?_append_old' _ _ _ _ h

theorem stores_stable (hsrc : SourceOk) (w : World) (op : Op) (i : Nat) (st : List SigVal) (h : w.stores[i]? = some st) :
    (step w op).1.stores[i]? = some st := by
  obtain ⟨new, hn⟩ := step_stores_append hsrc w op
  rw [hn]; exact getElem?_append_old' _ _ _ _ h

theorem rows_stable_foldl (hsrc : SourceOk) (ops : List Op) (w : World) (i : Nat) (row : Row) (h : w.rows[i]? = some row) :
    (ops.foldl (fun w op => (step w op).1) w).rows[i]? = some row := by
  induction ops generalizing w with
  | nil => exact h
  | cons op ops ih => exact ih _ (rows_stable hsrc w op i row h)

/-! ### what a copying select shares with its parent -/

theorem filterSel_subset {α : Type} (kw : Sel) (f : α → MH) (xs l : List α)
    (h : filterSel kw f xs = some l) : ∀ x, x ∈ l → x ∈ xs := by
  induction xs generalizing l with
  | nil => simp [filterSel] at h; subst h; simp
  | cons a xs ih =>
    simp only [filterSel] at h
    split at h
    · cases h
    · next b _ =>
      split at h
      · cases h
      · next r hr =>
        simp only [Option.some.injEq] at h
        subst h
        intro x hx
        by_cases hb : b = true
        · simp only [hb, if_true, List.mem_cons] at hx
          rcases hx with e | hx
          · exact e ▸ List.mem_cons_self
          · exact List.mem_cons_of_mem _ (ih r hr x hx)
        · simp only [hb, Bool.false_eq_true, if_false] at hx
          exact List.mem_cons_of_mem _ (ih r hr x hx)

/-- the cell a copying select builds refers to nothing its parent did not refer to: member signature cells
    (by reference), manifest rows (never written, `rows_stable hsrc`), the wrapped index of a lazy view, the store
    (never written, `stores_stable hsrc`); the selection dict, the member list and the row list themselves are new VALUES -/
theorem select_shares' (w : World) (vc vc' : ViewCell) (kw : Sel)
    (h : selectOutcome w vc kw = .fresh vc') :
    vc'.kind = vc.kind ∧ (∀ x, x ∈ vc'.sigs → x ∈ vc.sigs) ∧ (∀ x, x ∈ vc'.rows → x ∈ vc.rows) ∧
    (vc.kind = .lazy → vc'.db = vc.db) ∧ (vc.kind.onDisk = true → vc'.store = vc.store) ∧
    vc'.picks = [] ∧ (∀ x, x ∈ vc'.vals → x ∈ vc.vals) := by
  unfold selectOutcome at h
  cases hk : vc.kind <;> simp only [hk] at h
  case linear =>
    split at h
    · cases h
    · next l hl =>
      split at h
      · cases h
      · next vs hvs =>
        injection h with h; subst h
        refine ⟨rfl, ?_, by simp, by simp, by simp [VKind.onDisk], rfl, filterSel_subset _ _ _ _ hvs⟩
        intro x hx
        simp only [List.mem_map] at hx
        obtain ⟨p, hp, rfl⟩ := hx
        have := filterSel_subset _ _ _ _ hl p hp
        simp only [List.mem_filterMap] at this
        obtain ⟨c, hc, hcp⟩ := this
        cases hcc : w.sigs.cells[c]? with
        | none => simp [hcc] at hcp
        | some x => simp [hcc] at hcp; subst hcp; exact hc
  case lazy =>
    split at h
    · cases h
    · injection h with h; subst h
      exact ⟨rfl, by simp, by simp, by simp, by simp [VKind.onDisk], rfl, by simp⟩
  case zipnm =>
    split at h
    · injection h with h; subst h
      exact ⟨rfl, by simp, by simp, by simp, by simp, rfl, by simp⟩
    · injection h with h; subst h
      exact ⟨rfl, by simp, by simp, by simp, by simp, rfl, by simp⟩
    · split at h
      · cases h
      · injection h with h; subst h
        exact ⟨rfl, by simp, by simp, by simp, by simp, rfl, by simp⟩
  case zipm =>
    injection h with h; subst h
    exact ⟨rfl, by simp, fun x hx => (List.mem_filter.mp hx).1, by simp, by simp, rfl, by simp⟩
  case multi =>
    injection h with h; subst h
    exact ⟨rfl, by simp, fun x hx => (List.mem_filter.mp hx).1, by simp, by simp, rfl, by simp⟩
  case standalone =>
    injection h with h; subst h
    exact ⟨rfl, by simp, fun x hx => (List.mem_filter.mp hx).1, by simp, by simp, rfl, by simp⟩
  case sbt =>
    split at h
    · cases h
    · split at h <;> cases h
  case lca =>
    split at h <;> cases h
  case sbtdisk =>
    split at h
    · cases h
    · split at h <;> cases h
  case sqlite =>
    split at h
    · cases h
    · split at h
      · cases h
      · split at h
        · cases h
        · injection h with h; subst h
          exact ⟨rfl, by simp, by simp, by simp, by simp, rfl, by simp⟩
  case lcasql =>
    split at h
    · cases h
    · split at h
      · cases h
      · split at h
        · cases h
        · injection h with h; subst h
          exact ⟨rfl, by simp, by simp, by simp, by simp, rfl, by simp⟩

end Sm.Obj
