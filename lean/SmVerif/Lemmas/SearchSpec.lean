/-
C06, the brute-force specification and the order-independent facts about the scan every container
performs over its (scored) candidates:

* `bruteForce`      : every database entry whose score passes, with that score, in database order;
* `scan`            : "for each candidate: if passes then collect and yield" -- the common shape of
                      `Index.find`, `LCA_Database.find`, `SqliteIndex.find` once the scores are known;
* plain search      : `scan` = filter (`scan_plain`);
* best-only search  : everything yielded passes the ORIGINAL threshold (`scan_sound`) and every
                      maximal passing candidate is yielded (`scan_max`), whatever the order;
* `sortDesc`        : a permutation, sorted by descending score.
-/
import SmVerif.Model.Search
import SmVerif.Lemmas.SearchFloat
import Mathlib.Data.List.Perm.Basic

namespace Sm.Search

open Sm.F64

/-! ### `passes`, `collect` -/

theorem passes_iff (js : JS) (r : Ratio) :
    js.passes r = true ↔ (r.n ≠ 0 ∧ r.d ≠ 0) ∧ ge r.toF js.thr = true := by
  unfold JS.passes Ratio.toF
  rw [Bool.and_eq_true, decide_eq_true_eq, divNat_m_ne_zero_iff]

theorem fmax_cases (a b : F) : (fmax a b = a ∧ ge a b = true) ∨ (fmax a b = b ∧ ge b a = true) := by
  unfold fmax gt
  cases h : ge a b with
  | true => left; simp
  | false =>
    right
    refine ⟨by simp, ?_⟩
    rcases ge_total a b with h' | h'
    · rw [h] at h'; cases h'
    · exact h'

theorem fmax_ge_left (a b : F) : ge (fmax a b) a = true := by
  rcases fmax_cases a b with ⟨h, _⟩ | ⟨h, h'⟩
  · rw [h]; exact ge_refl a
  · rw [h]; exact h'

theorem fmax_ge_right (a b : F) : ge (fmax a b) b = true := by
  rcases fmax_cases a b with ⟨h, h'⟩ | ⟨h, _⟩
  · rw [h]; exact h'
  · rw [h]; exact ge_refl b

theorem collect_mode (js : JS) (r : Ratio) : (js.collect r).mode = js.mode := by
  unfold JS.collect; split <;> rfl

theorem collect_bestOnly (js : JS) (r : Ratio) : (js.collect r).bestOnly = js.bestOnly := by
  unfold JS.collect; split <;> rfl

theorem collect_plain {js : JS} (h : js.bestOnly = false) (r : Ratio) : js.collect r = js := by
  unfold JS.collect; simp [h]

theorem collect_thr_ge (js : JS) (r : Ratio) : ge (js.collect r).thr js.thr = true := by
  unfold JS.collect
  split
  · exact fmax_ge_left _ _
  · exact ge_refl _

/-- the threshold after `collect` is the old one or the collected score -/
theorem collect_thr_cases (js : JS) (r : Ratio) :
    (js.collect r).thr = js.thr ∨ ((js.collect r).thr = r.toF ∧ ge r.toF js.thr = true) := by
  unfold JS.collect
  split
  · rcases fmax_cases js.thr r.toF with ⟨h, _⟩ | ⟨h, h'⟩
    · left; exact h
    · right; exact ⟨h, h'⟩
  · left; rfl

/-- passing a higher threshold implies passing a lower one -/
theorem passes_of_thr_ge {js js' : JS} {r : Ratio} (h : ge js'.thr js.thr = true)
    (hp : js'.passes r = true) : js.passes r = true := by
  rw [passes_iff] at hp ⊢
  exact ⟨hp.1, ge_trans hp.2 h⟩

/-! ### the generic scan -/

/-- for each candidate in order: `if passes(score): collect(score); yield` -/
def scan : JS → List Hit → JS × List Hit
  | js, [] => (js, [])
  | js, h :: rest =>
    if js.passes h.score then
      ((scan (js.collect h.score) rest).1, h :: (scan (js.collect h.score) rest).2)
    else scan js rest

/-- brute force: the candidates whose score passes the (original) threshold, in order -/
def bruteHits (js : JS) (l : List Hit) : List Hit := l.filter (fun h => js.passes h.score)

theorem scan_plain {js : JS} (hb : js.bestOnly = false) (l : List Hit) :
    scan js l = (js, bruteHits js l) := by
  induction l with
  | nil => rfl
  | cons h rest ih =>
    unfold scan bruteHits
    by_cases hp : js.passes h.score = true
    · rw [if_pos hp, collect_plain hb, ih, List.filter_cons_of_pos (by simpa using hp)]
      rfl
    · rw [if_neg hp, ih, List.filter_cons_of_neg (by simpa using hp)]
      rfl

theorem scan_thr_ge (js : JS) (l : List Hit) : ge (scan js l).1.thr js.thr = true := by
  induction l generalizing js with
  | nil => exact ge_refl _
  | cons h rest ih =>
    unfold scan
    split
    · exact ge_trans (ih _) (collect_thr_ge js h.score)
    · exact ih js

/-- best-only or not: whatever is yielded is a candidate that passes the original threshold -/
theorem scan_sound (js : JS) (l : List Hit) : (scan js l).2.Sublist (bruteHits js l) := by
  induction l generalizing js with
  | nil => exact List.Sublist.slnil
  | cons h rest ih =>
    unfold scan bruteHits
    by_cases hp : js.passes h.score = true
    · rw [if_pos hp, List.filter_cons_of_pos (by simpa using hp)]
      refine List.Sublist.cons_cons _ ?_
      have h1 := ih (js.collect h.score)
      -- passing the raised threshold implies passing the original one
      have h2 : (bruteHits (js.collect h.score) rest).Sublist (bruteHits js rest) := by
        unfold bruteHits
        apply List.monotone_filter_right
        intro x hx
        exact passes_of_thr_ge (collect_thr_ge js h.score) hx
      exact h1.trans h2
    · rw [if_neg hp, List.filter_cons_of_neg (by simpa using hp)]
      exact ih js

/-- every maximal passing candidate is yielded, in whatever order the candidates come -/
theorem scan_max (js : JS) (l : List Hit) (x : Hit) (hx : x ∈ l) (hp : js.passes x.score = true)
    (hmax : ∀ y ∈ l, js.passes y.score = true → ge x.score.toF y.score.toF = true) :
    x ∈ (scan js l).2 := by
  induction l generalizing js with
  | nil => cases hx
  | cons h rest ih =>
    unfold scan
    by_cases hph : js.passes h.score = true
    · rw [if_pos hph]
      rcases List.mem_cons.1 hx with rfl | hx'
      · exact List.mem_cons_self
      · apply List.mem_cons_of_mem
        have hxh := hmax h List.mem_cons_self hph
        have hp' : (js.collect h.score).passes x.score = true := by
          rw [passes_iff] at hp ⊢
          refine ⟨hp.1, ?_⟩
          rcases collect_thr_cases js h.score with e | ⟨e, _⟩
          · rw [e]; exact hp.2
          · rw [e]; exact hxh
        apply ih (js.collect h.score) hx' hp'
        intro y hy hpy
        exact hmax y (List.mem_cons_of_mem _ hy) (passes_of_thr_ge (collect_thr_ge js h.score) hpy)
    · rw [if_neg hph]
      rcases List.mem_cons.1 hx with rfl | hx'
      · exact absurd hp hph
      · exact ih js hx' hp (fun y hy => hmax y (List.mem_cons_of_mem _ hy))

/-! ### `Index.find` is a scan over the scored database -/

/-- the database with the score of every entry (entries whose score cannot be computed are dropped) -/
def scored (score : MH → Except SErr Ratio) : List (Nat × MH) → List Hit
  | [] => []
  | (i, s) :: rest =>
    match score s with
    | .ok r => ⟨i, r⟩ :: scored score rest
    | .error _ => scored score rest

/-- **the specification**: `[(s, score q s) | s ∈ db, passes (score q s)]` -/
def bruteForce (js : JS) (score : MH → Except SErr Ratio) (db : List (Nat × MH)) : List Hit :=
  bruteHits js (scored score db)

theorem scan_mode (js : JS) (l : List Hit) : (scan js l).1.mode = js.mode := by
  induction l generalizing js with
  | nil => rfl
  | cons h rest ih =>
    unfold scan
    split
    · rw [ih, collect_mode]
    · exact ih js

theorem findLoop_eq_scan (q : MH) (js : JS) (db : List (Nat × MH))
    (hok : ∀ p ∈ db, ∃ r, pairScore js.mode q p.2 = .ok r) :
    findLoop q js db = .ok (scan js (scored (pairScore js.mode q) db)) := by
  induction db generalizing js with
  | nil => rfl
  | cons p rest ih =>
    obtain ⟨i, s⟩ := p
    obtain ⟨r, hr⟩ := hok (i, s) List.mem_cons_self
    have hrest : ∀ js' : JS, js'.mode = js.mode →
        findLoop q js' rest = .ok (scan js' (scored (pairScore js.mode q) rest)) := by
      intro js' hm
      have := ih js' (by
        intro p hp
        rw [hm]
        exact hok p (List.mem_cons_of_mem _ hp))
      rw [hm] at this
      exact this
    simp only [findLoop, scored] at hr ⊢
    rw [hr]
    simp only []
    unfold scan
    by_cases hp : js.passes r = true
    · rw [if_pos hp, if_pos hp, hrest _ (collect_mode js r)]
    · rw [if_neg hp, if_neg hp, hrest js rfl]

/-! ### sorting -/

theorem insertDesc_perm (x : Hit) (l : List Hit) : (insertDesc x l).Perm (x :: l) := by
  induction l with
  | nil => exact List.Perm.refl _
  | cons y ys ih =>
    unfold insertDesc
    split
    · exact List.Perm.refl _
    · exact (List.Perm.cons y ih).trans (List.Perm.swap x y ys)

theorem sortDesc_perm (l : List Hit) : (sortDesc l).Perm l := by
  induction l with
  | nil => exact List.Perm.refl _
  | cons x xs ih =>
    show (insertDesc x (sortDesc xs)).Perm (x :: xs)
    exact (insertDesc_perm x _).trans (List.Perm.cons x ih)

def Desc (l : List Hit) : Prop := l.Pairwise (fun a b => ge a.score.toF b.score.toF = true)

theorem insertDesc_desc (x : Hit) (l : List Hit) (h : Desc l) : Desc (insertDesc x l) := by
  induction l with
  | nil => exact List.pairwise_singleton _ _
  | cons y ys ih =>
    unfold insertDesc
    have hy := List.pairwise_cons.1 h
    by_cases hge : ge x.score.toF y.score.toF = true
    · rw [if_pos hge]
      refine List.pairwise_cons.2 ⟨?_, h⟩
      intro z hz
      rcases List.mem_cons.1 hz with rfl | hz'
      · exact hge
      · exact ge_trans hge (hy.1 z hz')
    · rw [if_neg hge]
      refine List.pairwise_cons.2 ⟨?_, ih hy.2⟩
      intro z hz
      have := (insertDesc_perm x ys).subset hz
      rcases List.mem_cons.1 this with rfl | hz'
      · rcases ge_total y.score.toF z.score.toF with h1 | h1
        · exact h1
        · exact absurd h1 hge
      · exact hy.1 z hz'

theorem sortDesc_desc (l : List Hit) : Desc (sortDesc l) := by
  induction l with
  | nil => exact List.Pairwise.nil
  | cons x xs ih => exact insertDesc_desc x _ ih

end Sm.Search
