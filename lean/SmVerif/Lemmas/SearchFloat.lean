/-
Float facts the search proofs need (C06), over the exact binary64 model:

* `ge` is the comparison of the rational values (`ge_iff_val`), hence a total preorder;
* the correctly rounded quotient of naturals is monotone: a larger exact quotient never gives a
  smaller double (`divNat_mono`) -- this is what makes SBT pruning by an upper bound sound although
  the threshold comparison is a float comparison.
-/
import SmVerif.Lemmas.Float64Lemmas
import Mathlib.Tactic.Linarith
import Mathlib.Tactic.Ring
import Mathlib.Tactic.Positivity
import Mathlib.Tactic.FieldSimp

namespace Sm.F64

/-! ### `ge` -/

theorem zpow_toNat_sub (e emin : Int) (h : emin ≤ e) :
    ((2 : ℚ) ^ (e - emin).toNat) * 2 ^ emin = 2 ^ e := by
  have h1 : ((e - emin).toNat : Int) = e - emin := Int.toNat_of_nonneg (by omega)
  rw [← zpow_natCast, h1, ← zpow_add₀ (two_ne_zero)]
  congr 1; ring

theorem ge_iff_val (x y : F) : ge x y = true ↔ y.val ≤ x.val := by
  unfold ge
  simp only [decide_eq_true_eq]
  have hx := zpow_toNat_sub x.e (min x.e y.e) (min_le_left _ _)
  have hy := zpow_toNat_sub y.e (min x.e y.e) (min_le_right _ _)
  have hpos : (0 : ℚ) < 2 ^ (min x.e y.e) := two_zpow_pos _
  unfold F.val
  rw [← hx, ← hy]
  constructor
  · intro h
    have h' : ((y.m * 2 ^ (y.e - min x.e y.e).toNat : Nat) : ℚ) ≤ ((x.m * 2 ^ (x.e - min x.e y.e).toNat : Nat) : ℚ) := by
      exact_mod_cast h
    push_cast at h'
    have := mul_le_mul_of_nonneg_right h' hpos.le
    linarith [this]
  · intro h
    have h2 : (y.m : ℚ) * 2 ^ (y.e - min x.e y.e).toNat ≤ (x.m : ℚ) * 2 ^ (x.e - min x.e y.e).toNat := by
      have := le_of_mul_le_mul_right (a := (2 : ℚ) ^ (min x.e y.e))
        (b := (y.m : ℚ) * 2 ^ (y.e - min x.e y.e).toNat) (c := (x.m : ℚ) * 2 ^ (x.e - min x.e y.e).toNat)
        (by linarith [h]) hpos
      exact this
    exact_mod_cast h2

theorem ge_refl (x : F) : ge x x = true := (ge_iff_val x x).2 le_rfl

theorem ge_total (x y : F) : ge x y = true ∨ ge y x = true := by
  rcases le_total y.val x.val with h | h
  · exact Or.inl ((ge_iff_val x y).2 h)
  · exact Or.inr ((ge_iff_val y x).2 h)

theorem ge_trans {x y z : F} (h1 : ge x y = true) (h2 : ge y z = true) : ge x z = true :=
  (ge_iff_val x z).2 (le_trans ((ge_iff_val y z).1 h2) ((ge_iff_val x y).1 h1))

theorem val_zero_mant {x : F} (h : x.m = 0) : x.val = 0 := by simp [F.val, h]

/-! ### the quotient in normal form, with its binade -/

/-- `divNat a b` is `m * 2^e` with `m` an integer nearest to `(a/b) / 2^e`, where `e` is the
exponent of the binade of the exact quotient: `2^52 ≤ (a/b)/2^e < 2^53`. -/
theorem divNat_binade (a b : Nat) (ha : 0 < a) (hb : 0 < b) :
    ∃ (m : Nat) (e : Int),
      (divNat a b).val = (m : ℚ) * 2 ^ e ∧ 2 ^ 52 ≤ m ∧ m ≤ 2 ^ 53 ∧
      (2 : ℚ) ^ 52 * 2 ^ e ≤ (a : ℚ) / b ∧ (a : ℚ) / b < 2 ^ 53 * 2 ^ e ∧
      |(m : ℚ) * 2 ^ e - (a : ℚ) / b| ≤ 2 ^ e / 2 := by
  have hsc := divNat_scale a b ha hb
  -- replay of `divNat_nat`, keeping the bounds on the pre-quotient
  have key : ∃ k1 k2 d m : Nat,
      (d = 2 ∨ d = 3) ∧ 2 ^ 52 ≤ m ∧ m ≤ 2 ^ 53 ∧
      2 * (m * 2 ^ d * (b * 2 ^ k2)) ≤ 2 * (a * 2 ^ k1) + 2 ^ d * (b * 2 ^ k2) ∧
      2 * (a * 2 ^ k1) ≤ 2 * (m * 2 ^ d * (b * 2 ^ k2)) + 2 ^ d * (b * 2 ^ k2) ∧
      2 ^ (52 + d) * (b * 2 ^ k2) ≤ a * 2 ^ k1 ∧ a * 2 ^ k1 < 2 ^ (53 + d) * (b * 2 ^ k2) ∧
      divNat a b = if m = 2 ^ 53 then ⟨2 ^ 52, (d : Int) + 1 - ((k1 : Int) - (k2 : Int))⟩
                   else ⟨m, (d : Int) - ((k1 : Int) - (k2 : Int))⟩ := by
    unfold divNat
    rw [if_neg (by omega)]
    simp only [] at hsc ⊢
    generalize hs : (55 + (Nat.log2 b : Int) - (Nat.log2 a : Int)) = s at *
    have hs' : s = (s.toNat : Int) - ((-s).toNat : Int) := by omega
    generalize hnum : a * 2 ^ s.toNat = num at *
    generalize hden : b * 2 ^ (-s).toNat = den at *
    obtain ⟨l1, l2⟩ := hsc
    have hdpos : 0 < den := by
      rw [← hden]; exact Nat.mul_pos hb (Nat.pow_pos (by decide))
    have hn1 : 2 ^ 54 ≤ num / den := (Nat.le_div_iff_mul_le hdpos).2 l1
    have hn2 : num / den < 2 ^ 56 := (Nat.div_lt_iff_lt_mul hdpos).2 l2
    have hsplit := Nat.div_add_mod' num den
    have hρ := Nat.mod_lt num hdpos
    generalize hn : num / den = n at *
    generalize hr : num % den = ρ at *
    have hn0 : n ≠ 0 := by omega
    have hbl : bitlen n = Nat.log2 n + 1 := by unfold bitlen; rw [if_neg hn0]
    have hlog : Nat.log2 n = 54 ∨ Nat.log2 n = 55 := by
      have x1 : 54 ≤ Nat.log2 n := (Nat.le_log2 hn0).2 hn1
      have x2 : Nat.log2 n < 56 := (Nat.log2_lt hn0).2 hn2
      omega
    have hlb := log2_bounds (n := n) (by omega)
    generalize hd : bitlen n - 53 = d at *
    have hd' : (d = 2 ∧ 2 ^ 54 ≤ n ∧ n < 2 ^ 55) ∨ (d = 3 ∧ 2 ^ 55 ≤ n ∧ n < 2 ^ 56) := by
      rcases hlog with h | h
      · left; rw [h] at hlb hbl; exact ⟨by omega, hlb.1, hlb.2⟩
      · right; rw [h] at hlb hbl; exact ⟨by omega, hlb.1, hlb.2⟩
    have hcore := shiftRNE_core n d den ρ (decide (ρ ≠ 0)) (by omega) hρ (by simp)
    generalize shiftRNE n d (decide (ρ ≠ 0)) = m at *
    obtain ⟨c1, c2, c3⟩ := hcore
    rw [hsplit] at c1 c2
    refine ⟨s.toNat, (-s).toNat, d, m, by omega, ?_, ?_, ?_, ?_, ?_, ?_, ?_⟩
    · rcases hd' with ⟨rfl, x1, x2⟩ | ⟨rfl, x1, x2⟩ <;> omega
    · rcases hd' with ⟨rfl, x1, x2⟩ | ⟨rfl, x1, x2⟩ <;> omega
    · rw [hden, hnum]; exact c1
    · rw [hden, hnum]; exact c2
    · rw [hden, hnum, ← hsplit]
      have : 2 ^ (52 + d) ≤ n := by
        rcases hd' with ⟨rfl, x1, x2⟩ | ⟨rfl, x1, x2⟩
        · exact x1
        · exact x1
      calc 2 ^ (52 + d) * den ≤ n * den := Nat.mul_le_mul_right _ this
        _ ≤ n * den + ρ := Nat.le_add_right _ _
    · rw [hden, hnum, ← hsplit]
      have : n + 1 ≤ 2 ^ (53 + d) := by
        rcases hd' with ⟨rfl, x1, x2⟩ | ⟨rfl, x1, x2⟩
        · exact x2
        · exact x2
      calc n * den + ρ < n * den + den := by omega
        _ = (n + 1) * den := by ring
        _ ≤ 2 ^ (53 + d) * den := Nat.mul_le_mul_right _ this
    · rw [← hs']
  obtain ⟨k1, k2, d, m, hd, hm1, hm2, c1, c2, b1, b2, heq⟩ := key
  refine ⟨m, (d : Int) - ((k1 : Int) - (k2 : Int)), ?_, hm1, hm2, ?_, ?_, ?_⟩
  · rw [heq]
    split
    · rename_i hm
      have e : (d : Int) + 1 - ((k1 : Int) - (k2 : Int)) = ((d + 1 : Nat) : Int) - ((k1 : Int) - (k2 : Int)) := by
        push_cast; ring
      simp only [F.val]
      rw [e, zpow_split, zpow_split, hm, pow_succ]
      push_cast
      ring
    · simp only [F.val]
  all_goals rw [zpow_split]
  all_goals
    have hb' : (0 : ℚ) < b := by exact_mod_cast hb
    have hK : (0 : ℚ) < 2 ^ k1 := by positivity
    have hQ : (0 : ℚ) < 2 ^ k2 := by positivity
    have hP : (0 : ℚ) < 2 ^ d := by positivity
  · have b1' : (2 : ℚ) ^ (52 + d) * (b * 2 ^ k2) ≤ a * 2 ^ k1 := by exact_mod_cast b1
    rw [pow_add] at b1'
    rw [le_div_iff₀ hb']
    have : (2 : ℚ) ^ 52 * (2 ^ d * 2 ^ k2 / 2 ^ k1) * b = 2 ^ 52 * 2 ^ d * (b * 2 ^ k2) / 2 ^ k1 := by
      field_simp
    rw [this, div_le_iff₀ hK]
    exact b1'
  · have b2' : (a : ℚ) * 2 ^ k1 < 2 ^ (53 + d) * (b * 2 ^ k2) := by exact_mod_cast b2
    rw [pow_add] at b2'
    rw [div_lt_iff₀ hb']
    have : (2 : ℚ) ^ 53 * (2 ^ d * 2 ^ k2 / 2 ^ k1) * b = 2 ^ 53 * 2 ^ d * (b * 2 ^ k2) / 2 ^ k1 := by
      field_simp
    rw [this, lt_div_iff₀ hK]
    exact b2'
  · have c1' : (2 : ℚ) * (m * 2 ^ d * (b * 2 ^ k2)) ≤ 2 * (a * 2 ^ k1) + 2 ^ d * (b * 2 ^ k2) := by
      exact_mod_cast c1
    have c2' : (2 : ℚ) * (a * 2 ^ k1) ≤ 2 * (m * 2 ^ d * (b * 2 ^ k2)) + 2 ^ d * (b * 2 ^ k2) := by
      exact_mod_cast c2
    have hbK : (0 : ℚ) < b * 2 ^ k1 := by positivity
    rw [abs_le]
    constructor
    · -- a/b - m*2^e ≤ 2^e/2
      have : (m : ℚ) * (2 ^ d * 2 ^ k2 / 2 ^ k1) - a / b + 2 ^ d * 2 ^ k2 / 2 ^ k1 / 2
          = (2 * (m * 2 ^ d * (b * 2 ^ k2)) + 2 ^ d * (b * 2 ^ k2) - 2 * (a * 2 ^ k1)) / (2 * (b * 2 ^ k1)) := by
        field_simp
        ring
      have h0 : 0 ≤ (m : ℚ) * (2 ^ d * 2 ^ k2 / 2 ^ k1) - a / b + 2 ^ d * 2 ^ k2 / 2 ^ k1 / 2 := by
        rw [this]
        apply div_nonneg _ (by positivity)
        linarith
      linarith
    · have : 2 ^ d * 2 ^ k2 / 2 ^ k1 / 2 - ((m : ℚ) * (2 ^ d * 2 ^ k2 / 2 ^ k1) - a / b)
          = (2 * (a * 2 ^ k1) + 2 ^ d * (b * 2 ^ k2) - 2 * (m * 2 ^ d * (b * 2 ^ k2))) / (2 * (b * 2 ^ k1)) := by
        field_simp
        ring
      have h0 : 0 ≤ 2 ^ d * 2 ^ k2 / 2 ^ k1 / 2 - ((m : ℚ) * (2 ^ d * 2 ^ k2 / 2 ^ k1) - a / b) := by
        rw [this]
        apply div_nonneg _ (by positivity)
        linarith
      linarith

/-- monotonicity of rounding to the nearest integer, in the form used below -/
theorem nearest_mono {x y : ℚ} {mx my : Nat} (hxy : x < y)
    (hx : |(mx : ℚ) - x| ≤ 1 / 2) (hy : |(my : ℚ) - y| ≤ 1 / 2) : mx ≤ my := by
  rw [abs_le] at hx hy
  have : (mx : ℚ) < my + 1 := by linarith
  have : mx < my + 1 := by exact_mod_cast this
  omega

/-- **the correctly rounded quotient is monotone** (strict form): a strictly larger exact quotient
never rounds to a smaller double. -/
theorem divNat_mono_of_lt {a b c d : Nat} (ha : 0 < a) (hb : 0 < b) (hc : 0 < c) (hd : 0 < d)
    (h : a * d < c * b) : (divNat a b).val ≤ (divNat c d).val := by
  obtain ⟨mx, ex, vx, x1, x2, x3, x4, x5⟩ := divNat_binade a b ha hb
  obtain ⟨my, ey, vy, y1, y2, y3, y4, y5⟩ := divNat_binade c d hc hd
  rw [vx, vy]
  have hb' : (0 : ℚ) < b := by exact_mod_cast hb
  have hd' : (0 : ℚ) < d := by exact_mod_cast hd
  have hlt : (a : ℚ) / b < c / d := by
    rw [div_lt_div_iff₀ hb' hd']
    exact_mod_cast h
  have hX : (0 : ℚ) < 2 ^ ex := two_zpow_pos _
  have hY : (0 : ℚ) < 2 ^ ey := two_zpow_pos _
  have mx1 : (2 : ℚ) ^ 52 ≤ mx := by exact_mod_cast x1
  have mx2 : (mx : ℚ) ≤ 2 ^ 53 := by exact_mod_cast x2
  have my1 : (2 : ℚ) ^ 52 ≤ my := by exact_mod_cast y1
  have my2 : (my : ℚ) ≤ 2 ^ 53 := by exact_mod_cast y2
  rcases lt_trichotomy ex ey with hlt' | heq | hgt
  · -- lower binade: everything below 2^53 * 2^ex ≤ 2^52 * 2^ey
    have hstep : (2 : ℚ) ^ ex * 2 ≤ 2 ^ ey := by
      have : ex + 1 ≤ ey := by omega
      calc (2 : ℚ) ^ ex * 2 = 2 ^ (ex + 1) := by rw [zpow_add₀ two_ne_zero, zpow_one]
        _ ≤ 2 ^ ey := zpow_le_zpow_right₀ (by norm_num) this
    calc (mx : ℚ) * 2 ^ ex ≤ 2 ^ 53 * 2 ^ ex := mul_le_mul_of_nonneg_right mx2 hX.le
      _ = 2 ^ 52 * (2 ^ ex * 2) := by ring
      _ ≤ 2 ^ 52 * 2 ^ ey := by apply mul_le_mul_of_nonneg_left hstep; positivity
      _ ≤ my * 2 ^ ey := mul_le_mul_of_nonneg_right my1 hY.le
  · subst heq
    have hx' : |(mx : ℚ) - (a : ℚ) / b / 2 ^ ex| ≤ 1 / 2 := by
      have : (mx : ℚ) - (a : ℚ) / b / 2 ^ ex = ((mx : ℚ) * 2 ^ ex - a / b) / 2 ^ ex := by field_simp
      rw [this, abs_div, abs_of_pos hX, div_le_iff₀ hX]
      linarith
    have hy' : |(my : ℚ) - (c : ℚ) / d / 2 ^ ex| ≤ 1 / 2 := by
      have : (my : ℚ) - (c : ℚ) / d / 2 ^ ex = ((my : ℚ) * 2 ^ ex - c / d) / 2 ^ ex := by field_simp
      rw [this, abs_div, abs_of_pos hX, div_le_iff₀ hX]
      linarith
    have := nearest_mono (div_lt_div_of_pos_right hlt hX) hx' hy'
    have : (mx : ℚ) ≤ my := by exact_mod_cast this
    exact mul_le_mul_of_nonneg_right this hX.le
  · -- impossible: a/b ≥ 2^52 * 2^ex ≥ 2^53 * 2^ey > c/d
    exfalso
    have hstep : (2 : ℚ) ^ ey * 2 ≤ 2 ^ ex := by
      have : ey + 1 ≤ ex := by omega
      calc (2 : ℚ) ^ ey * 2 = 2 ^ (ey + 1) := by rw [zpow_add₀ two_ne_zero, zpow_one]
        _ ≤ 2 ^ ex := zpow_le_zpow_right₀ (by norm_num) this
    have : (c : ℚ) / d < a / b := by
      calc (c : ℚ) / d < 2 ^ 53 * 2 ^ ey := y4
        _ = 2 ^ 52 * (2 ^ ey * 2) := by ring
        _ ≤ 2 ^ 52 * 2 ^ ex := by apply mul_le_mul_of_nonneg_left hstep; positivity
        _ ≤ a / b := x3
    linarith

/-- **monotone in the numerator, antitone in the denominator** -/
theorem divNat_mono {a b c d : Nat} (ha : 0 < a) (hd : 0 < d) (hac : a ≤ c) (hdb : d ≤ b) :
    ge (divNat c d) (divNat a b) = true := by
  rw [ge_iff_val]
  by_cases heq : a = c ∧ d = b
  · obtain ⟨rfl, rfl⟩ := heq; exact le_rfl
  · have hb : 0 < b := by omega
    have hc : 0 < c := by omega
    apply divNat_mono_of_lt ha hb hc hd
    rcases Nat.lt_or_ge a c with h1 | h1
    · calc a * d < c * d := Nat.mul_lt_mul_of_pos_right h1 hd
        _ ≤ c * b := Nat.mul_le_mul_left _ hdb
    · have hac' : a = c := by omega
      subst hac'
      have : d < b := by
        rcases Nat.lt_or_ge d b with h2 | h2
        · exact h2
        · exact absurd ⟨rfl, by omega⟩ heq
      exact Nat.mul_lt_mul_of_pos_left this ha

theorem divNat_m_ne_zero_iff (a b : Nat) : (divNat a b).m ≠ 0 ↔ a ≠ 0 ∧ b ≠ 0 := by
  constructor
  · intro h
    by_contra hc
    have : a = 0 ∨ b = 0 := by omega
    apply h
    unfold divNat
    rw [if_pos this]
  · intro ⟨ha, hb⟩
    have := divNat_pos a b (by omega) (by omega)
    omega

end Sm.F64
