/-
Facts about the association-list model of Python dicts / sets (`Model/Dict.lean`).
-/
import SmVerif.Model.Dict

namespace Sm.Dict

set_option linter.unusedSectionVars false

variable {α β : Type} [DecidableEq α]

@[simp] theorem get?_nil (x : α) : get? ([] : List (α × β)) x = none := rfl

theorem get?_cons (k : α) (v : β) (rest : List (α × β)) (x : α) :
    get? ((k, v) :: rest) x = if x = k then some v else get? rest x := rfl

theorem get?_set_self (d : List (α × β)) (k : α) (v : β) : get? (set d k v) k = some v := by
  induction d with
  | nil => simp [set, get?]
  | cons p rest ih =>
    obtain ⟨k', w⟩ := p
    simp only [set]
    by_cases h : k = k'
    · simp [h, get?]
    · simp [h, get?, ih]

theorem get?_set_ne (d : List (α × β)) {k x : α} (v : β) (h : x ≠ k) :
    get? (set d k v) x = get? d x := by
  induction d with
  | nil => simp [set, get?, h]
  | cons p rest ih =>
    obtain ⟨k', w⟩ := p
    simp only [set]
    by_cases hk : k = k'
    · have hx : x ≠ k' := hk ▸ h
      simp [hk, get?, hx]
    · simp only [hk, if_false, get?]
      by_cases hx : x = k'
      · simp [hx]
      · simp [hx, ih]

theorem get?_set (d : List (α × β)) (k x : α) (v : β) :
    get? (set d k v) x = if x = k then some v else get? d x := by
  by_cases h : x = k
  · subst h; simp [get?_set_self]
  · simp [h, get?_set_ne d v h]

theorem get?_isSome_iff {d : List (α × β)} {x : α} : (get? d x).isSome ↔ x ∈ keys d := by
  induction d with
  | nil => simp [keys]
  | cons p rest ih =>
    obtain ⟨k, v⟩ := p
    simp only [get?, keys, List.mem_cons]
    by_cases h : x = k
    · simp [h]
    · simp [h, ih]

theorem get?_eq_none_iff {d : List (α × β)} {x : α} : get? d x = none ↔ x ∉ keys d := by
  rw [← get?_isSome_iff]
  cases get? d x <;> simp

theorem mem_of_get? {d : List (α × β)} {x : α} {v : β} (h : get? d x = some v) : (x, v) ∈ d := by
  induction d with
  | nil => simp at h
  | cons p rest ih =>
    obtain ⟨k, w⟩ := p
    simp only [get?] at h
    by_cases hx : x = k
    · simp [hx] at h; subst h hx; simp
    · simp [hx] at h; exact List.mem_cons_of_mem _ (ih h)

theorem mem_keys_of_mem {d : List (α × β)} {x : α} {v : β} (h : (x, v) ∈ d) : x ∈ keys d := by
  induction d with
  | nil => simp at h
  | cons p rest ih =>
    obtain ⟨k, w⟩ := p
    simp only [List.mem_cons, Prod.mk.injEq] at h
    simp only [keys, List.mem_cons]
    rcases h with ⟨h1, _⟩ | h
    · exact Or.inl h1
    · exact Or.inr (ih h)

theorem get?_of_mem_nodup {d : List (α × β)} (hnd : (keys d).Nodup) {x : α} {v : β} (h : (x, v) ∈ d) :
    get? d x = some v := by
  induction d with
  | nil => simp at h
  | cons p rest ih =>
    obtain ⟨k, w⟩ := p
    simp only [keys, List.nodup_cons] at hnd
    simp only [List.mem_cons, Prod.mk.injEq] at h
    simp only [get?]
    rcases h with ⟨h1, h2⟩ | h
    · simp [h1, h2]
    · have : x ≠ k := fun hx => hnd.1 (hx ▸ mem_keys_of_mem h)
      simp [this, ih hnd.2 h]

theorem mem_keys_set {d : List (α × β)} {k x : α} {v : β} : x ∈ keys (set d k v) ↔ x ∈ keys d ∨ x = k := by
  induction d with
  | nil => simp [set, keys]
  | cons p rest ih =>
    obtain ⟨k', w⟩ := p
    simp only [set]
    by_cases hk : k = k'
    · simp only [hk, if_true, keys, List.mem_cons]
      constructor
      · intro h; exact Or.inl h
      · rintro (h | h)
        · exact h
        · exact Or.inl h
    · simp only [hk, if_false, keys, List.mem_cons, ih]
      constructor
      · rintro (h | h | h)
        · exact Or.inl (Or.inl h)
        · exact Or.inl (Or.inr h)
        · exact Or.inr h
      · rintro ((h | h) | h)
        · exact Or.inl h
        · exact Or.inr (Or.inl h)
        · exact Or.inr (Or.inr h)

theorem nodup_keys_set {d : List (α × β)} (h : (keys d).Nodup) (k : α) (v : β) : (keys (set d k v)).Nodup := by
  induction d with
  | nil => simp [set, keys]
  | cons p rest ih =>
    obtain ⟨k', w⟩ := p
    simp only [keys, List.nodup_cons] at h
    simp only [set]
    by_cases hk : k = k'
    · simp only [hk, if_true, keys, List.nodup_cons]; exact h
    · simp only [hk, if_false, keys, List.nodup_cons]
      refine ⟨?_, ih h.2⟩
      rw [mem_keys_set]
      rintro (h1 | h1)
      · exact h.1 h1
      · exact hk h1.symm

theorem keys_set_of_mem {d : List (α × β)} {k : α} (v : β) (h : k ∈ keys d) : keys (set d k v) = keys d := by
  induction d with
  | nil => simp [keys] at h
  | cons p rest ih =>
    obtain ⟨k', w⟩ := p
    simp only [set]
    by_cases hk : k = k'
    · simp [hk, keys]
    · simp only [hk, if_false, keys, List.cons.injEq, true_and]
      simp only [keys, List.mem_cons] at h
      rcases h with h | h
      · exact absurd h hk
      · exact ih h

theorem keys_set_of_not_mem {d : List (α × β)} {k : α} (v : β) (h : k ∉ keys d) :
    keys (set d k v) = keys d ++ [k] := by
  induction d with
  | nil => simp [set, keys]
  | cons p rest ih =>
    obtain ⟨k', w⟩ := p
    simp only [keys, List.mem_cons, not_or] at h
    simp only [set, h.1, if_false, keys, List.cons_append, List.cons.injEq, true_and]
    exact ih h.2

theorem set_of_not_mem {d : List (α × β)} {k : α} (v : β) (h : k ∉ keys d) : set d k v = d ++ [(k, v)] := by
  induction d with
  | nil => simp [set]
  | cons p rest ih =>
    obtain ⟨k', w⟩ := p
    simp only [keys, List.mem_cons, not_or] at h
    simp only [set, h.1, if_false, List.cons_append, List.cons.injEq, true_and]
    exact ih h.2

theorem keys_append (d e : List (α × β)) : keys (d ++ e) = keys d ++ keys e := by
  induction d with
  | nil => rfl
  | cons p rest ih => obtain ⟨k, v⟩ := p; simp [keys, ih]

theorem keys_eq_map (d : List (α × β)) : keys d = d.map Prod.fst := by
  induction d with
  | nil => rfl
  | cons p rest ih => obtain ⟨k, v⟩ := p; simp [keys, ih]

theorem vals_eq_map (d : List (α × β)) : vals d = d.map Prod.snd := by
  induction d with
  | nil => rfl
  | cons p rest ih => obtain ⟨k, v⟩ := p; simp [vals, ih]

theorem get?_append (d e : List (α × β)) (x : α) :
    get? (d ++ e) x = match get? d x with | some v => some v | none => get? e x := by
  induction d with
  | nil => simp
  | cons p rest ih =>
    obtain ⟨k, v⟩ := p
    simp only [List.cons_append, get?]
    by_cases h : x = k
    · simp [h]
    · simp [h, ih]

/-! ### sets -/

theorem mem_addSet {s : List α} {x y : α} : y ∈ addSet s x ↔ y ∈ s ∨ y = x := by
  induction s with
  | nil => simp [addSet]
  | cons z zs ih =>
    simp only [addSet]
    by_cases h : x = z
    · simp only [h, if_true, List.mem_cons]
      constructor
      · intro h'; exact Or.inl h'
      · rintro (h' | h')
        · exact h'
        · exact Or.inl h'
    · simp only [h, if_false, List.mem_cons, ih]
      constructor
      · rintro (h' | h' | h')
        · exact Or.inl (Or.inl h')
        · exact Or.inl (Or.inr h')
        · exact Or.inr h'
      · rintro ((h' | h') | h')
        · exact Or.inl h'
        · exact Or.inr (Or.inl h')
        · exact Or.inr (Or.inr h')

theorem nodup_addSet {s : List α} (h : s.Nodup) (x : α) : (addSet s x).Nodup := by
  induction s with
  | nil => simp [addSet]
  | cons z zs ih =>
    simp only [List.nodup_cons] at h
    simp only [addSet]
    by_cases hx : x = z
    · simp only [hx, if_true, List.nodup_cons]; exact h
    · simp only [hx, if_false, List.nodup_cons]
      refine ⟨?_, ih h.2⟩
      rw [mem_addSet]
      rintro (h1 | h1)
      · exact h.1 h1
      · exact hx h1.symm

theorem addSet_of_mem {s : List α} {x : α} (h : x ∈ s) : addSet s x = s := by
  induction s with
  | nil => simp at h
  | cons z zs ih =>
    simp only [addSet]
    by_cases hx : x = z
    · simp [hx]
    · simp only [hx, if_false, List.cons.injEq, true_and]
      simp only [List.mem_cons] at h
      rcases h with h | h
      · exact absurd h hx
      · exact ih h

theorem addSet_of_not_mem {s : List α} {x : α} (h : x ∉ s) : addSet s x = s ++ [x] := by
  induction s with
  | nil => simp [addSet]
  | cons z zs ih =>
    simp only [List.mem_cons, not_or] at h
    simp only [addSet, h.1, if_false, List.cons_append, List.cons.injEq, true_and]
    exact ih h.2

/-! ### ascending insertion -/

theorem mem_insertAsc {l : List Nat} {x y : Nat} : y ∈ insertAsc l x ↔ y ∈ l ∨ y = x := by
  induction l with
  | nil => simp [insertAsc]
  | cons z zs ih =>
    simp only [insertAsc]
    by_cases h1 : x < z
    · simp only [h1, if_true, List.mem_cons]
      constructor
      · rintro (h | h | h)
        · exact Or.inr h
        · exact Or.inl (Or.inl h)
        · exact Or.inl (Or.inr h)
      · rintro ((h | h) | h)
        · exact Or.inr (Or.inl h)
        · exact Or.inr (Or.inr h)
        · exact Or.inl h
    · by_cases h2 : x = z
      · subst h2
        simp only [Nat.lt_irrefl, if_false, if_true, List.mem_cons]
        constructor
        · intro h; exact Or.inl h
        · rintro (h | h)
          · exact h
          · exact Or.inl h
      · simp only [h1, h2, if_false, List.mem_cons, ih]
        constructor
        · rintro (h | h | h)
          · exact Or.inl (Or.inl h)
          · exact Or.inl (Or.inr h)
          · exact Or.inr h
        · rintro ((h | h) | h)
          · exact Or.inl h
          · exact Or.inr (Or.inl h)
          · exact Or.inr (Or.inr h)

theorem sorted_insertAsc {l : List Nat} (h : l.Pairwise (· < ·)) (x : Nat) :
    (insertAsc l x).Pairwise (· < ·) := by
  induction l with
  | nil => simp [insertAsc]
  | cons z zs ih =>
    rw [List.pairwise_cons] at h
    simp only [insertAsc]
    by_cases h1 : x < z
    · simp only [h1, if_true]
      rw [List.pairwise_cons]
      refine ⟨?_, List.pairwise_cons.mpr h⟩
      intro a ha
      simp only [List.mem_cons] at ha
      rcases ha with ha | ha
      · omega
      · have := h.1 a ha; omega
    · by_cases h2 : x = z
      · subst h2
        simp only [Nat.lt_irrefl, if_false, if_true]
        exact List.pairwise_cons.mpr h
      · simp only [h1, h2, if_false]
        rw [List.pairwise_cons]
        refine ⟨?_, ih h.2⟩
        intro a ha
        rw [mem_insertAsc] at ha
        rcases ha with ha | ha
        · exact h.1 a ha
        · omega

/-- two strictly ascending lists with the same members are equal -/
theorem sorted_ext {l₁ l₂ : List Nat} (h₁ : l₁.Pairwise (· < ·)) (h₂ : l₂.Pairwise (· < ·))
    (h : ∀ x, x ∈ l₁ ↔ x ∈ l₂) : l₁ = l₂ := by
  induction l₁ generalizing l₂ with
  | nil =>
    cases l₂ with
    | nil => rfl
    | cons y ys => exact absurd ((h y).mpr (by simp)) (by simp)
  | cons x xs ih =>
    cases l₂ with
    | nil => exact absurd ((h x).mp (by simp)) (by simp)
    | cons y ys =>
      rw [List.pairwise_cons] at h₁ h₂
      have hxy : x = y := by
        have hx := (h x).mp (by simp)
        have hy := (h y).mpr (by simp)
        simp only [List.mem_cons] at hx hy
        rcases hx with hx | hx
        · exact hx
        · rcases hy with hy | hy
          · exact hy.symm
          · have := h₂.1 x hx; have := h₁.1 y hy; omega
      subst hxy
      congr 1
      apply ih h₁.2 h₂.2
      intro a
      constructor
      · intro ha
        have := (h a).mp (List.mem_cons_of_mem _ ha)
        simp only [List.mem_cons] at this
        rcases this with this | this
        · have := h₁.1 a ha; omega
        · exact this
      · intro ha
        have := (h a).mpr (List.mem_cons_of_mem _ ha)
        simp only [List.mem_cons] at this
        rcases this with this | this
        · have := h₂.1 a ha; omega
        · exact this

end Sm.Dict
