/-
Reachable states of a prefetch-mode gather run and the database-level statements
(`greedy_max`, `stops_only_below` over all database sketches, not only the prefetch candidates).
-/
import SmVerif.Lemmas.GatherDb

set_option autoImplicit false

namespace Sm.Gather

open Sm

variable {σ : Type} {ops : ScoreOps σ}

/-- states reachable from `g0` by calls of `__next__` that returned normally -/
inductive Reach (ops : ScoreOps σ) (g0 : GD LS) : GD LS → Prop where
  | refl : Reach ops g0 g0
  | step {g g' : GD LS} {r : Option (GRes σ)} : Reach ops g0 g → g.next lsOps ops = .ok (g', r) → Reach ops g0 g'

/-- what every reachable state inherits from the initial one -/
structure Inherit (sq sd : Nat) (g0 g : GD LS) : Prop where
  thr : g.thresholdBp = g0.thresholdBp
  orig : g.origSigMh = g0.origSigMh
  abunds : g.origQueryAbunds = g0.origQueryAbunds
  track : g.trackAbundance = g0.trackAbundance
  /-- `never_revives`: overlaps with the unassigned hashes only shrink -/
  shrink : ∀ D, ovl (g.unassigned sq sd) D ≤ ovl (g0.unassigned sq sd) D
  sub : ∀ x ∈ g.unassigned sq sd, x ∈ g0.unassigned sq sd

theorem reach_inv (laws : ScoreLaws ops) {sq sd : Nat} {cls : List (List (Sig LS))} {Q0 NI0 : List Nat}
    {g0 g : GD LS} (h0 : GInv sq sd cls g0) (a0 : AInv sq sd Q0 NI0 g0) (hr : Reach ops g0 g) :
    GInv sq sd cls g ∧ AInv sq sd Q0 NI0 g ∧ Inherit sq sd g0 g := by
  induction hr with
  | refl => exact ⟨h0, a0, ⟨rfl, rfl, rfl, rfl, fun _ => Nat.le_refl _, fun _ hx => hx⟩⟩
  | @step g g' r _ hn ih =>
    obtain ⟨hi, ha, hh⟩ := ih
    have hsp := next_spec laws hi ha hn rfl rfl
    cases r with
    | none =>
      simp only [] at hsp
      obtain ⟨hq, hi', ha', _⟩ := hsp
      have hun : g'.unassigned sq sd = g.unassigned sq sd := by unfold GD.unassigned; rw [hq]
      refine ⟨hi', ha', ?_⟩
      -- a stop only replaces the counters
      unfold GD.next at hn
      split at hn
      · simp only [Except.ok.injEq, Prod.mk.injEq] at hn
        obtain ⟨rfl, _⟩ := hn
        exact hh
      · split at hn
        · cases hn
        · simp only [Except.ok.injEq, Prod.mk.injEq] at hn
          obtain ⟨rfl, _⟩ := hn
          exact ⟨hh.thr, hh.orig, hh.abunds, hh.track, hh.shrink, hh.sub⟩
        · obtain ⟨_, _, res, _, _, _, _, hcon, _⟩ := report_ls hn
          cases hcon
    | some res =>
      simp only [] at hsp
      obtain ⟨best, _, _, _, _, _, _, _, _, h8, _, _, _, _, _, h14, hi', ha', h17, h18, h19, _⟩ := hsp
      refine ⟨hi', ha', ⟨by rw [h14, hh.thr], by rw [h17, hh.orig], by rw [h18, hh.abunds], by rw [h19, hh.track], ?_, ?_⟩⟩
      · intro D
        rw [h8]
        exact Nat.le_trans (ovl_diff_le _ _ _) (hh.shrink D)
      · intro x hx
        rw [h8] at hx
        exact hh.sub x (mem_diffL.1 hx).1

/-- the value `threshold_bp / scaled` the per-round test compares with -/
theorem calcThreshold_nT {thr s n : Nat} {t nT : F64.F} (h : calcThreshold thr s n = .ok (t, nT)) :
    nT = if thr = 0 then fzero else F64.div (F64.ofNat thr) (F64.ofNat s) := by
  unfold calcThreshold at h
  split at h
  · rename_i h0
    simp only [Except.ok.injEq, Prod.mk.injEq] at h
    rw [if_pos h0]; exact h.2.symm
  · rename_i h0
    rw [if_neg h0]
    split at h
    · cases h
    · simp only [] at h
      split at h
      · cases h
      · simp only [Except.ok.injEq, Prod.mk.injEq] at h
        exact h.2.symm

/-- the candidate lists the prefetch pass builds from the databases -/
def candLists (q : LS) (t : F64.F) (dbs : List (List (Sig LS))) : List (List (Sig LS)) :=
  dbs.map (fun db => db.filter (fun d => passes (findScore q.flat d.mh) t))

/-- the side condition under which the prefetch pass cannot hide a reportable sketch: no threshold, or a
query at least as coarse as the database together with the monotonicity of float division (a theorem:
`noD6_of_inputs` in `Lemmas/GatherThreshold.lean`) -/
def NoD6 (q : LS) (sd thr : Nat) (t nT : F64.F) : Prop :=
  thr = 0 ∨ (sd ≤ q.scaled ∧ PrefetchPermissive t nT q.hs.length)

theorem mem_candLists_flatten {q : LS} {t : F64.F} {dbs : List (List (Sig LS))} {d : Sig LS}
    (h : d ∈ (candLists q t dbs).flatten) : d ∈ dbs.flatten := by
  obtain ⟨cl, hcl, hd⟩ := List.mem_flatten.1 h
  obtain ⟨db, hdb, rfl⟩ := List.mem_map.1 hcl
  exact List.mem_flatten.2 ⟨db, hdb, (List.mem_filter.1 hd).1⟩

/-- every database sketch is a candidate or was dropped as not reportable -/
theorem cand_or_dropped {q : LS} (hq : q.WF) {sd thr : Nat} {t nT : F64.F} {dbs : List (List (Sig LS))}
    (hdb : ∀ db ∈ dbs, ∀ d ∈ db, d.mh.WF ∧ d.mh.scaled = sd)
    (hthr : calcThreshold thr q.scaled q.hs.length = .ok (t, nT)) (hcase : NoD6 q sd thr t nT)
    {d : Sig LS} (hd : d ∈ dbs.flatten) :
    d ∈ (candLists q t dbs).flatten ∨
      Dropped nT (dn (max q.scaled sd) q.hs) (dn (max q.scaled sd) d.mh.hs) := by
  obtain ⟨db, hdbm, hddb⟩ := List.mem_flatten.1 hd
  obtain ⟨hwf, hsd⟩ := hdb db hdbm d hddb
  by_cases hp : passes (findScore q.flat d.mh) t = true
  · left
    exact List.mem_flatten.2 ⟨_, List.mem_map.2 ⟨db, hdbm, rfl⟩, List.mem_filter.2 ⟨hddb, hp⟩⟩
  · right
    have hperm : PrefetchPermissive t nT (dn (max q.scaled d.mh.scaled) q.hs).length := by
      rcases hcase with h0 | ⟨hle, hperm⟩
      · subst h0
        rw [calcThreshold_zero] at hthr
        simp only [Except.ok.injEq, Prod.mk.injEq] at hthr
        obtain ⟨rfl, rfl⟩ := hthr
        exact prefetchPermissive_zero _
      · have : max q.scaled d.mh.scaled = q.scaled := by rw [hsd]; omega
        rw [this, hq.dn_self]
        exact hperm
    have := dropped_of_not_cand hq hwf hperm (by simpa using hp)
    rw [hsd] at this
    exact this

/-- under `NoD6` the per-round threshold value is the one the prefetch pass used -/
theorem nT_consistent {q : LS} {sd thr : Nat} {t nT : F64.F}
    (hthr : calcThreshold thr q.scaled q.hs.length = .ok (t, nT)) (hcase : NoD6 q sd thr t nT)
    {n : Nat} {t' nT' : F64.F} (h : calcThreshold thr (max q.scaled sd) n = .ok (t', nT')) : nT' = nT := by
  rw [calcThreshold_nT h, calcThreshold_nT hthr]
  rcases hcase with h0 | ⟨hle, _⟩
  · rw [if_pos h0, if_pos h0]
  · have : max q.scaled sd = q.scaled := by omega
    rw [this]

/-- maximal among the candidates + reaching the threshold ⇒ maximal among all database sketches -/
theorem max_over_db {q : LS} (hq : q.WF) {sd thr : Nat} {t nT : F64.F}
    {dbs : List (List (Sig LS))} (hdb : ∀ db ∈ dbs, ∀ d ∈ db, d.mh.WF ∧ d.mh.scaled = sd)
    (hthr : calcThreshold thr q.scaled q.hs.length = .ok (t, nT)) (hcase : NoD6 q sd thr t nT)
    (hsize : q.hs.length < 2 ^ 53) {g0 g : GD LS}
    (hun0 : g0.unassigned q.scaled sd = dn (max q.scaled sd) q.hs) (hh : Inherit q.scaled sd g0 g)
    {best : Sig LS}
    (hcand : ∀ d ∈ (candLists q t dbs).flatten, ovl (g.unassigned q.scaled sd) (dn (max q.scaled sd) d.mh.hs)
        ≤ ovl (g.unassigned q.scaled sd) (dn (max q.scaled sd) best.mh.hs))
    (hreach : reaches thr (max q.scaled sd) (g.unassigned q.scaled sd).length
        (ovl (g.unassigned q.scaled sd) (dn (max q.scaled sd) best.mh.hs))) :
    ∀ d ∈ dbs.flatten, ovl (g.unassigned q.scaled sd) (dn (max q.scaled sd) d.mh.hs)
        ≤ ovl (g.unassigned q.scaled sd) (dn (max q.scaled sd) best.mh.hs) := by
  intro d hd
  rcases cand_or_dropped hq hdb hthr hcase hd with hc | hdrop
  · exact hcand d hc
  · have hsub : ∀ D', ovl (g.unassigned q.scaled sd) D' ≤ ovl (dn (max q.scaled sd) q.hs) D' := by
      intro D'; rw [← hun0]; exact hh.shrink D'
    have hsz : (dn (max q.scaled sd) q.hs).length < 2 ^ 53 :=
      Nat.lt_of_le_of_lt (List.length_filter_le _ _) hsize
    exact dominates_dropped hsub hsz (fun t' nT' hc => nT_consistent hthr hcase hc) hreach hdrop

/-- **`greedy_max` / `removes_exactly` over the whole database** (prefetch mode, database at one scaled) -/
theorem greedy_max_db (laws : ScoreLaws ops) {q : LS} (hq : q.WF) {sd thr : Nat} {t nT : F64.F}
    {dbs : List (List (Sig LS))} (hdb : ∀ db ∈ dbs, ∀ d ∈ db, d.mh.WF ∧ d.mh.scaled = sd)
    (hthr : calcThreshold thr q.scaled q.hs.length = .ok (t, nT)) (hcase : NoD6 q sd thr t nT)
    (hsize : q.hs.length < 2 ^ 53) {Q0 NI0 : List Nat} {g0 g g' : GD LS} {res : GRes σ}
    (h0 : GInv q.scaled sd (candLists q t dbs) g0) (a0 : AInv q.scaled sd Q0 NI0 g0)
    (hun0 : g0.unassigned q.scaled sd = dn (max q.scaled sd) q.hs) (hthr0 : g0.thresholdBp = thr)
    (hr : Reach ops g0 g) (hn : g.next lsOps ops = .ok (g', some res)) :
    ∃ best ∈ dbs.flatten, res.name = best.name ∧ res.md5 = best.md5 ∧
      res.isectCur = (g.unassigned q.scaled sd).filter (inL (dn (max q.scaled sd) best.mh.hs)) ∧
      (∀ d ∈ dbs.flatten, ovl (g.unassigned q.scaled sd) (dn (max q.scaled sd) d.mh.hs)
          ≤ ovl (g.unassigned q.scaled sd) (dn (max q.scaled sd) best.mh.hs)) ∧
      reaches thr (max q.scaled sd) (g.unassigned q.scaled sd).length
        (ovl (g.unassigned q.scaled sd) (dn (max q.scaled sd) best.mh.hs)) ∧
      g'.unassigned q.scaled sd = diffL (g.unassigned q.scaled sd) (dn (max q.scaled sd) best.mh.hs) := by
  obtain ⟨hi, ha, hh⟩ := reach_inv laws h0 a0 hr
  have hsp := next_spec laws hi ha hn rfl rfl
  simp only [] at hsp
  obtain ⟨best, b1, b2, b3, b4, b5, _, b7, _, b9, _⟩ := hsp
  rw [hh.thr, hthr0] at b5
  refine ⟨best, mem_candLists_flatten b1, b2, b3, b7, ?_, b5, b9⟩
  intro d hd
  rcases cand_or_dropped hq hdb hthr hcase hd with hc | hdrop
  · exact b4 d hc
  · have hsub : ∀ D', ovl (g.unassigned q.scaled sd) D' ≤ ovl (dn (max q.scaled sd) q.hs) D' := by
      intro D'; rw [← hun0]; exact hh.shrink D'
    have hsz : (dn (max q.scaled sd) q.hs).length < 2 ^ 53 :=
      Nat.lt_of_le_of_lt (List.length_filter_le _ _) hsize
    exact dominates_dropped hsub hsz (fun t' nT' hc => nT_consistent hthr hcase hc) b5 hdrop

/-- **`stops_only_below` over the whole database**: when the iteration stops, nothing is left unassigned, or
no database sketch overlaps the unassigned hashes in a way that reaches the threshold -/
theorem stops_only_below_db (laws : ScoreLaws ops) {q : LS} (hq : q.WF) {sd thr : Nat} {t nT : F64.F}
    {dbs : List (List (Sig LS))} (hdb : ∀ db ∈ dbs, ∀ d ∈ db, d.mh.WF ∧ d.mh.scaled = sd)
    (hthr : calcThreshold thr q.scaled q.hs.length = .ok (t, nT)) (hcase : NoD6 q sd thr t nT)
    (hsize : q.hs.length < 2 ^ 53) {Q0 NI0 : List Nat} {g0 g g' : GD LS}
    (h0 : GInv q.scaled sd (candLists q t dbs) g0) (a0 : AInv q.scaled sd Q0 NI0 g0)
    (hun0 : g0.unassigned q.scaled sd = dn (max q.scaled sd) q.hs) (hthr0 : g0.thresholdBp = thr)
    (hr : Reach ops g0 g) (hn : g.next lsOps ops = .ok (g', none)) :
    g.unassigned q.scaled sd = [] ∨
    ∀ d ∈ dbs.flatten,
      ovl (g.unassigned q.scaled sd) (dn (max q.scaled sd) d.mh.hs) = 0 ∨
      ¬ reaches thr (max q.scaled sd) (g.unassigned q.scaled sd).length
          (ovl (g.unassigned q.scaled sd) (dn (max q.scaled sd) d.mh.hs)) := by
  obtain ⟨hi, ha, hh⟩ := reach_inv laws h0 a0 hr
  have hsp := next_spec laws hi ha hn rfl rfl
  simp only [] at hsp
  obtain ⟨_, _, _, hstop⟩ := hsp
  rw [hh.thr, hthr0] at hstop
  rcases hstop with hnil | hstuck
  · exact Or.inl hnil
  · by_cases hq0 : g.unassigned q.scaled sd = []
    · exact Or.inl hq0
    right
    intro d hd
    have hsz : (dn (max q.scaled sd) q.hs).length < 2 ^ 53 :=
      Nat.lt_of_le_of_lt (List.length_filter_le _ _) hsize
    have hQsz : (g.unassigned q.scaled sd).length < 2 ^ 53 := by
      have := hi.size
      exact Nat.lt_of_le_of_lt (List.length_filter_le _ _) this
    rcases cand_or_dropped hq hdb hthr hcase hd with hc | hdrop
    · obtain ⟨cl, hcl, hdcl⟩ := List.mem_flatten.1 hc
      rcases hstuck cl hcl with h1 | h1 | ⟨b, hb, hmax, hnr⟩
      · exact absurd h1 hq0
      · exact Or.inl (h1 d hdcl)
      · right
        intro hre
        exact hnr (reaches_mono (hmax d hdcl) (Nat.lt_of_le_of_lt (ovl_le _ _) hQsz) hre)
    · rcases hdrop with hz | hb
      · left
        have := hh.shrink (dn (max q.scaled sd) d.mh.hs)
        rw [hun0] at this
        omega
      · right
        rintro ⟨t', nT', hc, hnb⟩
        have e := nT_consistent hthr hcase hc
        subst e
        have h1 := hh.shrink (dn (max q.scaled sd) d.mh.hs)
        rw [hun0] at h1
        rw [belowThreshold_nat] at hnb hb
        have hge : F64.ge (F64.ofNat (ovl (g.unassigned q.scaled sd) (dn (max q.scaled sd) d.mh.hs))) nT' = true := by
          simpa using hnb
        have := F64.ge_ofNat_mono h1 (Nat.lt_of_le_of_lt (ovl_le _ _) hsz) hge
        rw [this] at hb
        cases hb

/-- counters built by `counter_gather`, one per database, are exact for the candidate lists -/
theorem allInv_counterGather {q : LS} (hq : q.WF) {sd thr : Nat} {t nT : F64.F}
    (hthr : calcThreshold thr q.scaled q.hs.length = .ok (t, nT)) :
    ∀ (dbs : List (List (Sig LS))) (cs : List (Counter LS)),
      (∀ db ∈ dbs, ∀ d ∈ db, d.mh.WF ∧ d.mh.scaled = sd) → (∀ db ∈ dbs, MD5OK db) →
      List.Forall₂ (fun db c => counterGather lsOps db q thr = .ok c) dbs cs →
      AllInv (max q.scaled sd) (dn (max q.scaled sd) q.hs) (candLists q t dbs) (cs.map CObj.cg) := by
  intro dbs
  induction dbs with
  | nil =>
    intro cs _ _ h
    cases h
    exact List.Forall₂.nil
  | cons db rest ih =>
    intro cs hdb hmd h
    cases h with
    | cons h1 h2 =>
      rename_i c crest
      obtain ⟨t', nT', hc, hinv, _⟩ := counterGather_spec hq (hdb db List.mem_cons_self) (hmd db List.mem_cons_self) h1
      rw [hthr] at hc
      simp only [Except.ok.injEq, Prod.mk.injEq] at hc
      obtain ⟨rfl, rfl⟩ := hc
      refine List.Forall₂.cons ⟨c, rfl, hinv⟩ ?_
      exact ih crest (fun d hd => hdb d (List.mem_cons_of_mem _ hd)) (fun d hd => hmd d (List.mem_cons_of_mem _ hd)) h2

end Sm.Gather
