/-
JSON save/load at the table level: the loaded database represents the same log,
every lineage replaced by what `load` makes of it (`jsonLineage`: read out along
`taxlist()`, absent ranks filled with empty names).  For lineages that list the
ranks of `taxlist()` in order this changes nothing but trailing/missing empty names
(`canon_jsonLineage`).
-/
import SmVerif.Lemmas.LcaDbQuery

namespace Sm.Lca

open Sm.Lin Sm.Dict

theorem nextAfter_range (n : Nat) : nextAfter (List.range n) = n := by
  induction n with
  | zero => rfl
  | succ n ih =>
    have : ∀ l : List Nat, ∀ x, nextAfter (l ++ [x]) = max (nextAfter l) (x + 1) := by
      intro l x
      induction l with
      | nil => simp [nextAfter]
      | cons y ys ihl => simp only [List.cons_append, nextAfter, ihl]; omega
    rw [List.range_succ, this, ih]
    omega

theorem foldl_set_eq {α β : Type} [DecidableEq α] (l acc : List (α × β)) (h : (keys (acc ++ l)).Nodup) :
    l.foldl (fun d p => set d p.1 p.2) acc = acc ++ l := by
  induction l generalizing acc with
  | nil => simp
  | cons p rest ih =>
    obtain ⟨k, v⟩ := p
    simp only [List.foldl_cons]
    have hk : k ∉ keys acc := by
      rw [keys_append] at h
      simp only [keys] at h
      rw [List.nodup_append] at h
      intro hm
      exact h.2.2 k hm k (by simp) rfl
    rw [set_of_not_mem v hk, ih]
    · simp
    · simpa using h

theorem get?_map_val {α β γ : Type} [DecidableEq α] (f : β → γ) (d : List (α × β)) (k : α) :
    get? (d.map (fun p => (p.1, f p.2))) k = (get? d k).map f := by
  induction d with
  | nil => rfl
  | cons p rest ih =>
    obtain ⟨k', v⟩ := p
    simp only [List.map_cons, get?]
    by_cases h : k = k'
    · simp [h]
    · simp [h, ih]

theorem keys_map_val {α β γ : Type} (f : β → γ) (d : List (α × β)) :
    keys (d.map (fun p => (p.1, f p.2))) = keys d := by
  induction d with
  | nil => rfl
  | cons p rest ih => obtain ⟨k, v⟩ := p; simp [keys, ih]

theorem nRanks_eq : nRanks = 8 := by decide

theorem jsonLineage_ne_nil (l : Lineage) : jsonLineage l ≠ [] := by
  unfold jsonLineage
  simp only [ne_eq, List.map_eq_nil_iff, List.range_eq_nil]
  rw [nRanks_eq]; omega

/-- the entry as a JSON-loaded database sees it -/
def Entry.json (e : Entry) : Entry :=
  { e with lineage := if e.lineage = [] then [] else jsonLineage e.lineage }

theorem json_qrep {db : Db} {log : List Entry} (hq : QRep db log) (hl : LinInv db) :
    QRep db.jsonRoundTrip (log.map Entry.json) := by
  have hmap_ident : (log.map Entry.json).map Entry.ident = log.map Entry.ident := by
    rw [List.map_map]; rfl
  have hget : ∀ i : Nat, (log.map Entry.json)[i]? = (log[i]?).map Entry.json := by
    intro i; simp
  have hl2l : (db.lidToLineage.map (fun p => (p.1, jsonLineage p.2))).foldl
      (fun d (p : Nat × Lineage) => set d p.1 p.2) [] = db.lidToLineage.map (fun p => (p.1, jsonLineage p.2)) := by
    rw [foldl_set_eq]
    · simp
    · simp only [List.nil_append]
      rw [keys_map_val]; exact hl.lid_nodup
  constructor
  · simp only [Db.jsonRoundTrip, List.length_map]
    rw [hq.identToIdx, vals_identIdx, nextAfter_range]
  · rw [hmap_ident]; exact hq.idents_nodup
  · simp only [Db.jsonRoundTrip, hq.identToIdx]
    unfold identIdx
    simp only [List.length_map]
    apply filterMap_congr'
    intro i _
    rw [hget]
    cases log[i]? <;> rfl
  · simp only [Db.jsonRoundTrip, hq.identToName, List.map_map]; rfl
  · intro i e he hne
    rw [hget] at he
    cases hle : log[i]? with
    | none => simp [hle] at he
    | some e0 =>
      simp [hle] at he
      subst he
      have hne0 : e0.lineage ≠ [] := by
        intro h0; apply hne; simp [Entry.json, h0]
      obtain ⟨lid, h1, h2⟩ := hq.lineage_some i e0 hle hne0
      refine ⟨lid, h1, ?_⟩
      simp only [Db.jsonRoundTrip]
      rw [hl2l, get?_map_val, h2]
      simp [Entry.json, hne0]
  · intro i e he hnone
    rw [hget] at he
    cases hle : log[i]? with
    | none => simp [hle] at he
    | some e0 =>
      simp [hle] at he
      subst he
      have h0 : e0.lineage = [] := by
        by_cases h0 : e0.lineage = []
        · exact h0
        · simp [Entry.json, h0] at hnone
          exact absurd hnone (jsonLineage_ne_nil _)
      exact hq.lineage_none i e0 hle h0
  · intro i hi
    simp only [List.length_map] at hi
    exact hq.lineage_oob i hi
  · intro x
    have hold := hq.index x
    unfold Db.idxsOf at hold ⊢
    simp only [Db.jsonRoundTrip]
    rw [hold]
    unfold idxsSpec
    simp only [List.length_map]
    apply List.filter_congr
    intro i _
    unfold holds
    rw [hget]
    cases log[i]? <;> rfl
  · exact hq.hv_nodup
  · exact hq.hv_nonempty

theorem lt_nextAfter {l : List Nat} {x : Nat} (h : x ∈ l) : x < nextAfter l := by
  induction l with
  | nil => cases h
  | cons y ys ih =>
    simp only [nextAfter]
    simp only [List.mem_cons] at h
    rcases h with h | h
    · subst h; omega
    · have := ih h; omega

theorem get?_foldl_set_swap {α β : Type} [DecidableEq α] [DecidableEq β] (l : List (α × β))
    (acc : List (β × α)) (b : β) (a : α)
    (h : get? (l.foldl (fun d p => set d p.2 p.1) acc) b = some a) : (a, b) ∈ l ∨ get? acc b = some a := by
  induction l generalizing acc with
  | nil => exact Or.inr h
  | cons p rest ih =>
    obtain ⟨k, v⟩ := p
    simp only [List.foldl_cons] at h
    rcases ih _ h with h1 | h1
    · exact Or.inl (List.mem_cons_of_mem _ h1)
    · rw [get?_set] at h1
      by_cases hb : b = v
      · simp only [hb, if_true, Option.some.injEq] at h1
        subst h1 hb
        exact Or.inl (by simp)
      · simp only [hb, if_false] at h1
        exact Or.inr h1

/-- the loaded database is an ordinary database again: further insertions keep working -/
theorem json_lininv {db : Db} (hl : LinInv db) : LinInv db.jsonRoundTrip := by
  have hl2l : (db.lidToLineage.map (fun p => (p.1, jsonLineage p.2))).foldl
      (fun d (p : Nat × Lineage) => set d p.1 p.2) [] = db.lidToLineage.map (fun p => (p.1, jsonLineage p.2)) := by
    rw [foldl_set_eq]
    · simp
    · simp only [List.nil_append]
      rw [keys_map_val]; exact hl.lid_nodup
  have hkeys : keys (db.lidToLineage.map (fun p => (p.1, jsonLineage p.2))) = keys db.lidToLineage :=
    keys_map_val _ _
  constructor
  · intro lin lid h
    simp only [Db.jsonRoundTrip] at h ⊢
    rw [hl2l]
    have hnd : (keys (db.lidToLineage.map (fun p => (p.1, jsonLineage p.2)))).Nodup := by
      rw [hkeys]; exact hl.lid_nodup
    rcases get?_foldl_set_swap _ [] lin lid h with h1 | h1
    · exact get?_of_mem_nodup hnd h1
    · simp at h1
  · intro lid hm
    simp only [Db.jsonRoundTrip] at hm ⊢
    rw [hl2l, hkeys] at hm
    exact lt_nextAfter (hl.lid_used lid hm)
  · simp only [Db.jsonRoundTrip]
    rw [hl2l, hkeys]; exact hl.lid_nodup
  · intro lid hm
    simp only [Db.jsonRoundTrip] at hm ⊢
    rw [hl2l, hkeys] at hm
    exact hl.lid_used lid hm

/-! ### a lineage along `taxlist()` is read back unchanged, up to empty names -/

/-- the lineage lists the first ranks of `taxlist()` in order (names may be empty) -/
def Positional (l : Lineage) : Prop := l.map Prod.fst = List.range l.length ∧ l.length ≤ nRanks

theorem get?_positional {l : Lineage} (h : l.map Prod.fst = List.range l.length) (r : Nat) :
    get? l r = (l[r]?).map Prod.snd := by
  induction l using rev_ind generalizing r with
  | h0 => simp
  | hs l p ih =>
    obtain ⟨k, v⟩ := p
    simp only [List.map_append, List.map_cons, List.map_nil, List.length_append, List.length_cons,
      List.length_nil, Nat.zero_add, List.range_succ] at h
    have hlen : (l.map Prod.fst).length = (List.range l.length).length := by simp
    obtain ⟨h1, h2⟩ := List.append_inj h hlen
    simp only [List.cons.injEq, and_true] at h2
    subst h2
    rw [get?_append, ih h1]
    by_cases hr : r < l.length
    · rw [getElem?_append_singleton_lt l _ hr, List.getElem?_eq_getElem hr]
      simp
    · have hn : l[r]? = none := List.getElem?_eq_none (by omega)
      rw [hn]
      simp only [Option.map_none, get?]
      by_cases he : r = l.length
      · subst he; simp
      · have : (l ++ [(l.length, v)])[r]? = none := List.getElem?_eq_none (by simp; omega)
        simp [he, this]

theorem positional_keys_nodup {l : Lineage} (h : l.map Prod.fst = List.range l.length) : (keys l).Nodup := by
  rw [keys_eq_map, h]
  exact List.nodup_range

theorem canon_jsonLineage {l : Lineage} (h : Positional l) : canon (jsonLineage l) = canon l := by
  obtain ⟨h1, h2⟩ := h
  unfold jsonLineage
  have hd : l.foldl (fun d (p : Key) => set d p.1 p.2) ([] : List (Nat × Nat)) = l := by
    rw [foldl_set_eq]
    · simp
    · simpa using positional_keys_nodup h1
  rw [hd]
  -- split the ranks into those the lineage has and the rest
  obtain ⟨m, hm⟩ : ∃ m, nRanks = l.length + m := ⟨nRanks - l.length, by omega⟩
  rw [hm, List.range_add, List.map_append]
  unfold canon
  rw [List.filter_append]
  have hA : (List.range l.length).map (fun r => (r, (get? l r).getD 0)) = l := by
    apply List.ext_getElem
    · simp
    · intro i hi1 hi2
      simp only [List.getElem_map, List.getElem_range]
      rw [get?_positional h1]
      simp only [List.length_map, List.length_range] at hi1
      rw [List.getElem?_eq_getElem hi1]
      simp only [Option.map_some, Option.getD_some]
      have : (l.map Prod.fst)[i]'(by simpa using hi1) = i := by
        simp only [h1, List.getElem_range]
      simp only [List.getElem_map] at this
      exact Prod.ext this.symm rfl
  have hB : ((List.map (fun x => l.length + x) (List.range m)).map (fun r => (r, (get? l r).getD 0))).filter
      (fun p => p.2 != 0) = [] := by
    rw [List.filter_eq_nil_iff]
    intro p hp
    simp only [List.map_map, List.mem_map, List.mem_range, Function.comp] at hp
    obtain ⟨j, _, rfl⟩ := hp
    rw [get?_positional h1, List.getElem?_eq_none (by omega)]
    simp
  rw [hA, hB, List.append_nil]

end Sm.Lca
