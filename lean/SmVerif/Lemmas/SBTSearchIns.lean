/-
What `add_node` (every variant: `_rebuild_node` older/repaired, with or without the repair step) does to the
ingredients of a total and exact search other than Base / Cover / shape: `min_n_below` stays positive
(`MinPos`) and recorded (`MinSome`), the node cache is not touched and keeps naming present nodes (`CacheOK`).
-/
import SmVerif.Lemmas.SBTSearchCore
import SmVerif.Lemmas.SBTSearchFill
import SmVerif.Lemmas.SBTSearchTotal

namespace Sm.SBT

open Sm.NG

/-! ### node-wise properties through the writers -/

theorem allNodes_of_set {P : INode → Prop} {t s : Tree} {pos : Nat} {n : INode} (h : AllNodes P t) (hn : P n)
    (hs : s.nodes = t.nodes.set pos n) : AllNodes P s := by
  intro q m hm
  rw [hs, PMap.get?_set] at hm
  split at hm
  · cases hm; exact hn
  · exact h q m hm

theorem newNodePos_nodes (t : Tree) : (newNodePos t).1.nodes = t.nodes := by
  unfold newNodePos
  split
  · rfl
  · split <;> rfl

theorem walkUp_allNodes {P : INode → Prop} (hP : NodeProp P) (fixed : Bool) (l : Leaf) : ∀ (as : List Nat) (t t' : Tree),
    AllNodes P t → walkUp fixed l as t = .ok t' → AllNodes P t' := by
  intro as
  induction as with
  | nil => intro t t' h hw; simp only [walkUp, Except.ok.injEq] at hw; subst hw; exact h
  | cons a as ih =>
    intro t t' h hw
    simp only [walkUp, bind, Except.bind] at hw
    split at hw
    · cases hw
    · rename_i t1 hr
      have h1 := rebuild_allNodes hP fixed _ _ _ _ h hr
      split at hw
      · exact ih _ _ (h1.modNode _ _ (hP.leafUp _ _)) hw
      · cases hw

theorem rebuildMissing_allNodes {P : INode → Prop} (hP : NodeProp P) (fixed : Bool) : ∀ (ps : List Nat) (t t' : Tree),
    AllNodes P t → rebuildMissing fixed ps t = .ok t' → AllNodes P t' := by
  intro ps
  induction ps with
  | nil => intro t t' h hr; simp only [rebuildMissing, Except.ok.injEq] at hr; subst hr; exact h
  | cons p ps ih =>
    intro t t' h hr
    simp only [rebuildMissing, bind, Except.bind] at hr
    split at hr
    · cases hr
    · rename_i t1 hr1
      exact ih _ _ (rebuild_allNodes hP fixed _ _ _ _ h hr1) hr

theorem addNodeCore_allNodes {P : INode → Prop} (hP : NodeProp P) {fixed : Bool} {t t' : Tree} {l : Leaf}
    (h : AllNodes P t) (ha : addNodeCore fixed t l = .ok t') : AllNodes P t' := by
  unfold addNodeCore at ha
  generalize hr1 : newNodePos t = r1 at ha
  obtain ⟨t1, pos1⟩ := r1
  have h1 : AllNodes P t1 := by
    have := newNodePos_nodes t
    rw [hr1] at this
    intro p n hn; exact h p n (by rw [← this]; exact hn)
  simp only at ha
  generalize hr2 : (if pos1 = 0 then newNodePos { t1 with nodes := t1.nodes.set 0 INode.fresh } else (t1, pos1)) = r2 at ha
  obtain ⟨t2, pos2⟩ := r2
  have h2 : AllNodes P t2 := by
    split at hr2
    · have := newNodePos_nodes { t1 with nodes := t1.nodes.set 0 INode.fresh }
      rw [hr2] at this
      intro p n hn
      exact (h1.set 0 hP.fresh) p n (by rw [← this]; exact hn)
    · cases hr2; exact h1
  simp only [bind, Except.bind, pure, Except.pure, throw, throwThe, MonadExceptOf.throw] at ha
  split at ha
  · cases ha
  · split at ha
    · split at ha
      · cases ha
      · exact walkUp_allNodes hP fixed l _ _ _
          (allNodes_of_set h2 (hP.leafUp _ _ _ (hP.leafUp _ _ _ hP.fresh)) rfl) ha
    · rename_i n hat
      exact walkUp_allNodes hP fixed l _ _ _
        (allNodes_of_set h2 (hP.leafUp _ _ _ (h2 _ n (at_node_inv hat).2)) rfl) ha
    · split at ha
      · cases ha
      · exact walkUp_allNodes hP fixed l _ _ _ (allNodes_of_set h2 (hP.leafUp _ _ _ hP.fresh) rfl) ha

/-- `add_node` as its two stages -/
theorem addNode_stages {fixed pre : Bool} {t t' : Tree} {l : Leaf} (ha : addNode fixed pre t l = .ok t') :
    ∃ t0, (t0 = t ∨ rebuildMissing fixed (sortAsc t.missing) t = .ok t0) ∧ addNodeCore fixed t0 l = .ok t' := by
  unfold addNode at ha
  cases pre with
  | false =>
    simp only [Bool.false_eq_true, ↓reduceIte, bind, Except.bind, pure, Except.pure] at ha
    exact ⟨t, Or.inl rfl, ha⟩
  | true =>
    simp only [↓reduceIte, bind, Except.bind] at ha
    split at ha
    · cases ha
    · rename_i t0 hr
      exact ⟨t0, Or.inr hr, ha⟩

theorem addNode_allNodes {P : INode → Prop} (hP : NodeProp P) {fixed pre : Bool} {t t' : Tree} {l : Leaf}
    (h : AllNodes P t) (ha : addNode fixed pre t l = .ok t') : AllNodes P t' := by
  obtain ⟨t0, h0, hc⟩ := addNode_stages ha
  refine addNodeCore_allNodes hP ?_ hc
  rcases h0 with rfl | hr
  · exact h
  · exact rebuildMissing_allNodes hP fixed _ _ _ h hr

theorem nodeProp_nostore : NodeProp (fun n => n.hasStorage = false) :=
  ⟨rfl, fun _ _ _ h => h, fun _ _ _ h => h⟩

theorem reach_allNodes {P : INode → Prop} (hP : NodeProp P) {d : Nat} {sizes : List Nat} {t : Tree}
    (h : Reach d sizes t) : AllNodes P t := by
  induction h with
  | new => intro p n hn; simp [Tree.new, PMap.get?_nil] at hn
  | ins fixed pre l _ hadd ih => exact addNode_allNodes hP ih hadd

theorem reach_minpos {d : Nat} {sizes : List Nat} {t : Tree} (h : Reach d sizes t) : MinPos t :=
  reach_allNodes nodeProp_minpos h

theorem reach_clean {d : Nat} {sizes : List Nat} {t : Tree} (h : Reach d sizes t) : Clean t := by
  intro p n hn hst
  have := reach_allNodes nodeProp_nostore h p n hn
  rw [this] at hst; cases hst

/-- the repair step of `add_node` keeps every recorded `min_n_below` positive (any tree) -/
theorem rebuildMissing_minpos {fixed : Bool} : ∀ (ps : List Nat) (t t' : Tree), MinPos t →
    rebuildMissing fixed ps t = .ok t' → MinPos t' :=
  rebuildMissing_allNodes nodeProp_minpos fixed

/-- `add_node` keeps every recorded `min_n_below` positive, on every tree -/
theorem addNode_minpos_gen {fixed pre : Bool} {t t' : Tree} (hmp : MinPos t) {l : Leaf}
    (ha : addNode fixed pre t l = .ok t') : MinPos t' :=
  addNode_allNodes nodeProp_minpos hmp ha

theorem addNode_minpos {fixed pre : Bool} {t t' : Tree} (_h : InsInv t) (hmp : MinPos t) {l : Leaf}
    (ha : addNode fixed pre t l = .ok t') : MinPos t' :=
  addNode_minpos_gen hmp ha

/-- a save + load (index versions 4-6, any sparseness) keeps every surviving `min_n_below` -/
theorem load_save_minpos {fixed : Bool} {t t' : Tree} (omitted : Nat → Bool) {ver : Nat} (cm : Option Nat)
    (hv : ver ≠ 3) (hmp : MinPos t) (h : load fixed (save t omitted) ver cm = .ok t') : MinPos t' := by
  have ht' := load_ok hv h
  have hnodes : t'.nodes = loadNodes (save t omitted) := by rw [ht']
  intro p n' hn'
  rw [hnodes, loadNodes_save_get?] at hn'
  split at hn'
  · cases hn'
  · cases hn : t.nodes.get? p with
    | none => rw [hn] at hn'; cases hn'
    | some n =>
      rw [hn] at hn'
      simp only [Option.map_some, Option.some.injEq] at hn'
      subst hn'
      exact hmp p n hn

/-! ### the node cache through the writers -/

/-- what the writers do as far as the node cache can tell: the cache and its bound are not touched, and node
positions only get added -/
structure Grow (t t' : Tree) : Prop where
  cache : t'.cache = t.cache
  cacheMax : t'.cacheMax = t.cacheMax
  present : ∀ x, (t.nodes.get? x).isSome = true → (t'.nodes.get? x).isSome = true

theorem Grow.refl (t : Tree) : Grow t t := ⟨rfl, rfl, fun _ h => h⟩

theorem Grow.trans {a b c : Tree} (h1 : Grow a b) (h2 : Grow b c) : Grow a c :=
  ⟨h2.cache.trans h1.cache, h2.cacheMax.trans h1.cacheMax, fun x h => h2.present x (h1.present x h)⟩

theorem Grow.cacheOK {t t' : Tree} (h : Grow t t') (hc : CacheOK t) : CacheOK t' := by
  intro c hc'
  rw [h.cache] at hc'
  exact h.present _ (hc c hc')

theorem grow_rebuild {fixed : Bool} {fuel : Nat} {t t' : Tree} {pos : Nat} (h : rebuild fixed fuel t pos = .ok t') :
    Grow t t' := by
  obtain ⟨_, _, _, _, _, h6, h7, h8, _⟩ := rebuild_frame h
  refine ⟨h7, h6, ?_⟩
  intro x hx
  obtain ⟨n, hn⟩ := Option.isSome_iff_exists.mp hx
  rw [h8 x n hn]; rfl

theorem grow_modNode (t : Tree) (p : Nat) (f : INode → INode) : Grow t (t.modNode p f) := by
  obtain ⟨_, _, _, _, _, h6, h7⟩ := modNode_fields t p f
  refine ⟨h7, h6, ?_⟩
  intro x hx
  rw [modNode_get?]
  split
  · rename_i hq; subst hq
    rw [Option.isSome_map]; exact hx
  · exact hx

theorem grow_of_set {t s : Tree} {pos : Nat} {n : INode} (hc : s.cache = t.cache) (hm : s.cacheMax = t.cacheMax)
    (hs : s.nodes = t.nodes.set pos n) : Grow t s := by
  refine ⟨hc, hm, ?_⟩
  intro x hx
  rw [hs, PMap.get?_set]
  split
  · rfl
  · exact hx

theorem grow_setNode (t : Tree) (pos : Nat) (n : INode) : Grow t { t with nodes := t.nodes.set pos n } :=
  grow_of_set rfl rfl rfl

theorem grow_newNodePos (t : Tree) : Grow t (newNodePos t).1 := by
  have : (newNodePos t).1.nodes = t.nodes ∧ (newNodePos t).1.cache = t.cache ∧ (newNodePos t).1.cacheMax = t.cacheMax := by
    unfold newNodePos
    split
    · exact ⟨rfl, rfl, rfl⟩
    · split <;> exact ⟨rfl, rfl, rfl⟩
  exact ⟨this.2.1, this.2.2, fun x hx => by rw [this.1]; exact hx⟩

theorem grow_walkUp (fixed : Bool) (l : Leaf) : ∀ (as : List Nat) (t t' : Tree),
    walkUp fixed l as t = .ok t' → Grow t t' := by
  intro as
  induction as with
  | nil => intro t t' hw; simp only [walkUp, Except.ok.injEq] at hw; subst hw; exact Grow.refl _
  | cons a as ih =>
    intro t t' hw
    simp only [walkUp, bind, Except.bind] at hw
    split at hw
    · cases hw
    · rename_i t1 hr
      split at hw
      · exact ((grow_rebuild hr).trans (grow_modNode _ _ _)).trans (ih _ _ hw)
      · cases hw

theorem grow_rebuildMissing (fixed : Bool) : ∀ (ps : List Nat) (t t' : Tree),
    rebuildMissing fixed ps t = .ok t' → Grow t t' := by
  intro ps
  induction ps with
  | nil => intro t t' hr; simp only [rebuildMissing, Except.ok.injEq] at hr; subst hr; exact Grow.refl _
  | cons p ps ih =>
    intro t t' hr
    simp only [rebuildMissing, bind, Except.bind] at hr
    split at hr
    · cases hr
    · rename_i t1 hr1
      exact (grow_rebuild hr1).trans (ih _ _ hr)

theorem grow_addNodeCore {fixed : Bool} {t t' : Tree} {l : Leaf} (ha : addNodeCore fixed t l = .ok t') : Grow t t' := by
  unfold addNodeCore at ha
  generalize hr1 : newNodePos t = r1 at ha
  obtain ⟨t1, pos1⟩ := r1
  have h1 : Grow t t1 := by
    have := grow_newNodePos t
    rw [hr1] at this; exact this
  simp only at ha
  generalize hr2 : (if pos1 = 0 then newNodePos { t1 with nodes := t1.nodes.set 0 INode.fresh } else (t1, pos1)) = r2 at ha
  obtain ⟨t2, pos2⟩ := r2
  have h2 : Grow t t2 := by
    split at hr2
    · have := grow_newNodePos { t1 with nodes := t1.nodes.set 0 INode.fresh }
      rw [hr2] at this
      exact (h1.trans (grow_setNode t1 0 INode.fresh)).trans this
    · cases hr2; exact h1
  simp only [bind, Except.bind, pure, Except.pure, throw, throwThe, MonadExceptOf.throw] at ha
  split at ha
  · cases ha
  · split at ha
    · split at ha
      · cases ha
      · refine Grow.trans (Grow.trans h2 ?_) (grow_walkUp fixed l _ _ _ ha)
        exact grow_of_set rfl rfl rfl
    · refine Grow.trans (Grow.trans h2 ?_) (grow_walkUp fixed l _ _ _ ha)
      exact grow_of_set rfl rfl rfl
    · split at ha
      · cases ha
      · refine Grow.trans (Grow.trans h2 ?_) (grow_walkUp fixed l _ _ _ ha)
        exact grow_of_set rfl rfl rfl

theorem grow_addNode {fixed pre : Bool} {t t' : Tree} {l : Leaf} (ha : addNode fixed pre t l = .ok t') : Grow t t' := by
  obtain ⟨t0, h0, hc⟩ := addNode_stages ha
  rcases h0 with rfl | hr
  · exact grow_addNodeCore hc
  · exact (grow_rebuildMissing fixed _ _ _ hr).trans (grow_addNodeCore hc)

/-- the repair step of `add_node` does not touch the node cache, which keeps naming present nodes (any tree) -/
theorem rebuildMissing_cacheOK {fixed : Bool} : ∀ (ps : List Nat) (t t' : Tree), CacheOK t →
    rebuildMissing fixed ps t = .ok t' → CacheOK t' ∧ t'.cache = t.cache := by
  intro ps t t' hco hr
  have hg := grow_rebuildMissing fixed ps t t' hr
  exact ⟨hg.cacheOK hco, hg.cache⟩

/-- `add_node` does not touch the node cache, which keeps naming present nodes, on every tree -/
theorem addNode_cacheOK_gen {fixed pre : Bool} {t t' : Tree} (hco : CacheOK t) {l : Leaf}
    (ha : addNode fixed pre t l = .ok t') : CacheOK t' ∧ t'.cache = t.cache ∧ t'.cacheMax = t.cacheMax := by
  have hg := grow_addNode ha
  exact ⟨hg.cacheOK hco, hg.cache, hg.cacheMax⟩

theorem addNode_cacheOK {fixed pre : Bool} {t t' : Tree} (_h : InsInv t) (hco : CacheOK t) {l : Leaf}
    (ha : addNode fixed pre t l = .ok t') : CacheOK t' ∧ t'.cache = t.cache ∧ t'.cacheMax = t.cacheMax :=
  addNode_cacheOK_gen hco ha

theorem addNode_cache {fixed pre : Bool} {t t' : Tree} {l : Leaf} (ha : addNode fixed pre t l = .ok t') :
    t'.cache = t.cache := (grow_addNode ha).cache

theorem newNodePos_cache (t : Tree) : (newNodePos t).1.cache = t.cache := (grow_newNodePos t).cache

theorem walkUp_cache (fixed : Bool) (l : Leaf) (as : List Nat) (t t' : Tree)
    (hw : walkUp fixed l as t = .ok t') : t'.cache = t.cache := (grow_walkUp fixed l as t t' hw).cache

theorem reach_cache {d : Nat} {sizes : List Nat} {t : Tree} (h : Reach d sizes t) : t.cache = [] := by
  induction h with
  | new => rfl
  | ins fixed pre l _ hadd ih => exact (addNode_cache hadd).trans ih

/-! ### every internal node has a leaf below it, hence a `min_n_below` -/

/-- the extra shape fact insertions maintain (not part of `Shape`): the first child of the last internal node
is inside the leaf range -/
def LowInv (t : Tree) : Prop := IsEmpty t ∨ ∃ m M, Shape t m M ∧ t.d * (m - 1) + 1 ≤ M

theorem addNodeCore_lowInv {fixed : Bool} {t t' : Tree} (hb : Base t) (hc : Cover t) (h : LowInv t) {l : Leaf}
    (hadd : addNodeCore fixed t l = .ok t') : LowInv t' := by
  rcases h with he | ⟨m, M, hs, hlow⟩
  · obtain ⟨t2, h1, hb2, hc2, hs2, hd2, hz2, _⟩ := insert_first (fixed := fixed) hb.d2 hb.sizes he l
    rw [h1] at hadd; cases hadd
    exact Or.inr ⟨1, 1, hs2, by simp⟩
  · have hd0 : 0 < t.d := by have := hb.d2; omega
    have hle : parent t.d (M + 1) ≤ m := by
      rw [parent_succ]
      apply Nat.div_le_of_le_mul
      exact hs.Mdm
    rcases Nat.lt_or_eq_of_le hle with hP | hP
    · obtain ⟨t2, h1, hb2, hc2, hs2, hd2, hz2, _⟩ := insert_under_node (fixed := fixed) hb hc hs l hP
      rw [h1] at hadd; cases hadd
      exact Or.inr ⟨m, M + 1, hs2, by rw [hd2]; omega⟩
    · obtain ⟨t2, lm, _, h1, hb2, hc2, hs2, hd2, hz2, _⟩ := insert_under_leaf (fixed := fixed) hb hc hs l hP
      rw [h1] at hadd; cases hadd
      refine Or.inr ⟨m + 1, M + 2, hs2, ?_⟩
      rw [hd2, Nat.add_sub_cancel]
      have h3 : M / t.d = m := by rw [← parent_succ]; exact hP
      have h4 := Nat.mul_div_le M t.d
      rw [h3] at h4
      omega

theorem lowInv_insInv {t : Tree} (h : LowInv t) : IsEmpty t ∨ ∃ m M, Shape t m M := by
  rcases h with he | ⟨m, M, hs, _⟩
  · exact Or.inl he
  · exact Or.inr ⟨m, M, hs⟩

/-- `add_node` (every variant) keeps it -/
theorem addNode_lowInv {fixed pre : Bool} {t t' : Tree} (hb : Base t) (hc : Cover t) (h : LowInv t) {l : Leaf}
    (hadd : addNode fixed pre t l = .ok t') : LowInv t' := by
  rw [addNode_eq_core (lowInv_insInv h)] at hadd
  exact addNodeCore_lowInv hb hc h hadd

theorem reach_lowInv {d : Nat} {sizes : List Nat} (hd : 2 ≤ d) (hsz : SizesOK sizes) {t : Tree}
    (h : Reach d sizes t) : LowInv t := by
  induction h with
  | new => exact Or.inl ⟨rfl, rfl, rfl⟩
  | ins fixed pre l hr hadd ih =>
    obtain ⟨⟨hb0, hc0, _⟩, _⟩ := reach_inv hd hsz hr
    exact addNode_lowInv hb0 hc0 ih hadd

/-- insertion keeps the last internal node's first child inside the leaf range -/
theorem reach_shape_low {d : Nat} {sizes : List Nat} (hd : 2 ≤ d) (hsz : SizesOK sizes) {t : Tree}
    (h : Reach d sizes t) :
    Base t ∧ Cover t ∧ t.d = d ∧ t.sizes = sizes ∧
      (IsEmpty t ∨ ∃ m M, Shape t m M ∧ t.d * (m - 1) + 1 ≤ M) := by
  obtain ⟨⟨hb, hc, _⟩, hd', hs', _⟩ := reach_inv hd hsz h
  exact ⟨hb, hc, hd', hs', reach_lowInv hd hsz h⟩

/-- under that condition every internal node has a leaf somewhere below it -/
theorem Shape.leaf_below {t : Tree} {m M : Nat} (hs : Shape t m M) (hd0 : 0 < t.d) (hlow : t.d * (m - 1) + 1 ≤ M) :
    ∀ (k p : Nat), m - p ≤ k → p < m → ∃ q lq, t.leaves.get? q = some lq ∧ p ∈ ancestors t.d q := by
  intro k
  induction k with
  | zero => intro p hk hp; omega
  | succ k ih =>
    intro p hk hp
    have hpa : p ∈ ancestors t.d (child t.d p 0) := by rw [ancestors_child hd0]; exact List.mem_cons_self
    have hgt := child_gt t.d p 0 hd0
    by_cases hc : child t.d p 0 < m
    · obtain ⟨q, lq, hq, hcq⟩ := ih (child t.d p 0) (by omega) hc
      exact ⟨q, lq, hq, ancestors_trans hcq hpa⟩
    · have hle : child t.d p 0 ≤ M := by
        have : t.d * p ≤ t.d * (m - 1) := Nat.mul_le_mul_left _ (by omega)
        unfold child
        omega
      obtain ⟨⟨lq, hq⟩, _⟩ := hs.leaf_at (by omega) hle
      exact ⟨_, lq, hq, hpa⟩

theorem minSome_of_shape_low {t : Tree} {m M : Nat} (hb : Base t) (hc : Cover t) (hs : Shape t m M)
    (hlow : t.d * (m - 1) + 1 ≤ M) : MinSome t := by
  intro p n hn
  have hp : p < m := (hs.nodes p).mp (by rw [hn]; rfl)
  obtain ⟨q, lq, hq, ha⟩ := hs.leaf_below (by have := hb.d2; omega) hlow (m - p) p (Nat.le_refl _) hp
  have := (hc q lq hq p ha).2
  rw [hn] at this
  obtain ⟨_, m0, hm0, _⟩ := this
  rw [hm0]; rfl

theorem minSome_of_lowInv {t : Tree} (hb : Base t) (hc : Cover t) (h : LowInv t) : MinSome t := by
  rcases h with he | ⟨m, M, hs, hlow⟩
  · intro p n hn
    rw [he.1] at hn; cases hn
  · exact minSome_of_shape_low hb hc hs hlow

theorem reach_minSome {d : Nat} {sizes : List Nat} (hd : 2 ≤ d) (hsz : SizesOK sizes) {t : Tree}
    (h : Reach d sizes t) : MinSome t := by
  obtain ⟨hb, hc, _, _, hsh⟩ := reach_shape_low hd hsz h
  exact minSome_of_lowInv hb hc hsh

theorem load_save_minSome {fixed : Bool} {t t' : Tree} (omitted : Nat → Bool) {ver : Nat} (cm : Option Nat)
    (hv : ver ≠ 3) (hms : MinSome t) (h : load fixed (save t omitted) ver cm = .ok t') : MinSome t' := by
  have ht' := load_ok hv h
  have hnodes : t'.nodes = loadNodes (save t omitted) := by rw [ht']
  intro p n' hn'
  rw [hnodes, loadNodes_save_get?] at hn'
  split at hn'
  · cases hn'
  · cases hn : t.nodes.get? p with
    | none => rw [hn] at hn'; cases hn'
    | some n =>
      rw [hn] at hn'
      simp only [Option.map_some, Option.some.injEq] at hn'
      subst hn'
      exact hms p n hn

/-! ### `MinSome` through an insertion into an insertion-shaped tree

`Shape` alone does not force a leaf below every internal node (see `insInv_not_minSome` in `SBTSearch.lean`), so
`MinSome` is carried as an invariant of its own: the ancestor walk only meets present nodes, `_rebuild_node`
never makes a fresh one, and every node `add_node` writes went through `SigLeaf.update`. -/

theorem walkUp_present_allNodes {P : INode → Prop} (hleaf : ∀ sz l n, P (leafUpdate sz l n)) (fixed : Bool) (l : Leaf) :
    ∀ (as : List Nat) (t t' : Tree), (∀ a ∈ as, (t.nodes.get? a).isSome = true) → AllNodes P t →
    walkUp fixed l as t = .ok t' → AllNodes P t' := by
  intro as
  induction as with
  | nil => intro t t' _ h hw; simp only [walkUp, Except.ok.injEq] at hw; subst hw; exact h
  | cons a as ih =>
    intro t t' hpres h hw
    obtain ⟨n, hn⟩ := Option.isSome_iff_exists.mp (hpres a List.mem_cons_self)
    simp only [walkUp, rebuildFuel_succ, rebuild_present hn, bind, Except.bind, hn] at hw
    refine ih _ _ ?_ (h.modNode _ _ (fun n _ => hleaf _ _ n)) hw
    intro b hb
    exact (grow_modNode t a _).present b (hpres b (List.mem_cons_of_mem _ hb))

theorem addNodeCore_shape_allNodes {P : INode → Prop} (hleaf : ∀ sz l n, P (leafUpdate sz l n)) {fixed : Bool}
    {t t' : Tree} {m M : Nat} (hs : Shape t m M) {l : Leaf} (h : AllNodes P t)
    (ha : addNodeCore fixed t l = .ok t') : AllNodes P t' := by
  have hle : parent t.d (M + 1) ≤ m := by
    rw [parent_succ]
    apply Nat.div_le_of_le_mul
    exact hs.Mdm
  have hpres : ∀ (s : Tree) (n : INode), s.nodes = t.nodes.set (parent t.d (M + 1)) n →
      ∀ a ∈ ancestors t.d (parent t.d (M + 1)), (s.nodes.get? a).isSome = true := by
    intro s n hsn a ha
    have := mem_ancestors_lt ha
    rw [hsn, PMap.get?_set]
    split
    · rfl
    · exact (hs.nodes a).mpr (by omega)
  unfold addNodeCore at ha
  simp only [newNodePos_shape hs, Nat.succ_ne_zero, ↓reduceIte, bind, Except.bind, pure, Except.pure,
    throw, throwThe, MonadExceptOf.throw] at ha
  split at ha
  · split at ha
    · cases ha
    · exact walkUp_present_allNodes hleaf fixed l _ _ _ (hpres _ _ rfl) (allNodes_of_set h (hleaf _ _ _) rfl) ha
  · exact walkUp_present_allNodes hleaf fixed l _ _ _ (hpres _ _ rfl) (allNodes_of_set h (hleaf _ _ _) rfl) ha
  · split at ha
    · cases ha
    · exact walkUp_present_allNodes hleaf fixed l _ _ _ (hpres _ _ rfl) (allNodes_of_set h (hleaf _ _ _) rfl) ha

/-- `add_node` into an insertion-built tree (every variant) keeps a `min_n_below` on every node -/
theorem addNode_minSome {fixed pre : Bool} {t t' : Tree} (h : InsInv t) (hms : MinSome t) {l : Leaf}
    (ha : addNode fixed pre t l = .ok t') : MinSome t' := by
  rw [addNode_eq_core h.2.2] at ha
  obtain ⟨hb, hc, hsh⟩ := h
  rcases hsh with he | ⟨m, M, hs⟩
  · obtain ⟨t2, h1, hb2, hc2, hs2, _⟩ := insert_first (fixed := fixed) hb.d2 hb.sizes he l
    rw [h1] at ha; cases ha
    exact minSome_of_shape_low hb2 hc2 hs2 (by simp)
  · exact addNodeCore_shape_allNodes (P := fun n => n.minN.isSome = true) (fun _ _ _ => rfl) hs hms ha

end Sm.SBT
