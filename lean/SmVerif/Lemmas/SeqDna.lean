/-
The DNA branch of the `SeqToHashes` iterator equals the window specification.

Loop invariant (`Inv`): every position in `[kmer_index, dna_last_position_check)` holds a valid
base, and `dna_last_position_check ≤ kmer_index + k` (the check cursor may lag behind after an
invalid byte, it never runs ahead of what has been verified).
-/
import SmVerif.Lemmas.SeqWindows
import SmVerif.Lemmas.SeqSpec

namespace Sm.Seq

/-- position `j` of `s` exists and holds a valid base -/
def ValidAt (s : List Nat) (j : Nat) : Prop := ∃ b, s[j]? = some b ∧ valid b = true

theorem scan_spec (s : List Nat) : ∀ (cnt j lpc : Nat), j + cnt ≤ s.length →
    (scan s cnt j lpc = .good (lpc + cnt) ∧ ∀ t, t < cnt → ValidAt s (j + t)) ∨
    (∃ t, t < cnt ∧ scan s cnt j lpc = .bad (lpc + t) ∧ (∀ u, u < t → ValidAt s (j + u)) ∧
      ∃ b, s[j + t]? = some b ∧ valid b = false) := by
  intro cnt
  induction cnt with
  | zero => intro j lpc _; left; simp [scan]
  | succ cnt ih =>
    intro j lpc h
    have hj : j < s.length := by omega
    have hget : s[j]? = some s[j] := List.getElem?_eq_getElem hj
    by_cases hv : valid s[j] = true
    · rcases ih (j + 1) (lpc + 1) (by omega) with ⟨hg, hall⟩ | ⟨t, ht, hb, hall, hbad⟩
      · left
        refine ⟨?_, ?_⟩
        · simp [scan, hget, hv, hg]; omega
        · intro t ht
          cases t with
          | zero => exact ⟨s[j], by simp, hv⟩
          | succ t => have := hall t (by omega); rwa [show j + 1 + t = j + (t + 1) by omega] at this
      · right
        refine ⟨t + 1, by omega, ?_, ?_, ?_⟩
        · simp [scan, hget, hv, hb]; omega
        · intro u hu
          cases u with
          | zero => exact ⟨s[j], by simp, hv⟩
          | succ u => have := hall u (by omega); rwa [show j + 1 + u = j + (u + 1) by omega] at this
        · rwa [show j + 1 + t = j + (t + 1) by omega] at hbad
    · right
      refine ⟨0, by omega, ?_, ?_, ?_⟩
      · simp [scan, hget, hv]
      · intro u hu; omega
      · exact ⟨s[j], by simp, by simpa using hv⟩

theorem window_all_valid_iff (s : List Nat) (i k : Nat) (h : i + k ≤ s.length) :
    ((s.drop i).take k).all valid = true ↔ ∀ t, t < k → ValidAt s (i + t) := by
  rw [List.all_eq_true]
  constructor
  · intro hall t ht
    have hlt : i + t < s.length := by omega
    refine ⟨s[i + t], List.getElem?_eq_getElem hlt, hall _ ?_⟩
    rw [List.mem_iff_getElem?]
    exact ⟨t, by simp [ht, List.getElem?_drop, List.getElem?_eq_getElem hlt]⟩
  · intro hall x hx
    rw [List.mem_iff_getElem?] at hx
    obtain ⟨t, ht⟩ := hx
    rw [List.getElem?_take] at ht
    by_cases htk : t < k
    · simp only [htk, if_true, List.getElem?_drop] at ht
      obtain ⟨b, hb, hv⟩ := hall t htk
      rw [hb] at ht
      cases ht; exact hv
    · simp [htk] at ht

/-- the index table drawn in the source comment: the window of the reverse complement that the
    iterator pairs with the forward window at `i` IS the reverse complement of that window -/
theorem krc_window (s : List Nat) (i k : Nat) (h : i + k ≤ s.length) :
    slice? (revcomp s) (s.length - k - i) (s.length - i) = some (revcomp ((s.drop i).take k)) := by
  have hlen : (revcomp s).length = s.length := by simp [revcomp]
  unfold slice?
  rw [if_pos (by rw [hlen]; omega)]
  congr 1
  unfold revcomp
  rw [← List.map_drop, ← List.map_take]
  congr 1
  rw [List.drop_reverse, List.take_reverse, List.reverse_inj]
  simp only [List.length_take]
  rw [List.drop_take]
  have e1 : s.length - (s.length - k - i) = i + k := by omega
  have e2 : min (i + k) s.length - (s.length - i - (s.length - k - i)) = i := by omega
  rw [e1, e2]
  congr 1; omega

/-- the iterator state after the one-time configuration, at window `i`, check cursor `lpc` -/
def dnaState (s : List Nat) (k : Nat) (force : Bool) (i lpc : Nat) : St :=
  { sequence := s, kmerIndex := i, kSize := k,
    maxIndex := if s.length ≥ k then s.length - k + 1 else 0,
    force := force, isProtein := false, hf := .dna, hashesBuffer := [], dnaConfigured := true,
    dnaRc := revcomp s, dnaKsize := k, dnaLen := s.length, dnaLastPositionCheck := lpc,
    protConfigured := false, aaSeq := [], translateIterStep := 0 }

/-- the loop invariant -/
def Inv (s : List Nat) (k i lpc : Nat) : Prop :=
  lpc ≤ i + k ∧ ∀ j, i ≤ j → j < lpc → ValidAt s j

theorem slice?_window (s : List Nat) (i k : Nat) (h : i + k ≤ s.length) :
    slice? s i (i + k) = some ((s.drop i).take k) := by
  unfold slice?
  rw [if_pos ⟨by omega, h⟩]
  congr 2; omega

/-- one call of `next` on a configured DNA state with a window left -/
theorem next_dnaState (hash : List Nat → Nat) (s : List Nat) (k : Nat) (force : Bool) (i lpc : Nat)
    (h : i + k ≤ s.length) (hinv : Inv s k i lpc) :
    let w := (s.drop i).take k
    (w.all valid = true → ∃ lpc', Inv s k (i + 1) lpc' ∧
        next hash (dnaState s k force i lpc) = some (.ok (hash (canon w)), dnaState s k force (i + 1) lpc')) ∧
    (w.all valid = false → force = true → ∃ lpc', Inv s k (i + 1) lpc' ∧
        next hash (dnaState s k force i lpc) = some (.ok 0, dnaState s k force (i + 1) lpc')) ∧
    (w.all valid = false → force = false → ∃ st',
        next hash (dnaState s k force i lpc) = some (.error (dnaErr w), st')) := by
  intro w
  obtain ⟨hle, hval⟩ := hinv
  have hmax : i < (if s.length ≥ k then s.length - k + 1 else 0) := by
    rw [if_pos (by omega)]; omega
  have hnext : next hash (dnaState s k force i lpc) = nextDna hash (dnaState s k force i lpc) := by
    simp [next, dnaState, hmax, HashFn.isDna]
  have hslice := slice?_window s i k h
  have hlo : max i lpc + (i + k - max i lpc) ≤ s.length := by omega
  have hwv := window_all_valid_iff s i k h
  rcases scan_spec s (i + k - max i lpc) (max i lpc) lpc hlo with ⟨hg, hall⟩ | ⟨t, ht, hb, hall, b, hbget, hbbad⟩
  · -- the loop ran through: the whole window is valid
    have hw : w.all valid = true := by
      rw [hwv]
      intro u hu
      by_cases hlt : i + u < max i lpc
      · exact hval (i + u) (by omega) (by omega)
      · have := hall (i + u - max i lpc) (by omega)
        rwa [show max i lpc + (i + u - max i lpc) = i + u by omega] at this
    refine ⟨fun _ => ⟨lpc + (i + k - max i lpc), ⟨by omega, ?_⟩, ?_⟩, fun hf => ?_, fun hf => ?_⟩
    · intro j hj1 hj2
      exact (hwv.1 hw) (j - i) (by omega) |> fun x => by rwa [show i + (j - i) = j by omega] at x
    · rw [hnext]
      have hk := krc_window s i k h
      have hlt : ¬ s.length < k + i := by omega
      simp [nextDna, dnaState, hslice, hg, hk, hlt, canon, w]
    · rw [hw] at hf; cases hf
    · rw [hw] at hf; cases hf
  · -- an invalid byte inside the window
    have hpos : max i lpc + t < i + k := by omega
    have hw : w.all valid = false := by
      cases hc : w.all valid with
      | false => rfl
      | true =>
        obtain ⟨b', hb', hv'⟩ := (hwv.1 hc) (max i lpc + t - i) (by omega)
        rw [show i + (max i lpc + t - i) = max i lpc + t by omega, hbget] at hb'
        cases hb'; rw [hbbad] at hv'; cases hv'
    have hinv' : Inv s k (i + 1) (lpc + t) := by
      refine ⟨by omega, ?_⟩
      intro j hj1 hj2
      by_cases hlt : j < max i lpc
      · exact hval j (by omega) (by omega)
      · have := hall (j - max i lpc) (by omega)
        rwa [show max i lpc + (j - max i lpc) = j by omega] at this
    refine ⟨fun hf => ?_, fun _ hforce => ⟨lpc + t, hinv', ?_⟩, fun _ hforce => ?_⟩
    · rw [hw] at hf; cases hf
    · rw [hnext]
      simp only [nextDna, dnaState, hslice, hb, hforce]
      rfl
    · rw [hnext]
      simp only [nextDna, dnaState, hslice, hb, hforce]
      exact ⟨_, rfl⟩

theorem next_dnaState_end (hash : List Nat → Nat) (s : List Nat) (k : Nat) (force : Bool) (i lpc : Nat)
    (h : (if s.length ≥ k then s.length - k + 1 else 0) ≤ i) :
    next hash (dnaState s k force i lpc) = none := by
  simp only [ge_iff_le] at h
  simp [next, dnaState]
  omega

/-- the main induction: from window `i` on, the loop yields what the specification says -/
theorem collect_dnaState (hash : List Nat → Nat) (s : List Nat) (k : Nat) (force : Bool) :
    ∀ (m i lpc fuel : Nat), i + m = (windows k s).length → Inv s k i lpc → m + 1 ≤ fuel →
      collect hash fuel (dnaState s k force i lpc) = dnaGo hash force ((windows k s).drop i) := by
  intro m
  induction m with
  | zero =>
    intro i lpc fuel hm _ hfuel
    obtain ⟨f, rfl⟩ : ∃ f, fuel = f + 1 := ⟨fuel - 1, by omega⟩
    have hend : next hash (dnaState s k force i lpc) = none := by
      apply next_dnaState_end
      rw [length_windows] at hm
      split <;> omega
    rw [List.drop_eq_nil_of_le (by omega)]
    simp [collect, hend, dnaGo]
  | succ m ih =>
    intro i lpc fuel hm hinv hfuel
    obtain ⟨f, rfl⟩ : ∃ f, fuel = f + 1 := ⟨fuel - 1, by omega⟩
    have hlen := length_windows (k := k) s
    have hik : i + k ≤ s.length := by omega
    have hget : (windows k s)[i]? = some ((s.drop i).take k) := getElem?_windows s i hik
    have hilt : i < (windows k s).length := by omega
    have hdrop : (windows k s).drop i = (s.drop i).take k :: (windows k s).drop (i + 1) := by
      rw [List.drop_eq_getElem_cons hilt]
      congr 1
      have := List.getElem?_eq_getElem hilt
      rw [hget] at this
      exact (Option.some.inj this).symm
    rw [hdrop]
    obtain ⟨h1, h2, h3⟩ := next_dnaState hash s k force i lpc hik hinv
    cases hw : ((s.drop i).take k).all valid with
    | true =>
      obtain ⟨lpc', hinv', hn⟩ := h1 hw
      simp only [collect, hn, dnaGo, hw, if_true]
      rw [ih (i + 1) lpc' f (by omega) hinv' (by omega)]
    | false =>
      cases hforce : force with
      | true =>
        obtain ⟨lpc', hinv', hn⟩ := h2 hw hforce
        subst hforce
        simp only [collect, hn, dnaGo, hw]
        rw [ih (i + 1) lpc' f (by omega) hinv' (by omega)]
        simp
      | false =>
        obtain ⟨st', hn⟩ := h3 hw hforce
        subst hforce
        simp [collect, hn, dnaGo, hw]

/-- the first call configures the iterator and then behaves like the configured state at 0 -/
theorem next_new_dna (hash : List Nat → Nat) (seq : List Nat) (k : Nat) (force : Bool)
    (h : k ≤ seq.length) :
    next hash (new seq k force false .dna) = next hash (dnaState (upper seq) k force 0 0) := by
  have hl : (upper seq).length = seq.length := by simp [upper]
  have h1 : ¬ (seq.length < k) := by omega
  simp [next, new, dnaState, HashFn.isDna, hl, h, h1]

theorem next_new_dna_short (hash : List Nat → Nat) (seq : List Nat) (k : Nat) (force : Bool)
    (h : seq.length < k) : next hash (new seq k force false .dna) = none := by
  have h1 : ¬ (k ≤ seq.length) := by omega
  simp [next, new, HashFn.isDna, h1]

theorem iterate_dna_eq_spec (hash : List Nat → Nat) (seq : List Nat) (k : Nat) (force : Bool) :
    iterate hash seq k force false .dna = dnaSpec hash seq k force := by
  unfold iterate dnaSpec fuelFor
  have hl : (upper seq).length = seq.length := by simp [upper]
  by_cases h : k ≤ seq.length
  · have hc : collect hash (2 * seq.length + 3 + 1) (new seq k force false .dna)
        = collect hash (2 * seq.length + 3 + 1) (dnaState (upper seq) k force 0 0) := by
      simp only [collect, next_new_dna hash seq k force h]
    rw [show 2 * seq.length + 4 = 2 * seq.length + 3 + 1 by omega, hc]
    have := collect_dnaState hash (upper seq) k force (windows k (upper seq)).length 0 0
      (2 * seq.length + 3 + 1) (by omega) ⟨by omega, fun j _ hj => by omega⟩
      (by rw [length_windows, hl]; omega)
    simpa using this
  · rw [windows_of_length_lt (by rw [hl]; omega)]
    simp [collect, next_new_dna_short hash seq k force (by omega), dnaGo]

end Sm.Seq
