/-
C12 helper lemmas: the SQLite standalone manifest, the SBT reloaded with its manifest, the LCA database with its
`_signatures` cache, and picklists made from the manifest / search / prefetch / gather output of a selection.
-/
import SmVerif.Lemmas.SelectStandalone

namespace Sm.Select

open Sm.Gen (Coltype)

/-! ### StandaloneManifestIndex over a SQLite manifest -/

theorem rowKeyW_sqlRow (e : Bool) (r : Row) : rowKeyW e (sqlRow r) = rowKeyW e r := by
  unfold rowKeyW
  rw [rowRaw_sqlRow]

theorem sqlWherePasses_total {s : Sig} (d : Crit) (loc : Nat) (hwf : WF s) :
    sqlWherePasses (mkRow s loc) d = .ok (satCore d s) := by
  rw [sqlWherePasses_eq_ref, refSqlWhere_eq_satCore d loc hwf]

/-- what `signatures()` of a standalone SQLite manifest holding the merged selection dict `d` yields: the files of the
    rows passing the SQL `WHERE` (`locations()` ignores the picklist), filtered by "shares its key with a row passing
    `WHERE` and picklist" -/
theorem sqlmf_signatures {rs : List (Row × Sig)} {store : Store} (d : Crit) (hok : SmiOk rs store)
    (hwf : ∀ x ∈ rs, WF x.2) :
    (Coll.sqlmf (rs.map (·.1)) d store).signatures =
      .ok ((locations ((rs.filter (fun x => satCore d x.2)).map (·.1))).flatMap (fun loc =>
        (store.load loc).filter (keyIn Gen.toPicklistExactSql (rs.filter (fun x => Sat d x.2))))) := by
  have h1 : filterE (fun r => sqlRowPasses r d) (rs.map (·.1)) = .ok ((rs.filter (fun x => Sat d x.2)).map (·.1)) := by
    rw [filterE_map, filterE_ok_of_forall (f := fun x : Row × Sig => Sat d x.2)]
    intro x hx
    rw [hok.rows x hx]
    exact sqlRowPasses_total d _ (hwf x hx)
  have h2 : filterE (fun r => sqlWherePasses r d) (rs.map (·.1)) = .ok ((rs.filter (fun x => satCore d x.2)).map (·.1)) := by
    rw [filterE_map, filterE_ok_of_forall (f := fun x : Row × Sig => satCore d x.2)]
    intro x hx
    rw [hok.rows x hx]
    exact sqlWherePasses_total d _ (hwf x hx)
  simp only [Coll.signatures, h1, h2, standaloneSignatures_total]
  congr 1
  apply flatMap_congr_mem
  intro loc _
  apply List.filter_congr
  intro s _
  have : (((rs.filter (fun x => Sat d x.2)).map (·.1)).map sqlRow).map (rowKeyW Gen.toPicklistExactSql)
      = ((rs.filter (fun x => Sat d x.2)).map (·.1)).map (rowKeyW Gen.toPicklistExactSql) := by
    rw [List.map_map]
    apply List.map_congr_left
    intro r _
    exact rowKeyW_sqlRow _ r
  rw [this, contains_rowKeys _ hok.rows (fun x hx => (List.mem_filter.mp hx).1)]

/-- the SQLite flavour of `SmiExact`: files are listed by the SQL `WHERE` alone -/
def SqlmfExact (e : Bool) (rs : List (Row × Sig)) (d : Crit) : Prop :=
  ∀ t ∈ rs, (∃ u ∈ rs, satCore d u.2 = true ∧ u.1.loc = t.1.loc) →
    keyIn e (rs.filter (fun x => Sat d x.2)) t.2 = true → Sat d t.2 = true

theorem sqlmf_signatures_exact {rs : List (Row × Sig)} {store : Store} (d : Crit) (hok : SmiOk rs store)
    (hwf : ∀ x ∈ rs, WF x.2) (hex : SqlmfExact Gen.toPicklistExactSql rs d) :
    ∃ l, (Coll.sqlmf (rs.map (·.1)) d store).signatures = .ok l ∧ l.Perm ((rs.map (·.2)).filter (Sat d)) := by
  refine ⟨_, sqlmf_signatures d hok hwf, ?_⟩
  simp only [locations, List.map_map]
  have := reload_exact Gen.toPicklistExactSql hok (fun x => Sat d x.2)
    ((rs.filter (fun x => satCore d x.2)).map ((·.loc) ∘ (·.1))) ?_ ?_
  · rw [List.filter_map]
    exact this
  · intro x hx
    have hx' := List.mem_filter.mp hx
    refine List.mem_map.mpr ⟨x, List.mem_filter.mpr ⟨hx'.1, ?_⟩, rfl⟩
    have := hx'.2
    rw [Sat_eq] at this
    simp only [Bool.and_eq_true] at this
    exact this.1
  · intro t ht hloc hk
    obtain ⟨u, hu, hul⟩ := List.mem_map.mp hloc
    have hu' := List.mem_filter.mp hu
    exact hex t ht ⟨u, hu'.1, hu'.2, hul⟩ hk

theorem sqlRowPasses_ok_any (r : Row) (d : Crit) : ∃ b, sqlRowPasses r d = .ok b := by
  rw [sqlRowPasses_eq]
  split
  · cases d.picklist with
    | none => exact ⟨_, rfl⟩
    | some pl => exact matchesRow_ok pl r
  · exact ⟨_, rfl⟩

theorem filterE_total {α : Type} {p : α → Except Err Bool} (h : ∀ x, ∃ b, p x = .ok b) (l : List α) :
    ∃ r, filterE p l = .ok r := by
  induction l with
  | nil => exact ⟨_, rfl⟩
  | cons x t ih =>
    obtain ⟨b, hb⟩ := h x
    obtain ⟨r, hr⟩ := ih
    exact ⟨if b then x :: r else r, by simp only [filterE, hb, hr]⟩

/-- `StandaloneManifestIndex.select` over a SQLite manifest merges the selection dicts (or refuses) -/
theorem sqlmf_select {all : List Row} {store : Store} {d c : Crit} {z : Coll}
    (h : ((Coll.sqlmf all d store).select c).2 = .ok z) :
    ∃ d', mergeZip d c = .ok d' ∧ z = .sqlmf all d' store := by
  simp only [Coll.select] at h
  cases hm : mergeZip d c with
  | error e => simp [hm] at h
  | ok d' =>
    simp only [hm] at h
    refine ⟨d', rfl, ?_⟩
    split at h
    · obtain ⟨r, hr⟩ := filterE_total (fun r => sqlRowPasses_ok_any r d) all
      rw [hr] at h
      injection h with h
      exact h.symm
    · injection h with h
      exact h.symm

/-! ### SBT reloaded from its zip (manifest present) -/

theorem passesAll_append (a b : List Picklist) (s : Sig) :
    passesAll (a ++ b) s = (passesAll a s && passesAll b s) := by
  simp [passesAll, List.all_append]

/-! ### LCA database: the `_signatures` cache -/

/-- the cache, when present, was computed under a prefix of the picklists now held (picklists are only ever appended,
    `insert` — not modelled — is the only thing that invalidates it) -/
def CacheOk (sigs : List Sig) (pls : List Picklist) (cache : Option (List Sig)) : Prop :=
  cache = none ∨ ∃ pls₀ rest, pls = pls₀ ++ rest ∧ cache = some (sigs.filter (passesAll pls₀))

theorem lcaCached_filter {sigs : List Sig} {pls : List Picklist} {cache : Option (List Sig)}
    (h : CacheOk sigs pls cache) :
    (lcaCached sigs pls cache).filter (passesAll pls) = sigs.filter (passesAll pls) := by
  rcases h with h | ⟨pls₀, rest, hp, hc⟩
  · subst h
    simp only [lcaCached, List.filter_filter, Bool.and_self]
  · subst hp hc
    simp only [lcaCached, List.filter_filter]
    apply List.filter_congr
    intro s _
    rw [passesAll_append]
    cases passesAll pls₀ s <;> simp

theorem cacheOk_touch {sigs : List Sig} {pls : List Picklist} {cache : Option (List Sig)}
    (h : CacheOk sigs pls cache) : CacheOk sigs pls (some (lcaCached sigs pls cache)) := by
  rcases h with h | ⟨pls₀, rest, hp, hc⟩
  · subst h
    exact Or.inr ⟨pls, [], by simp, rfl⟩
  · subst hc
    exact Or.inr ⟨pls₀, rest, hp, rfl⟩

theorem cacheOk_append {sigs : List Sig} {pls : List Picklist} {cache : Option (List Sig)} (more : List Picklist)
    (h : CacheOk sigs pls cache) : CacheOk sigs (pls ++ more) cache := by
  rcases h with h | ⟨pls₀, rest, hp, hc⟩
  · exact Or.inl h
  · exact Or.inr ⟨pls₀, rest ++ more, by rw [hp, List.append_assoc], hc⟩

/-! ### picklists made from the output of a selection -/

/-- the pickset `load()` builds from the (name, md5) rows of a manifest / search / prefetch / gather CSV:
    the distinct (identifier, md5[:8]) pairs -/
theorem loadPickset_meta {ct : Coltype} (hct : ct.isMeta = true) (l : List Sig) (v : PVal) :
    v ∈ loadPickset ct (l.map (fun s => PVal.p s.name s.md5)) ↔ ∃ s ∈ l, keyOf s = v := by
  unfold loadPickset
  rw [List.mem_eraseDups, List.mem_filterMap]
  simp only [List.mem_map]
  have hk : ∀ s : Sig, csvValue ct (.p s.name s.md5) = some (keyOf s) := by
    intro s
    cases ct <;> simp [Gen.Coltype.isMeta] at hct <;>
      simp [csvValue, PVal.truthy, keyOf, keyOfW, keyPre, preOf, Gen.preprocessOf, sigAttr, Gen.sigAttrOf, applyPre]
  constructor
  · rintro ⟨raw, ⟨s, hs, rfl⟩, hv⟩
    rw [hk s] at hv
    injection hv with hv
    exact ⟨s, hs, hv⟩
  · rintro ⟨s, hs, rfl⟩
    exact ⟨_, ⟨s, hs, rfl⟩, hk s⟩

theorem hasSig_meta {ct : Coltype} (hct : ct.isMeta = true) (pl : Picklist) (hpl : pl.coltype = ct)
    (hloaded : pl.exactRows = false) (s : Sig) : pl.hasSig s = pl.decide (keyOf s) := by
  unfold Picklist.hasSig Picklist.pre
  rw [hpl, hloaded]
  cases ct <;> simp [Gen.Coltype.isMeta] at hct <;> rfl

end Sm.Select
