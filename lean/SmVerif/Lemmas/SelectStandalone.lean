/-
C12 helper lemmas: StandaloneManifestIndex (CSV and SQLite manifests) — what `signatures()` re-reads through
`manifest.to_picklist()`, and exactly when that is the selection.
-/
import SmVerif.Lemmas.SelectZip

namespace Sm.Select

open Sm.Gen (Coltype)

/-! ### grouping a list by a key is a permutation of it -/

theorem flatMap_congr_mem {α β : Type} {ks : List α} {g h : α → List β} (hgh : ∀ k ∈ ks, g k = h k) :
    ks.flatMap g = ks.flatMap h := by
  induction ks with
  | nil => rfl
  | cons k t ih =>
    simp only [List.flatMap_cons]
    rw [hgh k (List.mem_cons_self ..), ih (fun k' hk' => hgh k' (List.mem_cons_of_mem _ hk'))]

/-- grouping `xs` by the key `f` along any list of keys covering `xs` (duplicates in the key list ignored, keys without
    members contributing nothing) is a permutation of `xs` -/
theorem group_perm_sup {α : Type} (f : α → Nat) (ks : List Nat) (xs : List α) (hcov : ∀ x ∈ xs, f x ∈ ks) :
    (ks.eraseDups.flatMap (fun k => xs.filter (fun x => f x == k))).Perm xs := by
  generalize hn : ks.length = n
  induction n using Nat.strongRecOn generalizing ks xs with
  | _ n ih =>
    cases ks with
    | nil =>
      cases xs with
      | nil => simp
      | cons a t => exact absurd (hcov a (List.mem_cons_self ..)) (by simp)
    | cons k t =>
      rw [List.eraseDups_cons, List.flatMap_cons]
      let xs' := xs.filter (fun x => !(f x == k))
      let t' := t.filter (fun b => !b == k)
      have htail : t'.eraseDups.flatMap (fun k' => xs.filter (fun x => f x == k'))
          = t'.eraseDups.flatMap (fun k' => xs'.filter (fun x => f x == k')) := by
        apply flatMap_congr_mem
        intro k' hk'
        have hk'' : k' ∈ t' := List.mem_eraseDups.mp hk'
        have hne : k' ≠ k := by
          have := (List.mem_filter.mp hk'').2
          simpa using this
        simp only [xs', List.filter_filter]
        apply List.filter_congr
        intro y _
        by_cases hy : f y = k'
        · simp [hy, hne]
        · simp [hy]
      rw [htail]
      have hcov' : ∀ x ∈ xs', f x ∈ t' := by
        intro x hx
        have hx' := List.mem_filter.mp hx
        have hne : f x ≠ k := by simpa using hx'.2
        rcases List.mem_cons.mp (hcov x hx'.1) with h | h
        · exact absurd h hne
        · exact List.mem_filter.mpr ⟨h, by simp [hne]⟩
      have hlen : t'.length < n := by
        rw [← hn]
        exact Nat.lt_succ_of_le (List.length_filter_le _ _)
      have ih' := ih t'.length hlen t' xs' hcov' rfl
      refine (List.Perm.append_left _ ih').trans ?_
      exact List.filter_append_perm _ xs

/-! ### the picklist a manifest turns into -/

/-- what a `manifest`-type picklist compares: (identifier, md5[:8]) -/
def keyOf (s : Sig) : PVal := applyPre (preOf .manifest) (sigAttr .manifest s)

def rowKey (r : Row) : PVal := applyPre (preOf .manifest) (rowRaw .manifest r)

theorem rowKey_mkRow (s : Sig) (loc : Nat) : rowKey (mkRow s loc) = keyOf s := rowRaw_pre_eq .manifest s loc

theorem mapE_total {α β : Type} {f : α → Except Err β} {g : α → β} (h : ∀ x, f x = .ok (g x)) (l : List α) :
    mapE f l = .ok (l.map g) := by
  induction l with
  | nil => rfl
  | cons x t ih => simp [mapE, h x, ih]

theorem toPicklist_total (rows : List Row) :
    toPicklist rows = .ok { id := 0, coltype := .manifest, exclude := false, pickset := (rows.map rowKey).eraseDups } := by
  unfold toPicklist
  rw [mapE_total (g := rowKey) (fun r => rowValue_total .manifest r)]

/-- membership of a signature in the picklist made from `rows` -/
theorem manifestPicklist_hasSig (rows : List Row) (s : Sig) :
    (Picklist.hasSig { id := 0, coltype := .manifest, exclude := false, pickset := (rows.map rowKey).eraseDups } s)
      = (rows.map rowKey).contains (keyOf s) := by
  simp only [Picklist.hasSig, Picklist.decide, keyOf, Bool.false_eq_true, if_false]
  rw [Bool.eq_iff_iff]
  simp only [List.contains_iff_mem]
  exact List.mem_eraseDups

theorem loadViaPicklist_total (pl : Picklist) (locs : List Nat) (store : Store) :
    loadViaPicklist pl locs store = .ok (locs.flatMap (fun loc => (store.load loc).filter pl.hasSig)) := by
  induction locs with
  | nil => rfl
  | cons loc t ih =>
    unfold loadViaPicklist
    rw [filterE_ok_of_forall (f := pl.hasSig) (fun s _ => matchesRow_total pl s loc), ih]
    rfl

/-! ### a standalone manifest over files holding several signatures each -/

/-- rows were made from the signatures of the files they point to; a file holds the signatures of its rows, in order -/
structure SmiOk (rs : List (Row × Sig)) (store : Store) : Prop where
  rows : ∀ x ∈ rs, x.1 = mkRow x.2 x.1.loc
  files : ∀ loc, store.load loc = (rs.filter (fun x => x.1.loc == loc)).map (·.2)

/-- some selected row points into this file -/
def listed (sub : List (Row × Sig)) (loc : Nat) : Bool := sub.any (fun u => u.1.loc == loc)

/-- some selected row has this signature's (identifier, md5[:8]) -/
def keyIn (sub : List (Row × Sig)) (s : Sig) : Bool := sub.any (fun u => keyOf u.2 == keyOf s)

theorem contains_rowKeys {rs sub : List (Row × Sig)} (hrows : ∀ x ∈ rs, x.1 = mkRow x.2 x.1.loc)
    (hsub : ∀ x ∈ sub, x ∈ rs) (s : Sig) :
    ((sub.map (·.1)).map rowKey).contains (keyOf s) = keyIn sub s := by
  rw [Bool.eq_iff_iff]
  simp only [List.contains_iff_mem, List.mem_map, keyIn, List.any_eq_true, beq_iff_eq]
  constructor
  · rintro ⟨r, ⟨x, hx, rfl⟩, hk⟩
    refine ⟨x, hx, ?_⟩
    rw [hrows x (hsub x hx), rowKey_mkRow] at hk
    exact hk
  · rintro ⟨x, hx, hk⟩
    refine ⟨x.1, ⟨x, hx, rfl⟩, ?_⟩
    rw [hrows x (hsub x hx), rowKey_mkRow]
    exact hk

/-- what `StandaloneManifestIndex.signatures()` yields for the sub-manifest `sub` of `rs`: every file a selected row
    points into, filtered by (identifier, md5[:8]) ∈ the selected rows' -/
theorem smi_signatures {rs sub : List (Row × Sig)} {store : Store} (hok : SmiOk rs store)
    (hsub : ∀ x ∈ sub, x ∈ rs) :
    (Coll.smi (sub.map (·.1)) store).signatures =
      .ok ((locations (sub.map (·.1))).flatMap (fun loc =>
        ((rs.filter (fun x => x.1.loc == loc)).map (·.2)).filter (keyIn sub))) := by
  simp only [Coll.signatures, toPicklist_total, loadViaPicklist_total]
  congr 1
  apply flatMap_congr_mem
  intro loc _
  rw [hok.files loc]
  apply List.filter_congr
  intro s _
  rw [manifestPicklist_hasSig, contains_rowKeys hok.rows hsub]

/-- the selection `rs.filter P` is what is re-read iff no deselected signature of a listed file shares
    (identifier, md5[:8]) with a selected one -/
def SmiExact (rs : List (Row × Sig)) (P : Row × Sig → Bool) : Prop :=
  ∀ t ∈ rs, listed (rs.filter P) t.1.loc = true → keyIn (rs.filter P) t.2 = true → P t = true

theorem smi_mem_signatures {rs : List (Row × Sig)} {store : Store} (hok : SmiOk rs store) (P : Row × Sig → Bool)
    {l : List Sig} (hl : (Coll.smi ((rs.filter P).map (·.1)) store).signatures = .ok l) (s : Sig) :
    s ∈ l ↔ ∃ t ∈ rs, t.2 = s ∧ listed (rs.filter P) t.1.loc = true ∧ keyIn (rs.filter P) s = true := by
  rw [smi_signatures hok (fun x hx => (List.mem_filter.mp hx).1)] at hl
  injection hl with hl
  subst hl
  simp only [List.mem_flatMap, List.mem_filter, List.mem_map, locations]
  constructor
  · rintro ⟨loc, hloc, ⟨t, ⟨ht, htl⟩, rfl⟩, hk⟩
    refine ⟨t, ht, rfl, ?_, hk⟩
    have hloc' := List.mem_eraseDups.mp hloc
    simp only [List.mem_map] at hloc'
    obtain ⟨r, ⟨u, hu, rfl⟩, hr⟩ := hloc'
    simp only [listed, List.any_eq_true]
    refine ⟨u, hu, ?_⟩
    simp only [beq_iff_eq] at htl ⊢
    rw [hr, htl]
  · rintro ⟨t, ht, rfl, hlist, hk⟩
    simp only [listed, List.any_eq_true, beq_iff_eq] at hlist
    obtain ⟨u, hu, hul⟩ := hlist
    refine ⟨t.1.loc, ?_, ⟨t, ⟨ht, by simp⟩, rfl⟩, hk⟩
    apply List.mem_eraseDups.mpr
    simp only [List.mem_map]
    exact ⟨u.1, ⟨u, hu, rfl⟩, hul⟩

/-- re-reading the files of the locations `L` by (identifier, md5[:8]) ∈ the selected rows': a permutation of the
    selection, as soon as `L` covers the selected rows and no deselected signature of a file in `L` shares its key with
    a selected one -/
theorem reload_exact {rs : List (Row × Sig)} {store : Store} (hok : SmiOk rs store) (P : Row × Sig → Bool)
    (L : List Nat) (hL : ∀ x ∈ rs.filter P, x.1.loc ∈ L)
    (hex : ∀ t ∈ rs, t.1.loc ∈ L → keyIn (rs.filter P) t.2 = true → P t = true) :
    (L.eraseDups.flatMap (fun loc => (store.load loc).filter (keyIn (rs.filter P)))).Perm
      ((rs.filter P).map (·.2)) := by
  have hfile : ∀ loc ∈ L.eraseDups,
      (store.load loc).filter (keyIn (rs.filter P))
        = (((rs.filter P).filter (fun x => x.1.loc == loc))).map (·.2) := by
    intro loc hloc
    have hlocL : loc ∈ L := List.mem_eraseDups.mp hloc
    rw [hok.files loc, List.filter_map, List.filter_filter, List.filter_filter]
    congr 1
    apply List.filter_congr
    intro t ht
    simp only [Function.comp]
    by_cases hl : t.1.loc = loc
    · subst hl
      simp only [beq_self_eq_true, Bool.and_true, Bool.true_and]
      cases hp : P t with
      | true =>
        simp only [keyIn, List.any_eq_true, beq_iff_eq]
        exact ⟨t, List.mem_filter.mpr ⟨ht, hp⟩, rfl⟩
      | false =>
        cases hk : keyIn (rs.filter P) t.2 with
        | false => rfl
        | true => rw [hex t ht hlocL hk] at hp; cases hp
    · have : (t.1.loc == loc) = false := by simp [hl]
      simp [this]
  rw [flatMap_congr_mem hfile]
  have := (group_perm_sup (fun x : Row × Sig => x.1.loc) L (rs.filter P) hL).map (·.2)
  rw [List.map_flatMap] at this
  exact this

theorem smi_signatures_exact {rs : List (Row × Sig)} {store : Store} (hok : SmiOk rs store) (P : Row × Sig → Bool)
    (hex : SmiExact rs P) :
    ∃ l, (Coll.smi ((rs.filter P).map (·.1)) store).signatures = .ok l ∧ l.Perm ((rs.filter P).map (·.2)) := by
  refine ⟨_, smi_signatures hok (fun x hx => (List.mem_filter.mp hx).1), ?_⟩
  have hfiles : ∀ loc, (rs.filter (fun x => x.1.loc == loc)).map (·.2) = store.load loc := fun loc => (hok.files loc).symm
  simp only [hfiles, locations, List.map_map]
  apply reload_exact hok P
  · intro x hx
    exact List.mem_map.mpr ⟨x, hx, rfl⟩
  · intro t ht hloc hk
    apply hex t ht _ hk
    obtain ⟨u, hu, hul⟩ := List.mem_map.mp hloc
    simp only [listed, List.any_eq_true, beq_iff_eq]
    exact ⟨u, hu, hul⟩

/-- necessity: if every re-read signature is a selected one then the selection is `SmiExact`
    (for a selection that judges signatures, `P x = p x.2`) -/
theorem smi_exact_of_sound {rs : List (Row × Sig)} {store : Store} (hok : SmiOk rs store) (p : Sig → Bool)
    {l : List Sig} (hl : (Coll.smi ((rs.filter (fun x => p x.2)).map (·.1)) store).signatures = .ok l)
    (hsound : ∀ s ∈ l, p s = true) : SmiExact rs (fun x => p x.2) := by
  intro t ht hlist hk
  exact hsound t.2 ((smi_mem_signatures hok _ hl t.2).mpr ⟨t, ht, rfl, hlist, hk⟩)

/-- a simple sufficient condition: no two rows of the whole manifest share (identifier, md5[:8]) -/
theorem smiExact_of_distinct_keys {rs : List (Row × Sig)} (P : Row × Sig → Bool)
    (hd : ∀ t ∈ rs, ∀ u ∈ rs, keyOf t.2 = keyOf u.2 → t = u) : SmiExact rs P := by
  intro t ht _ hk
  simp only [keyIn, List.any_eq_true, beq_iff_eq] at hk
  obtain ⟨u, hu, huk⟩ := hk
  have hu' := List.mem_filter.mp hu
  have := hd t ht u hu'.1 huk.symm
  rw [this]
  exact hu'.2

end Sm.Select
