/-
C12 helper lemmas: StandaloneManifestIndex (CSV and SQLite manifests) — what `signatures()` re-reads through
`manifest.to_picklist()`, and exactly when that is the selection.
-/
import SmVerif.Lemmas.SelectZip

namespace Sm.Select

open Sm.Gen (Coltype PreFn)

/-! ### grouping a list by a key is a permutation of it -/

theorem flatMap_congr_mem {α β : Type} {ks : List α} {g h : α → List β} (hgh : ∀ k ∈ ks, g k = h k) :
    ks.flatMap g = ks.flatMap h := by
  induction ks with
  | nil => rfl
  | cons k t ih =>
    simp only [List.flatMap_cons]
    rw [hgh k (List.mem_cons_self ..), ih (fun k' hk' => hgh k' (List.mem_cons_of_mem _ hk'))]

/-- grouping `xs` by the key `f` along any list of keys covering `xs` (duplicates in the key list ignored, keys without
    members contributing nothing) is a permutation of `xs` -/
theorem group_perm_sup {α : Type} (f : α → Nat) (ks : List Nat) (xs : List α) (hcov : ∀ x ∈ xs, f x ∈ ks) :
    (ks.eraseDups.flatMap (fun k => xs.filter (fun x => f x == k))).Perm xs := by
  generalize hn : ks.length = n
  induction n using Nat.strongRecOn generalizing ks xs with
  | _ n ih =>
    cases ks with
    | nil =>
      cases xs with
      | nil => simp
      | cons a t => exact absurd (hcov a (List.mem_cons_self ..)) (by simp)
    | cons k t =>
      rw [List.eraseDups_cons, List.flatMap_cons]
      let xs' := xs.filter (fun x => !(f x == k))
      let t' := t.filter (fun b => !b == k)
      have htail : t'.eraseDups.flatMap (fun k' => xs.filter (fun x => f x == k'))
          = t'.eraseDups.flatMap (fun k' => xs'.filter (fun x => f x == k')) := by
        apply flatMap_congr_mem
        intro k' hk'
        have hk'' : k' ∈ t' := List.mem_eraseDups.mp hk'
        have hne : k' ≠ k := by
          have := (List.mem_filter.mp hk'').2
          simpa using this
        simp only [xs', List.filter_filter]
        apply List.filter_congr
        intro y _
        by_cases hy : f y = k'
        · simp [hy, hne]
        · simp [hy]
      rw [htail]
      have hcov' : ∀ x ∈ xs', f x ∈ t' := by
        intro x hx
        have hx' := List.mem_filter.mp hx
        have hne : f x ≠ k := by simpa using hx'.2
        rcases List.mem_cons.mp (hcov x hx'.1) with h | h
        · exact absurd h hne
        · exact List.mem_filter.mpr ⟨h, by simp [hne]⟩
      have hlen : t'.length < n := by
        rw [← hn]
        exact Nat.lt_succ_of_le (List.length_filter_le _ _)
      have ih' := ih t'.length hlen t' xs' hcov' rfl
      refine (List.Perm.append_left _ ih').trans ?_
      exact List.filter_append_perm _ xs

/-! ### the picklist a manifest turns into

`e` = the variant of `to_picklist()`: `true` = identity preprocessing, full (name, md5) (fix cff7217);
`false` = the `manifest` column type's preprocessing, (identifier, md5[:8]). -/

def keyPre (e : Bool) : PreFn := if e then PreFn.pair [] [] else preOf .manifest

/-- what the derived picklist compares for a signature -/
def keyOfW (e : Bool) (s : Sig) : PVal := applyPre (keyPre e) (sigAttr .manifest s)

/-- … and holds for a row -/
def rowKeyW (e : Bool) (r : Row) : PVal := applyPre (keyPre e) (rowRaw .manifest r)

/-- what a `manifest`-type picklist loaded from a CSV compares: (identifier, md5[:8]) -/
def keyOf (s : Sig) : PVal := keyOfW false s

theorem rowKeyW_mkRow (e : Bool) (s : Sig) (loc : Nat) : rowKeyW e (mkRow s loc) = keyOfW e s := by
  simp [rowKeyW, keyOfW, rowRaw, Gen.rowKeyOf, sigAttr, Gen.sigAttrOf, mkRow]

theorem keyOfW_true (s : Sig) : keyOfW true s = .p s.name s.md5 := by
  rfl

theorem keyOfW_true_eq_iff (s t : Sig) : keyOfW true s = keyOfW true t ↔ s.name = t.name ∧ s.md5 = t.md5 := by
  rw [keyOfW_true, keyOfW_true]
  simp

theorem mapE_total {α β : Type} {f : α → Except Err β} {g : α → β} (h : ∀ x, f x = .ok (g x)) (l : List α) :
    mapE f l = .ok (l.map g) := by
  induction l with
  | nil => rfl
  | cons x t ih => simp [mapE, h x, ih]

/-- the picklist `to_picklist()` makes of `rows` -/
def derivedPicklist (e : Bool) (rows : List Row) : Picklist :=
  { id := 0, coltype := .manifest, exclude := false, pickset := (rows.map (rowKeyW e)).eraseDups, exactRows := e }

theorem toPicklistWith_total (e : Bool) (rows : List Row) : toPicklistWith e rows = .ok (derivedPicklist e rows) := by
  unfold toPicklistWith
  have hp : (if e = true then PreFn.pair [] [] else preOf .manifest) = keyPre e := rfl
  simp only [hp]
  rw [mapE_total (g := rowKeyW e) (fun r => rowValueP_total (keyPre e) .manifest r)]
  rfl

theorem derivedPicklist_pre (e : Bool) (rows : List Row) : (derivedPicklist e rows).pre = keyPre e := by
  cases e <;> simp [Picklist.pre, derivedPicklist, keyPre, Gen.Coltype.isMeta]

/-- membership of a signature in the picklist made from `rows` -/
theorem derivedPicklist_hasSig (e : Bool) (rows : List Row) (s : Sig) :
    (derivedPicklist e rows).hasSig s = (rows.map (rowKeyW e)).contains (keyOfW e s) := by
  unfold Picklist.hasSig
  rw [derivedPicklist_pre]
  simp only [derivedPicklist, Picklist.decide, keyOfW, Bool.false_eq_true, if_false]
  rw [Bool.eq_iff_iff]
  simp only [List.contains_iff_mem]
  exact List.mem_eraseDups

theorem loadViaPicklist_total (pl : Picklist) (locs : List Nat) (store : Store) :
    loadViaPicklist pl locs store = .ok (locs.flatMap (fun loc => (store.load loc).filter pl.hasSig)) := by
  induction locs with
  | nil => rfl
  | cons loc t ih =>
    unfold loadViaPicklist
    rw [filterE_ok_of_forall (f := pl.hasSig) (fun s _ => matchesRow_total pl s loc), ih]
    rfl

theorem standaloneSignatures_total (e : Bool) (rows : List Row) (locs : List Nat) (store : Store) :
    standaloneSignatures e rows locs store =
      .ok (locs.flatMap (fun loc => (store.load loc).filter (fun s => (rows.map (rowKeyW e)).contains (keyOfW e s)))) := by
  unfold standaloneSignatures
  rw [toPicklistWith_total]
  simp only [loadViaPicklist_total]
  congr 1
  apply flatMap_congr_mem
  intro loc _
  apply List.filter_congr
  intro s _
  exact derivedPicklist_hasSig e rows s

/-! ### a standalone manifest over files holding several signatures each -/

/-- rows were made from the signatures of the files they point to; a file holds the signatures of its rows, in order -/
structure SmiOk (rs : List (Row × Sig)) (store : Store) : Prop where
  rows : ∀ x ∈ rs, x.1 = mkRow x.2 x.1.loc
  files : ∀ loc, store.load loc = (rs.filter (fun x => x.1.loc == loc)).map (·.2)

/-- some selected row points into this file -/
def listed (sub : List (Row × Sig)) (loc : Nat) : Bool := sub.any (fun u => u.1.loc == loc)

/-- some selected row has this signature's key ((name, md5) for `e = true`, (identifier, md5[:8]) for `e = false`) -/
def keyIn (e : Bool) (sub : List (Row × Sig)) (s : Sig) : Bool := sub.any (fun u => keyOfW e u.2 == keyOfW e s)

theorem contains_rowKeys (e : Bool) {rs sub : List (Row × Sig)} (hrows : ∀ x ∈ rs, x.1 = mkRow x.2 x.1.loc)
    (hsub : ∀ x ∈ sub, x ∈ rs) (s : Sig) :
    ((sub.map (·.1)).map (rowKeyW e)).contains (keyOfW e s) = keyIn e sub s := by
  rw [Bool.eq_iff_iff]
  simp only [List.contains_iff_mem, List.mem_map, keyIn, List.any_eq_true, beq_iff_eq]
  constructor
  · rintro ⟨r, ⟨x, hx, rfl⟩, hk⟩
    refine ⟨x, hx, ?_⟩
    rw [hrows x (hsub x hx), rowKeyW_mkRow] at hk
    exact hk
  · rintro ⟨x, hx, hk⟩
    refine ⟨x.1, ⟨x, hx, rfl⟩, ?_⟩
    rw [hrows x (hsub x hx), rowKeyW_mkRow]
    exact hk

/-- what re-reading yields for the sub-manifest `sub` of `rs`: every file a selected row points into, filtered by
    "shares its key with a selected row" -/
theorem smi_signatures_with (e : Bool) {rs sub : List (Row × Sig)} {store : Store} (hok : SmiOk rs store)
    (hsub : ∀ x ∈ sub, x ∈ rs) :
    standaloneSignatures e (sub.map (·.1)) (locations (sub.map (·.1))) store =
      .ok ((locations (sub.map (·.1))).flatMap (fun loc =>
        ((rs.filter (fun x => x.1.loc == loc)).map (·.2)).filter (keyIn e sub))) := by
  rw [standaloneSignatures_total]
  congr 1
  apply flatMap_congr_mem
  intro loc _
  rw [hok.files loc]
  apply List.filter_congr
  intro s _
  exact contains_rowKeys e hok.rows hsub s

theorem smi_signatures {rs sub : List (Row × Sig)} {store : Store} (hok : SmiOk rs store)
    (hsub : ∀ x ∈ sub, x ∈ rs) :
    (Coll.smi (sub.map (·.1)) store).signatures =
      .ok ((locations (sub.map (·.1))).flatMap (fun loc =>
        ((rs.filter (fun x => x.1.loc == loc)).map (·.2)).filter (keyIn Gen.toPicklistExactCsv sub))) :=
  smi_signatures_with _ hok hsub

/-- the selection `rs.filter P` is what is re-read iff no deselected signature of a listed file shares its key with a
    selected one -/
def SmiExact (e : Bool) (rs : List (Row × Sig)) (P : Row × Sig → Bool) : Prop :=
  ∀ t ∈ rs, listed (rs.filter P) t.1.loc = true → keyIn e (rs.filter P) t.2 = true → P t = true

theorem smi_mem_signatures_with (e : Bool) {rs : List (Row × Sig)} {store : Store} (hok : SmiOk rs store)
    (P : Row × Sig → Bool) {l : List Sig}
    (hl : standaloneSignatures e ((rs.filter P).map (·.1)) (locations ((rs.filter P).map (·.1))) store = .ok l) (s : Sig) :
    s ∈ l ↔ ∃ t ∈ rs, t.2 = s ∧ listed (rs.filter P) t.1.loc = true ∧ keyIn e (rs.filter P) s = true := by
  rw [smi_signatures_with e hok (fun x hx => (List.mem_filter.mp hx).1)] at hl
  injection hl with hl
  subst hl
  simp only [List.mem_flatMap, List.mem_filter, List.mem_map, locations]
  constructor
  · rintro ⟨loc, hloc, ⟨t, ⟨ht, htl⟩, rfl⟩, hk⟩
    refine ⟨t, ht, rfl, ?_, hk⟩
    have hloc' := List.mem_eraseDups.mp hloc
    simp only [List.mem_map] at hloc'
    obtain ⟨r, ⟨u, hu, rfl⟩, hr⟩ := hloc'
    simp only [listed, List.any_eq_true]
    refine ⟨u, hu, ?_⟩
    simp only [beq_iff_eq] at htl ⊢
    rw [hr, htl]
  · rintro ⟨t, ht, rfl, hlist, hk⟩
    simp only [listed, List.any_eq_true, beq_iff_eq] at hlist
    obtain ⟨u, hu, hul⟩ := hlist
    refine ⟨t.1.loc, ?_, ⟨t, ⟨ht, by simp⟩, rfl⟩, hk⟩
    apply List.mem_eraseDups.mpr
    simp only [List.mem_map]
    exact ⟨u.1, ⟨u, hu, rfl⟩, hul⟩

theorem smi_mem_signatures {rs : List (Row × Sig)} {store : Store} (hok : SmiOk rs store) (P : Row × Sig → Bool)
    {l : List Sig} (hl : (Coll.smi ((rs.filter P).map (·.1)) store).signatures = .ok l) (s : Sig) :
    s ∈ l ↔ ∃ t ∈ rs, t.2 = s ∧ listed (rs.filter P) t.1.loc = true ∧
      keyIn Gen.toPicklistExactCsv (rs.filter P) s = true :=
  smi_mem_signatures_with _ hok P hl s

/-- re-reading the files of the locations `L` by key ∈ the selected rows' keys: a permutation of the selection, as soon
    as `L` covers the selected rows and no deselected signature of a file in `L` shares its key with a selected one -/
theorem reload_exact (e : Bool) {rs : List (Row × Sig)} {store : Store} (hok : SmiOk rs store) (P : Row × Sig → Bool)
    (L : List Nat) (hL : ∀ x ∈ rs.filter P, x.1.loc ∈ L)
    (hex : ∀ t ∈ rs, t.1.loc ∈ L → keyIn e (rs.filter P) t.2 = true → P t = true) :
    (L.eraseDups.flatMap (fun loc => (store.load loc).filter (keyIn e (rs.filter P)))).Perm
      ((rs.filter P).map (·.2)) := by
  have hfile : ∀ loc ∈ L.eraseDups,
      (store.load loc).filter (keyIn e (rs.filter P))
        = (((rs.filter P).filter (fun x => x.1.loc == loc))).map (·.2) := by
    intro loc hloc
    have hlocL : loc ∈ L := List.mem_eraseDups.mp hloc
    rw [hok.files loc, List.filter_map, List.filter_filter, List.filter_filter]
    congr 1
    apply List.filter_congr
    intro t ht
    simp only [Function.comp]
    by_cases hl : t.1.loc = loc
    · subst hl
      simp only [beq_self_eq_true, Bool.and_true, Bool.true_and]
      cases hp : P t with
      | true =>
        simp only [keyIn, List.any_eq_true, beq_iff_eq]
        exact ⟨t, List.mem_filter.mpr ⟨ht, hp⟩, rfl⟩
      | false =>
        cases hk : keyIn e (rs.filter P) t.2 with
        | false => rfl
        | true => rw [hex t ht hlocL hk] at hp; cases hp
    · have : (t.1.loc == loc) = false := by simp [hl]
      simp [this]
  rw [flatMap_congr_mem hfile]
  have := (group_perm_sup (fun x : Row × Sig => x.1.loc) L (rs.filter P) hL).map (·.2)
  rw [List.map_flatMap] at this
  exact this

theorem smi_signatures_exact_with (e : Bool) {rs : List (Row × Sig)} {store : Store} (hok : SmiOk rs store)
    (P : Row × Sig → Bool) (hex : SmiExact e rs P) :
    ∃ l, standaloneSignatures e ((rs.filter P).map (·.1)) (locations ((rs.filter P).map (·.1))) store = .ok l ∧
      l.Perm ((rs.filter P).map (·.2)) := by
  refine ⟨_, smi_signatures_with e hok (fun x hx => (List.mem_filter.mp hx).1), ?_⟩
  have hfiles : ∀ loc, (rs.filter (fun x => x.1.loc == loc)).map (·.2) = store.load loc := fun loc => (hok.files loc).symm
  simp only [hfiles, locations, List.map_map]
  apply reload_exact e hok P
  · intro x hx
    exact List.mem_map.mpr ⟨x, hx, rfl⟩
  · intro t ht hloc hk
    apply hex t ht _ hk
    obtain ⟨u, hu, hul⟩ := List.mem_map.mp hloc
    simp only [listed, List.any_eq_true, beq_iff_eq]
    exact ⟨u, hu, hul⟩

theorem smi_signatures_exact {rs : List (Row × Sig)} {store : Store} (hok : SmiOk rs store) (P : Row × Sig → Bool)
    (hex : SmiExact Gen.toPicklistExactCsv rs P) :
    ∃ l, (Coll.smi ((rs.filter P).map (·.1)) store).signatures = .ok l ∧ l.Perm ((rs.filter P).map (·.2)) :=
  smi_signatures_exact_with _ hok P hex

/-- necessity: if every re-read signature is a selected one then the selection is `SmiExact`
    (for a selection that judges signatures, `P x = p x.2`) -/
theorem smi_exact_of_sound (e : Bool) {rs : List (Row × Sig)} {store : Store} (hok : SmiOk rs store) (p : Sig → Bool)
    {l : List Sig}
    (hl : standaloneSignatures e ((rs.filter (fun x => p x.2)).map (·.1))
      (locations ((rs.filter (fun x => p x.2)).map (·.1))) store = .ok l)
    (hsound : ∀ s ∈ l, p s = true) : SmiExact e rs (fun x => p x.2) := by
  intro t ht hlist hk
  exact hsound t.2 ((smi_mem_signatures_with e hok _ hl t.2).mpr ⟨t, ht, rfl, hlist, hk⟩)

/-- a simple sufficient condition: no two rows of the whole manifest share the key -/
theorem smiExact_of_distinct_keys (e : Bool) {rs : List (Row × Sig)} (P : Row × Sig → Bool)
    (hd : ∀ t ∈ rs, ∀ u ∈ rs, keyOfW e t.2 = keyOfW e u.2 → t = u) : SmiExact e rs P := by
  intro t ht _ hk
  simp only [keyIn, List.any_eq_true, beq_iff_eq] at hk
  obtain ⟨u, hu, huk⟩ := hk
  have hu' := List.mem_filter.mp hu
  have := hd t ht u hu'.1 huk.symm
  rw [this]
  exact hu'.2

/-- with full (name, md5) keys, exactness is implied by exactness under the short keys (the fix only shrinks the
    exclusion): equal (name, md5) gives equal (identifier, md5[:8]) -/
theorem keyIn_true_imp_false (sub : List (Row × Sig)) (s : Sig) (h : keyIn true sub s = true) : keyIn false sub s = true := by
  simp only [keyIn, List.any_eq_true, beq_iff_eq] at h ⊢
  obtain ⟨u, hu, hk⟩ := h
  refine ⟨u, hu, ?_⟩
  obtain ⟨hn, hm⟩ := (keyOfW_true_eq_iff u.2 s).mp hk
  simp [keyOfW, keyPre, sigAttr, Gen.sigAttrOf, hn, hm]

theorem smiExact_true_of_false {rs : List (Row × Sig)} {P : Row × Sig → Bool} (h : SmiExact false rs P) :
    SmiExact true rs P :=
  fun t ht hl hk => h t ht hl (keyIn_true_imp_false _ _ hk)

end Sm.Select
