/-
C19 helper lemmas, part 8: two-sided, per-lineage bounds on the binary64 tables, the totals, and why the
*strict* tolerance repair (`patches/C19-D18-tolerance-v2.diff`: `f_weighted <= 0` still raises, weighted
remainder unclamped) never rejects a valid gather result when `4·n·W·2^-53 < 1`.

`Bnd2`: after the rows `done` (j of them), the accumulator of lineage `L` is a positive double with
  (K_L/N)(1-u)^j ≤ value ≤ (K_L/N)(1+u)^j,   K_L = hashes of the processed rows under `L`
(same for the weights).  The totals add at most one rounding per lineage.
-/
import SmVerif.Lemmas.TaxFloat
import SmVerif.Lemmas.TaxValid

namespace Sm.Tax

open Sm.F64

set_option linter.unusedSectionVars false
set_option linter.unusedSimpArgs false
variable {ν : Type} [DecidableEq ν] {α : Type}

/-! ### `bump` in closed form, for any arithmetic -/

def keysOf (t : Tbl α ν) : List (Lineage ν) := t.map Prod.fst

def updAcc (A : Arith α) (row : RowV α ν) (a : Acc α) : Acc α :=
  ⟨A.add a.f row.f, A.add a.fw row.fw, a.bp + row.bp⟩

def newAcc (A : Arith α) (row : RowV α ν) : Acc α :=
  ⟨A.add A.zero row.f, A.add A.zero row.fw, row.bp⟩

theorem bump_eq (A : Arith α) (key : Lineage ν) (row : RowV α ν) (t : Tbl α ν) (h : (keysOf t).Nodup) :
    bump A key row t =
      if key ∈ keysOf t then t.map (fun y => if y.1 = key then (y.1, updAcc A row y.2) else y)
      else t ++ [(key, newAcc A row)] := by
  induction t with
  | nil => simp [bump, keysOf, newAcc]
  | cons y t ih =>
    obtain ⟨k, a⟩ := y
    have hnd : k ∉ keysOf t ∧ (keysOf t).Nodup := by simpa [keysOf] using h
    unfold bump
    by_cases hk : k = key
    · subst hk
      have hid : t.map (fun y => if y.1 = k then (y.1, updAcc A row y.2) else y) = t := by
        conv_rhs => rw [← List.map_id t]
        apply List.map_congr_left
        intro y hy
        have : y.1 ≠ k := fun e => hnd.1 (e ▸ List.mem_map_of_mem (f := Prod.fst) hy)
        simp [this]
      have hmem : k ∈ keysOf ((k, a) :: t) := by simp [keysOf]
      rw [if_pos rfl, if_pos hmem, List.map_cons, hid]
      simp [updAcc]
    · rw [if_neg hk, ih hnd.2]
      by_cases hm : key ∈ keysOf t
      · have hmem : key ∈ keysOf ((k, a) :: t) := by
          unfold keysOf at hm ⊢; rw [List.map_cons]; exact List.mem_cons_of_mem _ hm
        rw [if_pos hm, if_pos hmem, List.map_cons]
        simp [hk]
      · have hmem : key ∉ keysOf ((k, a) :: t) := by
          unfold keysOf at hm ⊢; rw [List.map_cons, List.mem_cons]
          rintro (e | e)
          · exact hk e.symm
          · exact hm e
        rw [if_neg hm, if_neg hmem]
        rfl

theorem keysOf_bump (A : Arith α) (key : Lineage ν) (row : RowV α ν) (t : Tbl α ν) (h : (keysOf t).Nodup) :
    keysOf (bump A key row t) = if key ∈ keysOf t then keysOf t else keysOf t ++ [key] := by
  rw [bump_eq A key row t h]
  by_cases hm : key ∈ keysOf t
  · rw [if_pos hm, if_pos hm]
    unfold keysOf
    rw [List.map_map]
    apply List.map_congr_left
    intro y _
    by_cases hy : y.1 = key <;> simp [hy]
  · rw [if_neg hm, if_neg hm]
    unfold keysOf
    rw [List.map_append]
    rfl

theorem keysOf_bump_nodup (A : Arith α) (key : Lineage ν) (row : RowV α ν) (t : Tbl α ν) (h : (keysOf t).Nodup) :
    (keysOf (bump A key row t)).Nodup := by
  rw [keysOf_bump A key row t h]
  by_cases hm : key ∈ keysOf t
  · simp [hm, h]
  · simp only [hm, if_false]
    rw [List.nodup_append]
    refine ⟨h, by simp, ?_⟩
    intro a ha b hb
    simp at hb
    subst hb
    intro hab; subst hab; exact hm ha

/-- the keys of a rank's table (and their order) do not depend on the arithmetic -/
theorem keysOf_foldl_congr {β : Type} (A : Arith α) (B : Arith β) (r : Nat) (rows : List (GRow ν))
    (mkA : GRow ν → RowV α ν) (mkB : GRow ν → RowV β ν) (hA : ∀ x, (mkA x).lin = x.lin) (hB : ∀ x, (mkB x).lin = x.lin)
    (tA : Tbl α ν) (tB : Tbl β ν) (hk : keysOf tA = keysOf tB) (hnd : (keysOf tA).Nodup) :
    keysOf ((rows.map mkA).foldl (fun t row => if counted row r then bump A (popTo row.lin r) row t else t) tA) =
    keysOf ((rows.map mkB).foldl (fun t row => if counted row r then bump B (popTo row.lin r) row t else t) tB) ∧
    (keysOf ((rows.map mkA).foldl (fun t row => if counted row r then bump A (popTo row.lin r) row t else t) tA)).Nodup := by
  induction rows generalizing tA tB with
  | nil => exact ⟨hk, hnd⟩
  | cons x rows ih =>
    simp only [List.map_cons, List.foldl_cons]
    have cA : counted (mkA x) r = (hasLineage x.lin && filledAt x.lin r) := by unfold counted; rw [hA]
    have cB : counted (mkB x) r = (hasLineage x.lin && filledAt x.lin r) := by unfold counted; rw [hB]
    by_cases hc : (hasLineage x.lin && filledAt x.lin r) = true
    · rw [cA, cB]
      simp only [hc, if_true, hA, hB]
      apply ih
      · rw [keysOf_bump A _ _ tA hnd, keysOf_bump B _ _ tB (hk ▸ hnd), hk]
      · exact keysOf_bump_nodup A _ _ tA hnd
    · rw [cA, cB]
      simp only [hc]
      exact ih tA tB hk hnd

/-! ### processed sums per lineage -/

/-- hashes / weight of the rows `done` summarised under `L` at rank `r` -/
def kU (r : Nat) (done : List (GRow ν)) (L : Lineage ν) : Nat :=
  ksum (done.filter (under (fun K => decide (K = L)) r))
def wU (r : Nat) (done : List (GRow ν)) (L : Lineage ν) : Nat :=
  wsum (done.filter (under (fun K => decide (K = L)) r))

theorem kU_snoc (r : Nat) (done : List (GRow ν)) (x : GRow ν) (L : Lineage ν) :
    kU r (done ++ [x]) L = kU r done L + (if under (fun K => decide (K = L)) r x then x.k else 0) := by
  unfold kU ksum
  rw [List.filter_append, List.map_append, List.sum_append]
  by_cases h : under (fun K => decide (K = L)) r x <;> simp [h]

theorem wU_snoc (r : Nat) (done : List (GRow ν)) (x : GRow ν) (L : Lineage ν) :
    wU r (done ++ [x]) L = wU r done L + (if under (fun K => decide (K = L)) r x then x.w else 0) := by
  unfold wU wsum
  rw [List.filter_append, List.map_append, List.sum_append]
  by_cases h : under (fun K => decide (K = L)) r x <;> simp [h]

/-! ### arithmetic of the lower bounds -/

theorem lbound_mono (N S j : Nat) (x : ℚ) (h : (S : ℚ) / N * (1 - u) ^ j ≤ x) :
    ((S + 0 : Nat) : ℚ) / N * (1 - u) ^ (j + 1) ≤ x := by
  have hu := u_pos
  have h1 := one_sub_u_pow_nonneg j
  have hu1 : u ≤ 1 := by unfold u; rw [div_le_one (by positivity)]; norm_num
  have h2 : (0 : ℚ) ≤ (S : ℚ) / N := by positivity
  have : (1 - u) ^ (j + 1) ≤ (1 - u) ^ j := by rw [pow_succ]; nlinarith
  simp only [Nat.add_zero]
  exact le_trans (mul_le_mul_of_nonneg_left this h2) h

theorem lbound_new (N k j : Nat) (x : ℚ) (h : (k : ℚ) / N * (1 - u) ≤ x) :
    ((0 + k : Nat) : ℚ) / N * (1 - u) ^ (j + 1) ≤ x := by
  have hu := u_pos
  have hu1 : u ≤ 1 := by unfold u; rw [div_le_one (by positivity)]; norm_num
  have h1 := one_sub_u_pow_le_one j
  have h0 := one_sub_u_pow_nonneg j
  have h2 : (0 : ℚ) ≤ (k : ℚ) / N := by positivity
  have : (1 - u) ^ (j + 1) ≤ (1 - u) := by rw [pow_succ]; nlinarith
  simp only [Nat.zero_add]
  exact le_trans (mul_le_mul_of_nonneg_left this h2) h

theorem lbound_add (N S k j : Nat) (hj : 1 ≤ j) (a d s : ℚ) (ha : (S : ℚ) / N * (1 - u) ^ j ≤ a)
    (hd : (k : ℚ) / N * (1 - u) ≤ d) (hs : (a + d) * (1 - u) ≤ s) :
    ((S + k : Nat) : ℚ) / N * (1 - u) ^ (j + 1) ≤ s := by
  have hu := u_pos
  have hu1 : u ≤ 1 := by unfold u; rw [div_le_one (by positivity)]; norm_num
  have h1 : (1 - u) ^ j ≤ (1 - u) := by
    obtain ⟨i, rfl⟩ : ∃ i, j = i + 1 := ⟨j - 1, by omega⟩
    have := one_sub_u_pow_le_one i
    have := one_sub_u_pow_nonneg i
    rw [pow_succ]; nlinarith
  have hk : (0 : ℚ) ≤ (k : ℚ) / N := by positivity
  have hd' : (k : ℚ) / N * (1 - u) ^ j ≤ d := le_trans (mul_le_mul_of_nonneg_left h1 hk) hd
  have : ((S + k : Nat) : ℚ) / N * (1 - u) ^ j ≤ a + d := by
    push_cast
    rw [add_div, add_mul]
    linarith
  calc ((S + k : Nat) : ℚ) / N * (1 - u) ^ (j + 1) = (((S + k : Nat) : ℚ) / N * (1 - u) ^ j) * (1 - u) := by
        rw [pow_succ]; ring
    _ ≤ (a + d) * (1 - u) := mul_le_mul_of_nonneg_right this (by linarith)
    _ ≤ s := hs

/-- a double within the two-sided bound for `K/N` after `j` roundings -/
def Within (K N j : Nat) (x : SF) : Prop :=
  PosD x ∧ (K : ℚ) / N * (1 - u) ^ j ≤ x.a.toQ ∧ x.a.toQ ≤ (K : ℚ) / N * (1 + u) ^ j

theorem within_mono (K N j : Nat) (x : SF) (h : Within K N j x) : Within (K + 0) N (j + 1) x :=
  ⟨h.1, lbound_mono N K j _ h.2.1, bound_mono N K 0 j _ h.2.2⟩

theorem within_new (k N j : Nat) (hk : 0 < k ∧ k ≤ N) :
    Within (0 + k) N (j + 1) (f64.add f64.zero (SF.ofF (divNat k N))) := by
  have e1 : f64.add f64.zero (SF.ofF (divNat k N)) = ⟨false, divNat k N⟩ := by
    show SF.add SF.zero (SF.ofF (divNat k N)) = _
    rw [add_nonneg' _ _ rfl rfl]; simp [fadd, SF.zero, SF.ofF]
  rw [e1]
  exact ⟨⟨rfl, divNat_pos k N hk.1 hk.2⟩, lbound_new N k j _ (divNat_ge k N hk.1 hk.2),
    bound_new N 0 k j _ (divNat_le k N hk.1 hk.2)⟩

theorem within_add (K k N j : Nat) (hj : 1 ≤ j) (hk : 0 < k ∧ k ≤ N) (x : SF) (h : Within K N j x) :
    Within (K + k) N (j + 1) (f64.add x (SF.ofF (divNat k N))) := by
  have e1 : f64.add x (SF.ofF (divNat k N)) = ⟨false, fadd x.a (divNat k N)⟩ := by
    show SF.add x (SF.ofF (divNat k N)) = _
    rw [add_nonneg' _ _ h.1.1 rfl]; rfl
  rw [e1]
  exact ⟨⟨rfl, fadd_pos _ _ (Or.inl h.1.2)⟩,
    lbound_add N K k j hj _ _ _ h.2.1 (divNat_ge k N hk.1 hk.2) (fadd_ge _ _),
    bound_add N K k j hj _ _ _ h.2.2 (divNat_le k N hk.1 hk.2) (fadd_le _ _)⟩

/-! ### the per-lineage invariant -/

def Bnd2 (N W r : Nat) (done : List (GRow ν)) (t : Tbl SF ν) : Prop :=
  (keysOf t).Nodup ∧ (t ≠ [] → 1 ≤ done.length) ∧ t.length ≤ done.length ∧
  (∀ L, L ∉ keysOf t → kU r done L = 0 ∧ wU r done L = 0) ∧
  ∀ x ∈ t, Within (kU r done x.1) N done.length x.2.f ∧ Within (wU r done x.1) W done.length x.2.fw

theorem under_eq_iff (r : Nat) (x : GRow ν) (L : Lineage ν) :
    under (fun K => decide (K = L)) r x = true ↔ (hasLineage x.lin && filledAt x.lin r) = true ∧ popTo x.lin r = L := by
  unfold under; simp

theorem bnd2_step (N W sc r : Nat) (done : List (GRow ν)) (x : GRow ν) (hk : 0 < x.k ∧ x.k ≤ N)
    (hw : 0 < x.w ∧ x.w ≤ W) (t : Tbl SF ν) (h : Bnd2 N W r done t) :
    Bnd2 N W r (done ++ [x])
      (if counted (GRow.toF N W sc x) r then bump f64 (popTo (GRow.toF N W sc x).lin r) (GRow.toF N W sc x) t else t) := by
  obtain ⟨hnd, hj, hlen, hout, hin⟩ := h
  have cx : counted (GRow.toF N W sc x) r = (hasLineage x.lin && filledAt x.lin r) := rfl
  have hlin : (GRow.toF N W sc x).lin = x.lin := rfl
  have hlen' : (done ++ [x]).length = done.length + 1 := by simp
  by_cases hc : (hasLineage x.lin && filledAt x.lin r) = true
  · rw [cx]; simp only [hc, if_true, hlin]
    set key := popTo x.lin r with hkey
    have hund : ∀ L, under (fun K => decide (K = L)) r x = decide (key = L) := by
      intro L; unfold under; simp [hc, hkey]
    have hkU : ∀ L, kU r (done ++ [x]) L = kU r done L + (if key = L then x.k else 0) := by
      intro L; rw [kU_snoc, hund]; simp
    have hwU : ∀ L, wU r (done ++ [x]) L = wU r done L + (if key = L then x.w else 0) := by
      intro L; rw [wU_snoc, hund]; simp
    have hkeys := keysOf_bump f64 key (GRow.toF N W sc x) t hnd
    refine ⟨keysOf_bump_nodup f64 key _ t hnd, fun _ => by omega, ?_, ?_, ?_⟩
    · -- length
      rw [bump_eq f64 key _ t hnd]
      by_cases hm : key ∈ keysOf t <;> simp [hm] <;> omega
    · intro L hL
      rw [hkeys] at hL
      have hLk : key ≠ L := by
        intro e; subst e
        by_cases hm : key ∈ keysOf t <;> simp [hm] at hL
      have hLt : L ∉ keysOf t := by
        by_cases hm : key ∈ keysOf t
        · simpa [hm] using hL
        · simp only [hm, if_false, List.mem_append, not_or] at hL; exact hL.1
      rw [hkU, hwU]; simp [hLk, hout L hLt]
    · rw [bump_eq f64 key _ t hnd, hlen']
      by_cases hm : key ∈ keysOf t
      · simp only [hm, if_true]
        have hj1 : 1 ≤ done.length := hj (by intro e; rw [e] at hm; simp [keysOf] at hm)
        intro y hy
        obtain ⟨z, hz, rfl⟩ := List.mem_map.mp hy
        have hz' := hin z hz
        by_cases hzk : z.1 = key
        · simp only [hzk, if_true]
          rw [hkU, hwU]; simp only [if_true]
          exact ⟨by rw [← hzk]; exact within_add _ _ N _ hj1 hk _ hz'.1,
                 by rw [← hzk]; exact within_add _ _ W _ hj1 hw _ hz'.2⟩
        · simp only [hzk, if_false]
          rw [hkU, hwU]
          have : ¬ key = z.1 := fun e => hzk e.symm
          simp only [this, if_false]
          exact ⟨within_mono _ N _ _ hz'.1, within_mono _ W _ _ hz'.2⟩
      · simp only [hm, if_false]
        intro y hy
        rcases List.mem_append.mp hy with hy | hy
        · have hy' := hin y hy
          have : ¬ key = y.1 := fun e => hm (e ▸ List.mem_map_of_mem (f := Prod.fst) hy)
          rw [hkU, hwU]; simp only [this, if_false]
          exact ⟨within_mono _ N _ _ hy'.1, within_mono _ W _ _ hy'.2⟩
        · simp only [List.mem_singleton] at hy
          subst hy
          rw [hkU, hwU]
          simp only [if_true, (hout key hm).1, (hout key hm).2]
          exact ⟨within_new x.k N _ hk, within_new x.w W _ hw⟩
  · rw [cx]; simp only [hc, Bool.false_eq_true, if_false]
    have hund : ∀ L, under (fun K => decide (K = L)) r x = false := by
      intro L; unfold under; simp [hc]
    have hkU : ∀ L, kU r (done ++ [x]) L = kU r done L + 0 := by intro L; rw [kU_snoc, hund]; simp
    have hwU : ∀ L, wU r (done ++ [x]) L = wU r done L + 0 := by intro L; rw [wU_snoc, hund]; simp
    refine ⟨hnd, fun _ => by rw [hlen']; omega, by rw [hlen']; omega, ?_, ?_⟩
    · intro L hL; rw [hkU, hwU]; simpa using hout L hL
    · intro y hy
      rw [hkU, hwU, hlen']
      exact ⟨within_mono _ N _ _ (hin y hy).1, within_mono _ W _ _ (hin y hy).2⟩

theorem bnd2_foldl (N W sc r : Nat) (rows : List (GRow ν))
    (hk : ∀ x ∈ rows, 0 < x.k ∧ x.k ≤ N) (hw : ∀ x ∈ rows, 0 < x.w ∧ x.w ≤ W)
    (done : List (GRow ν)) (t0 : Tbl SF ν) (h : Bnd2 N W r done t0) :
    Bnd2 N W r (done ++ rows)
      ((rows.map (GRow.toF N W sc)).foldl
        (fun t row => if counted row r then bump f64 (popTo row.lin r) row t else t) t0) := by
  induction rows generalizing done t0 with
  | nil => simpa using h
  | cons x rows ih =>
    simp only [List.map_cons, List.foldl_cons]
    have step := bnd2_step N W sc r done x (hk x (List.mem_cons_self ..)) (hw x (List.mem_cons_self ..)) t0 h
    have := ih (fun y hy => hk y (List.mem_cons_of_mem _ hy)) (fun y hy => hw y (List.mem_cons_of_mem _ hy))
      (done ++ [x]) _ step
    simpa [List.append_assoc] using this

/-- the binary64 table of a rank: per-lineage two-sided bounds -/
theorem tbl_bnd2 (g : Gather ν) (hv : g.Valid) (r : Nat) : Bnd2 g.N g.W r g.rows (sumAtRank f64 g.toF r) := by
  have hk' : ∀ y ∈ g.rows, 0 < y.k ∧ y.k ≤ g.N := fun y hy =>
    ⟨(hv.pos y hy).1, le_trans (le_sum_of_mem _ _ (List.mem_map_of_mem (f := (·.k)) hy)) hv.kle⟩
  have hw' : ∀ y ∈ g.rows, 0 < y.w ∧ y.w ≤ g.W := fun y hy =>
    ⟨(hv.pos y hy).2, le_trans (le_sum_of_mem _ _ (List.mem_map_of_mem (f := (·.w)) hy)) hv.wle⟩
  have h0 : Bnd2 g.N g.W r ([] : List (GRow ν)) ([] : Tbl SF ν) :=
    ⟨by simp [keysOf], fun h => absurd rfl h, by simp, fun L _ => by simp [kU, wU, ksum, wsum],
     fun x hx => by cases hx⟩
  have := bnd2_foldl g.N g.W g.scaled r g.rows hk' hw' [] [] h0
  simpa [sumAtRank, toF_eq] using this

/-! ### sums of the exact per-lineage values over the keys -/

theorem keys_f64_eq_rat (g : Gather ν) (r : Nat) : keysOf (sumAtRank f64 g.toF r) = keysOf (g.tbl r) := by
  unfold Gather.tbl sumAtRank
  rw [toF_eq]
  unfold Gather.toQ
  exact (keysOf_foldl_congr f64 ratA r g.rows (GRow.toF g.N g.W g.scaled) (GRow.toQ g.N g.W g.scaled)
    (fun _ => rfl) (fun _ => rfl) [] [] rfl (by simp [keysOf])).1

theorem sum_keys_k (g : Gather ν) (r : Nat) :
    ((keysOf (g.tbl r)).map (fun L => (kU r g.rows L : ℚ) / g.N)).sum = (g.kAt r : ℚ) / g.N := by
  rw [← tblF_eq]
  unfold tblF keysOf
  rw [List.map_map]
  congr 1
  apply List.map_congr_left
  intro x hx
  simp only [Function.comp]
  exact (entry_f g r x.1 x.2 hx).symm

theorem sum_keys_w (g : Gather ν) (r : Nat) :
    ((keysOf (g.tbl r)).map (fun L => (wU r g.rows L : ℚ) / g.W)).sum = (g.wAt r : ℚ) / g.W := by
  rw [← tblFw_eq]
  unfold tblFw keysOf
  rw [List.map_map]
  congr 1
  apply List.map_congr_left
  intro x hx
  simp only [Function.comp]
  exact (entry_fw g r x.1 x.2 hx).symm

/-! ### float totals -/

/-- a left fold of `fadd` over doubles `v b` with `q b·lo ≤ v b ≤ q b·hi` -/
theorem fsum_bounds {β : Type} (v : β → F) (q : β → ℚ) (lo hi : ℚ) (hlo : 0 ≤ lo) (hhi : 0 ≤ hi) (l : List β)
    (h : ∀ b ∈ l, 0 ≤ q b ∧ q b * lo ≤ (v b).toQ ∧ (v b).toQ ≤ q b * hi)
    (acc : F) (Q0 : ℚ) (j0 : Nat) (hQ0 : 0 ≤ Q0)
    (ha : Q0 * lo * (1 - u) ^ j0 ≤ acc.toQ ∧ acc.toQ ≤ Q0 * hi * (1 + u) ^ j0) :
    (Q0 + (l.map q).sum) * lo * (1 - u) ^ (j0 + l.length) ≤ (l.foldl (fun a b => fadd a (v b)) acc).toQ ∧
    (l.foldl (fun a b => fadd a (v b)) acc).toQ ≤ (Q0 + (l.map q).sum) * hi * (1 + u) ^ (j0 + l.length) := by
  have hu := u_pos
  have hu1 : u ≤ 1 := by unfold u; rw [div_le_one (by positivity)]; norm_num
  induction l generalizing acc Q0 j0 with
  | nil => simpa using ha
  | cons b l ih =>
    simp only [List.foldl_cons, List.map_cons, List.sum_cons, List.length_cons]
    have hb := h b (List.mem_cons_self ..)
    have hl : ∀ c ∈ l, 0 ≤ q c ∧ q c * lo ≤ (v c).toQ ∧ (v c).toQ ≤ q c * hi :=
      fun c hc => h c (List.mem_cons_of_mem _ hc)
    have hle1 := one_sub_u_pow_le_one j0
    have hnn1 := one_sub_u_pow_nonneg j0
    have hge1 := one_le_one_add_u_pow j0
    have step : (Q0 + q b) * lo * (1 - u) ^ (j0 + 1) ≤ (fadd acc (v b)).toQ ∧
        (fadd acc (v b)).toQ ≤ (Q0 + q b) * hi * (1 + u) ^ (j0 + 1) := by
      constructor
      · have h1 : (Q0 + q b) * lo * (1 - u) ^ j0 ≤ acc.toQ + (v b).toQ := by
          have : q b * lo * (1 - u) ^ j0 ≤ q b * lo := by
            have : 0 ≤ q b * lo := mul_nonneg hb.1 hlo
            nlinarith
          nlinarith [ha.1, hb.2.1]
        calc (Q0 + q b) * lo * (1 - u) ^ (j0 + 1) = ((Q0 + q b) * lo * (1 - u) ^ j0) * (1 - u) := by rw [pow_succ]; ring
          _ ≤ (acc.toQ + (v b).toQ) * (1 - u) := mul_le_mul_of_nonneg_right h1 (by linarith)
          _ ≤ _ := fadd_ge _ _
      · have h1 : acc.toQ + (v b).toQ ≤ (Q0 + q b) * hi * (1 + u) ^ j0 := by
          have : q b * hi ≤ q b * hi * (1 + u) ^ j0 := by
            have : 0 ≤ q b * hi := mul_nonneg hb.1 hhi
            nlinarith
          nlinarith [ha.2, hb.2.2]
        calc (fadd acc (v b)).toQ ≤ (acc.toQ + (v b).toQ) * (1 + u) := fadd_le _ _
          _ ≤ ((Q0 + q b) * hi * (1 + u) ^ j0) * (1 + u) := mul_le_mul_of_nonneg_right h1 (by linarith)
          _ = _ := by rw [pow_succ]; ring
    have := ih hl (fadd acc (v b)) (Q0 + q b) (j0 + 1) (by linarith [hb.1]) step
    have e1 : Q0 + q b + (l.map q).sum = Q0 + (q b + (l.map q).sum) := by ring
    have e2 : j0 + 1 + l.length = j0 + (l.length + 1) := by omega
    rw [e1, e2] at this
    exact this

theorem totalF_as_fsum (s : Tbl SF ν) (h : ∀ x ∈ s, x.2.f.neg = false) :
    totalF f64 s = ⟨false, s.foldl (fun a x => fadd a x.2.f.a) ⟨0, 0⟩⟩ := by
  unfold totalF
  have : ∀ (acc : F), s.foldl (fun a x => f64.add a x.2.f) ⟨false, acc⟩ = ⟨false, s.foldl (fun a x => fadd a x.2.f.a) acc⟩ := by
    induction s with
    | nil => intro acc; rfl
    | cons x s ih =>
      intro acc
      simp only [List.foldl_cons]
      have hx := h x (List.mem_cons_self ..)
      have : f64.add ⟨false, acc⟩ x.2.f = ⟨false, fadd acc x.2.f.a⟩ := by
        show SF.add _ _ = _
        rw [add_nonneg' _ _ rfl hx]
      rw [this]
      exact ih (fun y hy => h y (List.mem_cons_of_mem _ hy)) _
  exact this ⟨0, 0⟩

theorem totalFw_as_fsum (s : Tbl SF ν) (h : ∀ x ∈ s, x.2.fw.neg = false) :
    totalFw f64 s = ⟨false, s.foldl (fun a x => fadd a x.2.fw.a) ⟨0, 0⟩⟩ := by
  unfold totalFw
  have : ∀ (acc : F), s.foldl (fun a x => f64.add a x.2.fw) ⟨false, acc⟩ = ⟨false, s.foldl (fun a x => fadd a x.2.fw.a) acc⟩ := by
    induction s with
    | nil => intro acc; rfl
    | cons x s ih =>
      intro acc
      simp only [List.foldl_cons]
      have hx := h x (List.mem_cons_self ..)
      have : f64.add ⟨false, acc⟩ x.2.fw = ⟨false, fadd acc x.2.fw.a⟩ := by
        show SF.add _ _ = _
        rw [add_nonneg' _ _ rfl hx]
      rw [this]
      exact ih (fun y hy => h y (List.mem_cons_of_mem _ hy)) _
  exact this ⟨0, 0⟩

theorem isZero_false_of_posD (x : SF) (h : PosD x) : f64.isZero x = false := by
  unfold Arith.isZero
  have : f64.lt f64.zero x = true := by
    show SF.lt SF.zero x = true
    rw [lt_nonneg _ _ rfl h.1, zero_toQ]; exact toQ_pos _ h.2
  simp [this]

theorem nonzero_of_posD (t : Tbl SF ν) (h : ∀ x ∈ t, PosD x.2.f) : nonzero f64 t = t := by
  unfold nonzero
  rw [List.filter_eq_self]
  intro x hx
  simp [isZero_false_of_posD _ (h x hx)]

/-- **the float totals of a rank** (over the sorted table): within `(1±u)^(2n)` of the exact `K_r/N`, `W_r/W` -/
theorem totals_bounds (g : Gather ν) (hv : g.Valid) (r : Nat) :
    let s := nonzero f64 (sortDesc f64 (sumAtRank f64 g.toF r))
    (totalF f64 s).neg = false ∧ (totalFw f64 s).neg = false ∧
    (g.kAt r : ℚ) / g.N * (1 - u) ^ (2 * g.rows.length) ≤ (totalF f64 s).a.toQ ∧
    (totalF f64 s).a.toQ ≤ (g.kAt r : ℚ) / g.N * (1 + u) ^ (2 * g.rows.length) ∧
    (totalFw f64 s).a.toQ ≤ (g.wAt r : ℚ) / g.W * (1 + u) ^ (2 * g.rows.length) := by
  intro s
  have hu := u_pos
  have hu1 : u ≤ 1 := by unfold u; rw [div_le_one (by positivity)]; norm_num
  obtain ⟨hnd, _, hlen, _, hin⟩ := tbl_bnd2 g hv r
  set t := sumAtRank f64 g.toF r with ht
  have hperm := sortDesc_perm f64 t
  have hs : s = sortDesc f64 t := by
    apply nonzero_of_posD
    intro x hx
    exact (hin x (hperm.mem_iff.mp hx)).1.1
  have hmem : ∀ x ∈ s, x ∈ t := fun x hx => hperm.mem_iff.mp (hs ▸ hx)
  have hslen : s.length ≤ g.rows.length := by rw [hs, hperm.length_eq]; exact hlen
  set n := g.rows.length with hn
  rw [totalF_as_fsum s (fun x hx => (hin x (hmem x hx)).1.1.1),
      totalFw_as_fsum s (fun x hx => (hin x (hmem x hx)).2.1.1)]
  refine ⟨rfl, rfl, ?_⟩
  -- sums of the exact values over s
  have hsumk : (s.map (fun x => (kU r g.rows x.1 : ℚ) / g.N)).sum = (g.kAt r : ℚ) / g.N := by
    rw [hs, (hperm.map _).sum_eq, ← sum_keys_k, ← keys_f64_eq_rat]
    unfold keysOf; rw [List.map_map]; rfl
  have hsumw : (s.map (fun x => (wU r g.rows x.1 : ℚ) / g.W)).sum = (g.wAt r : ℚ) / g.W := by
    rw [hs, (hperm.map _).sum_eq, ← sum_keys_w, ← keys_f64_eq_rat]
    unfold keysOf; rw [List.map_map]; rfl
  have hlo : (0 : ℚ) ≤ (1 - u) ^ n := one_sub_u_pow_nonneg n
  have hhi : (0 : ℚ) ≤ (1 + u) ^ n := by positivity
  have bk := fsum_bounds (fun x : Lineage ν × Acc SF => x.2.f.a) (fun x => (kU r g.rows x.1 : ℚ) / g.N)
    ((1 - u) ^ n) ((1 + u) ^ n) hlo hhi s
    (fun x hx => ⟨by positivity, (hin x (hmem x hx)).1.2.1, (hin x (hmem x hx)).1.2.2⟩)
    ⟨0, 0⟩ 0 0 (le_refl _) (by simp [F.toQ])
  have bw := fsum_bounds (fun x : Lineage ν × Acc SF => x.2.fw.a) (fun x => (wU r g.rows x.1 : ℚ) / g.W)
    ((1 - u) ^ n) ((1 + u) ^ n) hlo hhi s
    (fun x hx => ⟨by positivity, (hin x (hmem x hx)).2.2.1, (hin x (hmem x hx)).2.2.2⟩)
    ⟨0, 0⟩ 0 0 (le_refl _) (by simp [F.toQ])
  simp only [zero_add, hsumk, hsumw] at bk bw
  have hkq : (0 : ℚ) ≤ (g.kAt r : ℚ) / g.N := by positivity
  have hwq : (0 : ℚ) ≤ (g.wAt r : ℚ) / g.W := by positivity
  -- (1±u)^(n + |s|) versus (1±u)^(2n)
  have e2n : 2 * n = n + s.length + (n - s.length) := by omega
  have hup : (1 + u) ^ n * (1 + u) ^ s.length ≤ (1 + u) ^ (2 * n) := by
    rw [e2n, pow_add, pow_add]
    have := one_le_one_add_u_pow (n - s.length)
    have : (0 : ℚ) ≤ (1 + u) ^ n * (1 + u) ^ s.length := by positivity
    nlinarith
  have hdown : (1 - u) ^ (2 * n) ≤ (1 - u) ^ n * (1 - u) ^ s.length := by
    rw [e2n, pow_add, pow_add]
    have h1 := one_sub_u_pow_le_one (n - s.length)
    have h2 := one_sub_u_pow_nonneg (n - s.length)
    have : (0 : ℚ) ≤ (1 - u) ^ n * (1 - u) ^ s.length :=
      mul_nonneg (one_sub_u_pow_nonneg n) (one_sub_u_pow_nonneg s.length)
    nlinarith
  refine ⟨?_, ?_, ?_⟩
  · calc (g.kAt r : ℚ) / g.N * (1 - u) ^ (2 * n) ≤ (g.kAt r : ℚ) / g.N * ((1 - u) ^ n * (1 - u) ^ s.length) :=
          mul_le_mul_of_nonneg_left hdown hkq
      _ = (g.kAt r : ℚ) / g.N * (1 - u) ^ n * (1 - u) ^ s.length := by ring
      _ ≤ _ := bk.1
  · calc _ ≤ (g.kAt r : ℚ) / g.N * (1 + u) ^ n * (1 + u) ^ s.length := bk.2
      _ = (g.kAt r : ℚ) / g.N * ((1 + u) ^ n * (1 + u) ^ s.length) := by ring
      _ ≤ _ := mul_le_mul_of_nonneg_left hup hkq
  · calc _ ≤ (g.wAt r : ℚ) / g.W * (1 + u) ^ n * (1 + u) ^ s.length := bw.2
      _ = (g.wAt r : ℚ) / g.W * ((1 + u) ^ n * (1 + u) ^ s.length) := by ring
      _ ≤ _ := mul_le_mul_of_nonneg_left hup hwq

/-! ### `1.0 - T`, sharply -/

/-- subtraction of two non-negative doubles: sign and a one-sided bound -/
theorem subF_spec (x y : F) :
    (y.toQ ≤ x.toQ → (SF.subF x y).neg = false ∧ (SF.subF x y).a.toQ ≤ (x.toQ - y.toQ) * (1 + u) ∧
      (y.toQ < x.toQ → 0 < (SF.subF x y).a.m)) ∧
    (x.toQ < y.toQ → (SF.subF x y).neg = true) := by
  have hL := toQ_alignL x y
  have hR := toQ_alignR x y
  have hp := two_zpow_pos (min x.e y.e)
  have hiff : alignL x y ≥ alignR x y ↔ y.toQ ≤ x.toQ := by
    rw [hL, hR]
    constructor
    · intro h; exact mul_le_mul_of_nonneg_right (by exact_mod_cast h) (le_of_lt hp)
    · intro h; have := le_of_mul_le_mul_right h hp; exact_mod_cast this
  constructor
  · intro hle
    have hge := hiff.mpr hle
    unfold SF.subF
    rw [if_pos hge]
    refine ⟨rfl, ?_, ?_⟩
    · show (roundNat (alignL x y - alignR x y) (min x.e y.e)).toQ ≤ _
      have hr := roundNat_le (alignL x y - alignR x y) (min x.e y.e)
      have hc : ((alignL x y - alignR x y : Nat) : ℚ) = (alignL x y : ℚ) - (alignR x y : ℚ) := by
        rw [Nat.cast_sub hge]
      rw [hc] at hr
      calc _ ≤ ((alignL x y : ℚ) - (alignR x y : ℚ)) * 2 ^ (min x.e y.e) * (1 + u) := hr
        _ = (x.toQ - y.toQ) * (1 + u) := by rw [hL, hR]; ring
    · intro hlt
      show 0 < (roundNat (alignL x y - alignR x y) (min x.e y.e)).m
      apply roundNat_pos
      have : alignR x y < alignL x y := by
        by_contra hcon
        have hle' : alignL x y ≤ alignR x y := by omega
        have : x.toQ ≤ y.toQ := by
          rw [hL, hR]; exact mul_le_mul_of_nonneg_right (by exact_mod_cast hle') (le_of_lt hp)
        linarith
      omega
  · intro hlt
    have : ¬ alignL x y ≥ alignR x y := fun h => by have := hiff.mp h; linarith
    unfold SF.subF
    rw [if_neg this]

theorem one_sub_eq (T : SF) (hT : T.neg = false) : f64.sub f64.one T = SF.subF SF.one.a T.a := by
  show SF.sub SF.one T = _
  unfold SF.sub SF.add
  simp [SF.one, hT]

end Sm.Tax
