/-
num sketches: for a removal-free history the sketch is the first `num`
entries of the unbounded sketch fed the same additions.
-/
import SmVerif.Lemmas.MinHashMerge

namespace Sm

open MH

/-! ### `take` against the positional edits -/

theorem lowerBound_take (h : Nat) : ∀ (l : List Nat) (n : Nat),
    lowerBound (l.take n) h = min (lowerBound l h) n := by
  intro l
  induction l with
  | nil => intro n; simp
  | cons x xs ih =>
    intro n
    cases n with
    | zero => simp
    | succ n =>
      rw [List.take_succ_cons, lowerBound_cons, lowerBound_cons, ih]
      split <;> omega

theorem take_succ_insertIdx {α} (x : α) : ∀ (p n : Nat) (l : List α), p ≤ n →
    (l.insertIdx p x).take (n + 1) = (l.take n).insertIdx p x := by
  intro p
  induction p with
  | zero => intro n l _; simp
  | succ p ih =>
    intro n l hp
    cases n with
    | zero => omega
    | succ n =>
      cases l with
      | nil => simp
      | cons y ys => simp [List.insertIdx_succ_cons, ih n ys (by omega)]

theorem take_insertIdx_of_le {α} (x : α) : ∀ (n p : Nat) (l : List α), n ≤ p →
    (l.insertIdx p x).take n = l.take n := by
  intro n
  induction n with
  | zero => intro p l _; simp
  | succ n ih =>
    intro p l hp
    cases p with
    | zero => omega
    | succ p =>
      cases l with
      | nil => simp
      | cons y ys => simp [List.insertIdx_succ_cons, ih p ys (by omega)]

theorem take_modify_of_le {α} (f : α → α) (n p : Nat) (l : List α) (h : n ≤ p) :
    (l.modify p f).take n = l.take n := by
  rw [List.take_modify]
  apply List.modify_eq_self
  rw [List.length_take]; omega

theorem U64MAX_ne_zero : U64MAX ≠ 0 := by decide

/-! ### the unbounded reference sketch -/

theorem pairs_addHashAb_unbounded {u : MH} (hu : Inv u) (hun : u.num = 0) (hM : u.maxHash ≠ 0)
    {h a : Nat} (hle : h ≤ u.maxHash) (ha : 0 < a) :
    (u.addHashAb h a).pairs =
      if u.mins[lowerBound u.mins h]? = some h then
        (if u.trackAbundance then u.pairs.modify (lowerBound u.mins h) (fun q => (q.1, q.2 + a))
         else u.pairs)
      else u.pairs.insertIdx (lowerBound u.mins h) (h, stored u a) := by
  rw [addHashAb_eq hu (Or.inl hun)]
  have c1 : ¬ (h > u.maxHash ∧ u.maxHash ≠ 0) := by omega
  have c2 : ¬ (u.num = 0 ∧ u.maxHash = 0) := fun hc => hM hc.2
  have c3 : ¬ a = 0 := by omega
  have c4 : u.mins = [] ∨ h ≤ u.maxHash ∨ h ≤ lastOr u.mins U64MAX ∨ u.mins.length < u.num :=
    Or.inr (Or.inl hle)
  have c5 : ¬ (u.num ≠ 0 ∧ u.mins.length + 1 > u.num) := fun hc => hc.1 hun
  rw [if_neg c1, if_neg c2, if_neg c3, if_pos c4, if_neg c5]
  split
  · exact pairs_modAt u _ a
  · exact pairs_insAt hu.toW _ h a

/-- For a removal-free history a num sketch is the first `num` entries of the
unbounded sketch `u` fed the same addition. -/
theorem num_add_take' {s u : MH} (hs : Inv s) (hu : Inv u)
    (hn : s.num ≠ 0) (hsM : s.maxHash = 0) (hun : u.num = 0) (huM : u.maxHash = U64MAX)
    (htr : s.trackAbundance = u.trackAbundance)
    (hrep : s.pairs = u.pairs.take s.num) (h a : Nat) (ha : 0 < a) (hh : h ≤ U64MAX) :
    (s.addHashAb h a).pairs = (u.addHashAb h a).pairs.take s.num := by
  have hst : stored s a = stored u a := by unfold stored; rw [htr]
  have hKs : s.mins = u.mins.take s.num := by
    have := congrArg (List.map Prod.fst) hrep
    rwa [List.map_take, pairs_keys hs.toW, pairs_keys hu.toW] at this
  have hlb : lowerBound s.mins h = min (lowerBound u.mins h) s.num := by
    rw [hKs]; exact lowerBound_take h _ _
  have hlenP := pairs_length hu.toW
  have hlens : s.mins.length = min s.num u.mins.length := by
    rw [hKs, List.length_take]
  -- the reference side
  rw [pairs_addHashAb_unbounded hu hun (by rw [huM]; exact U64MAX_ne_zero) (by rw [huM]; exact hh) ha]
  -- the num side
  rw [addHashAb_eq hs (Or.inr hsM)]
  have c1 : ¬ (h > s.maxHash ∧ s.maxHash ≠ 0) := fun hc => hc.2 hsM
  have c2 : ¬ (s.num = 0 ∧ s.maxHash = 0) := fun hc => hn hc.1
  have c3 : ¬ a = 0 := by omega
  rw [if_neg c1, if_neg c2, if_neg c3]
  have hne_of_full : s.mins.length = s.num → s.mins ≠ [] := by
    intro hl he; rw [he] at hl; simp at hl; omega
  by_cases hlt : s.mins.length < s.num
  · -- (I) the num sketch is not full: both sketches are the same vectors
    have hPlen : u.pairs.length < s.num := by omega
    have hPeq : s.pairs = u.pairs := by rw [hrep, List.take_of_length_le (by omega)]
    have hKeq : s.mins = u.mins := by rw [hKs, List.take_of_length_le (by omega)]
    have c4 : s.mins = [] ∨ h ≤ s.maxHash ∨ h ≤ lastOr s.mins U64MAX ∨ s.mins.length < s.num :=
      Or.inr (Or.inr (Or.inr hlt))
    have c5 : ¬ (s.num ≠ 0 ∧ s.mins.length + 1 > s.num) := by omega
    rw [if_pos c4, if_neg c5, ← hKeq]
    split
    · rw [pairs_modAt, htr, hPeq]
      apply (List.take_of_length_le _).symm
      split
      · rw [List.length_modify]; omega
      · omega
    · rw [pairs_insAt hs.toW, hPeq, hst]
      apply (List.take_of_length_le _).symm
      rw [List.length_insertIdx]
      split <;> omega
  · -- (II) the num sketch is full
    have hfull : s.mins.length = s.num := by have := hs.capped hn; omega
    have hKlen : s.num ≤ u.mins.length := by omega
    have hne := hne_of_full hfull
    by_cases hall : ∀ y ∈ s.mins, y < h
    · -- (IIa) `h` is beyond the last retained hash: the num sketch ignores it
      have hpos : ¬ h ≤ 0 := by
        obtain ⟨y, ys, hy⟩ := List.exists_cons_of_ne_nil hne
        have := hall y (by rw [hy]; simp)
        omega
      have c4 : ¬ (s.mins = [] ∨ h ≤ s.maxHash ∨ h ≤ lastOr s.mins U64MAX ∨
          s.mins.length < s.num) := by
        rintro (hc | hc | hc | hc)
        · exact hne hc
        · rw [hsM] at hc; exact hpos hc
        · exact not_le_lastOr_of_all_lt hne hall _ hc
        · exact hlt hc
      rw [if_neg c4, hrep]
      have hpu : s.num ≤ lowerBound u.mins h := by
        have := lowerBound_eq_length_iff.2 hall
        omega
      split
      · split
        · exact (take_modify_of_le _ _ _ _ hpu).symm
        · rfl
      · exact (take_insertIdx_of_le _ _ _ _ hpu).symm
    · -- (IIb) `h` lands inside the retained range
      have c4 : s.mins = [] ∨ h ≤ s.maxHash ∨ h ≤ lastOr s.mins U64MAX ∨ s.mins.length < s.num :=
        Or.inr (Or.inr (Or.inl (le_lastOr_of_not_all_lt hs.sorted hall _)))
      have c5 : s.num ≠ 0 ∧ s.mins.length + 1 > s.num := ⟨hn, by omega⟩
      have hps : lowerBound s.mins h < s.num := by
        have h1 := lowerBound_le_length s.mins h
        have h2 : lowerBound s.mins h ≠ s.mins.length := fun hc =>
          hall (lowerBound_eq_length_iff.1 hc)
        omega
      have hpeq : lowerBound u.mins h = lowerBound s.mins h := by omega
      have hget : s.mins[lowerBound s.mins h]? = u.mins[lowerBound s.mins h]? := by
        rw [hKs, List.getElem?_take, if_pos (by rw [← hKs]; exact hps)]
      rw [if_pos c4, if_pos c5, hpeq, ← hget]
      split
      · rw [pairs_modAt, htr, hrep]
        split
        · exact (List.take_modify _ _ _ _).symm
        · rfl
      · rename_i hnf
        have hW := invW_insAt hs.toW hnf ha (fun hc => absurd hsM hc)
        rw [pairs_dropL hW, pairs_insAt hs.toW, hrep, hst,
          ← take_succ_insertIdx _ _ _ _ (Nat.le_of_lt hps), List.dropLast_eq_take,
          List.take_take, List.length_take, List.length_insertIdx]
        congr 1
        have := lowerBound_le_length s.mins h
        rw [if_pos (by omega)]
        omega

end Sm
