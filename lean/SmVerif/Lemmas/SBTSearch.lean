/-
`search` (`_find_nodes` with the bounded `_NodesCache` and `unload_data=True`), `_fill_up`, a full
`save`/`load` and further insertions against the Cover invariant, for both variants of `Node.unload`
(`keep = true`: the current source, which keeps the filter of a node updated since it was loaded;
`keep = false`: the older one) and every variant of `add_node` / `_rebuild_node`.

Files: `SBTSearchCore` (tree effects, T1, soundness, completeness), `SBTSearchFill` (full save + load, `_fill_up`),
`SBTSearchTotal` (a search does not raise), `SBTSearchIns` (what `add_node` does to `MinPos` / `MinSome` / the
node cache), and this file (everything about insertion-built trees, `Searchable`, the headline).

* T1 `findLoop_preserves`, `search_preserves` (+ `_present` forms): a search keeps Base / Cover / `CleanV keep` and
  the leaves, for every cache bound, cache content and query (repaired `_rebuild_node`, or nothing missing, or
  everything listed as missing present).  With `keep = true` no cleanliness is needed.
* T2 `search_sound` (no hypotheses), `search_complete` / `search_complete_gen` (needs `MinPos`: no node records
  `min_n_below = 0`; `search_incomplete_minN_zero` is the counterexample without it), and for insertion-built
  trees `search_complete_reach`, `search_complete_reach_loaded` with no side condition.
* `search_ok`: when every position listed as missing is present (`AllPresent`), the cache is sane and every node
  records a `min_n_below`, `search` does not raise (`findFuel` suffices); `Searchable keep`, `search_exact`,
  `reach_searchable`, `reach_loaded_searchable` put it together.  All of it for the three score types (Jaccard,
  containment, max-containment) and for a query at the tree's scaled or coarser (`search_exact_all_kinds`;
  `oldNodeOk_prunes_match`: without the `subj_size = 1` repair a coarser query prunes a matching leaf).
* `searchable_of_insInv` (bridge from the insertion invariant; needs `MinSome`, which `InsInv` does not imply:
  `insInv_not_searchable`), `addNode_searchable`, and the headline `search_after_insert_into_loaded`.
* T3 `insInv_after_full_load`, `insert_after_full_load`.
* T4 `fillUp_graph_preserves`, `fillUp_min_preserves` (no side condition needed).
-/
import SmVerif.Lemmas.SBTSearchCore
import SmVerif.Lemmas.SBTSearchFill
import SmVerif.Lemmas.SBTSearchTotal
import SmVerif.Lemmas.SBTSearchIns

namespace Sm.SBT

open Sm.NG

/-! ### completeness on insertion-built trees, without side conditions -/

/-- **completeness on insertion-built trees**: no hypothesis beyond "built by insertions" -/
theorem search_complete_reach {fixed keep : Bool} {d : Nat} {sizes : List Nat} {t : Tree} (hd : 2 ≤ d) (hsz : SizesOK sizes)
    (hr : Reach d sizes t) (q : Query) {ls : List Leaf} (hres : (search fixed keep t q).2 = .ok ls)
    {p : Nat} {l : Leaf} (hl : t.leaves.get? p = some l) (hp : leafPasses q l = true) : l ∈ ls := by
  obtain ⟨⟨hb, hc, _⟩, _, _, hm⟩ := reach_inv hd hsz hr
  exact search_complete_gen q hb hc (CleanV.of_clean (reach_clean hr)) (reach_minpos hr)
    (Or.inr (allPresent_of_nomissing hm)) hres hl hp

/-- **completeness on insertion-built trees after a full save + load** (index versions 4-6) -/
theorem search_complete_reach_loaded {fixed fixed' keep : Bool} {d : Nat} {sizes : List Nat} {t t' : Tree} (hd : 2 ≤ d)
    (hsz : SizesOK sizes) (hr : Reach d sizes t) {ver : Nat} (cm : Option Nat) (hv : ver ≠ 3)
    (hload : load fixed' (save t (fun _ => false)) ver cm = .ok t')
    (q : Query) {ls : List Leaf} (hres : (search fixed keep t' q).2 = .ok ls)
    {p : Nat} {l : Leaf} (hl : t.leaves.get? p = some l) (hp : leafPasses q l = true) : l ∈ ls := by
  obtain ⟨hinv, _, _⟩ := reach_inv hd hsz hr
  obtain ⟨⟨hb', hc', _⟩, hcl', hle, hm, _⟩ := insInv_after_full_load cm hv hinv hload
  exact search_complete_gen q hb' hc' (CleanV.of_clean hcl') (load_save_minpos _ cm hv (reach_minpos hr) hload)
    (Or.inr (allPresent_of_nomissing hm)) hres (by rw [hle]; exact hl) hp

/-! ### why `search_complete` needs `MinPos` -/

/-- **counterexample to completeness without `MinPos`**: a one-leaf tree in insertion shape, `Base`, `Cover`,
`Clean`, whose root records `min_n_below = 0` (allowed by `Holds`, which only bounds it from above).  The leaf
`{5}` matches the Jaccard query `{5}` exactly, yet `search` (either `unload`, either `_rebuild_node`) returns
nothing: the root test is `shared / 0`. -/
theorem search_incomplete_minN_zero :
    ∃ (t : Tree) (q : Query) (l : Leaf), Base t ∧ Cover t ∧ Clean t ∧ Shape t 1 1 ∧
      t.leaves.get? 1 = some l ∧ leafPasses q l = true ∧
      ∀ keep : Bool, (search false keep t q).2 = .ok [] ∧ (search true keep t q).2 = .ok [] := by
  let n : INode := ⟨some ((NG.new [3] 1).addMany [5]), none, false, some 0⟩
  let l : Leaf := ⟨0, [5]⟩
  let t : Tree := ⟨2, [3], [(0, n)], [(1, l)], [], 2, none, []⟩
  have hsz : SizesOK [3] := by intro s hs; simp at hs; omega
  have hnode : ∀ p m, t.nodes.get? p = some m → p = 0 ∧ m = n := by
    intro p m h
    have h' : PMap.get? [(0, n)] p = some m := h
    rw [PMap.get?_cons, PMap.get?_nil] at h'
    split at h'
    · rename_i hp; cases h'; exact ⟨hp.symm, rfl⟩
    · cases h'
  refine ⟨t, ⟨false, 100, [5], false, none⟩, l, ⟨by decide, hsz, ?_⟩, (cover_iff_coverB _).mpr (by decide), ?_, ?_, rfl, by decide,
    ?_⟩
  · intro p m h
    obtain ⟨_, rfl⟩ := hnode p m h
    refine ⟨?_, fun g hg => by cases hg⟩
    intro g hg
    cases hg
    exact ⟨addMany_wf (new_wf hsz 1) _, by rw [addMany_sizes, new_sizes]⟩
  · intro p m h hst
    obtain ⟨_, rfl⟩ := hnode p m h
    cases hst
  · refine ⟨Nat.le_refl _, Nat.le_refl _, by decide, ?_, ?_, fun a ha => by cases ha⟩
    · intro p
      show (PMap.get? [(0, n)] p).isSome = true ↔ p < 1
      rw [PMap.get?_cons, PMap.get?_nil]
      split <;> simp <;> omega
    · intro p
      show (PMap.get? [(1, l)] p).isSome = true ↔ (1 ≤ p ∧ p ≤ 1)
      rw [PMap.get?_cons, PMap.get?_nil]
      split <;> simp <;> omega
  · intro keep
    cases keep
    · exact ⟨by rfl, by rfl⟩
    · exact ⟨by rfl, by rfl⟩

/-! ### the whole picture: trees on which `search` is total and exact, closed under `search` and `add_node` -/

/-- everything `search` needs to return exactly the passing leaves; kept by `search` itself -/
structure Searchable (keep : Bool) (t : Tree) : Prop where
  base : Base t
  cover : Cover t
  clean : CleanV keep t
  minPos : MinPos t
  minSome : MinSome t
  cacheOK : CacheOK t
  allPresent : AllPresent t

/-- **search is total and exact on a searchable tree, and leaves a searchable tree with the same leaves**
(any cache bound, any cache state reached by earlier searches, any query, either `_rebuild_node`, either `unload`) -/
theorem search_exact {fixed keep : Bool} {t : Tree} (h : Searchable keep t) (q : Query) :
    Searchable keep (search fixed keep t q).1 ∧ (search fixed keep t q).1.leaves = t.leaves ∧
    ∃ ls, (search fixed keep t q).2 = .ok ls ∧
      ∀ l, l ∈ ls ↔ (leafPasses q l = true ∧ ∃ p, t.leaves.get? p = some l) := by
  obtain ⟨⟨ls, hls⟩, hsafe⟩ := search_ok (fixed := fixed) (keep := keep) h.allPresent h.cacheOK h.minSome q
  have hstep : Step keep t (search fixed keep t q).1 :=
    findLoop_step (fixed := fixed) (keep := keep) q t.findFuel t [] [0] [] (Or.inr h.allPresent)
  obtain ⟨hb, hc, hcl⟩ := hstep.good ⟨h.base, h.cover, h.clean⟩
  refine ⟨⟨hb, hc, hcl, hstep.minpos h.minPos, hsafe.minSome h.minSome, hsafe.cache h.cacheOK,
    hsafe.allPresent h.allPresent⟩, hstep.frame.leaves, ls, hls, ?_⟩
  intro l
  constructor
  · exact search_sound q l hls
  · rintro ⟨hp, p, hl⟩
    exact search_complete_gen q h.base h.cover h.clean h.minPos (Or.inr h.allPresent) hls hl hp

/-- **pruning is sound for every score type and for coarser queries**: `search_exact` spelled out for Jaccard
(`c = m = false`), containment (`c = true`), max-containment (`m = true`), a query at the tree's scaled
(`cut = none`) or coarser (`cut = some max_hash`) -/
theorem search_exact_all_kinds {fixed keep : Bool} {t : Tree} (h : Searchable keep t) (c m : Bool) (thr : Nat)
    (mins : List Nat) (cut : Option Nat) :
    ∃ ls, (search fixed keep t ⟨c, thr, mins, m, cut⟩).2 = .ok ls ∧
      ∀ l, l ∈ ls ↔ (leafPasses ⟨c, thr, mins, m, cut⟩ l = true ∧ ∃ p, t.leaves.get? p = some l) :=
  (search_exact (fixed := fixed) h ⟨c, thr, mins, m, cut⟩).2.2

/-- the node test without the `subj_size = 1` repair for a coarser query: `min_n_below`, counted at the tree's
scaled, is used as the subject size -/
def oldNodeOk (q : Query) (sizes : List Nat) (n : INode) (m : Nat) : Bool :=
  passes q ((n.data sizes).matchCount q.mins) (denomOf q m m)

/-- a decidable form of `r = .ok ls` (`Except` has no `DecidableEq`) -/
def okIs (r : Except Err (List Leaf)) (ls : List Leaf) : Bool :=
  match r with
  | .ok x => decide (x = ls)
  | .error _ => false

theorem okIs_eq {r : Except Err (List Leaf)} {ls : List Leaf} (h : okIs r ls = true) : r = .ok ls := by
  cases r with
  | error e => cases h
  | ok x =>
    simp only [okIs, decide_eq_true_eq] at h
    rw [h]

/-- **a coarser query without the `subj_size = 1` repair would be unsound**: the leaf `{5, 20}` under a root that
covers it and records `min_n_below = 2`; the Jaccard query `{5}` at threshold 1.0, coarser than the tree
(`max_hash = 10`).  The leaf is scored downsampled, `{5}`: 1/1, it passes.  The older node test scores the root
1/2 < 1.0 and prunes it; the repaired test scores it 1/1, and `search` reports the leaf. -/
theorem oldNodeOk_prunes_match :
    ∃ (t : Tree) (n : INode) (q : Query) (l : Leaf), t.nodes.get? 0 = some n ∧ t.leaves.get? 1 = some l ∧
      Base t ∧ Cover t ∧ Holds t.sizes n l ∧ n.minN = some 2 ∧ leafPasses q l = true ∧
      oldNodeOk q t.sizes n 2 = false ∧ nodeOk q t.sizes n 2 = true ∧
      ∀ fixed keep : Bool, (search fixed keep t q).2 = .ok [l] := by
  let n : INode := ⟨some ((NG.new [3] 1).addMany [5, 20]), none, false, some 2⟩
  let l : Leaf := ⟨0, [5, 20]⟩
  let t : Tree := ⟨2, [3], [(0, n)], [(1, l)], [], 2, none, []⟩
  have hsz : SizesOK [3] := by intro s hs; simp at hs; omega
  have hnode : ∀ p m, t.nodes.get? p = some m → p = 0 ∧ m = n := by
    intro p m h
    have h' : PMap.get? [(0, n)] p = some m := h
    rw [PMap.get?_cons, PMap.get?_nil] at h'
    split at h'
    · rename_i hp; cases h'; exact ⟨hp.symm, rfl⟩
    · cases h'
  refine ⟨t, n, ⟨false, 1000, [5], false, some 10⟩, l, rfl, rfl, ⟨by decide, hsz, ?_⟩,
    (cover_iff_coverB _).mpr (by decide), ⟨by decide, 2, rfl, by decide⟩, rfl, by decide, by decide, by decide, ?_⟩
  · intro p m h
    obtain ⟨_, rfl⟩ := hnode p m h
    refine ⟨?_, fun g hg => by cases hg⟩
    intro g hg
    cases hg
    exact ⟨addMany_wf (new_wf hsz 1) _, by rw [addMany_sizes, new_sizes]⟩
  · intro fixed keep
    cases fixed <;> cases keep <;> (apply okIs_eq; decide)

/-- the insertion invariant gives `AllPresent`: whatever `_missing_nodes` still lists is a present internal node -/
theorem allPresent_of_insInv {t : Tree} (h : InsInv t) : AllPresent t := by
  rcases h.2.2 with he | ⟨m, M, hs⟩
  · exact allPresent_of_nomissing he.2.2
  · exact hs.allPresent

/-- **the bridge from the insertion invariant**.  Added hypothesis: `MinSome t`.  It is part of the conclusion, so it
is necessary, and `InsInv` does not imply it: `Shape` allows internal nodes with no leaf below them, which `Cover`
does not constrain (`insInv_not_searchable`).  `searchable_of_insInv_low` derives it from the extra shape fact
`LowInv` that insertions maintain; `addNode_minSome` carries it through insertions. -/
theorem searchable_of_insInv {keep : Bool} {t : Tree} (h : InsInv t) (hms : MinSome t) (hmp : MinPos t) (hco : CacheOK t)
    (hcl : CleanV keep t) : Searchable keep t :=
  ⟨h.1, h.2.1, hcl, hmp, hms, hco, allPresent_of_insInv h⟩

/-- the bridge with `MinSome` derived: every internal node of a `LowInv` tree has a leaf below it, hence `Holds`
some leaf, hence records a `min_n_below` -/
theorem searchable_of_insInv_low {keep : Bool} {t : Tree} (h : InsInv t) (hlow : LowInv t) (hmp : MinPos t)
    (hco : CacheOK t) (hcl : CleanV keep t) : Searchable keep t :=
  searchable_of_insInv h (minSome_of_lowInv h.1 h.2.1 hlow) hmp hco hcl

/-- **`searchable_of_insInv` is false without `MinSome`**: `d = 2`, internal nodes 0, 1, 2, one leaf `{5}` at 3 (under
node 1).  Node 2 has no leaf below it and records no `min_n_below`; the tree satisfies `InsInv`, `MinPos`, `CacheOK`,
`Clean`, has nothing missing, and the Jaccard query `{5}` raises "no min_n_below on this tree" at node 2. -/
theorem insInv_not_searchable :
    ∃ (t : Tree) (q : Query), InsInv t ∧ MinPos t ∧ CacheOK t ∧ Clean t ∧ t.missing = [] ∧ ¬ MinSome t ∧
      (∀ keep : Bool, ¬ Searchable keep t) ∧ ∀ fixed keep : Bool, (search fixed keep t q).2 = .error .value := by
  let n : INode := ⟨some ((NG.new [3] 1).addMany [5]), none, false, some 1⟩
  let l : Leaf := ⟨0, [5]⟩
  let t : Tree := ⟨2, [3], [(0, n), (1, n), (2, INode.fresh)], [(3, l)], [], 4, none, []⟩
  have hsz : SizesOK [3] := by intro s hs; simp at hs; omega
  have hnode : ∀ p m, t.nodes.get? p = some m → m = n ∨ m = INode.fresh := by
    intro p m h
    have h' : PMap.get? [(0, n), (1, n), (2, INode.fresh)] p = some m := h
    simp only [PMap.get?_cons, PMap.get?_nil] at h'
    split at h'
    · cases h'; exact Or.inl rfl
    · split at h'
      · cases h'; exact Or.inl rfl
      · split at h'
        · cases h'; exact Or.inr rfl
        · cases h'
  have hnotms : ¬ MinSome t := by
    intro hms
    have := hms 2 INode.fresh rfl
    cases this
  refine ⟨t, ⟨false, 100, [5], false, none⟩, ⟨⟨by decide, hsz, ?_⟩, (cover_iff_coverB _).mpr (by decide), Or.inr ⟨3, 3, ?_⟩⟩,
    ?_, ?_, ?_, rfl, hnotms, fun keep h => hnotms h.minSome, ?_⟩
  · intro p m h
    rcases hnode p m h with rfl | rfl
    · refine ⟨?_, fun g hg => by cases hg⟩
      intro g hg
      cases hg
      exact ⟨addMany_wf (new_wf hsz 1) _, by rw [addMany_sizes, new_sizes]⟩
    · exact fresh_dataOK _
  · refine ⟨by decide, Nat.le_refl _, by decide, ?_, ?_, fun a ha => by cases ha⟩
    · intro p
      show (PMap.get? [(0, n), (1, n), (2, INode.fresh)] p).isSome = true ↔ p < 3
      simp only [PMap.get?_cons, PMap.get?_nil]
      split
      · simp; omega
      · split
        · simp; omega
        · split
          · simp; omega
          · simp; omega
    · intro p
      show (PMap.get? [(3, l)] p).isSome = true ↔ (3 ≤ p ∧ p ≤ 3)
      rw [PMap.get?_cons, PMap.get?_nil]
      split <;> simp <;> omega
  · intro p m h
    rcases hnode p m h with rfl | rfl
    · intro h0; cases h0
    · intro h0; cases h0
  · intro c hc; cases hc
  · intro p m h hst
    rcases hnode p m h with rfl | rfl
    · cases hst
    · cases hst
  · intro fixed keep
    cases fixed <;> cases keep <;> rfl

/-- **insertion keeps a tree searchable** (current `unload`; every variant of `add_node` / `_rebuild_node`) -/
theorem addNode_searchable {fixed pre : Bool} {t t' : Tree} (h : InsInv t) (hs : Searchable true t) {l : Leaf}
    (ha : addNode fixed pre t l = .ok t') : Searchable true t' := by
  obtain ⟨t2, h2, hinv2, _⟩ := addNode_inv (fixed := fixed) (pre := pre) h l
  have : t2 = t' := by rw [h2] at ha; cases ha; rfl
  subst this
  exact searchable_of_insInv hinv2 (addNode_minSome h hs.minSome ha) (addNode_minpos h hs.minPos ha)
    (addNode_cacheOK h hs.cacheOK ha).1 (cleanV_true _)

/-- every tree built by insertions is searchable (either `unload`) -/
theorem reach_searchable {keep : Bool} {d : Nat} {sizes : List Nat} (hd : 2 ≤ d) (hsz : SizesOK sizes) {t : Tree}
    (hr : Reach d sizes t) : Searchable keep t := by
  obtain ⟨hinv, _, _, _⟩ := reach_inv hd hsz hr
  refine searchable_of_insInv hinv (reach_minSome hd hsz hr) (reach_minpos hr) ?_ (CleanV.of_clean (reach_clean hr))
  intro c hc; rw [reach_cache hr] at hc; cases hc

/-- and so is what a full save + load (index versions 4-6, any cache bound) makes of it -/
theorem reach_loaded_searchable {fixed keep : Bool} {d : Nat} {sizes : List Nat} (hd : 2 ≤ d) (hsz : SizesOK sizes)
    {t t' : Tree} (hr : Reach d sizes t) {ver : Nat} (cm : Option Nat) (hv : ver ≠ 3)
    (hload : load fixed (save t (fun _ => false)) ver cm = .ok t') : Searchable keep t' ∧ t'.leaves = t.leaves := by
  obtain ⟨hinv, _, _⟩ := reach_inv hd hsz hr
  obtain ⟨hinv', hcl', hle, _, hcache, _⟩ := insInv_after_full_load cm hv hinv hload
  refine ⟨searchable_of_insInv hinv' (load_save_minSome _ cm hv (reach_minSome hd hsz hr) hload)
    (load_save_minpos _ cm hv (reach_minpos hr) hload) ?_ (CleanV.of_clean hcl'), hle⟩
  intro c hc; rw [hcache] at hc; cases hc

/-! ### the headline for the current source: save, load, insert, search -/

/-- a run of insertions (`pre = true`: the current `add_node` with its repair step) -/
def insAllV (fixed pre : Bool) (t : Tree) : List Leaf → Except Err Tree
  | [] => .ok t
  | l :: ls => do let t ← addNode fixed pre t l; insAllV fixed pre t ls

/-- a run of insertions into an insertion-shaped tree never fails -/
theorem insAllV_ok {fixed pre : Bool} : ∀ (ls : List Leaf) (t : Tree), InsInv t → ∃ t2, insAllV fixed pre t ls = .ok t2 := by
  intro ls
  induction ls with
  | nil => intro t _; exact ⟨t, rfl⟩
  | cons l ls ih =>
    intro t h
    obtain ⟨t1, h1, hinv1, _⟩ := addNode_inv (fixed := fixed) (pre := pre) h l
    obtain ⟨t2, h2⟩ := ih t1 hinv1
    exact ⟨t2, by simp only [insAllV, bind, Except.bind, h1]; exact h2⟩

/-- a run of insertions keeps the insertion invariant and searchability, stores every inserted signature and keeps
every signature stored before -/
theorem insAllV_searchable {fixed pre : Bool} : ∀ (ls : List Leaf) (t t2 : Tree), InsInv t → Searchable true t →
    insAllV fixed pre t ls = .ok t2 →
    InsInv t2 ∧ Searchable true t2 ∧ (∀ l ∈ ls, ∃ p, t2.leaves.get? p = some l) ∧
      (∀ p0 l0, t.leaves.get? p0 = some l0 → ∃ p', t2.leaves.get? p' = some l0) := by
  intro ls
  induction ls with
  | nil =>
    intro t t2 hinv hs h
    simp only [insAllV, Except.ok.injEq] at h
    subst h
    exact ⟨hinv, hs, fun l hl => (by cases hl), fun p0 l0 h0 => ⟨p0, h0⟩⟩
  | cons l ls ih =>
    intro t t2 hinv hs h
    obtain ⟨t1, h1, hinv1, _, _, hl1, hold1⟩ := addNode_inv (fixed := fixed) (pre := pre) hinv l
    simp only [insAllV, bind, Except.bind, h1] at h
    obtain ⟨hinv2, hs2, hnew2, hold2⟩ := ih t1 t2 hinv1 (addNode_searchable hinv hs h1) h
    refine ⟨hinv2, hs2, ?_, ?_⟩
    · intro l' hl'
      rcases List.mem_cons.mp hl' with rfl | hl'
      · obtain ⟨p, hp⟩ := hl1
        exact hold2 p _ hp
      · exact hnew2 l' hl'
    · intro p0 l0 h0
      obtain ⟨p1, hp1⟩ := hold1 p0 l0 h0
      exact hold2 p1 l0 hp1

/-- **the headline for the current source** (`keep = true`): after a full save + load (index versions 4-6, any cache
bound) of an insertion-built tree and ANY list of further insertions (any variant of `add_node`), a search (either
`_rebuild_node`, any query) never raises and returns exactly the linear scan over the signatures now stored; in
particular it finds the newly inserted ones that pass, and it leaves a searchable tree, so it can be repeated.

The same is NOT available for `keep = false` (the older `Node.unload`): an insertion into a loaded tree updates
filters of nodes that have a storage, so the tree is no longer `Clean`; the older `unload` then drops those updated
filters during a search and `Cover` is lost (so a later search can miss the inserted signature).  The concrete
counterexample lives elsewhere (defect D24: two signatures, full save + load, insert a third, search); here it
shows up as `addNode_searchable` being available for `Searchable true` only. -/
theorem search_after_insert_into_loaded {d : Nat} {sizes : List Nat} (hd : 2 ≤ d) (hsz : SizesOK sizes) {t t1 t2 : Tree}
    (hr : Reach d sizes t) {ver : Nat} (cm : Option Nat) (hv : ver ≠ 3) {fixed0 : Bool}
    (hload : load fixed0 (save t (fun _ => false)) ver cm = .ok t1) {fixed pre : Bool} (ls : List Leaf)
    (hins : insAllV fixed pre t1 ls = .ok t2) (fixed' : Bool) (q : Query) :
    Searchable true (search fixed' true t2 q).1 ∧ ∃ res, (search fixed' true t2 q).2 = .ok res ∧
      (∀ l, l ∈ res ↔ (leafPasses q l = true ∧ ∃ p, t2.leaves.get? p = some l)) ∧
      (∀ l ∈ ls, ∃ p, t2.leaves.get? p = some l) := by
  obtain ⟨hinv, _, _⟩ := reach_inv hd hsz hr
  obtain ⟨hinv1, _⟩ := insInv_after_full_load cm hv hinv hload
  obtain ⟨hs1, _⟩ := reach_loaded_searchable (keep := true) hd hsz hr cm hv hload
  obtain ⟨_, hs2, hnew, _⟩ := insAllV_searchable ls t1 t2 hinv1 hs1 hins
  obtain ⟨h1, _, res, hres, hiff⟩ := search_exact (fixed := fixed') hs2 q
  exact ⟨h1, res, hres, hiff, hnew⟩

end Sm.SBT
