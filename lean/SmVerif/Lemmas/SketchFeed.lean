/-
Helper lemmas for C14 ∘ C02: feeding records through `SeqToHashes` into the tree-backed sketch
and into the array-backed sketch gives corresponding sketches.
-/
import SmVerif.Lemmas.SketchParams
import SmVerif.Model.SketchFeed

namespace Sm.Sketch

open Sm MH

theorem feed_sim {b : BT} (hb : BInv b) (hx : Excl b.abs) (hc : CmOk b)
    (runs : List (List Nat × Seq.Stop)) :
    (feed BT.addManyFix b runs).1.abs = (feed MH.addMany b.abs runs).1 ∧
    (feed BT.addManyFix b runs).2 = (feed MH.addMany b.abs runs).2 ∧
    BInv (feed BT.addManyFix b runs).1 ∧ Excl (feed BT.addManyFix b runs).1.abs ∧
    CmOk (feed BT.addManyFix b runs).1 := by
  induction runs generalizing b with
  | nil => exact ⟨rfl, rfl, hb, hx, hc⟩
  | cons r rest ih =>
    obtain ⟨hs, stop⟩ := r
    have h1 := sim_addManyFix hb hx hc hs
    unfold feed
    by_cases hd : stop = .done
    · rw [if_pos hd, if_pos hd, ← h1.1]
      exact ih h1.2.1 h1.2.2.2 h1.2.2.1
    · rw [if_neg hd, if_neg hd]
      exact ⟨h1.1, rfl, h1.2.1, h1.2.2.2, h1.2.2.1⟩

theorem feed_frame_MH (s : MH) (runs : List (List Nat × Seq.Stop)) :
    (feed MH.addMany s runs).1.maxHash = s.maxHash ∧ (feed MH.addMany s runs).1.ksize = s.ksize ∧
    (feed MH.addMany s runs).1.seed = s.seed ∧ (feed MH.addMany s runs).1.num = s.num := by
  induction runs generalizing s with
  | nil => exact ⟨rfl, rfl, rfl, rfl⟩
  | cons r rest ih =>
    obtain ⟨hs, stop⟩ := r
    have hf := addMany_frame s hs
    unfold feed
    split
    · have := ih (s.addMany hs)
      exact ⟨this.1.trans hf.2.1, this.2.1.trans hf.2.2.1, this.2.2.1.trans hf.2.2.2.1,
        this.2.2.2.trans hf.1⟩
    · exact ⟨hf.2.1, hf.2.2.1, hf.2.2.2.1, hf.1⟩

theorem feed_cacheInv {s : MH} (h : C11.CacheInv s) (runs : List (List Nat × Seq.Stop)) :
    C11.CacheInv (feed MH.addMany s runs).1 := by
  induction runs generalizing s with
  | nil => exact h
  | cons r rest ih =>
    obtain ⟨hs, stop⟩ := r
    unfold feed
    split
    · exact ih (C11.addMany_inv h hs)
    · exact C11.addMany_inv h hs

/-- C14 ∘ C02 for one sketch: the records of a file, run through `SeqToHashes` with the sketch's
own k-mer size, molecule type and seed, into the sketch the factory built for (p, k, m) — and the
same records into the sketch created directly with those parameters -/
theorem sketch_direct_sequences (hashS : Nat → List Nat → Nat) (p : CP) (k : Nat) (m : Mol)
    (input : Input) (force : Bool) (records : List (List Nat))
    (hx : p.scaled = 0 ∨ p.num = 0) (hst : Stable (mhR p.scaled)) :
    let fb := feedBT hashS (template p k m) m.toHashFn input force records
    let fv := feedMH hashS (MH.new p.scaled k m.hf p.seed p.track p.num) m.toHashFn input force records
    fb.1.intoVec = { fv.1 with md5 := none } ∧ fb.2 = fv.2 ∧ fb.1.md5sum.2 = fv.1.md5sum.2 ∧
    fb.1.serialize.2 = fv.1.serialize.2 := by
  intro fb fv
  obtain ⟨h1, h2, h3⟩ := template_abs p k m
  have hex : Excl (template p k m).abs := template_excl hx k m
  have hruns : (records.map (runOf (hashS (template p k m).seed) (template p k m).ksize m.toHashFn input force)) =
      (records.map (runOf (hashS (MH.new p.scaled k m.hf p.seed p.track p.num).seed)
        (MH.new p.scaled k m.hf p.seed p.track p.num).ksize m.toHashFn input force)) := rfl
  have hsim := feed_sim h2 hex h3
    (records.map (runOf (hashS (template p k m).seed) (template p k m).ksize m.toHashFn input force))
  rw [h1] at hsim
  have hfb : fb = feed BT.addManyFix (template p k m)
      (records.map (runOf (hashS (template p k m).seed) (template p k m).ksize m.toHashFn input force)) := rfl
  have hfv : fv = feed MH.addMany (MH.new p.scaled k m.hf p.seed p.track p.num)
      (records.map (runOf (hashS (template p k m).seed) (template p k m).ksize m.toHashFn input force)) := by
    rw [hruns]; rfl
  rw [← hfb, ← hfv] at hsim
  have hframe : fv.1.maxHash = mhR p.scaled := by
    rw [hfv]; exact (feed_frame_MH _ _).1
  have hmax : fb.1.maxHash = mhR p.scaled := by
    have e : fb.1.abs.maxHash = fv.1.maxHash := by rw [hsim.1]
    exact e.trans hframe
  refine ⟨?_, hsim.2.1, ?_, ?_⟩
  · rw [intoVec_eq, hmax, hsim.1]
    unfold Stable at hst
    rw [hst, ← hframe]
  · rw [(abs_md5sum _).2, hsim.1]
  · rw [BT.serialize_eq, ← hsim.1, MH.serialize_abs]

end Sm.Sketch
