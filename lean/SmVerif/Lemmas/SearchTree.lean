/-
C06, Sequence Bloom Trees: pruning a subtree because the score of its root is below the threshold
never loses a leaf, provided the root's score is an upper bound of the scores below it
(`Bounded`); that bound follows from the container invariant `Cover` (filter ⊇ hashes below,
`1 ≤ min_n_below ≤` size of every non-empty leaf below) -- C13 proves `Cover` of real trees.

The threshold comparison is a comparison of doubles, so "upper bound" needs the monotonicity of the
correctly rounded quotient (`F64.divNat_mono`).
-/
import SmVerif.Lemmas.SearchPair

namespace Sm.Search

open Sm F64

/-! ### visiting order -/

/-- the leaves in the order `_find_nodes` reaches them (children of a node last-to-first) -/
def Tree.visit : Tree → List (Nat × MH)
  | .leaf i s => [(i, s)]
  | .node _ _ kids => visitKids kids
where
  visitKids : List Tree → List (Nat × MH)
    | [] => []
    | t :: ts => visitKids ts ++ t.visit

/-! ### upper bounds -/

/-- `n` is at least `l` as far as any threshold test can tell -/
def Dominates (n l : Ratio) : Prop :=
  (l.n ≠ 0 ∧ l.d ≠ 0) → (n.n ≠ 0 ∧ n.d ≠ 0) ∧ ge n.toF l.toF = true

theorem passes_of_dominates {n l : Ratio} (h : Dominates n l) (js : JS) (hp : js.passes l = true) :
    js.passes n = true := by
  rw [passes_iff] at hp ⊢
  obtain ⟨h1, h2⟩ := h hp.1
  exact ⟨h1, ge_trans h2 hp.2⟩

/-- **node score upper bound**, on the numbers: a node scored with `matches ≥ shared` and
`1 ≤ min_n_below ≤ |leaf|` dominates the exact score of the leaf, for each of the three score
functions (for containment the leaf size plays no role). -/
theorem scoreFn_jaccard (q sh su t : Nat) :
    scoreFn .jaccard q sh su t = if t = 0 then Ratio.zero else ⟨sh, t⟩ := rfl
theorem scoreFn_containment (q sh su t : Nat) :
    scoreFn .containment q sh su t = if q = 0 then Ratio.zero else ⟨sh, q⟩ := rfl
theorem scoreFn_maxContainment (q sh su t : Nat) :
    scoreFn .maxContainment q sh su t = if min q su = 0 then Ratio.zero else ⟨sh, min q su⟩ := rfl

theorem dominates_of_bounds (m : Mode) (q sharedL sizeL totalL mtch k : Nat)
    (h1 : sharedL ≤ mtch) (hk1 : 1 ≤ k) (hs : sharedL ≤ sizeL) (ht : sizeL ≤ totalL)
    (hk : m ≠ .containment → sizeL ≠ 0 → k ≤ sizeL) :
    Dominates (scoreFn m q mtch k k) (scoreFn m q sharedL sizeL totalL) := by
  intro hl
  cases m with
  | jaccard =>
    rw [scoreFn_jaccard] at hl ⊢
    rw [scoreFn_jaccard, if_neg (by omega)]
    by_cases ht0 : totalL = 0
    · rw [if_pos ht0] at hl; exact absurd rfl hl.1
    · rw [if_neg ht0] at hl ⊢
      simp only [Ratio.toF] at hl ⊢
      have hs0 : sizeL ≠ 0 := by omega
      have := hk (by decide) hs0
      exact ⟨⟨by omega, by omega⟩, divNat_mono (by omega) (by omega) h1 (by omega)⟩
  | containment =>
    rw [scoreFn_containment] at hl ⊢
    rw [scoreFn_containment]
    by_cases hq0 : q = 0
    · rw [if_pos hq0] at hl; exact absurd rfl hl.1
    · simp only [if_neg hq0, Ratio.toF] at hl ⊢
      exact ⟨⟨by omega, hq0⟩, divNat_mono (by omega) (by omega) h1 (Nat.le_refl _)⟩
  | maxContainment =>
    rw [scoreFn_maxContainment] at hl ⊢
    rw [scoreFn_maxContainment]
    by_cases hq0 : min q sizeL = 0
    · rw [if_pos hq0] at hl; exact absurd rfl hl.1
    · have hs0 : sizeL ≠ 0 := by omega
      have hkk := hk (by decide) hs0
      have hmk : min q k ≠ 0 := by omega
      simp only [if_neg hq0, if_neg hmk, Ratio.toF] at hl ⊢
      exact ⟨⟨by omega, hmk⟩, divNat_mono (by omega) (by omega) h1 (by omega)⟩

/-! ### trees on which pruning is sound -/

mutual
/-- every leaf can be scored, every internal node has `min_n_below` and its score dominates
the score of every leaf below it -/
def Bounded (c : SbtCtx) (m : Mode) : Tree → Prop
  | .leaf _ s => ∃ r, c.leafScore m s = .ok r
  | .node filter minN kids =>
    (∃ k, minN = some k ∧ ∀ p ∈ Tree.visit.visitKids kids, ∀ r, c.leafScore m p.2 = .ok r →
        Dominates (c.nodeScore m filter k) r) ∧ BoundedL c m kids
def BoundedL (c : SbtCtx) (m : Mode) : List Tree → Prop
  | [] => True
  | t :: ts => Bounded c m t ∧ BoundedL c m ts
end

theorem scored_append (f : MH → Except SErr Ratio) (a b : List (Nat × MH)) :
    scored f (a ++ b) = scored f a ++ scored f b := by
  induction a with
  | nil => rfl
  | cons p rest ih =>
    obtain ⟨i, s⟩ := p
    simp only [List.cons_append, scored]
    split <;> simp [ih]

theorem bruteForce_append (js : JS) (f : MH → Except SErr Ratio) (a b : List (Nat × MH)) :
    bruteForce js f (a ++ b) = bruteForce js f a ++ bruteForce js f b := by
  unfold bruteForce bruteHits
  rw [scored_append, List.filter_append]

theorem mem_scored {f : MH → Except SErr Ratio} {l : List (Nat × MH)} {x : Hit} (h : x ∈ scored f l) :
    ∃ p ∈ l, p.1 = x.idx ∧ f p.2 = .ok x.score := by
  induction l with
  | nil => cases h
  | cons p rest ih =>
    obtain ⟨i, s⟩ := p
    simp only [scored] at h
    split at h
    · rename_i r hr
      rcases List.mem_cons.1 h with rfl | h'
      · exact ⟨(i, s), List.mem_cons_self, rfl, hr⟩
      · obtain ⟨p, hp, e⟩ := ih h'
        exact ⟨p, List.mem_cons_of_mem _ hp, e⟩
    · obtain ⟨p, hp, e⟩ := ih h
      exact ⟨p, List.mem_cons_of_mem _ hp, e⟩

theorem scored_mem {f : MH → Except SErr Ratio} {l : List (Nat × MH)} {p : Nat × MH} {r : Ratio}
    (hp : p ∈ l) (hr : f p.2 = .ok r) : (⟨p.1, r⟩ : Hit) ∈ scored f l := by
  induction l with
  | nil => cases hp
  | cons p' rest ih =>
    obtain ⟨i, s⟩ := p'
    simp only [scored]
    rcases List.mem_cons.1 hp with rfl | hp'
    · simp only [] at hr
      rw [hr]
      exact List.mem_cons_self
    · split
      · exact List.mem_cons_of_mem _ (ih hp')
      · exact ih hp'

/-- a subtree whose root does not pass has no passing leaf -/
theorem bruteForce_nil_of_dominated {c : SbtCtx} {js : JS} {n : Ratio} {l : List (Nat × MH)}
    (hd : ∀ p ∈ l, ∀ r, c.leafScore js.mode p.2 = .ok r → Dominates n r)
    (hn : ¬ js.passes n = true) : bruteForce js (c.leafScore js.mode) l = [] := by
  unfold bruteForce bruteHits
  apply List.filter_eq_nil_iff.2
  intro x hx hpx
  obtain ⟨p, hp, _, hr⟩ := mem_scored hx
  exact hn (passes_of_dominates (hd p hp _ hr) js hpx)

mutual
/-- **plain search of a tree = brute force over its leaves** (in visiting order) -/
theorem sbtWalk_plain (c : SbtCtx) (js : JS) (hb : js.bestOnly = false) :
    ∀ t : Tree, Bounded c js.mode t →
      sbtWalk c js t = .ok (js, bruteForce js (c.leafScore js.mode) t.visit)
  | .leaf i s, hB => by
    obtain ⟨r, hr⟩ := (show ∃ r, c.leafScore js.mode s = .ok r from hB)
    simp only [sbtWalk, Tree.visit, bruteForce, bruteHits, scored, hr]
    by_cases hp : js.passes r = true
    · rw [if_pos hp, collect_plain hb]
      simp [hp]
    · rw [if_neg hp]
      simp [hp]
  | .node filter minN kids, hB => by
    obtain ⟨⟨k, hk, hdom⟩, hBL⟩ := (show (∃ k, minN = some k ∧ ∀ p ∈ Tree.visit.visitKids kids, ∀ r,
        c.leafScore js.mode p.2 = .ok r → Dominates (c.nodeScore js.mode filter k) r) ∧
        BoundedL c js.mode kids from hB)
    subst hk
    simp only [sbtWalk, Tree.visit]
    by_cases hp : js.passes (c.nodeScore js.mode filter k) = true
    · rw [if_pos hp]
      exact walkKids_plain c js hb kids hBL
    · rw [if_neg hp, bruteForce_nil_of_dominated hdom hp]
theorem walkKids_plain (c : SbtCtx) (js : JS) (hb : js.bestOnly = false) :
    ∀ ts : List Tree, BoundedL c js.mode ts →
      sbtWalk.walkKids c js ts = .ok (js, bruteForce js (c.leafScore js.mode) (Tree.visit.visitKids ts))
  | [], _ => rfl
  | t :: ts, hB => by
    obtain ⟨h1, h2⟩ := (show Bounded c js.mode t ∧ BoundedL c js.mode ts from hB)
    simp only [sbtWalk.walkKids, Tree.visit.visitKids]
    rw [walkKids_plain c js hb ts h2]
    simp only []
    rw [sbtWalk_plain c js hb t h1]
    simp only []
    rw [bruteForce_append]
end

/-! ### best-only (and plain) search of a tree: soundness and the maximal elements -/

/-- what a walk started with search object `js` over the leaves `l` guarantees about its result -/
structure WalkSpec (f : MH → Except SErr Ratio) (js : JS) (l : List (Nat × MH)) (js' : JS)
    (hits : List Hit) : Prop where
  mode : js'.mode = js.mode
  /-- everything returned is a brute-force match of the threshold the walk started with -/
  sub : hits.Sublist (bruteForce js f l)
  thr : js'.thr = js.thr ∨ ∃ h ∈ hits, js'.thr = h.score.toF
  thr_ge : ge js'.thr js.thr = true
  /-- every maximal passing leaf is returned -/
  max : ∀ x ∈ scored f l, js.passes x.score = true →
    (∀ y ∈ scored f l, js.passes y.score = true → ge x.score.toF y.score.toF = true) → x ∈ hits

theorem bruteForce_mono_thr {js js' : JS} (f : MH → Except SErr Ratio) (l : List (Nat × MH))
    (h : ge js'.thr js.thr = true) : (bruteForce js' f l).Sublist (bruteForce js f l) := by
  unfold bruteForce bruteHits
  apply List.monotone_filter_right
  intro x hx
  exact passes_of_thr_ge h hx

theorem mem_bruteForce {js : JS} {f : MH → Except SErr Ratio} {l : List (Nat × MH)} {x : Hit}
    (h : x ∈ bruteForce js f l) : x ∈ scored f l ∧ js.passes x.score = true := by
  unfold bruteForce bruteHits at h
  exact List.mem_filter.1 h

mutual
theorem sbtWalk_spec (c : SbtCtx) (m : Mode) :
    ∀ (t : Tree) (js : JS), js.mode = m → Bounded c m t →
      ∃ js' hits, sbtWalk c js t = .ok (js', hits) ∧ WalkSpec (c.leafScore m) js t.visit js' hits
  | .leaf i s, js, hm, hB => by
    obtain ⟨r, hr⟩ := (show ∃ r, c.leafScore m s = .ok r from hB)
    simp only [sbtWalk, Tree.visit, hm, hr]
    by_cases hp : js.passes r = true
    · rw [if_pos hp]
      refine ⟨_, _, rfl, collect_mode js r, ?_, ?_, collect_thr_ge js r, ?_⟩
      · simp only [bruteForce, bruteHits, scored, hr]
        rw [List.filter_cons_of_pos (by simpa using hp)]
        exact List.Sublist.refl _
      · rcases collect_thr_cases js r with e | ⟨e, _⟩
        · exact Or.inl e
        · exact Or.inr ⟨⟨i, r⟩, List.mem_cons_self, e⟩
      · intro x hx _ _
        simp only [scored, hr] at hx
        exact hx
    · rw [if_neg hp]
      refine ⟨_, _, rfl, rfl, List.nil_sublist _, Or.inl rfl, ge_refl _, ?_⟩
      intro x hx hpx _
      simp only [scored, hr, List.mem_singleton] at hx
      subst hx
      exact absurd hpx hp
  | .node filter minN kids, js, hm, hB => by
    obtain ⟨⟨k, hk, hdom⟩, hBL⟩ := (show (∃ k, minN = some k ∧ ∀ p ∈ Tree.visit.visitKids kids, ∀ r,
        c.leafScore m p.2 = .ok r → Dominates (c.nodeScore m filter k) r) ∧
        BoundedL c m kids from hB)
    subst hk
    simp only [sbtWalk, Tree.visit, hm]
    by_cases hp : js.passes (c.nodeScore m filter k) = true
    · rw [if_pos hp]
      exact walkKids_spec c m kids js hm hBL
    · rw [if_neg hp]
      refine ⟨_, _, rfl, rfl, List.nil_sublist _, Or.inl rfl, ge_refl _, ?_⟩
      intro x hx hpx _
      obtain ⟨p, hpm, _, hr⟩ := mem_scored hx
      exact absurd (passes_of_dominates (hdom p hpm _ hr) js hpx) hp
theorem walkKids_spec (c : SbtCtx) (m : Mode) :
    ∀ (ts : List Tree) (js : JS), js.mode = m → BoundedL c m ts →
      ∃ js' hits, sbtWalk.walkKids c js ts = .ok (js', hits) ∧
        WalkSpec (c.leafScore m) js (Tree.visit.visitKids ts) js' hits
  | [], js, _, _ =>
    ⟨js, [], rfl, rfl, List.nil_sublist _, Or.inl rfl, ge_refl _, fun x hx _ _ => by cases hx⟩
  | t :: ts, js, hm, hB => by
    obtain ⟨hB1, hB2⟩ := (show Bounded c m t ∧ BoundedL c m ts from hB)
    obtain ⟨js1, h1, e1, w1⟩ := walkKids_spec c m ts js hm hB2
    obtain ⟨js2, h2, e2, w2⟩ := sbtWalk_spec c m t js1 (w1.mode.trans hm) hB1
    refine ⟨js2, h1 ++ h2, ?_, ?_⟩
    · simp only [sbtWalk.walkKids]
      rw [e1]
      simp only []
      rw [e2]
    · simp only [Tree.visit.visitKids]
      refine ⟨w2.mode.trans w1.mode, ?_, ?_, ge_trans w2.thr_ge w1.thr_ge, ?_⟩
      · rw [bruteForce_append]
        exact List.Sublist.append w1.sub (w2.sub.trans (bruteForce_mono_thr _ _ w1.thr_ge))
      · rcases w2.thr with e | ⟨h, hh, e⟩
        · rcases w1.thr with e' | ⟨h', hh', e'⟩
          · exact Or.inl (e.trans e')
          · exact Or.inr ⟨h', List.mem_append_left _ hh', e.trans e'⟩
        · exact Or.inr ⟨h, List.mem_append_right _ hh, e⟩
      · intro x hx hpx hmax
        rw [scored_append] at hx hmax
        rcases List.mem_append.1 hx with hx1 | hx2
        · apply List.mem_append_left
          exact w1.max x hx1 hpx (fun y hy hpy => hmax y (List.mem_append_left _ hy) hpy)
        · apply List.mem_append_right
          -- x still passes after the siblings visited before
          have hp1 : js1.passes x.score = true := by
            rcases w1.thr with e | ⟨h, hh, e⟩
            · rw [passes_iff] at hpx ⊢
              rw [e]; exact hpx
            · have hb := mem_bruteForce (w1.sub.subset hh)
              have := hmax h (List.mem_append_left _ hb.1) hb.2
              rw [passes_iff] at hpx ⊢
              rw [e]; exact ⟨hpx.1, this⟩
          apply w2.max x hx2 hp1
          intro y hy hpy
          exact hmax y (List.mem_append_right _ hy) (passes_of_thr_ge w1.thr_ge hpy)
end

/-! ### from the container invariant to `Bounded` -/

mutual
/-- the container invariant of a stored tree (C13): every internal node has `min_n_below ≥ 1`, its
filter answers "present" on every hash of every leaf below it, and `min_n_below` is at most the
size of every non-empty leaf below it -/
def Cover : Tree → Prop
  | .leaf _ _ => True
  | .node filter minN kids =>
    (∃ k, minN = some k ∧ 1 ≤ k ∧ ∀ p ∈ Tree.visit.visitKids kids,
        (∀ h ∈ p.2.mins, filter.contains h = true) ∧ (p.2.mins.length ≠ 0 → k ≤ p.2.mins.length)) ∧
    CoverL kids
def CoverL : List Tree → Prop
  | [] => True
  | t :: ts => Cover t ∧ CoverL ts
end

/-- what `node_search` computes on a leaf, related to the stored leaf: the sizes it feeds to the
score function (`shared ≤ |query ∩ stored leaf|`, `shared ≤ size ≤ total`), and that the size is
the stored one unless the leaves are downsampled (`min_n_below` speaks about stored sizes; for
downsampled leaves `node_search` uses 1 instead) -/
def LeafOK (c : SbtCtx) (m : Mode) (s : MH) : Prop :=
  ∃ shared size total,
    c.leafScore m s = .ok (scoreFn m c.querySize shared size total) ∧
    shared ≤ (c.query.mins.filter (fun h => decide (h ∈ s.mins))).length ∧
    shared ≤ size ∧ size ≤ total ∧ (c.leafScaled = none → size = s.mins.length)

theorem length_filter_le_of_imp {l : List Nat} {p q : Nat → Bool} (h : ∀ x, p x = true → q x = true) :
    (l.filter p).length ≤ (l.filter q).length :=
  (List.monotone_filter_right l (fun x hx => h x hx)).length_le

mutual
theorem bounded_of_cover (c : SbtCtx) (m : Mode) :
    ∀ t : Tree, Cover t → (∀ p ∈ t.visit, LeafOK c m p.2) → Bounded c m t
  | .leaf i s, _, hl => by
    obtain ⟨sh, sz, tot, h, _⟩ := hl (i, s) (by simp [Tree.visit])
    exact ⟨_, h⟩
  | .node filter minN kids, hC, hl => by
    obtain ⟨⟨k, hk, hk1, hcov⟩, hCL⟩ := (show (∃ k, minN = some k ∧ 1 ≤ k ∧ ∀ p ∈ Tree.visit.visitKids kids,
        (∀ h ∈ p.2.mins, filter.contains h = true) ∧ (p.2.mins.length ≠ 0 → k ≤ p.2.mins.length)) ∧
        CoverL kids from hC)
    refine ⟨⟨k, hk, ?_⟩, boundedL_of_coverL c m kids hCL hl⟩
    intro p hp r hr
    obtain ⟨sh, sz, tot, h1, h2, h3, h4, h5⟩ := hl p hp
    rw [h1] at hr
    cases hr
    obtain ⟨hc1, hc2⟩ := hcov p hp
    unfold SbtCtx.nodeScore
    have hn1 : 1 ≤ c.nodeSize k := by
      unfold SbtCtx.nodeSize; split
      · exact Nat.le_refl 1
      · exact hk1
    apply dominates_of_bounds m c.querySize sh sz tot _ (c.nodeSize k) _ hn1 h3 h4
    · intro _ hs0
      unfold SbtCtx.nodeSize
      cases hls : c.leafScaled with
      | some v => simp only [Option.isSome_some, if_true]; omega
      | none =>
        simp only [Option.isSome_none, Bool.false_eq_true, if_false]
        rw [h5 hls] at hs0 ⊢
        exact hc2 hs0
    · refine le_trans h2 ?_
      unfold matchCount
      apply length_filter_le_of_imp
      intro x hx
      exact hc1 x (by simpa using hx)
theorem boundedL_of_coverL (c : SbtCtx) (m : Mode) :
    ∀ ts : List Tree, CoverL ts → (∀ p ∈ Tree.visit.visitKids ts, LeafOK c m p.2) → BoundedL c m ts
  | [], _, _ => trivial
  | t :: ts, hC, hl => by
    obtain ⟨h1, h2⟩ := (show Cover t ∧ CoverL ts from hC)
    exact ⟨bounded_of_cover c m t h1 (fun p hp => hl p (by simp [Tree.visit.visitKids, hp])),
      boundedL_of_coverL c m ts h2 (fun p hp => hl p (by simp [Tree.visit.visitKids, hp]))⟩
end

end Sm.Search
