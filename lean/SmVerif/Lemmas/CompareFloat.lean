/-
C05, the binary64 side: facts about the doubles the comparison code returns, proved over the
exact model (`Model/Float64.lean`, `Float64More.lean`) with the relational description of
correct rounding `IsRN` (Lemmas/SearchRound.lean).

* plain fractions `fl(c / u)` (`Cmp.ratioF`: Jaccard, raw containment): value of `divNat`,
  range, `= 1` iff numerator = denominator, `= 0` iff numerator = 0, monotone / antitone;
* `clamp01`, `div` against 1, `fmul` by a factor ≤ 1 (`isRN_roundNat`): what the clamp logic of
  `contained_by` needs around the libm-dependent bias factor;
* the tail of the angular similarity around the libm-dependent `acos`.
-/
import SmVerif.Lemmas.SearchRound
import SmVerif.Lemmas.Float64Order
import SmVerif.Lemmas.CompareLemmas

namespace Sm.F64

/-! ### constants -/

theorem one_val : one.val = 1 := by simp [one, F.val]

theorem zero_val : zero.val = 0 := by simp [zero, F.val]

theorem isRN_one : IsRN 1 1 := by
  have h := isRN_divNat (a := 1) (b := 1) (by decide) (by decide)
  have e : (divNat 1 1).val = ((1 : Nat) : ℚ) := (ofNat_exact 1 (by decide) (by decide)).1
  rw [e] at h
  simpa using h

theorem isRN_nat {n : Nat} (h0 : 0 < n) (h : n < 2 ^ 53) : IsRN (n : ℚ) (n : ℚ) := by
  have h1 := isRN_divNat (a := n) (b := 1) h0 (by decide)
  have e : (divNat n 1).val = n := (ofNat_exact n h0 h).1
  rw [e] at h1
  simpa using h1

theorem val_eq_zero_iff (x : F) : x.val = 0 ↔ x.m = 0 := by
  constructor
  · intro h
    by_contra hm
    have := F.val_pos (x := x) (Nat.pos_of_ne_zero hm)
    linarith
  · intro h; exact val_zero_mant h

theorem ofNat_pos {n : Nat} (h0 : 0 < n) : 0 < (ofNat n).m := divNat_pos n 1 h0 (by decide)

/-! ### plain fractions `fl(c / u)` -/

/-- `float(c) / float(u)` for integers below 2^53 is the correctly rounded quotient `c / u` -/
theorem isRN_ratio {c u : Nat} (hc : 0 < c) (hu : 0 < u) (hc53 : c < 2 ^ 53) (hu53 : u < 2 ^ 53) :
    IsRN ((c : ℚ) / u) (div (ofNat c) (ofNat u)).val := by
  have h := isRN_div (x := ofNat c) (y := ofNat u) (ofNat_pos hc) (ofNat_pos hu)
  rw [ofNat_val hc53, ofNat_val hu53] at h
  exact h

/-- … hence the same double as `divNat c u` -/
theorem ratio_val_eq_divNat {c u : Nat} (hu : 0 < u) (hc53 : c < 2 ^ 53) (hu53 : u < 2 ^ 53) :
    (div (ofNat c) (ofNat u)).val = (divNat c u).val := by
  rcases Nat.eq_zero_or_pos c with rfl | hc
  · have : ofNat 0 = ⟨0, 0⟩ := by decide
    rw [this, divNat_zero_val]
    have : div ⟨0, 0⟩ (ofNat u) = ⟨0, 0⟩ := by simp [div, divNat]
    rw [this]; simp [F.val]
  · exact IsRN.unique hc53 hu (isRN_ratio hc hu hc53 hu53) (isRN_divNat hc hu)

theorem ratio_nonneg (c u : Nat) : 0 ≤ (div (ofNat c) (ofNat u)).val := F.val_nonneg _

/-- a proportion never rounds above 1 -/
theorem ratio_le_one {c u : Nat} (hcu : c ≤ u) (hu : 0 < u) (hu53 : u < 2 ^ 53) :
    (div (ofNat c) (ofNat u)).val ≤ 1 := by
  have hc53 : c < 2 ^ 53 := lt_of_le_of_lt hcu hu53
  rcases Nat.eq_zero_or_pos c with rfl | hc
  · rw [ratio_val_eq_divNat hu hc53 hu53, divNat_zero_val]; norm_num
  · have hq : (c : ℚ) / u ≤ ((1 : Nat) : ℚ) / (1 : Nat) := by
      have hu' : (0 : ℚ) < u := by exact_mod_cast hu
      rw [Nat.cast_one, div_one, div_le_one hu']; exact_mod_cast hcu
    have h1 : IsRN (((1 : Nat) : ℚ) / (1 : Nat)) 1 := by simpa using isRN_one
    exact IsRN.mono_le (by decide) (by decide) hq (isRN_ratio hc hu hc53 hu53) h1

theorem ratio_self {u : Nat} (hu : 0 < u) (hu53 : u < 2 ^ 53) : (div (ofNat u) (ofNat u)).val = 1 := by
  have h := isRN_ratio hu hu hu53 hu53
  have hu' : (u : ℚ) ≠ 0 := by exact_mod_cast (Nat.pos_iff_ne_zero.1 hu)
  rw [div_self hu'] at h
  have h1 : IsRN (((1 : Nat) : ℚ)) (div (ofNat u) (ofNat u)).val := by simpa using h
  have := IsRN.exact_nat h1 (by decide)
  simpa using this

theorem below_one_val : (divNat (2 ^ 53 - 1) (2 ^ 53)).val < 1 := by
  have : divNat (2 ^ 53 - 1) (2 ^ 53) = ⟨2 ^ 53 - 1, -53⟩ := by decide +kernel
  rw [this]
  simp only [F.val]
  norm_num

/-- a PROPER fraction rounds strictly below 1 (`1 - 2^-53` is a double) -/
theorem ratio_lt_one {c u : Nat} (hcu : c < u) (hu53 : u < 2 ^ 53) :
    (div (ofNat c) (ofNat u)).val < 1 := by
  have hu : 0 < u := by omega
  have hc53 : c < 2 ^ 53 := by omega
  rcases Nat.eq_zero_or_pos c with rfl | hc
  · rw [ratio_val_eq_divNat hu hc53 hu53, divNat_zero_val]; norm_num
  · have hu' : (0 : ℚ) < u := by exact_mod_cast hu
    have hq : (c : ℚ) / u ≤ ((2 ^ 53 - 1 : Nat) : ℚ) / ((2 ^ 53 : Nat) : ℚ) := by
      rw [div_le_div_iff₀ hu' (by positivity)]
      have h1 : (c : ℚ) + 1 ≤ u := by exact_mod_cast hcu
      have h2 : (u : ℚ) ≤ 2 ^ 53 - 1 := by
        have : u ≤ 2 ^ 53 - 1 := by omega
        have := (Nat.cast_le (α := ℚ)).2 this
        push_cast at this
        linarith
      push_cast
      nlinarith
    have hw := isRN_divNat (a := 2 ^ 53 - 1) (b := 2 ^ 53) (by decide) (by decide)
    have := IsRN.mono_le (by decide) (by decide) hq (isRN_ratio hc hu hc53 hu53) hw
    exact lt_of_le_of_lt this below_one_val

theorem ratio_eq_one_iff {c u : Nat} (hcu : c ≤ u) (hu : 0 < u) (hu53 : u < 2 ^ 53) :
    (div (ofNat c) (ofNat u)).val = 1 ↔ c = u := by
  constructor
  · intro h
    by_contra hne
    have := ratio_lt_one (c := c) (u := u) (by omega) hu53
    linarith
  · rintro rfl; exact ratio_self hu hu53

theorem ratio_eq_zero_iff {c u : Nat} (hu : 0 < u) (hc53 : c < 2 ^ 53) (hu53 : u < 2 ^ 53) :
    (div (ofNat c) (ofNat u)).val = 0 ↔ c = 0 := by
  rw [ratio_val_eq_divNat hu hc53 hu53, val_eq_zero_iff]
  constructor
  · intro h
    by_contra hc
    exact ((divNat_m_ne_zero_iff c u).2 ⟨hc, by omega⟩) h
  · rintro rfl; simp [divNat]

/-- monotone in the numerator, antitone in the denominator, IN BINARY64 -/
theorem ratio_mono {c c' u u' : Nat} (hcc : c ≤ c') (huu : u' ≤ u) (hu' : 0 < u')
    (hc53 : c' < 2 ^ 53) (hu53 : u < 2 ^ 53) :
    (div (ofNat c) (ofNat u)).val ≤ (div (ofNat c') (ofNat u')).val := by
  have hu : 0 < u := by omega
  rw [ratio_val_eq_divNat hu (by omega) hu53, ratio_val_eq_divNat hu' hc53 (by omega)]
  rcases Nat.eq_zero_or_pos c with rfl | hc
  · rw [divNat_zero_val]; exact F.val_nonneg _
  · exact (ge_iff_val _ _).1 (divNat_mono hc hu' hcc huu)

/-! ### `clamp01` -/

theorem clamp01_val (x : F) : (clamp01 x).val = min 1 x.val := by
  unfold clamp01
  by_cases h1 : ge x one = true
  · rw [if_pos h1, one_val]
    have := (ge_iff_val x one).1 h1
    rw [one_val] at this
    rw [min_eq_left this]
  · rw [if_neg h1]
    have hlt : x.val < 1 := by
      have := (not_ge_iff x one).1 (by simpa using h1)
      rwa [one_val] at this
    by_cases h0 : isZero x = true
    · rw [if_pos h0, zero_val]
      have : x.m = 0 := by simpa [isZero] using h0
      rw [val_zero_mant this]; norm_num
    · rw [if_neg h0, min_eq_right hlt.le]

theorem clamp01_range (x : F) : 0 ≤ (clamp01 x).val ∧ (clamp01 x).val ≤ 1 := by
  rw [clamp01_val]
  exact ⟨le_min (by norm_num) (F.val_nonneg x), min_le_left _ _⟩

theorem clamp01_mono {x y : F} (h : x.val ≤ y.val) : (clamp01 x).val ≤ (clamp01 y).val := by
  rw [clamp01_val, clamp01_val]; exact min_le_min le_rfl h

theorem clamp01_eq_one_iff (x : F) : (clamp01 x).val = 1 ↔ 1 ≤ x.val := by
  rw [clamp01_val]
  constructor
  · intro h
    by_contra hc
    have hc := not_le.1 hc
    rw [min_eq_right hc.le] at h
    linarith
  · intro h; exact min_eq_left h

theorem clamp01_eq_zero_iff (x : F) : (clamp01 x).val = 0 ↔ x.m = 0 := by
  rw [clamp01_val, ← val_eq_zero_iff]
  constructor
  · intro h
    rcases le_total 1 x.val with h1 | h1
    · rw [min_eq_left h1] at h; norm_num at h
    · rwa [min_eq_right h1] at h
  · intro h; rw [h]; norm_num

/-- when nothing is clamped the double itself is returned -/
theorem clamp01_of_lt {x : F} (h0 : 0 < x.m) (h1 : x.val < 1) : clamp01 x = x := by
  unfold clamp01
  have : ge x one = false := (not_ge_iff x one).2 (by rwa [one_val])
  rw [this]
  simp [isZero, Nat.pos_iff_ne_zero.1 h0]


/-! ### `roundNat` (hence `fmul`, `fadd`) is a correct rounding -/

theorem bitlen_bounds {n : Nat} (hn : n ≠ 0) : 2 ^ (bitlen n - 1) ≤ n ∧ n < 2 ^ bitlen n := by
  have hb : bitlen n = Nat.log2 n + 1 := by unfold bitlen; simp [hn]
  have := log2_bounds (Nat.pos_of_ne_zero hn)
  rw [hb]
  exact ⟨by simpa using this.1, this.2⟩

theorem roundNat_val (n : Nat) (e : Int) (hn : n ≠ 0) :
    (roundNat n e).val = ((shiftRNE n (bitlen n - 53) false : Nat) : ℚ) * 2 ^ (bitlen n - 53) * 2 ^ e := by
  unfold roundNat F.val
  simp only [hn, if_false]
  have h2 : (2 : ℚ) ≠ 0 := by norm_num
  by_cases hm : shiftRNE n (bitlen n - 53) false = 2 ^ 53
  · simp only [hm, if_true]
    rw [zpow_add₀ h2, zpow_add₀ h2, zpow_natCast]
    push_cast
    ring
  · simp only [hm, if_false]
    rw [zpow_add₀ h2, zpow_natCast]
    ring

/-- `roundNat n e` is `n · 2^e` correctly rounded to 53 bits -/
theorem isRN_roundNat (n : Nat) (e : Int) (hn : n ≠ 0) : IsRN ((n : ℚ) * 2 ^ e) (roundNat n e).val := by
  rw [roundNat_val n e hn]
  obtain ⟨hlo, hhi⟩ := bitlen_bounds hn
  have hE : (0 : ℚ) < 2 ^ e := two_zpow_pos e
  have h2 : (2 : ℚ) ≠ 0 := by norm_num
  by_cases hd : bitlen n - 53 = 0
  · -- fewer than 54 bits: exact; renormalise the mantissa to 53 bits
    rw [hd]
    have hm : shiftRNE n 0 false = n := by simp [shiftRNE]
    rw [hm]
    have hL : bitlen n ≤ 53 := by omega
    have hL1 : 1 ≤ bitlen n := by
      by_contra hc
      have : bitlen n = 0 := by omega
      rw [this] at hhi
      omega
    refine ⟨n * 2 ^ (53 - bitlen n), e - ((53 - bitlen n : Nat) : Int), ?_, ?_, ?_, ?_, ?_, ?_⟩
    · rw [zpow_sub₀ h2, zpow_natCast]
      push_cast
      have : (2 : ℚ) ^ (53 - bitlen n) ≠ 0 := by positivity
      field_simp
    · calc 2 ^ 52 = 2 ^ (bitlen n - 1) * 2 ^ (53 - bitlen n) := by
            rw [← Nat.pow_add]; congr 1; omega
        _ ≤ n * 2 ^ (53 - bitlen n) := Nat.mul_le_mul_right _ hlo
    · calc n * 2 ^ (53 - bitlen n) ≤ 2 ^ bitlen n * 2 ^ (53 - bitlen n) :=
            Nat.mul_le_mul_right _ hhi.le
        _ = 2 ^ 53 := by rw [← Nat.pow_add]; congr 1; omega
    · have key : ((n * 2 ^ (53 - bitlen n) : Nat) : ℚ) * 2 ^ (e - ((53 - bitlen n : Nat) : Int)) = (n : ℚ) * 2 ^ e := by
        rw [zpow_sub₀ h2, zpow_natCast]
        push_cast
        have : (2 : ℚ) ^ (53 - bitlen n) ≠ 0 := by positivity
        field_simp
      have hge : ((2 ^ 52 : Nat) : ℚ) ≤ ((n * 2 ^ (53 - bitlen n) : Nat) : ℚ) := by
        apply Nat.cast_le.2
        calc 2 ^ 52 = 2 ^ (bitlen n - 1) * 2 ^ (53 - bitlen n) := by
              rw [← Nat.pow_add]; congr 1; omega
          _ ≤ n * 2 ^ (53 - bitlen n) := Nat.mul_le_mul_right _ hlo
      have hpos : (0 : ℚ) < 2 ^ (e - ((53 - bitlen n : Nat) : Int)) := two_zpow_pos _
      have := mul_le_mul_of_nonneg_right hge hpos.le
      rw [key] at this
      have e52 : ((2 ^ 52 : Nat) : ℚ) = 2 ^ 52 := by norm_num
      rw [e52] at this
      exact this
    · have key : ((n * 2 ^ (53 - bitlen n) : Nat) : ℚ) * 2 ^ (e - ((53 - bitlen n : Nat) : Int)) = (n : ℚ) * 2 ^ e := by
        rw [zpow_sub₀ h2, zpow_natCast]
        push_cast
        have : (2 : ℚ) ^ (53 - bitlen n) ≠ 0 := by positivity
        field_simp
      have hlt : ((n * 2 ^ (53 - bitlen n) : Nat) : ℚ) < ((2 ^ 53 : Nat) : ℚ) := by
        apply Nat.cast_lt.2
        calc n * 2 ^ (53 - bitlen n) < 2 ^ bitlen n * 2 ^ (53 - bitlen n) :=
              Nat.mul_lt_mul_of_pos_right hhi (by positivity)
          _ = 2 ^ 53 := by rw [← Nat.pow_add]; congr 1; omega
      have hpos : (0 : ℚ) < 2 ^ (e - ((53 - bitlen n : Nat) : Int)) := two_zpow_pos _
      have := mul_lt_mul_of_pos_right hlt hpos
      rw [key] at this
      have e53 : ((2 ^ 53 : Nat) : ℚ) = 2 ^ 53 := by norm_num
      rw [e53] at this
      exact this
    · have key : ((n * 2 ^ (53 - bitlen n) : Nat) : ℚ) * 2 ^ (e - ((53 - bitlen n : Nat) : Int)) = (n : ℚ) * 2 ^ e := by
        rw [zpow_sub₀ h2, zpow_natCast]
        push_cast
        have : (2 : ℚ) ^ (53 - bitlen n) ≠ 0 := by positivity
        field_simp
      rw [key, sub_self, abs_zero]
      exact div_nonneg (two_zpow_pos _).le (by norm_num)
  · -- at least 54 bits: one rounding step
    have hdpos : 0 < bitlen n - 53 := Nat.pos_of_ne_zero hd
    obtain ⟨c1, c2, c3⟩ := shiftRNE_core n (bitlen n - 53) 1 0 false hdpos (by decide) (by simp)
    simp only [Nat.mul_one, Nat.add_zero] at c1 c2
    have hL : bitlen n = (bitlen n - 53) + 53 := by omega
    have hlo' : 2 ^ 52 * 2 ^ (bitlen n - 53) ≤ n := by
      calc 2 ^ 52 * 2 ^ (bitlen n - 53) = 2 ^ (bitlen n - 1) := by
            rw [← Nat.pow_add]; congr 1; omega
        _ ≤ n := hlo
    have hhi' : n < 2 ^ 53 * 2 ^ (bitlen n - 53) := by
      calc n < 2 ^ bitlen n := hhi
        _ = 2 ^ 53 * 2 ^ (bitlen n - 53) := by rw [← Nat.pow_add]; congr 1; omega
    have hq1 : 2 ^ 52 ≤ n / 2 ^ (bitlen n - 53) := by
      rw [Nat.le_div_iff_mul_le (by positivity)]; exact hlo'
    have hq2 : n / 2 ^ (bitlen n - 53) < 2 ^ 53 := by
      rw [Nat.div_lt_iff_lt_mul (by positivity)]; exact hhi'
    have hm1 : 2 ^ 52 ≤ shiftRNE n (bitlen n - 53) false := by rcases c3 with h | h <;> omega
    have hm2 : shiftRNE n (bitlen n - 53) false ≤ 2 ^ 53 := by rcases c3 with h | h <;> omega
    have hD : (0 : ℚ) < 2 ^ (bitlen n - 53) := by positivity
    refine ⟨shiftRNE n (bitlen n - 53) false, e + ((bitlen n - 53 : Nat) : Int), ?_, hm1, hm2, ?_, ?_, ?_⟩
    · rw [zpow_add₀ h2, zpow_natCast]; ring
    · rw [zpow_add₀ h2, zpow_natCast]
      have : ((2 ^ 52 * 2 ^ (bitlen n - 53) : Nat) : ℚ) ≤ n := Nat.cast_le.2 hlo'
      push_cast at this
      calc (2 : ℚ) ^ 52 * (2 ^ e * 2 ^ (bitlen n - 53)) = (2 ^ 52 * 2 ^ (bitlen n - 53)) * 2 ^ e := by ring
        _ ≤ (n : ℚ) * 2 ^ e := mul_le_mul_of_nonneg_right this hE.le
    · rw [zpow_add₀ h2, zpow_natCast]
      have : (n : ℚ) < ((2 ^ 53 * 2 ^ (bitlen n - 53) : Nat) : ℚ) := Nat.cast_lt.2 hhi'
      push_cast at this
      calc (n : ℚ) * 2 ^ e < (2 ^ 53 * 2 ^ (bitlen n - 53)) * 2 ^ e := mul_lt_mul_of_pos_right this hE
        _ = 2 ^ 53 * (2 ^ e * 2 ^ (bitlen n - 53)) := by ring
    · rw [zpow_add₀ h2, zpow_natCast]
      have q1 : ((2 * (shiftRNE n (bitlen n - 53) false * 2 ^ (bitlen n - 53)) : Nat) : ℚ) ≤
          ((2 * n + 2 ^ (bitlen n - 53) : Nat) : ℚ) := Nat.cast_le.2 c1
      have q2 : ((2 * n : Nat) : ℚ) ≤
          ((2 * (shiftRNE n (bitlen n - 53) false * 2 ^ (bitlen n - 53)) + 2 ^ (bitlen n - 53) : Nat) : ℚ) :=
        Nat.cast_le.2 c2
      push_cast at q1 q2
      have : ((shiftRNE n (bitlen n - 53) false : Nat) : ℚ) * (2 ^ e * 2 ^ (bitlen n - 53)) - (n : ℚ) * 2 ^ e =
          (((shiftRNE n (bitlen n - 53) false : Nat) : ℚ) * 2 ^ (bitlen n - 53) - n) * 2 ^ e := by ring
      rw [this, abs_mul, abs_of_pos hE]
      have habs : |((shiftRNE n (bitlen n - 53) false : Nat) : ℚ) * 2 ^ (bitlen n - 53) - n| ≤
          2 ^ (bitlen n - 53) / 2 := by
        rw [abs_le]; constructor <;> linarith
      calc _ ≤ (2 ^ (bitlen n - 53) / 2 : ℚ) * 2 ^ e := mul_le_mul_of_nonneg_right habs hE.le
        _ = 2 ^ e * 2 ^ (bitlen n - 53) / 2 := by ring


/-! ### consequences of correct rounding -/

/-- a value at most a (53-bit) natural rounds to at most that natural -/
theorem IsRN.le_nat {x v : ℚ} {k : Nat} (h : IsRN x v) (hk0 : 0 < k) (hk : k < 2 ^ 53) (hx : x ≤ k) : v ≤ k := by
  have hw : IsRN ((k : ℚ) / ((1 : Nat) : ℚ)) (k : ℚ) := by simpa using isRN_nat hk0 hk
  exact IsRN.mono_le hk (by decide) (by simpa using hx) h hw

/-- a value at least a (53-bit) natural rounds to at least that natural -/
theorem IsRN.ge_nat {x v : ℚ} {k : Nat} (h : IsRN x v) (hk0 : 0 < k) (hk : k < 2 ^ 53) (hx : (k : ℚ) ≤ x) :
    (k : ℚ) ≤ v := by
  rcases lt_or_eq_of_le hx with hlt | heq
  · exact IsRN.mono hlt (isRN_nat hk0 hk) h
  · rw [← heq] at h
    exact le_of_eq (IsRN.exact_nat h hk).symm

/-- … and the same against any double `r = M · 2^E` with `M < 2^53` -/
theorem IsRN.le_double {x v : ℚ} {M : Nat} {E : Int} (h : IsRN x v) (hM0 : 0 < M) (hM : M < 2 ^ 53)
    (hx : x ≤ (M : ℚ) * 2 ^ E) : v ≤ (M : ℚ) * 2 ^ E := by
  have hs := h.scale (-E)
  have hE : (0 : ℚ) < 2 ^ E := two_zpow_pos E
  have hE' : (0 : ℚ) < 2 ^ (-E) := two_zpow_pos (-E)
  have hinv : (2 : ℚ) ^ E * 2 ^ (-E) = 1 := by rw [← zpow_add₀ two_ne_zero]; simp
  have hx' : x * 2 ^ (-E) ≤ M := by
    have := mul_le_mul_of_nonneg_right hx hE'.le
    rwa [mul_assoc, hinv, mul_one] at this
  have := hs.le_nat hM0 hM hx'
  have h2 := mul_le_mul_of_nonneg_right this hE.le
  rwa [mul_assoc, mul_comm (2 ^ (-E)) (2 ^ E), hinv, mul_one] at h2

theorem IsRN.pos {x v : ℚ} (h : IsRN x v) : 0 < v := h.rel.2

theorem IsRN.arg_pos {x v : ℚ} (h : IsRN x v) : 0 < x := by
  obtain ⟨m, e, _, _, _, h4, _, _⟩ := h
  exact lt_of_lt_of_le (mul_pos (by positivity) (two_zpow_pos e)) h4

/-- rounding is weakly monotone as soon as the LOWER argument is a quotient of 53-bit naturals -/
theorem IsRN.mono_ge {a b : Nat} {y v w : ℚ} (ha : a < 2 ^ 53) (hb : 0 < b) (hxy : (a : ℚ) / b ≤ y)
    (hv : IsRN ((a : ℚ) / b) v) (hw : IsRN y w) : v ≤ w := by
  rcases lt_or_eq_of_le hxy with h | h
  · exact IsRN.mono h hv hw
  · rw [← h] at hw
    exact le_of_eq (IsRN.unique ha hb hv hw)

/-! ### `fmul`, `div` -/

theorem fmul_val_zero {x y : F} (h : x.m = 0 ∨ y.m = 0) : (fmul x y).m = 0 := by
  unfold fmul roundNat
  have : x.m * y.m = 0 := by rcases h with h | h <;> simp [h]
  simp [this]

theorem isRN_fmul {x y : F} (hx : 0 < x.m) (hy : 0 < y.m) : IsRN (x.val * y.val) (fmul x y).val := by
  have h := isRN_roundNat (x.m * y.m) (x.e + y.e) (Nat.pos_iff_ne_zero.1 (Nat.mul_pos hx hy))
  have e : ((x.m * y.m : Nat) : ℚ) * 2 ^ (x.e + y.e) = x.val * y.val := by
    unfold F.val
    rw [zpow_add₀ two_ne_zero]; push_cast; ring
  rw [e] at h
  exact h

theorem fmul_pos {x y : F} (hx : 0 < x.m) (hy : 0 < y.m) : 0 < (fmul x y).m := by
  have := (isRN_fmul hx hy).pos
  by_contra hc
  have h0 : (fmul x y).m = 0 := by omega
  rw [val_zero_mant h0] at this
  exact lt_irrefl _ this

/-- `float(d) * b` with `0 < b ≤ 1` does not exceed `d` -/
theorem fmul_ofNat_le {d : Nat} {b : F} (hd : 0 < d) (hd53 : d < 2 ^ 53) (hb0 : 0 < b.m) (hb1 : b.val ≤ 1) :
    (fmul (ofNat d) b).val ≤ d := by
  have h := isRN_fmul (ofNat_pos hd) hb0
  rw [ofNat_val hd53] at h
  apply h.le_nat hd hd53
  have : (0 : ℚ) ≤ d := by positivity
  nlinarith

theorem isRN_div' {x y : F} (hx : 0 < x.m) (hy : 0 < y.m) : IsRN (x.val / y.val) (div x y).val :=
  isRN_div hx hy

theorem div_zero_num {x y : F} (hx : x.m = 0) : (div x y).m = 0 := by
  unfold div divNat
  simp [hx]

theorem div_pos_m {x y : F} (hx : 0 < x.m) (hy : 0 < y.m) : 0 < (div x y).m := by
  have := (isRN_div hx hy).pos
  by_contra hc
  have h0 : (div x y).m = 0 := by omega
  rw [val_zero_mant h0] at this
  exact lt_irrefl _ this

/-- `x / y ≤ 1` in binary64 as soon as `x ≤ y` -/
theorem div_le_one_of_le {x y : F} (hy : 0 < y.m) (h : x.val ≤ y.val) : (div x y).val ≤ 1 := by
  rcases Nat.eq_zero_or_pos x.m with hx | hx
  · rw [val_zero_mant (div_zero_num hx)]; norm_num
  · have hyv := F.val_pos hy
    have := (isRN_div hx hy).le_nat (k := 1) (by decide) (by decide)
      (by rw [Nat.cast_one, div_le_one hyv]; exact h)
    simpa using this

/-- `x / y ≥ 1` in binary64 as soon as `x ≥ y` -/
theorem div_ge_one_of_ge {x y : F} (hx : 0 < x.m) (hy : 0 < y.m) (h : y.val ≤ x.val) : 1 ≤ (div x y).val := by
  have hyv := F.val_pos hy
  have := (isRN_div hx hy).ge_nat (k := 1) (by decide) (by decide)
    (by rw [Nat.cast_one, le_div_iff₀ hyv, one_mul]; exact h)
  simpa using this

end Sm.F64

namespace Sm

open F64 PyCmp Cmp

/-! ### the value of `contained_by` / `max_containment` around the libm-dependent bias factor -/

/-- what is assumed of the bias factor `1.0 - (1.0 - 1.0/scaled) ** float(denom*scaled)`: a double in
    `(0, 1]`.  (True of the real-valued expression: `Sm.C05.bias_in_unit`; for the double it is a property
    of libm `pow` — it returns a value in `[0, 1)` for a base in `[0, 1)` — and of `scaled < 2^54`.) -/
structure BiasLaws (bias : Nat → Nat → F) : Prop where
  pos : ∀ s d, 1 ≤ s → 1 ≤ d → 0 < (bias s d).m
  le_one : ∀ s d, 1 ≤ s → 1 ≤ d → (bias s d).val ≤ 1

theorem contValue_range (bias : Nat → Nat → F) (c : Cont) :
    0 ≤ (c.value bias).val ∧ (c.value bias).val ≤ 1 := by
  cases c with
  | zero => simp [Cont.value, zero_val]
  | ratio cc d s => exact clamp01_range _

/-- the denominator `float(denom) * bias_factor` -/
theorem den_facts {bias : Nat → Nat → F} (L : BiasLaws bias) {d s : Nat} (hs : 1 ≤ s) (hd : 1 ≤ d)
    (hd53 : d < 2 ^ 53) :
    0 < (fmul (ofNat d) (bias s d)).m ∧ (fmul (ofNat d) (bias s d)).val ≤ d ∧
    0 < (fmul (ofNat d) (bias s d)).val :=
  ⟨fmul_pos (ofNat_pos hd) (L.pos s d hs hd),
   fmul_ofNat_le hd hd53 (L.pos s d hs hd) (L.le_one s d hs hd),
   F.val_pos (fmul_pos (ofNat_pos hd) (L.pos s d hs hd))⟩

/-- **the correction never lowers the plain double quotient** `fl(cc / d)`, in binary64 -/
theorem contValue_ge_plain {bias : Nat → Nat → F} (L : BiasLaws bias) {cc d s : Nat} (hs : 1 ≤ s)
    (hd : 1 ≤ d) (hd53 : d < 2 ^ 53) (hle : cc ≤ d) :
    (divNat cc d).val ≤ ((Cont.ratio cc d s).value bias).val := by
  obtain ⟨hm, hle', hpos⟩ := den_facts L hs hd hd53
  have hcc53 : cc < 2 ^ 53 := lt_of_le_of_lt hle hd53
  rcases Nat.eq_zero_or_pos cc with rfl | hcc
  · rw [divNat_zero_val]; exact (contValue_range bias _).1
  · have hq := isRN_div (x := ofNat cc) (y := fmul (ofNat d) (bias s d)) (ofNat_pos hcc) hm
    rw [ofNat_val hcc53] at hq
    have hv := isRN_divNat (a := cc) (b := d) hcc hd
    have hdq : (0 : ℚ) < d := by exact_mod_cast hd
    have hccq : (0 : ℚ) ≤ cc := by positivity
    have hord : (cc : ℚ) / d ≤ (cc : ℚ) / (fmul (ofNat d) (bias s d)).val :=
      div_le_div_of_nonneg_left hccq hpos hle'
    have h1 := IsRN.mono_ge hcc53 hd hord hv hq
    have hp1 : (divNat cc d).val ≤ 1 := by
      rw [← ratio_val_eq_divNat hd hcc53 hd53]; exact ratio_le_one hle hd hd53
    show _ ≤ (clamp01 _).val
    rw [clamp01_val]
    exact le_min hp1 h1

/-- full containment (`cc = d`) is reported as exactly `1.0` -/
theorem contValue_self {bias : Nat → Nat → F} (L : BiasLaws bias) {d s : Nat} (hs : 1 ≤ s)
    (hd : 1 ≤ d) (hd53 : d < 2 ^ 53) : (Cont.ratio d d s).value bias = one := by
  obtain ⟨hm, hle', hpos⟩ := den_facts L hs hd hd53
  have h := div_ge_one_of_ge (x := ofNat d) (y := fmul (ofNat d) (bias s d)) (ofNat_pos hd) hm
    (by rw [ofNat_val hd53]; exact hle')
  show clamp01 _ = one
  unfold clamp01
  rw [if_pos ((ge_iff_val _ _).2 (by rw [one_val]; exact h))]

/-- `0.0` is reported iff there is no common hash -/
theorem contValue_eq_zero_iff {bias : Nat → Nat → F} (L : BiasLaws bias) {cc d s : Nat} (hs : 1 ≤ s)
    (hd : 1 ≤ d) (hd53 : d < 2 ^ 53) : ((Cont.ratio cc d s).value bias).val = 0 ↔ cc = 0 := by
  obtain ⟨hm, _, _⟩ := den_facts L hs hd hd53
  show (clamp01 _).val = 0 ↔ _
  rw [clamp01_eq_zero_iff]
  constructor
  · intro h
    by_contra hc
    have := div_pos_m (x := ofNat cc) (y := fmul (ofNat d) (bias s d)) (ofNat_pos (Nat.pos_of_ne_zero hc)) hm
    omega
  · rintro rfl
    apply div_zero_num
    decide

/-- monotone in the number of common hashes, in binary64 -/
theorem contValue_mono {bias : Nat → Nat → F} (L : BiasLaws bias) {cc cc' d s : Nat} (hs : 1 ≤ s)
    (hd : 1 ≤ d) (hd53 : d < 2 ^ 53) (hcc : cc ≤ cc') (hcc53 : cc' < 2 ^ 53) :
    ((Cont.ratio cc d s).value bias).val ≤ ((Cont.ratio cc' d s).value bias).val := by
  obtain ⟨hm, _, hpos⟩ := den_facts L hs hd hd53
  rcases Nat.eq_zero_or_pos cc with rfl | h0
  · rw [(contValue_eq_zero_iff L hs hd hd53).2 rfl]; exact (contValue_range bias _).1
  · rcases Nat.lt_or_ge cc cc' with hlt | hge
    · apply clamp01_mono
      have h1 := isRN_div (x := ofNat cc) (y := fmul (ofNat d) (bias s d)) (ofNat_pos h0) hm
      have h2 := isRN_div (x := ofNat cc') (y := fmul (ofNat d) (bias s d)) (ofNat_pos (by omega)) hm
      rw [ofNat_val (by omega)] at h1
      rw [ofNat_val hcc53] at h2
      apply IsRN.mono _ h1 h2
      apply div_lt_div_of_pos_right _ hpos
      exact_mod_cast hlt
    · have : cc = cc' := by omega
      subst this; exact le_rfl

/-- when the bias factor is exactly `1.0` the value is the clamped plain quotient -/
theorem contValue_bias_one {bias : Nat → Nat → F} {cc d s : Nat} (hd : 1 ≤ d) (hd53 : d < 2 ^ 53)
    (hcc53 : cc < 2 ^ 53) (hb : bias s d = one) :
    ((Cont.ratio cc d s).value bias).val = ((Cont.ratio cc d s).unbiased).val := by
  show (clamp01 _).val = (clamp01 _).val
  rw [clamp01_val, clamp01_val, hb]
  congr 1
  have hone : (0 : Nat) < one.m := by decide
  have hden := isRN_fmul (x := ofNat d) (y := one) (ofNat_pos hd) hone
  rw [ofNat_val hd53, one_val, mul_one] at hden
  have hdv : (fmul (ofNat d) one).val = d := IsRN.exact_nat hden hd53
  rcases Nat.eq_zero_or_pos cc with rfl | hcc
  · have e0 : (ofNat 0).m = 0 := by decide
    rw [val_zero_mant (div_zero_num e0), val_zero_mant (div_zero_num e0)]
  · have h1 := isRN_div (x := ofNat cc) (y := fmul (ofNat d) one) (ofNat_pos hcc)
      (fmul_pos (ofNat_pos hd) hone)
    rw [ofNat_val hcc53, hdv] at h1
    exact IsRN.unique hcc53 hd h1 (isRN_ratio hcc hd hcc53 hd53)

end Sm

namespace Sm.F64

/-! ### subtraction of doubles -/

theorem val_alignL (x y : F) : x.val = (alignL x y : ℚ) * 2 ^ (min x.e y.e) := by
  unfold F.val alignL
  have hnn : 0 ≤ x.e - min x.e y.e := by have := min_le_left x.e y.e; omega
  push_cast
  rw [mul_assoc, ← zpow_natCast, Int.toNat_of_nonneg hnn, ← zpow_add₀ two_ne_zero]
  congr 2
  ring

theorem val_alignR (x y : F) : y.val = (alignR x y : ℚ) * 2 ^ (min x.e y.e) := by
  unfold F.val alignR
  have hnn : 0 ≤ y.e - min x.e y.e := by have := min_le_right x.e y.e; omega
  push_cast
  rw [mul_assoc, ← zpow_natCast, Int.toNat_of_nonneg hnn, ← zpow_add₀ two_ne_zero]
  congr 2
  ring

theorem align_le_iff (x y : F) : alignR x y ≤ alignL x y ↔ y.val ≤ x.val := by
  rw [val_alignL x y, val_alignR x y]
  have hp : (0 : ℚ) < 2 ^ (min x.e y.e) := two_zpow_pos _
  constructor
  · intro h
    exact mul_le_mul_of_nonneg_right (by exact_mod_cast h) hp.le
  · intro h
    have := le_of_mul_le_mul_right h hp
    exact_mod_cast this

/-- `x - y` for `y ≤ x`: non-negative, exactly `0` when equal, never above a 53-bit natural bounding `x` -/
theorem subF_of_le {x y : F} (h : y.val ≤ x.val) :
    (SF.subF x y).neg = false ∧ (y.val = x.val → (SF.subF x y).a.m = 0) ∧
    ∀ k : Nat, 0 < k → k < 2 ^ 53 → x.val ≤ k → (SF.subF x y).a.val ≤ k := by
  have hA := (align_le_iff x y).2 h
  unfold SF.subF
  rw [if_pos hA]
  refine ⟨rfl, ?_, ?_⟩
  · intro heq
    have : alignL x y = alignR x y := by
      have h1 := (align_le_iff x y).2 (le_of_eq heq)
      have h2 := (align_le_iff y x).2 (le_of_eq heq.symm)
      -- alignL/alignR of (y, x) are the mirror images
      have hm : min y.e x.e = min x.e y.e := min_comm _ _
      have e1 : alignL y x = alignR x y := by unfold alignL alignR; rw [hm]
      have e2 : alignR y x = alignL x y := by unfold alignL alignR; rw [hm]
      rw [e1, e2] at h2
      omega
    show (roundNat (alignL x y - alignR x y) (min x.e y.e)).m = 0
    rw [this, Nat.sub_self]; rfl
  · intro k hk0 hk hx
    show (roundNat (alignL x y - alignR x y) (min x.e y.e)).val ≤ k
    by_cases hz : alignL x y - alignR x y = 0
    · rw [hz]
      have : (roundNat 0 (min x.e y.e)) = ⟨0, 0⟩ := rfl
      rw [this]
      have : (⟨0, 0⟩ : F).val = 0 := by simp [F.val]
      rw [this]; positivity
    · have hr := isRN_roundNat _ (min x.e y.e) hz
      apply hr.le_nat hk0 hk
      have : ((alignL x y - alignR x y : Nat) : ℚ) * 2 ^ (min x.e y.e) = x.val - y.val := by
        rw [val_alignL x y, val_alignR x y, Nat.cast_sub hA]; ring
      rw [this]
      have := F.val_nonneg y
      linarith

/-- rounding a double gives that double -/
theorem IsRN.exact_double {v : ℚ} {M : Nat} {E : Int} (h : IsRN ((M : ℚ) * 2 ^ E) v) (hM : M < 2 ^ 53) :
    v = (M : ℚ) * 2 ^ E := by
  have hs := h.scale (-E)
  have hinv : (2 : ℚ) ^ E * 2 ^ (-E) = 1 := by rw [← zpow_add₀ two_ne_zero]; simp
  rw [mul_assoc, hinv, mul_one] at hs
  have := IsRN.exact_nat hs hM
  have hE : (2 : ℚ) ^ (-E) ≠ 0 := (two_zpow_pos _).ne'
  have h2 : v = (M : ℚ) / 2 ^ (-E) := by rw [← this]; field_simp
  rw [h2, zpow_neg]; field_simp

theorem PI_val : PI.val = 2 * halfPI.val := by
  simp only [PI, halfPI, F.val]
  rw [show (-51 : Int) = -52 + 1 by norm_num, zpow_add₀ two_ne_zero]
  ring

end Sm.F64

namespace Sm

open F64 Cmp

/-! ### the angular similarity around the libm-dependent `acos` -/

/-- what is assumed of libm `acos` on `[0, 1]`: exact at both ends (`acos(1.0) = +0`,
    `acos(+0) = fl(π/2)`, as IEEE 754-2008 §9.2 recommends and glibc delivers) and never above `fl(π/2)` -/
structure AcosLaws (acos : F → F) : Prop where
  at_one : ∀ c, c.val = 1 → (acos c).m = 0
  at_zero : ∀ c, c.m = 0 → (acos c).val = halfPI.val
  le_halfPI : ∀ c, c.val ≤ 1 → (acos c).val ≤ halfPI.val

/-- the clamp `f64::min(·, 1.)`: `acos` is never handed an argument above 1 (no NaN) -/
theorem cosArg_le_one (p a b : Nat) : (cosArg p a b).val ≤ 1 := by
  unfold cosArg
  simp only
  split
  · rw [one_val]
  · rename_i h
    have := (not_ge_iff _ one).1 (by simpa using h)
    rw [one_val] at this
    exact this.le

/-- sufficient (and, by monotone rounding, necessary) for the clamp to deliver exactly `1.0`:
    the rounded product of the two rounded norms does not exceed the dot product -/
theorem cosArg_eq_one_of_le {p a b : Nat} (hp : 0 < p)
    (hn : 0 < (fmul (F64.sqrt (ofNat a)) (F64.sqrt (ofNat b))).m)
    (h : (fmul (F64.sqrt (ofNat a)) (F64.sqrt (ofNat b))).val ≤ (ofNat p).val) :
    cosArg p a b = one := by
  unfold cosArg
  simp only
  have := div_ge_one_of_ge (ofNat_pos hp) hn h
  rw [if_pos ((ge_iff_val _ _).2 (by rw [one_val]; exact this))]

/-- the value `1. - 2. * acos(c) / PI` for an argument in `[0, 1]`: non-negative and at most 1 -/
theorem angTail_range {acos : F → F} (L : AcosLaws acos) {c : F} (hc : c.val ≤ 1) :
    (angTail acos c).neg = false ∧ (angTail acos c).a.val ≤ 1 := by
  unfold angTail
  have hd : (div (fmul two (acos c)) PI).val ≤ 1 := by
    apply div_le_one_of_le (by decide)
    rcases Nat.eq_zero_or_pos (acos c).m with h0 | h0
    · rw [val_zero_mant (fmul_val_zero (Or.inr h0))]; exact F.val_nonneg _
    · have h := isRN_fmul (x := two) (y := acos c) (by decide) h0
      have e2 : two.val = 2 := by simp [two, F.val]
      rw [e2] at h
      have hle : 2 * (acos c).val ≤ ((0x1921FB54442D18 : Nat) : ℚ) * 2 ^ (-51 : Int) := by
        have := L.le_halfPI c hc
        have hp := PI_val
        have hPI : PI.val = ((0x1921FB54442D18 : Nat) : ℚ) * 2 ^ (-51 : Int) := by simp [PI, F.val]
        rw [← hPI, hp]; linarith
      have := h.le_double (M := 0x1921FB54442D18) (E := -51) (by decide) (by decide) hle
      simpa [PI, F.val] using this
  have h1 : (div (fmul two (acos c)) PI).val ≤ one.val := by rw [one_val]; exact hd
  obtain ⟨hneg, _, hbound⟩ := subF_of_le h1
  exact ⟨hneg, by simpa using hbound 1 (by decide) (by decide) (by rw [one_val]; norm_num)⟩

/-- cosine argument exactly 1 (after the clamp): the similarity is exactly `1.0` -/
theorem angTail_at_one {acos : F → F} (L : AcosLaws acos) {c : F} (hc : c.val = 1) :
    angTail acos c = SF.one := by
  unfold angTail
  have h0 := L.at_one c hc
  have e1 : fmul two (acos c) = ⟨0, 0⟩ := by
    unfold fmul roundNat; simp [h0]
  rw [e1]
  decide +kernel

/-- cosine argument 0 (no common hash): the similarity is `0.0` -/
theorem angTail_at_zero {acos : F → F} (L : AcosLaws acos) {c : F} (hc : c.m = 0) :
    (angTail acos c).neg = false ∧ (angTail acos c).a.m = 0 := by
  unfold angTail
  have hA := L.at_zero c hc
  have hApos : 0 < (acos c).m := by
    by_contra hz
    have : (acos c).m = 0 := by omega
    rw [val_zero_mant this] at hA
    have : (0 : ℚ) < halfPI.val := F.val_pos (by decide)
    linarith
  have h := isRN_fmul (x := two) (y := acos c) (by decide) hApos
  have e2 : two.val = 2 := by simp [two, F.val]
  rw [e2, hA, ← PI_val] at h
  have hPI : PI.val = ((0x1921FB54442D18 : Nat) : ℚ) * 2 ^ (-51 : Int) := by simp [PI, F.val]
  rw [hPI] at h
  have hv := IsRN.exact_double h (by decide)
  rw [← hPI] at hv
  have hw : 0 < (fmul two (acos c)).m := fmul_pos (by decide) hApos
  have hq := isRN_div (x := fmul two (acos c)) (y := PI) hw (by decide)
  rw [hv, div_self (F.val_pos (x := PI) (by decide)).ne'] at hq
  have hone : (div (fmul two (acos c)) PI).val = 1 := by
    have := IsRN.exact_nat (k := 1) (by simpa using hq) (by decide)
    simpa using this
  obtain ⟨hneg, hz, _⟩ := subF_of_le (x := one) (y := div (fmul two (acos c)) PI) (by rw [hone, one_val])
  exact ⟨hneg, hz (by rw [hone, one_val])⟩

end Sm

namespace Sm.F64

/-! ### `(c1 + c2) / 2` -/

theorem add_val_sum (x y : F) (h : 0 < x.m ∨ 0 < y.m) : IsRN (x.val + y.val) (F64.add x y).val := by
  have hn : 0 < alignL x y + alignR x y := by
    rcases h with h | h
    · have : 0 < alignL x y := Nat.mul_pos h (by positivity)
      omega
    · have : 0 < alignR x y := Nat.mul_pos h (by positivity)
      omega
  have h1 := isRN_divNat (a := alignL x y + alignR x y) (b := 1) hn (by decide)
  have hs := h1.scale (min x.e y.e)
  have hm := divNat_pos (alignL x y + alignR x y) 1 hn (by decide)
  have e1 : ((alignL x y + alignR x y : Nat) : ℚ) / ((1 : Nat) : ℚ) * 2 ^ (min x.e y.e) = x.val + y.val := by
    rw [val_alignL x y, val_alignR x y]; push_cast; ring
  have e2 : (F64.add x y).val = (divNat (alignL x y + alignR x y) 1).val * 2 ^ (min x.e y.e) := by
    unfold F64.add
    simp only
    have : (x.m * 2 ^ (x.e - min x.e y.e).toNat + y.m * 2 ^ (y.e - min x.e y.e).toNat) =
        alignL x y + alignR x y := rfl
    rw [this, if_neg (by omega)]
    unfold F.val
    simp only
    rw [zpow_add₀ two_ne_zero]; ring
  rw [e1] at hs
  rw [e2]; exact hs

theorem half_val (x : F) : (half x).val = x.val / 2 := by
  unfold half
  split
  · rename_i h; rw [val_zero_mant h]; norm_num
  · unfold F.val
    simp only
    rw [zpow_sub₀ two_ne_zero]; simp; ring

end Sm.F64

namespace Sm

open F64 PyCmp

/-- the mean of two doubles in `[0, 1]` is a double in `[0, 1]` -/
theorem avgF_range {x y : F} (hx : x.val ≤ 1) (hy : y.val ≤ 1) :
    0 ≤ (avgF x y).val ∧ (avgF x y).val ≤ 1 := by
  refine ⟨F.val_nonneg _, ?_⟩
  unfold avgF
  rw [half_val]
  by_cases h : 0 < x.m ∨ 0 < y.m
  · have := (add_val_sum x y h).le_nat (k := 2) (by decide) (by decide) (by push_cast; linarith)
    push_cast at this
    linarith
  · have hx0 : x.m = 0 := by omega
    have hy0 : y.m = 0 := by omega
    have : (F64.add x y).m = 0 := by
      unfold F64.add
      simp [hx0, hy0, divNat]
    rw [val_zero_mant this]; norm_num

end Sm
