/-
C01 over the whole handle table of the `mh` stream: the representation invariant `Inv` (strictly ascending
hashes, aligned abundance vector with every stored abundance ≥ 1, threshold and capacity respected) together
with `Excl` (a sketch is a num sketch or a scaled sketch, not both — what the Python constructor enforces) is
preserved by every model function the driver calls, hence holds in every cell (sketch handles and signature
objects) after every history of operations (`table_inv`).
-/
import SmVerif.Lemmas.MinHashInv
import SmVerif.Lemmas.MhMachine

namespace Sm

open MH DriverMh

/-- a valid sketch that is not both num and scaled -/
def Good (s : MH) : Prop := Inv s ∧ Excl s

theorem Excl.md5sum {s : MH} (hx : Excl s) : Excl s.md5sum.1 := by
  have h := md5sum_fields s
  unfold Excl at *
  rw [h.2.2.1, h.2.2.2]; exact hx

theorem Excl.merge {s o r : MH} (hx : Excl s) (hr : s.merge o = .ok r) : Excl r := by
  have hf := merge_frame hr
  unfold Excl at *
  rw [hf.1, hf.2.1]; exact hx

theorem invx_ffiIntersection {s o s' r : MH} (hs : Inv s) (hx : Excl s)
    (hr : s.ffiIntersection o = .ok (s', r)) : Good s' ∧ Good r := by
  have hi := inv_ffiIntersection hs hx hr
  unfold MH.ffiIntersection at hr
  cases hint : s.intersection o with
  | error e => simp [hint, bind, Except.bind] at hr
  | ok v =>
    obtain ⟨c, n⟩ := v
    simp only [hint, bind, Except.bind, pure, Except.pure, Except.ok.injEq, Prod.mk.injEq] at hr
    obtain ⟨rfl, rfl⟩ := hr
    exact ⟨⟨hi.1, hx.clone.1⟩, ⟨hi.2, (hx.clone.2).clear.addMany _⟩⟩

theorem invx_pyIntersection {s o s' r : MH} (hs : Inv s) (hx : Excl s)
    (hr : Py.intersection s o = .ok (s', r)) : Good s' ∧ Good r := by
  unfold Py.intersection at hr
  split at hr
  · cases hr
  · exact invx_ffiIntersection hs hx hr

/-- `Inv ∧ Excl` is preserved by every model function the driver calls -/
theorem good_closed : Closed Good where
  mkNew := fun h => inv_mkMinHash h
  addHash := fun v h => ⟨inv_addHash h.1 h.2 v, h.2.addHash v⟩
  pyAddAb := fun h hr => ⟨inv_pyAddHashWithAbundance h.1 h.2 hr, h.2.pyAddHashWithAbundance hr⟩
  addMany := fun vs h => invx_addMany h.1 h.2 vs
  addFrom := fun o h _ => ⟨inv_addFrom h.1 h.2 o, h.2.addFrom o⟩
  removeMany := fun vs h => ⟨inv_removeMany h.1 vs, h.2.removeMany vs⟩
  removeFrom := fun o h _ => ⟨inv_removeFrom h.1 o, h.2.removeFrom o⟩
  setAb := fun h hr => ⟨inv_pySetAbundances h.1 h.2 hr, h.2.pySetAbundances hr⟩
  clear := fun h => ⟨inv_clear h.1, h.2.clear⟩
  merge := fun h ho hr => ⟨inv_merge h.1 ho.1 hr, h.2.merge hr⟩
  add := fun h ho hr => invx_pyAdd h.1 ho.1 hr
  copy := fun h hr => invx_pyCopy h.1 hr
  pickle := fun h => ⟨inv_pickleRoundTrip h.2, h.2.pickleRoundTrip⟩
  downsample := fun _ hr => invx_pyDownsample hr
  flatten := fun _ hr => invx_pyFlatten hr
  inter := fun h _ hr => invx_pyIntersection h.1 h.2 hr
  inflate := fun _ _ hr => invx_pyInflate hr
  md5sum := fun h => ⟨inv_md5sum h.1, h.2.md5sum⟩
  clone := fun h => ⟨⟨(inv_clone h.1).1, h.2.clone.1⟩, ⟨(inv_clone h.1).2, h.2.clone.2⟩⟩

/-- after every history, from the empty table, every cell holds a valid sketch -/
theorem table_good (ops : List Op) : All Good (run init ops).1 :=
  all_run good_closed ops (all_init _)

/-- … and at every intermediate step too -/
theorem trace_good (ops : List Op) : ∀ t ∈ trace init ops, All Good t.1 := fun t ht =>
  (trace_forall good_closed (Q := fun _ _ _ => True) (fun _ _ _ => trivial) ops (all_init _) t ht).1

/-- whatever sketch an operation shows (`ok num=… mins=… ab=…`) is valid -/
theorem exec_shown_good {st : St} (h : All Good st) (op : Op) {s : MH}
    (ha : (exec st op).2 = .mh s) : Good s := by
  have h' := all_exec good_closed h op
  -- an `.mh s` answer is produced by `finA … (.ok s)` (then `s` is stored) or by `show` (then `s` is in the table)
  cases op with
  | «show» hd =>
    simp only [exec] at ha
    split at ha
    · rename_i t ht
      cases ha
      exact h _ _ ht
    · cases ha
  | unparsed => cases ha
  | reset => cases ha
  | skip => cases ha
  | new r num scaled tr ksize seed =>
    simp only [exec, finA] at ha
    split at ha
    · rename_i t ht; cases ha; exact inv_mkMinHash ht
    · cases ha
  | newmh r num mx tr ksize seed =>
    simp only [exec, finA] at ha
    split at ha
    · rename_i t ht; cases ha; exact inv_mkMinHash ht
    · cases ha
  | add hd v =>
    simp only [exec] at ha
    split at ha
    · rename_i t ht
      simp only [finA] at ha
      cases ha
      exact good_closed.addHash v (h _ _ ht)
    · cases ha
  | addab hd v a =>
    simp only [exec] at ha
    split at ha
    · rename_i t ht
      simp only [finA] at ha
      split at ha
      · rename_i u hu; cases ha; exact good_closed.pyAddAb (h _ _ ht) hu
      · cases ha
    · cases ha
  | addmany hd vs =>
    simp only [exec] at ha
    split at ha
    · rename_i t ht
      simp only [finA] at ha
      cases ha
      exact good_closed.addMany vs (h _ _ ht)
    · cases ha
  | addfrom hd g =>
    simp only [exec] at ha
    split at ha
    · rename_i t o ht ho
      simp only [finA] at ha
      cases ha
      exact good_closed.addFrom o (h _ _ ht) (h _ _ ho)
    · cases ha
  | rm hd vs =>
    simp only [exec] at ha
    split at ha
    · rename_i t ht
      simp only [finA] at ha
      cases ha
      exact good_closed.removeMany vs (h _ _ ht)
    · cases ha
  | rmfrom hd g =>
    simp only [exec] at ha
    split at ha
    · rename_i t o ht ho
      simp only [finA] at ha
      cases ha
      exact good_closed.removeFrom o (h _ _ ht) (h _ _ ho)
    · cases ha
  | setab hd c ps =>
    simp only [exec] at ha
    split at ha
    · rename_i t ht
      simp only [finA] at ha
      split at ha
      · rename_i u hu; cases ha; exact good_closed.setAb (h _ _ ht) hu
      · cases ha
    · cases ha
  | clear hd =>
    simp only [exec] at ha
    split at ha
    · rename_i t ht
      simp only [finA] at ha
      cases ha
      exact good_closed.clear (h _ _ ht)
    · cases ha
  | merge hd g =>
    simp only [exec] at ha
    split at ha
    · rename_i t o ht ho
      simp only [finA] at ha
      split at ha
      · rename_i u hu; cases ha; exact good_closed.merge (h _ _ ht) (h _ _ ho) hu
      · cases ha
    · cases ha
  | plus r hd g =>
    simp only [exec] at ha
    split at ha
    · rename_i t o ht ho
      simp only [finA] at ha
      split at ha
      · rename_i u hu; cases ha; exact good_closed.add (h _ _ ht) (h _ _ ho) hu
      · cases ha
    · cases ha
  | copy r hd =>
    simp only [exec] at ha
    split at ha
    · rename_i t ht
      simp only [finA] at ha
      split at ha
      · rename_i u hu; cases ha; exact good_closed.copy (h _ _ ht) hu
      · cases ha
    · cases ha
  | pickle r hd =>
    simp only [exec] at ha
    split at ha
    · rename_i t ht
      simp only [finA] at ha
      cases ha
      exact good_closed.pickle (h _ _ ht)
    · cases ha
  | down r hd sc =>
    simp only [exec] at ha
    split at ha
    · rename_i t ht
      simp only [finA] at ha
      split at ha
      · rename_i u hu; cases ha; exact good_closed.downsample (h _ _ ht) hu
      · cases ha
    · cases ha
  | downnum r hd n =>
    simp only [exec] at ha
    split at ha
    · rename_i t ht
      simp only [finA] at ha
      split at ha
      · rename_i u hu; cases ha; exact good_closed.downsample (h _ _ ht) hu
      · cases ha
    · cases ha
  | flat r hd =>
    simp only [exec] at ha
    split at ha
    · rename_i t ht
      split at ha
      · rename_i f hf
        simp only [finA] at ha
        cases ha
        exact good_closed.flatten (h _ _ ht) hf
      · simp only [finA] at ha
        cases ha
        exact h _ _ ht
      · simp only [finA] at ha
        cases ha
    · cases ha
  | inter r hd g =>
    simp only [exec] at ha
    split at ha
    · rename_i t o ht ho
      split at ha
      · rename_i t' n hi
        simp only [finA] at ha
        cases ha
        exact (good_closed.inter (h _ _ ht) (h _ _ ho) hi).2
      · simp only [finA] at ha
        cases ha
    · cases ha
  | inflate r hd g =>
    simp only [exec] at ha
    split at ha
    · rename_i t o ht ho
      simp only [finA] at ha
      split at ha
      · rename_i u hu; cases ha; exact good_closed.inflate (h _ _ ht) (h _ _ ho) hu
      · cases ha
    · cases ha
  | md5raw hd =>
    simp only [exec] at ha
    split at ha <;> cases ha
  | md5 hd =>
    simp only [exec] at ha
    split at ha <;> cases ha
  | cc hd g ds =>
    simp only [exec] at ha
    split at ha
    · split at ha <;> cases ha
    · cases ha
  | iu hd g =>
    simp only [exec] at ha
    split at ha
    · split at ha
      · cases ha
      · split at ha <;> cases ha
    · cases ha
  | sig s hd =>
    simp only [exec] at ha
    split at ha
    · unfold showSig at ha
      split at ha <;> cases ha
    · cases ha
  | sigsetmh s hd =>
    simp only [exec] at ha
    split at ha
    · unfold showSig at ha
      split at ha <;> cases ha
    · cases ha
  | sigmd5 s =>
    simp only [exec] at ha
    split at ha
    · unfold showSig at ha
      split at ha <;> cases ha
    · cases ha
  | sigadd s bytes force =>
    simp only [exec] at ha
    split at ha
    · split at ha
      · cases ha
      · unfold showSig at ha
        split at ha <;> cases ha
    · cases ha
  | sigcopy r s =>
    simp only [exec] at ha
    split at ha
    · unfold showSig at ha
      split at ha <;> cases ha
    · cases ha
  | addseq hd bytes force =>
    simp only [exec] at ha
    split at ha
    · rename_i t ht
      split at ha
      · cases ha
      · cases ha
        exact good_closed.addMany _ (h _ _ ht)
    · cases ha

end Sm
