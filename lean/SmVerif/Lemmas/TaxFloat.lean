/-
C19 helper lemmas, part 6: the binary64 tables of a valid gather result, and why the
tolerance repair of D18 never rejects one.

`Bnd`: after `j` rows of total `k`-sum `S` (weight `Sw`), every accumulator is a positive double
with value ≤ (S/N)(1+u)^j (resp. (Sw/W)(1+u)^j) — each addition and each division loses at most
one unit roundoff `u = 2^-53` upwards.
-/
import SmVerif.Lemmas.Float64Err
import SmVerif.Lemmas.TaxBuild

namespace Sm.Tax

open Sm.F64

set_option linter.unusedSectionVars false
set_option linter.unusedSimpArgs false
variable {ν : Type} [DecidableEq ν]

/-! ### signed comparison on non-negative doubles -/

theorem lt_nonneg (x y : SF) (hx : x.neg = false) (hy : y.neg = false) :
    SF.lt x y = true ↔ x.a.toQ < y.a.toQ := by
  unfold SF.lt
  simp only [hx, hy]
  rw [Bool.not_eq_true', ← Bool.not_eq_true, ge_iff, not_le]

theorem lt_nonneg_false (x y : SF) (hx : x.neg = false) (hy : y.neg = false) (h : y.a.toQ ≤ x.a.toQ) :
    SF.lt x y = false := by
  rw [← Bool.not_eq_true, lt_nonneg x y hx hy]; exact not_lt.mpr h

theorem lt_nonneg_neg (x y : SF) (hx : x.neg = false) (hy : y.neg = true) : SF.lt x y = false := by
  unfold SF.lt; simp [hx, hy]

theorem add_nonneg' (x y : SF) (hx : x.neg = false) (hy : y.neg = false) : SF.add x y = ⟨false, fadd x.a y.a⟩ := by
  unfold SF.add; simp [hx, hy]

theorem zero_toQ : (SF.zero).a.toQ = 0 := by simp [SF.zero, F.toQ]
theorem one_toQ : (SF.one).a.toQ = 1 := by simp [SF.one, F.toQ]

/-- a double that may be summed: non-negative sign, positive mantissa -/
def PosD (x : SF) : Prop := x.neg = false ∧ 0 < x.a.m

/-! ### the table invariant -/

def Bnd (N W S Sw j : Nat) (t : Tbl SF ν) : Prop :=
  (t ≠ [] → 1 ≤ j) ∧ ∀ x ∈ t,
    PosD x.2.f ∧ x.2.f.a.toQ ≤ (S : ℚ) / N * (1 + u) ^ j ∧
    PosD x.2.fw ∧ x.2.fw.a.toQ ≤ (Sw : ℚ) / W * (1 + u) ^ j

theorem bound_mono (N S k j : Nat) (x : ℚ) (h : x ≤ (S : ℚ) / N * (1 + u) ^ j) :
    x ≤ ((S + k : Nat) : ℚ) / N * (1 + u) ^ (j + 1) := by
  have hu := u_pos
  have h1 : (1 : ℚ) ≤ (1 + u) ^ j := one_le_one_add_u_pow j
  have h2 : (0 : ℚ) ≤ (S : ℚ) / N := by positivity
  have h3 : (S : ℚ) / N ≤ ((S + k : Nat) : ℚ) / N := by
    push_cast
    exact div_le_div_of_nonneg_right (by linarith [(Nat.cast_nonneg k : (0 : ℚ) ≤ k)]) (by positivity)
  have h4 : (1 + u) ^ j ≤ (1 + u) ^ (j + 1) := by
    rw [pow_succ]; nlinarith [pow_pos (by linarith : (0 : ℚ) < 1 + u) j]
  calc x ≤ (S : ℚ) / N * (1 + u) ^ j := h
    _ ≤ ((S + k : Nat) : ℚ) / N * (1 + u) ^ (j + 1) := by
      apply mul_le_mul h3 h4 (by positivity) (by positivity)

/-- a fresh accumulator: the row's own fraction -/
theorem bound_new (N S k j : Nat) (x : ℚ) (h : x ≤ (k : ℚ) / N * (1 + u)) :
    x ≤ ((S + k : Nat) : ℚ) / N * (1 + u) ^ (j + 1) := by
  have hu := u_pos
  have h3 : (k : ℚ) / N ≤ ((S + k : Nat) : ℚ) / N := by
    push_cast
    exact div_le_div_of_nonneg_right (by linarith [(Nat.cast_nonneg S : (0 : ℚ) ≤ S)]) (by positivity)
  have h4 : (1 + u) ≤ (1 + u) ^ (j + 1) := by
    have := one_le_one_add_u_pow j
    rw [pow_succ]; nlinarith
  calc x ≤ (k : ℚ) / N * (1 + u) := h
    _ ≤ ((S + k : Nat) : ℚ) / N * (1 + u) ^ (j + 1) := by
      apply mul_le_mul h3 h4 (by linarith) (by positivity)

/-- an accumulator that receives the row: one more addition -/
theorem bound_add (N S k j : Nat) (hj : 1 ≤ j) (a d s : ℚ) (ha : a ≤ (S : ℚ) / N * (1 + u) ^ j)
    (hd : d ≤ (k : ℚ) / N * (1 + u)) (hs : s ≤ (a + d) * (1 + u)) :
    s ≤ ((S + k : Nat) : ℚ) / N * (1 + u) ^ (j + 1) := by
  have hu := u_pos
  have h1 : (1 + u) ≤ (1 + u) ^ j := by
    obtain ⟨i, rfl⟩ : ∃ i, j = i + 1 := ⟨j - 1, by omega⟩
    have := one_le_one_add_u_pow i
    rw [pow_succ]; nlinarith
  have hk : (0 : ℚ) ≤ (k : ℚ) / N := by positivity
  have hd' : d ≤ (k : ℚ) / N * (1 + u) ^ j := le_trans hd (mul_le_mul_of_nonneg_left h1 hk)
  have : a + d ≤ ((S + k : Nat) : ℚ) / N * (1 + u) ^ j := by
    push_cast
    rw [add_div, add_mul]
    linarith
  calc s ≤ (a + d) * (1 + u) := hs
    _ ≤ (((S + k : Nat) : ℚ) / N * (1 + u) ^ j) * (1 + u) := mul_le_mul_of_nonneg_right this (by linarith)
    _ = _ := by rw [pow_succ]; ring

/-- the row a gather line becomes in binary64 -/
def GRow.toF (N W scaled : Nat) (x : GRow ν) : RowV SF ν :=
  ⟨SF.ofF (divNat x.k N), SF.ofF (divNat x.w W), x.k * scaled, x.lin⟩

theorem toF_eq (g : Gather ν) : g.toF = g.rows.map (GRow.toF g.N g.W g.scaled) := rfl

theorem bump_bnd (N W S Sw j : Nat) (x : GRow ν) (sc : Nat) (hk : 0 < x.k ∧ x.k ≤ N) (hw : 0 < x.w ∧ x.w ≤ W)
    (key : Lineage ν) (t : Tbl SF ν) (h : Bnd N W S Sw j t) :
    Bnd N W (S + x.k) (Sw + x.w) (j + 1) (bump f64 key (GRow.toF N W sc x) t) := by
  have hdk := divNat_le x.k N hk.1 hk.2
  have hdw := divNat_le x.w W hw.1 hw.2
  have hpk := divNat_pos x.k N hk.1 hk.2
  have hpw := divNat_pos x.w W hw.1 hw.2
  induction t with
  | nil =>
    refine ⟨fun _ => by omega, ?_⟩
    intro y hy
    simp only [bump, List.mem_singleton] at hy
    subst hy
    have e1 : f64.add f64.zero (GRow.toF N W sc x).f = ⟨false, divNat x.k N⟩ := by
      show SF.add SF.zero (SF.ofF (divNat x.k N)) = _
      rw [add_nonneg' _ _ rfl rfl]; simp [fadd, SF.zero, SF.ofF]
    have e2 : f64.add f64.zero (GRow.toF N W sc x).fw = ⟨false, divNat x.w W⟩ := by
      show SF.add SF.zero (SF.ofF (divNat x.w W)) = _
      rw [add_nonneg' _ _ rfl rfl]; simp [fadd, SF.zero, SF.ofF]
    simp only [e1, e2]
    exact ⟨⟨rfl, hpk⟩, bound_new N S x.k j _ hdk, ⟨rfl, hpw⟩, bound_new W Sw x.w j _ hdw⟩
  | cons y t ih =>
    obtain ⟨k0, a⟩ := y
    have hj : 1 ≤ j := h.1 (by simp)
    have hy := h.2 (k0, a) (List.mem_cons_self ..)
    have ht : Bnd N W S Sw j t := ⟨fun _ => hj, fun z hz => h.2 z (List.mem_cons_of_mem _ hz)⟩
    refine ⟨fun _ => by omega, ?_⟩
    unfold bump
    by_cases hkey : k0 = key
    · simp only [hkey, if_true]
      intro z hz
      rcases List.mem_cons.mp hz with hz | hz
      · subst hz
        simp only
        have e1 : f64.add a.f (GRow.toF N W sc x).f = ⟨false, fadd a.f.a (divNat x.k N)⟩ := by
          show SF.add a.f (SF.ofF (divNat x.k N)) = _
          rw [add_nonneg' _ _ hy.1.1 rfl]; rfl
        have e2 : f64.add a.fw (GRow.toF N W sc x).fw = ⟨false, fadd a.fw.a (divNat x.w W)⟩ := by
          show SF.add a.fw (SF.ofF (divNat x.w W)) = _
          rw [add_nonneg' _ _ hy.2.2.1.1 rfl]; rfl
        rw [e1, e2]
        refine ⟨⟨rfl, fadd_pos _ _ (Or.inl hy.1.2)⟩, ?_, ⟨rfl, fadd_pos _ _ (Or.inl hy.2.2.1.2)⟩, ?_⟩
        · exact bound_add N S x.k j hj _ _ _ hy.2.1 hdk (fadd_le _ _)
        · exact bound_add W Sw x.w j hj _ _ _ hy.2.2.2 hdw (fadd_le _ _)
      · have := h.2 z (List.mem_cons_of_mem _ hz)
        exact ⟨this.1, bound_mono N S x.k j _ this.2.1, this.2.2.1, bound_mono W Sw x.w j _ this.2.2.2⟩
    · simp only [hkey, if_false]
      intro z hz
      rcases List.mem_cons.mp hz with hz | hz
      · subst hz
        exact ⟨hy.1, bound_mono N S x.k j _ hy.2.1, hy.2.2.1, bound_mono W Sw x.w j _ hy.2.2.2⟩
      · exact (ih ht).2 z hz

theorem bnd_skip (N W S Sw j k w : Nat) (t : Tbl SF ν) (h : Bnd N W S Sw j t) : Bnd N W (S + k) (Sw + w) (j + 1) t :=
  ⟨fun _ => by omega, fun z hz =>
    have := h.2 z hz
    ⟨this.1, bound_mono N S k j _ this.2.1, this.2.2.1, bound_mono W Sw w j _ this.2.2.2⟩⟩

theorem foldl_bnd (N W sc : Nat) (r : Nat) (rows : List (GRow ν))
    (hk : ∀ x ∈ rows, 0 < x.k ∧ x.k ≤ N) (hw : ∀ x ∈ rows, 0 < x.w ∧ x.w ≤ W)
    (S Sw j : Nat) (t0 : Tbl SF ν) (h : Bnd N W S Sw j t0) :
    Bnd N W (S + (rows.map (·.k)).sum) (Sw + (rows.map (·.w)).sum) (j + rows.length)
      ((rows.map (GRow.toF N W sc)).foldl
        (fun t row => if counted row r then bump f64 (popTo row.lin r) row t else t) t0) := by
  induction rows generalizing S Sw j t0 with
  | nil => simpa using h
  | cons x rows ih =>
    simp only [List.map_cons, List.foldl_cons, List.sum_cons, List.length_cons]
    have hkx := hk x (List.mem_cons_self ..)
    have hwx := hw x (List.mem_cons_self ..)
    have step : Bnd N W (S + x.k) (Sw + x.w) (j + 1)
        (if counted (GRow.toF N W sc x) r then bump f64 (popTo (GRow.toF N W sc x).lin r) (GRow.toF N W sc x) t0 else t0) := by
      by_cases hc : counted (GRow.toF N W sc x) r
      · simp only [hc, if_true]; exact bump_bnd N W S Sw j x sc hkx hwx _ t0 h
      · simp only [hc]; exact bnd_skip N W S Sw j x.k x.w t0 h
    have := ih (fun y hy => hk y (List.mem_cons_of_mem _ hy)) (fun y hy => hw y (List.mem_cons_of_mem _ hy))
      (S + x.k) (Sw + x.w) (j + 1) _ step
    have e1 : S + x.k + (rows.map (·.k)).sum = S + (x.k + (rows.map (·.k)).sum) := by omega
    have e2 : Sw + x.w + (rows.map (·.w)).sum = Sw + (x.w + (rows.map (·.w)).sum) := by omega
    have e3 : j + 1 + rows.length = j + (rows.length + 1) := by omega
    rw [e1, e2, e3] at this
    exact this

theorem le_sum_of_mem (l : List Nat) (x : Nat) (h : x ∈ l) : x ≤ l.sum := by
  induction l with
  | nil => cases h
  | cons y t ih =>
    simp only [List.sum_cons]
    rcases List.mem_cons.mp h with h | h
    · omega
    · have := ih h; omega

/-- every accumulator of a valid gather result, in binary64: positive, at most `(1+u)^n` -/
theorem tblF_bound (g : Gather ν) (hk : ∀ x ∈ g.rows, 0 < x.k ∧ 0 < x.w)
    (hkle : (g.rows.map (·.k)).sum ≤ g.N) (hwle : (g.rows.map (·.w)).sum ≤ g.W) (hN : 0 < g.N) (hW : 0 < g.W)
    (r : Nat) (x : Lineage ν × Acc SF) (hx : x ∈ sumAtRank f64 g.toF r) :
    PosD x.2.f ∧ x.2.f.a.toQ ≤ (1 + u) ^ g.rows.length ∧ PosD x.2.fw ∧ x.2.fw.a.toQ ≤ (1 + u) ^ g.rows.length := by
  have hk' : ∀ y ∈ g.rows, 0 < y.k ∧ y.k ≤ g.N := fun y hy =>
    ⟨(hk y hy).1, le_trans (le_sum_of_mem _ _ (List.mem_map_of_mem (f := (·.k)) hy)) hkle⟩
  have hw' : ∀ y ∈ g.rows, 0 < y.w ∧ y.w ≤ g.W := fun y hy =>
    ⟨(hk y hy).2, le_trans (le_sum_of_mem _ _ (List.mem_map_of_mem (f := (·.w)) hy)) hwle⟩
  have h0 : Bnd g.N g.W 0 0 0 ([] : Tbl SF ν) := ⟨fun h => absurd rfl h, fun z hz => by cases hz⟩
  have := foldl_bnd g.N g.W g.scaled r g.rows hk' hw' 0 0 0 [] h0
  simp only [Nat.zero_add] at this
  unfold sumAtRank at hx
  rw [toF_eq] at hx
  have hb := this.2 x hx
  have hp : (0 : ℚ) ≤ (1 + u) ^ g.rows.length := by have := u_pos; positivity
  have hNq : (0 : ℚ) < g.N := by exact_mod_cast hN
  have hWq : (0 : ℚ) < g.W := by exact_mod_cast hW
  refine ⟨hb.1, ?_, hb.2.2.1, ?_⟩
  · refine le_trans hb.2.1 ?_
    have : (((g.rows.map (·.k)).sum : Nat) : ℚ) / g.N ≤ 1 := by
      rw [div_le_iff₀ hNq, one_mul]; exact_mod_cast hkle
    calc _ ≤ 1 * (1 + u) ^ g.rows.length := mul_le_mul_of_nonneg_right this hp
      _ = _ := one_mul _
  · refine le_trans hb.2.2.2 ?_
    have : (((g.rows.map (·.w)).sum : Nat) : ℚ) / g.W ≤ 1 := by
      rw [div_le_iff₀ hWq, one_mul]; exact_mod_cast hwle
    calc _ ≤ 1 * (1 + u) ^ g.rows.length := mul_le_mul_of_nonneg_right this hp
      _ = _ := one_mul _

/-! ### the repaired checks on such values -/

/-- a repair that is sane for `n` rows: non-negative doubles, `1 + tol ≥ 1 + 2(n+1)u` -/
structure RepairF (p : Repair SF) (n : Nat) : Prop where
  tol_nonneg : p.tol.neg = false
  one_nonneg : p.onePlus.neg = false
  room : 1 + 2 * ((n : ℚ) + 1) * u ≤ p.onePlus.a.toQ

/-- values the repaired `check_values` accepts: a positive double and a non-negative double, both ≤ `1 + tol` -/
theorem checkValuesR_ok (p : Repair SF) (n : Nat) (hp : RepairF p n) (f fw : SF)
    (hf : PosD f) (hfle : f.a.toQ ≤ p.onePlus.a.toQ) (hfw : fw.neg = false) (hfwle : fw.a.toQ ≤ p.onePlus.a.toQ)
    (hst : p.strict = true → 0 < fw.a.m) :
    ∃ v, checkValues f64 (some p) f fw = .ok v := by
  unfold checkValues
  simp only
  have h1 : f64.lt p.onePlus f = false := lt_nonneg_false _ _ hp.one_nonneg hf.1 hfle
  have h2 : f64.lt p.onePlus fw = false := lt_nonneg_false _ _ hp.one_nonneg hfw hfwle
  simp only [h1, h2, Bool.or_self, Bool.false_eq_true, if_false]
  -- the clamped values
  have hone : PosD SF.one := ⟨rfl, by decide⟩
  have hf' : PosD (if f64.lt f64.one f = true then f64.one else f) := by
    split
    · exact hone
    · exact hf
  have hfw' : (if f64.lt f64.one fw = true then f64.one else fw).neg = false := by
    split
    · rfl
    · exact hfw
  have h3 : f64.le (if f64.lt f64.one f = true then f64.one else f) f64.zero = false := by
    unfold Arith.le
    have : f64.lt f64.zero (if f64.lt f64.one f = true then f64.one else f) = true := by
      show SF.lt SF.zero _ = true
      rw [lt_nonneg _ _ rfl hf'.1, zero_toQ]
      exact toQ_pos _ hf'.2
    simp [this]
  have h4 : f64.lt (if f64.lt f64.one fw = true then f64.one else fw) f64.zero = false := by
    show SF.lt _ SF.zero = false
    apply lt_nonneg_false _ _ hfw' rfl
    rw [zero_toQ]; exact toQ_nonneg _
  have h5 : p.strict = true → f64.le (if f64.lt f64.one fw = true then f64.one else fw) f64.zero = false := by
    intro hs
    have hfwp : PosD (if f64.lt f64.one fw = true then f64.one else fw) := by
      split
      · exact hone
      · exact ⟨hfw, hst hs⟩
    unfold Arith.le
    have : f64.lt f64.zero (if f64.lt f64.one fw = true then f64.one else fw) = true := by
      show SF.lt SF.zero _ = true
      rw [lt_nonneg _ _ rfl hfwp.1, zero_toQ]
      exact toQ_pos _ hfwp.2
    simp [this]
  cases hs : p.strict with
  | true =>
    simp only [h3, h5 hs, if_true, Bool.or_self, Bool.false_eq_true, if_false]
    exact ⟨_, rfl⟩
  | false =>
    simp only [h3, h4, Bool.or_self, Bool.false_eq_true, if_false]
    exact ⟨_, rfl⟩

theorem classifiedR_ok (p : Repair SF) (n : Nat) (hp : RepairF p n) (r : Nat) (s : Tbl SF ν)
    (h : ∀ x ∈ s, PosD x.2.f ∧ x.2.f.a.toQ ≤ p.onePlus.a.toQ ∧ PosD x.2.fw ∧ x.2.fw.a.toQ ≤ p.onePlus.a.toQ) :
    ∃ es, classified f64 (some p) r s = .ok es := by
  induction s with
  | nil => exact ⟨[], rfl⟩
  | cons x s ih =>
    obtain ⟨lin, a⟩ := x
    have hx := h (lin, a) (List.mem_cons_self ..)
    obtain ⟨v, hv⟩ := checkValuesR_ok p n hp a.f a.fw hx.1 hx.2.1 hx.2.2.1.1 hx.2.2.2 (fun _ => hx.2.2.1.2)
    obtain ⟨es, hes⟩ := ih (fun y hy => h y (List.mem_cons_of_mem _ hy))
    unfold classified
    rw [hv, hes]
    exact ⟨_, rfl⟩

/-! ### totals and the remainder -/

theorem foldl_add_nonneg {β : Type} (g : β → SF) (l : List β) (c : SF) (hc : c.neg = false)
    (h : ∀ x ∈ l, (g x).neg = false) : (l.foldl (fun s x => f64.add s (g x)) c).neg = false := by
  induction l generalizing c with
  | nil => simpa
  | cons x t ih =>
    simp only [List.foldl_cons]
    apply ih
    · show (SF.add c (g x)).neg = false
      rw [add_nonneg' _ _ hc (h x (List.mem_cons_self ..))]
    · exact fun y hy => h y (List.mem_cons_of_mem _ hy)

/-- `1.0 - T` for a non-negative double `T`: negative, or a non-negative double of value ≤ `1 + u` -/
theorem one_sub_nonneg (T : SF) (hT : T.neg = false) :
    (f64.sub f64.one T).neg = true ∨ ((f64.sub f64.one T).neg = false ∧ (f64.sub f64.one T).a.toQ ≤ 1 + u) := by
  have hu := u_pos
  show (SF.sub SF.one T).neg = true ∨ _
  have e : SF.sub SF.one T = SF.subF SF.one.a T.a := by
    unfold SF.sub SF.add
    simp [SF.one, hT]
  show _ ∨ ((SF.sub SF.one T).neg = false ∧ (SF.sub SF.one T).a.toQ ≤ 1 + u)
  rw [e]
  unfold SF.subF
  by_cases h : alignL SF.one.a T.a ≥ alignR SF.one.a T.a
  · rw [if_pos h]
    right
    refine ⟨rfl, ?_⟩
    show (roundNat (alignL SF.one.a T.a - alignR SF.one.a T.a) (min SF.one.a.e T.a.e)).toQ ≤ 1 + u
    have hr := roundNat_le (alignL SF.one.a T.a - alignR SF.one.a T.a) (min SF.one.a.e T.a.e)
    have hL := toQ_alignL SF.one.a T.a
    have hp := two_zpow_pos (min SF.one.a.e T.a.e)
    have h1 : ((alignL SF.one.a T.a - alignR SF.one.a T.a : Nat) : ℚ) ≤ (alignL SF.one.a T.a : ℚ) := by
      exact_mod_cast Nat.sub_le _ _
    have h2 : ((alignL SF.one.a T.a - alignR SF.one.a T.a : Nat) : ℚ) * 2 ^ (min SF.one.a.e T.a.e) ≤ 1 := by
      calc _ ≤ (alignL SF.one.a T.a : ℚ) * 2 ^ (min SF.one.a.e T.a.e) := mul_le_mul_of_nonneg_right h1 (le_of_lt hp)
        _ = SF.one.a.toQ := hL.symm
        _ = 1 := one_toQ
    have h0 : (0 : ℚ) ≤ ((alignL SF.one.a T.a - alignR SF.one.a T.a : Nat) : ℚ) * 2 ^ (min SF.one.a.e T.a.e) := by
      positivity
    calc _ ≤ ((alignL SF.one.a T.a - alignR SF.one.a T.a : Nat) : ℚ) * 2 ^ (min SF.one.a.e T.a.e) * (1 + u) := hr
      _ ≤ 1 * (1 + u) := mul_le_mul_of_nonneg_right h2 (by linarith)
      _ = 1 + u := one_mul _
  · rw [if_neg h]
    left; rfl

/-- **the tolerance repair never rejects the table of a rank** whose accumulators are positive doubles ≤ `1 + tol` -/
theorem buildRankR_ok (p : Repair SF) (n : Nat) (hp : RepairF p n) (qbp r : Nat) (t : Tbl SF ν)
    (h : ∀ x ∈ t, PosD x.2.f ∧ x.2.f.a.toQ ≤ p.onePlus.a.toQ ∧ PosD x.2.fw ∧ x.2.fw.a.toQ ≤ p.onePlus.a.toQ)
    (hstrict : p.strict = true →
      f64.lt p.tol (f64.sub f64.one (totalF f64 (nonzero f64 (sortDesc f64 t)))) = true →
      0 < (f64.sub f64.one (totalFw f64 (nonzero f64 (sortDesc f64 t)))).a.m ∧
      (f64.sub f64.one (totalFw f64 (nonzero f64 (sortDesc f64 t)))).neg = false) :
    ∃ es, buildRank f64 (some p) qbp r t = .ok es := by
  have hu := u_pos
  have hs : ∀ x ∈ nonzero f64 (sortDesc f64 t),
      PosD x.2.f ∧ x.2.f.a.toQ ≤ p.onePlus.a.toQ ∧ PosD x.2.fw ∧ x.2.fw.a.toQ ≤ p.onePlus.a.toQ := by
    intro x hx
    unfold nonzero at hx
    exact h x ((sortDesc_perm f64 t).mem_iff.mp (List.mem_filter.mp hx).1)
  obtain ⟨es, hes⟩ := classifiedR_ok p n hp r _ hs
  unfold buildRank
  simp only [hes]
  set s := nonzero f64 (sortDesc f64 t) with hsdef
  have hTf : (totalF f64 s).neg = false :=
    foldl_add_nonneg (fun x : Lineage ν × Acc SF => x.2.f) s _ rfl (fun x hx => (hs x hx).1.1)
  have hTw : (totalFw f64 s).neg = false :=
    foldl_add_nonneg (fun x : Lineage ν × Acc SF => x.2.fw) s _ rfl (fun x hx => (hs x hx).2.2.1.1)
  have hroom : 1 + u ≤ p.onePlus.a.toQ := by
    have := hp.room
    have hn : (0 : ℚ) ≤ n := Nat.cast_nonneg n
    nlinarith
  by_cases hkeep : f64.lt p.tol (f64.sub f64.one (totalF f64 s)) = true
  · simp only [hkeep, if_true]
    -- the remainder is a positive double ≤ 1 + u
    rcases one_sub_nonneg _ hTf with hneg | ⟨hnn, hle⟩
    · have := lt_nonneg_neg p.tol _ hp.tol_nonneg hneg
      rw [show f64.lt = SF.lt from rfl] at hkeep
      rw [this] at hkeep; cases hkeep
    · have hpos : 0 < (f64.sub f64.one (totalF f64 s)).a.m := by
        have hlt := (lt_nonneg p.tol _ hp.tol_nonneg hnn).mp hkeep
        have h0 := toQ_nonneg p.tol.a
        by_contra hm
        have : (f64.sub f64.one (totalF f64 s)).a.m = 0 := by omega
        rw [toQ_zero_of_m _ this] at hlt
        linarith
      cases hst : p.strict with
      | true =>
        -- strict variant: the weighted remainder is `1.0 - total` itself, positive by hypothesis
        obtain ⟨hwpos, hwnn⟩ := hstrict hst hkeep
        have hwle : (f64.sub f64.one (totalFw f64 s)).a.toQ ≤ 1 + u := by
          rcases one_sub_nonneg _ hTw with hneg | ⟨_, hle'⟩
          · rw [hwnn] at hneg; cases hneg
          · exact hle'
        obtain ⟨v, hv⟩ := checkValuesR_ok p n hp _ _ ⟨hnn, hpos⟩ (le_trans hle hroom) hwnn (le_trans hwle hroom)
          (fun _ => hwpos)
        simp only [if_true, hv]
        exact ⟨_, rfl⟩
      | false =>
        -- the weighted remainder, clamped at 0.0
        have hw : (if f64.lt f64.zero (f64.sub f64.one (totalFw f64 s)) = true then f64.sub f64.one (totalFw f64 s)
              else f64.zero).neg = false ∧
            (if f64.lt f64.zero (f64.sub f64.one (totalFw f64 s)) = true then f64.sub f64.one (totalFw f64 s)
              else f64.zero).a.toQ ≤ 1 + u := by
          rcases one_sub_nonneg _ hTw with hneg | ⟨hnn', hle'⟩
          · have : f64.lt f64.zero (f64.sub f64.one (totalFw f64 s)) = false :=
              lt_nonneg_neg SF.zero _ rfl hneg
            simp only [this, Bool.false_eq_true, if_false]
            exact ⟨rfl, by rw [show f64.zero = SF.zero from rfl, zero_toQ]; linarith⟩
          · split
            · exact ⟨hnn', hle'⟩
            · exact ⟨rfl, by rw [show f64.zero = SF.zero from rfl, zero_toQ]; linarith⟩
        obtain ⟨v, hv⟩ := checkValuesR_ok p n hp _ _ ⟨hnn, hpos⟩ (le_trans hle hroom) hw.1 (le_trans hw.2 hroom)
          (fun h => by rw [hst] at h; cases h)
        simp only [Bool.false_eq_true, if_false, hv]
        exact ⟨_, rfl⟩
  · simp only [hkeep]
    exact ⟨_, rfl⟩

/-- the classification loop with the repaired check never fails on such tables -/
theorem classifyLoopR_ok (p : Repair SF) (n : Nat) (hp : RepairF p n) (thr : Option SF)
    (l : List (Nat × Tbl SF ν)) (last : Option (Cls SF ν))
    (hne : ∀ q ∈ l, q.2 ≠ [])
    (h : ∀ q ∈ l, ∀ x ∈ q.2, PosD x.2.f ∧ x.2.f.a.toQ ≤ p.onePlus.a.toQ ∧ PosD x.2.fw ∧ x.2.fw.a.toQ ≤ p.onePlus.a.toQ) :
    ∃ c, classifyLoop f64 (some p) thr l last = .ok c := by
  induction l generalizing last with
  | nil => exact ⟨last, rfl⟩
  | cons q rest ih =>
    obtain ⟨r, t⟩ := q
    have htne : t ≠ [] := hne (r, t) (List.mem_cons_self ..)
    cases hs : sortDesc f64 t with
    | nil =>
      have := (sortDesc_perm f64 t).length_eq
      rw [hs] at this
      exact absurd (List.length_eq_zero_iff.mp this.symm) htne
    | cons x tl =>
      obtain ⟨lin, a⟩ := x
      have hx : (lin, a) ∈ t := (sortDesc_perm f64 t).mem_iff.mp (by rw [hs]; exact List.mem_cons_self ..)
      have hb := h (r, t) (List.mem_cons_self ..) (lin, a) hx
      obtain ⟨v, hv⟩ := checkValuesR_ok p n hp a.f a.fw hb.1 hb.2.1 hb.2.2.1.1 hb.2.2.2 (fun _ => hb.2.2.1.2)
      unfold classifyLoop
      simp only [hs, hv]
      split
      · exact ih _ (fun q hq => hne q (List.mem_cons_of_mem _ hq)) (fun q hq => h q (List.mem_cons_of_mem _ hq))
      · exact ⟨_, rfl⟩

end Sm.Tax
