/-
C14: the twin machine.  A table of handles, each holding a `KmerMinHash` (model `MH`) and
a `KmerMinHashBTree` (model `BT`) that receive the same operations — what
rust-harness/src/main.rs (module `twin`) does with the real types — and the proof that the
two stay equal in parameters, hashes, abundances and md5 along every history (`fix = true`: the
current source, which carries the repair of D14, /repo commit 779da1d) resp. along every history
that avoids the defect classes of D14 (`fix = false`: the four sites as first found, kept for
the regression theorems).
-/
import SmVerif.Lemmas.BTreeErase

namespace Sm

open MH

/-! ### the repaired variants agree with the array-backed sketch on every abundance -/

theorem MH.addHashAb_zero (s : MH) (h : Nat) :
    s.addHashAb h 0 =
      if h > s.maxHash ∧ s.maxHash ≠ 0 then s
      else if s.num = 0 ∧ s.maxHash = 0 then s
      else s.removeHash h := by
  unfold MH.addHashAb
  simp only [if_true]

theorem BT.addHashAbFix_pos (b : BT) (h : Nat) {a : Nat} (ha : a ≠ 0) :
    b.addHashAbFix h a = b.addHashAb h a := by
  unfold BT.addHashAbFix BT.addHashAb
  by_cases h1 : h > b.maxHash ∧ b.maxHash ≠ 0
  · rw [if_pos h1, if_pos h1]
  rw [if_neg h1, if_neg h1]
  by_cases h2 : b.num = 0 ∧ b.maxHash = 0
  · rw [if_pos h2, if_pos h2]
  rw [if_neg h2, if_neg h2, if_neg ha, if_neg ha]

theorem BT.addHashAbFix_zero (b : BT) (h : Nat) :
    b.addHashAbFix h 0 =
      if h > b.maxHash ∧ b.maxHash ≠ 0 then b
      else if b.num = 0 ∧ b.maxHash = 0 then b
      else b.removeHash h := by
  unfold BT.addHashAbFix
  simp

theorem sim_addHashAbFix {b : BT} (hb : BInv b) (hx : Excl b.abs) (hc : CmOk b) (h a : Nat) :
    (b.addHashAbFix h a).abs = b.abs.addHashAb h a ∧ BInv (b.addHashAbFix h a) ∧
    CmOk (b.addHashAbFix h a) ∧ Excl (b.addHashAbFix h a).abs := by
  by_cases ha : a = 0
  · subst ha
    rw [BT.addHashAbFix_zero, MH.addHashAb_zero]
    by_cases h1 : h > b.maxHash ∧ b.maxHash ≠ 0
    · have h1' : h > b.abs.maxHash ∧ b.abs.maxHash ≠ 0 := h1
      rw [if_pos h1, if_pos h1']; exact ⟨rfl, hb, hc, hx⟩
    have h1' : ¬ (h > b.abs.maxHash ∧ b.abs.maxHash ≠ 0) := h1
    rw [if_neg h1, if_neg h1']
    by_cases h2 : b.num = 0 ∧ b.maxHash = 0
    · have h2' : b.abs.num = 0 ∧ b.abs.maxHash = 0 := h2
      rw [if_pos h2, if_pos h2']; exact ⟨rfl, hb, hc, hx⟩
    have h2' : ¬ (b.abs.num = 0 ∧ b.abs.maxHash = 0) := h2
    rw [if_neg h2, if_neg h2']
    refine ⟨abs_removeHash hb h, binv_removeHash hb h, cmOk_removeHash hb hc h, ?_⟩
    have := removeHash_num_maxHash b h
    unfold Excl at hx ⊢
    simp only [BT.abs_num, BT.abs_maxHash] at hx ⊢
    rw [this.1, this.2]; exact hx
  · rw [BT.addHashAbFix_pos b h ha]
    have hp : 0 < a := by omega
    exact ⟨abs_addHashAb hb hx hc h hp, binv_addHashAb hb hx hc h hp, cmOk_addHashAb hb hc h a,
      Excl_abs_addHashAb hx h a⟩

theorem sim_addManyAbFix {b : BT} (hb : BInv b) (hx : Excl b.abs) (hc : CmOk b)
    (ps : List (Nat × Nat)) :
    (b.addManyAbFix ps).abs = b.abs.addManyAb ps ∧ BInv (b.addManyAbFix ps) ∧
    CmOk (b.addManyAbFix ps) ∧ Excl (b.addManyAbFix ps).abs := by
  induction ps generalizing b with
  | nil => exact ⟨rfl, hb, hc, hx⟩
  | cons p ps ih =>
    have h1 := sim_addHashAbFix hb hx hc p.1 p.2
    have := ih h1.2.1 h1.2.2.2 h1.2.2.1
    unfold BT.addManyAbFix MH.addManyAb at this ⊢
    simp only [List.foldl_cons]
    rw [← h1.1]
    exact this

theorem sim_addManyFix {b : BT} (hb : BInv b) (hx : Excl b.abs) (hc : CmOk b) (xs : List Nat) :
    (b.addManyFix xs).abs = b.abs.addMany xs ∧ BInv (b.addManyFix xs) ∧
    CmOk (b.addManyFix xs) ∧ Excl (b.addManyFix xs).abs := by
  induction xs generalizing b with
  | nil => exact ⟨rfl, hb, hc, hx⟩
  | cons x xs ih =>
    have h1 := sim_addHashAbFix hb hx hc x 1
    have := ih (b := b.addHashFix x) h1.2.1 h1.2.2.2 h1.2.2.1
    unfold BT.addManyFix MH.addMany at this ⊢
    simp only [List.foldl_cons]
    have e : (b.addHashFix x).abs = b.abs.addHash x := h1.1
    rw [← e]
    exact this

theorem sim_downsampleScaledFix {b r : BT} (hb : BInv b) (hx : Excl b.abs) {sc : Nat}
    (hc : CmOk b) (h : b.downsampleScaledFix sc = .ok r) :
    b.abs.downsampleScaled sc = .ok r.abs ∧ BInv r ∧ CmOk r ∧ Excl r.abs := by
  unfold BT.downsampleScaledFix at h
  unfold MH.downsampleScaled
  by_cases h1 : b.scaled = sc ∨ b.scaled = 0
  · have h1' : b.abs.scaled = sc ∨ b.abs.scaled = 0 := h1
    rw [if_pos h1] at h
    cases h
    rw [if_pos h1']
    exact ⟨rfl, hb, hc, hx⟩
  · have h1' : ¬ (b.abs.scaled = sc ∨ b.abs.scaled = 0) := h1
    rw [if_neg h1] at h
    rw [if_neg h1']
    by_cases h2 : b.scaled > sc
    · rw [if_pos h2] at h; cases h
    · have h2' : ¬ b.abs.scaled > sc := h2
      rw [if_neg h2] at h
      rw [if_neg h2']
      cases h
      have hn : b.num = 0 := by
        rcases hx with hx | hx
        · exact hx
        · exfalso; apply h1; right
          unfold BT.scaled
          simp only [BT.abs_maxHash] at hx
          rw [hx]; exact scR_zero
      have htr : b.abs.abunds.isSome = b.abunds.isSome := by
        rw [BT.abs_abunds]; cases b.abunds <;> rfl
      have hnew : MH.new sc b.abs.ksize b.abs.hf b.abs.seed b.abs.abunds.isSome b.abs.num =
          (BT.new sc b.ksize b.hf b.seed b.abunds.isSome b.num).abs := by
        rw [htr]; exact (abs_new ..).symm
      have hxn : Excl (BT.new sc b.ksize b.hf b.seed b.abunds.isSome b.num).abs := by
        rw [abs_new]; exact Excl.new (Or.inr hn)
      rw [hnew, htr, hb.pairs_abs]
      simp only []
      by_cases h3 : b.abunds.isSome = true
      · rw [if_pos h3, if_pos h3]
        have := sim_addManyAbFix (binv_new ..) hxn (cmOk_new _ _ _ _ _ _) b.toVecAbunds
        exact ⟨by rw [this.1], this.2.1, this.2.2.1, this.2.2.2⟩
      · rw [if_neg h3, if_neg h3]
        have := sim_addManyFix (binv_new ..) hxn (cmOk_new _ _ _ _ _ _) b.mins
        exact ⟨by rw [this.1]; rfl, this.2.1, this.2.2.1, this.2.2.2⟩

theorem downsampleScaledFix_err {b : BT} {sc : Nat} {e : MH.Err}
    (h : b.downsampleScaledFix sc = .error e) : b.abs.downsampleScaled sc = .error e := by
  unfold BT.downsampleScaledFix at h
  unfold MH.downsampleScaled
  by_cases h1 : b.scaled = sc ∨ b.scaled = 0
  · rw [if_pos h1] at h; cases h
  · have h1' : ¬ (b.abs.scaled = sc ∨ b.abs.scaled = 0) := h1
    rw [if_neg h1] at h
    rw [if_neg h1']
    by_cases h2 : b.scaled > sc
    · have h2' : b.abs.scaled > sc := h2
      rw [if_pos h2] at h
      rw [if_pos h2']
      cases h
      rfl
    · rw [if_neg h2] at h; cases h

namespace C14

/-! ### the machine -/

/-- one handle: the array-backed sketch, the tree-backed sketch, and a ghost flag that is
set when an operation that does not maintain `current_max` (`merge`, `From<KmerMinHash>`,
the flat branch of `Deserialize`) has touched a num sketch, and cleared by `clear()` -/
structure Cell where
  v : MH
  b : BT
  stale : Bool

abbrev Tab := Nat → Option Cell

def Tab.set (t : Tab) (i : Nat) (c : Cell) : Tab := fun j => if j = i then some c else t j

def Tab.upd (t : Tab) (h : Nat) (f : Cell → Cell) : Tab :=
  match t h with
  | some c => t.set h (f c)
  | none => t

def emptyTab : Tab := fun _ => none

inductive Op where
  | new (r num scaled : Nat) (track : Bool) (ksize seed : Nat)
  | add (h x : Nat)
  | addab (h x a : Nat)
  | addmany (h : Nat) (xs : List Nat)
  | addmanyab (h : Nat) (ps : List (Nat × Nat))
  | rm (h : Nat) (xs : List Nat)
  | clear (h : Nat)
  | merge (h g : Nat)
  | addfrom (h g : Nat)
  | down (r g sc : Nat)
  | convvec (h : Nat)
  | convbt (h : Nat)
  | json (h : Nat)
  | md5 (h : Nat)
  | enab (h : Nat)
  | disab (h : Nat)
  | sethf (h c : Nat)
  | downmh (r g mx : Nat)

def orElse {ε α} (x : Except ε α) (d : α) : α :=
  match x with
  | .ok a => a
  | .error _ => d

/-- the tree-backed sketch's entry points: the current, repaired source (`fix = true`) or the four
D14 sites as first found (`fix = false`) -/
def addAbB (fix : Bool) (b : BT) (x a : Nat) : BT := if fix then b.addHashAbFix x a else b.addHashAb x a
def addManyB (fix : Bool) (b : BT) (xs : List Nat) : BT := if fix then b.addManyFix xs else b.addMany xs
def addManyAbB (fix : Bool) (b : BT) (ps : List (Nat × Nat)) : BT :=
  if fix then b.addManyAbFix ps else b.addManyAb ps
def mergeB (fix : Bool) (b o : BT) : Except MH.Err BT := if fix then b.mergeFix o else b.merge o
def downB (fix : Bool) (b : BT) (sc : Nat) : Except MH.Err BT :=
  if fix then b.downsampleScaledFix sc else b.downsampleScaled sc
def downMaxB (fix : Bool) (b : BT) (mx : Nat) : Except MH.Err BT :=
  if fix then b.downsampleMaxHashFix mx else b.downsampleMaxHash mx
def ofVecB (fix : Bool) (v : MH) : BT := if fix then BT.ofVecFix v else BT.ofVec v
def deserializeB (fix : Bool) (j : BT.Json) : BT := if fix then BT.deserializeFix j else BT.deserialize j

/-- one operation applied to both twins of the handle(s) it names -/
def step (fix : Bool) (t : Tab) : Op → Tab
  | .new r num scaled track ksize seed =>
    t.set r ⟨MH.new scaled ksize 1 seed track num, BT.new scaled ksize 1 seed track num, false⟩
  | .add h x => t.upd h (fun c => ⟨c.v.addHash x, addAbB fix c.b x 1, c.stale⟩)
  | .addab h x a => t.upd h (fun c => ⟨c.v.addHashAb x a, addAbB fix c.b x a, c.stale⟩)
  | .addmany h xs => t.upd h (fun c => ⟨c.v.addMany xs, addManyB fix c.b xs, c.stale⟩)
  | .addmanyab h ps => t.upd h (fun c => ⟨c.v.addManyAb ps, addManyAbB fix c.b ps, c.stale⟩)
  | .rm h xs => t.upd h (fun c => ⟨c.v.removeMany xs, c.b.removeMany xs, c.stale⟩)
  | .clear h => t.upd h (fun c => ⟨c.v.clear, c.b.clear, false⟩)
  | .merge h g =>
    match t h, t g with
    | some _, some o =>
      -- the operand is cloned first (which fills its md5 cache), then merged in place
      (t.set g ⟨o.v.clone.1, o.b.clone.1, o.stale⟩).upd h (fun c =>
        ⟨orElse (c.v.merge o.v.clone.2) c.v, orElse (mergeB fix c.b o.b.clone.2) c.b,
         !fix && (c.stale || c.b.num != 0)⟩)
    | _, _ => t
  | .addfrom h g =>
    match t h, t g with
    | some _, some o =>
      (t.set g ⟨o.v.clone.1, o.b.clone.1, o.stale⟩).upd h (fun c =>
        ⟨c.v.addFrom o.v.clone.2, addManyB fix c.b o.b.clone.2.mins, c.stale⟩)
    | _, _ => t
  | .down r g sc =>
    match t g with
    | some o =>
      let t1 := t.set g ⟨o.v.clone.1, o.b.clone.1, o.stale⟩
      match o.v.clone.2.downsampleScaled sc, downB fix o.b.clone.2 sc with
      | .ok v', .ok b' => t1.set r ⟨v', b', o.stale⟩
      | _, _ => t1
    | none => t
  | .convvec h => t.upd h (fun c => ⟨c.b.intoVec, c.b, c.stale⟩)
  | .convbt h => t.upd h (fun c => ⟨c.v.clone.1, ofVecB fix c.v.clone.2, !fix && c.v.num != 0⟩)
  | .json h =>
    t.upd h (fun c => ⟨MH.deserialize c.v.serialize.2, deserializeB fix c.b.serialize.2,
      !fix && (c.b.num != 0 && !c.b.abunds.isSome)⟩)
  | .md5 h => t.upd h (fun c => ⟨c.v.md5sum.1, c.b.md5sum.1, c.stale⟩)
  | .enab h => t.upd h (fun c => ⟨orElse c.v.enableAbundance c.v, orElse c.b.enableAbundance c.b, c.stale⟩)
  | .disab h => t.upd h (fun c => ⟨c.v.disableAbundance, c.b.disableAbundance, c.stale⟩)
  | .sethf h k =>
    t.upd h (fun c => ⟨orElse (c.v.setHashFunction k) c.v, orElse (c.b.setHashFunction k) c.b, c.stale⟩)
  | .downmh r g mx =>
    match t g with
    | some o =>
      let t1 := t.set g ⟨o.v.clone.1, o.b.clone.1, o.stale⟩
      match o.v.clone.2.downsampleMaxHash mx, downMaxB fix o.b.clone.2 mx with
      | .ok v', .ok b' => t1.set r ⟨v', b', o.stale⟩
      | _, _ => t1
    | none => t

theorem step_merge (fix : Bool) (t : Tab) (h g : Nat) :
    step fix t (.merge h g) =
      match t h, t g with
      | some _, some o =>
        (t.set g ⟨o.v.clone.1, o.b.clone.1, o.stale⟩).upd h (fun c =>
          ⟨orElse (c.v.merge o.v.clone.2) c.v, orElse (mergeB fix c.b o.b.clone.2) c.b,
           !fix && (c.stale || c.b.num != 0)⟩)
      | _, _ => t := rfl

theorem step_addfrom (fix : Bool) (t : Tab) (h g : Nat) :
    step fix t (.addfrom h g) =
      match t h, t g with
      | some _, some o =>
        (t.set g ⟨o.v.clone.1, o.b.clone.1, o.stale⟩).upd h (fun c =>
          ⟨c.v.addFrom o.v.clone.2, addManyB fix c.b o.b.clone.2.mins, c.stale⟩)
      | _, _ => t := rfl

theorem step_down (fix : Bool) (t : Tab) (r g sc : Nat) :
    step fix t (.down r g sc) =
      match t g with
      | some o =>
        match o.v.clone.2.downsampleScaled sc, downB fix o.b.clone.2 sc with
        | .ok v', .ok b' => (t.set g ⟨o.v.clone.1, o.b.clone.1, o.stale⟩).set r ⟨v', b', o.stale⟩
        | _, _ => t.set g ⟨o.v.clone.1, o.b.clone.1, o.stale⟩
      | none => t := rfl

theorem step_downmh (fix : Bool) (t : Tab) (r g mx : Nat) :
    step fix t (.downmh r g mx) =
      match t g with
      | some o =>
        match o.v.clone.2.downsampleMaxHash mx, downMaxB fix o.b.clone.2 mx with
        | .ok v', .ok b' => (t.set g ⟨o.v.clone.1, o.b.clone.1, o.stale⟩).set r ⟨v', b', o.stale⟩
        | _, _ => t.set g ⟨o.v.clone.1, o.b.clone.1, o.stale⟩
      | none => t := rfl

def run (fix : Bool) (ops : List Op) : Tab := ops.foldl (step fix) emptyTab

/-- no handle `h` of `t` carries a stale `current_max` -/
def Fresh (t : Tab) (h : Nat) : Prop := ∀ c, t h = some c → c.stale = false

/-- the hypotheses under which one operation keeps the twins equal.
For the unrepaired variant (`fix = false`) they exclude exactly the D14 classes: an abundance of 0,
and an add of any kind on a num sketch whose `current_max` went stale (a `merge`, a
`From<KmerMinHash>` conversion or a flat `Deserialize` since the last `clear()`).
For both variants: a sketch is a num sketch or a scaled sketch, not both (every sketch the
sketch command builds), and the `From` conversions are applied to thresholds that survive the
`scaled()` detour (`Stable`, C03). -/
def Safe (fix : Bool) (t : Tab) : Op → Prop
  | .new _ num scaled _ _ _ => scaled = 0 ∨ num = 0
  | .add h _ => fix = true ∨ Fresh t h
  | .addmany h _ => fix = true ∨ Fresh t h
  | .addfrom h _ => fix = true ∨ Fresh t h
  | .addab h _ a => fix = true ∨ (0 < a ∧ Fresh t h)
  | .addmanyab h ps => fix = true ∨ ((∀ p ∈ ps, 0 < p.2) ∧ Fresh t h)
  | .convvec h => ∀ c, t h = some c → Stable c.b.maxHash
  | .convbt h => ∀ c, t h = some c → Stable c.b.maxHash
  | _ => True

def SafeHist (fix : Bool) : Tab → List Op → Prop
  | _, [] => True
  | t, op :: ops => Safe fix t op ∧ SafeHist fix (step fix t op) ops

/-- what holds of every handle along a safe history -/
structure Good (fix : Bool) (c : Cell) : Prop where
  eq : c.b.abs.erase = c.v.erase
  cv : C11.CacheInv c.v
  cb : C11.CacheInv c.b.abs
  binv : BInv c.b
  excl : Excl c.b.abs
  cm : c.stale = false → CmOk c.b
  nofix : fix = true → c.stale = false

def GoodTab (fix : Bool) (t : Tab) : Prop := ∀ i c, t i = some c → Good fix c

theorem goodTab_empty (fix : Bool) : GoodTab fix emptyTab := by
  intro i c h; cases h

theorem GoodTab.set {fix : Bool} {t : Tab} (ht : GoodTab fix t) {i : Nat} {c : Cell}
    (hc : Good fix c) : GoodTab fix (t.set i c) := by
  intro j d hj
  unfold Tab.set at hj
  split at hj
  · cases hj; exact hc
  · exact ht j d hj

theorem GoodTab.upd {fix : Bool} {t : Tab} (ht : GoodTab fix t) {h : Nat} {f : Cell → Cell}
    (hf : ∀ c, t h = some c → Good fix c → Good fix (f c)) : GoodTab fix (t.upd h f) := by
  unfold Tab.upd
  split
  · rename_i c hc
    exact ht.set (hf c hc (ht h c hc))
  · exact ht

theorem Good.inv_v {fix : Bool} {c : Cell} (g : Good fix c) : Inv c.v := g.binv.inv.of_erase g.eq

theorem Good.excl_v {fix : Bool} {c : Cell} (g : Good fix c) : Excl c.v := g.excl.of_erase g.eq

theorem Good.cmOk {fix : Bool} {c : Cell} (g : Good fix c) (h : fix = true ∨ c.stale = false) :
    CmOk c.b := by
  rcases h with h | h
  · exact g.cm (g.nofix h)
  · exact g.cm h

/-- lifting an in-place operation: the tree side commutes with `abs`, the array side does not
read the cache and keeps the cache invariant -/
theorem Good.lift {fix : Bool} {c : Cell} (g : Good fix c) {b' : BT} {fV : MH → MH}
    (habs : b'.abs = fV c.b.abs)
    (herase : (fV c.b.abs).erase = (fV c.v).erase)
    (hcache : ∀ s, C11.CacheInv s → C11.CacheInv (fV s))
    (hb : BInv b') (hx : Excl b'.abs) {st : Bool} (hcm : st = false → CmOk b')
    (hst : fix = true → st = false) : Good fix ⟨fV c.v, b', st⟩ :=
  ⟨by rw [habs]; exact herase, hcache _ g.cv, by rw [habs]; exact hcache _ g.cb, hb, hx, hcm, hst⟩

theorem good_new (fix : Bool) (num scaled : Nat) (track : Bool) (ksize seed : Nat)
    (h : scaled = 0 ∨ num = 0) :
    Good fix ⟨MH.new scaled ksize 1 seed track num, BT.new scaled ksize 1 seed track num, false⟩ :=
  ⟨by rw [abs_new], C11.new_inv .., by rw [abs_new]; exact C11.new_inv .., binv_new ..,
    by rw [abs_new]; exact Excl.new h, fun _ => cmOk_new _ _ _ _ _ _, fun _ => rfl⟩

theorem good_addab {fix : Bool} {c : Cell} (g : Good fix c) (x a : Nat)
    (hs : fix = true ∨ (0 < a ∧ c.stale = false)) :
    Good fix ⟨c.v.addHashAb x a, addAbB fix c.b x a, c.stale⟩ := by
  have hcm : CmOk c.b := g.cmOk (hs.imp id And.right)
  have key : (addAbB fix c.b x a).abs = c.b.abs.addHashAb x a ∧ BInv (addAbB fix c.b x a) ∧
      CmOk (addAbB fix c.b x a) ∧ Excl (addAbB fix c.b x a).abs := by
    unfold addAbB
    cases fix with
    | true => exact sim_addHashAbFix g.binv g.excl hcm x a
    | false =>
      have ha : 0 < a := by
        rcases hs with h | h
        · cases h
        · exact h.1
      exact ⟨abs_addHashAb g.binv g.excl hcm x ha, binv_addHashAb g.binv g.excl hcm x ha,
        cmOk_addHashAb g.binv hcm x a, Excl_abs_addHashAb g.excl x a⟩
  exact g.lift (fV := fun s => s.addHashAb x a) key.1
    (erase_addHashAb g.binv.inv g.excl g.eq x a) (fun s hs => C11.addHashAb_inv hs x a)
    key.2.1 key.2.2.2 (fun _ => key.2.2.1) g.nofix

theorem good_addmany {fix : Bool} {c : Cell} (g : Good fix c) (xs : List Nat)
    (hs : fix = true ∨ c.stale = false) :
    Good fix ⟨c.v.addMany xs, addManyB fix c.b xs, c.stale⟩ := by
  have hcm : CmOk c.b := g.cmOk hs
  have key : (addManyB fix c.b xs).abs = c.b.abs.addMany xs ∧ BInv (addManyB fix c.b xs) ∧
      CmOk (addManyB fix c.b xs) ∧ Excl (addManyB fix c.b xs).abs := by
    unfold addManyB
    cases fix with
    | true => exact sim_addManyFix g.binv g.excl hcm xs
    | false =>
      have := sim_addMany g.binv g.excl hcm xs
      exact ⟨this.1, this.2.1, this.2.2, Excl_abs_addMany g.excl xs⟩
  exact g.lift (fV := fun s => s.addMany xs) key.1
    (erase_addMany g.binv.inv g.excl g.eq xs) (fun s hs => C11.addMany_inv hs xs)
    key.2.1 key.2.2.2 (fun _ => key.2.2.1) g.nofix

theorem good_addmanyab {fix : Bool} {c : Cell} (g : Good fix c) (ps : List (Nat × Nat))
    (hs : fix = true ∨ ((∀ p ∈ ps, 0 < p.2) ∧ c.stale = false)) :
    Good fix ⟨c.v.addManyAb ps, addManyAbB fix c.b ps, c.stale⟩ := by
  have hcm : CmOk c.b := g.cmOk (hs.imp id And.right)
  have key : (addManyAbB fix c.b ps).abs = c.b.abs.addManyAb ps ∧ BInv (addManyAbB fix c.b ps) ∧
      CmOk (addManyAbB fix c.b ps) ∧ Excl (addManyAbB fix c.b ps).abs := by
    unfold addManyAbB
    cases fix with
    | true => exact sim_addManyAbFix g.binv g.excl hcm ps
    | false =>
      have hp : ∀ p ∈ ps, 0 < p.2 := by
        rcases hs with h | h
        · cases h
        · exact h.1
      have := sim_addManyAb g.binv g.excl hcm ps hp
      exact ⟨this.1, this.2.1, this.2.2, Excl_abs_addManyAb g.excl ps⟩
  exact g.lift (fV := fun s => s.addManyAb ps) key.1
    (erase_addManyAb g.binv.inv g.excl g.eq ps) (fun s hs => C11.addManyAb_inv hs ps)
    key.2.1 key.2.2.2 (fun _ => key.2.2.1) g.nofix

theorem good_rm {fix : Bool} {c : Cell} (g : Good fix c) (xs : List Nat) :
    Good fix ⟨c.v.removeMany xs, c.b.removeMany xs, c.stale⟩ := by
  have h := sim_removeMany g.binv xs
  exact g.lift (fV := fun s => s.removeMany xs) h.1 (erase_removeMany g.eq xs)
    (fun s hs => C11.removeMany_inv hs xs) h.2 (Excl_abs_removeMany g.excl xs)
    (fun hst => cmOk_removeMany g.binv (g.cm hst) xs) g.nofix

theorem good_clear {fix : Bool} {c : Cell} (g : Good fix c) :
    Good fix ⟨c.v.clear, c.b.clear, false⟩ :=
  g.lift (fV := fun s => s.clear) (abs_clear c.b) (erase_clear g.eq) (fun s _ => C11.clear_inv s)
    (binv_clear g.binv) (by rw [abs_clear]; exact g.excl.clear) (fun _ => cmOk_clear c.b)
    (fun _ => rfl)

theorem good_md5 {fix : Bool} {c : Cell} (g : Good fix c) :
    Good fix ⟨c.v.md5sum.1, c.b.md5sum.1, c.stale⟩ :=
  g.lift (fV := fun s => s.md5sum.1) (abs_md5sum c.b).1 (erase_md5sum g.eq)
    (fun s hs => C11.md5sum_state_inv hs) (binv_md5sum g.binv)
    (by
      have h := md5sum_fields_bt c.b
      have hx := g.excl
      unfold Excl at hx ⊢
      simp only [BT.abs_num, BT.abs_maxHash] at hx ⊢
      rw [h.2.2.1, h.2.2.2.1]; exact hx)
    (fun hst => cmOk_md5sum (g.cm hst)) g.nofix

theorem good_clone1 {fix : Bool} {c : Cell} (g : Good fix c) :
    Good fix ⟨c.v.clone.1, c.b.clone.1, c.stale⟩ :=
  g.lift (fV := fun s => s.clone.1) (abs_clone c.b).1 (erase_clone g.eq).1
    (fun s hs => (C11.clone_inv hs).1) (binv_clone g.binv).1
    (by rw [(abs_clone c.b).1]; exact g.excl.clone.1)
    (fun hst => (cmOk_clone (g.cm hst)).1) g.nofix

theorem good_clone2 {fix : Bool} {c : Cell} (g : Good fix c) :
    Good fix ⟨c.v.clone.2, c.b.clone.2, c.stale⟩ :=
  g.lift (fV := fun s => s.clone.2) (abs_clone c.b).2 (erase_clone g.eq).2
    (fun s hs => (C11.clone_inv hs).2) (binv_clone g.binv).2
    (by rw [(abs_clone c.b).2]; exact g.excl.clone.2)
    (fun hst => (cmOk_clone (g.cm hst)).2) g.nofix

theorem mergeB_cases (fix : Bool) {b o : BT} (hb : BInv b) (ho : BInv o) (hx : Excl b.abs) :
    (∃ e, mergeB fix b o = .error e ∧ b.abs.merge o.abs = .error e) ∨
    (∃ r, mergeB fix b o = .ok r ∧ b.abs.merge o.abs = .ok r.abs ∧ BInv r ∧ Excl r.abs ∧
      (fix = true → CmOk r) ∧ r.num = b.num) := by
  cases hm : b.merge o with
  | error e =>
    left
    refine ⟨e, ?_, merge_err_bt hm⟩
    unfold mergeB
    cases fix
    · exact hm
    · simp only [if_true]; rw [mergeFix_eq, hm]; rfl
  | ok r =>
    right
    have hs := sim_merge hb ho hm
    have hr := merge_ok_bt hm
    have hxr : Excl r.abs := by rw [hr]; exact hx
    have hnum : r.num = b.num := by rw [hr]; rfl
    unfold mergeB
    cases fix
    · exact ⟨r, hm, hs.1, hs.2, hxr, fun h => Bool.noConfusion h, hnum⟩
    · refine ⟨{ r with currentMax := BT.lastOr0 r.mins }, ?_, hs.1, ⟨hs.2.inv, hs.2.keys⟩, hxr,
        fun _ => cmOk_setLast r, hnum⟩
      simp only [if_true]; rw [mergeFix_eq, hm]; rfl

theorem good_merge {fix : Bool} {c o : Cell} (g : Good fix c) (go : Good fix o) :
    Good fix ⟨orElse (c.v.merge o.v) c.v, orElse (mergeB fix c.b o.b) c.b,
      !fix && (c.stale || c.b.num != 0)⟩ := by
  have hvm : c.b.abs.merge o.b.abs = c.v.merge o.v := erase_merge g.eq go.eq
  rcases mergeB_cases fix g.binv go.binv g.excl with ⟨e, h1, h2⟩ | ⟨r, h1, h2, h3, h4, h5, h6⟩
  · rw [h1, ← hvm, h2]
    simp only [orElse]
    refine ⟨g.eq, g.cv, g.cb, g.binv, g.excl, ?_, ?_⟩
    · intro hst
      cases fix
      · simp only [Bool.not_false, Bool.true_and, Bool.or_eq_false_iff] at hst
        exact g.cm hst.1
      · exact g.cm (g.nofix rfl)
    · intro hf; subst hf; rfl
  · rw [h1, ← hvm, h2]
    simp only [orElse]
    have hmv : c.v.merge o.v = .ok r.abs := by rw [← hvm]; exact h2
    refine ⟨rfl, C11.merge_inv hmv, C11.merge_inv h2, h3, h4, ?_, ?_⟩
    · intro hst
      cases fix
      · simp only [Bool.not_false, Bool.true_and, Bool.or_eq_false_iff, bne_eq_false_iff_eq] at hst
        intro hn; rw [h6] at hn; exact absurd hst.2 hn
      · exact h5 rfl
    · intro hf; subst hf; rfl

theorem downB_cases (fix : Bool) {b : BT} (hb : BInv b) (hx : Excl b.abs) (hc : CmOk b) (sc : Nat) :
    (∃ e, downB fix b sc = .error e ∧ b.abs.downsampleScaled sc = .error e) ∨
    (∃ r, downB fix b sc = .ok r ∧ b.abs.downsampleScaled sc = .ok r.abs ∧ BInv r ∧ CmOk r ∧
      Excl r.abs) := by
  unfold downB
  cases fix
  · simp only [Bool.false_eq_true, if_false]
    cases hd : b.downsampleScaled sc with
    | error e => exact Or.inl ⟨e, rfl, downsampleScaled_err hd⟩
    | ok r => exact Or.inr ⟨r, rfl, sim_downsampleScaled hb hx hc hd⟩
  · simp only [if_true]
    cases hd : b.downsampleScaledFix sc with
    | error e => exact Or.inl ⟨e, rfl, downsampleScaledFix_err hd⟩
    | ok r => exact Or.inr ⟨r, rfl, sim_downsampleScaledFix hb hx hc hd⟩

/-- `downsample_scaled` does not consult `current_max` of its source: the source is either
returned as it is or re-added to a fresh sketch -/
theorem downB_cases_stale (fix : Bool) {b : BT} (hb : BInv b) (hx : Excl b.abs) (sc : Nat) :
    (∃ e, downB fix b sc = .error e ∧ b.abs.downsampleScaled sc = .error e) ∨
    (∃ r, downB fix b sc = .ok r ∧ b.abs.downsampleScaled sc = .ok r.abs ∧ BInv r ∧
      (CmOk b → CmOk r) ∧ Excl r.abs) := by
  -- replace current_max by its right value: the function does not read it on the rebuild path
  by_cases h1 : b.scaled = sc ∨ b.scaled = 0
  · right
    refine ⟨b, ?_, ?_, hb, id, hx⟩
    · unfold downB BT.downsampleScaledFix BT.downsampleScaled
      cases fix <;> simp [h1]
    · unfold MH.downsampleScaled
      have h1' : b.abs.scaled = sc ∨ b.abs.scaled = 0 := h1
      rw [if_pos h1']
  · -- rebuild path: the result does not depend on `b.currentMax`
    let b0 : BT := { b with currentMax := BT.lastOr0 b.mins }
    have hb0 : BInv b0 := ⟨hb.inv, hb.keys⟩
    have hsame : downB fix b sc = downB fix b0 sc := by
      unfold downB BT.downsampleScaledFix BT.downsampleScaled
      have h1' : ¬ (b0.scaled = sc ∨ b0.scaled = 0) := h1
      cases fix
      · simp only [Bool.false_eq_true, if_false, if_neg h1, if_neg h1']; rfl
      · simp only [if_true, if_neg h1, if_neg h1']; rfl
    rcases downB_cases fix hb0 hx (cmOk_setLast b) sc with ⟨e, h2, h3⟩ | ⟨r, h2, h3, h4, h5, h6⟩
    · exact Or.inl ⟨e, hsame ▸ h2, h3⟩
    · exact Or.inr ⟨r, hsame ▸ h2, h3, h4, fun _ => h5, h6⟩

theorem good_down {fix : Bool} {o : Cell} (go : Good fix o) (sc : Nat) {v' : MH} {b' : BT}
    (hv : o.v.downsampleScaled sc = .ok v') (hb : downB fix o.b sc = .ok b') :
    Good fix ⟨v', b', o.stale⟩ := by
  rcases downB_cases_stale fix go.binv go.excl sc with ⟨e, h2, _⟩ | ⟨r, h2, h3, h4, h5, h6⟩
  · rw [h2] at hb; cases hb
  · rw [h2] at hb; cases hb
    have he := erase_downsampleScaled go.eq sc
    rw [h3, hv] at he
    simp only [Except.map, Except.ok.injEq] at he
    exact ⟨he, C11.downsampleScaled_inv go.cv sc hv, C11.downsampleScaled_inv go.cb sc h3, h4, h6,
      fun hst => h5 (go.cm hst), go.nofix⟩

theorem good_convvec {fix : Bool} {c : Cell} (g : Good fix c) (hst : Stable c.b.maxHash) :
    Good fix ⟨c.b.intoVec, c.b, c.stale⟩ := by
  refine ⟨?_, ?_, g.cb, g.binv, g.excl, g.cm, g.nofix⟩
  · rw [intoVec_eq]
    unfold Stable at hst
    simp only [hst]
    rfl
  · rw [intoVec_eq]; exact Or.inl rfl

theorem good_convbt {fix : Bool} {c : Cell} (g : Good fix c) (hst : Stable c.b.maxHash) :
    Good fix ⟨c.v.clone.1, ofVecB fix c.v.clone.2, !fix && c.v.num != 0⟩ := by
  have g1 := good_clone1 g
  have g2 := good_clone2 g
  have hinv2 : Inv c.v.clone.2 := g2.inv_v
  have hf := erase_fields g.eq
  have hcf := clone_fields c.v
  have hmh : c.v.clone.2.maxHash = c.b.maxHash := by rw [hcf.2.2.2.1, ← hf.2.1]; rfl
  have habs : (BT.ofVec c.v.clone.2).abs.erase = c.v.clone.1.erase := by
    rw [ofVec_abs hinv2]
    unfold Stable at hst
    rw [hmh, hst, ← hmh]
    have := (erase_clone (s := c.v) (t := c.v) rfl)
    obtain ⟨num, maxHash, ksize, seed, hf', mins, abunds, md5⟩ := c.v
    cases md5 <;> rfl
  have hkeys := ofVec_keys hinv2
  have hI : Inv (BT.ofVec c.v.clone.2).abs := by
    have : Inv c.v.clone.1 := g1.inv_v
    have e1 : (BT.ofVec c.v.clone.2).abs.erase = c.v.clone.1.erase := habs
    exact this.of_erase e1.symm
  have hX : Excl (BT.ofVec c.v.clone.2).abs := g1.excl_v.of_erase habs.symm
  have hcache : C11.CacheInv (BT.ofVec c.v.clone.2).abs := by
    rw [ofVec_abs hinv2]; exact Or.inl rfl
  have hnum : (BT.ofVec c.v.clone.2).num = c.v.num := by
    show c.v.clone.2.num = c.v.num
    exact hcf.2.2.2.2
  unfold ofVecB
  cases fix
  · simp only [Bool.false_eq_true, if_false, Bool.not_false, Bool.true_and]
    refine ⟨habs, g1.cv, hcache, ⟨hI, hkeys⟩, hX, ?_, fun h => Bool.noConfusion h⟩
    intro hs
    simp only [bne_eq_false_iff_eq] at hs
    intro hn; rw [hnum] at hn; exact absurd hs hn
  · simp only [if_true, Bool.not_true, Bool.false_and]
    exact ⟨habs, g1.cv, hcache, ⟨hI, hkeys⟩, hX, fun _ => cmOk_setLast _, fun _ => rfl⟩

theorem good_json {fix : Bool} {c : Cell} (g : Good fix c) :
    Good fix ⟨MH.deserialize c.v.serialize.2, deserializeB fix c.b.serialize.2,
      !fix && (c.b.num != 0 && !c.b.abunds.isSome)⟩ := by
  have hj := abs_json g.binv g.excl
  have heq : (BT.deserialize c.b.serialize.2).abs.erase = (MH.deserialize c.v.serialize.2).erase := by
    rw [hj.1]; exact erase_json g.eq
  have hcv : C11.CacheInv (MH.deserialize c.v.serialize.2) := cacheInv_json_v g.binv g.excl g.eq g.cv
  have hcb : C11.CacheInv (BT.deserialize c.b.serialize.2).abs := by
    rw [hj.1]; exact cacheInv_json_v g.binv g.excl rfl g.cb
  have hx : Excl (BT.deserialize c.b.serialize.2).abs := by
    have := g.excl
    unfold Excl at this ⊢
    simp only [BT.abs_num, BT.abs_maxHash] at this ⊢
    rw [hj.2.2.1, hj.2.2.2.1]; exact this
  unfold deserializeB
  cases fix
  · simp only [Bool.false_eq_true, if_false, Bool.not_false, Bool.true_and]
    refine ⟨heq, hcv, hcb, hj.2.1, hx, ?_, fun h => Bool.noConfusion h⟩
    intro hs
    rw [BT.serialize_eq, BT.deserialize_jsonWith g.binv g.excl]
    intro hn hne
    simp only at hn hne ⊢
    cases hab : c.b.abunds.isSome with
    | true => simp only [if_true]; rfl
    | false =>
      rw [hab] at hs
      simp only [Bool.not_false, Bool.and_true, bne_eq_false_iff_eq] at hs
      exact absurd hs hn
  · simp only [if_true, Bool.not_true, Bool.false_and]
    exact ⟨heq, hcv, hcb, ⟨hj.2.1.inv, hj.2.1.keys⟩, hx, fun _ => cmOk_setLast _, fun _ => rfl⟩

/-! ### the small mutators -/

theorem cacheInv_congr {s t : MH} (h1 : t.md5 = s.md5) (h2 : t.mins = s.mins) (h3 : t.ksize = s.ksize)
    (h : C11.CacheInv s) : C11.CacheInv t := by
  unfold C11.CacheInv MH.digest at *
  rw [h1, h2, h3]; exact h

/-- an update of the tree-backed sketch that touches neither hashes, md5 cache, k-mer size,
capacity, threshold nor `current_max`, mirrored on the array-backed twin -/
theorem Good.of_fields {fix : Bool} {c : Cell} (g : Good fix c) {v' : MH} {b' : BT}
    (h1 : b'.abs.erase = v'.erase)
    (hv : v'.md5 = c.v.md5 ∧ v'.mins = c.v.mins ∧ v'.ksize = c.v.ksize)
    (hb : b'.md5 = c.b.md5 ∧ b'.mins = c.b.mins ∧ b'.ksize = c.b.ksize)
    (hbi : BInv b') (hx : b'.num = c.b.num ∧ b'.maxHash = c.b.maxHash)
    (hcm : b'.currentMax = c.b.currentMax) : Good fix ⟨v', b', c.stale⟩ := by
  refine ⟨h1, cacheInv_congr hv.1 hv.2.1 hv.2.2 g.cv, ?_, hbi, ?_, ?_, g.nofix⟩
  · exact cacheInv_congr (s := c.b.abs) hb.1 hb.2.1 hb.2.2 g.cb
  · have := g.excl
    unfold Excl at this ⊢
    simp only [BT.abs_num, BT.abs_maxHash] at this ⊢
    rw [hx.1, hx.2]; exact this
  · intro hst
    have := g.cm hst
    unfold CmOk at this ⊢
    rw [hx.1, hb.2.1, hcm]; exact this

theorem good_self {fix : Bool} {c : Cell} (g : Good fix c) : Good fix ⟨c.v, c.b, c.stale⟩ := g

theorem good_enab {fix : Bool} {c : Cell} (g : Good fix c) :
    Good fix ⟨orElse c.v.enableAbundance c.v, orElse c.b.enableAbundance c.b, c.stale⟩ := by
  have hm : c.v.mins = c.b.mins := (erase_fields g.eq).2.2.2.2.2.1.symm
  unfold MH.enableAbundance BT.enableAbundance
  rw [hm]
  by_cases he : (!c.b.mins.isEmpty) = true
  · rw [if_pos he, if_pos he]; exact g
  · rw [if_neg he, if_neg he]
    simp only [orElse]
    have hempty : c.b.mins = [] := by simpa using he
    have hv := eq_setMd5_of_erase g.eq
    refine g.of_fields ?_ ⟨rfl, hm.symm, rfl⟩ ⟨rfl, rfl, rfl⟩ ?_ ⟨rfl, rfl⟩ rfl
    · rw [hv]; rfl
    · refine ⟨⟨g.binv.inv.sorted, ?_, ?_, g.binv.inv.bounded, g.binv.inv.capped⟩, ?_⟩
      · intro ab h
        simp only [BT.abs, Option.map_some, Option.some.injEq] at h
        subst h
        simp [hempty]
      · intro ab h a ha
        simp only [BT.abs, Option.map_some, Option.some.injEq] at h
        subst h
        simp at ha
      · intro m h
        simp only [Option.some.injEq] at h
        subst h
        simp [hempty]

theorem good_disab {fix : Bool} {c : Cell} (g : Good fix c) :
    Good fix ⟨c.v.disableAbundance, c.b.disableAbundance, c.stale⟩ := by
  have hv := eq_setMd5_of_erase g.eq
  refine g.of_fields ?_ ⟨rfl, rfl, rfl⟩ ⟨rfl, rfl, rfl⟩ ?_ ⟨rfl, rfl⟩ rfl
  · rw [hv]; rfl
  · refine ⟨⟨g.binv.inv.sorted, ?_, ?_, g.binv.inv.bounded, g.binv.inv.capped⟩, ?_⟩
    · intro ab h; simp [BT.abs, BT.disableAbundance] at h
    · intro ab h; simp [BT.abs, BT.disableAbundance] at h
    · intro m h; simp [BT.disableAbundance] at h

theorem good_sethf {fix : Bool} {c : Cell} (g : Good fix c) (k : Nat) :
    Good fix ⟨orElse (c.v.setHashFunction k) c.v, orElse (c.b.setHashFunction k) c.b, c.stale⟩ := by
  have hf := erase_fields g.eq
  have hm : c.v.mins = c.b.mins := hf.2.2.2.2.2.1.symm
  have hh : c.v.hf = c.b.hf := hf.2.2.2.2.1.symm
  unfold MH.setHashFunction BT.setHashFunction
  rw [hm, hh]
  by_cases h1 : c.b.hf = k
  · rw [if_pos h1, if_pos h1]; exact g
  rw [if_neg h1, if_neg h1]
  by_cases he : (!c.b.mins.isEmpty) = true
  · rw [if_pos he, if_pos he]; exact g
  · rw [if_neg he, if_neg he]
    simp only [orElse]
    have hv := eq_setMd5_of_erase g.eq
    refine g.of_fields ?_ ⟨rfl, hm.symm, rfl⟩ ⟨rfl, rfl, rfl⟩ ?_ ⟨rfl, rfl⟩ rfl
    · rw [hv]; rfl
    · exact ⟨⟨g.binv.inv.sorted, g.binv.inv.aligned, g.binv.inv.positive, g.binv.inv.bounded,
        g.binv.inv.capped⟩, g.binv.keys⟩

theorem good_downmh {fix : Bool} {o : Cell} (go : Good fix o) (mx : Nat) {v' : MH} {b' : BT}
    (hv : o.v.downsampleMaxHash mx = .ok v') (hb : downMaxB fix o.b mx = .ok b') :
    Good fix ⟨v', b', o.stale⟩ := by
  have hM : o.v.maxHash = o.b.maxHash := (erase_fields go.eq).2.1.symm
  unfold MH.downsampleMaxHash at hv
  have hb' : (if o.b.maxHash = 0 then Except.ok o.b else downB fix o.b (scR mx)) = .ok b' := by
    unfold downMaxB BT.downsampleMaxHashFix BT.downsampleMaxHash at hb
    unfold downB
    cases fix <;> simpa using hb
  rw [hM] at hv
  by_cases h0 : o.b.maxHash = 0
  · rw [if_pos h0] at hv hb'
    cases hv; cases hb'
    exact go
  · rw [if_neg h0] at hv hb'
    exact good_down go (scR mx) hv hb'

/-! ### one step, every history -/

theorem goodTab_step {fix : Bool} {t : Tab} (ht : GoodTab fix t) (op : Op) (hs : Safe fix t op) :
    GoodTab fix (step fix t op) := by
  cases op with
  | new r num scaled track ksize seed => exact ht.set (good_new fix num scaled track ksize seed hs)
  | add h x =>
    exact ht.upd (fun c hc g => good_addab g x 1 (hs.imp id (fun f => ⟨Nat.one_pos, f c hc⟩)))
  | addab h x a =>
    exact ht.upd (fun c hc g => good_addab g x a (hs.imp id (fun f => ⟨f.1, f.2 c hc⟩)))
  | addmany h xs => exact ht.upd (fun c hc g => good_addmany g xs (hs.imp id (fun f => f c hc)))
  | addmanyab h ps =>
    exact ht.upd (fun c hc g => good_addmanyab g ps (hs.imp id (fun f => ⟨f.1, f.2 c hc⟩)))
  | rm h xs => exact ht.upd (fun c _ g => good_rm g xs)
  | clear h => exact ht.upd (fun c _ g => good_clear g)
  | merge h g =>
    rw [step_merge]
    split
    · rename_i c0 o hh hg
      have go := ht g o hg
      have ht1 : GoodTab fix (t.set g ⟨o.v.clone.1, o.b.clone.1, o.stale⟩) := ht.set (good_clone1 go)
      exact ht1.upd (fun c _ gc => good_merge gc (good_clone2 go))
    · exact ht
  | addfrom h g =>
    rw [step_addfrom]
    split
    · rename_i c0 o hh hg
      have go := ht g o hg
      have ht1 : GoodTab fix (t.set g ⟨o.v.clone.1, o.b.clone.1, o.stale⟩) := ht.set (good_clone1 go)
      refine ht1.upd (fun c hc gc => ?_)
      have hmins : o.v.clone.2.mins = o.b.clone.2.mins := by
        have := erase_fields (good_clone2 go).eq
        exact this.2.2.2.2.2.1.symm
      have hfresh : fix = true ∨ c.stale = false := by
        refine hs.imp id (fun f => ?_)
        -- the flag of `h` in `t1` is the flag it had in `t` (cloning does not change it)
        unfold Tab.set at hc
        split at hc
        · rename_i e
          cases hc
          subst e
          exact f o hg
        · exact f c hc
      have := good_addmany gc o.b.clone.2.mins hfresh
      unfold MH.addFrom
      rw [hmins]
      exact this
    · exact ht
  | down r g sc =>
    rw [step_down]
    split
    · rename_i o hg
      have go := ht g o hg
      have ht1 : GoodTab fix (t.set g ⟨o.v.clone.1, o.b.clone.1, o.stale⟩) := ht.set (good_clone1 go)
      split
      · rename_i v' b' hv hb
        exact ht1.set (good_down (good_clone2 go) sc hv hb)
      · exact ht1
    · exact ht
  | convvec h => exact ht.upd (fun c hc g => good_convvec g (hs c hc))
  | convbt h => exact ht.upd (fun c hc g => good_convbt g (hs c hc))
  | json h => exact ht.upd (fun c _ g => good_json g)
  | md5 h => exact ht.upd (fun c _ g => good_md5 g)
  | enab h => exact ht.upd (fun c _ g => good_enab g)
  | disab h => exact ht.upd (fun c _ g => good_disab g)
  | sethf h k => exact ht.upd (fun c _ g => good_sethf g k)
  | downmh r g mx =>
    rw [step_downmh]
    split
    · rename_i o hg
      have go := ht g o hg
      have ht1 : GoodTab fix (t.set g ⟨o.v.clone.1, o.b.clone.1, o.stale⟩) := ht.set (good_clone1 go)
      split
      · rename_i v' b' hv hb
        exact ht1.set (good_downmh (good_clone2 go) mx hv hb)
      · exact ht1
    · exact ht

theorem goodTab_foldl {fix : Bool} (ops : List Op) {t : Tab} (ht : GoodTab fix t)
    (hs : SafeHist fix t ops) : GoodTab fix (ops.foldl (step fix) t) := by
  induction ops generalizing t with
  | nil => exact ht
  | cons op ops ih => exact ih (goodTab_step ht op hs.1) hs.2

/-! ### what is observed of a handle -/

/-- what is observed of a sketch: parameters, hashes, abundances, md5 answer -/
structure Obs where
  num : Nat
  maxHash : Nat
  ksize : Nat
  seed : Nat
  hf : Nat
  mins : List Nat
  abunds : Option (List Nat)
  md5 : Digest
deriving DecidableEq, Repr

def obsV (v : MH) : Obs :=
  ⟨v.num, v.maxHash, v.ksize, v.seed, v.hf, v.mins, v.abunds, v.md5sum.2⟩

def obsB (b : BT) : Obs :=
  ⟨b.num, b.maxHash, b.ksize, b.seed, b.hf, b.mins, b.abunds.map (fun ab => ab.map Prod.snd),
   b.md5sum.2⟩

theorem Good.obs_eq {fix : Bool} {c : Cell} (g : Good fix c) : obsB c.b = obsV c.v := by
  obtain ⟨h1, h2, h3, h4, h5, h6, h7⟩ := erase_fields g.eq
  have hd : c.b.md5sum.2 = c.v.md5sum.2 := by
    rw [(abs_md5sum c.b).2, C11.md5sum_eq_digest g.cb, C11.md5sum_eq_digest g.cv]
    unfold MH.digest
    rw [h3, h6]
  unfold obsB obsV
  simp only [BT.abs_num, BT.abs_maxHash, BT.abs_ksize, BT.abs_seed, BT.abs_hf, BT.abs_mins,
    BT.abs_abunds] at h1 h2 h3 h4 h5 h6 h7
  rw [h1, h2, h3, h4, h5, h6, h7, hd]

end C14

end Sm
