/-
C06: the insertion-ordered counter both inverted-index containers use to select candidates
(`collections.Counter` in `LCA_Database.find`, `GROUP BY sketch_id ... COUNT` in SqliteIndex):
after counting a list of keys, the counter holds exactly the keys that occur, each once, with its
number of occurrences; `most_common` / `ORDER BY CNT DESC` only permutes it.
-/
import SmVerif.Lemmas.SearchSpec
import Mathlib.Data.List.Count
import Mathlib.Data.List.Nodup

namespace Sm.Search

theorem counterIncr_keys (c : List (Nat × Nat)) (i : Nat) (k : Nat) :
    k ∈ (counterIncr c i).map Prod.fst ↔ k = i ∨ k ∈ c.map Prod.fst := by
  induction c with
  | nil => simp [counterIncr]
  | cons p rest ih =>
    obtain ⟨j, n⟩ := p
    unfold counterIncr
    by_cases h : i = j
    · subst h; simp
    · rw [if_neg h]
      simp only [List.map_cons, List.mem_cons, ih]
      constructor
      · rintro (h1 | h1 | h1)
        · exact Or.inr (Or.inl h1)
        · exact Or.inl h1
        · exact Or.inr (Or.inr h1)
      · rintro (h1 | h1 | h1)
        · exact Or.inr (Or.inl h1)
        · exact Or.inl h1
        · exact Or.inr (Or.inr h1)

theorem counterIncr_nodup (c : List (Nat × Nat)) (i : Nat) (h : (c.map Prod.fst).Nodup) :
    ((counterIncr c i).map Prod.fst).Nodup := by
  induction c with
  | nil => simp [counterIncr]
  | cons p rest ih =>
    obtain ⟨j, n⟩ := p
    unfold counterIncr
    by_cases hij : i = j
    · subst hij; simpa using h
    · rw [if_neg hij]
      simp only [List.map_cons, List.nodup_cons] at h ⊢
      refine ⟨?_, ih h.2⟩
      rw [counterIncr_keys]
      rintro (h1 | h1)
      · exact hij h1.symm
      · exact h.1 h1

/-- the count stored for key `k` (0 = absent) -/
def cget (c : List (Nat × Nat)) (k : Nat) : Nat := (c.lookup k).getD 0

theorem cget_counterIncr (c : List (Nat × Nat)) (i k : Nat) :
    cget (counterIncr c i) k = cget c k + (if k = i then 1 else 0) := by
  induction c with
  | nil =>
    unfold counterIncr cget
    by_cases h : k = i
    · subst h; simp [List.lookup]
    · have : (k == i) = false := by simpa using h
      simp [List.lookup, this, h]
  | cons p rest ih =>
    obtain ⟨j, n⟩ := p
    unfold counterIncr
    by_cases hij : i = j
    · subst hij
      rw [if_pos rfl]
      unfold cget
      by_cases hk : k = i
      · subst hk; simp [List.lookup]
      · have : (k == i) = false := by simpa using hk
        simp [List.lookup, this, hk]
    · rw [if_neg hij]
      unfold cget at ih ⊢
      by_cases hk : k = j
      · subst hk
        have hki : ¬ k = i := fun e => hij e.symm
        simp [List.lookup, hki]
      · have : (k == j) = false := by simpa using hk
        simp only [List.lookup, this]
        exact ih

theorem counterIncr_pos (c : List (Nat × Nat)) (i : Nat) (h : ∀ p ∈ c, 0 < p.2) :
    ∀ p ∈ counterIncr c i, 0 < p.2 := by
  induction c with
  | nil => intro p hp; simp [counterIncr] at hp; subst hp; exact Nat.one_pos
  | cons q rest ih =>
    obtain ⟨j, n⟩ := q
    unfold counterIncr
    by_cases hij : i = j
    · rw [if_pos hij]
      intro p hp
      rcases List.mem_cons.1 hp with rfl | hp'
      · exact Nat.succ_pos _
      · exact h p (List.mem_cons_of_mem _ hp')
    · rw [if_neg hij]
      intro p hp
      rcases List.mem_cons.1 hp with rfl | hp'
      · exact h _ List.mem_cons_self
      · exact ih (fun p hp => h p (List.mem_cons_of_mem _ hp)) p hp'

/-- counting a list of keys -/
def countAll (l : List Nat) : List (Nat × Nat) := l.foldl counterIncr []

theorem foldl_counter (l : List Nat) : ∀ (c : List (Nat × Nat)), (c.map Prod.fst).Nodup →
    (∀ p ∈ c, 0 < p.2) →
    ((l.foldl counterIncr c).map Prod.fst).Nodup ∧ (∀ p ∈ l.foldl counterIncr c, 0 < p.2) ∧
    ∀ k, cget (l.foldl counterIncr c) k = cget c k + l.count k := by
  induction l with
  | nil => intro c h1 h2; exact ⟨h1, h2, fun k => by simp⟩
  | cons x xs ih =>
    intro c h1 h2
    obtain ⟨a, b, d⟩ := ih (counterIncr c x) (counterIncr_nodup c x h1) (counterIncr_pos c x h2)
    refine ⟨a, b, ?_⟩
    intro k
    rw [List.foldl_cons, d k, cget_counterIncr, List.count_cons]
    by_cases h : k = x
    · subst h; simp; omega
    · have : (x == k) = false := by simpa using fun e : x = k => h e.symm
      simp [h, this]

theorem mem_of_cget {c : List (Nat × Nat)} (hn : (c.map Prod.fst).Nodup) {k n : Nat} :
    (k, n) ∈ c ↔ (cget c k = n ∧ k ∈ c.map Prod.fst) := by
  induction c with
  | nil => simp
  | cons p rest ih =>
    obtain ⟨j, m⟩ := p
    simp only [List.map_cons, List.nodup_cons] at hn
    unfold cget at ih ⊢
    by_cases hk : k = j
    · subst hk
      simp only [List.lookup, beq_self_eq_true, Option.getD_some, List.mem_cons, Prod.mk.injEq, true_and,
        List.map_cons, true_or, and_true]
      constructor
      · rintro (h | h)
        · exact h.symm
        · exact absurd (List.mem_map.2 ⟨(k, n), h, rfl⟩) hn.1
      · intro h; exact Or.inl h.symm
    · have : (k == j) = false := by simpa using hk
      simp only [List.lookup, this, List.mem_cons, Prod.mk.injEq, hk, false_and, false_or, List.map_cons]
      exact ih hn.2

/-- **the counter after counting `l`**: `(k, n)` is an entry iff `k` occurs in `l` and `n` is its
number of occurrences -/
theorem mem_countAll (l : List Nat) (k n : Nat) :
    (k, n) ∈ countAll l ↔ (n = l.count k ∧ 0 < n) := by
  obtain ⟨a, b, d⟩ := foldl_counter l [] (by simp) (by simp)
  have d' : ∀ k, cget (countAll l) k = l.count k := by
    intro k; have := d k; simpa [cget, countAll] using this
  unfold countAll at *
  rw [mem_of_cget a]
  constructor
  · intro ⟨h1, h2⟩
    rw [d'] at h1
    obtain ⟨p, hp, e⟩ := List.mem_map.1 h2
    have hpos := b p hp
    have hc : cget (List.foldl counterIncr [] l) k = p.2 := by
      have : (k, p.2) ∈ List.foldl counterIncr [] l := by rw [← e]; exact hp
      exact ((mem_of_cget a).1 this).1
    rw [d'] at hc
    exact ⟨h1.symm, by omega⟩
  · intro ⟨h1, h2⟩
    refine ⟨by rw [d', h1], ?_⟩
    -- a key with positive count is present
    by_contra hne
    have : cget (List.foldl counterIncr [] l) k = 0 := by
      unfold cget
      have : (List.foldl counterIncr [] l).lookup k = none := by
        rw [List.lookup_eq_none_iff]
        intro p hp
        rw [bne_iff_ne]
        intro hk
        apply hne
        exact List.mem_map.2 ⟨p, hp, hk.symm⟩
      rw [this]; rfl
    rw [d'] at this
    omega

theorem countAll_nodup (l : List Nat) : ((countAll l).map Prod.fst).Nodup :=
  (foldl_counter l [] (by simp) (by simp)).1

theorem insertCount_perm (x : Nat × Nat) (l : List (Nat × Nat)) : (insertCount x l).Perm (x :: l) := by
  induction l with
  | nil => exact List.Perm.refl _
  | cons y ys ih =>
    unfold insertCount
    split
    · exact List.Perm.refl _
    · exact (List.Perm.cons y ih).trans (List.Perm.swap x y ys)

theorem mostCommon_perm (c : List (Nat × Nat)) : (mostCommon c).Perm c := by
  induction c with
  | nil => exact List.Perm.refl _
  | cons x xs ih =>
    show (insertCount x (mostCommon xs)).Perm (x :: xs)
    exact (insertCount_perm x _).trans (List.Perm.cons x ih)

end Sm.Search
