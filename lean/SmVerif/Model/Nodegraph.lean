/-
Executable model of `src/core/src/sketch/nodegraph.rs` (the Bloom filter behind every
internal SBT node) and of the parts of `fixedbitset 0.4.2` it uses.

A `FixedBitSet { data: Vec<u32>, length }` is modelled as `(length, bits : Nat)`: bit `i`
of the set is `bits.testBit i`; block `k` of `data` is `(bits >>> (32*k)) % 2^32`
(`BitSet.block`), so the little-endian bytes of consecutive little-endian `u32` blocks
are the little-endian bytes of `bits` -- this is what `save_to_writer` streams.

Outside the model (stated as hypotheses where a theorem needs them):
* a table of length 0 (`hash % 0` panics in Rust)          -> `NG.WF` has `0 < length`
* `with_tables(0, ..)` (`tablesize - 1` wraps in release)    -> `1 ≤ tablesize`
* gzip (niffler) around the byte image                     -> trusted
-/
import SmVerif.Model.Generated

namespace Sm

/-- `FixedBitSet` -/
structure BitSet where
  length : Nat
  bits : Nat
deriving Repr, DecidableEq, Inhabited

namespace BitSet

/-- number of `u32` blocks for `bits` bits (`div_rem(bits, 32)`, `+1` if `rem > 0`) -/
def nblocks (bits : Nat) : Nat := bits / 32 + (if bits % 32 > 0 then 1 else 0)

/-- `FixedBitSet::with_capacity` -/
def withCapacity (bits : Nat) : BitSet := ⟨bits, 0⟩

/-- block `k` of `data` -/
def block (b : BitSet) (k : Nat) : Nat := (b.bits >>> (32 * k)) % 2 ^ 32

/-- `contains`: `match self.data.get(block) { None => false, Some(b) => b & (1 << i) != 0 }` -/
def contains (b : BitSet) (bit : Nat) : Bool :=
  decide (bit / 32 < nblocks b.length) && b.bits.testBit bit

/-- `put` (asserts `bit < length`; the model is only used with `bit < length`):
returns the previous value and sets the bit -/
def put (b : BitSet) (bit : Nat) : BitSet × Bool :=
  ({ b with bits := b.bits ||| (1 <<< bit) }, b.bits.testBit bit)

/-- `grow` -/
def grow (b : BitSet) (bits : Nat) : BitSet :=
  if bits > b.length then { b with length := bits } else b

/-- `union_with`: grow to the other's length if it is not shorter, then OR block-wise over
the zipped blocks (after `grow`, `self` has at least as many blocks as `other`, so every
block of `other` takes part) -/
def unionWith (b o : BitSet) : BitSet :=
  let b := if o.length ≥ b.length then b.grow o.length else b
  { b with bits := b.bits ||| o.bits }

/-- population count of a word below `2^fuel` -/
def popWord : Nat → Nat → Nat
  | 0, _ => 0
  | fuel + 1, w => w % 2 + popWord fuel (w / 2)

/-- `count_ones(..)`: `Masks::new(0..length, length)` visits blocks `0 .. length/32 - 1` with
a full mask and block `length/32` with the low `length % 32` bits -/
def countOnes (b : BitSet) : Nat :=
  let full := (List.range (b.length / 32)).foldl (fun acc k => acc + popWord 32 (b.block k)) 0
  full + popWord 32 (b.block (b.length / 32) % 2 ^ (b.length % 32))

end BitSet

/-- `Nodegraph` (`unique_kmers` is not saved and not compared by `PartialEq`; kept for `count`) -/
structure NG where
  bs : List BitSet
  ksize : Nat
  occupied : Nat
  unique : Nat
deriving Repr, DecidableEq, Inhabited

namespace NG

/-- `Nodegraph::new` -/
def new (tablesizes : List Nat) (ksize : Nat) : NG :=
  ⟨tablesizes.map BitSet.withCapacity, ksize, 0, 0⟩

/-- trial division (stands for `primal_check::miller_rabin`, which is deterministic and
exact on `u64`; trusted) -/
def isPrime (n : Nat) : Bool :=
  if n % 2 = 0 then n = 2
  else if n = 1 then false
  else go n 3 n
where
  go (n k : Nat) : Nat → Bool
    | 0 => true
    | fuel + 1 => if k * k > n then true else if n % k = 0 then false else go n (k + 2) fuel

/-- the `while tablesizes.len() != n_tables` loop of `with_tables` (fuel = `i`) -/
def tableSizesLoop (nTables : Nat) : Nat → Nat → List Nat → List Nat
  | 0, _, acc => acc
  | fuel + 1, i, acc =>
    if acc.length = nTables then acc
    else
      let acc := if isPrime i then acc ++ [i] else acc
      if i = 1 then acc else tableSizesLoop nTables fuel (i - 2) acc

/-- `with_tables`: table sizes (for `1 ≤ tablesize`) -/
def tableSizes (tablesize nTables : Nat) : List Nat :=
  let i := max (tablesize - 1) 2
  let i := if i % 2 = 0 then i - 1 else i
  tableSizesLoop nTables (i + 1) i []

def withTables (tablesize nTables ksize : Nat) : NG :=
  new (tableSizes tablesize nTables) ksize

def sizes (g : NG) : List Nat := g.bs.map (·.length)

/-- the per-table loop of `count` -/
def countLoop (hash : Nat) : List BitSet → Nat → List BitSet × Nat × Bool
  | [], _ => ([], 0, false)
  | b :: rest, i =>
    let (b', prev) := b.put (hash % b.length)
    let (rest', occ, isNew) := countLoop hash rest (i + 1)
    (b' :: rest', (if !prev && i == 0 then 1 else 0) + occ, !prev || isNew)

/-- `count`: set the bit in every table; `occupied_bins` counts new bits of table 0;
returns `is_new_kmer` -/
def count (g : NG) (hash : Nat) : NG × Bool :=
  let (bs, occ, isNew) := countLoop hash g.bs 0
  ({ g with bs := bs, occupied := g.occupied + occ,
            unique := if isNew then g.unique + 1 else g.unique }, isNew)

/-- `get`: 1 iff the bit is set in every table -/
def get (g : NG) (hash : Nat) : Nat :=
  if g.bs.all (fun b => b.contains (hash % b.length)) then 1 else 0

/-- `get(h) == 1` -/
def has (g : NG) (hash : Nat) : Bool := g.get hash == 1

/-- `matches`: number of mins with `get == 1` -/
def matchCount (g : NG) (mins : List Nat) : Nat := (mins.filter (fun h => g.get h == 1)).length

/-- `impl Update<Nodegraph> for KmerMinHash`: count every min into the graph -/
def addMany (g : NG) (mins : List Nat) : NG := mins.foldl (fun g h => (g.count h).1) g

/-- zip-with-union of the table lists (`other.bs.iter_mut().zip(&self.bs)`) -/
def unionTables : List BitSet → List BitSet → List BitSet
  | b :: bs, o :: os => b.unionWith o :: unionTables bs os
  | bs, _ => bs

/-- `impl Update<Nodegraph> for Nodegraph`, seen from the receiver: `parent.update(child)` in
Python = `child.update(&mut parent)` in Rust.  `occupied_bins` is recomputed from table 0
(0 when the zip is empty) -/
def update (parent child : NG) : NG :=
  let bs := unionTables parent.bs child.bs
  let occ := match parent.bs, child.bs with
    | _ :: _, _ :: _ => (bs.headD default).countOnes
    | _, _ => 0
  { parent with bs := bs, occupied := occ }

/-! ### byte format (`save_to_writer` / `from_reader`) -/

/-- `n` little-endian bytes of `v` -/
def leBytes : Nat → Nat → List Nat
  | 0, _ => []
  | n + 1, v => v % 256 :: leBytes n (v / 256)

/-- value of little-endian bytes -/
def ofLeBytes : List Nat → Nat
  | [] => 0
  | b :: bs => b + 256 * ofLeBytes bs

inductive Err where
  | panic      -- index out of bounds / assert_eq! failure, surfaced to Python as `Panic`
  | io         -- unexpected end of input
deriving Repr, DecidableEq

/-- one table of `save_to_writer`: 8 bytes of size, `div` full blocks, `rem` bytes of block
`div` (an index panic when that block does not exist, i.e. when `length % 32 = 0`) -/
def saveTable (b : BitSet) : Except Err (List Nat) :=
  let byteSize := b.length / 8 + 1
  let div := byteSize / 4
  let rem := byteSize % 4
  if rem ≠ 0 ∧ ¬ div < BitSet.nblocks b.length then .error .panic
  else .ok (leBytes 8 b.length ++ leBytes byteSize b.bits)

def saveTables : List BitSet → Except Err (List Nat)
  | [] => .ok []
  | b :: bs => do
    let x ← saveTable b
    let xs ← saveTables bs
    pure (x ++ xs)

/-- `save_to_writer` (uncompressed image) -/
def save (g : NG) : Except Err (List Nat) := do
  let ts ← saveTables g.bs
  pure ([0x4f, 0x58, 0x4c, 0x49, 4, 2] ++ leBytes 4 g.ksize ++ [g.bs.length % 256] ++ leBytes 8 g.occupied ++ ts)

/-- take exactly `n` bytes -/
def takeN (n : Nat) (l : List Nat) : Except Err (List Nat × List Nat) :=
  if l.length < n then .error .io else .ok (l.take n, l.drop n)

/-- the per-table loop of `from_reader` (a table of size zero is refused; the payload is read
through a bounded reader and zero-padded to whole blocks); `with_capacity_and_blocks`
pads/truncates to the block count of `tablesize` and clears the bits beyond it -/
def loadTables : Nat → List Nat → Except Err (List BitSet)
  | 0, _ => .ok []
  | n + 1, l => do
    let (sz, l) ← takeN 8 l
    let tablesize := ofLeBytes sz
    if Sm.Gen.ngLoadRefusesZero && tablesize == 0 then throw .io     -- "nodegraph table of size zero"
    let byteSize := tablesize / 8 + 1
    let (raw, l) ← takeN byteSize l
    let rest ← loadTables n l
    pure (⟨tablesize, ofLeBytes raw % 2 ^ tablesize⟩ :: rest)

/-- `from_reader` (after niffler has removed any compression) -/
def load (l : List Nat) : Except Err NG := do
  let (sig, l) ← takeN 4 l
  if sig ≠ [0x4f, 0x58, 0x4c, 0x49] then throw .panic
  let (ver, l) ← takeN 1 l
  if ver ≠ [4] then throw .panic
  let (ht, l) ← takeN 1 l
  if ht ≠ [2] then throw .panic
  let (ks, l) ← takeN 4 l
  let (nt, l) ← takeN 1 l
  let (occ, l) ← takeN 8 l
  let bs ← loadTables (ofLeBytes nt) l
  pure ⟨bs, ofLeBytes ks, ofLeBytes occ, 0⟩

/-- well-formedness kept by every operation: non-empty tables, no bit beyond the length -/
def WF (g : NG) : Prop := ∀ b ∈ g.bs, 0 < b.length ∧ b.bits < 2 ^ b.length

end NG
end Sm
