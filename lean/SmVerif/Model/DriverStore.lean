/-
Driver for the `store` correspondence stream (C10): a table of abstract signatures, one collection
"on disk", observations of its members, its manifest and what the loaders return.
-/
import SmVerif.Model.Storage
import SmVerif.Model.Generated
import SmVerif.Model.Proto

namespace Sm.DriverStore

open Sm.Proto Sm.Storage

inductive Coll where
  | none
  | zip (z : Zip)
  | dir (d : Dir)
  | sigfile (l : List Sig)
  | sql (db : SqlDb)
  | sbt (z : Zip)
  | lca (db : LcaDb)
  | lcasql (db : LcaDb)                                 -- an LCA database saved in SQLite format
  | bag (l : List Sig)                                  -- the output directory of `sig split`
  | mf (rows : List Row) (broken : Bool)                -- a `sig collect` manifest over the slots
  | failed

structure St where
  sigs : Array (Option Sig)
  coll : Coll
  slots : Array Coll                                    -- collections in the command-line workspace

def init : St := { sigs := Array.replicate 32 none, coll := .none, slots := Array.replicate 8 .none }

def showName : Name → String
  | .manifest => "MANIFEST"
  | .sig ⟨m, none⟩ => s!"m{m}"
  | .sig ⟨m, some n⟩ => s!"m{m}_{n}"
  | .other k => s!"o{k}"

def showLoc : Option Name → String
  | none => "None"
  | some n => showName n

def showHashes (l : List (Nat × Nat)) : String :=
  ",".intercalate (l.map fun p => s!"{p.1}:{p.2}")

def showSig (withMd5 : Bool) (s : Sig) : String :=
  let md5 := if withMd5 then toString s.md5 else "-"
  s!"{s.name}/{s.filename}/{md5}/{s.ksize}/{s.mol}/{s.num}/{s.scaled}/{s.seed}/{b2s s.track}/{showHashes s.hashes}"

def showRow (withLoc : Bool) (r : Row) : String :=
  let loc := if withLoc then showLoc r.loc else "*"
  s!"{loc}|{r.md5}|{r.md5short}|{r.ksize}|{r.mol}|{r.num}|{r.scaled}|{r.nHashes}|{b2s r.abund}|{r.name}|{r.filename}"

/-- ordered list -/
def lst (items : List String) : String := "ok " ++ ";".intercalate items
/-- unordered list: both sides' post-processing sorts the items -/
def bag (items : List String) : String := "ok~ " ++ ";".intercalate items

def hpair? (s : String) : Option (Nat × Nat) := pair? s

/-- "1,2,3" or "-" -/
def idxList? (s : String) : Option (List Nat) :=
  if s = "-" then some [] else (s.splitOn ",").mapM nat?

/-- "1,2|3|-" -/
def sessions? (s : String) : Option (List (List Nat)) := (s.splitOn "|").mapM idxList?

def getSigs (st : St) (l : List Nat) : Option (List Sig) := l.mapM fun i => (st.sigs[i]?).join

def getSessions (st : St) (s : String) : Option (List (List Sig)) :=
  match sessions? s with
  | some ss => ss.mapM (getSigs st)
  | none => none

def showRefused (fls : List (List Bool)) : String :=
  let items := (fls.zipIdx.flatMap fun (fl, si) => fl.zipIdx.filterMap fun (ok, j) =>
    if ok then none else some s!"{si}.{j}:ValueError")
  "ok refused=" ++ ",".intercalate items

def kind? : String → Option FileKind
  | "sigJson" => some .sigJson
  | "sigGz" => some .sigGz
  | "directory" => some .directory
  | "zipColl" => some .zipColl
  | "sqldbIndex" => some .sqldbIndex
  | "sqlManifest" => some .sqlManifest
  | "csvManifest" => some .csvManifest
  | "pathlist" => some .pathlist
  | "sbtZip" => some .sbtZip
  | "sbtJson" => some .sbtJson
  | "lcaJson" => some .lcaJson
  | "lcaSqldb" => some .lcaSqldb
  | "fasta" => some .fasta
  | "emptyText" => some .emptyText
  | "missing" => some .missing
  | _ => none

def showRes {α : Type} (f : α → String) : Res α → String
  | .ok a => f a
  | .err e => "err " ++ e.name

/-! ### command-line routes: several collections in a workspace -/

/-- the manifest an index object of this collection reports, rows in its own order, real locations -/
def collRows : Coll → Option (List Row)
  | .zip z => zipManifest z
  | .dir d => some (dirManifest (dirSorted d))
  | .sigfile l => some (l.map fun s => mkRow s none)
  | .sql db => some (sqlManifest db)
  | _ => none

/-- `load_file_as_index(path).signatures()` in the order the command line tools see -/
def collLoad : Coll → Res (List Sig)
  | .zip z => zipLoad z
  | .dir d => multiIndexLoad (dirLoadSorted d)
  | .sigfile l => multiIndexLoad l
  | .sql db => .ok (sqlLoad db)
  | _ => .err .valueError

/-- `load_file_as_index(path).select(picklist=...).signatures()` -/
def collSelectLoad (c : Coll) (picks : List (Nat × Nat)) : Res (List Sig) :=
  match c with
  | .zip z => zipSelectLoad Sm.Gen.manifestPicklistFullKey z picks
  | c => match collLoad c with
    | .ok l => .ok (l.filter fun s => picks.contains (sigKey Sm.Gen.manifestPicklistFullKey s))
    | .err e => .err e

def getSlots (st : St) (ks : List Nat) : List Coll := ks.map fun k => (st.slots[k]?).getD .none

def isNoneColl : Coll → Bool
  | .none => true
  | _ => false

/-- every referenced workspace slot has been made -/
def slotsMade (st : St) (ks : List Nat) : Bool := (getSlots st ks).all fun c => !isNoneColl c

/-- one create session of the saver chosen by the output name -/
def saveTo (fmt : String) (sigs : List Sig) : Coll × String :=
  match fmt with
  | "zip" =>
    match (if Sm.Gen.zipNameConsultsBuffer then zipSession none sigs else zipSessionOld none sigs) with
    | .ok z => (.zip z, "ok refused=")
    | .err e => (.failed, "err " ++ e.name)
  | "dir" => (.dir (dirSessions [] [sigs]), "ok refused=")
  | "sig" => (.sigfile sigs, "ok refused=")
  | "siggz" => (.sigfile sigs, "ok refused=")
  | "sqldb" =>
    match sqlSessions Sm.Gen.sqliteRecordsSeed SqlDb.empty [sigs] with
    | .ok (db, fls) => if fls.flatten.all id then (.sql db, "ok refused=") else (.failed, "err ValueError")
    | .err e => (.failed, "err " ++ e.name)
  | _ => (.failed, "bad-op")

def groupRows (rows : List Row) : List ((Nat × Nat × Nat × Nat × Bool) × Nat × Nat) :=
  rows.foldl (fun acc r =>
    let key := (r.ksize, r.mol, r.scaled, r.num, r.abund)
    if acc.any (·.1 = key) then acc.map fun e => if e.1 = key then (e.1, e.2.1 + 1, e.2.2 + r.nHashes) else e
    else acc ++ [(key, 1, r.nHashes)]) []

/-- `StandaloneManifestIndex.signatures()` over workspace collections of any kind -/
def mfLoad (st : St) (rows : List Row) : Res (List Sig) :=
  concatRes ((locations rows).map fun loc =>
    match loc with
    | some (.other k) => collSelectLoad ((st.slots[k]?).getD .none) (picklistOf Sm.Gen.manifestPicklistFullKey rows)
    | _ => .err .valueError)

/-- the generic loader on the current collection -/
def stepLoadGeneric (st : St) : St × String :=
  match st.coll with
  | .zip z => (st, showRes (fun l => lst (l.map (showSig true))) (zipLoad z))
  | .sbt z => (st, showRes (fun l => bag (l.map (showSig true))) (sbtLoad z))
  | .dir d => (st, showRes (fun l => bag (l.map (showSig true))) (multiIndexLoad (dirLoad d)))
  | .sigfile l => (st, showRes (fun l => lst (l.map (showSig true))) (multiIndexLoad l))
  | .sql db => (st, lst ((sqlLoad db).map (showSig true)))
  | .lca db => (st, bag ((db.signatures Sm.Gen.lcaYieldsEmpty).map (showSig false)))
  | .lcasql db => (st, bag ((db.signatures Sm.Gen.lcaYieldsEmpty).map (showSig false)))
  | .bag l => (st, showRes (fun l => bag (l.map (showSig true))) (multiIndexLoad l))
  | .mf rows broken =>
    if broken && !rows.isEmpty then (st, "err ValueError")       -- nothing to resolve in an empty manifest
    else (st, showRes (fun l => bag (l.map (showSig true))) (mfLoad st rows))
  | _ => (st, "ok -")

def step (st : St) (line : String) : St × String :=
  let bad := (st, "bad-op")
  match words line with
  | "#" :: _ => (init, "#")
  | "sig" :: i :: name :: filename :: ksize :: mol :: num :: scaled :: seed :: track :: md5 :: hs =>
    match nats? [i, name, filename, ksize, mol, num, scaled, seed, md5], bool? track, hs.mapM hpair? with
    | some [i, name, filename, ksize, mol, num, scaled, seed, md5], some tr, some hs =>
      let s : Sig := { name, filename, md5, ksize, mol, num, scaled, seed, track := tr, hashes := hs }
      ({ st with sigs := st.sigs.setIfInBounds i (some s) }, s!"ok md5={md5} n={hs.length}")
    | _, _, _ => bad
  | ["zip", ss] =>
    match getSessions st ss with
    | some sessions =>
      match (if Sm.Gen.zipNameConsultsBuffer then zipSessions none sessions else zipSessionsOld none sessions) with
      | .ok (some z) => ({ st with coll := .zip z }, "ok refused=")
      | .ok none => ({ st with coll := .none }, "ok refused=")
      | .err e => ({ st with coll := .failed }, "err " ++ e.name)
    | none => bad
  | ["dir", ss] =>
    match getSessions st ss with
    | some sessions => ({ st with coll := .dir (dirSessions [] sessions) }, "ok refused=")
    | none => bad
  | ["sigfile", _gz, ss] =>
    match getSessions st ss with
    | some sessions => ({ st with coll := .sigfile (sigfileSessions sessions) }, "ok refused=")
    | none => bad
  | ["sqldb", ss] =>
    match getSessions st ss with
    | some sessions =>
      match sqlSessions Sm.Gen.sqliteRecordsSeed SqlDb.empty sessions with
      | .ok (db, fls) => ({ st with coll := .sql db }, showRefused fls)
      | .err e => ({ st with coll := .failed }, "err " ++ e.name)
    | none => bad
  | ["sbt", l] =>
    match idxList? l with
    | some l => match getSigs st l with
      | some sigs => ({ st with coll := .sbt (sbtSave sigs) }, "ok refused=")
      | none => bad
    | none => bad
  | ["lca", ksize, mol, scaled, maxHash, l] =>
    match nats? [ksize, mol, scaled, maxHash], idxList? l with
    | some [ksize, mol, scaled, maxHash], some l =>
      match getSigs st l with
      | some sigs =>
        let (db, fl) := lcaInserts (LcaDb.new ksize scaled maxHash mol) sigs
        ({ st with coll := .lca db.saveLoad }, showRefused [fl])
      | none => bad
    | _, _ => bad
  | ["noout", l] =>
    match idxList? l with
    | some l => match getSigs st l with
      | some sigs => (st, s!"ok n={sigs.length}")
      | none => bad
    | none => bad
  | ["stdio", l] =>
    match idxList? l with
    | some l => match getSigs st l with
      | some sigs => (st, lst (sigs.map (showSig true)))
      | none => bad
    | none => bad
  | ["sbtjson", l] =>
    match idxList? l with
    | some l => match getSigs st l with
      | some sigs => ({ st with coll := .sbt (sbtSaveFS sigs) }, "ok refused=")
      | none => bad
    | none => bad
  | ["sbtresave", _src, dst, l, x] =>
    -- an SBT saved, loaded back, optionally extended, and saved again somewhere else (other directory and/or
    -- other name and/or the other container kind); the source is then deleted: the copy must stand alone
    match idxList? l, idxList? x with
    | some l, some x =>
      match getSigs st (l ++ x) with
      | some sigs =>
        if dst = "zip" then ({ st with coll := .sbt (sbtSave sigs) }, "ok refused=")
        else ({ st with coll := .sbt (sbtSaveFS sigs) }, "ok refused=")
      | none => bad
    | _, _ => bad
  | ["lcasql", ksize, mol, scaled, maxHash, l] =>
    match nats? [ksize, mol, scaled, maxHash], idxList? l with
    | some [ksize, mol, scaled, maxHash], some l =>
      match getSigs st l with
      | some sigs =>
        let (db, fl) := lcaInserts (LcaDb.new ksize scaled maxHash mol) sigs
        -- `LCA_SqliteDatabase.create` of a database without any signature cannot be reopened: ValueError
        if db.len = 0 then ({ st with coll := .failed }, "err ValueError")
        else ({ st with coll := .lcasql db }, showRefused [fl])
      | none => bad
    | _, _ => bad
  | ["derive", j, i, "down", scaled, maxHash, md5] =>
    match nats? [j, i, scaled, maxHash, md5] with
    | some [j, i, scaled, maxHash, md5] =>
      match (st.sigs[i]?).join with
      | some s =>
        if s.num ≠ 0 ∨ s.scaled = 0 ∨ scaled < s.scaled then (st, "err ValueError")
        else
          let hs := s.hashes.filter (fun p => p.1 ≤ maxHash)
          let t : Sig := { s with scaled := scaled, hashes := hs, md5 := md5 }
          ({ st with sigs := st.sigs.setIfInBounds j (some t) }, s!"ok md5={md5} n={hs.length}")
      | none => bad
    | _ => bad
  | ["derive", j, i, "flat"] =>
    match nats? [j, i] with
    | some [j, i] =>
      match (st.sigs[i]?).join with
      | some s =>
        let t : Sig := { s with track := false, hashes := s.hashes.map fun p => (p.1, 1) }
        ({ st with sigs := st.sigs.setIfInBounds j (some t) }, s!"ok md5={t.md5} n={t.hashes.length}")
      | none => bad
    | _ => bad
  | ["derive", j, i, "rename", name, filename] =>
    match nats? [j, i, name, filename] with
    | some [j, i, name, filename] =>
      match (st.sigs[i]?).join with
      | some s =>
        let t : Sig := { s with name := name, filename := filename }
        ({ st with sigs := st.sigs.setIfInBounds j (some t) }, s!"ok md5={t.md5} n={t.hashes.length}")
      | none => bad
    | _ => bad
  | ["load", "nomanifest"] =>
    match st.coll with
    | .zip z => (st, bag ((zipLoadNoManifest z).map (showSig true)))
    | _ => (st, "ok -")
  | ["nested", l1, l2, l3, junk, force] =>
    -- a directory tree: a.sig (l1), sub/b.sig.gz (l2), sub/deep/c.zip (l3), sub/readme.txt, [junk.sig];
    -- MultiIndex.load_from_directory reads *.sig / *.sig.gz below the directory, nothing else; an unreadable
    -- .sig stops the load unless force
    match idxList? l1, idxList? l2, idxList? l3, bool? junk, bool? force with
    | some l1, some l2, some l3, some junk, some force =>
      match getSigs st l1, getSigs st l2, getSigs st l3 with
      | some s1, some s2, some _ =>
        if junk && !force then (st, "err ValueError")
        else (st, bag ((s1 ++ s2).map (showSig true)))
      | _, _, _ => bad
    | _, _, _, _, _ => bad
  | ["lateadd", fmt, l, extra] =>
    -- one session, close(), then add(extra) on the closed saver: zip and sqldb raise; a directory writes the
    -- file at once; a JSON file accepts the signature and never writes it (finding C10.7)
    match idxList? l, nat? extra with
    | some l, some x =>
      match getSigs st l, getSigs st [x] with
      | some sigs, some [ex] =>
        match fmt with
        | "zip" => let (c, _) := saveTo "zip" sigs; ({ st with coll := c }, "ok raised=1")
        | "sqldb" =>
          let (c, out) := saveTo "sqldb" sigs
          if out = "ok refused=" then ({ st with coll := c }, "ok raised=1") else ({ st with coll := .failed }, out)
        | "sig" => ({ st with coll := .sigfile sigs }, "ok raised=0")
        | "dir" => ({ st with coll := .dir (dirSessions [] [sigs ++ [ex]]) }, "ok raised=0")
        | _ => bad
      | _, _ => bad
    | _, _ => bad
  | ["sqlapi", l, x] =>
    -- the same as two sessions, the second one through SqliteIndex.create(append=True).insert()
    match getSessions st (l ++ "|" ++ x) with
    | some sessions =>
      match sqlSessions Sm.Gen.sqliteRecordsSeed SqlDb.empty sessions with
      | .ok (db, fls) => ({ st with coll := .sql db }, showRefused fls)
      | .err e => ({ st with coll := .failed }, "err " ++ e.name)
    | none => bad
  | ["mk", slot, fmt, ss] =>
    match nat? slot, getSessions st ss with
    | some k, some sessions =>
      let (c, out) : Coll × String :=
        match fmt with
        | "zip" =>
          match (if Sm.Gen.zipNameConsultsBuffer then zipSessions none sessions else zipSessionsOld none sessions) with
          | .ok (some z) => (.zip z, "ok refused=")
          | .ok none => (.none, "ok refused=")
          | .err e => (.failed, "err " ++ e.name)
        | "dir" => (.dir (dirSessions [] sessions), "ok refused=")
        | "sig" => (.sigfile (sigfileSessions sessions), "ok refused=")
        | "siggz" => (.sigfile (sigfileSessions sessions), "ok refused=")
        | "sqldb" =>
          match sqlSessions Sm.Gen.sqliteRecordsSeed SqlDb.empty sessions with
          | .ok (db, fls) => (.sql db, showRefused fls)
          | .err e => (.failed, "err " ++ e.name)
        | _ => (.failed, "bad-op")
      ({ st with slots := st.slots.setIfInBounds k c }, out)
    | _, _ => bad
  | ["cat", outfmt, unique, _fromfile, slots] =>
    match idxList? slots, bool? unique with
    | some ks, some u =>
      if !slotsMade st ks then bad else
      match concatRes ((getSlots st ks).map collLoad) with
      | .ok l =>
        let (c, out) := saveTo outfmt (if u then catUnique l else l)
        ({ st with coll := c }, out)
      | .err e => ({ st with coll := .failed }, "err " ++ e.name)
    | _, _ => bad
  | ["split", slots] =>
    match idxList? slots with
    | some ks =>
      if !slotsMade st ks then bad else
      match concatRes ((getSlots st ks).map collLoad) with
      | .ok l => ({ st with coll := .bag l }, "ok refused=")
      | .err e => ({ st with coll := .failed }, "err " ++ e.name)
    | none => bad
  | ["collect", fmt, mode, slots] =>
    match idxList? slots with
    | some ks =>
      if !slotsMade st ks then bad else
      let rows := ks.flatMap fun k => relocate k ((collRows ((st.slots[k]?).getD .none)).getD [])
      let rows := if fmt = "sql" then sqlManifestKeep rows else rows
      ({ st with coll := .mf rows (mode = "cwdsub") }, "ok refused=")
    | none => bad
  | ["sigmanifest", slot, rebuild, fmt] =>
    match nat? slot, bool? rebuild with
    | some k, some rb =>
      if !slotsMade st [k] then bad else
      let rows := match (st.slots[k]?).getD .none with
        | .zip z => if rb then zipRebuildManifest z else (zipManifest z).getD []
        | c => (collRows c).getD []
      let rows := if fmt = "sql" then sqlManifestKeep rows else rows
      (st, bag (rows.map (showRow true)))
    | _, _ => bad
  | ["fileinfo", slot] =>
    match nat? slot with
    | some k =>
      if !slotsMade st [k] then bad else
      match collRows ((st.slots[k]?).getD .none) with
      | some rows =>
        let groups := (groupRows rows).map fun e =>
          s!"g:{e.1.1}/{e.1.2.1}/{e.1.2.2.1}/{e.1.2.2.2.1}/{b2s e.1.2.2.2.2}/{e.2.1}/{e.2.2}"
        (st, bag ([s!"n={rows.length}", s!"total={(rows.map (·.nHashes)).foldl (· + ·) 0}"] ++ groups))
      | none => (st, "ok -")
    | none => bad
  | ["load", "partial", idxs] =>
    match idxList? idxs with
    | some is =>
      let pickRows (rows : List Row) : List Row :=
        if rows.isEmpty then [] else is.filterMap fun i => rows[i % rows.length]?
      let fin (sel : List Row) (r : Res (List Sig)) : String :=
        showRes (fun l => lst (s!"len={sel.length}" :: l.map (showSig true))) r
      match st.coll with
      | .zip z =>
        let sel := pickRows ((zipManifest z).getD [])
        (st, fin sel (standaloneLoadFs Sm.Gen.manifestPicklistFullKey [(0, z)] (relocate 0 sel)))
      | .sigfile l =>
        let sel := pickRows (l.map fun s => mkRow s none)
        (st, fin sel (match multiIndexLoad l with
          | .ok l => .ok (standaloneLoad Sm.Gen.manifestPicklistFullKey (relocate 0 sel) l)
          | .err e => .err e))
      | .sql db =>
        let sel := pickRows (sqlManifest db)
        (st, fin sel (.ok (standaloneLoad Sm.Gen.manifestPicklistFullKey (relocate 0 sel) (sqlLoad db))))
      | _ => (st, "ok -")
    | none => bad
  | ["members"] =>
    match st.coll with
    | .zip z => (st, bag ((names z).map showName))
    | .sbt z => (st, bag ((sigMembers z).map fun e => showName (.sig e.1)))
    | .dir d => (st, bag ((names d).map showName))
    | _ => (st, "ok -")
  | ["manifest"] =>
    match st.coll with
    | .zip z => match zipManifest z with
      | some rows => (st, lst (rows.map (showRow true)))
      | none => (st, "ok none")
    | .sbt z => match zipManifest z with
      | some rows => (st, bag (rows.map (showRow false)))
      | none => (st, "ok none")
    | .dir d => (st, showRes (fun _ => bag ((dirManifest d).map (showRow true))) (multiIndexLoad (dirLoad d)))
    | .sigfile l => (st, showRes (fun l => lst (l.map fun s => showRow true (mkRow s (some (.other 0))))) (multiIndexLoad l))
    | .sql db => (st, lst ((sqlManifest db).map (showRow true)))
    | .lca _ => (st, "ok none")
    | .lcasql db => (st, bag ((db.signatures Sm.Gen.lcaYieldsEmpty).map fun s =>
        s!"{s.name}|{s.hashes.length}|{s.scaled}|{s.ksize}|{s.mol}"))
    | .bag l => (st, showRes (fun l => bag (l.map fun s => showRow false (mkRow s none))) (multiIndexLoad l))
    | .mf rows _ => (st, bag (rows.map (showRow true)))
    | _ => (st, "ok -")
  | ["locs"] =>
    match st.coll with
    | .sbt z => match zipManifest z with
      | some rows => (st, s!"ok {rows.length} {(locations rows).length}")
      | none => (st, "ok none")
    | _ => (st, "ok -")
  | ["rebuild"] =>
    match st.coll with
    | .zip z => (st, bag ((zipRebuildManifest z).map (showRow true)))
    | _ => (st, "ok -")
  | ["load", how] =>
    let keep (rows : List Row) : List Row := if how = "standalone-sql" then sqlManifestKeep rows else rows
    if how = "standalone" || how = "standalone-sql" then
      -- a `sig collect` style manifest (CSV / SQLite format): every row points at the collection
      match st.coll with
      | .zip z => match zipManifest z with
        | some rows => (st, showRes (fun l => lst (l.map (showSig true))) (standaloneLoadFs Sm.Gen.manifestPicklistFullKey [(0, z)] (keep (relocate 0 rows))))
        | none => (st, "ok -")
      | .dir d => (st, showRes (fun l => bag ((standaloneLoad Sm.Gen.manifestPicklistFullKey (keep (relocate 0 (dirManifest d))) l).map (showSig true))) (multiIndexLoad (dirLoad d)))
      | .sigfile l => (st, showRes (fun l => lst ((standaloneLoad Sm.Gen.manifestPicklistFullKey (keep (relocate 0 (l.map fun s => mkRow s none))) l).map (showSig true))) (multiIndexLoad l))
      | .sql db => (st, lst ((standaloneLoad Sm.Gen.manifestPicklistFullKey (keep (relocate 0 (sqlManifest db))) (sqlLoad db)).map (showSig true)))
      | .sbt z => (st, showRes (fun l => bag (l.map (showSig true))) (sbtLoad z))
      | .lca db => (st, bag ((db.signatures Sm.Gen.lcaYieldsEmpty).map (showSig false)))
      | _ => (st, "ok -")
    else if how = "pathlist" then
      match st.coll with
      | .zip z => (st, showRes (fun l => lst (l.map (showSig true))) (pathlistLoadFs [(0, z)] [0]))
      | _ => stepLoadGeneric st
    else stepLoadGeneric st
  | ["len"] =>
    match st.coll with
    | .zip z => (st, match zipManifest z with
      | some rows => s!"ok {rows.length}"
      | none => "ok none")
    | .sbt z => (st, match zipManifest z with
      | some rows => s!"ok {rows.length}"
      | none => "ok none")
    | .dir d => (st, showRes (fun l => s!"ok {l.length}") (multiIndexLoad (dirLoad d)))
    | .sigfile l => (st, showRes (fun l => s!"ok {l.length}") (multiIndexLoad l))
    | .sql db => (st, s!"ok {db.sketches.length}")
    | .lca db => (st, s!"ok {db.len}")
    | .lcasql db => (st, s!"ok {(db.signatures Sm.Gen.lcaYieldsEmpty).length}")
    | .bag l => (st, showRes (fun l => s!"ok {l.length}") (multiIndexLoad l))
    | .mf rows _ => (st, s!"ok {rows.length}")
    | _ => (st, "ok -")
  | ["kind", k] =>
    match kind? k, resolveLoaders Sm.Gen.loaderPriorities with
    | some k, some table =>
      let acc := (sortByPrio table).map fun e => s!"{e.1}:{(e.2.run k).show}"
      let w := match loadChain table k with
        | .ok c => c.name
        | .err e => "ERR:" ++ e.name
      (st, s!"ok accept={",".intercalate acc} winner={w}")
    | _, _ => bad
  | ["conv", x] =>
    match nat? x with
    | some x => (st, s!"ok {convertHashTo x} {convertHashFrom (convertHashTo x)}")
    | none => bad
  | _ => bad

end Sm.DriverStore
