/-
Driver for the `store` correspondence stream (C10): a table of abstract signatures, one collection
"on disk", observations of its members, its manifest and what the loaders return.
-/
import SmVerif.Model.Storage
import SmVerif.Model.Generated
import SmVerif.Model.Proto

namespace Sm.DriverStore

open Sm.Proto Sm.Storage

inductive Coll where
  | none
  | zip (z : Zip)
  | dir (d : Dir)
  | sigfile (l : List Sig)
  | sql (db : SqlDb)
  | sbt (z : Zip)
  | lca (db : LcaDb)
  | failed

structure St where
  sigs : Array (Option Sig)
  coll : Coll

def init : St := { sigs := Array.replicate 32 none, coll := .none }

def showName : Name → String
  | .manifest => "MANIFEST"
  | .sig ⟨m, none⟩ => s!"m{m}"
  | .sig ⟨m, some n⟩ => s!"m{m}_{n}"
  | .other k => s!"o{k}"

def showLoc : Option Name → String
  | none => "None"
  | some n => showName n

def showHashes (l : List (Nat × Nat)) : String :=
  ",".intercalate (l.map fun p => s!"{p.1}:{p.2}")

def showSig (withMd5 : Bool) (s : Sig) : String :=
  let md5 := if withMd5 then toString s.md5 else "-"
  s!"{s.name}/{s.filename}/{md5}/{s.ksize}/{s.mol}/{s.num}/{s.scaled}/{s.seed}/{b2s s.track}/{showHashes s.hashes}"

def showRow (withLoc : Bool) (r : Row) : String :=
  let loc := if withLoc then showLoc r.loc else "*"
  s!"{loc}|{r.md5}|{r.md5short}|{r.ksize}|{r.mol}|{r.num}|{r.scaled}|{r.nHashes}|{b2s r.abund}|{r.name}|{r.filename}"

/-- ordered list -/
def lst (items : List String) : String := "ok " ++ ";".intercalate items
/-- unordered list: both sides' post-processing sorts the items -/
def bag (items : List String) : String := "ok~ " ++ ";".intercalate items

def hpair? (s : String) : Option (Nat × Nat) := pair? s

/-- "1,2,3" or "-" -/
def idxList? (s : String) : Option (List Nat) :=
  if s = "-" then some [] else (s.splitOn ",").mapM nat?

/-- "1,2|3|-" -/
def sessions? (s : String) : Option (List (List Nat)) := (s.splitOn "|").mapM idxList?

def getSigs (st : St) (l : List Nat) : Option (List Sig) := l.mapM fun i => (st.sigs[i]?).join

def getSessions (st : St) (s : String) : Option (List (List Sig)) :=
  match sessions? s with
  | some ss => ss.mapM (getSigs st)
  | none => none

def showRefused (fls : List (List Bool)) : String :=
  let items := (fls.zipIdx.flatMap fun (fl, si) => fl.zipIdx.filterMap fun (ok, j) =>
    if ok then none else some s!"{si}.{j}:ValueError")
  "ok refused=" ++ ",".intercalate items

def kind? : String → Option FileKind
  | "sigJson" => some .sigJson
  | "sigGz" => some .sigGz
  | "directory" => some .directory
  | "zipColl" => some .zipColl
  | "sqldbIndex" => some .sqldbIndex
  | "sqlManifest" => some .sqlManifest
  | "csvManifest" => some .csvManifest
  | "pathlist" => some .pathlist
  | "sbtZip" => some .sbtZip
  | "sbtJson" => some .sbtJson
  | "lcaJson" => some .lcaJson
  | "lcaSqldb" => some .lcaSqldb
  | "fasta" => some .fasta
  | "emptyText" => some .emptyText
  | "missing" => some .missing
  | _ => none

def showRes {α : Type} (f : α → String) : Res α → String
  | .ok a => f a
  | .err e => "err " ++ e.name

/-- the generic loader on the current collection -/
def stepLoadGeneric (st : St) : St × String :=
  match st.coll with
  | .zip z => (st, showRes (fun l => lst (l.map (showSig true))) (zipLoad z))
  | .sbt z => (st, showRes (fun l => bag (l.map (showSig true))) (sbtLoad z))
  | .dir d => (st, showRes (fun l => bag (l.map (showSig true))) (multiIndexLoad (dirLoad d)))
  | .sigfile l => (st, showRes (fun l => lst (l.map (showSig true))) (multiIndexLoad l))
  | .sql db => (st, lst ((sqlLoad db).map (showSig true)))
  | .lca db => (st, bag ((db.signatures Sm.Gen.lcaYieldsEmpty).map (showSig false)))
  | _ => (st, "ok -")

def step (st : St) (line : String) : St × String :=
  let bad := (st, "bad-op")
  match words line with
  | "#" :: _ => (init, "#")
  | "sig" :: i :: name :: filename :: ksize :: mol :: num :: scaled :: seed :: track :: md5 :: hs =>
    match nats? [i, name, filename, ksize, mol, num, scaled, seed, md5], bool? track, hs.mapM hpair? with
    | some [i, name, filename, ksize, mol, num, scaled, seed, md5], some tr, some hs =>
      let s : Sig := { name, filename, md5, ksize, mol, num, scaled, seed, track := tr, hashes := hs }
      ({ st with sigs := st.sigs.setIfInBounds i (some s) }, s!"ok md5={md5} n={hs.length}")
    | _, _, _ => bad
  | ["zip", ss] =>
    match getSessions st ss with
    | some sessions =>
      match (if Sm.Gen.zipNameConsultsBuffer then zipSessions none sessions else zipSessionsOld none sessions) with
      | .ok (some z) => ({ st with coll := .zip z }, "ok refused=")
      | .ok none => ({ st with coll := .none }, "ok refused=")
      | .err e => ({ st with coll := .failed }, "err " ++ e.name)
    | none => bad
  | ["dir", ss] =>
    match getSessions st ss with
    | some sessions => ({ st with coll := .dir (dirSessions [] sessions) }, "ok refused=")
    | none => bad
  | ["sigfile", _gz, ss] =>
    match getSessions st ss with
    | some sessions => ({ st with coll := .sigfile (sigfileSessions sessions) }, "ok refused=")
    | none => bad
  | ["sqldb", ss] =>
    match getSessions st ss with
    | some sessions =>
      match sqlSessions Sm.Gen.sqliteRecordsSeed SqlDb.empty sessions with
      | .ok (db, fls) => ({ st with coll := .sql db }, showRefused fls)
      | .err e => ({ st with coll := .failed }, "err " ++ e.name)
    | none => bad
  | ["sbt", l] =>
    match idxList? l with
    | some l => match getSigs st l with
      | some sigs => ({ st with coll := .sbt (sbtSave sigs) }, "ok refused=")
      | none => bad
    | none => bad
  | ["lca", ksize, mol, scaled, maxHash, l] =>
    match nats? [ksize, mol, scaled, maxHash], idxList? l with
    | some [ksize, mol, scaled, maxHash], some l =>
      match getSigs st l with
      | some sigs =>
        let (db, fl) := lcaInserts (LcaDb.new ksize scaled maxHash mol) sigs
        ({ st with coll := .lca db.saveLoad }, showRefused [fl])
      | none => bad
    | _, _ => bad
  | ["members"] =>
    match st.coll with
    | .zip z => (st, bag ((names z).map showName))
    | .sbt z => (st, bag ((sigMembers z).map fun e => showName (.sig e.1)))
    | .dir d => (st, bag ((names d).map showName))
    | _ => (st, "ok -")
  | ["manifest"] =>
    match st.coll with
    | .zip z => match zipManifest z with
      | some rows => (st, lst (rows.map (showRow true)))
      | none => (st, "ok none")
    | .sbt z => match zipManifest z with
      | some rows => (st, bag (rows.map (showRow false)))
      | none => (st, "ok none")
    | .dir d => (st, showRes (fun _ => bag ((dirManifest d).map (showRow true))) (multiIndexLoad (dirLoad d)))
    | .sigfile l => (st, showRes (fun l => lst (l.map fun s => showRow true (mkRow s (some (.other 0))))) (multiIndexLoad l))
    | .sql db => (st, lst ((sqlManifest db).map (showRow true)))
    | .lca _ => (st, "ok none")
    | _ => (st, "ok -")
  | ["locs"] =>
    match st.coll with
    | .sbt z => match zipManifest z with
      | some rows => (st, s!"ok {rows.length} {(locations rows).length}")
      | none => (st, "ok none")
    | _ => (st, "ok -")
  | ["rebuild"] =>
    match st.coll with
    | .zip z => (st, bag ((zipRebuildManifest z).map (showRow true)))
    | _ => (st, "ok -")
  | ["load", how] =>
    let keep (rows : List Row) : List Row := if how = "standalone-sql" then sqlManifestKeep rows else rows
    if how = "standalone" || how = "standalone-sql" then
      -- a `sig collect` style manifest (CSV / SQLite format): every row points at the collection
      match st.coll with
      | .zip z => match zipManifest z with
        | some rows => (st, showRes (fun l => lst (l.map (showSig true))) (standaloneLoadFs [(0, z)] (keep (relocate 0 rows))))
        | none => (st, "ok -")
      | .dir d => (st, showRes (fun l => bag ((standaloneLoad (keep (relocate 0 (dirManifest d))) l).map (showSig true))) (multiIndexLoad (dirLoad d)))
      | .sigfile l => (st, showRes (fun l => lst ((standaloneLoad (keep (relocate 0 (l.map fun s => mkRow s none))) l).map (showSig true))) (multiIndexLoad l))
      | .sql db => (st, lst ((standaloneLoad (keep (relocate 0 (sqlManifest db))) (sqlLoad db)).map (showSig true)))
      | .sbt z => (st, showRes (fun l => bag (l.map (showSig true))) (sbtLoad z))
      | .lca db => (st, bag ((db.signatures Sm.Gen.lcaYieldsEmpty).map (showSig false)))
      | _ => (st, "ok -")
    else if how = "pathlist" then
      match st.coll with
      | .zip z => (st, showRes (fun l => lst (l.map (showSig true))) (pathlistLoadFs [(0, z)] [0]))
      | _ => stepLoadGeneric st
    else stepLoadGeneric st
  | ["len"] =>
    match st.coll with
    | .zip z => (st, match zipManifest z with
      | some rows => s!"ok {rows.length}"
      | none => "ok none")
    | .sbt z => (st, match zipManifest z with
      | some rows => s!"ok {rows.length}"
      | none => "ok none")
    | .dir d => (st, showRes (fun l => s!"ok {l.length}") (multiIndexLoad (dirLoad d)))
    | .sigfile l => (st, showRes (fun l => s!"ok {l.length}") (multiIndexLoad l))
    | .sql db => (st, s!"ok {db.sketches.length}")
    | .lca db => (st, s!"ok {db.len}")
    | _ => (st, "ok -")
  | ["kind", k] =>
    match kind? k, resolveLoaders Sm.Gen.loaderPriorities with
    | some k, some table =>
      let acc := (sortByPrio table).map fun e => s!"{e.1}:{(e.2.run k).show}"
      let w := match loadChain table k with
        | .ok c => c.name
        | .err e => "ERR:" ++ e.name
      (st, s!"ok accept={",".intercalate acc} winner={w}")
    | _, _ => bad
  | ["conv", x] =>
    match nat? x with
    | some x => (st, s!"ok {convertHashTo x} {convertHashFrom (convertHashTo x)}")
    | none => bad
  | _ => bad

end Sm.DriverStore
