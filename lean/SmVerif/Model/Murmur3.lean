/-
MurmurHash3_x64_128 (Austin Appleby, public domain), first 64-bit word, on a
list of bytes with a 64-bit seed: the function behind `_hash_murmur` in
src/core/src/lib.rs (crate `murmurhash3` 0.0.5, `murmurhash3_x64_128(kmer, seed).0`,
which initialises BOTH lanes with the full u64 seed).

Written from the published algorithm.  This is the only place in the model
where `UInt64` (wrap-around) arithmetic is used.  No theorem is claimed about
the distribution of its values; it is compared with the real `hash_murmur` by
the `seq` correspondence stream (`murmur` ops) and its values feed every other
op of that stream.  Bytes are `Nat`s (only values < 256 are meaningful).
-/
namespace Sm.Murmur3

def c1 : UInt64 := 0x87c37b91114253d5
def c2 : UInt64 := 0x4cf5ad432745937f

@[inline] def rotl (x : UInt64) (r : UInt64) : UInt64 := (x <<< r) ||| (x >>> (64 - r))

def fmix64 (k : UInt64) : UInt64 :=
  let k := k ^^^ (k >>> 33)
  let k := k * 0xff51afd7ed558ccd
  let k := k ^^^ (k >>> 33)
  let k := k * 0xc4ceb9fe1a85ec53
  k ^^^ (k >>> 33)

/-- little-endian 64-bit word of (up to) the first 8 bytes -/
def le64 : List Nat → UInt64
  | [] => 0
  | b :: bs => UInt64.ofNat b ||| (le64 bs <<< 8)

def mixK1 (k1 : UInt64) : UInt64 := rotl (k1 * c1) 31 * c2
def mixK2 (k2 : UInt64) : UInt64 := rotl (k2 * c2) 33 * c1

/-- the 16-byte block loop; returns the lanes and the unread tail (`fuel` = number of blocks) -/
def body : Nat → List Nat → UInt64 → UInt64 → UInt64 × UInt64 × List Nat
  | 0, bs, h1, h2 => (h1, h2, bs)
  | n + 1, bs, h1, h2 =>
    let k1 := le64 (bs.take 8)
    let k2 := le64 ((bs.drop 8).take 8)
    let h1 := h1 ^^^ mixK1 k1
    let h1 := (rotl h1 27 + h2) * 5 + 0x52dce729
    let h2 := h2 ^^^ mixK2 k2
    let h2 := (rotl h2 31 + h1) * 5 + 0x38495ab5
    body n (bs.drop 16) h1 h2

/-- `murmurhash3_x64_128(bytes, seed).0` -/
def hash64 (bytes : List Nat) (seed : UInt64) : UInt64 :=
  let len := bytes.length
  let (h1, h2, tail) := body (len / 16) bytes seed seed
  -- tail: bytes 8..14 go to k2, bytes 0..7 to k1
  let h2 := if tail.length > 8 then h2 ^^^ mixK2 (le64 ((tail.drop 8).take 8)) else h2
  let h1 := if tail.length > 0 then h1 ^^^ mixK1 (le64 (tail.take 8)) else h1
  let h1 := h1 ^^^ UInt64.ofNat len
  let h2 := h2 ^^^ UInt64.ofNat len
  let h1 := h1 + h2
  let h2 := h2 + h1
  let h1 := fmix64 h1
  let h2 := fmix64 h2
  h1 + h2

/-- as the `Nat`-valued hash function the sequence model is parameterised by -/
def hashNat (seed : Nat) (bytes : List Nat) : Nat := (hash64 bytes (UInt64.ofNat seed)).toNat

end Sm.Murmur3
