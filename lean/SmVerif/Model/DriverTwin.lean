/-
Driver for the `twin` correspondence stream (C14): every operation is applied to a
`KmerMinHash` (model `MH`) AND a `KmerMinHashBTree` (model `BT`) held under the same
handle, and both observations are printed `vec | btree`, exactly as
rust-harness/src/main.rs (module `twin`) does with the real types.  Every observation
calls `md5sum()` on the object it shows, so the md5 caches are filled after each op.
-/
import SmVerif.Model.MinHashBTree
import SmVerif.Model.Proto

namespace Sm.DriverTwin

open Sm.Proto

abbrev St := Array (Option (MH × BT))

def init : St := Array.replicate 16 none

def showDigest (d : Digest) : String := s!"{d.ksize}:{joinNats d.mins}"

/-- observation of a `KmerMinHash`; returns the object with its md5 cache filled -/
def showV (s : MH) : MH × String :=
  let (s', d) := s.md5sum
  let ab := match s.abunds with
    | some ab => joinNats ab
    | none => "-"
  (s', s!"ok num={s.num} mh={s.maxHash} hf={s.hf} tr={b2s s.trackAbundance} mins={joinNats s.mins} ab={ab} md5={showDigest d}")

def showB (s : BT) : BT × String :=
  let (s', d) := s.md5sum
  let ab := match s.abunds with
    | some ab => joinNats (ab.map Prod.snd)
    | none => "-"
  (s', s!"ok num={s.num} mh={s.maxHash} hf={s.hf} tr={b2s s.trackAbundance} mins={joinNats s.mins} ab={ab} md5={showDigest d}")

def get (st : St) (i : Nat) : Option (MH × BT) := (st[i]?).join

def put (st : St) (i : Nat) (p : MH × BT) : St := st.setIfInBounds i (some p)

/-- store both twins under `r` and print them -/
def fin (st : St) (r : Nat) (v : MH) (b : BT) : St × String :=
  let (v', sv) := showV v
  let (b', sb) := showB b
  (put st r (v', b'), sv ++ " | " ++ sb)

/-- which variant of the four D14 sites the source currently has (read by the translator):
    `true` = repaired (/repo 779da1d), `false` = as first found -/
def fx : Bool := Gen.btreeD14Repaired

def addAbB (b : BT) (x a : Nat) : BT := if fx then b.addHashAbFix x a else b.addHashAb x a
def addManyB (b : BT) (xs : List Nat) : BT := if fx then b.addManyFix xs else b.addMany xs
def addManyAbB (b : BT) (ps : List (Nat × Nat)) : BT := if fx then b.addManyAbFix ps else b.addManyAb ps
def mergeB (b o : BT) : Except MH.Err BT := if fx then b.mergeFix o else b.merge o
def downB (b : BT) (sc : Nat) : Except MH.Err BT :=
  if fx then b.downsampleScaledFix sc else b.downsampleScaled sc
def ofVecB (v : MH) : BT := if fx then BT.ofVecFix v else BT.ofVec v
def deserializeB (j : BT.Json) : BT := if fx then BT.deserializeFix j else BT.deserialize j

def optNat (x : Except MH.Err Nat) : String :=
  match x with
  | .ok n => toString n
  | .error _ => "err"

def step (st : St) (line : String) : St × String :=
  let bad := (st, "bad-op")
  match words line with
  | "#" :: _ => (init, "#")
  | ["new", r, num, scaled, track, ksize, seed] =>
    match nats? [r, num, scaled, track, ksize, seed] with
    | some [r, num, scaled, track, ksize, seed] =>
      if r < 16 then
        fin st r (MH.new scaled ksize 1 seed (track != 0) num) (BT.new scaled ksize 1 seed (track != 0) num)
      else bad
    | _ => bad
  | ["add", h, x] =>
    match nats? [h, x] with
    | some [h, x] => match get st h with
      | some (v, b) => fin st h (v.addHash x) (addAbB b x 1)
      | none => bad
    | _ => bad
  | ["addab", h, x, a] =>
    match nats? [h, x, a] with
    | some [h, x, a] => match get st h with
      | some (v, b) => fin st h (v.addHashAb x a) (addAbB b x a)
      | none => bad
    | _ => bad
  | "addmany" :: h :: xs =>
    match nat? h, nats? xs with
    | some h, some xs => match get st h with
      | some (v, b) => fin st h (v.addMany xs) (addManyB b xs)
      | none => bad
    | _, _ => bad
  | "addmanyab" :: h :: ps =>
    match nat? h, pairs? ps with
    | some h, some ps => match get st h with
      | some (v, b) => fin st h (v.addManyAb ps) (addManyAbB b ps)
      | none => bad
    | _, _ => bad
  | "rm" :: h :: xs =>
    match nat? h, nats? xs with
    | some h, some xs => match get st h with
      | some (v, b) => fin st h (v.removeMany xs) (b.removeMany xs)
      | none => bad
    | _, _ => bad
  | ["clear", h] =>
    match nat? h with
    | some h => match get st h with
      | some (v, b) => fin st h v.clear b.clear
      | none => bad
    | _ => bad
  | ["merge", h, g] =>
    match nats? [h, g] with
    | some [h, g] => match get st h, get st g with
      | some (v, b), some (ov, ob) =>
        -- the harness clones the operand first (fills its cache: already filled), then merges in place
        let r1 := v.merge ov.clone.2
        let r2 := mergeB b ob.clone.2
        match r1, r2 with
        | .ok v', .ok b' => fin st h v' b'
        | _, _ =>
          let v' := match r1 with | .ok x => x | .error _ => v
          let b' := match r2 with | .ok x => x | .error _ => b
          let e1 := match r1 with | .ok _ => "0" | .error _ => "1"
          let e2 := match r2 with | .ok _ => "0" | .error _ => "1"
          (put st h (v', b'), s!"err vec={e1} bt={e2}")
      | _, _ => bad
    | _ => bad
  | ["addfrom", h, g] =>
    match nats? [h, g] with
    | some [h, g] => match get st h, get st g with
      | some (v, b), some (ov, ob) => fin st h (v.addFrom ov) (addManyB b ob.mins)
      | _, _ => bad
    | _ => bad
  | ["enab", h] =>
    match nat? h with
    | some h => match get st h with
      | some (v, b) =>
        match v.enableAbundance, b.enableAbundance with
        | .ok v', .ok b' => fin st h v' b'
        | r1, r2 =>
          let v' := match r1 with | .ok x => x | .error _ => v
          let b' := match r2 with | .ok x => x | .error _ => b
          let e1 := match r1 with | .ok _ => "0" | .error _ => "1"
          let e2 := match r2 with | .ok _ => "0" | .error _ => "1"
          (put st h (v', b'), s!"err vec={e1} bt={e2}")
      | none => bad
    | _ => bad
  | ["disab", h] =>
    match nat? h with
    | some h => match get st h with
      | some (v, b) => fin st h v.disableAbundance b.disableAbundance
      | none => bad
    | _ => bad
  | ["sethf", h, c] =>
    match nats? [h, c] with
    | some [h, c] =>
      if c < 1 ∨ c > 4 then bad else
      match get st h with
      | some (v, b) =>
        match v.setHashFunction c, b.setHashFunction c with
        | .ok v', .ok b' => fin st h v' b'
        | r1, r2 =>
          let v' := match r1 with | .ok x => x | .error _ => v
          let b' := match r2 with | .ok x => x | .error _ => b
          let e1 := match r1 with | .ok _ => "0" | .error _ => "1"
          let e2 := match r2 with | .ok _ => "0" | .error _ => "1"
          (put st h (v', b'), s!"err vec={e1} bt={e2}")
      | none => bad
    | _ => bad
  | ["downmh", r, g, mx] =>
    match nats? [r, g, mx] with
    | some [r, g, mx] =>
      if r < 16 then
        match get st g with
        | some (v, b) =>
          match v.clone.2.downsampleMaxHash mx,
                (if fx then b.clone.2.downsampleMaxHashFix mx else b.clone.2.downsampleMaxHash mx) with
          | .ok v', .ok b' => fin st r v' b'
          | r1, r2 =>
            let e1 := match r1 with | .ok _ => "0" | .error _ => "1"
            let e2 := match r2 with | .ok _ => "0" | .error _ => "1"
            (st, s!"err vec={e1} bt={e2}")
        | none => bad
      else bad
    | _ => bad
  | ["md5", h] =>
    match nat? h with
    | some h => match get st h with
      | some (v, b) => fin st h v b
      | none => bad
    | _ => bad
  | ["tovec", h] =>
    -- KmerMinHash::from(&btree), shown next to the vec twin; nothing is replaced
    match nat? h with
    | some h => match get st h with
      | some (v, b) =>
        let (v', sv) := showV v
        let (_, sc) := showV b.intoVec
        (put st h (v', b), sv ++ " | " ++ sc)
      | none => bad
    | _ => bad
  | ["tobt", h] =>
    -- KmerMinHashBTree::from(vec.clone()), shown next to the btree twin
    match nat? h with
    | some h => match get st h with
      | some (v, b) =>
        let (v', c) := v.clone
        let (_, sc) := showB (ofVecB c)
        let (b', sb) := showB b
        (put st h (v', b'), sc ++ " | " ++ sb)
      | none => bad
    | _ => bad
  | ["convvec", h] =>
    -- the vec twin is REPLACED by the conversion of the btree twin
    match nat? h with
    | some h => match get st h with
      | some (_, b) => fin st h b.intoVec b
      | none => bad
    | _ => bad
  | ["convbt", h] =>
    -- the btree twin is REPLACED by the conversion of (a clone of) the vec twin
    match nat? h with
    | some h => match get st h with
      | some (v, _) =>
        let (v', c) := v.clone
        fin st h v' (ofVecB c)
      | none => bad
    | _ => bad
  | ["json", h] =>
    -- both twins go through serde_json and back
    match nat? h with
    | some h => match get st h with
      | some (v, b) => fin st h (MH.deserialize v.serialize.2) (deserializeB b.serialize.2)
      | none => bad
    | _ => bad
  | ["cc", h, g, ds] =>
    match nats? [h, g, ds] with
    | some [h, g, ds] => match get st h, get st g with
      | some (v, b), some (ov, ob) =>
        (st, s!"cc {optNat (v.countCommon ov (ds != 0))} | cc {optNat (b.countCommon ob (ds != 0))}")
      | _, _ => bad
    | _ => bad
  | ["isz", h, g] =>
    match nats? [h, g] with
    | some [h, g] => match get st h, get st g with
      | some (v, b), some (ov, ob) =>
        let s1 := match v.intersectionSize ov with
          | .ok (c, u) => s!"isz {c} {u}"
          | .error _ => "isz err"
        let s2 := match b.intersectionSize ob with
          | .ok (c, u) => s!"isz {c} {u}"
          | .error _ => "isz err"
        (st, s1 ++ " | " ++ s2)
      | _, _ => bad
    | _ => bad
  | ["down", r, g, sc] =>
    match nats? [r, g, sc] with
    | some [r, g, sc] =>
      if r < 16 then
        match get st g with
        | some (v, b) =>
          match v.clone.2.downsampleScaled sc, downB b.clone.2 sc with
          | .ok v', .ok b' => fin st r v' b'
          | r1, r2 =>
            let e1 := match r1 with | .ok _ => "0" | .error _ => "1"
            let e2 := match r2 with | .ok _ => "0" | .error _ => "1"
            (st, s!"err vec={e1} bt={e2}")
        | none => bad
      else bad
    | _ => bad
  | _ => bad

end Sm.DriverTwin
