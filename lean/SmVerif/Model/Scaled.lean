/-
scaled <-> max_hash conversions, as the four functions in the source compute
them.  Which numerator and which float->integer conversion each function uses
is read from the source by the translator (`Sm.Gen`); the arithmetic is the
exact binary64 model of `Float64.lean`.
-/
import SmVerif.Model.Float64
import SmVerif.Model.Generated

namespace Sm

open F64 Gen

def U64MAX : Nat := 2 ^ 64 - 1

def applyRnd (r : Rnd) (x : F) : Nat :=
  match r with
  | .trunc => toU64 x
  | .halfEven => min (roundHalfEven x) U64MAX
  | .halfAway => min (roundHalfAway x) U64MAX

/-- Rust `max_hash_for_scaled` -/
def mhR (scaled : Nat) : Nat :=
  match scaled with
  | 0 => 0
  | 1 => U64MAX
  | s => applyRnd rustMhRnd (F64.div (F64.ofNat rustMhNumer) (F64.ofNat s))

/-- Rust `scaled_for_max_hash` -/
def scR (maxHash : Nat) : Nat :=
  match maxHash with
  | 0 => 0
  | m => applyRnd rustScRnd (F64.div (F64.ofNat rustScNumer) (F64.ofNat m))

/-- Python `_get_max_hash_for_scaled` (int / int is correctly rounded) -/
def mhP (scaled : Nat) : Nat :=
  if scaled = 0 then 0
  else if scaled = 1 then U64MAX
  else applyRnd pyMhRnd (F64.divNat pyNumer scaled)

/-- Python `_get_scaled_for_max_hash` -/
def scP (maxHash : Nat) : Nat :=
  if maxHash = 0 then 0
  else applyRnd pyScRnd (F64.divNat pyNumer maxHash)

end Sm
