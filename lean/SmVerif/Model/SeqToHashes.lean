/-
Model of the sequence -> hashes path of sourmash (property C02):

* src/core/src/encodings.rs   `revcomp`, `translate_codon`, `aa_to_dayhoff`, `aa_to_hp`, `to_aa`,
                              tables COMPLEMENT / VALID / CODONTABLE / DAYHOFFTABLE / HPTABLE
                              (the tables come from `Generated.lean`, re-extracted on every run)
* src/core/src/signature.rs   `SeqToHashes::new`, `Iterator::next` (transcribed branch for branch as
                              `St`, `new`, `next`), `SigsTrait::add_sequence` / `add_protein`
* src/core/src/ffi/minhash.rs `kmerminhash_seq_to_hashes` (two modes), `kmerminhash_add_sequence` /
                              `kmerminhash_add_protein` (`CStr::from_ptr`: the buffer ends at the first NUL)
* src/sourmash/minhash.py     `MinHash.__init__` (ksize * 3 for the protein types), `seq_to_hashes`,
                              `kmers_and_hashes`, `add_sequence`, `add_protein`

Conventions.  A byte is a `Nat` (only values < 256 occur in the drivers; all tables are total
functions on `Nat` that answer the table's default outside the listed entries, so every theorem
holds for all lists of naturals, hence for all byte strings).  The hash function is a parameter
`hash : List Nat → Nat` (the real one is `Murmur3.hashNat seed`).  Rust panics (index out of
range, `unwrap` on invalid UTF-8, `windows(0)`) are explicit `Err` values: the landing pad of
the FFI turns them into a Python exception.
-/
import SmVerif.Model.Generated

namespace Sm.Seq

/-- (documentation only) a byte is a `Nat`; the definitions below say `Nat` so that `omega` sees them -/
abbrev Byte := Nat

/-! ### encodings.rs -/

inductive HashFn where
  | dna | protein | dayhoff | hp
deriving Repr, DecidableEq, BEq

def HashFn.isDna : HashFn → Bool
  | .dna => true
  | _ => false
def HashFn.isProtein : HashFn → Bool
  | .protein => true
  | _ => false
def HashFn.isDayhoff : HashFn → Bool
  | .dayhoff => true
  | _ => false
def HashFn.isHp : HashFn → Bool
  | .hp => true
  | _ => false

/-- `COMPLEMENT[b]` -/
def complement (b : Nat) : Nat := (Gen.complementEntries.lookup b).getD 0

/-- `VALID[b]` -/
def valid (b : Nat) : Bool := Gen.validEntries.contains b

/-- `CODONTABLE.get(codon)` -/
def codonLookup (c : List Nat) : Option Nat := Gen.codonEntries.lookup c

/-- `aa_to_dayhoff` -/
def aaToDayhoff (b : Nat) : Nat := (Gen.dayhoffEntries.lookup b).getD Gen.unknownDayhoff

/-- `aa_to_hp` -/
def aaToHp (b : Nat) : Nat := (Gen.hpEntries.lookup b).getD Gen.unknownHp

/-- `u8::to_ascii_uppercase` -/
def upperByte (b : Nat) : Nat := if 97 ≤ b ∧ b ≤ 122 then b - 32 else b

/-- `<[u8]>::to_ascii_uppercase` -/
def upper (s : List Nat) : List Nat := s.map upperByte

/-- `revcomp`: `seq.iter().rev().map(|nt| COMPLEMENT[*nt as usize]).collect()` -/
def revcomp (s : List Nat) : List Nat := s.reverse.map complement

/-- UTF-8 continuation byte -/
def cont (b : Nat) : Bool := 0x80 ≤ b && b ≤ 0xBF

/-- `core::str::from_utf8(..).is_ok()` (Unicode 15 table 3-7: no overlong forms, no surrogates,
    nothing above U+10FFFF) -/
def utf8Valid : List Nat → Bool
  | [] => true
  | b0 :: rest =>
    if b0 < 0x80 then utf8Valid rest else
    match rest with
    | [] => false
    | b1 :: r1 =>
      if 0xC2 ≤ b0 && b0 ≤ 0xDF then cont b1 && utf8Valid r1 else
      match r1 with
      | [] => false
      | b2 :: r2 =>
        if b0 == 0xE0 then (0xA0 ≤ b1 && b1 ≤ 0xBF) && cont b2 && utf8Valid r2
        else if (0xE1 ≤ b0 && b0 ≤ 0xEC) || b0 == 0xEE || b0 == 0xEF then cont b1 && cont b2 && utf8Valid r2
        else if b0 == 0xED then (0x80 ≤ b1 && b1 ≤ 0x9F) && cont b2 && utf8Valid r2
        else
        match r2 with
        | [] => false
        | b3 :: r3 =>
          if b0 == 0xF0 then (0x90 ≤ b1 && b1 ≤ 0xBF) && cont b2 && cont b3 && utf8Valid r3
          else if 0xF1 ≤ b0 && b0 ≤ 0xF3 then cont b1 && cont b2 && cont b3 && utf8Valid r3
          else if b0 == 0xF4 then (0x80 ≤ b1 && b1 ≤ 0x8F) && cont b2 && cont b3 && utf8Valid r3
          else false

inductive Err where
  /-- `Error::InvalidDNA { message: kmer }` -/
  | invalidDNA (kmer : List Nat)
  /-- `Error::InvalidHashFunction` -/
  | invalidHashFunction
  /-- `Error::InvalidCodonLength` -/
  | invalidCodonLength (n : Nat)
  /-- `str::from_utf8(..).unwrap()` / `String::from_utf8(..).unwrap()` on invalid UTF-8 -/
  | panicUtf8
  /-- slice index out of range / usize underflow -/
  | panicIndex
  /-- `slice.windows(0)` -/
  | panicWindow0
deriving Repr, DecidableEq

/-- `translate_codon` -/
def translateCodon (codon : List Nat) : Except Err Nat :=
  if codon.length = 1 then .ok Gen.unknownCodon
  else if codon.length = 2 then
    let v := codon ++ [Gen.codonPad]
    if utf8Valid v then .ok ((codonLookup v).getD Gen.unknownCodon) else .error .panicUtf8
  else if codon.length = 3 then
    if utf8Valid codon then .ok ((codonLookup codon).getD Gen.unknownCodon) else .error .panicUtf8
  else .error (.invalidCodonLength codon.length)

/-- the re-encoding `to_aa` applies to each residue -/
def reenc (dayhoff hp : Bool) (residue : Nat) : Nat :=
  if dayhoff then aaToDayhoff residue else if hp then aaToHp residue else residue

/-- `to_aa`: `seq.chunks(3)`, stop at the first short chunk, `?` on every codon -/
def toAA (dayhoff hp : Bool) : List Nat → Except Err (List Nat)
  | a :: b :: c :: rest =>
    match translateCodon [a, b, c] with
    | .error e => .error e
    | .ok residue =>
      match toAA dayhoff hp rest with
      | .error e => .error e
      | .ok tl => .ok (reenc dayhoff hp residue :: tl)
  | _ => .ok []

/-! ### small std pieces -/

/-- `&s[a..b]`: panics (here: `none`) unless `a ≤ b ≤ len` -/
def slice? {α} (s : List α) (a b : Nat) : Option (List α) :=
  if a ≤ b ∧ b ≤ s.length then some ((s.drop a).take (b - a)) else none

/-- `slice.windows(k)` for `k ≥ 1`: every contiguous length-`k` block, left to right
    (for `k = 0`, where Rust panics, this gives `len + 1` empty windows) -/
def windows {α} (k : Nat) : List α → List (List α)
  | [] => if k = 0 then [[]] else []
  | a :: s => if k ≤ s.length + 1 then (a :: s).take k :: windows k s else []

/-- `a < b` for `&[u8]` (lexicographic, a proper prefix is smaller) -/
def lexLt : List Nat → List Nat → Bool
  | _, [] => false
  | [], _ :: _ => true
  | a :: as, b :: bs => if a < b then true else if b < a then false else lexLt as bs

/-- `std::cmp::min(a, b)`: `b` if `b < a`, else `a` -/
def lexMin (a b : List Nat) : List Nat := if lexLt b a then b else a

/-! ### signature.rs: the `SeqToHashes` iterator -/

structure St where
  sequence : List Nat
  kmerIndex : Nat
  kSize : Nat
  maxIndex : Nat
  force : Bool
  isProtein : Bool
  hf : HashFn
  hashesBuffer : List Nat
  dnaConfigured : Bool
  dnaRc : List Nat
  dnaKsize : Nat
  dnaLen : Nat
  dnaLastPositionCheck : Nat
  protConfigured : Bool
  aaSeq : List Nat
  translateIterStep : Nat
deriving Repr

/-- `SeqToHashes::new` (the seed lives in the `hash` parameter of `next`) -/
def new (seq : List Nat) (kSize : Nat) (force isProtein : Bool) (hf : HashFn) : St :=
  let ksize := if isProtein || !hf.isDna then kSize / 3 else kSize
  let maxIndex := if seq.length ≥ ksize then seq.length - ksize + 1 else 0
  { sequence := upper seq, kSize := ksize, kmerIndex := 0, maxIndex := maxIndex, force := force,
    isProtein := isProtein, hf := hf, hashesBuffer := [], dnaConfigured := false, dnaRc := [],
    dnaKsize := 0, dnaLen := 0, dnaLastPositionCheck := 0, protConfigured := false, aaSeq := [],
    translateIterStep := 0 }

abbrev Item := Except Err Nat

/-- outcome of the validity loop `for j in max(kmer_index, last_check)..kmer_index + ksize` -/
inductive Scan where
  /-- ran to the end; new `dna_last_position_check` -/
  | good (lpc : Nat)
  /-- hit an invalid byte; `dna_last_position_check` at that moment -/
  | bad (lpc : Nat)
  /-- `self.sequence[j]` out of range -/
  | oob
deriving Repr, DecidableEq

/-- `cnt` iterations starting at position `j` -/
def scan (seq : List Nat) : Nat → Nat → Nat → Scan
  | 0, _, lpc => .good lpc
  | cnt + 1, j, lpc =>
    match seq[j]? with
    | none => .oob
    | some b => if !valid b then .bad lpc else scan seq cnt (j + 1) (lpc + 1)

/-- the DNA branch of `next` (after the one-time configuration) -/
def nextDna (hash : List Nat → Nat) (st : St) : Option (Item × St) :=
  match slice? st.sequence st.kmerIndex (st.kmerIndex + st.dnaKsize) with
  | none => some (.error .panicIndex, st)
  | some kmer =>
    let lo := max st.kmerIndex st.dnaLastPositionCheck
    match scan st.sequence (st.kmerIndex + st.dnaKsize - lo) lo st.dnaLastPositionCheck with
    | .oob => some (.error .panicIndex, st)
    | .bad lpc =>
      if !st.force then
        some (.error (if utf8Valid kmer then .invalidDNA kmer else .panicUtf8),
              { st with dnaLastPositionCheck := lpc })
      else
        some (.ok 0, { st with kmerIndex := st.kmerIndex + 1, dnaLastPositionCheck := lpc })
    | .good lpc =>
      if st.dnaLen < st.dnaKsize + st.kmerIndex then some (.error .panicIndex, st) else
      match slice? st.dnaRc (st.dnaLen - st.dnaKsize - st.kmerIndex) (st.dnaLen - st.kmerIndex) with
      | none => some (.error .panicIndex, st)
      | some krc =>
        some (.ok (hash (lexMin kmer krc)),
              { st with kmerIndex := st.kmerIndex + 1, dnaLastPositionCheck := lpc })

/-- hashes of one frame: forward strand windows, then reverse-complement strand windows -/
def frameHashes (hash : List Nat → Nat) (st : St) (frame : Nat) : Except Err (List Nat) :=
  match toAA st.hf.isDayhoff st.hf.isHp (st.sequence.drop frame) with
  | .error e => .error e
  | .ok aa =>
    if st.kSize = 0 then .error .panicWindow0 else
    match toAA st.hf.isDayhoff st.hf.isHp (st.dnaRc.drop frame) with
    | .error e => .error e
    | .ok aaRc => .ok ((windows st.kSize aa).map hash ++ (windows st.kSize aaRc).map hash)

/-- `for frame_number in 0..3 { … hashes_buffer.push … }` -/
def fillBuffer (hash : List Nat → Nat) (st : St) : Except Err (List Nat) :=
  match frameHashes hash st 0 with
  | .error e => .error e
  | .ok h0 =>
    match frameHashes hash st 1 with
    | .error e => .error e
    | .ok h1 =>
      match frameHashes hash st 2 with
      | .error e => .error e
      | .ok h2 => .ok (st.hashesBuffer ++ h0 ++ h1 ++ h2)

/-- the translate branch of `next`: on the first call fill the buffer with all six frames, then
    (same call) start yielding from it; when the cursor reaches the end the iterator finishes
    (`hashes_buffer.clear(); kmer_index = max_index; return None`).  No bookkeeping items. -/
def nextTranslate (hash : List Nat → Nat) (st : St) : Option (Item × St) :=
  let firstCall := st.hashesBuffer.isEmpty && st.translateIterStep == 0
  match (if firstCall then fillBuffer hash st else .ok st.hashesBuffer) with
  | .error e => some (.error e, st)
  | .ok buf =>
    if st.translateIterStep == buf.length then none
    else
      match buf[st.translateIterStep]? with
      | none => some (.error .panicIndex, st)
      | some h => some (.ok h, { st with hashesBuffer := buf, translateIterStep := st.translateIterStep + 1 })

/-- the `is_protein` branch of `next`.  `prot_configured` is never set in the source, so `aa_seq`
    is recomputed on every call (same value each time) -/
def nextProtein (hash : List Nat → Nat) (st : St) : Option (Item × St) :=
  if st.hf.isProtein then
    match slice? st.sequence st.kmerIndex (st.kmerIndex + st.kSize) with
    | none => some (.error .panicIndex, st)
    | some aaKmer => some (.ok (hash aaKmer), { st with kmerIndex := st.kmerIndex + 1 })
  else
    let aa? : Option (List Nat) :=
      if !st.protConfigured then
        match st.hf with
        | .dayhoff => some (st.sequence.map aaToDayhoff)
        | .hp => some (st.sequence.map aaToHp)
        | _ => none
      else some st.aaSeq
    match aa? with
    | none => some (.error .invalidHashFunction, st)
    | some aa =>
      let st := { st with aaSeq := aa }
      match slice? st.aaSeq st.kmerIndex (st.kmerIndex + st.kSize) with
      | none => some (.error .panicIndex, st)
      | some aaKmer => some (.ok (hash aaKmer), { st with kmerIndex := st.kmerIndex + 1 })

/-- `Iterator::next`.  `none` = the iterator is finished -/
def next (hash : List Nat → Nat) (st : St) : Option (Item × St) :=
  if st.kmerIndex < st.maxIndex || !st.hashesBuffer.isEmpty then
    if !st.isProtein then
      let cfg : Option St :=
        if !st.dnaConfigured then
          let st := { st with dnaKsize := st.kSize, dnaLen := st.sequence.length }
          if st.dnaLen < st.dnaKsize || (!st.hf.isDna && st.dnaLen < st.kSize * 3) then none
          else some { st with dnaRc := revcomp st.sequence, dnaConfigured := true }
        else some st
      match cfg with
      | none => none
      | some st => if st.hf.isDna then nextDna hash st else nextTranslate hash st
    else nextProtein hash st
  else none

/-- how a `for hash_value in iterator` loop that returns on the first `Err` ended -/
inductive Stop where
  | done
  | err (e : Err)
  /-- the model's fuel ran out (would be a hang of the real loop); proved unreachable -/
  | fuel
deriving Repr, DecidableEq

/-- the items a `for` loop sees: every `Ok` value up to the end or the first `Err` -/
def collect (hash : List Nat → Nat) : Nat → St → List Nat × Stop
  | 0, _ => ([], .fuel)
  | fuel + 1, st =>
    match next hash st with
    | none => ([], .done)
    | some (.error e, _) => ([], .err e)
    | some (.ok h, st') => let r := collect hash fuel st'; (h :: r.1, r.2)

/-- enough calls of `next` for any input (`2 * len + 4`; shown sufficient by the theorems) -/
def fuelFor (seq : List Nat) : Nat := 2 * seq.length + 4

/-- all `Ok` items of `SeqToHashes::new(seq, k, force, is_protein, hf, seed)`, including the `Ok(0)`
    skip markers the DNA branch emits with `force` -/
def iterate (hash : List Nat → Nat) (seq : List Nat) (kSize : Nat) (force isProtein : Bool) (hf : HashFn) :
    List Nat × Stop :=
  collect hash (fuelFor seq) (new seq kSize force isProtein hf)

/-- `SigsTrait::add_sequence`: the hashes handed to `add_hash`, in order (`Ok(0)` is skipped),
    and how the loop ended.  Hashes before an `Err` HAVE been added. -/
def addSequence (hash : List Nat → Nat) (seq : List Nat) (kSize : Nat) (force : Bool) (hf : HashFn) :
    List Nat × Stop :=
  let r := iterate hash seq kSize force false hf
  (r.1.filter (· != 0), r.2)

/-- `SigsTrait::add_protein` -/
def addProtein (hash : List Nat → Nat) (seq : List Nat) (kSize : Nat) (hf : HashFn) : List Nat × Stop :=
  let r := iterate hash seq kSize false true hf
  (r.1.filter (· != 0), r.2)

/-- `kmerminhash_seq_to_hashes`: with `force && bad_kmers_as_zeroes` every `Ok` item is returned,
    otherwise `Ok(0)` items are dropped; an `Err` fails the whole call -/
def seqToHashesFfi (hash : List Nat → Nat) (buf : List Nat) (kSize : Nat) (force badKmersAsZeroes isProtein : Bool)
    (hf : HashFn) : Except Err (List Nat) :=
  match iterate hash buf kSize force isProtein hf with
  | (hs, .done) => .ok (if force && badKmersAsZeroes then hs else hs.filter (· != 0))
  | (_, .err e) => .error e
  | (_, .fuel) => .error .panicIndex

/-! ### minhash.py -/

namespace Py

inductive PyErr where
  | valueError | assertionError | panic
deriving Repr, DecidableEq

def ofErr : Err → PyErr
  | .invalidDNA _ => .valueError
  | .invalidHashFunction => .valueError
  | .invalidCodonLength _ => .valueError
  | _ => .panic

/-- `MinHash.__init__`: the k-mer size stored in the Rust object -/
def rustK (hf : HashFn) (k : Nat) : Nat := if hf.isDna then k else k * 3

/-- `MinHash.seq_to_hashes`.  `bs` are the bytes of `to_bytes(sequence)` (the UTF-8 encoding of a
    `str`, or the `bytes` object itself); their count `len(seq_bytes)` is what Rust is told. -/
def seqToHashes (hash : List Nat → Nat) (hf : HashFn) (k : Nat) (bs : List Nat)
    (force badKmersAsZeroes isProtein : Bool) : Except PyErr (List Nat) :=
  if isProtein && hf.isDna then .error .valueError
  else if badKmersAsZeroes && !force then .error .valueError
  else
    match seqToHashesFfi hash bs (rustK hf k) force badKmersAsZeroes isProtein hf with
    | .ok hs => .ok hs
    | .error e => .error (ofErr e)

/-- what `CStr::from_ptr` sees of a Python `bytes` object: everything before the first NUL -/
def cstr (bs : List Nat) : List Nat := bs.takeWhile (· != 0)

/-- `MinHash.add_sequence` on a fresh sketch: the hashes added and the exception, if any -/
def addSequence (hash : List Nat → Nat) (hf : HashFn) (k : Nat) (bs : List Nat) (force : Bool) :
    List Nat × Option PyErr :=
  match Seq.addSequence hash (cstr bs) (rustK hf k) force hf with
  | (hs, .done) => (hs, none)
  | (hs, .err e) => (hs, some (ofErr e))
  | (hs, .fuel) => (hs, some .panic)

/-- `MinHash.add_protein` -/
def addProtein (hash : List Nat → Nat) (hf : HashFn) (k : Nat) (bs : List Nat) : List Nat × Option PyErr :=
  match Seq.addProtein hash (cstr bs) (rustK hf k) hf with
  | (hs, .done) => (hs, none)
  | (hs, .err e) => (hs, some (ofErr e))
  | (hs, .fuel) => (hs, some .panic)

/-- `range(0, stop, 3)` as start offsets -/
def range3 (stop : Int) : List Nat :=
  if stop ≤ 0 then [] else (List.range ((stop.toNat + 2) / 3)).map (· * 3)

/-- `screed.rc`: refuses (AssertionError) anything but ACGTN, then reverse + complement -/
def screedRc (s : List Nat) : Option (List Nat) :=
  if s.all (fun b => [65, 67, 71, 84, 78].contains b) then
    some (s.reverse.map (fun b => if b == 65 then 84 else if b == 67 then 71 else if b == 71 then 67
                                   else if b == 84 then 65 else 78))
  else none

/-- the k-mers one strand contributes in one frame:
    `for start in range(0, len(s) - ksize + 1 - frame, 3): s[start + frame : start + frame + ksize]` -/
def kmersOf (ksize : Nat) (s : List Nat) (frame : Nat) : List (List Nat) :=
  (range3 ((s.length : Int) - ksize + 1 - frame)).map (fun start => (s.drop (start + frame)).take ksize)

/-- `for frame in (0, 1, 2)`: forward k-mers, then reverse-complement k-mers -/
def sixFrameKmers (ksize : Nat) (sequence seqrc : List Nat) : List (List Nat) :=
  [0, 1, 2].flatMap (fun frame => kmersOf ksize sequence frame ++ kmersOf ksize seqrc frame)

/-- `MinHash.kmers_and_hashes` for an ASCII `str` (`bs` its bytes): the list the generator yields,
    or the exception it ends with.  `none` as a hash stands for Python's `None`. -/
def kmersAndHashes (hash : List Nat → Nat) (hf : HashFn) (k : Nat) (bs : List Nat) (force isProtein : Bool) :
    Except PyErr (List (List Nat × Option Nat)) :=
  let baz := force
  let sequence := upper bs
  match seqToHashes hash hf k sequence force baz isProtein with
  | .error e => .error e
  | .ok hashvals =>
    let hv : List (Option Nat) := if baz then hashvals.map (fun h => if h == 0 then none else some h)
                                  else hashvals.map some
    let translate := !hf.isDna && !isProtein
    let ksize := if translate then k * 3 else k
    if translate then
      -- `max(len(sequence) - ksize + 1, 0) * 2`
      let nKmers : Nat := (sequence.length + 1 - ksize) * 2
      if nKmers != hv.length then .error .assertionError else
      match screedRc sequence with
      | none => .error .assertionError
      | some seqrc =>
        -- `hashvals[hash_i]` would raise IndexError if there were fewer hashes than k-mers;
        -- the assertion above makes the two lengths equal
        .ok ((sixFrameKmers ksize sequence seqrc).zip hv)
    else
      -- `max(len(sequence) - ksize + 1, 0)`
      let nKmers : Nat := sequence.length + 1 - ksize
      if nKmers != hv.length then .error .assertionError else
      .ok (((List.range nKmers).map (fun i => (sequence.drop i).take ksize)).zip hv)

end Py

end Sm.Seq
