/-
C12 — selection and picklists: executable model of the code that exists.

* `selectSignature`  = `sourmash.index.select_signature`, the *reference predicate*: an interpreter
  (`evalS`) run on `Gen.selectSignatureProg`, the statement list the translator re-extracts from
  the source on every run.
* `rowPasses`        = one row through `CollectionManifest._select` (`Gen.manifestSelectProg`).
* `sqlRowPasses`     = the SQL `WHERE` of `SqliteCollectionManifest._make_select` (`Gen.sqlSelectProg`)
  followed by the Python picklist pass of `SqliteCollectionManifest.rows`.
* `Picklist`         = `SignaturePicklist`: `preprocess` (string functions from `Gen.preprocessOf`),
  `__contains__` (signature path), `matches_manifest_row` (row path; `rowValueWith` keeps the old `assert q` variant),
  CSV loading, `passes_all_picklists`, `to_picklist`.
* `Coll`             = the index classes: LinearIndex, LazyLinearIndex (merged selection dict, selection
  at iteration time), MultiIndex, ZipFileLinearIndex with / without manifest, StandaloneManifestIndex
  over a CSV or a SQLite manifest, SBT (in-place picklists, with / without manifest), LCA_Database,
  SqliteIndex; `select`, `signatures`, `find`.

Strings are `List Char`.  Python values are `PyVal`.  Exceptions are `Err`.
-/
import SmVerif.Model.Generated

namespace Sm.Select

open Sm.Gen (SelParam SelAttr SelExpr SelStmt StrOp PreFn Coltype PickSrc)

abbrev Str := List Char

inductive Err where
  | value          -- ValueError
  | assertion      -- AssertionError
  | stopIteration  -- StopIteration
  | type           -- TypeError
  | incompatible   -- a search over sketches that cannot be compared with the query (any exception class)
deriving Repr, DecidableEq

inductive Mol where
  | DNA | protein | dayhoff | hp
deriving Repr, DecidableEq, Inhabited

/-- a loaded signature, as far as selection can see it -/
structure Sig where
  ksize : Nat
  mol : Mol
  num : Nat
  scaled : Nat
  abund : Bool
  name : Str
  md5 : Str
  hashes : List Nat
deriving Repr, DecidableEq

/-- a manifest row (`make_manifest_row`), `loc` = internal_location -/
structure Row where
  ksize : Nat
  mol : Mol
  num : Nat
  scaled : Nat
  withAbund : Bool
  name : Str
  md5 : Str
  md5short : Str
  nHashes : Nat
  loc : Nat
deriving Repr, DecidableEq

def mkRow (s : Sig) (loc : Nat) : Row :=
  { ksize := s.ksize, mol := s.mol, num := s.num, scaled := s.scaled, withAbund := s.abund,
    name := s.name, md5 := s.md5, md5short := s.md5.take 8, nHashes := s.hashes.length, loc := loc }

/-! ### Python values -/

inductive PyVal where
  | none
  | int (n : Nat)
  | bool (b : Bool)
  | mol (m : Mol)
deriving Repr, DecidableEq

def PyVal.truthy : PyVal → Bool
  | .none => false
  | .int n => n != 0
  | .bool b => b
  | .mol _ => true

/-- Python `==` (`True == 1`, `False == 0`) -/
def PyVal.eq : PyVal → PyVal → Bool
  | .none, .none => true
  | .int a, .int b => a == b
  | .bool a, .bool b => a == b
  | .int a, .bool b => a == (if b then 1 else 0)
  | .bool a, .int b => b == (if a then 1 else 0)
  | .mol a, .mol b => a == b
  | _, _ => false

/-! ### picklists -/

/-- a picklist value: a string or an `(ident, md5short)`-style tuple -/
inductive PVal where
  | s (x : Str)
  | p (a b : Str)
deriving Repr, DecidableEq

/-- Python truthiness of a picklist value: a tuple is always truthy -/
def PVal.truthy : PVal → Bool
  | .s x => !x.isEmpty
  | .p _ _ => true

/-- `str.split(c)` -/
def splitOnChar (c : Char) : Str → List Str
  | [] => [[]]
  | x :: xs =>
    if x = c then [] :: splitOnChar c xs
    else match splitOnChar c xs with
      | [] => [[x]]
      | w :: ws => (x :: w) :: ws

def applyOp : StrOp → Str → Str
  | .split c i, s => (splitOnChar c s).getD i []
  | .take n, s => s.take n

def applyOps (ops : List StrOp) (s : Str) : Str := ops.foldl (fun acc o => applyOp o acc) s

def applyPre : PreFn → PVal → PVal
  | .simple ops, .s x => .s (applyOps ops x)
  | .pair a b, .p n m => .p (applyOps a n) (applyOps b m)
  | _, v => v

/-- `preprocess[coltype]` -/
def preOf (ct : Coltype) : PreFn := Gen.preprocessOf ct

structure Picklist where
  id : Nat            -- object identity (dict merging compares picklists with `!=`, i.e. by identity)
  coltype : Coltype
  exclude : Bool
  pickset : List PVal
  exactRows : Bool := false   -- `preprocess_fn` overridden with the identity (what `to_picklist()` does since cff7217)
deriving Repr, DecidableEq

/-- `self.preprocess_fn`: the table entry of the column type, unless overridden with the identity.  The override is only
    ever applied by `to_picklist()`, i.e. to the tuple column type `manifest`; the model honours it for the tuple column
    types only (where the row path and the signature path look at the same (name, md5) pair) -/
def Picklist.pre (pl : Picklist) : PreFn :=
  if pl.exactRows && pl.coltype.isMeta then .pair [] [] else preOf pl.coltype

/-- `_get_sig_attribute` -/
def sigAttr (ct : Coltype) (s : Sig) : PVal :=
  match Gen.sigAttrOf ct with
  | .pair => .p s.name s.md5
  | .md5 => .s s.md5
  | .md5short => .s (s.md5.take 8)
  | .name => .s s.name

/-- include / exclude tail shared by `__contains__` and `matches_manifest_row` -/
def Picklist.decide (pl : Picklist) (q : PVal) : Bool :=
  if pl.exclude then !(pl.pickset.contains q) else pl.pickset.contains q

/-- `SignaturePicklist.__contains__` (signature path) -/
def Picklist.hasSig (pl : Picklist) (s : Sig) : Bool :=
  pl.decide (applyPre pl.pre (sigAttr pl.coltype s))

/-- the column `_get_value_for_manifest_row` looks up, before `assert q` and preprocessing -/
def rowRaw (ct : Coltype) (r : Row) : PVal :=
  match Gen.rowKeyOf ct with
  | .pair => .p r.name r.md5
  | .md5 => .s r.md5
  | .md5short => .s r.md5short
  | .name => .s r.name

/-- `_get_value_for_manifest_row` (row path) with preprocessing `pre`.  `asserts` = the routine has `assert q` before
    preprocessing (the variant before fix b86e966; kept as a switch so that the old behaviour stays stated) -/
def rowValueP (asserts : Bool) (pre : PreFn) (ct : Coltype) (r : Row) : Except Err PVal :=
  if asserts && !(rowRaw ct r).truthy then .error .assertion
  else .ok (applyPre pre (rowRaw ct r))

def rowValueWith (asserts : Bool) (ct : Coltype) (r : Row) : Except Err PVal := rowValueP asserts (preOf ct) ct r

/-- the routine of the current source for a picklist that keeps its column type's preprocessing -/
def rowValue (ct : Coltype) (r : Row) : Except Err PVal := rowValueWith Gen.rowValueAsserts ct r

/-- `SignaturePicklist.matches_manifest_row` -/
def Picklist.matchesRow (pl : Picklist) (r : Row) : Except Err Bool :=
  match rowValueP Gen.rowValueAsserts pl.pre pl.coltype r with
  | .ok q => .ok (pl.decide q)
  | .error e => .error e

/-- `passes_all_picklists` -/
def passesAll (pls : List Picklist) (s : Sig) : Bool := pls.all (·.hasSig s)

/-- the bookkeeping `__contains__` / `matches_manifest_row` keep: `found` = the values that produced a match (it never
    feeds back into a verdict; `sig check -o` reports `pickset - found`) -/
def Picklist.foundAfter (pl : Picklist) (asked : List Sig) : List PVal :=
  (asked.map (fun s => applyPre pl.pre (sigAttr pl.coltype s))).filter pl.decide

/-- `sig check --output-missing`: the picklist values without a match among the signatures looked at -/
def Picklist.missingAfter (pl : Picklist) (asked : List Sig) : List PVal :=
  pl.pickset.filter (fun v => !(pl.foundAfter asked).contains v)

/-- `_get_value_for_csv_row` + the `if not col: continue` of `load`: raw CSV values to the pickset -/
def csvValue (ct : Coltype) (raw : PVal) : Option PVal :=
  let q := if raw.truthy then applyPre (preOf ct) raw else raw
  if q.truthy then some q else none

def loadPickset (ct : Coltype) (raws : List PVal) : List PVal := (raws.filterMap (csvValue ct)).eraseDups

/-! ### selection criteria (the keyword arguments of one `select` call / a stored selection dict) -/

/-- a keyword argument that may be absent, `None`, or a value -/
inductive Arg (α : Type) where
  | absent
  | pyNone
  | val (a : α)
deriving Repr, DecidableEq

structure Crit where
  ksize : Arg Nat := .absent
  moltype : Arg Mol := .absent
  scaled : Option Nat := none          -- absent or an int (callers never pass None)
  num : Option Nat := none
  abund : Arg Bool := .absent
  containment : Option Bool := none
  picklist : Option Picklist := none
deriving Repr, DecidableEq

/-- value of parameter `p` with the (falsy) default of the callee filled in -/
def Crit.val (c : Crit) : SelParam → PyVal
  | .ksize => match c.ksize with | .val k => .int k | _ => .none
  | .moltype => match c.moltype with | .val m => .mol m | _ => .none
  | .scaled => .int (c.scaled.getD 0)
  | .num => .int (c.num.getD 0)
  | .containment => .bool (c.containment.getD false)
  | .abund => match c.abund with | .val b => .bool b | _ => .none

/-- `"p" in select_d` -/
def Crit.has (c : Crit) : SelParam → Bool
  | .ksize => c.ksize != .absent
  | .moltype => c.moltype != .absent
  | .scaled => c.scaled.isSome
  | .num => c.num.isSome
  | .containment => c.containment.isSome
  | .abund => c.abund != .absent

/-- `abund=True` was passed -/
def Crit.abundTrue (c : Crit) : Bool :=
  match c.abund with
  | .val true => true
  | _ => false

/-- what `SqliteIndex._select` hands on to the manifest: the request without `num` and `abund` -/
def Crit.forSql (c : Crit) : Crit := { c with num := none, abund := .absent }

/-- `SqliteIndex._select` refuses a truthy `num` ("cannot select on 'num'") and a truthy `abund` -/
def sqliteRefuses (c : Crit) : Bool := c.num.getD 0 != 0 || c.abundTrue

def Crit.isEmpty (c : Crit) : Bool :=
  c.ksize == .absent && c.moltype == .absent && c.scaled.isNone && c.num.isNone && c.abund == .absent
    && c.containment.isNone && c.picklist.isNone

/-! ### the interpreter of the three extracted routines -/

structure Env where
  crit : Crit
  attr : SelAttr → PyVal
  inPl : Except Err Bool      -- `ss in picklist` / `picklist.matches_manifest_row(row)`; may raise

def sigAttrVal (s : Sig) : SelAttr → PyVal
  | .ksize => .int s.ksize
  | .moltype => .mol s.mol
  | .scaled => .int s.scaled
  | .num => .int s.num
  | .abund => .bool s.abund

def rowAttrVal (r : Row) : SelAttr → PyVal
  | .ksize => .int r.ksize
  | .moltype => .mol r.mol
  | .scaled => .int r.scaled
  | .num => .int r.num
  | .abund => .bool r.withAbund

/-- `if x: t else: f` where evaluating `x` may raise -/
def condE {α : Type} (x : Except Err Bool) (t f : Except Err α) : Except Err α :=
  match x with
  | .ok true => t
  | .ok false => f
  | .error e => .error e

def notE (x : Except Err Bool) : Except Err Bool :=
  match x with
  | .ok b => .ok (!b)
  | .error e => .error e

/-- statement sequencing: `none` = fell through to the next statement -/
def thenS (x y : Except Err (Option Bool)) : Except Err (Option Bool) :=
  match x with
  | .ok none => y
  | r => r

def evalE (env : Env) : SelExpr → Except Err Bool
  | .param p => .ok (env.crit.val p).truthy
  | .has p => .ok (env.crit.has p)
  | .notNone p => .ok (env.crit.val p != .none)
  | .gt0 p => match env.crit.val p with
    | .int n => .ok (decide (n > 0))
    | .bool b => .ok b
    | _ => .error .type
  | .attr a => .ok (env.attr a).truthy
  | .ne p a => .ok (!(env.crit.val p).eq (env.attr a))
  | .eq p a => .ok ((env.crit.val p).eq (env.attr a))
  | .hasPicklist => .ok env.crit.picklist.isSome
  | .inPicklist => env.inPl
  | .not e => notE (evalE env e)
  | .and a b => condE (evalE env a) (evalE env b) (.ok false)
  | .or a b => condE (evalE env a) (.ok true) (evalE env b)

def evalS (env : Env) : SelStmt → Except Err (Option Bool)
  | .ret b => .ok (some b)
  | .raiseValueError => .error .value
  | .pass => .ok none
  | .ite c t => condE (evalE env c) (evalS env t) (.ok none)
  | .seq a b => thenS (evalS env a) (evalS env b)

/-- a function that falls off its end returns `None`, which is falsy -/
def finishS (x : Except Err (Option Bool)) : Except Err Bool :=
  match x with
  | .ok (some b) => .ok b
  | .ok none => .ok false
  | .error e => .error e

def sigEnv (s : Sig) (c : Crit) : Env :=
  { crit := c, attr := sigAttrVal s,
    inPl := match c.picklist with
      | some pl => .ok (pl.hasSig s)
      | none => .ok true }

def rowEnv (r : Row) (c : Crit) : Env :=
  { crit := c, attr := rowAttrVal r,
    inPl := match c.picklist with
      | some pl => pl.matchesRow r
      | none => .ok true }

/-- `select_signature(ss, **c)`; falling off the end returns `None`, i.e. not selected -/
def selectSignature (s : Sig) (c : Crit) : Except Err Bool :=
  finishS (evalS (sigEnv s c) Gen.selectSignatureProg)

/-- all enabled clauses of a (guard, condition) list hold for this environment (a clause whose guard is
    false is not applied); evaluated in order, the first exception aborts -/
def clauseOk (env : Env) (cl : SelExpr × SelExpr) : Except Err Bool :=
  condE (evalE env cl.1) (evalE env cl.2) (.ok true)

def clausesPass (env : Env) : List (SelExpr × SelExpr) → Except Err Bool
  | [] => .ok true
  | cl :: t => condE (clauseOk env cl) (clausesPass env t) (.ok false)

/-- one row through the chained generators of `CollectionManifest._select` -/
def rowPasses (r : Row) (c : Crit) : Except Err Bool := clausesPass (rowEnv r c) Gen.manifestSelectProg

/-- SQL row as `SqliteCollectionManifest.rows` rebuilds it -/
def sqlRow (r : Row) : Row := if Gen.sqlRowAbundHardFalse then { r with withAbund := false } else r

/-- the SQL `WHERE` (no picklist in SQL) then the Python picklist pass of `rows` -/
def sqlRowPasses (r : Row) (c : Crit) : Except Err Bool :=
  condE (clausesPass { crit := c, attr := rowAttrVal r, inPl := .ok true } Gen.sqlSelectProg)
    (match c.picklist with
      | some pl => pl.matchesRow (sqlRow r)
      | none => .ok true)
    (.ok false)

/-- the SQL `WHERE` alone (what `locations()` uses) -/
def sqlWherePasses (r : Row) (c : Crit) : Except Err Bool :=
  clausesPass { crit := c, attr := rowAttrVal r, inPl := .ok true } Gen.sqlSelectProg

/-- filter with a predicate that may raise: the first exception aborts the whole pass -/
def filterE {α : Type} (p : α → Except Err Bool) : List α → Except Err (List α)
  | [] => .ok []
  | x :: xs => match p x with
    | .error e => .error e
    | .ok b => match filterE p xs with
      | .error e => .error e
      | .ok r => .ok (if b then x :: r else r)

/-! ### merging selection dicts -/

def argConflictLazy {α : Type} [DecidableEq α] (old new : Arg α) : Bool :=
  -- `if k in d: if d[k] != v: raise`
  new != .absent && old != .absent && old != new

def argConflictZip {α : Type} [DecidableEq α] (old new : Arg α) : Bool :=
  -- `if k in d: if d[k] is not None and d[k] != v: raise`
  new != .absent && old != .absent && old != .pyNone && old != new

def optConflict {α : Type} [DecidableEq α] (old new : Option α) : Bool :=
  new.isSome && old.isSome && old != new

def plConflict (old new : Option Picklist) : Bool :=
  match old, new with
  | some a, some b => a.id != b.id
  | _, _ => false

def argMerge {α : Type} (old new : Arg α) : Arg α :=
  match new with
  | .absent => old
  | n => n

def optMerge {α : Type} (old new : Option α) : Option α :=
  match new with
  | none => old
  | n => n

def Crit.merge (old new : Crit) : Crit :=
  { ksize := argMerge old.ksize new.ksize, moltype := argMerge old.moltype new.moltype,
    scaled := optMerge old.scaled new.scaled, num := optMerge old.num new.num,
    abund := argMerge old.abund new.abund, containment := optMerge old.containment new.containment,
    picklist := optMerge old.picklist new.picklist }

/-- `LazyLinearIndex.select` -/
def mergeLazy (old new : Crit) : Except Err Crit :=
  if argConflictLazy old.ksize new.ksize || argConflictLazy old.moltype new.moltype
      || optConflict old.scaled new.scaled || optConflict old.num new.num
      || argConflictLazy old.abund new.abund || optConflict old.containment new.containment
      || plConflict old.picklist new.picklist
  then .error .value else .ok (old.merge new)

/-- `ZipFileLinearIndex.select` without manifest and `SqliteCollectionManifest.select_to_manifest`;
    an empty stored dict is falsy: the new kwargs simply replace it -/
def mergeZip (old new : Crit) : Except Err Crit :=
  if old.isEmpty then .ok new
  else if argConflictZip old.ksize new.ksize || argConflictZip old.moltype new.moltype
      || optConflict old.scaled new.scaled || optConflict old.num new.num
      || argConflictZip old.abund new.abund || optConflict old.containment new.containment
      || plConflict old.picklist new.picklist
  then .error .value else .ok (old.merge new)

/-! ### collections -/

/-- file store: internal location ↦ the signatures of that file -/
abbrev Store := List (Nat × List Sig)

def Store.load (st : Store) (loc : Nat) : List Sig :=
  match st.find? (·.1 == loc) with
  | some (_, l) => l
  | none => []

/-- `locations()`: distinct, in order of first appearance -/
def locations (rows : List Row) : List Nat := (rows.map (·.loc)).eraseDups

/-- map with a function that may raise: the first exception aborts -/
def mapE {α β : Type} (f : α → Except Err β) : List α → Except Err (List β)
  | [] => .ok []
  | x :: xs => match f x with
    | .error e => .error e
    | .ok y => match mapE f xs with
      | .error e => .error e
      | .ok ys => .ok (y :: ys)

/-- `to_picklist()` (coltype `manifest`; id 0 is reserved for these).  `exact` = the method overrides the
    preprocessing with the identity, so that the picklist holds and compares full (name, md5) pairs (fix cff7217);
    otherwise (identifier, md5[:8]).  Re-read from the source per manifest class. -/
def toPicklistWith (exact : Bool) (rows : List Row) : Except Err Picklist :=
  let pre : PreFn := if exact then .pair [] [] else preOf .manifest
  match mapE (rowValueP Gen.rowValueAsserts pre .manifest) rows with
  | .ok vs => .ok { id := 0, coltype := .manifest, exclude := false, pickset := vs.eraseDups, exactRows := exact }
  | .error e => .error e

/-- `CollectionManifest.to_picklist` -/
def toPicklist (rows : List Row) : Except Err Picklist := toPicklistWith Gen.toPicklistExactCsv rows

/-- `SqliteCollectionManifest.to_picklist` -/
def toPicklistSql (rows : List Row) : Except Err Picklist := toPicklistWith Gen.toPicklistExactSql rows

inductive Coll where
  | linear (sigs : List Sig)
  | lazy (sigs : List Sig) (sel : Crit)
  | multi (rows : List (Row × Sig))
  | zipM (rows : List Row) (store : Store)
  | zipNM (sigs : List Sig) (sel : Crit)
  | smi (rows : List Row) (store : Store)
  | sqlmf (all : List Row) (sel : Crit) (store : Store)
  | sbt (leaves : List Sig) (pls : List Picklist)
  | sbtM (rows : List Row) (store : Store) (leaves : List Sig) (pls : List Picklist)
  | lca (ksize : Nat) (mol : Mol) (scaled : Nat) (sigs : List Sig) (pls : List Picklist)
      (cache : Option (List Sig))   -- the `_signatures` cached_property, once an iteration or a search computed it
  | sqlite (all : List (Row × Sig)) (sel : Crit)
deriving Repr

/-- load each listed location, keep what passes the manifest-derived picklist
    (`StandaloneManifestIndex._signatures_with_internal`): `load_file_as_index(iloc).select(picklist=pl)` is a
    MultiIndex over the file, i.e. the row path -/
def loadViaPicklist (pl : Picklist) (locs : List Nat) (store : Store) : Except Err (List Sig) :=
  match locs with
  | [] => .ok []
  | loc :: t =>
    match filterE (fun s => pl.matchesRow (mkRow s loc)) (store.load loc) with
    | .error e => .error e
    | .ok l => match loadViaPicklist pl t store with
      | .error e => .error e
      | .ok r => .ok (l ++ r)

/-- `StandaloneManifestIndex._signatures_with_internal`: turn the (selected) rows into a picklist, re-read the files at
    `locs` through it -/
def standaloneSignatures (exact : Bool) (rows : List Row) (locs : List Nat) (store : Store) : Except Err (List Sig) :=
  match toPicklistWith exact rows with
  | .ok pl => loadViaPicklist pl locs store
  | .error e => .error e

/-- rows of an SBT manifest after `for picklist in self.picklists: manifest = manifest.select_to_manifest(picklist=picklist)` -/
def sbtRows (rows : List Row) : List Picklist → Except Err (List Row)
  | [] => .ok rows
  | pl :: t => match filterE (fun r => rowPasses r { picklist := some pl }) rows with
    | .ok r => sbtRows r t
    | .error e => .error e

/-- `LCA_Database._signatures`: rebuilt from the inverted index — keeping what passes the picklists *held at that
    moment* — unless an earlier iteration or search already cached it (`select` does not invalidate the cache) -/
def lcaCached (sigs : List Sig) (pls : List Picklist) (cache : Option (List Sig)) : List Sig :=
  match cache with
  | some l => l
  | none => sigs.filter (passesAll pls)

/-- `signatures()` -/
def Coll.signatures : Coll → Except Err (List Sig)
  | .linear sigs => .ok sigs
  | .lazy sigs sel => filterE (selectSignature · sel) sigs
  | .multi rows => .ok (rows.map (·.2))
  | .zipM rows store =>
    -- every file of a listed location; keep signatures whose md5 is in the manifest
    .ok ((locations rows).flatMap (fun loc => (store.load loc).filter (fun s => rows.any (·.md5 == s.md5))))
  | .zipNM sigs sel => if sel.isEmpty then .ok sigs else filterE (selectSignature · sel) sigs
  | .smi rows store => standaloneSignatures Gen.toPicklistExactCsv rows (locations rows) store
  | .sqlmf all sel store =>
    match filterE (sqlRowPasses · sel) all with
    | .error e => .error e
    | .ok rows =>
      -- `locations()` of a SQLite manifest applies the SQL `WHERE` only, not the picklist
      match filterE (sqlWherePasses · sel) all with
      | .error e => .error e
      | .ok wrows => standaloneSignatures Gen.toPicklistExactSql (rows.map sqlRow) (locations wrows) store
  | .sbt leaves pls => .ok (leaves.filter (passesAll pls))
  | .sbtM rows store _ pls =>
    match sbtRows rows pls with
    | .ok r => .ok ((locations r).flatMap (fun loc => (store.load loc).take 1))
    | .error e => .error e
  | .lca _ _ _ sigs pls cache =>
    -- `for v in self._signatures.values(): if passes_all_picklists(v, self.picklists): yield v`
    .ok ((lcaCached sigs pls cache).filter (passesAll pls))
  | .sqlite all sel =>
    match filterE (fun rs => sqlRowPasses rs.1 sel) all with
    | .ok l => .ok (l.map (·.2))
    | .error e => .error e

/-- the checks `SBT.select` makes against the first signature it can iterate (every one of them raises
    ValueError, so their order is immaterial) -/
def sbtRefuses (first : Sig) (c : Crit) : Bool :=
  (match c.ksize with | .val k => first.ksize != k | _ => false)
    || (match c.moltype with | .val m => first.mol != m | _ => false)
    || (c.containment.getD false && first.scaled == 0)
    || (c.num.getD 0 != 0 && (first.num == 0 || c.num.getD 0 != first.num))
    || (c.scaled.getD 0 != 0 && (first.scaled == 0 ||
          (decide (c.scaled.getD 0 > first.scaled) && !(c.containment.getD false))))
    || (match c.abund with | .val true => true | _ => false)

def sbtChecks (first : Sig) (c : Crit) : Except Err Unit :=
  if sbtRefuses first c then .error .value else .ok ()

/-- the checks of `LCA_Database.select` (all ValueError) -/
def lcaRefuses (ksize : Nat) (mol : Mol) (scaled : Nat) (c : Crit) : Bool :=
  c.num.getD 0 != 0
    || (decide (c.scaled.getD 0 > scaled) && !(c.containment.getD false))
    || (match c.ksize with | .val k => ksize != k | _ => false)
    || (match c.moltype with | .val m => mol != m | _ => false)
    || (match c.abund with | .val true => true | _ => false)

def lcaChecks (ksize : Nat) (mol : Mol) (scaled : Nat) (c : Crit) : Except Err Unit :=
  if lcaRefuses ksize mol scaled c then .error .value else .ok ()

/-- `select(**c)`.  Returns the collection *as left behind* (SBT and LCA databases are modified in
    place, also when the call ends in a refusal) and the outcome. -/
def Coll.select (x : Coll) (c : Crit) : Coll × Except Err Coll :=
  match x with
  | .linear sigs =>
    (x, match filterE (selectSignature · c) sigs with
      | .ok l => .ok (.linear l)
      | .error e => .error e)
  | .lazy sigs sel =>
    (x, match mergeLazy sel c with
      | .ok d => .ok (.lazy sigs d)
      | .error e => .error e)
  | .multi rows =>
    (x, match filterE (fun rs => rowPasses rs.1 c) rows with
      | .ok l => .ok (.multi l)
      | .error e => .error e)
  | .zipM rows store =>
    (x, match filterE (rowPasses · c) rows with
      | .ok l => .ok (.zipM l store)
      | .error e => .error e)
  | .zipNM sigs sel =>
    (x, match mergeZip sel c with
      | .ok d => .ok (.zipNM sigs d)
      | .error e => .error e)
  | .smi rows store =>
    (x, match filterE (rowPasses · c) rows with
      | .ok l => .ok (.smi l store)
      | .error e => .error e)
  | .sqlmf all sel store =>
    (x, match mergeZip sel c with
      | .error e => .error e
      | .ok d =>
        -- `if picklist is not None: len(self)` iterates the rows of the *old* manifest
        if d.picklist.isSome then
          match filterE (sqlRowPasses · sel) all with
          | .ok _ => .ok (.sqlmf all d store)
          | .error e => .error e
        else .ok (.sqlmf all d store))
  | .sbt leaves pls =>
    match leaves.filter (passesAll pls) with
    | [] => (x, .ok x)          -- nothing (left) to select from: `return self`
    | first :: _ =>
      match sbtChecks first c with
      | .error e => (x, .error e)
      | .ok _ =>
        match c.picklist with
        | none => (x, .ok x)
        | some pl =>
          let x' := Coll.sbt leaves (pls ++ [pl])
          if pls.length + 1 > 1 then (x', .error .value) else (x', .ok x')
  | .sbtM rows store leaves pls =>
    match (Coll.sbtM rows store leaves pls).signatures with
    | .error e => (x, .error e)
    | .ok [] => (x, .ok x)
    | .ok (first :: _) =>
      match sbtChecks first c with
      | .error e => (x, .error e)
      | .ok _ =>
        match c.picklist with
        | none => (x, .ok x)
        | some pl =>
          let x' := Coll.sbtM rows store leaves (pls ++ [pl])
          if pls.length + 1 > 1 then (x', .error .value) else (x', .ok x')
  | .lca k m sc sigs pls cache =>
    match lcaChecks k m sc c with
    | .error e => (x, .error e)
    | .ok _ =>
      match c.picklist with
      | none => (x, .ok x)
      | some pl =>
        let x' := Coll.lca k m sc sigs (pls ++ [pl]) cache
        if pls.length + 1 > 1 then (x', .error .value) else (x', .ok x')
  | .sqlite all sel =>
    -- `_select(self, *, num=0, track_abundance=False, abund=None, **kwargs)`: `num` and `abund` are taken out of
    -- kwargs and refused when truthy
    (x, if sqliteRefuses c then .error .value
      else match mergeZip sel c.forSql with
        | .error e => .error e
        | .ok d =>
          if d.picklist.isSome then
            match filterE (fun rs => sqlRowPasses rs.1 sel) all with
            | .ok _ => .ok (.sqlite all d)
            | .error e => .error e
          else .ok (.sqlite all d))

/-- the collection as an iteration (`signatures()`) or a search leaves it: an LCA database now holds its
    `_signatures` cache; nothing else keeps state -/
def Coll.touch : Coll → Coll
  | .lca k m sc sigs pls cache => .lca k m sc sigs pls (some (lcaCached sigs pls cache))
  | x => x

/-- `SignaturePicklist.from_picklist_args("pickfile:column:coltype[:pickstyle]")` followed by the constructor's checks:
    split on ':' (so a ':' in the path is not representable), an optional 4th field that must be exactly `include` or
    `exclude`, exactly three fields left, a known column type, and no column name for the tuple column types.
    -> (pickfile, column, coltype, exclude) -/
def parsePicklistArg (arg : String) : Except Err (String × String × Coltype × Bool) :=
  let parts := arg.splitOn ":"
  let styled : Except Err (List String × Bool) :=
    if parts.length == 4 then
      match parts.getLast? with
      | some "include" => .ok (parts.dropLast, false)
      | some "exclude" => .ok (parts.dropLast, true)
      | _ => .error .value
    else .ok (parts, false)
  match styled with
  | .error e => .error e
  | .ok (fields, excl) =>
    match fields with
    | [file, col, ct] =>
      match Gen.Coltype.all.find? (·.str == ct) with
      | none => .error .value
      | some c => if c.isMeta && col != "" then .error .value else .ok (file, col, c, excl)
    | _ => .error .value

/-- `_check_select_parameters`, as far as the stream can reach it: a moltype that is not one of 'DNA', 'protein', 'dayhoff',
    'hp' (e.g. 'dna') is refused with ValueError by every container's `select`, before anything else happens -/
def checkSelectParameters (moltypeKnown : Bool) : Except Err Unit :=
  if moltypeKnown then .ok () else .error .value

/-! ### search -/

def overlaps (q s : Sig) : Bool := q.hashes.any (s.hashes.contains ·)

/-- can `Index.find` compare this subject with the query? -/
def comparable (q s : Sig) : Bool :=
  s.ksize == q.ksize && s.mol == q.mol &&
    (if q.scaled != 0 then s.scaled != 0 && s.num == 0 else s.num != 0 && s.scaled == 0)

/-- `Index.find` with a Jaccard search at threshold 0 over `signatures()` -/
def baseFind (sigs : Except Err (List Sig)) (q : Sig) : Except Err (List Sig) :=
  match sigs with
  | .error e => .error e
  | .ok l => if l.all (comparable q) then .ok (l.filter (overlaps q)) else .error .incompatible

/-- `find` (Jaccard, threshold 0): the signatures reported as matches -/
def Coll.find (x : Coll) (q : Sig) : Except Err (List Sig) :=
  match x with
  | .sbt leaves pls =>
    -- tree search over *all* leaves, picklists applied to the hits
    .ok ((leaves.filter (overlaps q)).filter (passesAll pls))
  | .sbtM _ _ leaves pls => .ok ((leaves.filter (overlaps q)).filter (passesAll pls))
  | .lca _ _ _ sigs pls cache =>
    -- hits come from the inverted index; `self._signatures.get(idx)` is `None` for what the cache dropped
    .ok (((lcaCached sigs pls cache).filter (overlaps q)).filter (passesAll pls))
  | .sqlite all sel =>
    -- the hash lookup runs over the whole database; hits outside `selected_ids` (the `_id`s of `manifest.rows`,
    -- i.e. SQL conditions + picklist) are skipped, then the picklist is applied to the loaded sketch again
    if all.isEmpty || q.scaled == 0 then .error .incompatible
    else match filterE (fun rs => sqlRowPasses rs.1 sel) all with
      | .error e => .error e
      | .ok selected =>
        let hits := (selected.map (·.2)).filter (overlaps q)
        .ok (match sel.picklist with
          | some pl => hits.filter pl.hasSig
          | none => hits)
  | _ => baseFind x.signatures q

end Sm.Select
