/-
Python `dict` / `set` as insertion-ordered association lists (the model of
every table of `LCA_Database` and of the nested-dict lineage tree's siblings).

* `get?`   : `d.get(k)`
* `set`    : `d[k] = v`   (an existing key keeps its position, a new key is appended)
* `erase`  : `del d[k]`
* `addSet` : `s.add(x)` on a set kept as a duplicate-free list (first insertion order;
             CPython's iteration order of a set is not modelled, every observation
             that comes out of a set is sorted by the protocol)
-/
namespace Sm.Dict

variable {α β : Type}

def get? [DecidableEq α] : List (α × β) → α → Option β
  | [], _ => none
  | (k, v) :: rest, x => if x = k then some v else get? rest x

def set [DecidableEq α] : List (α × β) → α → β → List (α × β)
  | [], x, v => [(x, v)]
  | (k, w) :: rest, x, v => if x = k then (k, v) :: rest else (k, w) :: set rest x v

def erase [DecidableEq α] : List (α × β) → α → List (α × β)
  | [], _ => []
  | (k, w) :: rest, x => if x = k then rest else (k, w) :: erase rest x

def keys : List (α × β) → List α
  | [] => []
  | (k, _) :: rest => k :: keys rest

def vals : List (α × β) → List β
  | [] => []
  | (_, v) :: rest => v :: vals rest

def contains [DecidableEq α] (d : List (α × β)) (x : α) : Bool := (get? d x).isSome

/-- `s.add(x)` -/
def addSet [DecidableEq α] : List α → α → List α
  | [], x => [x]
  | y :: ys, x => if x = y then y :: ys else y :: addSet ys x

/-- `s.update(xs)` -/
def updateSet [DecidableEq α] (s : List α) (xs : List α) : List α := xs.foldl addSet s

/-- `max(values) + 1`, or 0 for an empty collection (`_next_index` / `_next_lid` on load) -/
def nextAfter : List Nat → Nat
  | [] => 0
  | x :: xs => max (x + 1) (nextAfter xs)

/-- insertion into a strictly ascending list (a `MinHash` receiving `add_hash`) -/
def insertAsc : List Nat → Nat → List Nat
  | [], x => [x]
  | y :: ys, x => if x < y then x :: y :: ys else if x = y then y :: ys else y :: insertAsc ys x

def sortAsc (l : List Nat) : List Nat := l.foldl insertAsc []

end Sm.Dict
