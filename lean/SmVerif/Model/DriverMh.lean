/-
Driver for the `mh` correspondence stream (C01, C03, C04, C11): a table of
sketch handles, one Python-API-level operation per line.

The driver is a composition of three total functions

    parseD : String → Op                 -- the text of a line, as a typed operation (`unparsed` if it is none)
    exec   : St → Op → St × Ans          -- the operation on the handle table, with a typed answer
    render : Ans → String                -- the canonical observation line

and `step st line` IS `render (exec st (parseD line))` (by definition), so that theorems about every
history of typed operations (`Props/C01.lean`: the representation invariant in every cell of the table after
every history; `Props/C11.lean`: every md5 answer is the digest of the current content) are theorems about
what this driver prints in the correspondence run.
-/
import SmVerif.Model.MinHash
import SmVerif.Model.Proto
import SmVerif.Model.SeqToHashes
import SmVerif.Model.Murmur3

namespace Sm.DriverMh

open Sm.Proto

abbrev St := Array (Option MH)

def init : St := Array.replicate 64 none

def errName : MH.Err → String
  | .pyType => "TypeError"
  | .pyRuntime => "RuntimeError"
  | .frozen => "TypeError"
  | _ => "ValueError"

def showMH (s : MH) : String :=
  let ab := match s.abunds with
    | some ab => joinNats ab
    | none => "-"
  s!"ok num={s.num} mh={s.maxHash} sc={Py.scaledProp s} tr={b2s s.trackAbundance} mins={joinNats s.mins} ab={ab}"

def showDigest (d : Digest) : String := s!"md5pre {d.ksize} {joinNats d.mins}"

def get (st : St) (i : Nat) : Option MH := (st[i]?).join

def put (st : St) (i : Nat) (s : MH) : St := st.setIfInBounds i (some s)

/-- string-level `fin` (used by `DriverCmp`) -/
def fin (st : St) (r : Nat) (x : Except MH.Err MH) : St × String :=
  match x with
  | .ok s => (put st r s, showMH s)
  | .error e => (st, "err " ++ errName e)

/-! ### typed operations and answers -/

/-- one line of the `mh` stream.  Handles are indices into the table; signature objects live in the upper half
(slot `32 + S`). -/
inductive Op where
  | unparsed                                                -- a line that is not an operation of the stream (`bad-op`)
  | reset                                                   -- `# case`
  | skip                                                    -- `@…`: implementation-only observation (oracle decides)
  | new (r num scaled : Nat) (track : Bool) (ksize seed : Nat)
  | newmh (r num maxHash : Nat) (track : Bool) (ksize seed : Nat)
  | add (h v : Nat)
  | addab (h v a : Nat)
  | addmany (h : Nat) (vs : List Nat)
  | addfrom (h g : Nat)
  | rm (h : Nat) (vs : List Nat)
  | rmfrom (h g : Nat)
  | setab (h : Nat) (clear : Bool) (ps : List (Nat × Nat))
  | clear (h : Nat)
  | merge (h g : Nat)
  | plus (r h g : Nat)
  | copy (r h : Nat)
  | pickle (r h : Nat)
  | down (r h sc : Nat)
  | downnum (r h n : Nat)
  | flat (r h : Nat)
  | inter (r h g : Nat)
  | inflate (r h g : Nat)
  | md5raw (h : Nat)
  | md5 (h : Nat)
  | cc (h g : Nat) (ds : Bool)
  | iu (h g : Nat)
  | «show» (h : Nat)
  | sig (s h : Nat)
  | sigsetmh (s h : Nat)
  | sigmd5 (s : Nat)
  | sigadd (s : Nat) (bytes : List Nat) (force : Bool)
  | sigcopy (r s : Nat)
  | addseq (h : Nat) (bytes : List Nat) (force : Bool)   -- `mh.add_sequence(seq, force)` / k-mer by k-mer `add_kmer`
deriving Repr, DecidableEq

/-- a typed observation -/
inductive Ans where
  | reset
  | skip
  | bad
  | err (e : MH.Err)
  | errType                         -- `err TypeError` of `intersection_and_union_size`
  | errValue                        -- `err ValueError` of `add_sequence`
  | mh (s : MH)
  | digest (d : Digest)             -- an md5 answer (pre-image; the harness applies md5)
  | sig (k : Nat) (mins : List Nat) (d1 d2 : Digest)   -- a signature: k, hashes, `sig.md5sum()`, md5 of `sig.minhash`
  | nat (n : Nat)
  | nat2 (c u : Nat)
deriving Repr, DecidableEq

def render : Ans → String
  | .reset => "#"
  | .skip => "skip"
  | .bad => "bad-op"
  | .err e => "err " ++ errName e
  | .errType => "err TypeError"
  | .errValue => "err ValueError"
  | .mh s => showMH s
  | .digest d => showDigest d
  | .sig k mins d1 d2 => s!"sig k={k} mins={joinNats mins} {showDigest d1} | {showDigest d2}"
  | .nat n => s!"ok {n}"
  | .nat2 c u => s!"ok {c} {u}"

def finA (st : St) (r : Nat) (x : Except MH.Err MH) : St × Ans :=
  match x with
  | .ok s => (put st r s, .mh s)
  | .error e => (st, .err e)

/-! Signature objects (`SourmashSignature`): a signature CONTAINS a sketch (it is cloned in by the
constructor / the `.minhash` setter and cloned out by the `.minhash` getter), so a signature cell is an `MH`
value of its own, kept in the upper half of the handle table (slot `32 + S`).  `sig.add_sequence` mutates that
inner sketch through `KmerMinHash::add_sequence` (k-mer hashing: `Model/SeqToHashes.lean` + `Model/Murmur3.lean`);
`sig.md5sum()` clones the inner sketch out (filling its cache) and asks the clone. -/

def sigSlot (s : Nat) : Nat := 32 + s

/-- what the adapter prints for a signature: k, current hashes, `sig.md5sum()`, md5 of `sig.minhash` -/
def showSig (st : St) (s : Nat) : St × Ans :=
  match get st (sigSlot s) with
  | none => (st, .bad)
  | some cell =>
    let (cell1, out1) := cell.clone          -- sig.md5sum(): self.minhash (clone out) ...
    let d1 := out1.md5sum.2                   -- ... kmerminhash_md5sum on the clone
    let (cell2, out2) := cell1.clone          -- sig.minhash again, for the second answer
    let d2 := out2.md5sum.2
    (put st (sigSlot s) cell2, .sig cell.ksize cell.mins d1 d2)

/-- the k-mer hashes `sig.add_sequence(seq, force)` offers to the inner sketch, and whether it raised -/
def sigHashes (cell : MH) (bytes : List Nat) (force : Bool) : List Nat × Bool :=
  let (hs, err) := Seq.Py.addSequence (Murmur3.hashNat cell.seed) .dna cell.ksize bytes force
  (hs, err.isSome)

def exec (st : St) : Op → St × Ans
  | .unparsed => (st, .bad)
  | .reset => (init, .reset)
  | .skip => (st, .skip)
  | .new r num scaled tr ksize seed => finA st r (Py.mkMinHash num ksize 1 seed tr 0 scaled)
  | .newmh r num mx tr ksize seed => finA st r (Py.mkMinHash num ksize 1 seed tr mx 0)
  | .add h v =>
    match get st h with
    | some s => finA st h (.ok (s.addHash v))
    | none => (st, .bad)
  | .addab h v a =>
    match get st h with
    | some s => finA st h (Py.addHashWithAbundance s v a)
    | none => (st, .bad)
  | .addmany h vs =>
    match get st h with
    | some s => finA st h (.ok (s.addMany vs))
    | none => (st, .bad)
  | .addfrom h g =>
    match get st h, get st g with
    | some s, some o => finA st h (.ok (s.addFrom o))
    | _, _ => (st, .bad)
  | .rm h vs =>
    match get st h with
    | some s => finA st h (.ok (s.removeMany vs))
    | none => (st, .bad)
  | .rmfrom h g =>
    match get st h, get st g with
    | some s, some o => finA st h (.ok (s.removeFrom o))
    | _, _ => (st, .bad)
  | .setab h c ps =>
    match get st h with
    | some s => finA st h (Py.setAbundances s ps c)
    | none => (st, .bad)
  | .clear h =>
    match get st h with
    | some s => finA st h (.ok s.clear)
    | none => (st, .bad)
  | .merge h g =>
    match get st h, get st g with
    | some s, some o => finA st h (s.merge o)
    | _, _ => (st, .bad)
  | .plus r h g =>
    match get st h, get st g with
    | some s, some o => finA st r (Py.add s o)
    | _, _ => (st, .bad)
  | .copy r h =>
    match get st h with
    | some s => finA st r (Py.copy s)
    | none => (st, .bad)
  | .pickle r h =>
    match get st h with
    | some s => finA st r (.ok (Py.pickleRoundTrip s))
    | none => (st, .bad)
  | .down r h sc =>
    match get st h with
    | some s => finA st r (Py.downsample s none (some sc))
    | none => (st, .bad)
  | .downnum r h n =>
    match get st h with
    | some s => finA st r (Py.downsample s (some n) none)
    | none => (st, .bad)
  | .flat r h =>
    match get st h with
    | some s =>
      match Py.flatten s with
      | .ok (some f) => finA st r (.ok f)
      | .ok none => finA st r (.ok s)
      | .error e => finA st r (.error e)
    | none => (st, .bad)
  | .inter r h g =>
    match get st h, get st g with
    | some s, some o =>
      match Py.intersection s o with
      | .ok (s', n) => finA (put st h s') r (.ok n)
      | .error e => finA st r (.error e)
    | _, _ => (st, .bad)
  | .inflate r h g =>
    match get st h, get st g with
    | some s, some o => finA st r (Py.inflate s o)
    | _, _ => (st, .bad)
  | .md5raw h =>
    match get st h with
    | some s => (put st h s.md5sum.1, .digest s.md5sum.2)
    | none => (st, .bad)
  | .md5 h =>
    -- SourmashSignature(mh).md5sum(): clone in (fills mh's cache), clone out, md5 of the clone
    match get st h with
    | some s => (put st h s.clone.1, .digest s.clone.2.clone.2.md5sum.2)
    | none => (st, .bad)
  | .cc h g ds =>
    match get st h, get st g with
    | some s, some o =>
      match s.countCommon o ds with
      | .ok n => (st, .nat n)
      | .error e => (st, .err e)
    | _, _ => (st, .bad)
  | .iu h g =>
    -- intersection_and_union_size: refuses incompatible sketches with TypeError
    match get st h, get st g with
    | some s, some o =>
      match s.checkCompatible o with
      | .error _ => (st, .errType)
      | .ok _ =>
        match s.intersectionSize o with
        | .ok (c, u) => (st, .nat2 c u)
        | .error _ => (st, .nat2 0 0)
    | _, _ => (st, .bad)
  | .show h =>
    match get st h with
    | some s => (st, .mh s)
    | none => (st, .bad)
  | .sig s h =>
    match get st h with
    | some src => showSig (put (put st h src.clone.1) (sigSlot s) src.clone.2) s   -- signature_set_mh clones the sketch in
    | none => (st, .bad)
  | .sigsetmh s h =>
    match get st (sigSlot s), get st h with
    | some _, some src => showSig (put (put st h src.clone.1) (sigSlot s) src.clone.2) s
    | _, _ => (st, .bad)
  | .sigmd5 s =>
    match get st (sigSlot s) with
    | some _ => showSig st s
    | none => (st, .bad)
  | .sigadd s bytes force =>
    match get st (sigSlot s) with
    | some cell =>
      let (hs, raised) := sigHashes cell bytes force
      let st' := put st (sigSlot s) (cell.addMany hs)      -- hashes offered before an error stay in the sketch
      if raised then (st', .errValue) else showSig st' s
    | none => (st, .bad)
  | .sigcopy r s =>
    -- pickle round trip of the signature: a value copy (JSON inside)
    match get st (sigSlot s) with
    | some cell => showSig (put (put st (sigSlot s) cell.clone.1) (sigSlot r) cell.clone.2) r
    | none => (st, .bad)
  | .addseq h bytes force =>
    -- `MinHash.add_sequence` on a plain sketch: the same native walk as `sig.add_sequence`
    match get st h with
    | some s =>
      let (hs, raised) := sigHashes s bytes force
      let st' := put st h (s.addMany hs)                   -- hashes offered before an error stay in the sketch
      if raised then (st', .errValue) else (st', .mh (s.addMany hs))
    | none => (st, .bad)

/-! ### the text of a line -/

def parse (line : String) : Option Op :=
  if line.startsWith "@" then some .skip else
  match words line with
  | "#" :: _ => some .reset
  | ["sig", s, h] => do pure (.sig (← nat? s) (← nat? h))
  | ["sigsetmh", s, h] => do pure (.sigsetmh (← nat? s) (← nat? h))
  | ["sigmd5", s] => do pure (.sigmd5 (← nat? s))
  | ["sigadd", s, seq, force] => do
    let s ← nat? s
    let f ← bool? force
    pure (.sigadd s (seq.toList.map Char.toNat) f)
  | ["sigcopy", r, s] => do pure (.sigcopy (← nat? r) (← nat? s))
  | ["addseq", h, seq, force] => do
    let h ← nat? h
    let f ← bool? force
    pure (.addseq h (seq.toList.map Char.toNat) f)
  | ["new", r, num, scaled, track, ksize, seed] => do
    pure (.new (← nat? r) (← nat? num) (← nat? scaled) (← bool? track) (← nat? ksize) (← nat? seed))
  | ["newmh", r, num, maxhash, track, ksize, seed] => do
    pure (.newmh (← nat? r) (← nat? num) (← nat? maxhash) (← bool? track) (← nat? ksize) (← nat? seed))
  | ["add", h, v] => do pure (.add (← nat? h) (← nat? v))
  | ["addab", h, v, a] => do pure (.addab (← nat? h) (← nat? v) (← nat? a))
  | "addmany" :: h :: vs => do pure (.addmany (← nat? h) (← nats? vs))
  | ["addfrom", h, g] => do pure (.addfrom (← nat? h) (← nat? g))
  | "rm" :: h :: vs => do pure (.rm (← nat? h) (← nats? vs))
  | ["rmfrom", h, g] => do pure (.rmfrom (← nat? h) (← nat? g))
  | "setab" :: h :: clear :: ps => do pure (.setab (← nat? h) (← bool? clear) (← pairs? ps))
  | ["clear", h] => do pure (.clear (← nat? h))
  | ["merge", h, g] => do pure (.merge (← nat? h) (← nat? g))
  | ["plus", r, h, g] => do pure (.plus (← nat? r) (← nat? h) (← nat? g))
  | ["copy", r, h] => do pure (.copy (← nat? r) (← nat? h))
  | ["pickle", r, h] => do pure (.pickle (← nat? r) (← nat? h))
  | ["down", r, h, sc] => do pure (.down (← nat? r) (← nat? h) (← nat? sc))
  | ["downnum", r, h, n] => do pure (.downnum (← nat? r) (← nat? h) (← nat? n))
  | ["flat", r, h] => do pure (.flat (← nat? r) (← nat? h))
  | ["inter", r, h, g] => do pure (.inter (← nat? r) (← nat? h) (← nat? g))
  | ["inflate", r, h, g] => do pure (.inflate (← nat? r) (← nat? h) (← nat? g))
  | ["md5raw", h] => do pure (.md5raw (← nat? h))
  | ["md5", h] => do pure (.md5 (← nat? h))
  | ["cc", h, g, ds] => do pure (.cc (← nat? h) (← nat? g) (← bool? ds))
  | ["iu", h, g] => do pure (.iu (← nat? h) (← nat? g))
  | ["show", h] => do pure (.show (← nat? h))
  | _ => none

/-- total version: a line that does not parse is the operation `unparsed` -/
def parseD (line : String) : Op := (parse line).getD .unparsed

/-- one line of the stream: parse, execute, render -/
def step (st : St) (line : String) : St × String :=
  let r := exec st (parseD line)
  (r.1, render r.2)

/-- every history of typed operations: final table and the answers, in order -/
def run (st : St) : List Op → St × List Ans
  | [] => (st, [])
  | op :: ops =>
    let r := exec st op
    let rest := run r.1 ops
    (rest.1, r.2 :: rest.2)

end Sm.DriverMh
