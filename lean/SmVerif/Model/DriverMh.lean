/-
Driver for the `mh` correspondence stream (C01, C03, C04, C11): a table of
sketch handles, one Python-API-level operation per line.
-/
import SmVerif.Model.MinHash
import SmVerif.Model.Proto
import SmVerif.Model.SeqToHashes
import SmVerif.Model.Murmur3

namespace Sm.DriverMh

open Sm.Proto

abbrev St := Array (Option MH)

def init : St := Array.replicate 64 none

def errName : MH.Err → String
  | .pyType => "TypeError"
  | .pyRuntime => "RuntimeError"
  | .frozen => "TypeError"
  | _ => "ValueError"

def showMH (s : MH) : String :=
  let ab := match s.abunds with
    | some ab => joinNats ab
    | none => "-"
  s!"ok num={s.num} mh={s.maxHash} sc={Py.scaledProp s} tr={b2s s.trackAbundance} mins={joinNats s.mins} ab={ab}"

def showDigest (d : Digest) : String := s!"md5pre {d.ksize} {joinNats d.mins}"

def get (st : St) (i : Nat) : Option MH := (st[i]?).join

def put (st : St) (i : Nat) (s : MH) : St := st.setIfInBounds i (some s)

def fin (st : St) (r : Nat) (x : Except MH.Err MH) : St × String :=
  match x with
  | .ok s => (put st r s, showMH s)
  | .error e => (st, "err " ++ errName e)

/-! Signature objects (`SourmashSignature`): a signature CONTAINS a sketch (it is cloned in by the
constructor / the `.minhash` setter and cloned out by the `.minhash` getter), so a signature cell is an `MH`
value of its own, kept in the upper half of the handle table (slot `32 + S`).  `sig.add_sequence` mutates that
inner sketch through `KmerMinHash::add_sequence` (k-mer hashing: `Model/SeqToHashes.lean` + `Model/Murmur3.lean`);
`sig.md5sum()` clones the inner sketch out (filling its cache) and asks the clone. -/

def sigSlot (s : Nat) : Nat := 32 + s

/-- what the adapter prints for a signature: k, current hashes, `sig.md5sum()`, md5 of `sig.minhash` -/
def showSig (st : St) (s : Nat) : St × String :=
  match get st (sigSlot s) with
  | none => (st, "bad-op")
  | some cell =>
    let (cell1, out1) := cell.clone          -- sig.md5sum(): self.minhash (clone out) ...
    let d1 := out1.md5sum.2                   -- ... kmerminhash_md5sum on the clone
    let (cell2, out2) := cell1.clone          -- sig.minhash again, for the second answer
    let d2 := out2.md5sum.2
    (put st (sigSlot s) cell2,
     s!"sig k={cell.ksize} mins={joinNats cell.mins} {showDigest d1} | {showDigest d2}")

def sigStep (st : St) (ws : List String) : Option (St × String) :=
  match ws with
  | ["sig", s, h] => do
    let s ← nat? s
    let h ← nat? h
    let src ← get st h
    let (src', c) := src.clone               -- signature_set_mh clones the sketch in
    pure (showSig (put (put st h src') (sigSlot s) c) s)
  | ["sigsetmh", s, h] => do
    let s ← nat? s
    let h ← nat? h
    let _ ← get st (sigSlot s)
    let src ← get st h
    let (src', c) := src.clone
    pure (showSig (put (put st h src') (sigSlot s) c) s)
  | ["sigmd5", s] => do
    let s ← nat? s
    let _ ← get st (sigSlot s)
    pure (showSig st s)
  | ["sigadd", s, seq, force] => do
    let s ← nat? s
    let f ← bool? force
    let cell ← get st (sigSlot s)
    let bytes := seq.toList.map Char.toNat
    let (hs, err) := Seq.Py.addSequence (Murmur3.hashNat cell.seed) .dna cell.ksize bytes f
    let cell' := cell.addMany hs              -- hashes offered before an error stay in the sketch
    let st' := put st (sigSlot s) cell'
    match err with
    | none => pure (showSig st' s)
    | some _ => pure (st', "err ValueError")
  | ["sigcopy", r, s] => do                   -- pickle round trip of the signature: a value copy (JSON inside)
    let r ← nat? r
    let s ← nat? s
    let cell ← get st (sigSlot s)
    let (cell', c) := cell.clone
    pure (showSig (put (put st (sigSlot s) cell') (sigSlot r) c) r)
  | _ => none

def step (st : St) (line : String) : St × String :=
  let bad := (st, "bad-op")
  if line.startsWith "@" then (st, "skip") else   -- implementation-only observation (oracle decides)
  match sigStep st (words line) with
  | some r => r
  | none =>
  match words line with
  | "#" :: _ => (init, "#")
  | ["new", r, num, scaled, track, ksize, seed] =>
    match nats? [r, num, scaled, ksize, seed], bool? track with
    | some [r, num, scaled, ksize, seed], some tr =>
      fin st r (Py.mkMinHash num ksize 1 seed tr 0 scaled)
    | _, _ => bad
  | ["newmh", r, num, maxhash, track, ksize, seed] =>
    match nats? [r, num, maxhash, ksize, seed], bool? track with
    | some [r, num, mx, ksize, seed], some tr =>
      fin st r (Py.mkMinHash num ksize 1 seed tr mx 0)
    | _, _ => bad
  | ["add", h, v] =>
    match nats? [h, v] with
    | some [h, v] => match get st h with
      | some s => fin st h (.ok (s.addHash v))
      | none => bad
    | _ => bad
  | ["addab", h, v, a] =>
    match nats? [h, v, a] with
    | some [h, v, a] => match get st h with
      | some s => fin st h (Py.addHashWithAbundance s v a)
      | none => bad
    | _ => bad
  | "addmany" :: h :: vs =>
    match nat? h, nats? vs with
    | some h, some vs => match get st h with
      | some s => fin st h (.ok (s.addMany vs))
      | none => bad
    | _, _ => bad
  | ["addfrom", h, g] =>
    match nats? [h, g] with
    | some [h, g] => match get st h, get st g with
      | some s, some o => fin st h (.ok (s.addFrom o))
      | _, _ => bad
    | _ => bad
  | "rm" :: h :: vs =>
    match nat? h, nats? vs with
    | some h, some vs => match get st h with
      | some s => fin st h (.ok (s.removeMany vs))
      | none => bad
    | _, _ => bad
  | ["rmfrom", h, g] =>
    match nats? [h, g] with
    | some [h, g] => match get st h, get st g with
      | some s, some o => fin st h (.ok (s.removeFrom o))
      | _, _ => bad
    | _ => bad
  | "setab" :: h :: clear :: ps =>
    match nat? h, bool? clear, pairs? ps with
    | some h, some c, some ps => match get st h with
      | some s => fin st h (Py.setAbundances s ps c)
      | none => bad
    | _, _, _ => bad
  | ["clear", h] =>
    match nat? h with
    | some h => match get st h with
      | some s => fin st h (.ok s.clear)
      | none => bad
    | _ => bad
  | ["merge", h, g] =>
    match nats? [h, g] with
    | some [h, g] => match get st h, get st g with
      | some s, some o => fin st h (s.merge o)
      | _, _ => bad
    | _ => bad
  | ["plus", r, h, g] =>
    match nats? [r, h, g] with
    | some [r, h, g] => match get st h, get st g with
      | some s, some o => fin st r (Py.add s o)
      | _, _ => bad
    | _ => bad
  | ["copy", r, h] =>
    match nats? [r, h] with
    | some [r, h] => match get st h with
      | some s => fin st r (Py.copy s)
      | none => bad
    | _ => bad
  | ["pickle", r, h] =>
    match nats? [r, h] with
    | some [r, h] => match get st h with
      | some s => fin st r (.ok (Py.pickleRoundTrip s))
      | none => bad
    | _ => bad
  | ["down", r, h, sc] =>
    match nats? [r, h, sc] with
    | some [r, h, sc] => match get st h with
      | some s => fin st r (Py.downsample s none (some sc))
      | none => bad
    | _ => bad
  | ["downnum", r, h, n] =>
    match nats? [r, h, n] with
    | some [r, h, n] => match get st h with
      | some s => fin st r (Py.downsample s (some n) none)
      | none => bad
    | _ => bad
  | ["flat", r, h] =>
    match nats? [r, h] with
    | some [r, h] => match get st h with
      | some s => match Py.flatten s with
        | .ok (some f) => fin st r (.ok f)
        | .ok none => fin st r (.ok s)
        | .error e => fin st r (.error e)
      | none => bad
    | _ => bad
  | ["inter", r, h, g] =>
    match nats? [r, h, g] with
    | some [r, h, g] => match get st h, get st g with
      | some s, some o => match Py.intersection s o with
        | .ok (s', n) => fin (put st h s') r (.ok n)
        | .error e => fin st r (.error e)
      | _, _ => bad
    | _ => bad
  | ["inflate", r, h, g] =>
    match nats? [r, h, g] with
    | some [r, h, g] => match get st h, get st g with
      | some s, some o => fin st r (Py.inflate s o)
      | _, _ => bad
    | _ => bad
  | ["md5raw", h] =>
    match nat? h with
    | some h => match get st h with
      | some s => let (s', d) := s.md5sum; (put st h s', showDigest d)
      | none => bad
    | _ => bad
  | ["md5", h] =>
    -- SourmashSignature(mh).md5sum(): clone in (fills mh's cache), clone out, md5 of the clone
    match nat? h with
    | some h => match get st h with
      | some s =>
        let (s', c) := s.clone
        let (_, c2) := c.clone
        (put st h s', showDigest c2.md5sum.2)
      | none => bad
    | _ => bad
  | ["cc", h, g, ds] =>
    match nats? [h, g], bool? ds with
    | some [h, g], some ds => match get st h, get st g with
      | some s, some o => match s.countCommon o ds with
        | .ok n => (st, s!"ok {n}")
        | .error e => (st, "err " ++ errName e)
      | _, _ => bad
    | _, _ => bad
  | ["iu", h, g] =>
    -- intersection_and_union_size: refuses incompatible sketches with TypeError
    match nats? [h, g] with
    | some [h, g] => match get st h, get st g with
      | some s, some o =>
        match s.checkCompatible o with
        | .error _ => (st, "err TypeError")
        | .ok _ => match s.intersectionSize o with
          | .ok (c, u) => (st, s!"ok {c} {u}")
          | .error _ => (st, "ok 0 0")
      | _, _ => bad
    | _ => bad
  | ["show", h] =>
    match nat? h with
    | some h => match get st h with
      | some s => (st, showMH s)
      | none => bad
    | _ => bad
  | _ => bad

end Sm.DriverMh
