/-
Executable model of `sourmash lca index` (src/sourmash/lca/command_index.py): the taxonomy
spreadsheet reader `load_taxonomy_assignments` with its options, the main loop of `index`
(duplicate md5s, identifier derivation, `--require-taxonomy`, refusals) and the counts of
`--report`.

Conventions
* a spreadsheet is a list of rows of cells (strings); a taxon name cell `t<n>` is name id `n`;
  `filter_null` turns `""`, blanks, `na`, `null`, `[Blank]` into `unassigned` = name id `unassignedId`
* `sys.exit(code)` is `IdxRes.exit code`; the `Exception("multiple lineages ...")` is `IdxRes.exc`
-/
import SmVerif.Model.LcaDb

namespace Sm.LcaIndex

open Sm.Lin Sm.Lca Sm.Dict

structure Opts where
  ksize : Nat
  scaled : Nat
  moltype : Nat
  startColumn : Nat
  noHeaders : Bool
  force : Bool
  splitIdents : Bool
  keepVersions : Bool
  requireTax : Bool
  failMissing : Bool
deriving Repr

inductive Stop where
  | exit (code : Int)
  | exc
  | keyError      -- `record_remnants.remove(ident)` for an identifier already removed
deriving Repr, DecidableEq

/-- name id of the taxon name `unassigned` -/
def unassignedId : Nat := 1000

inductive Col where
  | ident | skip | rank (i : Nat)
deriving Repr, DecidableEq

/-- `row_headers = ["identifiers"] + ["_skip_"] * (start_column - 2) + taxlist()` -/
def rowHeaders (startColumn : Nat) : List Col :=
  Col.ident :: (List.replicate (startColumn - 2) Col.skip ++ (List.range nRanks).map Col.rank)

def colName : Col → String
  | .ident => "identifiers"
  | .skip => "_skip_"
  | .rank i => Gen.lcaTaxlist.getD i ""

/-- the header check: exits at the third column whose (lower-cased) name differs, unless `--force` -/
def headerOk (force : Bool) : List (Col × String) → Nat → Bool
  | [], _ => true
  | (c, v) :: rest, n =>
    if c = Col.skip then headerOk force rest n
    else if (colName c).toLower ≠ v.toLower then
      if n + 1 > 2 ∧ !force then false else headerOk force rest (n + 1)
    else headerOk force rest n

/-- `filter_null` followed by the name-id encoding of the protocol (`t<n>` ↦ n) -/
def cellName (x : String) : Nat :=
  let t := x.trimAscii.toString
  if t = "[Blank]" ∨ t = "na" ∨ t = "null" ∨ t = "" then unassignedId
  else ((x.drop 1).toString.toNat?).getD 999

/-- `while lineage and lineage[-1].name == "unassigned": lineage = lineage[:-1]` -/
def dropEndNulls (l : Lineage) : Lineage :=
  (l.reverse.dropWhile (fun p => p.2 == unassignedId)).reverse

/-- the characters before the LAST `c` (all of them when there is none): `s.rsplit(c, 1)[0]` on characters -/
def beforeLast (c : Char) (l : List Char) : List Char :=
  if l.contains c then (l.reverse.dropWhile (· != c)).drop 1 |>.reverse else l

/-- the version cut of one site -/
def cutVersion (cut : Gen.VersionCut) (s : String) : String :=
  match cut with
  | .dotPrefix => dotPrefix s
  | .dropLast => String.ofList (beforeLast '.' s.toList)

/-- an identifier normalisation: `ident.split(" ")[0]`, then the version cut unless versions are kept -/
def normIdent (cut : Gen.VersionCut) (splitIdents keepVersions : Bool) (ident : String) : String :=
  if splitIdents then
    let i := firstWord ident
    if keepVersions then i else cutVersion cut i
  else ident

/-- spreadsheet side: the identifier column in `load_taxonomy_assignments` -/
def taxIdent (splitIdents keepVersions : Bool) (ident : String) : String :=
  normIdent Gen.idxTaxVersionCut splitIdents keepVersions ident

/-- signature side: `sig.name` (or `sig.filename`) in the main loop of `index` -/
def sigIdent (splitIdents keepVersions : Bool) (ident : String) : String :=
  normIdent Gen.idxSigVersionCut splitIdents keepVersions ident

structure TaxAcc where
  asg : List (String × Lineage)
  numRows : Nat
  nSpecies : Nat

/-- one spreadsheet row -/
def taxRow (o : Opts) (acc : TaxAcc) (row : List String) : Except Stop TaxAcc :=
  match row with
  | [] => .ok acc
  | c0 :: _ =>
    if c0.trimAscii.toString = "" then .ok acc
    else
      let pairs := ((rowHeaders o.startColumn).zip row).filter (fun p => p.1 ≠ Col.skip)
      match pairs with
      | [] => .ok acc
      | (_, identCell) :: rest =>
        let ident := taxIdent o.splitIdents o.keepVersions identCell
        let lineage : Lineage := dropEndNulls (rest.filterMap (fun p => match p.1 with
          | .rank i => some (i, cellName p.2)
          | _ => none))
        let acc := { acc with numRows := acc.numRows + 1 }
        if lineage.isEmpty then .ok acc
        else match get? acc.asg ident with
          | some old => if old ≠ lineage ∧ !o.force then .error .exc else .ok acc
          | none =>
            let sp := match lineage.getLast? with
              | some (r, _) => if r = 6 ∨ r = 7 then 1 else 0
              | none => 0
            .ok { acc with asg := set acc.asg ident lineage, nSpecies := acc.nSpecies + sp }

/-- `load_taxonomy_assignments` -/
def loadTaxonomy (o : Opts) (rows : List (List String)) : Except Stop (List (String × Lineage) × Nat) :=
  let body : Except Stop (List (List String)) :=
    if o.noHeaders then .ok rows
    else match rows with
      | [] => .error .exc                      -- `next(iter(r))` on an empty file: StopIteration
      | first :: rest =>
        if headerOk o.force ((rowHeaders o.startColumn).zip first) 0 then .ok rest else .error (.exit (-1))
  match body with
  | .error e => .error e
  | .ok data =>
    match data.foldlM (taxRow o) { asg := [], numRows := 0, nSpecies := 0 } with
    | .error e => .error e
    | .ok acc =>
      if acc.asg.length * 2 > acc.nSpecies * 10 ∧ acc.asg.length > 50 ∧ !o.force then .error (.exit (-1))
      else .ok (acc.asg, acc.numRows)

structure IdxSt where
  db : Db
  seenMd5 : List String
  dupNames : List String          -- record_duplicates (a set of names)
  noLineage : List String         -- record_no_lineage (a list)
  remnants : List String          -- record_remnants (identifiers of the spreadsheet without signature yet)
  usedLineages : List Lineage
  usedIdents : List String

/-- the body of the main loop for one signature (one file each) -/
def indexSig (o : Opts) (asg : List (String × Lineage)) (st : IdxSt) (sg : Sig) : Except Stop IdxSt :=
  -- `load_file_as_signatures(filename, ksize=, select_moltype=)` skips the others silently
  if sg.ksize ≠ o.ksize ∨ sg.moltype ≠ o.moltype then .ok st
  else if st.seenMd5.contains sg.md5 then .ok { st with dupNames := addSet st.dupNames sg.name }
  else
    let st := { st with seenMd5 := sg.md5 :: st.seenMd5 }
    let ident := sigIdent o.splitIdents o.keepVersions (if sg.name ≠ "" then sg.name else sg.filename)
    match get? asg ident with
    | none =>
      if o.requireTax then (if o.failMissing then .error (.exit (-1)) else .ok st)
      else match st.db.insert sg ident [] with
        | (_, .error _) => .error (.exit (-1))
        | (db', .ok _) => .ok { st with db := db', noLineage := st.noLineage ++ [ident] }
    | some lineage =>
      match st.db.insert sg ident lineage with
      | (_, .error _) => .error (.exit (-1))
      | (db', .ok _) =>
        -- `record_remnants.remove(ident)`: a second signature reaching the same spreadsheet row (only possible
        -- for the empty identifier, which `insert` replaces by `str(sig)`) finds it gone
        if Gen.idxRemnantsRemoveRaises && !st.remnants.contains ident then .error .keyError else
        .ok { st with db := db', remnants := st.remnants.filter (· ≠ ident),
                      usedIdents := addSet st.usedIdents ident,
                      usedLineages := addSet st.usedLineages lineage }

structure Result where
  db : Db
  report : Option (List Nat)      -- duplicates, unused identifiers, no lineage, no signatures, unused lineages

/-- `index(args)` with `--report`, JSON output -/
def lcaIndex (o : Opts) (sigs : List Sig) (rows : List (List String)) : Except Stop Result :=
  if o.startColumn < 2 then .error (.exit (-1))
  else match loadTaxonomy o rows with
  | .error e => .error e
  | .ok (asg, _) =>
    let st0 : IdxSt := { db := Db.new o.ksize o.scaled o.moltype, seenMd5 := [], dupNames := [], noLineage := [],
                         remnants := keys asg, usedLineages := [], usedIdents := [] }
    match sigs.foldlM (indexSig o asg) st0 with
    | .error e => .error e
    | .ok st =>
      if sigs.isEmpty then .error (.exit 1)
      else if st.db.hashvals.isEmpty then .error (.exit 1)
      else
        let allLineages := updateSet [] (vals asg)
        let unusedLineages := allLineages.filter (fun l => !st.usedLineages.contains l)
        let unusedIdents := (keys asg).filter (fun i => !st.usedIdents.contains i)
        let any := !st.dupNames.isEmpty || !st.noLineage.isEmpty || !st.remnants.isEmpty || !unusedLineages.isEmpty
        .ok { db := st.db,
              report := if any then some [st.dupNames.length, unusedIdents.length, st.noLineage.length,
                                          st.remnants.length, unusedLineages.length] else none }

end Sm.LcaIndex
