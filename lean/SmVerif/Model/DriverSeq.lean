/-
Driver for the `seq` correspondence stream (C02).  Every op is self-contained
(a fresh sketch per op); sequences travel as lower-case hex (`-` = empty).

  murmur  <seed> <hex>                                   -> ok <hash>   (`hash_murmur`: C string, ends at the first NUL)
  s2h     <mol> <k> <seed> <force> <baz> <isprot> <mode> <hex>  -> ok h,h,...      | err <Exc>
  kah     <mol> <k> <seed> <force> <isprot> <hex>        -> ok kmerhex:hash;...     | err <Exc>
  addseq  <mol> <k> <seed> <force> <hex> [<hex> ...]     -> ok|err <Exc> + " h:count,..." (sorted)
  addprot <mol> <k> <seed> <hex> [<hex> ...]             -> same
  sketch  <mol> <k> <seed> <check> <isprot> <hex> ...    -> ok h:count,... | err     (`sourmash sketch dna|translate|protein`
                                                            on a FASTA file of the records; force = not --check-sequence)
  codon   <hex>                                          -> ok <byte> | err ValueError   (`translate_codon`, C string)
  aa      <dayhoff|hp> <byte>                            -> ok <byte>   (`sourmash_aa_to_dayhoff` / `_hp`)

mol ∈ dna|protein|dayhoff|hp ; mode ∈ str|bytes (how the Python caller passes the sequence).
-/
import SmVerif.Model.SeqToHashes
import SmVerif.Model.Murmur3
import SmVerif.Model.Proto

namespace Sm.DriverSeq

open Sm.Proto Sm.Seq

abbrev St := Unit

def init : St := ()

def hexVal (c : Char) : Option Nat :=
  if '0' ≤ c ∧ c ≤ '9' then some (c.toNat - '0'.toNat)
  else if 'a' ≤ c ∧ c ≤ 'f' then some (c.toNat - 'a'.toNat + 10)
  else none

def unhexAux : List Char → Option (List Nat)
  | [] => some []
  | [_] => none
  | a :: b :: r => do
    let x ← hexVal a
    let y ← hexVal b
    let t ← unhexAux r
    pure ((16 * x + y) :: t)

def unhex (s : String) : Option (List Nat) :=
  if s == "-" then some [] else if s.isEmpty then none else unhexAux s.toList

def hexDigit (n : Nat) : Char := if n < 10 then Char.ofNat (48 + n) else Char.ofNat (87 + n)

def hex (bs : List Nat) : String :=
  if bs.isEmpty then "-" else String.ofList (bs.flatMap (fun b => [hexDigit (b / 16), hexDigit (b % 16)]))

def mol? : String → Option HashFn
  | "dna" => some .dna
  | "protein" => some .protein
  | "dayhoff" => some .dayhoff
  | "hp" => some .hp
  | _ => none

/-- how the Python caller passes the sequence (`str` is encoded as UTF-8 by `to_bytes`); the code
    under test treats both the same, the op is only ill-formed for a `str` that is not UTF-8 -/
inductive Mode where
  | str | bytes
deriving DecidableEq

def mode? : String → Option Mode
  | "str" => some .str
  | "bytes" => some .bytes
  | _ => none

def pyErrName : Py.PyErr → String
  | .valueError => "ValueError"
  | .assertionError => "AssertionError"
  | .panic => "Panic"

def insertSorted (x : Nat) : List Nat → List Nat
  | [] => [x]
  | y :: ys => if x ≤ y then x :: y :: ys else y :: insertSorted x ys

def sortNats (l : List Nat) : List Nat := l.foldr insertSorted []

/-- sorted list -> (value, multiplicity) -/
def runs : List Nat → List (Nat × Nat)
  | [] => []
  | x :: xs =>
    match runs xs with
    | (y, c) :: r => if x == y then (y, c + 1) :: r else (x, 1) :: (y, c) :: r
    | [] => [(x, 1)]

def showCounts (hs : List Nat) : String :=
  ",".intercalate ((runs (sortNats hs)).map (fun (h, c) => s!"{h}:{c}"))

/-- feed records one after the other to the same sketch, stop at the first exception -/
def feed (f : List Nat → List Nat × Option Py.PyErr) : List (List Nat) → List Nat × Option Py.PyErr
  | [] => ([], none)
  | r :: rs =>
    match f r with
    | (hs, some e) => (hs, some e)
    | (hs, none) => let t := feed f rs; (hs ++ t.1, t.2)

def showFeed (r : List Nat × Option Py.PyErr) : String :=
  (match r.2 with
   | none => "ok"
   | some e => "err " ++ pyErrName e) ++ " " ++ showCounts r.1

def seedOk (seed : Nat) : Bool := seed < 2 ^ 64

def step (st : St) (line : String) : St × String :=
  let bad := (st, "bad-op")
  match words line with
  | "#" :: _ => (init, "#")
  | ["murmur", seed, hx] =>
    match nat? seed, unhex hx with
    | some seed, some bs => if seedOk seed then (st, s!"ok {Murmur3.hashNat seed (Py.cstr bs)}") else bad
    | _, _ => bad
  | "sketch" :: mol :: k :: seed :: check :: isprot :: hxs =>
    match mol? mol, nats? [k, seed], bool? check, bool? isprot, hxs.mapM unhex with
    | some hf, some [k, seed], some check, some isprot, some recs =>
      let safe (r : List Nat) : Bool :=
        !r.isEmpty && r.all (fun b => (65 ≤ b && b ≤ 90) || (97 ≤ b && b ≤ 122) || b == 42)
      if !seedOk seed || recs.isEmpty || !recs.all safe || k < 1 || (isprot && (hf == .dna || check)) then bad else
      let r := if isprot then feed (fun bs => Py.addProtein (Murmur3.hashNat seed) hf k bs) recs
               else feed (fun bs => Py.addSequence (Murmur3.hashNat seed) hf k bs (!check)) recs
      match r.2 with
      | none => (st, "ok " ++ showCounts r.1)
      | some _ => (st, "err")
    | _, _, _, _, _ => bad
  | ["codon", hx] =>
    -- minhash.translate_codon: C string in, every SourmashError (panic included) re-raised as ValueError
    match unhex hx with
    | some bs =>
      match translateCodon (Py.cstr bs) with
      | .ok b => (st, s!"ok {b}")
      | .error _ => (st, "err ValueError")
    | none => bad
  | ["aa", which, b] =>
    match nat? b with
    | some b =>
      if b > 255 then bad
      else if which == "dayhoff" then (st, s!"ok {aaToDayhoff b}")
      else if which == "hp" then (st, s!"ok {aaToHp b}")
      else bad
    | none => bad
  | ["s2h", mol, k, seed, force, baz, isprot, mode, hx] =>
    match mol? mol, nats? [k, seed], bool? force, bool? baz, bool? isprot, mode? mode, unhex hx with
    | some hf, some [k, seed], some force, some baz, some isprot, some mode, some bs =>
      if !seedOk seed || (mode == .str && !utf8Valid bs) then bad else
      match Py.seqToHashes (Murmur3.hashNat seed) hf k bs force baz isprot with
      | .ok hs => (st, "ok " ++ joinNats hs)
      | .error e => (st, "err " ++ pyErrName e)
    | _, _, _, _, _, _, _ => bad
  | ["kah", mol, k, seed, force, isprot, hx] =>
    match mol? mol, nats? [k, seed], bool? force, bool? isprot, unhex hx with
    | some hf, some [k, seed], some force, some isprot, some bs =>
      if !seedOk seed || bs.any (· ≥ 128) then bad else
      match Py.kmersAndHashes (Murmur3.hashNat seed) hf k bs force isprot with
      | .ok ps => (st, "ok " ++ ";".intercalate (ps.map (fun (km, h) =>
          hex km ++ ":" ++ (match h with
            | some h => toString h
            | none => "-"))))
      | .error e => (st, "err " ++ pyErrName e)
    | _, _, _, _, _ => bad
  | "addseq" :: mol :: k :: seed :: force :: hxs =>
    match mol? mol, nats? [k, seed], bool? force, hxs.mapM unhex with
    | some hf, some [k, seed], some force, some recs =>
      if !seedOk seed || recs.isEmpty then bad else
      (st, showFeed (feed (fun bs => Py.addSequence (Murmur3.hashNat seed) hf k bs force) recs))
    | _, _, _, _ => bad
  | "addprot" :: mol :: k :: seed :: hxs =>
    match mol? mol, nats? [k, seed], hxs.mapM unhex with
    | some hf, some [k, seed], some recs =>
      if !seedOk seed || recs.isEmpty then bad else
      (st, showFeed (feed (fun bs => Py.addProtein (Murmur3.hashNat seed) hf k bs) recs))
    | _, _, _ => bad
  | _ => bad

end Sm.DriverSeq
