/-
Executable model of `KmerMinHash` (src/core/src/sketch/minhash.rs), of the
FFI glue that is logic (src/core/src/ffi/minhash.rs) and of the Python
dispatch layer (src/sourmash/minhash.py).

Conventions
* hash values / abundances are `Nat`; the code's `u64` range is the explicit
  predicate `U64 h := h < 2^64` used by theorems, never baked into the model.
* `Vec::binary_search` is `lowerBound` (number of leading elements `< h`);
  that is what it returns on strictly ascending input, and strict
  ascendingness is an invariant proved in `Lemmas/MinHashInv.lean`.
* the md5 cache holds the *pre-image* (ksize, mins) the digest is computed
  from; md5 itself is applied by the harness.
* every function follows the control flow of the function it is named after,
  branch for branch, including the places where the code forgets to reset
  the md5 cache.
-/
import SmVerif.Model.Scaled

namespace Sm

/-- what `md5sum()` hashes: the decimal k-mer size followed by the decimal mins -/
structure Digest where
  ksize : Nat
  mins : List Nat
deriving DecidableEq, Repr, Inhabited

structure MH where
  num : Nat
  maxHash : Nat
  ksize : Nat
  seed : Nat
  hf : Nat                       -- 1 dna, 2 protein, 3 dayhoff, 4 hp
  mins : List Nat
  abunds : Option (List Nat)
  md5 : Option Digest
deriving DecidableEq, Repr, Inhabited

/-- number of leading elements `< h`: the insertion point `binary_search`
    reports on a strictly ascending vector -/
def lowerBound : List Nat → Nat → Nat
  | [], _ => 0
  | x :: xs, h => if x < h then lowerBound xs h + 1 else 0

/-- `self.mins.last()` or a default -/
def lastOr (l : List Nat) (d : Nat) : Nat :=
  match l.getLast? with
  | some x => x
  | none => d

/-- `Ok(pos)` of `binary_search` -/
def findPos (l : List Nat) (h : Nat) : Option Nat :=
  let p := lowerBound l h
  if l[p]? = some h then some p else none

namespace MH

def new (scaled ksize hf seed : Nat) (track : Bool) (num : Nat) : MH :=
  { num := num, maxHash := mhR scaled, ksize := ksize, seed := seed, hf := hf,
    mins := [], abunds := if track then some [] else none, md5 := none }

def scaled (s : MH) : Nat := scR s.maxHash

def trackAbundance (s : MH) : Bool := s.abunds.isSome

def resetMd5 (s : MH) : MH := { s with md5 := none }

def digest (s : MH) : Digest := ⟨s.ksize, s.mins⟩

/-- `md5sum()`: fills the cache lazily, returns the cached value -/
def md5sum (s : MH) : MH × Digest :=
  match s.md5 with
  | some d => (s, d)
  | none => ({ s with md5 := some s.digest }, s.digest)

/-- `Clone`: calls `self.md5sum()` (filling the source's cache) and
    pre-populates the copy's cache with the result -/
def clone (s : MH) : MH × MH :=
  let (s', d) := s.md5sum
  (s', { s' with md5 := some d })

/-- `clear()` -/
def clear (s : MH) : MH :=
  { s with mins := [], abunds := s.abunds.map (fun _ => []), md5 := none }

def removeHash (s : MH) (h : Nat) : MH :=
  match findPos s.mins h with
  | some pos =>
    { s with mins := s.mins.eraseIdx pos,
             abunds := s.abunds.map (fun ab => ab.eraseIdx pos),
             md5 := none }
  | none => s

def addHashAb (s : MH) (h a : Nat) : MH :=
  let currentMax := lastOr s.mins U64MAX
  if h > s.maxHash ∧ s.maxHash ≠ 0 then s
  else if s.num = 0 ∧ s.maxHash = 0 then s
  else if a = 0 then s.removeHash h
  else if s.mins.isEmpty then
    { s with mins := [h], abunds := s.abunds.map (fun ab => ab ++ [a]), md5 := none }
  else if h ≤ s.maxHash ∨ h ≤ currentMax ∨ s.mins.length < s.num then
    let pos := lowerBound s.mins h
    if pos = s.mins.length then
      { s with mins := s.mins ++ [h], abunds := s.abunds.map (fun ab => ab ++ [a]), md5 := none }
    else if s.mins[pos]? ≠ some h then
      let mins := s.mins.insertIdx pos h
      let abunds := s.abunds.map (fun ab => ab.insertIdx pos a)
      if s.num ≠ 0 ∧ mins.length > s.num then
        { s with mins := mins.dropLast, abunds := abunds.map List.dropLast, md5 := none }
      else
        { s with mins := mins, abunds := abunds, md5 := none }
    else
      { s with abunds := s.abunds.map (fun ab => ab.modify pos (· + a)) }
  else s

def addHash (s : MH) (h : Nat) : MH := s.addHashAb h 1

def addMany (s : MH) (hs : List Nat) : MH := hs.foldl addHash s

def addManyAb (s : MH) (ps : List (Nat × Nat)) : MH :=
  ps.foldl (fun s p => s.addHashAb p.1 p.2) s

def removeMany (s : MH) (hs : List Nat) : MH := hs.foldl removeHash s

/-- `set_hash_with_abundance` (Rust-only; not exported through the FFI) -/
def setHashAb (s : MH) (h a : Nat) : MH :=
  match findPos s.mins h with
  | some pos => { s with abunds := s.abunds.map (fun ab => ab.set pos a) }
  | none => s.addHashAb h a

inductive Err where
  | mismatchK | mismatchHF | mismatchScaled | mismatchSeed
  | nonEmpty | needsAbund | upsample
  | pyValue | pyType | pyRuntime | frozen
deriving DecidableEq, Repr

def checkCompatible (s o : MH) : Except Err Unit :=
  if s.ksize ≠ o.ksize then .error .mismatchK
  else if s.hf ≠ o.hf then .error .mismatchHF
  else if s.maxHash ≠ o.maxHash then .error .mismatchScaled
  else if s.seed ≠ o.seed then .error .mismatchSeed
  else .ok ()

end MH

/-- sorted union of two ascending association lists, counts added on equal keys
    (the hand-written two-cursor loop of `merge`) -/
def mergeP : List (Nat × Nat) → List (Nat × Nat) → List (Nat × Nat)
  | [], ys => ys
  | x :: xs, ys => go x xs (mergeP xs) ys
where
  go (x : Nat × Nat) (xs : List (Nat × Nat)) (rec : List (Nat × Nat) → List (Nat × Nat)) :
      List (Nat × Nat) → List (Nat × Nat)
    | [] => x :: xs
    | y :: ys =>
      if y.1 < x.1 then y :: go x xs rec ys
      else if y.1 = x.1 then (x.1, y.2 + x.2) :: rec ys
      else x :: rec (y :: ys)

/-- two-cursor intersection of ascending lists (`Intersection` iterator) -/
def interL : List Nat → List Nat → List Nat
  | [], _ => []
  | x :: xs, ys => go x (interL xs) ys
where
  go (x : Nat) (rec : List Nat → List Nat) : List Nat → List Nat
    | [] => []
    | y :: ys =>
      if x < y then rec (y :: ys)
      else if y < x then go x rec ys
      else x :: rec ys

def ones (l : List Nat) : List (Nat × Nat) := l.map (fun h => (h, 1))

namespace MH

/-- the (hash, abundance) pairs of a sketch; flat sketches count 1 (`to_vec_abunds`) -/
def pairs (s : MH) : List (Nat × Nat) :=
  match s.abunds with
  | some ab => s.mins.zip ab
  | none => ones s.mins

def merge (s o : MH) : Except Err MH := do
  s.checkCompatible o
  let both := s.abunds.isSome
  let merged := mergeP s.pairs o.pairs
  let merged := if merged.length > s.num ∧ s.num ≠ 0 then merged.take s.num else merged
  pure { s with mins := merged.map Prod.fst,
                abunds := if both then some (merged.map Prod.snd) else none,
                md5 := none }

def addFrom (s o : MH) : MH := s.addMany o.mins

def removeFrom (s o : MH) : MH := s.removeMany o.mins

/-- `downsample_scaled(self, scaled)`; `self` is consumed -/
def downsampleScaled (s : MH) (scaled : Nat) : Except Err MH :=
  if s.scaled = scaled ∨ s.scaled = 0 then .ok s
  else if s.scaled > scaled then .error .upsample
  else
    let n := MH.new scaled s.ksize s.hf s.seed s.abunds.isSome s.num
    .ok (if s.abunds.isSome then n.addManyAb s.pairs else n.addMany s.mins)

/-- free function `intersection`: common values and union size -/
def interUnion (a b : List Nat) : List Nat × Nat :=
  let c := interL a b
  (c, a.length + b.length - c.length)

/-- `intersection(&self, other)` -/
def intersection (s o : MH) : Except Err (List Nat × Nat) := do
  s.checkCompatible o
  if s.num ≠ 0 then
    let c0 := MH.new s.scaled s.ksize s.hf s.seed s.abunds.isSome s.num
    let c1 ← c0.merge s
    let c2 ← c1.merge o
    let i1 := interL s.mins o.mins
    pure (interL i1 c2.mins, c2.mins.length)
  else
    pure (interUnion s.mins o.mins)

def intersectionSize (s o : MH) : Except Err (Nat × Nat) := do
  let (c, u) ← s.intersection o
  pure (c.length, u)

/-- `count_common(&self, other, downsample)` -/
def countCommon (s o : MH) (downsample : Bool) : Except Err Nat :=
  if downsample ∧ s.scaled ≠ o.scaled then
    let (first, second) := if s.scaled > o.scaled then (s, o) else (o, s)
    do
      let d ← (second.clone.2).downsampleScaled first.scaled
      first.checkCompatible d
      pure (interL first.mins d.mins).length
  else do
    s.checkCompatible o
    pure (interL s.mins o.mins).length

/-- FFI `kmerminhash_intersection`: clone, clear, add the common hashes -/
def ffiIntersection (s o : MH) : Except Err (MH × MH) := do
  let (c, _) ← s.intersection o
  let (s', n) := s.clone
  pure (s', (n.clear).addMany c)

/-- lexicographic insertion sort of (hash, abundance) pairs (`pairs.sort_unstable()`) -/
def insertPair (p : Nat × Nat) : List (Nat × Nat) → List (Nat × Nat)
  | [] => [p]
  | q :: qs => if p.1 < q.1 ∨ (p.1 = q.1 ∧ p.2 ≤ q.2) then p :: q :: qs else q :: insertPair p qs

def sortPairs (ps : List (Nat × Nat)) : List (Nat × Nat) := ps.foldr insertPair []

/-- FFI `kmerminhash_set_abundances` -/
def ffiSetAbundances (s : MH) (ps : List (Nat × Nat)) (clear : Bool) : MH :=
  let ps := sortPairs ps
  let s := if clear then s.clear else s
  s.addManyAb ps

/-- `inflate(&mut self, abunds_from)` (Rust, `merge_join_by`) -/
def inflateJoin : List Nat → List (Nat × Nat) → List (Nat × Nat)
  | [], _ => []
  | x :: xs, ys => go x (inflateJoin xs) ys
where
  go (x : Nat) (rec : List (Nat × Nat) → List (Nat × Nat)) : List (Nat × Nat) → List (Nat × Nat)
    | [] => []
    | y :: ys =>
      if x < y.1 then rec (y :: ys)
      else if y.1 < x then go x rec ys
      else (x, y.2) :: rec ys

def inflate (s o : MH) : Except Err MH := do
  s.checkCompatible o
  match o.abunds with
  | none => .error .needsAbund
  | some ab =>
    let j := inflateJoin s.mins (o.mins.zip ab)
    pure { s with mins := j.map Prod.fst, abunds := some (j.map Prod.snd), md5 := none }

end MH

/-! ### Python layer (`src/sourmash/minhash.py`) -/

namespace Py

open MH

/-- `MinHash(n, ksize, track_abundance=, seed=, max_hash=, scaled=)` for DNA
    (`ksize` is not multiplied); returns the fresh native object -/
def mkMinHash (n ksize hf seed : Nat) (track : Bool) (maxHash scaled : Nat) : Except Err MH :=
  if maxHash ≠ 0 ∧ scaled ≠ 0 then .error .pyValue
  else
    let scaled := if maxHash ≠ 0 then scP maxHash else scaled
    if scaled ≠ 0 ∧ n ≠ 0 then .error .pyValue
    else if n = 0 ∧ scaled = 0 then .error .pyValue
    else .ok (MH.new scaled ksize hf seed track n)

/-- `.scaled` property -/
def scaledProp (s : MH) : Nat := if s.maxHash ≠ 0 then scP s.maxHash else 0

/-- `__copy__` / `to_mutable` of a mutable sketch: new object from `_max_hash`, then merge -/
def copy (s : MH) : Except Err MH := do
  let a ← mkMinHash s.num s.ksize s.hf s.seed s.trackAbundance s.maxHash 0
  a.merge s

def copyAndClear (s : MH) : Except Err MH :=
  mkMinHash s.num s.ksize s.hf s.seed s.trackAbundance s.maxHash 0

/-- `set_abundances(values, clear)` -/
def setAbundances (s : MH) (ps : List (Nat × Nat)) (clear : Bool) : Except Err MH :=
  if s.trackAbundance then .ok (s.ffiSetAbundances ps clear) else .error .pyRuntime

def addHashWithAbundance (s : MH) (h a : Nat) : Except Err MH :=
  if s.trackAbundance then .ok (s.addHashAb h a) else .error .pyRuntime

/-- `__setstate__` from the `__getstate__` tuple (pickle, `FrozenMinHash.to_mutable`) -/
def setState (num ksize hf seed : Nat) (track : Bool) (maxHash : Nat) (hashes : List (Nat × Nat)) : MH :=
  let n := MH.new (scP maxHash) ksize hf seed track num
  if track then n.ffiSetAbundances hashes true else n.addMany (hashes.map Prod.fst)

def pickleRoundTrip (s : MH) : MH :=
  setState s.num s.ksize s.hf s.seed s.trackAbundance s.maxHash s.pairs

/-- argument checks of `downsample(num=, scaled=)`: the `(num, max_hash)` the new object is built with -/
def downsampleParams (s : MH) (num scaled : Option Nat) : Except Err (Nat × Nat) :=
  match num, scaled with
  | none, none => .error .pyValue
  | some _, some _ => .error .pyValue
  | some n, none =>
    if scaledProp s ≠ 0 then .error .pyValue
    else if s.num < n then .error .pyValue
    else .ok (n, 0)
  | none, some sc =>
    if s.num ≠ 0 then .error .pyValue
    else if scaledProp s > sc then .error .pyValue
    else .ok (0, mhP sc)

/-- second half of `downsample`: create the new object and copy the hashes over -/
def downsampleWith (s : MH) (n maxHash : Nat) : Except Err MH :=
  match mkMinHash n s.ksize s.hf s.seed s.trackAbundance maxHash 0 with
  | .error e => .error e
  | .ok a => if s.trackAbundance then setAbundances a s.pairs true else .ok (a.addFrom s)

/-- `downsample(num=, scaled=)` -/
def downsample (s : MH) (num scaled : Option Nat) : Except Err MH :=
  match downsampleParams s num scaled with
  | .error e => .error e
  | .ok (n, maxHash) => downsampleWith s n maxHash

/-- `flatten()`; `none` = returned `self` -/
def flatten (s : MH) : Except Err (Option MH) :=
  if s.trackAbundance then do
    let a ← mkMinHash s.num s.ksize s.hf s.seed false s.maxHash 0
    pure (some (a.addFrom s))
  else pure none

/-- `intersection` / `__and__` -/
def intersection (s o : MH) : Except Err (MH × MH) :=
  if s.trackAbundance ∨ o.trackAbundance then .error .pyType
  else s.ffiIntersection o

/-- `__add__`: checks num, `to_mutable`, `+=` -/
def add (s o : MH) : Except Err MH :=
  if s.num ≠ 0 ∧ o.num ≠ 0 ∧ s.num ≠ o.num then .error .pyType
  else do
    let n ← copy s
    n.merge o

/-- `inflate(from_mh)` (Python version: through `copy_and_clear` + `set_abundances`) -/
def inflate (s o : MH) : Except Err MH :=
  if !s.trackAbundance ∧ o.trackAbundance then do
    let abunds := s.mins.map (fun h => (h, (o.pairs.lookup h).getD 0))
    let am ← copyAndClear o
    -- `abund_mh = abund_mh.downsample(scaled=self.scaled)` (the result used to be discarded: C04.1)
    let am' ← downsample am none (some (scaledProp s))
    setAbundances am' abunds true
  else .error .pyValue

end Py

end Sm
