/-
Executable model of `src/sourmash/compare.py` (C16): WHERE each pairwise value is
placed in the comparison matrix, by every code path.

The pairwise values themselves are inputs: `cell a b` is the outcome of calling the
pairwise method the code calls with receiver `siglist[a]` and argument `siglist[b]`
(`Except` = the call raised; the string is the Python exception class).  What is
modelled branch for branch:

* `compare_serial`                   -> `compareSerial`            (`itertools.combinations`, `M[i][j] = M[j][i] = sig[i].f(sig[j])`)
* `compare_serial_containment`       -> `compareSerialContainment` (double loop, `M[i][j] = sig[j].f(sig[i])`, diagonal written as 1)
* `compare_serial_max_containment`,
  `compare_serial_avg_containment`   -> `compareSerialMax`, `compareSerialAvg`, `compareSerialAvgAni` (`combinations`, `M[i][j] = M[j][i] = sig[j].f(sig[i])`)
* `return_ani=True`: `if ani is None: ani = 0.0`                    -> `aniOrZero`
* `similarity_args_unpack` / `get_similarities_at_index`           -> `simAtIndex` (row i = values for j = i+1 .. n-1)
* `compare_parallel`                 -> `compareParallel` (`np.eye`, chunk size `divmod(n, n_jobs)` rounded up,
                                        `Pool.imap(.., chunksize)` = chunks evaluated in submission order,
                                        placement `M[i, i+1+c] = M[c+i+1, i] = row_i[c]`)
* `compare_all_pairs`                -> `compareAllPairs` (`n_jobs is None or n_jobs == 1` -> serial)

Which loop index is the receiver of the pairwise call in each serial builder, and the two `+ 1`
offsets of the parallel path, are NOT hard-wired here: they are the constants `Sm.Gen.cmp*` that
harness/translators/compare.py re-reads from compare.py on every run (`orient`, `simAtIndex`,
`placeRow`).  The theorems of Props/C16.lean are therefore about the regenerated model.

Imports only other Model files.  A matrix is a list of rows; `m[i][j] = v` is `Mat.set2`.
-/
import SmVerif.Model.Generated

namespace Sm.Compare

abbrev Mat (α : Type) := List (List α)

namespace Mat

variable {α : Type}

/-- `np.ones((n, n))` -/
def ones (n : Nat) (one : α) : Mat α := List.replicate n (List.replicate n one)

/-- `np.eye(n)` -/
def eye (n : Nat) (one zero : α) : Mat α :=
  (List.range n).map fun i => (List.range n).map fun j => if i = j then one else zero

/-- `m[i][j] = v` (all indices the code produces are in bounds, see `Sm.C16.parallel_writes_in_bounds`) -/
def set2 (m : Mat α) (i j : Nat) (v : α) : Mat α := m.modify i (fun r => r.set j v)

/-- `m[i][j]` -/
def get? (m : Mat α) (i j : Nat) : Option α := (m[i]?).bind (fun r => r[j]?)

/-- the n×n matrix with entries `g i j` (specification side) -/
def ofFn (n : Nat) (g : Nat → Nat → α) : Mat α :=
  (List.range n).map fun i => (List.range n).map fun j => g i j

end Mat

variable {α : Type}

/-- `itertools.combinations(range(n), 2)`: pairs `(i, j)`, `i < j`, lexicographic -/
def pairsUpper (n : Nat) : List (Nat × Nat) :=
  (List.range n).flatMap fun i => (List.range' (i + 1) (n - (i + 1))).map fun j => (i, j)

/-- `for i in range(n): for j in range(n)` -/
def pairsAll (n : Nat) : List (Nat × Nat) :=
  (List.range n).flatMap fun i => (List.range n).map fun j => (i, j)

/-- `ani = result.ani; if ani is None: ani = 0.0` -/
def aniOrZero (zero : α) (r : Except String (Option α)) : Except String α :=
  match r with
  | .ok (some v) => .ok v
  | .ok none => .ok zero
  | .error e => .error e

/-- `cell a b` = receiver `siglist[a]`, argument `siglist[b]`; a loop body that calls
    `siglist[i].f(siglist[j])` uses `cell i j`, one that calls `siglist[j].f(siglist[i])` uses `cell j i` -/
def orient {β : Type} (recvIsRow : Bool) (cell : Nat → Nat → β) : Nat → Nat → β :=
  if recvIsRow then cell else fun i j => cell j i

/-- body of the `for i, j in iterator:` loops: `M[i][j] = M[j][i] = <value>` (assigned left to right) -/
def stepSym (cell : Nat → Nat → Except String α) (m : Mat α) (p : Nat × Nat) : Except String (Mat α) := do
  let v ← cell p.1 p.2
  pure ((m.set2 p.1 p.2 v).set2 p.2 p.1 v)

/-- `compare_serial`: `cell i j` = `siglist[i].similarity(siglist[j], …)` (or `jaccard_ani(..).ani` through `aniOrZero`) -/
def compareSerial (n : Nat) (cell : Nat → Nat → Except String α) (one : α) : Except String (Mat α) :=
  (pairsUpper n).foldlM (stepSym (orient Gen.cmpSerialRecvIsRow cell)) (Mat.ones n one)

/-- `compare_serial_max_containment`: the receiver is `siglist[j]`, the argument `siglist[i]` -/
def compareSerialMax (n : Nat) (cell : Nat → Nat → Except String α) (one : α) : Except String (Mat α) :=
  (pairsUpper n).foldlM (stepSym (orient Gen.cmpMaxRecvIsRow cell)) (Mat.ones n one)

/-- `compare_serial_avg_containment(return_ani=False)`: the receiver of `avg_containment` is `siglist[j]`,
    the argument `siglist[i]` -/
def compareSerialAvg (n : Nat) (cell : Nat → Nat → Except String α) (one : α) : Except String (Mat α) :=
  (pairsUpper n).foldlM (stepSym (orient Gen.cmpAvgRecvIsRow cell)) (Mat.ones n one)

/-- `ani = None; if r1.ani is not None and r2.ani is not None: ani = (r1.ani + r2.ani) / 2;
    if ani is None: ani = 0.0`  (`avg x y` = `(x + y) / 2`) -/
def avgOrZero (avg : α → α → α) (zero : α) (a1 a2 : Option α) : α :=
  match a1, a2 with
  | some x, some y => avg x y
  | _, _ => zero

/-- what `compare_serial_avg_containment(return_ani=True)` stores for the pair `(i, j)` (since /repo b596f84):
    `r1 = siglist[j].containment_ani(siglist[i], downsample=downsample)`, then
    `r2 = siglist[i].containment_ani(siglist[j], downsample=downsample)`, averaged, None -> 0.0.
    `cani a b` = outcome of `siglist[a].containment_ani(siglist[b], downsample=…).ani`. -/
def avgAniCell (avg : α → α → α) (zero : α) (cani : Nat → Nat → Except String (Option α)) (i j : Nat) :
    Except String α := do
  let r1 ← orient Gen.cmpAvgAniFirstRecvIsRow cani i j
  let r2 ← orient Gen.cmpAvgAniFirstRecvIsRow cani j i
  pure (avgOrZero avg zero r1 r2)

/-- `compare_serial_avg_containment(siglist, downsample=…, return_ani=True)` -/
def compareSerialAvgAni (n : Nat) (cani : Nat → Nat → Except String (Option α)) (avg : α → α → α) (zero one : α) :
    Except String (Mat α) :=
  (pairsUpper n).foldlM (stepSym (avgAniCell avg zero cani)) (Mat.ones n one)

/-- body of the double loop of `compare_serial_containment` -/
def stepContainment (cell : Nat → Nat → Except String α) (one : α) (m : Mat α) (p : Nat × Nat) :
    Except String (Mat α) :=
  if p.1 = p.2 then pure (m.set2 p.1 p.2 one)
  else do
    let v ← orient Gen.cmpContainmentRecvIsRow cell p.1 p.2
    pure (m.set2 p.1 p.2 v)

/-- `compare_serial_containment`: `M[i][j] = siglist[j].contained_by(siglist[i])` -/
def compareSerialContainment (n : Nat) (cell : Nat → Nat → Except String α) (one : α) : Except String (Mat α) :=
  (pairsAll n).foldlM (stepContainment cell one) (Mat.ones n one)

/-- `get_similarities_at_index(index, …)`: `list(map(func, product([siglist[index]], siglist[index+1:])))` -/
def simAtIndex (cell : Nat → Nat → Except String α) (n index : Nat) : Except String (List α) :=
  (List.range' (index + Gen.cmpParRowStart) (n - (index + Gen.cmpParRowStart))).mapM (cell index)

/-- `chunksize, extra = divmod(n, n_jobs); if extra: chunksize += 1` -/
def chunkSize (n jobs : Nat) : Nat :=
  if n % jobs ≠ 0 then n / jobs + 1 else n / jobs

/-- `Pool._get_tasks`: consecutive batches of `cs` items; `fuel` bounds the number of batches -/
def chunksF {β : Type} : Nat → Nat → List β → List (List β)
  | 0, _, _ => []
  | fuel + 1, cs, l =>
    match l with
    | [] => []
    | _ :: _ => l.take cs :: chunksF fuel cs (l.drop cs)

def chunks {β : Type} (cs : Nat) (l : List β) : List (List β) :=
  if cs = 0 then [] else chunksF l.length cs l

/-- `pool.imap(func, iterable, chunksize)`: every batch is evaluated by `list(map(func, batch))` in
    some worker; the batches come back IN SUBMISSION ORDER (trusted property of
    `multiprocessing.Pool.imap`), an exception is re-raised when its batch is reached. -/
def imap {β γ : Type} (f : β → Except String γ) (l : List β) (cs : Nat) : Except String (List γ) := do
  let rs ← (chunks cs l).mapM (fun c => c.mapM f)
  pure rs.flatten

/-- inner placement loop: `for idx_condensed, item in enumerate(l):
      M[index, col_idx + idx_condensed] = M[idx_condensed + col_idx, index] = item`, `col_idx = index + 1` -/
def placeRow (m : Mat α) (index : Nat) (row : List α) : Mat α :=
  let colIdx := index + Gen.cmpParColOffset
  row.zipIdx.foldl (fun m ic => (m.set2 index (colIdx + ic.2) ic.1).set2 (ic.2 + colIdx) index ic.1) m

/-- outer placement loop: `for index, l in enumerate(result)` -/
def placeRows (m : Mat α) (rows : List (List α)) : Mat α :=
  rows.zipIdx.foldl (fun m ri => placeRow m ri.2 ri.1) m

/-- `compare_parallel(siglist, …, n_jobs)`.
    `multiprocessing.Pool(processes=0)` raises ValueError; `imap(.., chunksize=0)` (n = 0) raises ValueError. -/
def compareParallel (n jobs : Nat) (cell : Nat → Nat → Except String α) (one zero : α) : Except String (Mat α) :=
  if jobs = 0 then .error "ValueError" else
  let cs := chunkSize n jobs
  if cs = 0 then .error "ValueError" else do
    let rows ← imap (simAtIndex cell n) (List.range n) cs
    pure (placeRows (Mat.eye n one zero) rows)

/-- `compare_all_pairs(siglist, …, n_jobs)` -/
def compareAllPairs (n : Nat) (jobs : Option Nat) (cell : Nat → Nat → Except String α) (one zero : α) :
    Except String (Mat α) :=
  match jobs with
  | none => compareSerial n cell one
  | some 1 => compareSerial n cell one
  | some j => compareParallel n j cell one zero

end Sm.Compare
