/-
Executable model of the comparison code (property C05):

Rust, src/core/src/sketch/minhash.rs
  * free function `intersection_size` (two peekable cursors, counters)      -> `Cmp.isizeL`
  * `KmerMinHash::intersection_size`                                        -> `Cmp.intersectionSize`
  * `KmerMinHash::count_common` (with its swap-by-size)                     -> `Cmp.countCommon`
  * `KmerMinHash::jaccard` (`common as f64 / max(1, size) as f64`)          -> `Cmp.jaccardParts`, `Cmp.jaccard`
  * `KmerMinHash::angular_similarity` (merge loop, sums of squares)         -> `Cmp.dotL`, `Cmp.angularParts`
  * `KmerMinHash::similarity` (downsample branch, dispatch)                 -> `Cmp.similarity`
  * `check_compatible` is `MH.checkCompatible` (Model/MinHash.lean); `is_compatible` -> `Cmp.isCompatible`
Python, src/sourmash/minhash.py
  * `intersection_and_union_size`, `jaccard`, `similarity`, `angular_similarity`,
    `contained_by`, `max_containment`, `avg_containment`                    -> `PyCmp.*`
    (`contained_by` / `max_containment` as of /repo 0bf3075: both operands downsampled to the
    common scaled when the flag is set and the scaled values differ, `count_common` before the
    empty-sketch early return, denominator and bias factor from the downsampled self)
Python, src/sourmash/sketchcomparison.py
  * `BaseMinHashComparison.check_compatibility_and_downsample`,
    `FracMinHashComparison` / `NumMinHashComparison` `__post_init__`        -> `PyCmp.fracNew`, `PyCmp.numNew`
Python, src/sourmash/signature.py : `similarity`, `jaccard`, `contained_by`, ... are
    pass-throughs to the MinHash methods (`PyCmp.sigJaccard` is the one that is not a
    plain pass-through: it calls `similarity(ignore_abundance=True)`, not `jaccard`).

What is NOT computed here (tier 2): the two libm calls — `acos` in the angular similarity and
`**` in the bias factor `1 - (1 - 1/scaled)^(n*scaled)` of the containment functions.  They are
PARAMETERS of `Cmp.angularValue` / `PyCmp.Cont.value`; everything around them (integer
conversions, `sqrt`, `*`, `/`, `-`, `min(·, 1.)`, the clamps) is exact binary64 arithmetic.  The
driver instantiates the parameters with the run-time `Float` functions of the same libm.  This file produces the exact integers those formulas are
applied to, every decision around them (zero denominators, guards, clamping),
and the exact double for every ratio that involves only correctly rounded
primitives (`F64.div`, `F64.add`).

`u64` arithmetic: the release build wraps silently; `a*a` sums and the dot
product are therefore reduced mod 2^64 (wrapping step by step is the same as
wrapping the exact result, `Nat.add_mod`/`Nat.mul_mod`).
-/
import SmVerif.Model.MinHash
import SmVerif.Model.Float64More

namespace Sm

namespace Cmp

open MH

/-- the `(None, Some(_))` arm repeated: every remaining element counts towards the union -/
def drain : List Nat → Nat → Nat
  | [], u => u
  | _ :: ys, u => drain ys (u + 1)

/-- free function `intersection_size(me_iter, other_iter)`: `(common, union_size)`,
    started with both counters at `c`, `u` -/
def isizeL : List Nat → List Nat → Nat → Nat → Nat × Nat
  | [], ys, c, u => (c, drain ys u)
  | x :: xs, ys, c, u => go x (isizeL xs) ys c u
where
  go (x : Nat) (rec : List Nat → Nat → Nat → Nat × Nat) : List Nat → Nat → Nat → Nat × Nat
    | [], c, u => rec [] c (u + 1)                       -- (Some(_), None): me.next(); union_size += 1
    | y :: ys, c, u =>
      if x < y then rec (y :: ys) c (u + 1)              -- Less: me.next()
      else if y < x then go x rec ys c (u + 1)           -- Greater: other.next()
      else rec ys (c + 1) (u + 1)                        -- Equal: both, common += 1

/-- `intersection_size(&self, other)` -/
def intersectionSize (s o : MH) : Except Err (Nat × Nat) := do
  s.checkCompatible o
  if s.num ≠ 0 then
    let c0 := MH.new s.scaled s.ksize s.hf s.seed s.abunds.isSome s.num
    let c1 ← c0.merge s
    let c2 ← c1.merge o
    let i1 := interL s.mins o.mins
    pure ((interL i1 c2.mins).length, c2.mins.length)
  else
    pure (isizeL s.mins o.mins 0 0)

/-- the `else` branch of `count_common`: compatibility check, the shorter vector goes left -/
def countCommonNoDs (s o : MH) : Except Err Nat := do
  s.checkCompatible o
  let it := if s.mins.length < o.mins.length then interL s.mins o.mins else interL o.mins s.mins
  pure it.length

/-- `count_common(&self, other, downsample)` -/
def countCommon (s o : MH) (downsample : Bool) : Except Err Nat :=
  if downsample ∧ s.scaled ≠ o.scaled then
    let (first, second) := if s.scaled > o.scaled then (s, o) else (o, s)
    do
      let d ← (second.clone.2).downsampleScaled first.scaled
      countCommonNoDs first d
  else countCommonNoDs s o

/-- `jaccard(&self, other)`: numerator and denominator of the returned ratio -/
def jaccardParts (s o : MH) : Except Err (Nat × Nat) := do
  s.checkCompatible o
  match intersectionSize s o with
  | .ok (c, u) => pure (c, max Gen.cmpJaccardFloor u)     -- floor re-read from the source (= 1)
  | .error _ => pure (0, 1)                              -- `Ok(0.0)`

/-- `common as f64 / u64::max(1, size) as f64` -/
def ratioF (p : Nat × Nat) : F64.F := F64.div (F64.ofNat p.1) (F64.ofNat p.2)

def jaccard (s o : MH) : Except Err F64.F := do
  let p ← jaccardParts s o
  pure (ratioF p)

/-- the merge loop of `angular_similarity` on (hash, abundance) pairs: for each hash of
    `self` advance the other cursor while it is smaller; on equality add the product and
    leave the cursor where it is -/
def dotL : List (Nat × Nat) → List (Nat × Nat) → Nat → Nat
  | [], _, p => p
  | x :: xs, ys, p => go x (dotL xs) ys p
where
  go (x : Nat × Nat) (rec : List (Nat × Nat) → Nat → Nat) : List (Nat × Nat) → Nat → Nat
    | [], p => rec [] p                                  -- next_hash = None
    | y :: ys, p =>
      if y.1 < x.1 then go x rec ys p                    -- Less: next_hash = other_iter.next()
      else if y.1 = x.1 then rec (y :: ys) (p + x.2 * y.2)   -- Equal: prod += ..; break
      else rec (y :: ys) p                               -- Greater: break

def sumSq (l : List Nat) : Nat := (l.map (fun a => a * a)).sum

def W64 : Nat := 2 ^ 64

/-- `angular_similarity(&self, other)` up to (not including) the `sqrt`/`acos` tail:
    `(prod, a_sq, b_sq)` as the `u64` values the release build holds -/
def angularParts (s o : MH) : Except Err (Nat × Nat × Nat) := do
  s.checkCompatible o
  match s.abunds, o.abunds with
  | some ab, some ob =>
    pure (dotL (s.mins.zip ab) (o.mins.zip ob) 0 % W64, sumSq ab % W64, sumSq ob % W64)
  | _, _ => .error .needsAbund

/-- the argument handed to `acos`: `f64::min(prod as f64 / (norm_a * norm_b), 1.)` with
    `norm = (x_sq as f64).sqrt()` — integer conversion, `sqrt`, `*`, `/` are correctly rounded
    IEEE operations and are computed exactly here; `min(q, 1.)` is the clamp that keeps `acos` in its domain -/
def cosArg (p a b : Nat) : F64.F :=
  let na := F64.sqrt (F64.ofNat a)
  let nb := F64.sqrt (F64.ofNat b)
  let q := F64.div (F64.ofNat p) (F64.fmul na nb)
  if F64.ge q F64.one then F64.one else q

/-- the only libm-dependent step of `angular_similarity` is `acos`; with it as a parameter the rest
    `1. - 2. * prod.acos() / PI` is exact binary64 arithmetic (the result is signed: nothing in the
    code prevents `2·acos/π` from exceeding 1 except a property of `acos`) -/
def angTail (acos : F64.F → F64.F) (c : F64.F) : F64.SF :=
  F64.SF.subF F64.one (F64.div (F64.fmul F64.two (acos c)) F64.PI)

/-- `angular_similarity` from the three `u64` values, `acos` a parameter -/
def angularValue (acos : F64.F → F64.F) (p a b : Nat) : F64.SF :=
  if a = 0 ∨ b = 0 then F64.SF.zero               -- `norm_a == 0. || norm_b == 0.`
  else angTail acos (cosArg p a b)

/-- what `similarity` returns, before the float tail -/
inductive SimVal where
  | jac (common size : Nat)          -- `common / size`, `size` already `max(1, ·)`
  | ang (prod aSq bSq : Nat)         -- `0` if a norm is 0, else `1 - 2 acos(min(prod/(√aSq √bSq), 1))/π`
deriving DecidableEq, Repr

/-- the dispatch at the end of `similarity` (its non-downsample branches) -/
def similarityNoDs (s o : MH) (ignoreAbundance : Bool) : Except Err SimVal :=
  if ignoreAbundance ∨ s.abunds.isNone ∨ o.abunds.isNone then do
    let (c, u) ← jaccardParts s o
    pure (.jac c u)
  else do
    let (p, a, b) ← angularParts s o
    pure (.ang p a b)

/-- `similarity(&self, other, ignore_abundance, downsample)` -/
def similarity (s o : MH) (ignoreAbundance downsample : Bool) : Except Err SimVal :=
  if downsample ∧ s.scaled ≠ o.scaled then
    let (first, second) := if s.scaled > o.scaled then (s, o) else (o, s)
    do
      let d ← (second.clone.2).downsampleScaled first.scaled
      similarityNoDs first d ignoreAbundance
  else similarityNoDs s o ignoreAbundance

/-- FFI `kmerminhash_is_compatible` -/
def isCompatible (s o : MH) : Bool :=
  match s.checkCompatible o with
  | .ok _ => true
  | .error _ => false

/-- FFI `kmerminhash_intersection_union_size`: an error of `intersection_size` becomes `(0, 0)` -/
def ffiIntersectionUnionSize (s o : MH) : Nat × Nat :=
  match intersectionSize s o with
  | .ok p => p
  | .error _ => (0, 0)

end Cmp

/-! ### Python layer -/

namespace PyCmp

open MH Py Cmp

/-- `intersection_and_union_size` -/
def intersectionAndUnionSize (s o : MH) : Except Err (Nat × Nat) :=
  if ¬ isCompatible s o then .error .pyType
  else .ok (ffiIntersectionUnionSize s o)

/-- `count_common` -/
def countCommon (s o : MH) (downsample : Bool) : Except Err Nat := Cmp.countCommon s o downsample

/-- `similarity` -/
def similarity (s o : MH) (ignoreAbundance downsample : Bool) : Except Err SimVal :=
  Cmp.similarity s o ignoreAbundance downsample

/-- `jaccard`: refuses different `num`, then `similarity(ignore_abundance=True)` -/
def jaccard (s o : MH) (downsample : Bool) : Except Err SimVal :=
  if s.num ≠ o.num then .error .pyType
  else Cmp.similarity s o true downsample

/-- `angular_similarity` -/
def angularSimilarity (s o : MH) : Except Err SimVal :=
  if ¬ (s.trackAbundance ∧ o.trackAbundance) then .error .pyType
  else do
    let (p, a, b) ← angularParts s o
    pure (.ang p a b)

/-- `SourmashSignature.jaccard`: `minhash.similarity(other, ignore_abundance=True, downsample=False)`
    (no `num` check) -/
def sigJaccard (s o : MH) : Except Err SimVal := Cmp.similarity s o true false

/-- result of the containment functions before the real-valued bias factor is applied -/
inductive Cont where
  | zero                              -- early `return 0.0`
  | ratio (cc denom scaled : Nat)     -- clamp(cc / (denom * bias(scaled, denom)))
deriving DecidableEq, Repr

/-- the value when `bias_factor` is exactly 1.0 (it is, in binary64, as soon as
    `denom >= 40`): `cc / (denom * 1.0)`, then the clamp -/
def Cont.unbiased : Cont → F64.F
  | .zero => F64.zero
  | .ratio cc denom _ => F64.clamp01 (F64.div (F64.ofNat cc) (F64.ofNat denom))

/-- the value of `contained_by` / `max_containment` with the bias factor
    `1.0 - (1.0 - 1.0 / scaled) ** float(denom * scaled)` as a parameter `bias scaled denom`
    (its `**` is libm): `common / (denom * bias_factor)` = `float(common) / (float(denom) * bias)`,
    then the clamp `>= 1 -> 1.0`, `<= 0 -> 0.0` -/
def Cont.value (bias : Nat → Nat → F64.F) : Cont → F64.F
  | .zero => F64.zero
  | .ratio cc denom scaled =>
    F64.clamp01 (F64.div (F64.ofNat cc) (F64.fmul (F64.ofNat denom) (bias scaled denom)))

def scaledGuard (s o : MH) : Bool := decide (scaledProp s ≠ 0 ∧ scaledProp o ≠ 0)

/-- the head shared by `contained_by` and `max_containment`: with the downsample flag and
    different (Python) scaled values BOTH sketches are downsampled to the larger one
    (`self.downsample(scaled=…)`, which may raise); otherwise the operands themselves -/
def prepare (s o : MH) (downsample : Bool) : Except Err (MH × MH) :=
  if downsample ∧ scaledProp s ≠ scaledProp o then
    let sc := max (scaledProp s) (scaledProp o)
    match Py.downsample s none (some sc) with
    | .error e => .error e
    | .ok s' =>
      match Py.downsample o none (some sc) with
      | .error e => .error e
      | .ok o' => .ok (s', o')
  else .ok (s, o)

/-- `contained_by` after the head: `common = self_mh.count_common(other_mh)` comes FIRST
    (it refuses incompatible sketches), then the empty-sketch early return, then the ratio with
    denominator and bias factor taken from `self_mh` -/
def containedByCore (x y : MH) : Except Err Cont :=
  match Cmp.countCommon x y false with
  | .error e => .error e
  | .ok cc =>
    if x.mins.length = 0 then .ok .zero
    else .ok (.ratio cc x.mins.length (scaledProp x))

/-- `contained_by(other, downsample)` -/
def containedBy (s o : MH) (downsample : Bool) : Except Err Cont :=
  if ¬ scaledGuard s o then .error .pyType
  else
    match prepare s o downsample with
    | .error e => .error e
    | .ok (x, y) => containedByCore x y

/-- `max_containment` after the head -/
def maxContainmentCore (x y : MH) : Except Err Cont :=
  match Cmp.countCommon x y false with
  | .error e => .error e
  | .ok cc =>
    let md := min x.mins.length y.mins.length
    if md = 0 then .ok .zero
    else .ok (.ratio cc md (scaledProp x))

/-- `max_containment(other, downsample)` -/
def maxContainment (s o : MH) (downsample : Bool) : Except Err Cont :=
  if ¬ scaledGuard s o then .error .pyType
  else
    match prepare s o downsample with
    | .error e => .error e
    | .ok (x, y) => maxContainmentCore x y

/-- `avg_containment(other, downsample)`: the two containments whose mean is returned -/
def avgContainment (s o : MH) (downsample : Bool) : Except Err (Cont × Cont) :=
  if ¬ scaledGuard s o then .error .pyType
  else do
    let c1 ← containedBy s o downsample
    let c2 ← containedBy o s downsample
    pure (c1, c2)

/-- `(c1 + c2) / 2` on exact doubles -/
def avgF (c1 c2 : F64.F) : F64.F := F64.half (F64.add c1 c2)

/-! #### comparison dataclasses (sketchcomparison.py) -/

def flat (s : MH) : Except Err MH := do
  match ← Py.flatten s with
  | some f => pure f
  | none => pure s

/-- `downsample_and_handle_ignore_abundance` -/
def downsampleAndHandleIgnoreAbundance (a b : MH) (ignoreAbundance : Bool)
    (cmpNum cmpScaled : Option Nat) : Except Err (MH × MH) := do
  let a1 ← if ignoreAbundance then flat a else pure a
  let b1 ← if ignoreAbundance then flat b else pure b
  match cmpScaled, cmpNum with
  | some cs, _ => do
    let a2 ← Py.downsample a1 none (some cs)
    let b2 ← Py.downsample b1 none (some cs)
    pure (a2, b2)
  | none, some cn => do
    let a2 ← Py.downsample a1 (some cn) none
    let b2 ← Py.downsample b1 (some cn) none
    pure (a2, b2)
  | none, none => .error .pyValue

/-- `check_compatibility_and_downsample` -/
def checkCompatibilityAndDownsample (a b : MH) (ignoreAbundance : Bool)
    (cmpNum cmpScaled : Option Nat) : Except Err (MH × MH) :=
  if ¬ ((a.num ≠ 0 ∧ b.num ≠ 0) ∨ (scaledProp a ≠ 0 ∧ scaledProp b ≠ 0)) then .error .pyType
  else do
    let (x, y) ← downsampleAndHandleIgnoreAbundance a b ignoreAbundance cmpNum cmpScaled
    if ¬ isCompatible x y then .error .pyType
    else pure (x, y)

/-- `FracMinHashComparison(mh1, mh2, cmp_scaled=, ignore_abundance=)`: the comparison
    scaled and the two sketches every derived quantity is computed from -/
def fracNew (a b : MH) (cmpScaled : Option Nat) (ignoreAbundance : Bool) : Except Err (Nat × MH × MH) :=
  let cs := match cmpScaled with
    | some cs => cs
    | none => max (scaledProp a) (scaledProp b)
  do
    let (x, y) ← checkCompatibilityAndDownsample a b ignoreAbundance none (some cs)
    pure (cs, x, y)

/-- `NumMinHashComparison(mh1, mh2, cmp_num=, ignore_abundance=)` -/
def numNew (a b : MH) (cmpNum : Option Nat) (ignoreAbundance : Bool) : Except Err (Nat × MH × MH) :=
  let cn := match cmpNum with
    | some cn => cn
    | none => min a.num b.num
  do
    let (x, y) ← checkCompatibilityAndDownsample a b ignoreAbundance (some cn) none
    pure (cn, x, y)

/-- `total_unique_intersect_hashes`: `len(flatten(mh1_cmp) & flatten(mh2_cmp)) * cmp_scaled` -/
def totalUniqueIntersectHashes (cs : Nat) (x y : MH) : Except Err Nat := do
  let fx ← flat x
  let fy ← flat y
  let (_, i) ← Py.intersection fx fy
  pure (i.mins.length * cs)

end PyCmp

end Sm
