/-
Driver for the `select` correspondence stream (C12).

  sig <i> <ksize> <mol> <num> <scaled> <abund> <md5> <name> <h,h,...>
  coll <c> <kind> <i,i,...|-> [<file,file,...> | <ksize> <mol> <scaled>]
  pl <p> <coltype> <inc|exc> <value> ...            raw CSV values (hex; `a:b` for the tuple coltypes)
  plfrom <p> <manifest|search|prefetch|gather> <inc|exc> <c> <q>
  sel <r> <c> [k=..] [m=..] [s=..] [n=..] [a=..] [c=..] [p=..]
  sigs <c>
  search <c> <q>

Strings travel hex-encoded (`-` = empty).  Handles of SBT / LCA collections alias (select is in place).
-/
import SmVerif.Model.Select
import SmVerif.Model.Proto

namespace Sm.DriverSelect

open Sm.Proto Sm.Select

structure St where
  sigs : List (Nat × Sig) := []
  pls : List (Nat × Picklist) := []
  handles : List (Nat × Nat) := []     -- handle ↦ object
  objs : Array Coll := #[]
  nextPl : Nat := 1

def init : St := {}

def errName : Err → String
  | .value => "ValueError"
  | .assertion => "AssertionError"
  | .stopIteration => "StopIteration"
  | .type => "TypeError"
  | .incompatible => "incompatible"

def hexDigit (c : Char) : Option Nat :=
  if '0' ≤ c ∧ c ≤ '9' then some (c.toNat - '0'.toNat)
  else if 'a' ≤ c ∧ c ≤ 'f' then some (c.toNat - 'a'.toNat + 10)
  else none

def unhexL : List Char → Option (List Char)
  | [] => some []
  | [_] => none
  | a :: b :: t => do
    let x ← hexDigit a
    let y ← hexDigit b
    let r ← unhexL t
    pure (Char.ofNat (16 * x + y) :: r)

def unhex (s : String) : Option Str := if s = "-" then some [] else unhexL s.toList

def hexChar (n : Nat) : Char := if n < 10 then Char.ofNat (48 + n) else Char.ofNat (87 + n)

def hex (s : Str) : String :=
  if s.isEmpty then "-" else String.ofList (s.flatMap (fun c => [hexChar (c.toNat / 16), hexChar (c.toNat % 16)]))

def mol? : String → Option Mol
  | "DNA" => some .DNA | "protein" => some .protein | "dayhoff" => some .dayhoff | "hp" => some .hp
  | _ => none

def coltype? (s : String) : Option Gen.Coltype := Gen.Coltype.all.find? (·.str == s)

def style? : String → Option Bool
  | "inc" => some false | "exc" => some true | _ => none

def natList? (s : String) : Option (List Nat) :=
  if s = "-" then some [] else (s.splitOn ",").mapM nat?

def isMeta (ct : Gen.Coltype) : Bool := ct.isMeta

def pval? (ct : Gen.Coltype) (s : String) : Option PVal :=
  if isMeta ct then
    match s.splitOn ":" with
    | [a, b] => do pure (.p (← unhex a) (← unhex b))
    | _ => none
  else do pure (.s (← unhex s))

def showPVal : PVal → String
  | .s x => hex x
  | .p a b => hex a ++ ":" ++ hex b

def insertSorted (x : String) : List String → List String
  | [] => [x]
  | y :: t => if x ≤ y then x :: y :: t else y :: insertSorted x t

def sortS (l : List String) : List String := l.foldr insertSorted []

def showSigs (l : List Sig) : String :=
  let items := sortS (l.map (fun s => String.ofList s.md5 ++ ":" ++ hex s.name))
  s!"ok {items.length} " ++ ",".intercalate items

def showPickset (l : List PVal) : String :=
  let items := sortS (l.map showPVal)
  s!"ok {items.length} " ++ ",".intercalate items

def lookup {β : Type} (k : Nat) (l : List (Nat × β)) : Option β := (l.find? (·.1 == k)).map (·.2)

def getColl (st : St) (h : Nat) : Option (Nat × Coll) := do
  let o ← lookup h st.handles
  let c ← st.objs[o]?
  pure (o, c)

def setHandle (st : St) (h o : Nat) : St :=
  { st with handles := (h, o) :: st.handles.filter (·.1 != h) }

def newObj (st : St) (h : Nat) (c : Coll) : St :=
  setHandle { st with objs := st.objs.push c } h st.objs.size

/-- group members by file number, keeping member order inside a file and first-appearance order of files -/
def groupStore (ms : List (Sig × Nat)) : Store :=
  ((ms.map (·.2)).eraseDups).map (fun f => (f, (ms.filter (·.2 == f)).map (·.1)))

def mkColl (kind : String) (ms : List Sig) (extra : List String) : Option Coll :=
  let own := (List.range ms.length).zip ms |>.map (fun (i, s) => (s, i))
  match kind, extra with
  | "linear", [] => some (.linear ms)
  | "lazy", [] => some (.lazy ms {})
  | "multi", [] => some (.multi (own.map (fun (s, i) => (mkRow s i, s))))
  | "multipl", [] => some (.multi (own.map (fun (s, i) => (mkRow s i, s))))
  | "multidir", [fs] => do
    let fs ← natList? fs
    if fs.length != ms.length then none
    else some (.multi ((ms.zip fs).map (fun (s, f) => (mkRow s f, s))))
  | "zip", [] => some (.zipM (own.map (fun (s, i) => mkRow s i)) (own.map (fun (s, i) => (i, [s]))))
  | "zipnm", [] => some (.zipNM ms {})
  | "smi", [fs] => do
    let fs ← natList? fs
    if fs.length != ms.length then none
    else some (.smi ((ms.zip fs).map (fun (s, f) => mkRow s f)) (groupStore (ms.zip fs)))
  | "sqlmf", [fs] => do
    let fs ← natList? fs
    if fs.length != ms.length then none
    else
      -- `INSERT OR IGNORE` into a table that is `UNIQUE(internal_location, md5sum)`
      let rows := (ms.zip fs).map (fun (s, f) => mkRow s f)
      let rows := rows.foldl (fun acc r => if acc.any (fun r' => r'.loc == r.loc && r'.md5 == r.md5) then acc else acc ++ [r]) []
      some (.sqlmf rows {} (groupStore (ms.zip fs)))
  | "sbt", [] => some (.sbt ms [])
  | "sbtz", [] => some (.sbtM (own.map (fun (s, i) => mkRow s i)) (own.map (fun (s, i) => (i, [s]))) ms [])
  | "lca", [k, m, sc] => do
    some (.lca (← nat? k) (← mol? m) (← nat? sc) ms [] none)
  | "sqlite", [] => some (.sqlite (own.map (fun (s, i) => (mkRow s i, s))) {})
  | _, _ => none

/-- one `key=value` of a `sel` line -/
def critArg (st : St) (c : Crit) (w : String) : Option Crit :=
  match w.splitOn "=" with
  | ["k", "None"] => some { c with ksize := .pyNone }
  | ["k", v] => do some { c with ksize := .val (← nat? v) }
  | ["m", "None"] => some { c with moltype := .pyNone }
  | ["m", v] => do some { c with moltype := .val (← mol? v) }
  | ["s", v] => do some { c with scaled := some (← nat? v) }
  | ["n", v] => do some { c with num := some (← nat? v) }
  | ["a", "None"] => some { c with abund := .pyNone }
  | ["a", v] => do some { c with abund := .val (← bool? v) }
  | ["c", v] => do some { c with containment := some (← bool? v) }
  | ["p", v] => do some { c with picklist := some (← lookup (← nat? v) st.pls) }
  | _ => none

def dedupMd5 : List Sig → List Sig
  | [] => []
  | s :: t => s :: (dedupMd5 t).filter (·.md5 != s.md5)

def step (st : St) (line : String) : St × String :=
  let bad := (st, "bad-op")
  match words line with
  | "#" :: _ => (init, "#")
  | ["sig", i, k, m, n, sc, ab, md5, name, hs] =>
    match nats? [i, k, n, sc], mol? m, bool? ab, unhex name, natList? hs with
    | some [i, k, n, sc], some m, some ab, some name, some hs =>
      let s : Sig := { ksize := k, mol := m, num := n, scaled := sc, abund := ab, name := name,
                       md5 := md5.toList, hashes := hs }
      ({ st with sigs := (i, s) :: st.sigs.filter (·.1 != i) }, "ok")
    | _, _, _, _, _ => bad
  | "coll" :: c :: kind :: members :: extra =>
    match nat? c, natList? members with
    | some c, some ms =>
      match ms.mapM (lookup · st.sigs) with
      | some sigs =>
        match mkColl kind sigs extra with
        | some x => (newObj st c x, s!"ok {sigs.length}")
        | none => bad
      | none => bad
    | _, _ => bad
  | "pl" :: p :: ct :: sty :: vals =>
    match nat? p, coltype? ct, style? sty with
    | some p, some ct, some ex =>
      match vals.mapM (pval? ct) with
      | some raws =>
        let pl : Picklist := { id := st.nextPl, coltype := ct, exclude := ex, pickset := loadPickset ct raws }
        ({ st with pls := (p, pl) :: st.pls.filter (·.1 != p), nextPl := st.nextPl + 1 }, showPickset pl.pickset)
      | none => bad
    | _, _, _ => bad
  | ["plfrom", p, ct, sty, c, q] =>
    match nats? [p, c, q], coltype? ct, style? sty with
    | some [p, c, q], some ct, some ex =>
      match getColl st c, lookup q st.sigs with
      | some (o, x), some qs =>
        let st := { st with objs := st.objs.setIfInBounds o x.touch }
        let rows : Except Err (List Sig) :=
          match ct with
          | .manifest => x.signatures
          | .search => (x.find qs).map dedupMd5
          | .prefetch | .gather =>
            if qs.scaled == 0 then .error .incompatible
            else match x.signatures with
              | .ok [] => .error .incompatible
              | _ => (x.find qs).map dedupMd5
          | _ => .error .incompatible
        if !isMeta ct then bad else
        match rows with
        | .ok l =>
          let pl : Picklist := { id := st.nextPl, coltype := ct, exclude := ex,
                                 pickset := loadPickset ct (l.map (fun s => .p s.name s.md5)) }
          ({ st with pls := (p, pl) :: st.pls.filter (·.1 != p), nextPl := st.nextPl + 1 }, showPickset pl.pickset)
        | .error _ => (st, "err incompatible")
      | _, _ => bad
    | _, _, _ => bad
  | "sel" :: r :: c :: args =>
    match nats? [r, c] with
    | some [r, c] =>
      -- a moltype outside the four spellings is refused by `_check_select_parameters`
      let badMol := args.any (fun w => w == "m=dna" || w == "m=Protein")
      let args := args.filter (fun w => !(w == "m=dna" || w == "m=Protein"))
      if badMol then
        match getColl st c, args.foldlM (critArg st) ({} : Crit) with
        | some _, some _ => match checkSelectParameters false with
          | .error e => (st, "err " ++ errName e)
          | .ok _ => bad
        | _, _ => bad
      else
      match getColl st c, args.foldlM (critArg st) ({} : Crit) with
      | some (o, x), some crit =>
        let (x', res) := x.select crit
        let st := { st with objs := st.objs.setIfInBounds o x' }
        match res with
        | .error e => (st, "err " ++ errName e)
        | .ok y =>
          match x with
          | .sbt .. | .sbtM .. | .lca .. => (setHandle st r o, "ok")      -- `return self`
          | _ => (newObj st r y, "ok")
      | _, _ => bad
    | _ => bad
  | ["plarg", h] =>
    match unhex h with
    | some chars =>
      match parsePicklistArg (String.ofList chars) with
      | .ok (file, col, ct, ex) =>
        (st, s!"ok {ct.str} {if ex then "exc" else "inc"} {hex col.toList} {hex file.toList}")
      | .error e => (st, "err " ++ errName e)
    | none => bad
  | ["sigs", c] =>
    match nat? c with
    | some c => match getColl st c with
      | some (o, x) => match x.signatures with
        | .ok l => ({ st with objs := st.objs.setIfInBounds o x.touch }, showSigs l)
        | .error e => (st, "err " ++ errName e)
      | none => bad
    | none => bad
  | ["search", c, q] =>
    match nats? [c, q] with
    | some [c, q] => match getColl st c, lookup q st.sigs with
      | some (o, x), some qs => match x.find qs with
        | .ok l => ({ st with objs := st.objs.setIfInBounds o x.touch }, showSigs l)
        | .error _ => (st, "err incompatible")
      | _, _ => bad
    | _ => bad
  | _ => bad

end Sm.DriverSelect
