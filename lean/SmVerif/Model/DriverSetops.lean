/-
Driver for the `setops` correspondence stream (C04): a table of sketch handles
(each with a "frozen" flag, because `to_mutable` / `downsample` / `flatten`
take a different route on a `FrozenMinHash`), one set operation per line,
through the Python operators (`u.add`, `u.or`, `u.iadd`, `i.and`), the API
methods (`u.merge`, `u.addmany`, `i.meth`, `s.rm`, `s.rmlist`, `f.meth`,
`n.meth`, `d.meth`, `dn.meth`; `u.merge.self`, `u.iadd.self`, `u.addmany.self`, `s.rm.self`: the receiver
object is also the operand) and the cores of the `sourmash sig`
sub-commands (`*.cli`, optionally with a route suffix `+k` / `+f` / `+kf`, see `stripRoute`).
-/
import SmVerif.Model.SigOps
import SmVerif.Model.Proto

namespace Sm.DriverSetops

open Sm.Proto Sm.Sig

abbrev St := Array (Option (MH × Bool))

def init : St := Array.replicate 160 none

def errName : MH.Err → String
  | .pyType => "TypeError"
  | .pyRuntime => "RuntimeError"
  | .frozen => "TypeError"
  | _ => "ValueError"

def serrName : SErr → String
  | .exit => "SystemExit"
  | .mh e => errName e
  | .assertion => "AssertionError"

def showMH (s : MH) : String :=
  let ab := match s.abunds with
    | some ab => joinNats ab
    | none => "-"
  s!"ok num={s.num} mh={s.maxHash} sc={Py.scaledProp s} tr={b2s s.trackAbundance} mins={joinNats s.mins} ab={ab}"

def get (st : St) (i : Nat) : Option (MH × Bool) := (st[i]?).join

def getMH (st : St) (i : Nat) : Option MH := (get st i).map Prod.fst

def getAll (st : St) (is : List Nat) : Option (List MH) := is.mapM (getMH st)

def put (st : St) (i : Nat) (s : MH) (frozen : Bool) : St := st.setIfInBounds i (some (s, frozen))

def fin (st : St) (r : Nat) (frozen : Bool) (x : Except MH.Err MH) : St × String :=
  match x with
  | .ok s => (put st r s frozen, showMH s)
  | .error e => (st, "err " ++ errName e)

/-- results of sub-commands are read back from the written file: frozen -/
def finS (st : St) (r : Nat) (x : Except SErr MH) : St × String :=
  match x with
  | .ok s => (put st r s true, showMH s)
  | .error e => (st, "err " ++ serrName e)

/-- "-" or a handle -/
def optHandle (st : St) (w : String) : Option (Option MH) :=
  if w = "-" then some none
  else match nat? w with
    | some h => (getMH st h).map some
    | none => none

def optNat (w : String) : Option (Option Nat) :=
  if w = "-" then some none else (nat? w).map some

/-- `__add__` / `__or__` on a possibly frozen left operand -/
def addOp (s : MH) (frozen : Bool) (o : MH) : Except MH.Err MH :=
  if frozen then
    if s.num ≠ 0 ∧ o.num ≠ 0 ∧ s.num ≠ o.num then .error .pyType
    else do
      let n ← Py.toMutable s true
      n.merge o
  else Py.add s o

/-- a sub-command route may carry a suffix `+k` (operand files also hold decoy signatures of another k-mer size /
molecule type, the sub-command selects with `-k 21 --dna`), `+f` (operands passed through `--from-file`) or `+kf`:
other ways of handing the same operands to the same sub-command core, so the model value is the same -/
def stripRoute (w : String) : String := (w.splitOn "+").headD w

def canonWords : List String → List String
  | "d" :: op :: rest => "d" :: stripRoute op :: rest
  | w :: rest => stripRoute w :: rest
  | [] => []

def step (st : St) (line : String) : St × String :=
  let bad := (st, "bad-op")
  match canonWords (words line) with
  | "#" :: _ => (init, "#")
  | "leaf" :: r :: num :: scaled :: track :: hs =>
    match nats? [r, num, scaled], bool? track, nats? hs with
    | some [r, num, scaled], some tr, some hs =>
      fin st r false (do
        let s ← Py.mkMinHash num 21 1 42 tr 0 scaled
        pure (s.addMany hs))
    | _, _, _ => bad
  | "leafab" :: r :: num :: scaled :: ps =>
    match nats? [r, num, scaled], pairs? ps with
    | some [r, num, scaled], some ps =>
      fin st r false (do
        let s ← Py.mkMinHash num 21 1 42 true 0 scaled
        ps.foldlM (fun s p => Py.addHashWithAbundance s p.1 p.2) s)
    | _, _ => bad
  | ["freeze", r, a] =>
    match nats? [r, a] with
    | some [r, a] => match get st a with
      | some (s, fz) => fin st r true (if fz then .ok s else Py.copy s)
      | none => bad
    | _ => bad
  | "d" :: op :: r :: a :: v :: [] =>
    -- downsample family: d meth|cli|nmeth|ncli r a value
    match nats? [r, a, v] with
    | some [r, a, v] =>
      match get st a with
      | some (s, fz) =>
        if op = "meth" then
          fin st r fz (if fz then Py.frozenDownsample s none (some v) else Py.downsample s none (some v))
        else if op = "nmeth" then
          fin st r fz (if fz then Py.frozenDownsample s (some v) none else Py.downsample s (some v) none)
        else if op = "cli" then finS st r (sigDownsample s 0 v)
        else if op = "ncli" then finS st r (sigDownsample s v 0)
        else bad
      | none => bad
    | _ => bad
  | ["t.cli", r, a, mn, mx] =>
    match nats? [r, a, mn], optNat mx with
    | some [r, a, mn], some mx =>
      match getMH st a with
      | some s =>
        match sigFilter s mn mx with
        | .ok (some x) => finS st r (.ok x)
        | .ok none => (st, "ok skipped")
        | .error e => finS st r (.error e)
      | none => bad
    | _, _ => bad
  | "u.cli" :: r :: fl :: hs =>
    match nat? r, bool? fl, nats? hs with
    | some r, some fl, some hs =>
      match getAll st hs with
      | some sigs => finS st r (sigMerge fl sigs)
      | none => bad
    | _, _, _ => bad
  | "i.cli" :: r :: ab :: hs =>
    match nat? r, optHandle st ab, nats? hs with
    | some r, some ab, some hs =>
      match getAll st hs with
      | some sigs => finS st r (sigIntersect sigs ab)
      | none => bad
    | _, _, _ => bad
  | "s.cli" :: r :: fl :: ab :: frm :: hs =>
    match nats? [r, frm], bool? fl, optHandle st ab, nats? hs with
    | some [r, frm], some fl, some ab, some hs =>
      match getMH st frm, getAll st hs with
      | some f, some others => finS st r (sigSubtract f others fl ab)
      | _, _ => bad
    | _, _, _, _ => bad
  | [op, r, a, b] =>
    match nats? [r, a, b] with
    | some [r, a, b] =>
      match get st a, get st b with
      | some (s, fz), some (o, _) =>
        if op = "u.add" ∨ op = "u.or" then fin st r false (addOp s fz o)
        else if op = "u.iadd" then fin st r false (do let n ← Py.toMutable s fz; Py.iadd n o)
        else if op = "u.merge" then fin st r false (do let n ← Py.toMutable s fz; n.merge o)
        else if op = "u.addmany" then fin st r false (do let n ← Py.toMutable s fz; pure (n.addFrom o))
        else if op = "i.and" ∨ op = "i.meth" then
          match Py.intersection s o with
          | .ok (s', n) => fin (put st a s' fz) r false (.ok n)
          | .error e => fin st r false (.error e)
        else if op = "s.rm" then fin st r false (do let n ← Py.toMutable s fz; pure (n.removeFrom o))
        else if op = "s.rmlist" then
          fin st r false (do let n ← Py.toMutable s fz; pure (n.removeMany o.mins))
        else if op = "n.meth" then fin st r false (Py.inflate s o)
        else if op = "n.cli" then
          -- `sig inflate from other`: a = from, b = the signature to inflate
          finS st r (match sigInflate s [o] with
            | .ok [x] => .ok x
            | .ok _ => .error .exit
            | .error e => .error e)
        else bad
      | _, _ => bad
    | _ => bad
  | [op, r, a] =>
    match nats? [r, a] with
    | some [r, a] =>
      match get st a with
      | some (s, fz) =>
        -- SELF-ALIASED in-place operations: the receiver (a fresh mutable copy) is also the operand, one object.
        -- Value semantics: `x.op(x)` is `x.op(copy of x)`.
        if op = "u.merge.self" then fin st r false (do let n ← Py.toMutable s fz; n.merge n)
        else if op = "u.iadd.self" then fin st r false (do let n ← Py.toMutable s fz; Py.iadd n n)
        else if op = "u.addmany.self" then fin st r false (do let n ← Py.toMutable s fz; pure (n.addFrom n))
        else if op = "s.rm.self" then fin st r false (do let n ← Py.toMutable s fz; pure (n.removeFrom n))
        else if op = "f.meth" then
          match Py.flatten s with
          | .ok (some f) => fin st r fz (.ok f)
          | .ok none => fin st r fz (.ok s)
          | .error e => fin st r fz (.error e)
        else if op = "f.cli" then finS st r (sigFlatten s)
        else bad
      | none => bad
    | _ => bad
  | _ => bad

end Sm.DriverSetops
