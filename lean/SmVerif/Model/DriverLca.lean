/-
Driver for the `lca` correspondence stream (C18): a table of signatures, a table
of LCA databases (in-memory / JSON-loaded / SQLite twin), one API-level operation
per line.  See harness/streams/lca.py for the op list.
-/
import SmVerif.Model.LcaDb
import SmVerif.Model.LcaIndex
import SmVerif.Model.LcaCli
import SmVerif.Model.Proto

namespace Sm.DriverLca

open Sm.Proto Sm.Lin Sm.Lca

inductive AnyDb where
  | mem (db : Db)
  | sql (s : SqlDb)

structure St where
  sigs : List (Nat × Sig)
  dbs : List (Nat × AnyDb)

def init : St := { sigs := [], dbs := [] }

/-! ### tokens -/

def nameOf (tok : String) : String := if tok = "-" then "" else (tok.replace "~" " ").replace "^" "\t"

def tokOf (s : String) : String := if s = "" then "-" else (s.replace " " "~").replace "\t" "^"

def natList? (tok : String) : Option (List Nat) :=
  if tok = "-" then some [] else (tok.splitOn ",").mapM nat?

def lineage? (tok : String) : Option Lineage :=
  if tok = "-" then some [] else (tok.splitOn ",").mapM pair?

def lineages? (tok : String) : Option (List Lineage) :=
  if tok = "-" then some [] else (tok.splitOn "|").mapM lineage?

def showLineage (l : Lineage) : String :=
  if l.isEmpty then "()" else ",".intercalate (l.map (fun p => s!"{p.1}:{p.2}"))

def sortStrs (l : List String) : List String := l.mergeSort (fun a b => !(b < a))

def joinOr (sep : String) (l : List String) : String := if l.isEmpty then "-" else sep.intercalate l

def errName : Lca.Err → String
  | .value => "ValueError"
  | .assertion => "AssertionError"
  | .key => "KeyError"
  | .attribute => "AttributeError"
  | .notImplemented => "NotImplementedError"
  | .other => "ProgrammingError"

def getDb (st : St) (d : Nat) : Option AnyDb := Dict.get? st.dbs d
def putDb (st : St) (d : Nat) (x : AnyDb) : St := { st with dbs := Dict.set st.dbs d x }

def showAssignments (r : Except Lca.Err (List Lineage)) : String :=
  match r with
  | .ok ls => "ok " ++ joinOr "|" (sortStrs (ls.map showLineage))
  | .error e => "err " ++ errName e

/-- `marker`: `@scaled<x>` when the sketches are not at the database's scaled (the SQLite form after a
    `downsample_scaled` its `signatures()` does not honour: finding C18.3) -/
def showSigs (l : List (Nat × String × List Nat)) (marker : String := "") : String :=
  "ok " ++ joinOr "|" (sortStrs (l.map (fun p => tokOf p.2.1 ++ marker ++ "=" ++ joinOr "," (p.2.2.map toString))))

def lookAll (st : St) (ds : List Nat) : Option (Nat → List (List Lineage)) :=
  match ds.mapM (getDb st) with
  | none => none
  | some dbs => some (fun h => dbs.map (fun d => match d with
      | .mem db => match db.getLineageAssignments h with | .ok l => l | .error _ => []
      | .sql s => match s.getLineageAssignments h with | .ok l => l | .error _ => []))

def showCounts (c : List (Lineage × Nat)) : String :=
  "ok " ++ joinOr "|" (sortStrs (c.map (fun p => showLineage p.1 ++ "=" ++ toString p.2)))

def mkSig (name filename : String) (scaled num ksize : Nat) (hs : List Nat) (moltype : Nat := 0)
    (md5 : String := "") : Option Sig :=
  if (scaled ≠ 0 ∧ num ≠ 0) ∨ (scaled = 0 ∧ num = 0) then none
  else
    let kept := if num = 0 then Dict.sortAsc (hs.filter (· ≤ mhR scaled)) else (Dict.sortAsc hs).take num
    some { name, filename, ksize, moltype, num, scaled, hashes := kept, md5 }

/-- `load_databases([...], scaled)`: every database is loaded from its file (JSON round trip; a SQLite file
    comes back at its stored scaled) and downsampled when `scaled` is larger -/
def loadForCli (x : AnyDb) (scaled : Nat) : Option AnyDb :=
  match x with
  | .mem db =>
    let d := db.jsonRoundTrip
    if scaled ≠ 0 ∧ scaled > d.scaled then
      (match d.downsampleScaled scaled with | .ok d' => some (.mem d') | .error _ => none)
    else some (.mem d)
  | .sql s =>
    let s0 := { s with scaled := s.storedScaled }
    if scaled ≠ 0 ∧ scaled > s0.scaled then
      (match s0.downsampleScaled scaled with | .ok s' => some (.sql s') | .error _ => none)
    else some (.sql s0)

def anyKsize : AnyDb → Nat | .mem db => db.ksize | .sql s => s.ksize
def anyMol : AnyDb → Nat | .mem db => db.moltype | .sql s => s.moltype
def anyScaled : AnyDb → Nat | .mem db => db.scaled | .sql s => s.scaled

def lookDb (minNum : Nat) (x : AnyDb) (h : Nat) : List Lineage :=
  match x with
  | .mem db => (match db.getLineageAssignments h minNum with | .ok l => l | .error _ => [])
  | .sql s => (match s.getLineageAssignments h minNum with | .ok l => l | .error _ => [])

def anyHashvals : AnyDb → List Nat | .mem db => db.hashvals | .sql s => s.hashvals

def showNames (l : List Nat) : String := ".".intercalate (l.map toString)

/-- the databases of a CLI command after `load_databases`; `Except` = what the command dies of -/
def cliDbs (st : St) (ds : List Nat) (scaled : Nat) : Option (Except String (List AnyDb)) :=
  match ds.mapM (getDb st) with
  | none => none
  | some xs =>
    match xs.mapM (fun x => loadForCli x scaled) with
    | none => some (.error "ValueError")
    | some dbs =>
      if (dbs.map anyKsize).eraseDups.length > 1 ∨ (dbs.map anyMol).eraseDups.length > 1 then some (.error "Exception")
      else some (.ok dbs)

/-- optional trailing `mol=<n>` / `md5=<hex>` tokens -/
def optTok (key : String) (ws : List String) : Option String :=
  (ws.find? (fun w => w.startsWith (key ++ "="))).map (fun w => (w.drop (key.length + 1)).toString)

/-- `k21,s10,m0,C2,nh,f,si,kv,rt,fm` -/
def idxOpts (tok : String) : LcaIndex.Opts :=
  let ws := tok.splitOn ","
  let num := fun (pre : String) (d : Nat) =>
    ((ws.find? (fun w => w.startsWith pre && ((w.drop pre.length).toString.toNat?).isSome)).bind
      (fun w => (w.drop pre.length).toString.toNat?)).getD d
  { ksize := num "k" 21, scaled := num "s" 1, moltype := num "m" 0, startColumn := num "C" 2,
    noHeaders := ws.contains "nh", force := ws.contains "f", splitIdents := ws.contains "si",
    keepVersions := ws.contains "kv", requireTax := ws.contains "rt", failMissing := ws.contains "fm" }

def csvRows (tok : String) : List (List String) :=
  if tok = "-" then []
  else (tok.splitOn "/").map (fun r => if r = "!" then [] else (r.splitOn ";").map (fun c => (c.replace "~" " ").replace "^" "\t"))

def step (st : St) (line : String) : St × String :=
  let bad := (st, "bad-op")
  match words line with
  | "#" :: _ => (init, "#")
  | "sig" :: r :: name :: filename :: scaled :: num :: ksize :: hs :: opts =>
    match nats? [r, scaled, num, ksize], natList? hs with
    | some [r, scaled, num, ksize], some hs =>
      let mol := ((optTok "mol" opts).bind nat?).getD 0
      let md5 := (optTok "md5" opts).getD ""
      match (mkSig (nameOf name) (nameOf filename) scaled num ksize hs mol md5).map
          (fun s => { s with track := (optTok "ab" opts) = some "1" }) with
      | some s =>
        -- the structural name splitting of the model against `String.splitOn`
        if firstWord s.name ≠ (s.name.splitOn " ").headD "" ∨ dotPrefix s.name ≠ (s.name.splitOn ".").headD "" then
          (st, "err SplitMismatch")
        else ({ st with sigs := Dict.set st.sigs r s }, "ok " ++ joinOr "," (s.hashes.map toString))
      | none => (st, "err ValueError")
    | _, _ => bad
  | "db" :: d :: ksize :: scaled :: opts =>
    match nats? [d, ksize, scaled] with
    | some [d, ksize, scaled] =>
      (putDb st d (.mem (Db.new ksize scaled (((optTok "mol" opts).bind nat?).getD 0))), "ok")
    | _ => bad
  | ["info", d] =>
    match nat? d with
    | some d => match getDb st d with
      | some (.mem db) => (st, s!"ok ksize={db.ksize} scaled={db.scaled} mol={db.moltype}")
      | some (.sql s) => (st, s!"ok ksize={s.ksize} scaled={s.scaled} mol={s.moltype}")
      | none => bad
    | none => bad
  | ["ins", d, r, ident, lin] =>
    match nats? [d, r], lineage? lin with
    | some [d, r], some lin =>
      match getDb st d, Dict.get? st.sigs r with
      | some (.mem db), some sg =>
        let (db', res) := db.insert sg (nameOf ident) lin
        (putDb st d (.mem db'), match res with | .ok n => s!"ok {n}" | .error e => "err " ++ errName e)
      | some (.sql _), some _ => (st, "err NotImplementedError")
      | _, _ => bad
    | _, _ => bad
  | ["len", d] =>
    match nat? d with
    | some d => match getDb st d with
      | some (.mem db) => (st, s!"ok {db.len}")
      | some (.sql s) => (st, s!"ok {s.len}")
      | none => bad
    | none => bad
  | "la" :: d :: h :: rest =>
    match nats? (d :: h :: rest) with
    | some (d :: h :: rest) =>
      let mn := rest.headD 0
      match getDb st d with
      | some (.mem db) => (st, showAssignments (db.getLineageAssignments h mn))
      | some (.sql s) => (st, showAssignments (s.getLineageAssignments h mn))
      | none => bad
    | _ => bad
  | ["ids", d, h] =>
    match nats? [d, h] with
    | some [d, h] => match getDb st d with
      | some (.mem db) => (st, match db.getIdentifiers h with
        | .ok l => "ok " ++ joinOr "," (sortStrs (l.map tokOf))
        | .error e => "err " ++ errName e)
      | some (.sql s) => (st, match s.getIdentifiers h with
        | .ok l => "ok " ++ joinOr "," (sortStrs (l.map (fun o => match o with
            | some i => tokOf i
            | none => "set()")))
        | .error e => "err " ++ errName e)
      | none => bad
    | _ => bad
  | ["hv", d] =>
    match nat? d with
    | some d => match getDb st d with
      | some (.mem db) => (st, "ok " ++ joinOr "," ((Dict.sortAsc db.hashvals).map toString))
      | some (.sql s) => (st, "ok " ++ joinOr "," ((Dict.sortAsc s.hashvals).map toString))
      | none => bad
    | none => bad
  | ["sigs", d] =>
    match nat? d with
    | some d => match getDb st d with
      | some (.mem db) => (st, match db.signatures with
        | .ok l => showSigs l
        | .error e => "err " ++ errName e)
      | some (.sql s) =>
        let sketchScaled := if Gen.sqlDownHonoured && decide (s.storedScaled < s.scaled) then s.scaled else s.storedScaled
        (st, showSigs s.signatures (if sketchScaled = s.scaled then "" else s!"@scaled{sketchScaled}"))
      | none => bad
    | none => bad
  | ["down", d, sc] =>
    match nats? [d, sc] with
    | some [d, sc] => match getDb st d with
      | some (.mem db) => (match db.downsampleScaled sc with
        | .ok db' => (putDb st d (.mem db'), s!"ok {db'.scaled}")
        | .error e => (st, "err " ++ errName e))
      | some (.sql s) => (match s.downsampleScaled sc with
        | .ok s' => (putDb st d (.sql s'), s!"ok {s'.scaled}")
        | .error e => (st, "err " ++ errName e))
      | none => bad
    | _ => bad
  | ["json", d, e] =>
    match nats? [d, e] with
    | some [d, e] => match getDb st d with
      | some (.mem db) => (putDb st e (.mem db.jsonRoundTrip), "ok")
      | some (.sql _) => (st, "err NotImplementedError")
      | none => bad
    | _ => bad
  | ["sql", d, e] =>
    match nats? [d, e] with
    | some [d, e] => match getDb st d with
      | some (.mem db) => (match db.toSql with
        | .ok s => (putDb st e (.sql s), "ok")
        | .error er => (st, "err " ++ errName er))
      | some (.sql _) => (st, "err NotImplementedError")
      | none => bad
    | _ => bad
  | ["lca", ls] =>
    match lineages? ls with
    | some ls => (st, match buildTree ls with
      | .ok t => let r := t.findLca; s!"ok {showLineage r.1} {r.2}"
      | .error _ => "err ValueError")
    | none => bad
  | ["summ", thr, ign, ds, hcs] =>
    match nat? thr, bool? ign, natList? ds, (if hcs = "-" then some [] else pairs? (hcs.splitOn ",")) with
    | some thr, some ign, some ds, some hcs =>
      match lookAll st ds with
      | none => bad
      | some look =>
        (st, match summarizeWith look hcs thr ign with
          | .ok agg => showCounts agg
          | .error _ => "err ValueError")
    | _, _, _, _ => bad
  | ["cls", thr, maj, ds, hs] =>
    match nat? thr, bool? maj, natList? ds, natList? hs with
    | some thr, some maj, some ds, some hs =>
      match lookAll st ds with
      | none => bad
      | some look =>
        (st, match classifyWith look hs thr maj with
          | .ok r =>
            let stat := match r.2 with | .nomatch => "nomatch" | .found => "found" | .disagree => "disagree"
            s!"ok {stat} {showLineage r.1}"
          | .error _ => "err ValueError")
    | _, _, _, _ => bad
  | ["index", d, opts, sigs, csv] =>
    match nat? d, natList? sigs with
    | some d, some rs =>
      match rs.mapM (fun r => Dict.get? st.sigs r) with
      | none => bad
      | some sgs =>
        match LcaIndex.lcaIndex (idxOpts opts) sgs (csvRows csv) with
        | .error (.exit c) => (st, s!"exit {c}")
        | .error .exc => (st, "err Exception")
        | .error .keyError => (st, "err KeyError")
        | .ok r =>
          -- the database is written as JSON and loaded back
          (putDb st d (.mem r.db.jsonRoundTrip),
           "ok report=" ++ (match r.report with
             | some l => joinOr "," (l.map toString)
             | none => "-"))
    | _, _ => bad
  | ["clisumm", ds, qs, thr, scaled, ign] =>
    match natList? ds, natList? qs, nats? [thr, scaled], bool? ign with
    | some ds, some qs, some [thr, scaled], some ign =>
      match cliDbs st ds scaled, qs.mapM (fun r => Dict.get? st.sigs r) with
      | some (.error e), some _ => (st, "err " ++ e)
      | some (.ok dbs), some sgs =>
        let look := fun h => dbs.map (fun x => lookDb 0 x h)
        let sc := (dbs.map anyScaled).headD 1
        let ks := (dbs.map anyKsize).headD 0
        let blocks := (sgs.filter (fun sg => sg.ksize = ks)).mapM (fun sg =>
          match LcaCli.summarizeOne look thr ign sc sg with
          | .error e => (.error e : Except String String)
          | .ok (agg, total) => match LcaCli.csvRows agg with
            | none => .error "ValueError"
            | some rows =>
              -- a query without rows leaves no trace in the CSV
              .ok (if rows.isEmpty then "" else tokOf sg.str ++ ":" ++ toString total ++ ":" ++
                joinOr "|" (sortStrs (rows.map (fun (r : List Nat × Nat) => showNames r.1 ++ "=" ++ toString r.2)))))
        (st, match blocks with
          | .ok bs => "ok " ++ joinOr "/" (bs.filter (· ≠ ""))
          | .error e => "err " ++ e)
      | _, _ => bad
    | _, _, _, _ => bad
  | ["clicls", ds, qs, thr, scaled, maj] =>
    match natList? ds, natList? qs, nats? [thr, scaled], bool? maj with
    | some ds, some qs, some [thr, scaled], some maj =>
      -- `--scaled` reaches `downsample_scaled` as a float unless `classify` converts it: `MinHash(scaled=100.0)`
      -- is a TypeError (in `LCA_Database.downsample_scaled`; for the SQLite form at the first hash looked up)
      let raw := ((ds.mapM (getDb st)).getD [])      -- a missing handle: `cliDbs` answers bad-op below
      let floatScaled := !Gen.clsScaledInt && scaled != 0
      let memNeeds := floatScaled && raw.any (fun x => match x with | .mem db => decide (db.scaled < scaled) | .sql _ => false)
      let sqlNeeds := floatScaled && Gen.sqlDownHonoured &&
        raw.any (fun x => match x with | .sql s => decide (s.storedScaled < scaled) | .mem _ => false)
      match (if memNeeds then some (.error "TypeError") else cliDbs st ds scaled),   -- (memNeeds ⇒ all handles exist)
            qs.mapM (fun r => Dict.get? st.sigs r) with
      | some (.error e), some _ => (st, "err " ++ e)
      | some (.ok dbs), some sgs =>
        let look := fun h => dbs.map (fun x => lookDb 0 x h)
        let sc := (dbs.map anyScaled).headD 1
        let ks := (dbs.map anyKsize).headD 0
        let rows := (sgs.filter (fun sg => sg.ksize = ks)).mapM (fun sg =>
          match LcaCli.classifyOne look thr maj sc sg with
          | .error e => (.error e : Except String String)
          | .ok (lin, status) =>
            if sqlNeeds && (match sg.downTo sc with | .ok hs => !hs.isEmpty | .error _ => false) then .error "TypeError"
            else match LcaCli.zipLineage lin false with
            | none => .error "ValueError"
            | some names =>
              let stat := match status with | .nomatch => "nomatch" | .found => "found" | .disagree => "disagree"
              .ok (tokOf sg.str ++ ":" ++ stat ++ ":" ++ showNames names))
        (st, match rows with
          | .ok bs => "ok " ++ joinOr "/" bs
          | .error e => "err " ++ e)
      | _, _ => bad
    | _, _, _, _ => bad
  | ["clirank", ds, scaled, minNum] =>
    match natList? ds, nats? [scaled, minNum] with
    | some ds, some [scaled, minNum] =>
      match cliDbs st ds scaled with
      | none => bad
      | some (.error e) => (st, "err " ++ e)
      | some (.ok dbs) =>
        (st, match LcaCli.rankinfo (dbs.map anyHashvals) (fun mn h => dbs.map (fun x => lookDb mn x h)) minNum with
          | some counts => "ok " ++ joinOr "," (counts.map toString)
          | none => "ok -")
    | _, _ => bad
  | ["clicmp", opts, csv1, csv2] =>
    let o := idxOpts opts
    if o.startColumn < 2 then (st, "exit -1")
    else
      let o1 : LcaIndex.Opts := { o with startColumn := 3, noHeaders := false, splitIdents := false, keepVersions := false }
      let o2 : LcaIndex.Opts := { o with splitIdents := false, keepVersions := false }
      (st, match LcaIndex.loadTaxonomy o1 (csvRows csv1) with
        | .error (.exit c) => s!"exit {c}"
        | .error .exc => "err Exception"
        | .error .keyError => "err KeyError"
        | .ok (a0, _) => match LcaIndex.loadTaxonomy o2 (csvRows csv2) with
          | .error (.exit c) => s!"exit {c}"
          | .error .exc => "err Exception"
          | .error .keyError => "err KeyError"
          | .ok (a1, _) => match LcaCli.compareCsv a0 a1 with
            | none => "err ValueError"
            | some rows => "ok " ++ joinOr "|" (sortStrs (rows.map (fun (r : String × Bool × List Nat) =>
                tokOf r.1 ++ "," ++ (if r.2.1 then "compatible" else "incompatible") ++ "," ++ showNames r.2.2))))
  | "taxdb" :: fmt :: tabs =>
    -- each table: `ident=lineage/ident=lineage`
    let parseTab := fun (t : String) => if t = "-" then some [] else
      (t.splitOn "/").mapM (fun e => match e.splitOn "=" with
        | [i, l] => (lineage? l).map (fun lin => (nameOf i, lin))
        | _ => none)
    match tabs.mapM parseTab with
    | none => bad
    | some ts =>
      let merged := ts.foldl (fun acc t => LcaCli.taxMerge acc t) []
      if fmt = "sql" then
        (st, match LcaCli.taxSqlRoundTrip merged with
          | none => "err ProgrammingError"
          | some (ranks, rows) =>
            s!"ok n={rows.length} ranks={joinOr "," (ranks.map toString)} " ++
              joinOr "|" (sortStrs (rows.map (fun (r : String × Lineage) => tokOf r.1 ++ "=" ++ showLineage r.2))))
      else if fmt = "csv" then
        (st, match LcaCli.taxCsvRows merged with
          | none => "err ValueError"
          | some rows => "ok " ++ joinOr "|" (sortStrs (rows.map (fun (r : String × List Nat) =>
              tokOf r.1 ++ "=" ++ showNames r.2))))
      else bad
  | ["rlca", la, lb] =>
    match lineage? la, lineage? lb with
    | some la, some lb => (st, match LcaCli.rankLineageLca la lb with
      | some p => "ok " ++ showLineage p
      | none => "ok none")
    | _, _ => bad
  | ["match", rank, la, lb] =>
    match nat? rank, lineage? la, lineage? lb with
    | some rank, some la, some lb =>
      (st, match LcaCli.isLineageMatch la lb rank with
        | some v => s!"ok {v}"
        | none => "err AssertionError")
    | _, _, _ => bad
  | ["mklin", names] =>
    match natList? names with
    | some names => (st, "ok " ++ showLineage (LcaCli.makeLineage names))
    | none => bad
  | ["disp", lin] =>
    match lineage? lin with
    | some lin => (st, match LcaCli.zipLineage lin true with
      | some names => "ok " ++ showNames names
      | none => "err ValueError")
    | none => bad
  | ["recheck"] => (st, "ok")     -- the adapter re-verifies every object / answer it handed out earlier in the case
  | ["pop", rank, lin] =>
    match nat? rank, lineage? lin with
    | some rank, some lin => (st, "ok " ++ showLineage (popToRank lin rank))
    | _, _ => bad
  | _ => bad

end Sm.DriverLca
