/-
Decision model of `sourmash sketch fromfile` (src/sourmash/command_sketch.py: `fromfile`,
`_compute_sigs`; `ComputeParameters.from_manifest_row`, `ComputeParameters.__eq__`): which
signatures are requested, which are skipped because an `--already-done` collection holds them,
which cannot be built, and how the rest is grouped into (name, file) units that are then sketched.
-/
import SmVerif.Model.SketchParams

namespace Sm.Sketch

/-- one row of the CSV: name, genome_filename, protein_filename ("" = empty cell) -/
structure FFRow where
  name : List Char
  genome : List Char
  proteome : List Char
deriving DecidableEq, Repr

/-- one manifest row of an `--already-done` collection, as `from_manifest_row` reads it -/
structure DoneRow where
  name : List Char
  mol : Mol
  ksize : Nat          -- manifest k (amino acids for the protein alphabets)
  num : Nat
  scaled : Nat
  abund : Bool
deriving DecidableEq, Repr

/-- `ComputeParameters.from_manifest_row` -/
def DoneRow.cp (r : DoneRow) : CP :=
  { ksizes := [if r.mol = .dna then r.ksize else r.ksize * 3], seed := Gen.sketchDefaultSeed,
    protein := r.mol = .protein, dayhoff := r.mol = .dayhoff, hp := r.mol = .hp, dna := r.mol = .dna,
    num := r.num, track := r.abund, scaled := r.scaled }

/-- why `fromfile` stops before sketching (`sys.exit`) -/
inductive FFExit where
  | seedSet           -- "cannot set 'seed' in 'sketch fromfile'"          exit -1
  | badNames          -- duplicate or blank names                           exit -1
  | missing           -- some signatures cannot be built, no --ignore-missing   exit -1
  | nothing           -- "Nothing to build. Exiting!"                        exit 0
deriving DecidableEq, Repr

/-- `all_names`: first occurrence of every non-blank name, in order; and whether the CSV is acceptable -/
def allNames : List FFRow → List FFRow → List FFRow
  | [], acc => acc
  | r :: rest, acc =>
    if r.name = [] then allNames rest acc
    else if acc.any (fun a => a.name = r.name) then allNames rest acc
    else allNames rest (acc ++ [r])

def namesOk (rows : List FFRow) : Bool :=
  rows.all (fun r => r.name ≠ []) && (rows.map FFRow.name).eraseDups.length = rows.length

/-- `already_done[name]` -/
def doneFor (done : List DoneRow) (name : List Char) : List CP :=
  (done.filter (fun d => d.name = name)).map DoneRow.cp

/-- `filename = genome if p.dna else proteome` -/
def fileFor (r : FFRow) (p : CP) : List Char := if p.dna then r.genome else r.proteome

/-- what happens to one requested (row, parameter set) -/
inductive Fate where
  | skipped | build | missing
deriving DecidableEq, Repr

def fate (done : List DoneRow) (r : FFRow) (p : CP) : Fate :=
  if (doneFor done r.name).contains p then .skipped
  else if fileFor r p = [] then .missing
  else .build

/-- every requested signature: names × parameter sets, in the order the loops visit them -/
def requested (names : List FFRow) (build : List CP) : List (FFRow × CP) :=
  names.flatMap (fun r => build.map (fun p => (r, p)))

abbrev FFKey := List Char × List Char     -- (name, filename)

/-- `to_build[(name, filename)].append(p)` on a dict that keeps insertion order -/
def insertGroup (acc : List (FFKey × List CP)) (k : FFKey) (p : CP) : List (FFKey × List CP) :=
  match acc with
  | [] => [(k, [p])]
  | (k', ps) :: rest => if k' = k then (k', ps ++ [p]) :: rest else (k', ps) :: insertGroup rest k p

def toBuild (done : List DoneRow) (reqs : List (FFRow × CP)) : List (FFKey × List CP) :=
  (reqs.filter (fun rp => fate done rp.1 rp.2 = .build)).foldl
    (fun acc rp => insertGroup acc (rp.1.name, fileFor rp.1 rp.2) rp.2) []

/-- the decision part of `fromfile`: an early exit, or the units `_compute_sigs` will sketch -/
def fromfilePlan (build : List CP) (rows : List FFRow) (done : List DoneRow) (ignoreMissing : Bool) :
    Except FFExit (List (FFKey × List CP)) :=
  if build.any (fun p => p.seed ≠ Gen.sketchDefaultSeed) then .error .seedSet
  else if !namesOk rows then .error .badNames
  else
    let reqs := requested (allNames rows []) build
    if reqs.any (fun rp => fate done rp.1 rp.2 = .missing) && !ignoreMissing then .error .missing
    else
      let tb := toBuild done reqs
      if tb.isEmpty then .error .nothing else .ok tb

/-- `_compute_sigs` on one unit: `is_dna = param_objs[0].dna`; a DNA parameter set after a
    protein one trips `assert is_dna`; the records are amino acids exactly when `not is_dna` -/
def unitInputIsProtein (ps : List CP) : Except Unit Bool :=
  match ps with
  | [] => .error ()
  | p0 :: _ => if ps.any (fun p => p.dna && !p0.dna) then .error () else .ok (!p0.dna)

end Sm.Sketch
