/-
Driver for the `search` correspondence stream (C06): a table of sketches, a database (ordered list of
sketch ids), a query, and search / prefetch operations against containers built from those sketches.
See harness/adapters/search_impl.py for the op grammar.

Result lines: `ok <sorted> <tag> name/score ...` (canonically sorted unless tag `O`), where the tag says
how the two sides are to be compared (harness/streams/search.py `same`):
  E  exactly this multiset            O  exactly this sequence
  B  best-only on a container whose iteration order the model does not fix: the model prints the
     non-best-only answer; the implementation must return a sub-multiset containing every maximal element
  T  best_containment: the model prints all candidates with the maximal score
-/
import SmVerif.Model.Search
import SmVerif.Model.Proto

namespace Sm.DriverSearch

open Sm.Proto Sm.Search Sm.F64

def KSIZE : Nat := 31

structure St where
  sk : Array (Option (MH × String))
  db : List Nat
  q : Option Nat

def init : St := ⟨Array.replicate 64 none, [], none⟩

def showMH (s : MH) : String :=
  let ab := match s.abunds with
    | some ab => joinNats ab
    | none => "-"
  s!"ok num={s.num} mh={s.maxHash} sc={Py.scaledProp s} tr={b2s s.trackAbundance} mins={joinNats s.mins} ab={ab}"

def getSk (st : St) (i : Nat) : Option (MH × String) := (st.sk[i]?).join

def dbSketches (st : St) : Option (List (MH × String)) := st.db.mapM (getSk st)

/-- lexicographic order on strings, for the canonical ordering of result items -/
def insertStr (x : String) : List String → List String
  | [] => [x]
  | y :: ys => if x ≤ y then x :: y :: ys else y :: insertStr x ys

def sortStrs (l : List String) : List String := l.foldr insertStr []

def item (names : List String) (h : Hit) : String :=
  s!"{names.getD h.idx "?"}/{toStr h.score.toF}"

def resLine (tag : String) (ordered : Bool) (names : List String) (hits : List Hit) : String :=
  let items := hits.map (item names)
  let items := if ordered then items else sortStrs items
  " ".intercalate (["ok", "1", tag] ++ items)

def errLine (e : SErr) : String := "err " ++ e.name

/-- next double above / below a positive double with a 53-bit mantissa -/
def nextUp (x : F) : F := ⟨x.m + 1, x.e⟩
def nextDown (x : F) : F := if x.m = 2 ^ 52 then ⟨2 ^ 53 - 1, x.e - 1⟩ else ⟨x.m - 1, x.e⟩

def threshold (n d : Nat) (k : Int) : F :=
  let t := divNat n d
  if t.m = 0 then t else if k > 0 then nextUp t else if k < 0 then nextDown t else t

def mode? : String → Option Mode
  | "j" => some .jaccard
  | "c" => some .containment
  | "m" => some .maxContainment
  | _ => none

/-! ### containers -/

inductive Cont where
  | linear (ordered : Bool)          -- iteration order is the database order
  | sbt (d t : Nat)
  | lca
  | sql
  | lcasql             -- LCA_SqliteDatabase: LCA_Database.save_to_sql, searched through SqliteIndex.find

def cont? (spec : String) : Option Cont :=
  match spec.splitOn "-" with
  | ["lin"] => some (.linear true)
  | ["lazy"] => some (.linear true)
  | ["dir"] => some (.linear false)
  | ["plist"] => some (.linear false)
  | ["zip"] => some (.linear false)
  | ["zipnm"] => some (.linear false)
  | ["lcasql"] => some .lcasql
  | ["mf"] => some (.linear false)
  | ["sbt", d, t, _, _] => do
    let d ← d.toNat?
    let t ← t.toNat?
    if d < 2 then none else some (.sbt d t)
  | ["lca"] => some .lca
  | ["sql"] => some .sql
  | _ => none

def unionL (a b : List Nat) : List Nat := a ++ b.filter (fun x => !a.contains x)

/-- split a list into `d` consecutive groups of nearly equal size -/
def chunks {α : Type} (d : Nat) (l : List α) : List (List α) :=
  let sz := (l.length + d - 1) / d
  let rec go (fuel : Nat) (l : List α) : List (List α) :=
    match fuel with
    | 0 => []
    | fuel + 1 => if l.isEmpty then [] else l.take (max sz 1) :: go fuel (l.drop (max sz 1))
  go (l.length + 1) l

/-- a `d`-ary tree over the leaves; node filters are the exact unions plus `fp` (hashes the Bloom
    filter is taken to answer "present" on although absent below) -/
def buildTree (d : Nat) (fp : List Nat) : Nat → List (Nat × MH) → Tree
  | 0, ls => .node fp (some 1) (ls.map (fun p => .leaf p.1 p.2))
  | fuel + 1, ls =>
    let filt := ls.foldl (fun acc p => unionL acc p.2.mins) fp
    let minN := max 1 (ls.foldl (fun acc p => min acc p.2.mins.length) (ls.headD (0, default)).2.mins.length)
    if ls.length ≤ d then .node filt (some minN) (ls.map (fun p => .leaf p.1 p.2))
    else .node filt (some minN) ((chunks d ls).map (fun g =>
      match g with
      | [p] => .leaf p.1 p.2
      | g => buildTree d fp fuel g))

def indexed {α : Type} (l : List α) : List (Nat × α) := (List.range l.length).zip l

/-- `LCA_Database(ksize, scaled)` + `insert` of every sketch; `none` = an insert raised -/
def buildLca (sks : List (MH × String)) : Option LcaDb :=
  let sc := sks.foldl (fun acc p => max acc (Py.scaledProp p.1)) 0
  let sc := if sks.isEmpty then 1 else sc
  let names := sks.map Prod.snd
  if names.eraseDups.length ≠ names.length then none
  else
    let ents := (indexed sks).mapM (fun (i, p) =>
      match Py.downsample p.1 none (some sc), Py.mkMinHash 0 KSIZE 1 42 false 0 sc with
      | .ok d, .ok e => some (i, e.addMany d.mins)
      | _, _ => none)
    ents.map (fun e => ⟨sc, e⟩)

/-- `SqliteIndex.create` + `insert` of every sketch (sketch ids start at 1) -/
def buildSql (sks : List (MH × String)) : Option SqlDb :=
  let sc0 := sks.head?.map (fun p => Py.scaledProp p.1)
  if sks.any (fun p => p.1.num ≠ 0 || p.1.trackAbundance || some (Py.scaledProp p.1) ≠ sc0) then none
  else
    let ix := (indexed sks).map (fun (i, p) => (i + 1, p.1))
    some ⟨sc0, ix.flatMap (fun (i, s) => s.mins.map (fun h => (convTo h, i))), ix⟩

/-- everything an operation needs to know about a built container -/
structure Built where
  find : Finder
  select : MH → Bool → Except SErr Unit
  empty : Bool
  names : List String
  ordered : Bool

def build (c : Cont) (sks : List (MH × String)) (q : MH) : Option Built :=
  let names := sks.map Prod.snd
  let mhs := sks.map Prod.fst
  match c with
  | .linear ord =>
    some ⟨fun js q => findLinear js q (indexed mhs), fun _ _ => .ok (), mhs.isEmpty, names, ord⟩
  | .sbt d t =>
    let ls := indexed mhs
    let fp := if t < 20 then q.mins.filter (fun h => h % 3 = 0) else []
    let tree := if ls.isEmpty then none else some (buildTree d fp ls.length ls)
    let first := mhs.head?
    some ⟨findSBT tree first, sbtSelect first, mhs.isEmpty, names, false⟩
  | .lca =>
    (buildLca sks).map (fun db => ⟨findLCA db, db.select, mhs.isEmpty, names, false⟩)
  | .lcasql =>
    -- the sketches as the LCA database stored them (downsampled to its scaled), in a SqliteIndex
    match buildLca sks with
    | none => none
    | some l =>
      if l.entries.isEmpty then none       -- "cannot load an LCA_SqliteDatabase"
      else
        let stored := (l.entries.zip names).map (fun (e, n) => (e.2, n))
        (buildSql stored).map (fun db =>
          ⟨fun js q => match findSqlite db js q with
              | .ok (js', hits) => .ok (js', hits.map (fun h => { h with idx := h.idx - 1 }))
              | .error e => .error e,
           fun q _ => SqlDb.select q, mhs.isEmpty, names, false⟩)
  | .sql =>
    (buildSql sks).map (fun db =>
      ⟨fun js q => match findSqlite db js q with
          | .ok (js', hits) => .ok (js', hits.map (fun h => { h with idx := h.idx - 1 }))
          | .error e => .error e,
       fun q _ => SqlDb.select q, mhs.isEmpty, names, false⟩)

def isIndexed : Cont → Bool
  | .linear _ => false
  | _ => true

def step (st : St) (line : String) : St × String :=
  let bad := (st, "bad-op")
  match words line with
  | "#" :: _ => (init, "#")
  -- command-line tier (`sourmash search` / `sourmash prefetch` through the real entry point): not modelled;
  -- the property oracle decides on the implementation's observation alone
  | "clisearch" :: _ => (st, "skip")
  | "cliprefetch" :: _ => (st, "skip")
  | "sk" :: i :: num :: scaled :: track :: name :: hs =>
    match nats? [i, num, scaled], bool? track with
    | some [i, num, scaled], some tr =>
      let r : Option (Except MH.Err MH) :=
        if tr then (pairs? hs).map (fun ps =>
          match Py.mkMinHash num KSIZE 1 42 true 0 scaled with
          | .ok m => Py.setAbundances m ps true
          | .error e => .error e)
        else (nats? hs).map (fun vs =>
          match Py.mkMinHash num KSIZE 1 42 false 0 scaled with
          | .ok m => .ok (m.addMany vs)
          | .error e => .error e)
      match r with
      | none => bad
      | some (.error e) => (st, "err " ++ (ofMHErr e).name)
      | some (.ok m) => ({ st with sk := st.sk.setIfInBounds i (some (m, name)) }, showMH m)
    | _, _ => bad
  | "db" :: ids =>
    match nats? ids with
    | some ids => if ids.all (fun i => (getSk st i).isSome) then ({ st with db := ids }, s!"ok {ids.length}") else bad
    | none => bad
  | ["insert", i] =>
    match nat? i with
    | some i => if (getSk st i).isSome then ({ st with db := st.db ++ [i] }, s!"ok {st.db.length + 1}") else bad
    | none => bad
  | ["q", i] =>
    match nat? i with
    | some i => if (getSk st i).isSome then ({ st with q := some i }, "ok") else bad
    | none => bad
  | [op, spec, m, best, n, d, k] =>
    if op ≠ "search" ∧ op ≠ "searchord" then bad else
    match cont? spec, mode? m, bool? best, nats? [n, d], k.toInt?, st.q.bind (getSk st), dbSketches st with
    | some c, some m, some best, some [n, d], some k, some (q, _), some sks =>
      if d = 0 then bad else
      match build c sks q with
      | none => (st, "err-build ValueError")
      | some b =>
        let thr := threshold n d k
        let cont := m ≠ .jaccard
        match (if isIndexed c then b.select q cont else .ok ()) with
        | .error e => (st, errLine e)
        | .ok _ =>
          let tagB := best ∧ ¬ b.ordered
          let best' := if tagB then false else best
          match search b.find m thr best' q with
          | .error e => (st, errLine e)
          | .ok hits =>
            let tag := if op = "searchord" then "O" else if tagB then "B" else "E"
            (st, resLine tag (op = "searchord") b.names hits)
    | _, _, _, _, _, _, _ => bad
  | ["prefetch", spec, bp, best] =>
    match cont? spec, nat? bp, bool? best, st.q.bind (getSk st), dbSketches st with
    | some c, some bp, some best, some (q, _), some sks =>
      match build c sks q with
      | none => (st, "err-build ValueError")
      | some b =>
        match (if isIndexed c then b.select q true else .ok ()) with
        | .error e => (st, errLine e)
        | .ok _ =>
          let tagB := best ∧ ¬ b.ordered
          match prefetch b.find b.empty q bp (if tagB then false else best) with
          | .error e => (st, errLine e)
          | .ok hits => (st, resLine (if tagB then "B" else "E") false b.names hits)
    | _, _, _, _, _ => bad
  | ["best", spec, bp] =>
    match cont? spec, nat? bp, st.q.bind (getSk st), dbSketches st with
    | some c, some bp, some (q, _), some sks =>
      match build c sks q with
      | none => (st, "err-build ValueError")
      | some b =>
        match (if isIndexed c then b.select q true else .ok ()) with
        | .error e => (st, errLine e)
        | .ok _ =>
          -- the maximal candidates do not depend on the visiting order (Props/C06 `bestOnly_max_returned`)
          match bestContainment b.find b.empty q bp with
          | .error e => (st, errLine e)
          | .ok hits => (st, resLine "T" false b.names hits)
    | _, _, _, _ => bad
  | _ => bad

end Sm.DriverSearch
