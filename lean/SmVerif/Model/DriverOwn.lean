/-
Driver for the `own` stream (C15): after every operation the whole object table is
printed — every live handle of the three layers (sketches, signatures `s…`, collection
views `v…`) with its alias class, frozen flag and content, and for a view its own state
(member references / selection dict / row identities / picklists) plus what
`signatures()` yields — so that any write to a cell the model says is not written shows
up as a diff.
-/
import SmVerif.Model.OwnObj
import SmVerif.Model.Proto

namespace Sm.DriverOwn

open Sm.Proto Sm.Own Sm.Obj

def showCell (c : Cell) : String :=
  let ab := match c.val.abunds with
    | some ab => joinNats ab
    | none => "-"
  s!"{b2s c.frozen}:{c.val.num}:{c.val.maxHash}:{joinNats c.val.mins}:{ab}"

/-- handles sorted ascending; alias class = smallest handle bound to the same cell -/
def showHeap (hp : Heap) : List String :=
  let hs := (hp.handles.map Prod.fst).mergeSort (· ≤ ·)
  let cls (h : Nat) : Nat :=
    match hp.cid h with
    | some c => ((hs.filter (fun g => hp.cid g = some c)).head?).getD h
    | none => h
  hs.map fun h =>
    match hp.cell h with
    | some c => s!"{h}@{cls h}={showCell c}"
    | none => s!"{h}@?"

def dash (s : String) : String := if s == "" then "-" else s

def showSigOut (o : SigOut) : String :=
  let m := o.2.mh
  let ab := match m.abunds with
    | some ab => joinNats ab
    | none => "-"
  s!"{b2s o.1}:{dash o.2.name}:{dash o.2.filename}:{m.num}:{m.maxHash}:{joinNats m.mins}:{ab}"

def sortedHandles {α : Type} (t : Tab α) : List Nat := (t.handles.map Prod.fst).mergeSort (· ≤ ·)

/-- smallest handle bound to cell `c` -/
def clsOf {α : Type} (t : Tab α) (c : Nat) : Option Nat :=
  ((sortedHandles t).filter (fun g => t.cid g = some c)).head?

def refName {α : Type} (pre : String) (t : Tab α) (c : Nat) : String :=
  match clsOf t c with
  | some h => s!"{pre}{h}"
  | none => s!"{pre}?"

def selName (k : Nat) : String :=
  match k with
  | 0 => "ksize" | 1 => "moltype" | 2 => "scaled" | 3 => "num" | 4 => "abund" | _ => "containment"

def strLe (a b : String) : Bool := !(b < a)

def showSel : Option Sel → String
  | none => "-"
  | some [] => "{}"
  | some d =>
    let items := d.mergeSort (fun a b => a.1 ≤ b.1)
    ",".intercalate (items.map fun (k, v) =>
      s!"{k}:" ++ (match v with
        | some n => toString n
        | none => "N"))

def showSigs (w : World) (vc : ViewCell) : String :=
  match viewSigs w vc with
  | .error e => "!" ++ e
  | .ok l => "[" ++ "/".intercalate ((l.map showSigOut).mergeSort strLe) ++ "]"

/-- canonical row numbers: rows in order of first appearance, views by ascending handle -/
def rowNumbering (w : World) : List (Nat × Nat) :=
  let all := (sortedHandles w.views).flatMap (fun h =>
    match w.views.cell h with
    | some vc => vc.rows
    | none => [])
  let uniq := all.foldl (fun (acc : List Nat) r => if acc.contains r then acc else acc ++ [r]) []
  uniq.zipIdx

/-- canonical names of temporary directories (`T<k>`) and of md5-named zip members (`M<k>`): by first appearance, walking
    the views by ascending handle: `location`, then the `internal_location` column of a CollectionManifest -/
structure LocNum where
  dirs : List Nat := []
  md5s : List (List Nat) := []

def LocNum.add (n : LocNum) : Loc → LocNum
  | .dir d | .file d _ => if n.dirs.contains d then n else { n with dirs := n.dirs ++ [d] }
  | .md5 m => if n.md5s.contains m then n else { n with md5s := n.md5s ++ [m] }
  | _ => n

def locNumbering (w : World) : LocNum :=
  (sortedHandles w.views).foldl (fun n h =>
    match w.views.cell h with
    | some vc =>
      let n1 := n.add vc.loc
      match vc.kind with
      | .zipm | .multi | .standalone =>
        vc.rows.foldl (fun n r =>
          match w.rows[r]? with
          | some row => n.add row.iloc
          | none => n) n1
      | _ => n1
    | none => n) {}

def idxOf {α : Type} [BEq α] (l : List α) (x : α) : String :=
  match l.findIdx? (· == x) with
  | some k => toString k
  | none => "?"

def showLoc (n : LocNum) : Loc → String
  | .none => "-"
  | .dir d => "T" ++ idxOf n.dirs d
  | .file d i => "T" ++ idxOf n.dirs d ++ "/" ++ toString i ++ ".sig"
  | .md5 m => "M" ++ idxOf n.md5s m
  | .grp g => "g" ++ toString g ++ ".sig"
  | .num i => toString i ++ ".sig"
  | .label s => s

def showRow (w : World) (ln : LocNum) (num : List (Nat × Nat)) (r : Nat) : String :=
  let n := match num.lookup r with
    | some k => toString k
    | none => "?"
  match w.rows[r]? with
  | none => s!"R{n}(?)"
  | some row =>
    let m := row.snap.mh
    let sref := match row.sig with
      | some c => refName "s" w.sigs c
      | none => if row.anon then "s?" else "-"
    let nkeys := if row.hasSigKey then 12 else 11
    s!"R{n}({nkeys}.{dash row.snap.name}.{dash row.snap.filename}.{m.mins.length}.{b2s m.trackAbundance}.{sref}.{showLoc ln row.iloc})"

def kindName : VKind → String
  | .linear => "linear" | .lazy => "lazy" | .zipnm => "zipnm" | .zipm => "zipm" | .multi => "multi"
  | .standalone => "standalone" | .sbt => "sbt" | .lca => "lca"
  | .sbtdisk => "sbtdisk" | .sqlite => "sqlite" | .lcasql => "lcasql"

/-- a picklist is a SET of names: printed sorted, without repetitions -/
def showPicks (ps : List (List String)) : String :=
  "".intercalate (ps.map fun p => "(" ++ "+".intercalate ((p.mergeSort strLe).eraseDups) ++ ")")

def showAnswers (w : World) (ln : LocNum) (vc : ViewCell) : String :=
  let n := match viewLen w vc with
    | .ok k => toString k
    | .error e => "!" ++ e
  let hs := sortedHandles w.sigs
  let member :=
    if (viewMember w vc default).isNone then "-"
    else if hs.isEmpty then "."
    else "".intercalate (hs.map fun h =>
      match w.sigs.cell h with
      | some sc => if (viewMember w vc sc.val.mh).getD false then "1" else "0"
      | none => "x")
  let found := match viewFind w vc with
    | .noProbe => "-"
    | .mixed => "?"
    | .stale => "~"
    | .err e => "!" ++ e
    | .names l =>
      if l.isEmpty then "." else "+".intercalate ((l.map fun (p : String × Loc) => dash p.1 ++ "@" ++ showLoc ln p.2).mergeSort strLe)
  let locs := match viewSigs w vc, viewLocs w vc with
    | .error e, _ => "!" ++ e
    | _, .error e => "!" ++ e
    | .ok l, .ok ls =>
      if l.isEmpty then "."
      else "+".intercalate (((l.zip ls).map fun (p : SigOut × Loc) => dash p.1.2.name ++ "@" ++ showLoc ln p.2).mergeSort strLe)
  s!"n={n};in={member};f={found};L={locs}"

def showView (w : World) (ln : LocNum) (num : List (Nat × Nat)) (vc : ViewCell) : String :=
  let own := match vc.kind with
    | .linear => "m=" ++ ",".intercalate (vc.vals.map (fun _ => "s?") ++ vc.sigs.map (refName "s" w.sigs))
    | .sbt => "m=" ++ ",".intercalate ((vc.sigs.map (refName "s" w.sigs)).mergeSort strLe) ++ ";p=" ++ showPicks vc.picks
    | .lazy => "db=" ++ refName "v" w.views vc.db ++ ";sel=" ++ showSel vc.sel
    | .zipnm | .sqlite | .lcasql => "sel=" ++ showSel vc.sel
    | .sbtdisk => "p=" ++ showPicks vc.picks
    | .zipm | .standalone => "rows=" ++ ",".intercalate (vc.rows.map (showRow w ln num))
    | .multi => s!"pre={vc.scaled};rows=" ++ ",".intercalate (vc.rows.map (showRow w ln num))
    | .lca => s!"n={vc.vals.length};p=" ++ showPicks vc.picks
  kindName vc.kind ++ ";loc=" ++ showLoc ln vc.loc ++ ";" ++ own ++ ";" ++ showAnswers w ln vc ++ ";" ++ showSigs w vc

def showWorld (w : World) : String :=
  let mhs := showHeap w.heap
  let ss := (sortedHandles w.sigs).map fun h =>
    match w.sigs.cid h, w.sigs.cell h with
    | some c, some sc => s!"s{h}@{(clsOf w.sigs c).getD h}=" ++ showSigOut (sc.frozen, sc.val)
    | _, _ => s!"s{h}@?"
  let num := rowNumbering w
  let ln := locNumbering w
  let vs := (sortedHandles w.views).map fun h =>
    match w.views.cid h, w.views.cell h with
    | some c, some vc => s!"v{h}@{(clsOf w.views c).getD h}=" ++ showView w ln num vc
    | _, _ => s!"v{h}@?"
  -- `A=` what can be read about an object through two routes agrees; `K=` every result object handed out earlier in the
  -- case still reads the same (both asserted by the adapter on the real objects; the model's claim is that they hold)
  " ".intercalate (mhs ++ ss ++ vs ++ ["A=ok", "K=ok"])

def showRes : Res → String
  | .ok => "ok"
  | .err n => "err " ++ n
  | .bad => "bad-op"

/-- a name token: `-` (empty) or lower-case letters / digits -/
def name? (s : String) : Option String :=
  if s == "-" then some ""
  else if s != "" && s.toList.all (fun c => c.isLower || c.isDigit) then some s
  else none

/-- a sequence token: upper-case ASCII letters -/
def seq? (s : String) : Option (List Nat) :=
  if s != "" && s.toList.all (fun c => c.isUpper) then some (s.toList.map (·.toNat)) else none

def parseMh (line : String) : Option Own.Op :=
  match words line with
  | ["new", r, num, scaled, track] => do
    pure (.new (← nat? r) (← nat? num) (← nat? scaled) (← bool? track))
  | ["add", h, v] => do pure (.add (← nat? h) (← nat? v))
  | ["addab", h, v, a] => do pure (.addAb (← nat? h) (← nat? v) (← nat? a))
  | "addmany" :: h :: vs => do pure (.addMany (← nat? h) (← nats? vs))
  | "rm" :: h :: vs => do pure (.removeMany (← nat? h) (← nats? vs))
  | ["clear", h] => do pure (.clear (← nat? h))
  | ["merge", h, g] => do pure (.merge (← nat? h) (← nat? g))
  | "setab" :: h :: c :: ps => do pure (.setAbundances (← nat? h) (← pairs? ps) (← bool? c))
  | ["settrack", h, b] => do pure (.setTrack (← nat? h) (← bool? b))
  | ["addseq", h, force, sq] => do pure (.addSeq (← nat? h) (← seq? sq) (← bool? force))
  | ["addprot", h, sq] => do pure (.addProt (← nat? h) (← seq? sq))
  | ["intofrozen", h] => do pure (.intoFrozen (← nat? h))
  | ["tomut", r, h] => do pure (.toMutable (← nat? r) (← nat? h))
  | ["tofrozen", r, h] => do pure (.toFrozen (← nat? r) (← nat? h))
  | ["copy", r, h] => do pure (.copy (← nat? r) (← nat? h))
  | ["flat", r, h] => do pure (.flatten (← nat? r) (← nat? h))
  | ["down", r, h, sc] => do pure (.downsample (← nat? r) (← nat? h) (← nat? sc))
  | ["sigmh", r, h] => do pure (.sigMinhash (← nat? r) (← nat? h))
  | ["plus", r, h, g] => do pure (.plus (← nat? r) (← nat? h) (← nat? g))
  | ["inter", r, h, g] => do pure (.inter (← nat? r) (← nat? h) (← nat? g))
  | "ro" :: name :: hs => do pure (.readOnly name (← nats? hs))
  | _ => none

def kw1? (s : String) : Option (Nat × Option Nat) :=
  match s.splitOn "=" with
  | [k, v] =>
    let val : Option (Option Nat) := if v == "N" then some none else (v.toNat?).map some
    match val with
    | none => none
    | some x =>
      let small (bound : Nat) : Bool := match x with
        | some n => n < bound
        | none => true
      match k with
      | "ksize" => some (0, x)
      | "moltype" => if small 4 then some (1, x) else none
      | "scaled" => some (2, x)
      | "num" => some (3, x)
      | "abund" => if small 2 then some (4, x) else none
      | "containment" => if small 2 then some (5, x) else none
      | _ => none
  | _ => none

def kws? (ws : List String) : Option Sel := do
  let l ← ws.mapM kw1?
  let ks := l.map Prod.fst
  if ks.eraseDups.length == ks.length then pure l else none

def parse (line : String) : Option Obj.Op :=
  match words line with
  | ["snew", r, h, nm, fn] => do pure (.sNew (← nat? r) (← nat? h) (← name? nm) (← name? fn))
  | ["smh", r, s] => do pure (.sMinhash (← nat? r) (← nat? s))
  | ["ssetmh", s, h] => do pure (.sSetMh (← nat? s) (← nat? h))
  | ["sname", s, x] => do pure (.sSetName (← nat? s) (← name? x))
  | ["sfile", s, x] => do pure (.sSetFilename (← nat? s) (← name? x))
  | ["saddseq", s, force, sq] => do pure (.sAddSeq (← nat? s) (← seq? sq) (← bool? force))
  | ["saddprot", s, sq] => do pure (.sAddProt (← nat? s) (← seq? sq))
  | ["ssetstate", s, h, nm, fn] => do pure (.sSetState (← nat? s) (← nat? h) (← name? nm) (← name? fn))
  | ["sintofrozen", s] => do pure (.sIntoFrozen (← nat? s))
  | ["stomut", r, s] => do pure (.sToMutable (← nat? r) (← nat? s))
  | ["stofrozen", r, s] => do pure (.sToFrozen (← nat? r) (← nat? s))
  | ["scopy", r, s] => do pure (.sCopy (← nat? r) (← nat? s))
  | ["spickle", r, s] => do pure (.sPickle (← nat? r) (← nat? s))
  | ["supdflat", r, s] => do pure (.sUpdateFlat (← nat? r) (← nat? s))
  | ["supdname", r, s, x] => do pure (.sUpdateName (← nat? r) (← nat? s) (← name? x))
  | ["sgatherinit", r, s] => do pure (.sGatherInit (← nat? r) (← nat? s))
  | "scg" :: r :: s :: ds => do pure (.sCounterGather (← nat? r) (← nat? s) (← nats? ds))
  | "sro" :: name :: ss => do pure (.sRead name (← nats? ss))
  | "vlinear" :: r :: ss => do pure (.vLinear (← nat? r) (← nats? ss))
  | ["vlazy", r, v] => do pure (.vLazy (← nat? r) (← nat? v))
  | "vzip" :: r :: m :: ss => do pure (.vZip (← nat? r) (← bool? m) (← nats? ss))
  | "vmulti" :: r :: vs => do pure (.vMulti (← nat? r) (← nats? vs))
  | "vstandalone" :: r :: ss => do pure (.vStandalone (← nat? r) (← nats? ss))
  | "vsbt" :: r :: ss => do pure (.vSbt (← nat? r) (← nats? ss))
  | "vlca" :: r :: ss => do pure (.vLca (← nat? r) (← nats? ss))
  | "vsbtload" :: r :: fmt :: cache :: ss => do pure (.vSbtLoad (← nat? r) (← nat? fmt) (← nat? cache) (← nats? ss))
  | "vsqlite" :: r :: ss => do pure (.vSqlite (← nat? r) (← nats? ss))
  | "vlcaload" :: r :: fmt :: ss => do pure (.vLcaLoad (← nat? r) (← nat? fmt) (← nats? ss))
  | ["vinsert", v, s] => do pure (.vInsert (← nat? v) (← nat? s))
  | "vsel" :: r :: v :: kws => do pure (.vSelect (← nat? r) (← nat? v) (← kws? kws))
  | "vselpick" :: r :: v :: names => do pure (.vSelectPick (← nat? r) (← nat? v) (← names.mapM name?))
  | ["vget", r, v, i] => do pure (.vGet (← nat? r) (← nat? v) (← nat? i))
  | "vro" :: name :: v :: qs => do pure (.vRead name (← nat? v) (← nats? qs))
  | "vmf" :: name :: v :: u :: ss => do pure (.vManifest name (← nat? v) (← nat? u) (← nats? ss))
  | "vzipg" :: r :: m :: k :: ss => do pure (.vZipGroups (← nat? r) (← bool? m) (← nat? k) (← nats? ss))
  | "vmultiof" :: r :: pre :: ins => do
    let inputs ← ins.mapM (fun t =>
      match t.splitOn ":" with
      | [v, lab] => do
        let l ← name? lab
        pure ((← nat? v), if l == "" then none else some l)
      | _ => none)
    pure (.vMultiOf (← nat? r) (← bool? pre) inputs)
  | ["vfrom", r, kind, v] => do pure (.vFrom (← nat? r) (← nat? kind) (← nat? v))
  | ["vstandof", r, v] => do pure (.vStandOf (← nat? r) (← nat? v))
  | ["vmpath", r, mode, v] => do pure (.vMPath (← nat? r) (← nat? mode) (← nat? v))
  | _ => (parseMh line).map .mh

def stepLine (w : World) (line : String) : World × String :=
  match words line with
  | "#" :: _ => (World.empty, "#")
  | _ =>
    match parse line with
    | none => (w, "bad-op")
    | some op =>
      let (w', r) := Obj.step w op
      match r with
      | .bad => (w', "bad-op")
      | _ => (w', showRes r ++ " | " ++ showWorld w')

end Sm.DriverOwn
