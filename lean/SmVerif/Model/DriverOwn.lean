/-
Driver for the `own` stream (C15): after every operation the whole heap is
printed — every live handle with its alias class, frozen flag and content — so
that any write to a cell the model says is not written shows up as a diff.
-/
import SmVerif.Model.Ownership
import SmVerif.Model.Proto

namespace Sm.DriverOwn

open Sm.Proto Sm.Own

def showCell (c : Cell) : String :=
  let ab := match c.val.abunds with
    | some ab => joinNats ab
    | none => "-"
  s!"{b2s c.frozen}:{c.val.num}:{c.val.maxHash}:{joinNats c.val.mins}:{ab}"

/-- handles sorted ascending; alias class = smallest handle bound to the same cell -/
def showHeap (hp : Heap) : String :=
  let hs := (hp.handles.map Prod.fst).mergeSort (· ≤ ·)
  let cls (h : Nat) : Nat :=
    match hp.cid h with
    | some c => ((hs.filter (fun g => hp.cid g = some c)).head?).getD h
    | none => h
  " ".intercalate (hs.map fun h =>
    match hp.cell h with
    | some c => s!"{h}@{cls h}={showCell c}"
    | none => s!"{h}@?")

def showRes : Res → String
  | .ok => "ok"
  | .err n => "err " ++ n
  | .bad => "bad-op"

def parse (line : String) : Option Op :=
  match words line with
  | ["new", r, num, scaled, track] => do
    pure (.new (← nat? r) (← nat? num) (← nat? scaled) (← bool? track))
  | ["add", h, v] => do pure (.add (← nat? h) (← nat? v))
  | ["addab", h, v, a] => do pure (.addAb (← nat? h) (← nat? v) (← nat? a))
  | "addmany" :: h :: vs => do pure (.addMany (← nat? h) (← nats? vs))
  | "rm" :: h :: vs => do pure (.removeMany (← nat? h) (← nats? vs))
  | ["clear", h] => do pure (.clear (← nat? h))
  | ["merge", h, g] => do pure (.merge (← nat? h) (← nat? g))
  | "setab" :: h :: c :: ps => do pure (.setAbundances (← nat? h) (← pairs? ps) (← bool? c))
  | ["settrack", h, b] => do pure (.setTrack (← nat? h) (← bool? b))
  | ["intofrozen", h] => do pure (.intoFrozen (← nat? h))
  | ["tomut", r, h] => do pure (.toMutable (← nat? r) (← nat? h))
  | ["tofrozen", r, h] => do pure (.toFrozen (← nat? r) (← nat? h))
  | ["copy", r, h] => do pure (.copy (← nat? r) (← nat? h))
  | ["flat", r, h] => do pure (.flatten (← nat? r) (← nat? h))
  | ["down", r, h, sc] => do pure (.downsample (← nat? r) (← nat? h) (← nat? sc))
  | ["sigmh", r, h] => do pure (.sigMinhash (← nat? r) (← nat? h))
  | ["plus", r, h, g] => do pure (.plus (← nat? r) (← nat? h) (← nat? g))
  | ["inter", r, h, g] => do pure (.inter (← nat? r) (← nat? h) (← nat? g))
  | "ro" :: name :: hs => do pure (.readOnly name (← nats? hs))
  | _ => none

def stepLine (hp : Heap) (line : String) : Heap × String :=
  match words line with
  | "#" :: _ => (Heap.empty, "#")
  | _ =>
    match parse line with
    | none => (hp, "bad-op")
    | some op =>
      let (hp', r) := step hp op
      match r with
      | .bad => (hp', "bad-op")
      | _ => (hp', showRes r ++ " | " ++ showHeap hp')

end Sm.DriverOwn
