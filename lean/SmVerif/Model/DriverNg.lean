/- driver for the nodegraph-reader stream (C20): one file per line, bytes as hex -/
import SmVerif.Model.NgReader
import SmVerif.Model.Proto

namespace Sm.DriverNg

open Sm.Proto Sm.Ng

def hexVal (c : Char) : Option Nat :=
  if '0' ≤ c ∧ c ≤ '9' then some (c.toNat - '0'.toNat)
  else if 'a' ≤ c ∧ c ≤ 'f' then some (c.toNat - 'a'.toNat + 10)
  else none

def hexBytes : List Char → Option (List Nat)
  | [] => some []
  | a :: b :: rest => do
    let x ← hexVal a
    let y ← hexVal b
    let r ← hexBytes rest
    pure ((16 * x + y) :: r)
  | _ => none

def step (_ : Unit) (line : String) : Unit × String :=
  match words line with
  | "#" :: _ => ((), "#")
  | ["ng", h] =>
    match hexBytes h.toList with
    | none => ((), "bad-op")
    | some bs =>
      -- niffler sniffs 5 bytes first; compressed inputs are outside this model
      if bs.length < 5 then ((), "err") else
      match bs with
      | 0x1f :: 0x8b :: _ => ((), "skip")
      | 0x42 :: 0x5a :: _ => ((), "skip")
      | 0xfd :: 0x37 :: 0x7a :: 0x58 :: 0x5a :: _ => ((), "skip")
      | 0x28 :: 0xb5 :: 0x2f :: 0xfd :: _ => ((), "skip")
      | _ =>
        match parse bs with
        | (.ok p, _) => ((), "ok " ++ joinNats (p.tables.map Prod.fst))
        | (.error _, _) => ((), "err")
  | ["hll", h] =>
    match hexBytes h.toList with
    | none => ((), "bad-op")
    | some bs =>
      if bs.length < 5 then ((), "err") else
      match bs with
      | 0x1f :: 0x8b :: _ => ((), "skip")
      | 0x42 :: 0x5a :: _ => ((), "skip")
      | 0xfd :: 0x37 :: 0x7a :: 0x58 :: 0x5a :: _ => ((), "skip")
      | 0x28 :: 0xb5 :: 0x2f :: 0xfd :: _ => ((), "skip")
      | _ =>
        -- the allocation request is decided from the header alone: do not build 2^p registers to say so
        match bs with
        | _ :: _ :: _ :: _ :: p :: _ =>
          if p % 64 > 24 then ((), s!"alloc {p % 64}") else
          match hllParse bs with
          | (.ok r, _) => ((), s!"ok {r.ksize}")
          | (.error _, _) => ((), "err")
        | _ => ((), "err")
  | ["ng"] => ((), "err")
  | _ => ((), "bad-op")

end Sm.DriverNg
