/-
Executable model of the set-operation surface of sourmash above `KmerMinHash`
(C04): the Python operators / API methods that are not already in
`Model/MinHash.lean`, and the *cores* of the `sourmash sig` sub-commands
(src/sourmash/sig/__main__.py: merge, intersect, subtract, flatten, inflate,
filter, downsample) as pure functions over `MH`.

Conventions
* a loaded signature's `.minhash` is a `FrozenMinHash`; only the methods whose
  frozen variant differs in *content* are modelled separately
  (`frozenDownsample`, `toMutable`).
* Python `set` objects become lists: `set(a) & set(b)` is `a.filter (· ∈ b)`,
  `set(a) - set(b)` is `a.filter (· ∉ b)` (ascending, because `mh.hashes` is
  ascending).  Where the code then calls `add_many(<set>)` — iteration order
  unspecified — the model uses that ascending order; `Props/C04.lean` proves
  the order is irrelevant (`add_many_order_irrelevant`).
* `sys.exit(..)` after an `error(..)` message is `SErr.exit`; an exception
  that escapes the sub-command is `SErr.mh e` / `SErr.assertion`.
-/
import SmVerif.Model.MinHash

namespace Sm

namespace MH

/-- `disable_abundance()`: drops the abundance vector, keeps the hashes (no md5 reset) -/
def disableAbundance (s : MH) : MH := { s with abunds := none }

end MH

namespace Py

open MH

/-- `mh.track_abundance = False` (property setter): no-op when already flat -/
def setTrackFalse (s : MH) : MH :=
  if s.trackAbundance = false then s else s.disableAbundance

/-- `__iadd__` / `merge`: the same FFI call -/
def iadd (s o : MH) : Except Err MH := s.merge o

/-- `FrozenMinHash.downsample`: returns `self` when the requested value is the
    current one, otherwise `MinHash.downsample` -/
def frozenDownsample (s : MH) (num scaled : Option Nat) : Except Err MH :=
  let hitS := match scaled with
    | some sc => sc != 0 && scaledProp s == sc
    | none => false
  let hitN := match num with
    | some n => n != 0 && s.num == n
    | none => false
  if hitS then .ok s
  else if hitN then .ok s
  else downsample s num scaled

/-- `to_mutable()`: `MinHash.__copy__` for a mutable object, `__setstate__` of the
    `__getstate__` tuple for a frozen one -/
def toMutable (s : MH) (frozen : Bool) : Except Err MH :=
  if frozen then .ok (pickleRoundTrip s) else copy s

/-- `flatten()` with `self` returned for a flat sketch -/
def flattenD (s : MH) : Except Err MH :=
  match flatten s with
  | .ok (some r) => .ok r
  | .ok none => .ok s
  | .error e => .error e

end Py

/-! ### cores of the `sourmash sig` sub-commands -/

namespace Sig

open MH

inductive SErr where
  | exit                    -- error(...) ; sys.exit(..)
  | mh (e : MH.Err)         -- an exception of the MinHash layer escapes the sub-command
  | assertion               -- `assert` in `_set_num_scaled`
deriving DecidableEq, Repr

def lift {α : Type} : Except MH.Err α → Except SErr α
  | .ok a => .ok a
  | .error e => .error (.mh e)

/-- `mh.is_compatible(other)` -/
def isCompatible (s o : MH) : Bool :=
  match s.checkCompatible o with
  | .ok _ => true
  | .error _ => false

/-- the loop of `sig merge`: `_check_abundance_compatibility`, or with `--flatten`
    `sigobj_mh = sigobj_mh.flatten()`; then `mh.merge(sigobj_mh)`; every `TypeError`/`ValueError`
    becomes `sys.exit(-1)` -/
def mergeLoop (first : MH) (flatten : Bool) : MH → List MH → Except SErr MH
  | acc, [] => .ok acc
  | acc, s :: rest =>
    if !flatten ∧ first.trackAbundance ≠ s.trackAbundance then .error .exit
    else
      match (if flatten then Py.flattenD s else .ok s) with
      | .error _ => .error .exit
      | .ok s' =>
        match acc.merge s' with
        | .ok r => mergeLoop first flatten r rest
        | .error _ => .error .exit

/-- `sourmash sig merge [--flatten] sigs...` -/
def sigMerge (flatten : Bool) (sigs : List MH) : Except SErr MH :=
  match sigs with
  | [] => .error .exit
  | first :: _ =>
    match Py.copyAndClear first with
    | .error e => .error (.mh e)
    | .ok mh0 =>
      mergeLoop first flatten (if flatten then Py.setTrackFalse mh0 else mh0) sigs

/-- `mins.intersection_update(sigobj.minhash.hashes)` -/
def interUpdate (mins : List Nat) (o : MH) : List Nat := mins.filter (fun h => o.mins.contains h)

/-- `subtract_mins -= set(sigobj.minhash.hashes)` -/
def diffUpdate (mins : List Nat) (o : MH) : List Nat := mins.filter (fun h => !o.mins.contains h)

/-- the loop of `sig intersect` over the signatures after the first -/
def interLoop (first : MH) : List Nat → List MH → Except SErr (List Nat)
  | mins, [] => .ok mins
  | mins, o :: rest =>
    if !isCompatible o first then .error .exit
    else interLoop first (interUpdate mins o) rest

/-- `first_sig.minhash.copy_and_clear().flatten()` then `add_many(mins)` and the optional
    `inflate(abund_sig.minhash)` shared by `sig intersect` and `sig subtract` -/
def rebuild (first : MH) (mins : List Nat) (abundFrom : Option MH) : Except SErr MH :=
  match Py.copyAndClear first with
  | .error e => .error (.mh e)
  | .ok c =>
    match Py.flattenD c with
    | .error e => .error (.mh e)
    | .ok f =>
      let r := f.addMany mins
      match abundFrom with
      | none => .ok r
      | some ab =>
        if !ab.trackAbundance then .error .exit
        else lift (Py.inflate r ab)

/-- `sourmash sig intersect [-A abund] sigs...`; the first signature is intersected with
    itself as well (as in the code) -/
def sigIntersect (sigs : List MH) (abundFrom : Option MH) : Except SErr MH :=
  match sigs with
  | [] => .error .exit
  | first :: rest =>
    match interLoop first (interUpdate first.mins first) rest with
    | .error e => .error e
    | .ok mins => rebuild first mins abundFrom

/-- the loop of `sig subtract` over the subtraction signatures -/
def subLoop (frm : MH) (flatten : Bool) : List Nat → List MH → Except SErr (List Nat)
  | mins, [] => .ok mins
  | mins, o :: rest =>
    if !isCompatible o frm then .error .exit
    else if o.trackAbundance ∧ !flatten then .error .exit
    else subLoop frm flatten (diffUpdate mins o) rest

/-- `sourmash sig subtract [--flatten] [-A abund] from others...` -/
def sigSubtract (frm : MH) (others : List MH) (flatten : Bool) (abundFrom : Option MH) :
    Except SErr MH :=
  let flatten := flatten || abundFrom.isSome
  if frm.trackAbundance ∧ !flatten then .error .exit
  else
    match subLoop frm flatten frm.mins others with
    | .error e => .error e
    | .ok mins =>
      if others.isEmpty then .error .exit
      else rebuild frm mins abundFrom

/-- `sourmash sig flatten`: `ss.minhash.flatten()` (frozen variant: same content) -/
def sigFlatten (s : MH) : Except SErr MH := lift (Py.flattenD s)

/-- the abundance selection of `sig filter`; which comparison operators the source uses is
    read from it by the translator (`Gen.sigFilterMinStrict`, `Gen.sigFilterMaxStrict`) -/
def keepAbund (min : Nat) (max : Option Nat) (v : Nat) : Bool :=
  (if Gen.sigFilterMinStrict then decide (v > min) else decide (v ≥ min)) && (match max with
    | none => true
    | some m => if Gen.sigFilterMaxStrict then decide (v < m) else decide (v ≤ m))

/-- `sourmash sig filter -m min [-M max]` on one signature; `none` = skipped
    ("track_abundance not set") -/
def sigFilter (s : MH) (min : Nat) (max : Option Nat) : Except SErr (Option MH) :=
  if !s.trackAbundance then .ok none
  else
    let abunds2 := s.pairs.filter (fun p => keepAbund min max p.2)
    match Py.copyAndClear s with
    | .error e => .error (.mh e)
    | .ok c =>
      match Py.setAbundances c abunds2 true with
      | .error e => .error (.mh e)
      | .ok r => .ok (some r)

/-- `sourmash sig inflate from others...`: one output per other signature -/
def sigInflate (frm : MH) (others : List MH) : Except SErr (List MH) :=
  if !frm.trackAbundance then .error .exit
  else
    match others.mapM (fun o => lift (Py.inflate o frm)) with
    | .error e => .error e
    | .ok rs => if rs.isEmpty then .error .exit else .ok rs

/-- `_set_num_scaled(mh, num, scaled)`: rebuild through `__getstate__`/`__setstate__` with
    the num and max_hash fields replaced, then the two assertions -/
def setNumScaled (s : MH) (num scaled : Nat) : Except SErr MH :=
  let r := Py.setState num s.ksize s.hf s.seed s.trackAbundance (mhP scaled) s.pairs
  if r.num = num ∧ Py.scaledProp r = scaled then .ok r else .error .assertion

/-- `sourmash sig downsample (--scaled S | --num N)` on one signature -/
def sigDownsample (s : MH) (num scaled : Nat) : Except SErr MH :=
  if num = 0 ∧ scaled = 0 then .error .exit
  else if num ≠ 0 ∧ scaled ≠ 0 then .error .exit
  else if scaled ≠ 0 then
    if Py.scaledProp s ≠ 0 then lift (Py.frozenDownsample s none (some scaled))
    else
      -- num -> scaled: `max(mins) < max_hash` refuses (`max()` of nothing is a ValueError too)
      if s.mins.isEmpty then .error (.mh .pyValue)
      else if lastOr s.mins 0 < mhP scaled then .error (.mh .pyValue)
      else setNumScaled s 0 scaled
  else
    if s.num ≠ 0 then lift (Py.frozenDownsample s (some num) none)
    else
      -- scaled -> num
      if s.mins.length < num then .error (.mh .pyValue)
      else setNumScaled s num 0

end Sig

end Sm
