/-
Driver for the `sketch` correspondence stream (C14): parameter strings through the model of
`_parse_params_str` / `_signatures_for_sketch_factory` / `ComputeParameters` / `build_template` /
`signature_first_mh`.  Parameter strings travel hex-encoded (`-` = the empty string) because
they may contain blanks.
-/
import SmVerif.Model.SketchParams
import SmVerif.Model.SketchFeed
import SmVerif.Model.SketchNames
import SmVerif.Model.SketchFromfile
import SmVerif.Model.SketchCompute
import SmVerif.Model.Proto

namespace Sm.DriverSketch

open Sm.Proto Sm.Sketch

def hexVal (c : Char) : Option Nat :=
  if '0' ≤ c ∧ c ≤ '9' then some (c.toNat - '0'.toNat)
  else if 'a' ≤ c ∧ c ≤ 'f' then some (c.toNat - 'a'.toNat + 10)
  else none

def unhex : List Char → Option (List Char)
  | [] => some []
  | a :: b :: rest => do
    let x ← hexVal a
    let y ← hexVal b
    let r ← unhex rest
    pure (Char.ofNat (x * 16 + y) :: r)
  | _ => none

def decode (tok : String) : Option (List Char) :=
  if tok = "-" then some [] else unhex tok.toList

def mol? (s : String) : Option (Option Mol) :=
  if s = "-" then some none else (molOfName s).map some

def showInt (i : Int) : String := if i < 0 then "-" ++ toString i.natAbs else toString i.toNat

def showOpt {α} (f : α → String) : Option α → String
  | some a => f a
  | none => "-"

/-- a sketch of a fresh signature as the JSON writer (`Serialize` of the tree-backed sketch) and
    reader (`Deserialize` of the array-backed one) show it -/
def showSketch (b : BT) : String :=
  let v := MH.deserialize b.serialize.2
  s!"{v.ksize}:{v.hf}:{v.num}:{v.maxHash}:{v.seed}:{b2s v.trackAbundance}"

def showMH (b : MH) : String :=
  s!"{b.ksize}:{b.hf}:{b.num}:{b.maxHash}:{b.seed}:{b2s b.trackAbundance}"

def showSig (sig : List BT) : String := "|".intercalate (sig.map showSketch)


/-! ### `feed`: records through C02's `SeqToHashes` model (Murmur3) into the factory's tree-backed
sketches and into directly created array-backed ones; the harness replaces `MD5{..}` / `BODY{..}`
by the digests the adapter prints -/

def unhexBytes (tok : String) : Option (List Nat) := (decode tok).map (fun cs => cs.map Char.toNat)

def input? (s : String) : Option Input :=
  if s = "dna" then some .dna else if s = "protein" then some .protein else none

def hfOfCode (c : Nat) : Seq.HashFn :=
  if c = 2 then .protein else if c = 3 then .dayhoff else if c = 4 then .hp else .dna

/-- `P <hex>.. D <spec>.. S <hexseq>..` -/
def splitFeed (ws : List String) : Option (List (List Char) × List String × List (List Nat)) :=
  match ws with
  | "P" :: r =>
    let ps := r.takeWhile (· ≠ "D")
    match r.dropWhile (· ≠ "D") with
    | "D" :: r2 =>
      let specs := r2.takeWhile (· ≠ "S")
      match r2.dropWhile (· ≠ "S") with
      | "S" :: r3 =>
        match ps.mapM decode, r3.mapM unhexBytes with
        | some ps, some seqs => some (ps, specs, seqs)
        | _, _ => none
      | _ => none
    | _ => none
  | _ => none

def bodyOf (mins : List Nat) (abunds : Option (List Nat)) : String :=
  match abunds with
  | some ab => ",".intercalate ((mins.zip ab).map (fun p => s!"{p.1}={p.2}"))
  | none => joinNats mins

def contentRec (v : MH) (d : Digest) : String :=
  s!"{showMH v}:{v.mins.length}:MD5\{{d.ksize};{joinNats d.mins}}:BODY\{{bodyOf v.mins v.abunds}}"

def stopErr (s : Seq.Stop) : Option String :=
  match s with
  | .done => none
  | .err e => some (match Seq.Py.ofErr e with
      | .valueError => "ValueError" | .assertionError => "AssertionError" | .panic => "Panic")
  | .fuel => some "Panic"

/-- `MinHash(n=, ksize=, is_protein=, dayhoff=, hp=, track_abundance=, seed=, scaled=)` from `k:mol:num:scaled:track:seed` -/
def directOf (spec : String) : Option (Except MH.Err MH) :=
  match spec.splitOn ":" with
  | [k, mol, num, scaled, track, seed] =>
    match nat? k, molOfName mol, nat? num, nat? scaled, bool? track, nat? seed with
    | some k, some m, some num, some scaled, some track, some seed =>
      some (Py.mkMinHash num (if m = .dna then k else k * 3) m.hf seed track 0 scaled)
    | _, _, _, _, _, _ => none
  | _ => none

def feedLine (dm : Option Mol) (split : Bool) (input : Input) (force : Bool) (ps : List (List Char))
    (specs : List String) (seqs : List (List Nat)) : String :=
  let hashS := Murmur3.hashNat
  let fpart : String :=
    match factory ps dm split with
    | .error e => "err " ++ e.cls.name ++ " " ++ e.name
    | .ok sigs =>
      let fed := sigs.map (fun sg => sg.map (fun b => feedBT hashS b (hfOfCode b.hf) input force seqs))
      match (fed.flatten.filterMap (fun r => stopErr r.2)).head? with
      | some cls => "FERR " ++ cls
      | none =>
        let F := fed.flatten.map (fun r =>
          let (b', d) := r.1.md5sum
          contentRec (MH.deserialize b'.serialize.2) d)
        let M := fed.filterMap (fun sg => sg.head?.map (fun r =>
          let v := r.1.intoVec
          contentRec v v.md5sum.2))
        " ".intercalate F ++ " M " ++ " ".intercalate M
  let direct := specs.map directOf
  if direct.any Option.isNone then "bad-op" else
  let direct := direct.filterMap id
  let fedD := direct.map (fun x => match x with
    | .ok v => some (feedMH hashS v (hfOfCode v.hf) input force seqs)
    | .error _ => none)
  let dpart : String :=
    match (fedD.filterMap (fun r => r.bind (fun r => stopErr r.2))).head? with
    | some cls => " ".intercalate ((fedD.filter Option.isNone).map (fun _ => "Dexc:ValueError") ++ ["DERR:" ++ cls])
    | none => " ".intercalate (fedD.map (fun r => match r with
        | some r => contentRec r.1 r.1.md5sum.2
        | none => "Dexc:ValueError"))
  "feed F " ++ fpart ++ " D " ++ dpart


/-! ### `names`: grouping of records into signatures and their names (`Model/SketchNames.lean`) -/

def hexOfChars (cs : List Char) : String :=
  if cs.isEmpty then "-" else
  let hd (n : Nat) : Char := if n < 10 then Char.ofNat (48 + n) else Char.ofNat (87 + n)
  String.ofList (cs.flatMap (fun c => [hd (c.toNat / 16), hd (c.toNat % 16)]))

def nameMode? (s : String) : Option NameMode :=
  if s = "file" then some (.perFile false)
  else if s = "first" then some (.perFile true)
  else if s = "singleton" then some .singleton
  else match s.splitOn ":" with
    | ["merge", nm] => (decode nm).map NameMode.merge
    | _ => none

/-- `F <fnamehex> <namehex>:<seqhex> ... F ...` -/
def parseFiles (ws : List String) : Option (List SeqFile) :=
  -- split at the `F` markers (right to left): (tokens since the last marker, groups so far)
  let (pre, groups) := ws.foldr (fun w (acc : List String × List (List String)) =>
    if w = "F" then ([], acc.1 :: acc.2) else (w :: acc.1, acc.2)) ([], [])
  if !pre.isEmpty then none else
  groups.mapM (fun g => match g with
    | fname :: recs =>
      match decode fname, recs.mapM (fun t => match t.splitOn ":" with
          | [n, q] => do pure ((← decode n), (← unhexBytes q))
          | _ => none) with
      | some fname, some recs => some ⟨fname, recs⟩
      | _, _ => none
    | [] => none)

def leChars : List Char → List Char → Bool
  | [], _ => true
  | _ :: _, [] => false
  | a :: as, b :: bs => if a.toNat < b.toNat then true else if b.toNat < a.toNat then false else leChars as bs

/-- stable insertion sort by output path -/
def sortByPath (l : List (List Char × String)) : List (List Char × String) :=
  l.foldr (fun x acc =>
    let rec ins : List (List Char × String) → List (List Char × String)
      | [] => [x]
      | y :: ys => if leChars x.1 y.1 then x :: y :: ys else y :: ins ys
    ins acc) []

structure NameOpts where
  out : OutMode := .single
  rand : Bool := false
  check : Bool := false
  /-- `--license` naming anything but CC0: refused before any input is read -/
  lic : Bool := false
  /-- the output file of the FIRST listed input exists before the command runs -/
  pre : Bool := false
  /-- `--force` -/
  force : Bool := false

/-- the inputs `_compute_individual` still sketches (`+pre`: the first listed one already has its output) -/
def remaining (mode : NameMode) (opts : NameOpts) (files : List SeqFile) : List SeqFile :=
  match files with
  | [] => []
  | f0 :: _ =>
    -- a missing output directory cannot hold an output yet
    let pre := opts.pre && (match opts.out with | .dir false => false | _ => true)
    skipExisting mode opts.out opts.force (fun f => pre && f.name = f0.name) files

def nameOpts (flags : List String) : Option NameOpts :=
  flags.foldlM (fun (o : NameOpts) f =>
    if f = "dir" then some { o with out := .dir true }
    else if f = "newdir" then some { o with out := .dir false }
    else if f = "cwd" then some { o with out := .cwd }
    else if f = "rand" then some { o with rand := true }
    else if f = "check" then some { o with check := true }
    else if f = "lic" then some { o with lic := true }
    else if f = "pre" then some { o with pre := true }
    else if f = "force" then some { o with force := true }
    else if f = "fromfile" then some o            -- `--from-file LIST`: the same inputs, named in a file
    else none) {}

def namesLine (mode : NameMode) (opts : NameOpts) (k : Nat) (files : List SeqFile) : String :=
  let p : CP := { ksizes := [k], seed := 42, protein := false, dayhoff := false, hp := false, dna := true,
                  num := 0, track := false, scaled := 1 }
  if opts.lic then "err SystemExit" else
  let files := remaining mode opts files
  match planOutputs mode opts.out files with
  | .error .exit => "err SystemExit"
  | .error .noDir =>
    -- the missing directory is noticed when the first input that has records is closed; an invalid
    -- record in that input (with --check-sequence) ends the command before that
    match files.find? (fun f => !f.records.isEmpty) with
    | some f =>
      let r := feedBT Murmur3.hashNat (template p k .dna) .dna .dna (!opts.check) (f.records.map Prod.snd)
      if r.2 != Seq.Stop.done then "err SystemExit" else "err FileNotFoundError"
    | none => "err FileNotFoundError"
  | .ok outs =>
    let p : CP := { ksizes := [k], seed := 42, protein := false, dayhoff := false, hp := false, dna := true,
                    num := 0, track := false, scaled := 1 }
    let fed := outs.map (fun pu =>
      (pu, feedBT Murmur3.hashNat (template p k .dna) .dna .dna (!opts.check) pu.2.records))
    -- `_compute_individual` catches the ValueError of an invalid record and exits; `_compute_merged` does not
    if fed.any (fun r => r.2.2 != Seq.Stop.done) then
      (match mode with | .merge _ => "err ValueError" | _ => "err SystemExit") else
    let recs := fed.map (fun r =>
      let u := r.1.2
      let d := r.2.1.md5sum.2
      (r.1.1, s!"{hexOfChars r.1.1}|{hexOfChars (u.name.getD [])}|{hexOfChars u.filename}|MD5\{{d.ksize};{joinNats d.mins}}"))
    -- `--randomize` is accepted by the sketch subcommands and ignored by `_execute_sketch`
    "ok " ++ ";".intercalate ((sortByPath recs).map Prod.snd)

/-! ### `native`: the Rust path (ComputeParameters builder -> Signature::from_params -> add_sequence /
add_protein) through rust-harness module `sketch`; each sketch as it is and as `signature_first_mh`
converts it -/

def nativeLine (p : CP) (input : Input) (force : Bool) (seqs : List (List Nat)) : String :=
  let fed := (buildTemplate p).map (fun b => feedBT Murmur3.hashNat b (hfOfCode b.hf) input force seqs)
  if fed.any (fun r => r.2 != Seq.Stop.done) then "err" else
  let one (b : BT) : String :=
    let (b1, d) := b.md5sum
    let ab := match b1.abunds with
      | some m => joinNats (m.map Prod.snd)
      | none => "-"
    let v := b1.intoVec
    let abv := match v.abunds with
      | some a => joinNats a
      | none => "-"
    let dv := v.md5sum.2
    s!"{b.ksize}:{b.hf}:{b.num}:{b.maxHash}:{b.seed}:{b2s b.trackAbundance}:MD5\{{d.ksize};{joinNats d.mins}}:{joinNats b.mins}:{ab}/{v.num}:{v.maxHash}:MD5\{{dv.ksize};{joinNats dv.mins}}:{joinNats v.mins}:{abv}"
  "ok " ++ "|".intercalate (fed.map (fun r => one r.1))

/-! ### `sk` / `cmp`: the command line (`sourmash.__main__.main`) of `sketch dna|protein|translate` and of the
deprecated `compute`: every sketch of every signature written, with the file it landed in -/

/-- sketch every unit with every signature of the factory; `Signature::add_sequence` feeds the sketches
    of a signature in order and the first error ends the command -/
def cliLine (mode : NameMode) (opts : NameOpts) (sigs : List (List BT)) (isProt : Bool) (files : List SeqFile)
    (mergedErr : String) : String :=
  if opts.lic then "err SystemExit" else
  let files := remaining mode opts files
  match planOutputs mode opts.out files with
  | .error .exit => "err SystemExit"
  | .error .noDir =>
    match files.find? (fun f => !f.records.isEmpty) with
    | some f =>
      let bad := sigs.flatten.any (fun b =>
        (feedBT Murmur3.hashNat b (hfOfCode b.hf) (if isProt then .protein else .dna) (!opts.check)
          (f.records.map Prod.snd)).2 != Seq.Stop.done)
      if bad then "err SystemExit" else "err FileNotFoundError"
    | none => "err FileNotFoundError"
  | .ok outs =>
    let fed := outs.map (fun pu => (pu, sigs.flatten.map (fun b =>
      feedBT Murmur3.hashNat b (hfOfCode b.hf) (if isProt then .protein else .dna) (!opts.check) pu.2.records)))
    if fed.any (fun r => r.2.any (fun x => x.2 != Seq.Stop.done)) then
      (match mode with | .merge _ => mergedErr | _ => "err SystemExit") else
    let recs := fed.flatMap (fun r => r.2.map (fun x =>
      let u := r.1.2
      let d := x.1.md5sum.2
      (r.1.1, s!"{hexOfChars r.1.1}|{hexOfChars (u.name.getD [])}|{hexOfChars u.filename}|{showSketch x.1}|MD5\{{d.ksize};{joinNats d.mins}}")))
    "ok " ++ ";".intercalate ((sortByPath recs).map Prod.snd)

def scaledArg? (t : String) : Option ScaledArg :=
  if t = "lt1" then some .below1 else if t = "frac" then some .fraction else (nat? t).map ScaledArg.int

/-! ### `fromfile` (`Model/SketchFromfile.lean`) -/

def ffRow? (t : String) : Option FFRow :=
  match t.splitOn ":" with
  | [n, g, p] => do pure ⟨← decode n, ← decode g, ← decode p⟩
  | _ => none

def doneRow? (t : String) : Option DoneRow :=
  match t.splitOn ":" with
  | [n, mol, k, num, scaled, ab] => do
    pure ⟨← decode n, ← molOfName mol, ← nat? k, ← nat? num, ← nat? scaled, ← bool? ab⟩
  | _ => none

def molOfCP (p : CP) : Mol := if p.dna then .dna else if p.protein then .protein else if p.dayhoff then .dayhoff else .hp

/-- `_compute_sigs`, unit after unit; the first problem ends the command -/
def fromfileUnits (files : List SeqFile) : List (FFKey × List CP) → List String → String
  | [], acc => "ok " ++ ";".intercalate acc
  | ((name, fname), ps) :: rest, acc =>
    match files.find? (fun f => f.name = fname) with
    | none => "err FileNotFound"
    | some f =>
      if f.records.isEmpty then "exit -1" else
      match unitInputIsProtein ps with
      | .error _ => "err AssertionError"
      | .ok isProt =>
        let recs := f.records.map Prod.snd
        let one (p : CP) : String :=
          let k := p.ksizes.headD 0
          let b := (feedBT Murmur3.hashNat (template p k (molOfCP p)) (molOfCP p).toHashFn
                      (if isProt then .protein else .dna) true recs).1
          let d := b.md5sum.2
          s!"{hexOfChars name}|{hexOfChars (recordedFilename fname)}|{showSketch b}|MD5\{{d.ksize};{joinNats d.mins}}"
        fromfileUnits files rest (acc ++ ps.map one)

def fromfileLine (ign : Bool) (ps : List (List Char)) (files : List SeqFile) (rows : List FFRow)
    (done : List DoneRow) : String :=
  match factoryInit ps none with
  | .error _ => "exit -1"
  | .ok pl =>
    match mapM' (computeParamsOf true) pl with
    | .error e => "err " ++ e.cls.name
    | .ok cps =>
      match fromfilePlan cps.flatten rows done ign with
      | .error .nothing => "exit 0"
      | .error _ => "exit -1"
      | .ok tb => fromfileUnits files tb []

def fromfileOp (ign : String) (rest : List String) : Option String :=
  let isMark (t : String) : Bool := t = "F" || t = "R" || t = "A"
  let ps := rest.takeWhile (fun t => !isMark t)
  let r1 := rest.dropWhile (fun t => !isMark t)
  let fileToks := r1.takeWhile (· ≠ "R")
  match r1.dropWhile (· ≠ "R") with
  | "R" :: r2 =>
    let rowToks := r2.takeWhile (· ≠ "A")
    match r2.dropWhile (· ≠ "A") with
    | "A" :: doneToks =>
      match bool? ign, ps.mapM decode, parseFiles fileToks, rowToks.mapM ffRow?, doneToks.mapM doneRow? with
      | some ign, some ps, some files, some rows, some done => some (fromfileLine ign ps files rows done)
      | _, _, _, _, _ => none
    | _ => none
  | _ => none

def step (st : Unit) (line : String) : Unit × String :=
  let bad := (st, "bad-op")
  match words line with
  | "#" :: _ => (st, "#")
  | ["parse", h] =>
    match decode h with
    | some s =>
      match parseParamsStr s with
      | .ok (mt, p) =>
        let ks := ",".intercalate (p.ksize.map showInt)
        (st, s!"ok mt={showOpt Mol.name mt} k={ks} num={showOpt toString p.num} scaled={showOpt toString p.scaled} seed={showOpt showInt p.seed} tr={showOpt b2s p.track}")
      | .error e => (st, "err " ++ e.cls.name ++ " " ++ e.name)
    | none => bad
  | "factory" :: dm :: split :: hs =>
    match mol? dm, bool? split, hs.mapM decode with
    | some dm, some split, some ps =>
      match factory ps dm split with
      | .ok sigs => (st, "ok " ++ ";".intercalate (sigs.map showSig))
      | .error e => (st, "err " ++ e.cls.name ++ " " ++ e.name)
    | _, _, _ => bad
  | "first" :: dm :: split :: hs =>
    match mol? dm, bool? split, hs.mapM decode with
    | some dm, some split, some ps =>
      match factory ps dm split with
      | .ok sigs => (st, "ok " ++ ";".intercalate (sigs.map (fun sg => showOpt showMH (firstMh sg))))
      | .error e => (st, "err " ++ e.cls.name ++ " " ++ e.name)
    | _, _, _ => bad
  | "feed" :: dm :: split :: kind :: force :: rest =>
    match mol? dm, bool? split, input? kind, bool? force, splitFeed rest with
    | some dm, some split, some input, some force, some (ps, specs, seqs) => (st, feedLine dm split input force ps specs seqs)
    | _, _, _, _, _ => bad
  | "names" :: mode :: k :: rest =>
    match mode.splitOn "+" with
    | m :: flags =>
      match nameMode? m, nameOpts flags, nat? k, parseFiles rest with
      | some mode, some opts, some k, some files => (st, namesLine mode opts k files)
      | _, _, _, _ => bad
    | [] => bad
  | "fromfilecli" :: ign :: "P" :: rest => (st, (fromfileOp ign rest).getD "bad-op")
  | "fromfile" :: ign :: "P" :: rest => (st, (fromfileOp ign rest).getD "bad-op")
  | "sk" :: sub :: dm :: mode :: "P" :: rest =>
    -- sk <dna|protein|translate> <defmol> <mode+flags> P <hexp>.. F <files>..
    let ps := rest.takeWhile (· ≠ "F")
    match mol? dm, mode.splitOn "+", ps.mapM decode, parseFiles (rest.dropWhile (· ≠ "F")) with
    | some (some dm), m :: flags, some ps, some files =>
      match nameMode? m, nameOpts flags with
      | some nm, some opts =>
        match factory ps (some dm) false with
        | .error e =>
          -- a ValueError while creating the factory is reported and the command exits; anything else escapes
          (st, if e.cls = .value then "err SystemExit" else "err " ++ e.cls.name)
        -- `aa` / `prot` are `sketch protein`, `rna` / `nucleotide` / `nt` are `sketch dna` (declared aliases)
        | .ok sigs => (st, cliLine nm opts sigs (sub = "protein" || sub = "aa" || sub = "prot") files "err ValueError")
      | _, _ => bad
    | _, _, _, _ => bad
  | "cmp" :: ks :: dna :: pr :: dy :: hp :: num :: sc :: tr :: seed :: inprot :: mode :: rest =>
    match (ks.splitOn ",").mapM nat?, [dna, pr, dy, hp, tr, inprot].mapM bool?, nats? [num, seed], scaledArg? sc,
          mode.splitOn "+", parseFiles rest with
    | some ks, some [dna, pr, dy, hp, tr, inprot], some [num, seed], some sc, m :: flags, some files =>
      match nameMode? m, nameOpts flags with
      | some nm, some opts =>
        let hasO : Bool := match opts.out with | .single => true | _ => false
        let hasD : Bool := match opts.out with | .dir _ => true | _ => false
        let isM : Bool := match nm with | .merge _ => true | _ => false
        let a : ComputeArgs :=
          { ksizes := ks
            dna := dna
            protein := pr
            dayhoff := dy
            hp := hp
            numHashes := num
            scaled := sc
            track := tr
            seed := seed
            inputIsProtein := inprot
            hasOutput := hasO
            hasOutputDir := hasD
            merge := isM
            licenseCC0 := !opts.lic }
        match computeParams a with
        | .error _ => (st, "err SystemExit")
        | .ok c => (st, cliLine nm opts [buildTemplate c] inprot files "err ValueError")
      | _, _ => bad
    | _, _, _, _, _, _ => bad
  -- implementation-only op (SourmashSignature.__eq__ on tree-backed / array-backed signatures): the oracle decides
  | "sigeq" :: _ => (st, "skip")
  | ["setname", fname, name] =>
    match decode fname, (if name = "none" then some none else (decode name).map some) with
    | some fname, some name => (st, s!"ok {hexOfChars (name.getD [])}|{hexOfChars (recordedFilename fname)}")
    | _, _ => bad
  | "native" :: ks :: seed :: pr :: dy :: hp :: dna :: num :: tr :: scaled :: inp :: force :: "S" :: seqs =>
    match (ks.splitOn ",").mapM nat?, nats? [seed, num, scaled], [pr, dy, hp, dna, tr, force].mapM bool?,
          (if inp = "d" then some Input.dna else if inp = "p" then some Input.protein else none),
          seqs.mapM unhexBytes with
    | some ks, some [seed, num, scaled], some [pr, dy, hp, dna, tr, force], some input, some seqs =>
      if ks.any (· ≥ 2 ^ 32) ∨ num ≥ 2 ^ 32 ∨ seed ≥ 2 ^ 64 ∨ scaled ≥ 2 ^ 64 then bad else
      let p : CP := { ksizes := ks, seed := seed, protein := pr, dayhoff := dy, hp := hp, dna := dna,
                      num := num, track := tr, scaled := scaled }
      (st, nativeLine p input force seqs)
    | _, _, _, _, _ => bad
  | ["cp", ks, seed, pr, dy, hp, dna, num, tr, scaled] =>
    match (ks.splitOn ",").mapM nat?, nats? [seed, num, scaled], [pr, dy, hp, dna, tr].mapM bool? with
    | some ks, some [seed, num, scaled], some [pr, dy, hp, dna, tr] =>
      let p : CP := { ksizes := ks, seed := seed, protein := pr, dayhoff := dy, hp := hp, dna := dna,
                      num := num, track := tr, scaled := scaled }
      (st, "ok " ++ showSig (buildTemplate p))
    | _, _, _ => bad
  | _ => bad

end Sm.DriverSketch
