/-
Driver for the `sketch` correspondence stream (C14): parameter strings through the model of
`_parse_params_str` / `_signatures_for_sketch_factory` / `ComputeParameters` / `build_template` /
`signature_first_mh`.  Parameter strings travel hex-encoded (`-` = the empty string) because
they may contain blanks.
-/
import SmVerif.Model.SketchParams
import SmVerif.Model.Proto

namespace Sm.DriverSketch

open Sm.Proto Sm.Sketch

def hexVal (c : Char) : Option Nat :=
  if '0' ≤ c ∧ c ≤ '9' then some (c.toNat - '0'.toNat)
  else if 'a' ≤ c ∧ c ≤ 'f' then some (c.toNat - 'a'.toNat + 10)
  else none

def unhex : List Char → Option (List Char)
  | [] => some []
  | a :: b :: rest => do
    let x ← hexVal a
    let y ← hexVal b
    let r ← unhex rest
    pure (Char.ofNat (x * 16 + y) :: r)
  | _ => none

def decode (tok : String) : Option (List Char) :=
  if tok = "-" then some [] else unhex tok.toList

def mol? (s : String) : Option (Option Mol) :=
  if s = "-" then some none else (molOfName s).map some

def showInt (i : Int) : String := if i < 0 then "-" ++ toString i.natAbs else toString i.toNat

def showOpt {α} (f : α → String) : Option α → String
  | some a => f a
  | none => "-"

/-- a sketch of a fresh signature as the JSON writer (`Serialize` of the tree-backed sketch) and
    reader (`Deserialize` of the array-backed one) show it -/
def showSketch (b : BT) : String :=
  let v := MH.deserialize b.serialize.2
  s!"{v.ksize}:{v.hf}:{v.num}:{v.maxHash}:{v.seed}:{b2s v.trackAbundance}"

def showMH (b : MH) : String :=
  s!"{b.ksize}:{b.hf}:{b.num}:{b.maxHash}:{b.seed}:{b2s b.trackAbundance}"

def showSig (sig : List BT) : String := "|".intercalate (sig.map showSketch)

def step (st : Unit) (line : String) : Unit × String :=
  let bad := (st, "bad-op")
  match words line with
  | "#" :: _ => (st, "#")
  | ["parse", h] =>
    match decode h with
    | some s =>
      match parseParamsStr s with
      | .ok (mt, p) =>
        let ks := ",".intercalate (p.ksize.map showInt)
        (st, s!"ok mt={showOpt Mol.name mt} k={ks} num={showOpt toString p.num} scaled={showOpt toString p.scaled} seed={showOpt showInt p.seed} tr={showOpt b2s p.track}")
      | .error e => (st, "err " ++ e.name)
    | none => bad
  | "factory" :: dm :: split :: hs =>
    match mol? dm, bool? split, hs.mapM decode with
    | some dm, some split, some ps =>
      match factory ps dm split with
      | .ok sigs => (st, "ok " ++ ";".intercalate (sigs.map showSig))
      | .error e => (st, "err " ++ e.name)
    | _, _, _ => bad
  | "first" :: dm :: split :: hs =>
    match mol? dm, bool? split, hs.mapM decode with
    | some dm, some split, some ps =>
      match factory ps dm split with
      | .ok sigs => (st, "ok " ++ ";".intercalate (sigs.map (fun sg => showOpt showMH (firstMh sg))))
      | .error e => (st, "err " ++ e.name)
    | _, _, _ => bad
  | "feed" :: _ => (st, "feed")
  | ["cp", ks, seed, pr, dy, hp, dna, num, tr, scaled] =>
    match (ks.splitOn ",").mapM nat?, nats? [seed, num, scaled], [pr, dy, hp, dna, tr].mapM bool? with
    | some ks, some [seed, num, scaled], some [pr, dy, hp, dna, tr] =>
      let p : CP := { ksizes := ks, seed := seed, protein := pr, dayhoff := dy, hp := hp, dna := dna,
                      num := num, track := tr, scaled := scaled }
      (st, "ok " ++ showSig (buildTemplate p))
    | _, _, _ => bad
  | _ => bad

end Sm.DriverSketch
