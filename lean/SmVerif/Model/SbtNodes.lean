/-
C20: the lazy loaders of an SBT's node and leaf files (`Node.data`, `Leaf.data` in src/sourmash/sbt.py,
`SigLeaf.data` in src/sourmash/sbtmh.py) and what a search does with their answer.

The index description (`.sbt.json`) only NAMES the files; the bytes are fetched on first use through
`storage.load(path)`.  What matters for "a damaged collection gives an error, never a silently wrong
answer": when the storage cannot produce the file the loader must let that failure out — an empty Bloom
filter in its place matches no query hash, `_find_nodes` prunes the whole subtree, and the signatures
below it silently drop out of every answer.  Which exception classes the loaders catch without re-raising
is re-read from the source by the translator (`Gen.c20NodeDataSwallows`, `Gen.c20LeafDataSwallows`).
-/
import SmVerif.Model.PyVal
import SmVerif.Model.Generated

namespace Sm.SbtN

open Sm.Py

/-- what `storage.load(path)` answers -/
inductive StorageRes where
  | bytes (parses : Bool)        -- the content; does `Nodegraph.from_buffer` / the signature parser accept it?
  | raises (c : Cls)
deriving Repr, DecidableEq

/-- what the node holds afterwards -/
inductive NodeData where
  | saved                        -- the filter that was saved
  | fresh                        -- a new, EMPTY filter from the factory
deriving Repr, DecidableEq

/-- `ZipStorage.load`: a native failure that the ffi layer maps to ValueError (entry not found, unreadable entry)
    comes out as `Gen.c20ZipLoadValueErrorBecomes` (FileNotFoundError); other native failures as they are -/
def zipLoad (native : Option Cls) (parses : Bool) : StorageRes :=
  match native with
  | none => .bytes parses
  | some c => if c.isValueError then .raises ((Cls.ofName Gen.c20ZipLoadValueErrorBecomes).getD .Other) else .raises c

/-- `Node.data` for a node that has a path, for a given list of swallowed classes -/
def nodeDataV (swallows : List Cls) (r : StorageRes) (parseError : Cls) : R NodeData :=
  match r with
  | .raises c => if swallows.contains c then pure .fresh else raise c
  | .bytes true => pure .saved
  | .bytes false => raise parseError

def nodeSwallows : List Cls := Gen.c20NodeDataSwallows.filterMap Cls.ofName
def leafSwallows : List Cls := Gen.c20LeafDataSwallows.filterMap Cls.ofName

/-- `Node.data` as the current source has it -/
def nodeData (r : StorageRes) (parseError : Cls) : R NodeData := nodeDataV nodeSwallows r parseError

/-- one step of `_find_nodes` at an internal node: descend iff the node's filter holds enough of the query.
    `hits` = would the SAVED filter let the query through?  An empty filter lets nothing through. -/
def descendV (swallows : List Cls) (r : StorageRes) (parseError : Cls) (hits : Bool) : R Bool := do
  let d ← nodeDataV swallows r parseError
  match d with
  | .saved => pure hits
  | .fresh => pure false

end Sm.SbtN
