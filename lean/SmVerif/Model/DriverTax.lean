/-
Driver for the `tax` correspondence stream (C19): a taxonomy, one gather result
(the rows gather itself produced), and the summarisation / classification / writer
operations of `sourmash tax metagenome|genome`.
-/
import SmVerif.Model.Tax
import SmVerif.Model.Proto

namespace Sm.DriverTax

open Sm.Proto Sm.Tax Sm.F64

structure St where
  mode : String := "std"
  nranks : Nat := 8
  keepFull : Bool := false
  keepVer : Bool := false
  force : Bool := false
  failMissing : Bool := false
  tax : List TaxRow := []
  N : Nat := 0
  W : Nat := 0
  scaled : Nat := 1
  rows : List (Nat × Nat × String) := []
  scn : Bool := false
  /-- earlier queries of a multi-query run: (N, W, scaled, rows) -/
  done : List (Nat × Nat × Nat × List (Nat × Nat × String)) := []
  /-- one live `QueryTaxResult` (after `build_summarized_result`) the `s…` writer ops share; the W·scaled it belongs to -/
  sess : Option (List (List (Entry SF String)) × Nat) := none
  /-- the same object's summarisation state: number of ranks, its rows, `summarized_ranks` (none = never summarized) -/
  sobj : Option (Nat × List (RowV SF String) × Option (List Nat)) := none
  /-- how the rows of the queries are delivered: files, each a sequence of (query, row) references; `none` = one CSV per
  query, rows in gather's order -/
  layout : Option (List (List (Nat × Nat))) := none
  /-- gather CSV columns removed before loading: an essential one / `total_weighted_hashes` -/
  dropEss : Bool := false
  dropTotW : Bool := false

def init : St := {}

/-- `~` stands for a space, a lone `-` for the empty string -/
def dec (s : String) : String := if s = "-" then "" else s.replace "~" " "
def enc (s : String) : String := if s = "" then "-" else s.replace " " "~"

def errName : Err → String
  | .gt100 => "ValueError:gt100"
  | .le0 => "ValueError:le0"
  | .rank => "ValueError:rank"
  | .noRanks => "ValueError:noranks"
  | .multi => "ValueError:multi"
  | .missing => "ValueError:missing"
  | .thr => "ValueError:thr"
  | .empty => "ValueError:empty"
  | .unbound => "UnboundLocalError"
  | .dupq => "ValueError:dupq"
  | .cols => "ValueError:cols"
  | .other => "ValueError:other"

abbrev R := RowV SF String

/-- taxonomy + gather rows -> (number of ranks, the `TaxResult`s) -/
def mkRows (st : St) : Except Err (Nat × List R) := do
  -- `LineageDB.load(lins=True)` leaves `ranks` unset when the file has a header and no row
  if st.mode = "lin" ∧ st.tax.isEmpty ∧ !Sm.Gen.taxLinRanksInit then throw .unbound
  let (nranks, tax) ←
    if st.mode = "lin" then loadLinLoop st.keepFull st.keepVer st.force st.tax none []
    else (loadTaxLoop st.keepFull st.keepVer st.force st.tax []).map (fun t => (st.nranks, t))
  if tax.isEmpty then throw .empty
  if st.rows.isEmpty then throw .empty
  if st.dropEss then throw .cols
  let rows : List R := st.rows.map (fun (k, w, name) =>
    ⟨SF.ofF (divNat k st.N), SF.ofF (divNat w st.W), k * st.scaled,
     matchLineage tax name st.keepFull st.keepVer⟩)
  if st.failMissing ∧ rows.any (fun r => r.lin.isEmpty) then throw .missing
  pure (nranks, rows)

def showEntry (e : Entry SF String) : String :=
  s!"{e.rank}|{enc (display e.lin)}|{e.f.toStr}|{e.fw.toStr}|{e.bp}"

def showEntries (es : List (Entry SF String)) : String :=
  " ".intercalate (es.map showEntry)

/-- krona / lineage_summary rows carry the lineage and the fraction only -/
def showFracs (es : List (Entry SF String)) : String :=
  " ".intercalate (es.map (fun e => s!"{enc (display e.lin)}|{e.f.toStr}"))

def statusName : Status → String
  | .nomatch => "nomatch"
  | .below => "below_threshold"
  | .match_ => "match"

def build (st : St) (single : Option Nat) : Except Err (List (List (Entry SF String))) := do
  let (nranks, rows) ← mkRows st
  buildSummarized f64 f64Repair (st.N * st.scaled) nranks rows single

/-- every query of the run: the finished ones, then the current one -/
def allQ (st : St) : List (Nat × Nat × Nat × List (Nat × Nat × String)) :=
  st.done ++ [(st.N, st.W, st.scaled, st.rows)]

def defaultLayout (st : St) : List (List (Nat × Nat)) :=
  (allQ st).zipIdx.map (fun (q, i) => (List.range q.2.2.2.length).map (fun r => (i, r)))

/-- `check_and_load_gather_csvs` on the files of the layout, then `build_summarized_result` per query: the queries in
the loader's order (first appearance), each with its number -/
def buildAllIdx (st : St) : Except Err (List (Nat × List (List (Entry SF String)))) := do
  -- the taxonomy is loaded (and may be refused) first
  let _ ← mkRows { st with rows := [(1, 1, "x")], N := 1, W := 1, failMissing := false, dropEss := false }
  let tax ←
    if st.mode = "lin" then (loadLinLoop st.keepFull st.keepVer st.force st.tax none []).map (·.2)
    else loadTaxLoop st.keepFull st.keepVer st.force st.tax []
  let qs := allQ st
  let files : List (List (Nat × (Nat × Nat × String))) :=
    (st.layout.getD (defaultLayout st)).map (fun f => f.filterMap (fun (qi, ri) =>
      (qs[qi]?).bind (fun q => (q.2.2.2[ri]?).map (fun row => (qi, row)))))
  -- an essential column missing: the first row of the first file is refused (a file without rows is refused as empty)
  if st.dropEss then
    match files with
    | [] => pure ()
    | f :: _ => if f.isEmpty then throw .empty else throw .cols
  let groups ← loadFiles st.failMissing
    (fun (row : Nat × Nat × String) => (matchLineage tax row.2.2 st.keepFull st.keepVer).isEmpty) files []
  groups.mapM (fun (qi, rows) =>
    match qs[qi]? with
    | some (n, w, sc, _) =>
      (build { st with N := n, W := w, scaled := sc, rows := rows, failMissing := false, dropEss := false } none).map
        (fun ess => (qi, ess))
    | none => .error .other)

def buildAll (st : St) : Except Err (List (List (List (Entry SF String)))) :=
  (buildAllIdx st).map (fun l => l.map Prod.snd)

def insertAggDesc (x : String × SF) : List (String × SF) → List (String × SF)
  | [] => [x]
  | y :: t => if SF.lt y.2 x.2 then x :: y :: t else y :: insertAggDesc x t

/-- `format_for_krona` on several queries: aggregate, sort by fraction (stable), unclassified last when non-zero -/
def multiKrona (r : Nat) (qs : List (List (List (Entry SF String)))) : Except Err (List (String × SF)) :=
  if qs.any (fun ess => !(ess.flatten.any (fun e => e.rank = r))) then .error .rank
  else
    let agg := aggregateAt f64 (fun x n => ⟨x.neg, F64.div x.a (ofNat n)⟩) display r (qs.map List.flatten)
    let sorted := agg.foldl (fun acc x => insertAggDesc x acc) []
    let un := sorted.filter (fun p => p.1 = "unclassified" && p.2.a.m ≠ 0)
    .ok (sorted.filter (fun p => p.1 ≠ "unclassified") ++ un)

def insertStr (x : String) : List String → List String
  | [] => [x]
  | y :: t => if x < y then x :: y :: t else y :: insertStr x t

/-- `aggregate_by_lineage_at_rank(by_query=True)` + `write_lineage_sample_frac`: one row per lineage (sorted by name,
unclassified last), one column per query, 0 where the query does not have the lineage -/
def multiLsum (r : Nat) (qs : List (List (List (Entry SF String)))) : Except Err (List (String × List SF)) :=
  if qs.any (fun ess => !(ess.flatten.any (fun e => e.rank = r))) then .error .rank
  else
    let per := qs.map (fun ess => (ess.flatten.filter (fun e => e.rank = r)).map (fun e => (display e.lin, e.f)))
    let keys := (per.flatten.map Prod.fst).foldl (fun acc k => if acc.contains k then acc else insertStr k acc) []
    let keys := keys.filter (· ≠ "unclassified") ++ keys.filter (· = "unclassified")
    .ok (keys.map (fun k => (k, per.map (fun l => ((l.reverse.lookup k)).getD SF.zero))))

/-- insertion sort of entries by display string (Python `sorted(dict.items())`) -/
def insertByName (x : Entry SF String) : List (Entry SF String) → List (Entry SF String)
  | [] => [x]
  | y :: t => if display x.lin < display y.lin then x :: y :: t else y :: insertByName x t

def sortByName (l : List (Entry SF String)) : List (Entry SF String) :=
  l.foldl (fun acc x => insertByName x acc) []

/-- lineage_summary rows of one query at rank `r`: sorted by name, unclassified last -/
def lsumRows (r : Nat) (ess : List (List (Entry SF String))) : List (Entry SF String) :=
  let es := ess.flatten.filter (fun e => e.rank = r)
  sortByName (es.filter (fun e => !isUnclassified e)) ++ es.filter isUnclassified

def showHuman (rows : List (Entry SF String)) : String :=
  " ".intercalate (rows.map (fun e => s!"{enc (display e.lin)}|{fmtDecStr (timesHundred e.fw) 1}"))

def showKreport (totalBp : Nat) (ess : List (List (Entry SF String))) : String :=
  " ".intercalate ((kreportRows totalBp ess).map (fun k => s!"{k.pct}|{k.bpc}|{k.bpa}|{k.code}|{enc k.name}"))

def showBioboxes (ess : List (List (Entry SF String))) : String :=
  " ".intercalate ((ess.flatten.filter (fun e => !isUnclassified e)).map (fun e =>
    s!"{Sm.Gen.taxNcbiRanks.getD e.rank "?"}|{enc (display e.lin)}|{fmtDecStr (timesHundred e.fw) 2}"))

/-- is rank `r` among the shared object's `summarized_ranks` (krona / lineage_summary refuse other ranks) -/
def srHas (st : St) (r : Nat) : Bool :=
  match st.sobj with
  | some (_, _, some l) => l.contains r
  | some (_, _, none) => false
  | none => true

def answer (x : Except Err String) : String :=
  match x with
  | .ok s => if s = "" then "ok" else "ok " ++ s
  | .error e => "err " ++ errName e

def ratOp (ws : List String) (op : F → F → SF) : String :=
  match nats? ws with
  | some [a, b, c, d] =>
    if b = 0 ∨ d = 0 then "bad-op" else "ok " ++ (op (divNat a b) (divNat c d)).toStr
  | _ => "bad-op"

def step (st : St) (line : String) : St × String :=
  let bad := (st, "bad-op")
  match words line with
  | "#" :: _ => (init, "#")
  | ["opt", mode, nr, kf, kv, fo, fm] =>
    match nat? nr, bool? kf, bool? kv, bool? fo, bool? fm with
    | some nr, some kf, some kv, some fo, some fm =>
      if mode = "std" ∨ mode = "ictv" ∨ mode = "lin" then
        -- the number of standard / ICTV ranks is the one the translator reads from the source
        let nr := if mode = "std" then Sm.Gen.taxNcbiRanks.length
                  else if mode = "ictv" then Sm.Gen.taxIctvRanks.length else nr
        ({ st with mode := mode, nranks := nr, keepFull := kf, keepVer := kv, force := fo, failMissing := fm }, "ok")
      else bad
    | _, _, _, _, _ => bad
  | "t" :: ident :: cells =>
    ({ st with tax := st.tax ++ [⟨dec ident, cells.map dec⟩] }, "ok")
  | "scn" :: _ => ({ st with scn := true }, "ok")
  | ["q", n, w, sc] =>
    match nats? [n, w, sc] with
    | some [n, w, sc] => if n = 0 ∨ w = 0 ∨ !st.scn then bad else ({ st with N := n, W := w, scaled := sc }, "ok")
    | _ => bad
  | ["r", k, w, name] =>
    match nats? [k, w] with
    | some [k, w] => if !st.scn ∨ st.N = 0 then bad else ({ st with rows := st.rows ++ [(k, w, dec name)] }, "ok")
    | _ => bad
  | "perm" :: idx =>
    match nats? idx with
    | some idx =>
      if idx.length = st.rows.length ∧ idx.all (· < st.rows.length) then
        ({ st with rows := idx.filterMap (fun i => st.rows[i]?) }, "ok")
      else bad
    | none => bad
  | ["load"] =>
    (st, answer ((mkRows st).map (fun (_, rows) =>
      s!"rows={rows.length} missed={(rows.filter (fun r => r.lin.isEmpty)).length}")))
  | ["sum"] => (st, answer ((build st none).map (fun ess => showEntries ess.flatten)))
  | ["sum", r] =>
    match nat? r with
    | some r => (st, answer ((build st (some r)).map (fun ess => showEntries ess.flatten)))
    | none => bad
  | ["csv"] => (st, answer ((build st none).map (fun ess => showEntries (sessCsv f64 ess).2)))
  | ["krona", r] =>
    match nat? r with
    | some r => (st, answer ((build st none).map (fun ess => showFracs (sessKrona f64 r ess))))
    | none => bad
  | ["lsum", r] =>
    match nat? r with
    | some r => (st, answer ((build st none).map (fun ess => showFracs (lsumRows r ess))))
    | none => bad
  | ["sopen"] =>
    match build st none with
    | .ok ess =>
      let so := match mkRows st with
        | .ok (nr, rows) => some (nr, rows, some (summarizedRanks nr rows))
        | .error _ => none
      ({ st with sess := some (ess, st.W * st.scaled), sobj := so }, "ok")
    | .error e => ({ st with sess := none, sobj := none }, "err " ++ errName e)
  | ["snew"] =>
    -- a loaded QueryTaxResult nothing has been built on yet
    match mkRows st with
    | .ok (nr, rows) => ({ st with sess := some ([], st.W * st.scaled), sobj := some (nr, rows, none) }, "ok")
    | .error e => ({ st with sess := none, sobj := none }, "err " ++ errName e)
  | ["sbuild", r, f] =>
    let single? : Option (Option Nat) := if r = "-" then some none else (nat? r).map some
    match single?, bool? f, st.sobj, st.sess with
    | some single, some force, some (nr, rows, sr), some (_, t) =>
      match sessBuild f64 f64Repair (st.N * st.scaled) nr rows single force sr with
      | .ok (l, ess) => ({ st with sess := some (ess, t), sobj := some (nr, rows, some l) }, "ok")
      | .error e =>
        -- the result lists were reset before the failure; a failed (re)summarisation leaves no summarized ranks
        let sr' := match sessRanks nr rows single force sr with
          | .ok l => some l
          | .error _ => none
        ({ st with sess := some ([], t), sobj := some (nr, rows, sr') }, "err " ++ errName e)
    | _, _, _, _ => bad
  | ["scls", r, p, q, f] =>
    let rank? : Option (Option Nat) := if r = "-" then some none else (nat? r).map some
    let thr? : Option (Option SF × Bool) :=
      if p = "none" then some (none, true)
      else match nats? [p, q] with
        | some [p, q] => if q = 0 then none else some (some (SF.ofF (divNat p q)), decide (p ≤ q))
        | _ => none
    match rank?, thr?, bool? f, st.sobj with
    | some rank, some (thr, thrOk), some force, some (nr, rows, sr) =>
      -- a forced re-summarisation of an already summarized object goes through `_init_summarization_vars`, which also
      -- empties the result lists of an earlier `build_summarized_result`
      let wipe := thrOk && force && (match sr with | some l => !l.isEmpty | none => false)
      let st := if wipe then { st with sess := st.sess.map (fun p => ([], p.2)) } else st
      match sessClassify f64 f64Repair nr rows rank thr thrOk force sr with
      | .ok (l, some c) =>
        ({ st with sobj := some (nr, rows, some l) },
         s!"ok {statusName c.status} {c.rank} {enc (display c.lin)} {c.f.toStr} {c.fw.toStr} {c.bp}")
      | .ok (l, none) => ({ st with sobj := some (nr, rows, some l) }, "err ValueError:other")
      | .error e =>
        let sr' := if thrOk then (match sessRanks nr rows rank force sr with
          | .ok l => some l
          | .error _ => none) else sr
        ({ st with sobj := some (nr, rows, sr') }, "err " ++ errName e)
    | _, _, _, _ => bad
  | ["scsv"] =>
    match st.sess with
    | some (ess0, t) =>
      -- `make_full_summary` walks `summarized_ranks`, whatever the lists hold
      let inSr (es : List (Entry SF String)) : Bool := match st.sobj with
        | some (_, _, some l) => es.all (fun e => l.contains e.rank)
        | some (_, _, none) => false
        | none => true
      let ess := ess0.filter inSr
      let (ess', rows) := sessCsv f64 ess
      ({ st with sess := some (if Sm.Gen.taxWritersSortInPlace then ess' ++ ess0.filter (fun es => !inSr es) else ess0, t) },
       answer (.ok (showEntries rows)))
    | none => bad
  | ["shuman", r] =>
    match nat? r, st.sess with
    | some r, some (ess, t) =>
      let (ess', rows) := sessHuman f64 r ess
      ({ st with sess := some (if Sm.Gen.taxWritersSortInPlace then ess' else ess, t) }, answer (.ok (showHuman rows)))
    | _, _ => bad
  | ["skrona", r] =>
    match nat? r, st.sess with
    | some r, some (ess, _) =>
      if srHas st r then (st, answer (.ok (showFracs (sessKrona f64 r ess)))) else (st, "ok")
    | _, _ => bad
  | ["slsum", r] =>
    match nat? r, st.sess with
    | some r, some (ess, _) =>
      if srHas st r then (st, answer (.ok (showFracs (lsumRows r ess)))) else (st, "ok")
    | _, _ => bad
  | ["skreport"] =>
    match st.sess with
    | some (ess, t) => if st.mode ≠ "std" then (st, "err ValueError:other") else (st, answer (.ok (showKreport t ess)))
    | none => bad
  | ["sbioboxes"] =>
    match st.sess with
    | some (ess, _) => if st.mode ≠ "std" then bad else (st, answer (.ok (showBioboxes ess)))
    | none => bad
  | ["cls", r, p, q] =>
    let rank? : Option (Option Nat) := if r = "-" then some none else (nat? r).map some
    let thr? : Option (Option SF × Bool) :=
      if p = "none" then some (none, true)
      else match nats? [p, q] with
        | some [p, q] => if q = 0 then none else some (some (SF.ofF (divNat p q)), decide (p ≤ q))
        | _ => none
    match rank?, thr? with
    | some rank, some (thr, thrOk) =>
      let res := do
        -- the threshold range is checked before anything is loaded into the result object
        let (nranks, rows) ← mkRows st
        let c ← classify f64 f64Repair nranks rows rank thr thrOk
        match c with
        | none => throw .other
        | some c =>
          pure s!"{statusName c.status} {c.rank} {enc (display c.lin)} {c.f.toStr} {c.fw.toStr} {c.bp}"
      (st, answer res)
    | _, _ => bad
  | ["kreport"] =>
    if st.mode ≠ "std" then (st, "err ValueError:other")
    else if st.dropTotW then
      -- total_weighted_hashes == 0: "cannot produce 'kreport' format from gather results before sourmash v4.5.0"
      (st, answer ((build st none).bind (fun ess => if ess.flatten.isEmpty then .ok "" else .error .other)))
    else (st, answer ((build st none).map (fun ess => showKreport (st.W * st.scaled) ess)))
  | ["bioboxes"] =>
    if st.mode ≠ "std" then bad
    else (st, answer ((build st none).map (fun ess => showBioboxes ess)))
  | ["human", r] =>
    match nat? r with
    | some r => (st, answer ((build st none).map (fun ess => showHuman (sessHuman f64 r ess).2)))
    | none => bad
  | "mfiles" :: fs =>
    -- file|file|… given as words `q.r,q.r,…` (one word per file; `-` = a file without rows)
    let parse (f : String) : Option (List (Nat × Nat)) :=
      if f = "-" then some [] else (f.splitOn ",").mapM (fun t =>
        match t.splitOn "." with
        | [a, b] => do pure (← a.toNat?, ← b.toNat?)
        | _ => none)
    match fs.mapM parse with
    | some files =>
      let qs := allQ st
      if files.all (fun f => f.all (fun (qi, ri) => match qs[qi]? with | some q => ri < q.2.2.2.length | none => false))
      then ({ st with layout := some files }, "ok") else bad
    | none => bad
  | ["dropcols", e, t] =>
    match nat? e, bool? t with
    | some e, some t => ({ st with dropEss := decide (e > 0), dropTotW := t }, "ok")
    | _, _ => bad
  | ["nextq"] =>
    if st.N = 0 then bad
    else ({ st with done := st.done ++ [(st.N, st.W, st.scaled, st.rows)], N := 0, W := 0, scaled := 1, rows := [],
                    scn := false }, "ok")
  | ["mkrona", r] =>
    match nat? r with
    | some r =>
      (st, answer (do
        let qs ← buildAll st
        let rows ← multiKrona r qs
        pure (" ".intercalate (rows.map (fun p => s!"{enc p.1}|{p.2.toStr}")))))
    | none => bad
  | ["mlsum", r] =>
    match nat? r with
    | some r =>
      (st, answer (do
        let qs ← buildAll st
        let rows ← multiLsum r qs
        pure (" ".intercalate (rows.map (fun p => enc p.1 ++ "|" ++ "|".intercalate (p.2.map SF.toStr))))))
    | none => bad
  | ["mcsv"] =>
    (st, answer ((buildAllIdx st).map (fun qs =>
      " ".intercalate (((qs.map (fun p => (p.2, p.1))).map (fun (ess, i) =>
        " ".intercalate (((ess.map (writerOrder f64)).flatten).map (fun e => s!"{i}:{showEntry e}")))).filter (· ≠ "")))))
  | "fa" :: ws => (st, ratOp ws (fun x y => SF.ofF (fadd x y)))
  | "fs" :: ws => (st, ratOp ws SF.subF)
  | "fm" :: ws => (st, ratOp ws (fun x y => SF.ofF (fmul x y)))
  | ["ident", kf, kv, s] =>
    match bool? kf, bool? kv with
    | some kf, some kv => (st, s!"ok {enc (getIdent (dec s) kf kv)} {enc (getIdentRow (dec s) kf kv)}")
    | _, _ => bad
  | w :: _ => if w.startsWith "x" then (st, "impl-only") else bad
  | [] => bad

end Sm.DriverTax
