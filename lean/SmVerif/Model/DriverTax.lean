/-
Driver for the `tax` correspondence stream (C19): a taxonomy, one gather result
(the rows gather itself produced), and the summarisation / classification / writer
operations of `sourmash tax metagenome|genome`.
-/
import SmVerif.Model.Tax
import SmVerif.Model.Proto

namespace Sm.DriverTax

open Sm.Proto Sm.Tax Sm.F64

structure St where
  mode : String := "std"
  nranks : Nat := 8
  keepFull : Bool := false
  keepVer : Bool := false
  force : Bool := false
  failMissing : Bool := false
  tax : List TaxRow := []
  N : Nat := 0
  W : Nat := 0
  scaled : Nat := 1
  rows : List (Nat × Nat × String) := []
  scn : Bool := false

def init : St := {}

/-- `~` stands for a space, a lone `-` for the empty string -/
def dec (s : String) : String := if s = "-" then "" else s.replace "~" " "
def enc (s : String) : String := if s = "" then "-" else s.replace " " "~"

def errName : Err → String
  | .gt100 => "ValueError:gt100"
  | .le0 => "ValueError:le0"
  | .rank => "ValueError:rank"
  | .noRanks => "ValueError:noranks"
  | .multi => "ValueError:multi"
  | .missing => "ValueError:missing"
  | .thr => "ValueError:thr"
  | .empty => "ValueError:empty"
  | .other => "ValueError:other"

abbrev R := RowV SF String

/-- taxonomy + gather rows -> (number of ranks, the `TaxResult`s) -/
def mkRows (st : St) : Except Err (Nat × List R) := do
  let (nranks, tax) ←
    if st.mode = "lin" then loadLinLoop st.keepFull st.keepVer st.force st.tax none []
    else (loadTaxLoop st.keepFull st.keepVer st.force st.tax []).map (fun t => (st.nranks, t))
  if tax.isEmpty then throw .empty
  if st.rows.isEmpty then throw .empty
  let rows : List R := st.rows.map (fun (k, w, name) =>
    ⟨SF.ofF (divNat k st.N), SF.ofF (divNat w st.W), k * st.scaled,
     matchLineage tax name st.keepFull st.keepVer⟩)
  if st.failMissing ∧ rows.any (fun r => r.lin.isEmpty) then throw .missing
  pure (nranks, rows)

def showEntry (e : Entry SF String) : String :=
  s!"{e.rank}|{enc (display e.lin)}|{e.f.toStr}|{e.fw.toStr}|{e.bp}"

def showEntries (es : List (Entry SF String)) : String :=
  " ".intercalate (es.map showEntry)

/-- krona / lineage_summary rows carry the lineage and the fraction only -/
def showFracs (es : List (Entry SF String)) : String :=
  " ".intercalate (es.map (fun e => s!"{enc (display e.lin)}|{e.f.toStr}"))

def statusName : Status → String
  | .nomatch => "nomatch"
  | .below => "below_threshold"
  | .match_ => "match"

def build (st : St) (single : Option Nat) : Except Err (List (List (Entry SF String))) := do
  let (nranks, rows) ← mkRows st
  buildSummarized f64 f64Repair (st.N * st.scaled) nranks rows single

def answer (x : Except Err String) : String :=
  match x with
  | .ok s => if s = "" then "ok" else "ok " ++ s
  | .error e => "err " ++ errName e

/-- insertion sort of entries by display string (Python `sorted(dict.items())`) -/
def insertByName (x : Entry SF String) : List (Entry SF String) → List (Entry SF String)
  | [] => [x]
  | y :: t => if display x.lin < display y.lin then x :: y :: t else y :: insertByName x t

def sortByName (l : List (Entry SF String)) : List (Entry SF String) :=
  l.foldl (fun acc x => insertByName x acc) []

def ratOp (ws : List String) (op : F → F → SF) : String :=
  match nats? ws with
  | some [a, b, c, d] =>
    if b = 0 ∨ d = 0 then "bad-op" else "ok " ++ (op (divNat a b) (divNat c d)).toStr
  | _ => "bad-op"

def step (st : St) (line : String) : St × String :=
  let bad := (st, "bad-op")
  match words line with
  | "#" :: _ => (init, "#")
  | ["opt", mode, nr, kf, kv, fo, fm] =>
    match nat? nr, bool? kf, bool? kv, bool? fo, bool? fm with
    | some nr, some kf, some kv, some fo, some fm =>
      if mode = "std" ∨ mode = "ictv" ∨ mode = "lin" then
        -- the number of standard / ICTV ranks is the one the translator reads from the source
        let nr := if mode = "std" then Sm.Gen.taxNcbiRanks.length
                  else if mode = "ictv" then Sm.Gen.taxIctvRanks.length else nr
        ({ st with mode := mode, nranks := nr, keepFull := kf, keepVer := kv, force := fo, failMissing := fm }, "ok")
      else bad
    | _, _, _, _, _ => bad
  | "t" :: ident :: cells =>
    ({ st with tax := st.tax ++ [⟨dec ident, cells.map dec⟩] }, "ok")
  | "scn" :: _ => ({ st with scn := true }, "ok")
  | ["q", n, w, sc] =>
    match nats? [n, w, sc] with
    | some [n, w, sc] => if n = 0 ∨ w = 0 ∨ !st.scn then bad else ({ st with N := n, W := w, scaled := sc }, "ok")
    | _ => bad
  | ["r", k, w, name] =>
    match nats? [k, w] with
    | some [k, w] => if !st.scn ∨ st.N = 0 then bad else ({ st with rows := st.rows ++ [(k, w, dec name)] }, "ok")
    | _ => bad
  | "perm" :: idx =>
    match nats? idx with
    | some idx =>
      if idx.length = st.rows.length ∧ idx.all (· < st.rows.length) then
        ({ st with rows := idx.filterMap (fun i => st.rows[i]?) }, "ok")
      else bad
    | none => bad
  | ["load"] =>
    (st, answer ((mkRows st).map (fun (_, rows) =>
      s!"rows={rows.length} missed={(rows.filter (fun r => r.lin.isEmpty)).length}")))
  | ["sum"] => (st, answer ((build st none).map (fun ess => showEntries ess.flatten)))
  | ["sum", r] =>
    match nat? r with
    | some r => (st, answer ((build st (some r)).map (fun ess => showEntries ess.flatten)))
    | none => bad
  | ["csv"] =>
    (st, answer ((build st none).map (fun ess => showEntries (ess.map (writerOrder f64)).flatten)))
  | ["krona", r] =>
    match nat? r with
    | some r =>
      (st, answer ((build st none).map (fun ess =>
        showFracs (writerOrder f64 (ess.flatten.filter (fun e => e.rank = r))))))
    | none => bad
  | ["lsum", r] =>
    match nat? r with
    | some r =>
      (st, answer ((build st none).map (fun ess =>
        let es := ess.flatten.filter (fun e => e.rank = r)
        showFracs (sortByName (es.filter (fun e => !isUnclassified e)) ++ es.filter isUnclassified))))
    | none => bad
  | ["cls", r, p, q] =>
    let rank? : Option (Option Nat) := if r = "-" then some none else (nat? r).map some
    let thr? : Option (Option SF × Bool) :=
      if p = "none" then some (none, true)
      else match nats? [p, q] with
        | some [p, q] => if q = 0 then none else some (some (SF.ofF (divNat p q)), decide (p ≤ q))
        | _ => none
    match rank?, thr? with
    | some rank, some (thr, thrOk) =>
      let res := do
        -- the threshold range is checked before anything is loaded into the result object
        let (nranks, rows) ← mkRows st
        let c ← classify f64 f64Repair nranks rows rank thr thrOk
        match c with
        | none => throw .other
        | some c =>
          pure s!"{statusName c.status} {c.rank} {enc (display c.lin)} {c.f.toStr} {c.fw.toStr} {c.bp}"
      (st, answer res)
    | _, _ => bad
  | "fa" :: ws => (st, ratOp ws (fun x y => SF.ofF (fadd x y)))
  | "fs" :: ws => (st, ratOp ws SF.subF)
  | "fm" :: ws => (st, ratOp ws (fun x y => SF.ofF (fmul x y)))
  | ["ident", kf, kv, s] =>
    match bool? kf, bool? kv with
    | some kf, some kv => (st, s!"ok {enc (getIdent (dec s) kf kv)} {enc (getIdentRow (dec s) kf kv)}")
    | _, _ => bad
  | w :: _ => if w.startsWith "x" then (st, "impl-only") else bad
  | [] => bad

end Sm.DriverTax
