/-
Executable model of `KmerMinHashBTree` (src/core/src/sketch/minhash.rs, second half):
the tree-backed sketch that `build_template` (src/core/src/cmd.rs) creates and the
sketch command fills, together with the four `From` conversions between it and the
array-backed `KmerMinHash` (model: `MH`, Model/MinHash.lean) and the serde
(de)serialisers of both types.

Conventions
* `BTreeSet<u64>` is an ascending `List Nat` (its iteration order), `BTreeMap<u64,u64>`
  an association list ascending by key; the primitive operations (`insert`, `remove`,
  `entry(..).or_insert(0) += ..`, `union`, `get`, `contains`, `collect`) are written
  once in `BSet` / `BMap` on that representation.
* `current_max` is a field of the state, updated exactly where the code updates it.
* every function follows the control flow of the function it is named after, branch
  for branch.  The four sites of defect D14 (`abundance == 0` returned instead of removing;
  `merge`, `From<KmerMinHash>` and the flat branch of `Deserialize` did not set `current_max`)
  exist in two variants: the functions with the suffix `Fix` are the CURRENT source (repaired
  by /repo commit 779da1d), the ones without it are the source as first found, kept for the
  regression theorems.  Which variant the source has is re-read by the translator
  (`Gen.btreeD14Repaired`) and followed by the `twin` driver.
* the md5 cache holds the pre-image (ksize, mins), as in `MH`.
-/
import SmVerif.Model.MinHash
import SmVerif.Model.SigOps

namespace Sm

/-! ### `BTreeSet<u64>` as an ascending list -/
namespace BSet

/-- `insert`: position of the first element `>= h`; nothing happens when it equals `h` -/
def insert (h : Nat) : List Nat → List Nat
  | [] => [h]
  | x :: xs => if h < x then h :: x :: xs else if h = x then x :: xs else x :: insert h xs

/-- `remove` -/
def remove (h : Nat) : List Nat → List Nat
  | [] => []
  | x :: xs => if x = h then xs else x :: remove h xs

/-- `union()`: merge of the two ascending iterators, equal elements yielded once -/
def union : List Nat → List Nat → List Nat
  | [], ys => ys
  | x :: xs, ys => go x xs (union xs) ys
where
  go (x : Nat) (xs : List Nat) (rec : List Nat → List Nat) : List Nat → List Nat
    | [] => x :: xs
    | y :: ys =>
      if y < x then y :: go x xs rec ys
      else if y = x then x :: rec ys
      else x :: rec (y :: ys)

/-- `iter.collect::<BTreeSet<_>>()` -/
def ofList (l : List Nat) : List Nat := l.foldl (fun acc h => insert h acc) []

end BSet

/-! ### `BTreeMap<u64, u64>` as an association list ascending by key -/
namespace BMap

def get (m : List (Nat × Nat)) (h : Nat) : Option Nat := m.lookup h

/-- `insert(h, v)`: insert or replace -/
def insert (h v : Nat) : List (Nat × Nat) → List (Nat × Nat)
  | [] => [(h, v)]
  | p :: ps =>
    if h < p.1 then (h, v) :: p :: ps
    else if h = p.1 then (h, v) :: ps
    else p :: insert h v ps

/-- `*m.entry(h).or_insert(0) += a` -/
def addTo (h a : Nat) : List (Nat × Nat) → List (Nat × Nat)
  | [] => [(h, 0 + a)]
  | p :: ps =>
    if h < p.1 then (h, 0 + a) :: p :: ps
    else if h = p.1 then (p.1, p.2 + a) :: ps
    else p :: addTo h a ps

/-- `remove(&h)` -/
def remove (h : Nat) : List (Nat × Nat) → List (Nat × Nat)
  | [] => []
  | p :: ps => if p.1 = h then ps else p :: remove h ps

/-- `iter.collect::<BTreeMap<_,_>>()`: later pairs overwrite earlier ones -/
def ofList (l : List (Nat × Nat)) : List (Nat × Nat) := l.foldl (fun acc p => insert p.1 p.2 acc) []

end BMap

/-- `KmerMinHashBTree` -/
structure BT where
  num : Nat
  maxHash : Nat
  ksize : Nat
  seed : Nat
  hf : Nat
  mins : List Nat
  abunds : Option (List (Nat × Nat))
  currentMax : Nat
  md5 : Option Digest
deriving DecidableEq, Repr, Inhabited

namespace BT

def new (scaled ksize hf seed : Nat) (track : Bool) (num : Nat) : BT :=
  { num := num, maxHash := mhR scaled, ksize := ksize, seed := seed, hf := hf,
    mins := [], abunds := if track then some [] else none, currentMax := 0, md5 := none }

def scaled (s : BT) : Nat := scR s.maxHash

def trackAbundance (s : BT) : Bool := s.abunds.isSome

def digest (s : BT) : Digest := ⟨s.ksize, s.mins⟩

/-- `md5sum()`: fills the cache lazily, returns the cached value -/
def md5sum (s : BT) : BT × Digest :=
  match s.md5 with
  | some d => (s, d)
  | none => ({ s with md5 := some s.digest }, s.digest)

/-- `Clone` (calls `self.md5sum()`, copies `current_max`) -/
def clone (s : BT) : BT × BT :=
  let (s', d) := s.md5sum
  (s', { s' with md5 := some d })

/-- `clear()` -/
def clear (s : BT) : BT :=
  { s with mins := [], abunds := s.abunds.map (fun _ => []), currentMax := 0, md5 := none }

/-- `mins.iter().next_back()` with a default -/
def lastOr0 (l : List Nat) : Nat := lastOr l 0

/-- `remove_hash` -/
def removeHash (s : BT) (h : Nat) : BT :=
  let s1 : BT :=
    if s.mins.contains h then
      { s with mins := BSet.remove h s.mins, abunds := s.abunds.map (BMap.remove h), md5 := none }
    else s
  if h = s1.currentMax then { s1 with currentMax := lastOr0 s1.mins } else s1

/-- `add_hash_with_abundance`, the code as it is (D14: `abundance == 0` only returns) -/
def addHashAb (s : BT) (h a : Nat) : BT :=
  if h > s.maxHash ∧ s.maxHash ≠ 0 then s
  else if s.num = 0 ∧ s.maxHash = 0 then s
  else if a = 0 then s
  else if s.mins.isEmpty then
    { s with mins := BSet.insert h s.mins, md5 := none,
             abunds := s.abunds.map (BMap.insert h a), currentMax := h }
  else if h ≤ s.maxHash ∨ h ≤ s.currentMax ∨ s.mins.length < s.num then
    let fresh := !s.mins.contains h
    let mins := BSet.insert h s.mins
    let md5 := if fresh then none else s.md5
    let cm := if fresh ∧ h > s.currentMax then h else s.currentMax
    let abunds := s.abunds.map (BMap.addTo h a)
    if s.num ≠ 0 ∧ mins.length > s.num then
      let last := lastOr0 mins
      let mins' := BSet.remove last mins
      { s with mins := mins', md5 := none, abunds := abunds.map (BMap.remove last),
               currentMax := lastOr0 mins' }
    else
      { s with mins := mins, md5 := md5, abunds := abunds, currentMax := cm }
  else s

def addHash (s : BT) (h : Nat) : BT := s.addHashAb h 1

def addMany (s : BT) (hs : List Nat) : BT := hs.foldl addHash s

def addManyAb (s : BT) (ps : List (Nat × Nat)) : BT :=
  ps.foldl (fun s p => s.addHashAb p.1 p.2) s

def removeMany (s : BT) (hs : List Nat) : BT := hs.foldl removeHash s

def checkCompatible (s o : BT) : Except MH.Err Unit :=
  if s.ksize ≠ o.ksize then .error .mismatchK
  else if s.hf ≠ o.hf then .error .mismatchHF
  else if s.maxHash ≠ o.maxHash then .error .mismatchScaled
  else if s.seed ≠ o.seed then .error .mismatchSeed
  else .ok ()

/-- the abundance `merge` gives `hash`: own count (or 0) plus the other's count
    (a flat operand counts once per hash it holds) -/
def mergedAbund (ab : List (Nat × Nat)) (o : BT) (h : Nat) : Nat :=
  let other :=
    match o.abunds with
    | some oab => (BMap.get oab h).getD 0
    | none => if o.mins.contains h then 1 else 0
  0 + ((BMap.get ab h).getD 0 + other)

/-- mins and abundances after `merge` (everything except `current_max`) -/
def mergeCore (s o : BT) : BT :=
  let u := BSet.union s.mins o.mins
  let mins := if s.num = 0 then u else u.take s.num
  let abunds := match s.abunds with
    | some ab => some (mins.map (fun h => (h, mergedAbund ab o h)))
    | none => none
  { s with mins := mins, abunds := abunds, md5 := none }

/-- `merge`, the code as it is (D14: `current_max` is left as it was) -/
def merge (s o : BT) : Except MH.Err BT := do
  s.checkCompatible o
  pure (s.mergeCore o)

def addFrom (s o : BT) : BT := s.addMany o.mins

/-- `to_vec_abunds` -/
def toVecAbunds (s : BT) : List (Nat × Nat) :=
  match s.abunds with
  | some ab => ab
  | none => ones s.mins

/-- `downsample_scaled(self, scaled)` -/
def downsampleScaled (s : BT) (scaled : Nat) : Except MH.Err BT :=
  if s.scaled = scaled ∨ s.scaled = 0 then .ok s
  else if s.scaled > scaled then .error .upsample
  else
    let n := BT.new scaled s.ksize s.hf s.seed s.abunds.isSome s.num
    .ok (if s.abunds.isSome then n.addManyAb s.toVecAbunds else n.addMany s.mins)

/-- `intersection_size` -/
def intersectionSize (s o : BT) : Except MH.Err (Nat × Nat) := do
  s.checkCompatible o
  if s.num ≠ 0 then
    let c0 := BT.new s.scaled s.ksize s.hf s.seed s.abunds.isSome s.num
    let c1 ← c0.merge s
    let c2 ← c1.merge o
    let i1 := interL s.mins o.mins
    pure ((interL i1 c2.mins).length, c2.mins.length)
  else
    let (c, u) := MH.interUnion s.mins o.mins
    pure (c.length, u)

/-- `count_common(&self, other, downsample)` -/
def countCommon (s o : BT) (downsample : Bool) : Except MH.Err Nat :=
  if downsample ∧ s.scaled ≠ o.scaled then
    let (first, second) := if s.scaled > o.scaled then (s, o) else (o, s)
    do
      let d ← (second.clone.2).downsampleScaled first.scaled
      first.checkCompatible d
      pure (interL first.mins d.mins).length
  else do
    s.checkCompatible o
    pure (interL s.mins o.mins).length

/-- `enable_abundance` -/
def enableAbundance (s : BT) : Except MH.Err BT :=
  if !s.mins.isEmpty then .error .nonEmpty else .ok { s with abunds := some [] }

/-- `disable_abundance` -/
def disableAbundance (s : BT) : BT := { s with abunds := none }

/-- `set_hash_function` (molecule type as its code: 1 dna, 2 protein, 3 dayhoff, 4 hp) -/
def setHashFunction (s : BT) (h : Nat) : Except MH.Err BT :=
  if s.hf = h then .ok s
  else if !s.mins.isEmpty then .error .nonEmpty
  else .ok { s with hf := h }

/-- `downsample_max_hash(self, max_hash)` -/
def downsampleMaxHash (s : BT) (maxHash : Nat) : Except MH.Err BT :=
  if s.maxHash = 0 then .ok s else s.downsampleScaled (scR maxHash)

/-! ### conversions -/

/-- `impl From<&KmerMinHashBTree> for KmerMinHash` (and the by-value one): a fresh
    `KmerMinHash::new(other.scaled(), ..)`, then the fields are overwritten -/
def intoVec (b : BT) : MH :=
  let n := MH.new b.scaled b.ksize b.hf b.seed b.trackAbundance b.num
  { n with mins := b.mins, abunds := b.abunds.map (fun ab => ab.map Prod.snd) }

/-- `impl From<KmerMinHash> for KmerMinHashBTree`, the code as it is
    (D14: `current_max` stays at the 0 `new` gave it) -/
def ofVec (v : MH) : BT :=
  let n := BT.new v.scaled v.ksize v.hf v.seed v.trackAbundance v.num
  let mins := BSet.ofList v.mins
  { n with mins := mins, abunds := v.abunds.map (fun ab => BMap.ofList (mins.zip ab)) }

/-! ### serde -/

/-- the fields both `Serialize` impls write -/
structure Json where
  num : Nat
  ksize : Nat
  seed : Nat
  maxHash : Nat
  mins : List Nat
  md5 : Digest
  abundances : Option (List Nat)
  molecule : Nat
deriving DecidableEq, Repr

def serialize (b : BT) : BT × Json :=
  let (b', d) := b.md5sum
  (b', { num := b.num, ksize := b.ksize, seed := b.seed, maxHash := b.maxHash, mins := b.mins,
         md5 := d, abundances := b.abunds.map (fun ab => ab.map Prod.snd), molecule := b.hf })

/-- `Deserialize` as first found (D14: the flat branch sets `current_max = 0`).  The md5 string of
    the file is parsed but NOT trusted into the cache (the cache starts empty). -/
def deserialize (j : Json) : BT :=
  let num := if j.maxHash ≠ 0 then 0 else j.num
  match j.abundances with
  | some ab =>
    let values := MH.sortPairs (j.mins.zip ab)
    let mins := BSet.ofList (values.map Prod.fst)
    { num := num, maxHash := j.maxHash, ksize := j.ksize, seed := j.seed, hf := j.molecule,
      mins := mins, abunds := some (BMap.ofList values), currentMax := lastOr0 mins,
      md5 := none }
  | none =>
    { num := num, maxHash := j.maxHash, ksize := j.ksize, seed := j.seed, hf := j.molecule,
      mins := BSet.ofList j.mins, abunds := none, currentMax := 0, md5 := none }

/-! ### the repaired variants (candidate patch `patches/C14-btree-current-max.diff`) -/

/-- repaired `add_hash_with_abundance`: abundance 0 removes, as `KmerMinHash` does -/
def addHashAbFix (s : BT) (h a : Nat) : BT :=
  if h > s.maxHash ∧ s.maxHash ≠ 0 then s
  else if s.num = 0 ∧ s.maxHash = 0 then s
  else if a = 0 then s.removeHash h
  else s.addHashAb h a

def addHashFix (s : BT) (h : Nat) : BT := s.addHashAbFix h 1

def addManyFix (s : BT) (hs : List Nat) : BT := hs.foldl addHashFix s

def addManyAbFix (s : BT) (ps : List (Nat × Nat)) : BT :=
  ps.foldl (fun s p => s.addHashAbFix p.1 p.2) s

/-- repaired `merge`: `current_max` refreshed from the new `mins` -/
def mergeFix (s o : BT) : Except MH.Err BT := do
  s.checkCompatible o
  let r := s.mergeCore o
  pure { r with currentMax := lastOr0 r.mins }

def addFromFix (s o : BT) : BT := s.addManyFix o.mins

def downsampleScaledFix (s : BT) (scaled : Nat) : Except MH.Err BT :=
  if s.scaled = scaled ∨ s.scaled = 0 then .ok s
  else if s.scaled > scaled then .error .upsample
  else
    let n := BT.new scaled s.ksize s.hf s.seed s.abunds.isSome s.num
    .ok (if s.abunds.isSome then n.addManyAbFix s.toVecAbunds else n.addManyFix s.mins)

def downsampleMaxHashFix (s : BT) (maxHash : Nat) : Except MH.Err BT :=
  if s.maxHash = 0 then .ok s else s.downsampleScaledFix (scR maxHash)

/-- repaired `From<KmerMinHash>` -/
def ofVecFix (v : MH) : BT :=
  let r := ofVec v
  { r with currentMax := lastOr0 r.mins }

/-- repaired `Deserialize` -/
def deserializeFix (j : Json) : BT :=
  let r := deserialize j
  { r with currentMax := lastOr0 r.mins }

end BT

/-! ### serde of `KmerMinHash` (same field list), and the small mutators of `KmerMinHash` that
`Model/MinHash.lean` does not have (`disable_abundance` is `MH.disableAbundance` of `Model/SigOps.lean`) -/
namespace MH

/-- `enable_abundance` -/
def enableAbundance (s : MH) : Except Err MH :=
  if !s.mins.isEmpty then .error .nonEmpty else .ok { s with abunds := some [] }

/-- `set_hash_function` -/
def setHashFunction (s : MH) (h : Nat) : Except Err MH :=
  if s.hf = h then .ok s
  else if !s.mins.isEmpty then .error .nonEmpty
  else .ok { s with hf := h }

/-- `downsample_max_hash(self, max_hash)` -/
def downsampleMaxHash (s : MH) (maxHash : Nat) : Except Err MH :=
  if s.maxHash = 0 then .ok s else s.downsampleScaled (scR maxHash)

def serialize (s : MH) : MH × BT.Json :=
  let (s', d) := s.md5sum
  (s', { num := s.num, ksize := s.ksize, seed := s.seed, maxHash := s.maxHash, mins := s.mins,
         md5 := d, abundances := s.abunds, molecule := s.hf })

/-- ascending insertion sort (`sort_unstable` on `u64`) -/
def sortNats (l : List Nat) : List Nat := l.foldr ins []
where
  ins (x : Nat) : List Nat → List Nat
    | [] => [x]
    | y :: ys => if x ≤ y then x :: y :: ys else y :: ins x ys

def deserialize (j : BT.Json) : MH :=
  let num := if j.maxHash ≠ 0 then 0 else j.num
  match j.abundances with
  | some ab =>
    let values := sortPairs (j.mins.zip ab)
    { num := num, maxHash := j.maxHash, ksize := j.ksize, seed := j.seed, hf := j.molecule,
      mins := values.map Prod.fst, abunds := some (values.map Prod.snd), md5 := none }
  | none =>
    { num := num, maxHash := j.maxHash, ksize := j.ksize, seed := j.seed, hf := j.molecule,
      mins := sortNats j.mins, abunds := none, md5 := none }

end MH

end Sm
