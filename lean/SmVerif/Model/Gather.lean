/-
Executable model of sourmash's gather (min-set-cover) machinery:

* `src/sourmash/search.py`      : `calc_threshold_from_bp`, `JaccardSearch(BestOnly)` for containment,
                                  `_find_best`, `GatherDatabases.__init__/_update_scaled/__next__`,
                                  the integer / ratio columns of `GatherResult`
* `src/sourmash/index/__init__.py` : `Index.find` (scaled branch) / `prefetch` / `best_containment` /
                                  `peek` / `consume` / `counter_gather` for an in-memory `LinearIndex`,
                                  `CounterGather.__init__/add/downsample/peek (with its lazy counter refresh)/consume/union_found`
* `src/sourmash/sketchcomparison.py` : what `FracMinHashComparison` contributes to the columns
* `src/sourmash/minhash.py`     : `flatten_and_downsample_scaled`, `flatten_and_intersect_scaled`,
                                  `contained_by`, `FrozenMinHash.downsample`
* `src/sourmash/commands.py`    : the identified / unidentified bookkeeping of `gather` / `multigather`

The algorithm is written once, generically in the type `α` of sketches and a record `SkOps α` of
the sketch operations it calls.  Two instances exist:
* `Model/GatherMH.lean`: `α = MH`, every operation is the shared MinHash model's Python layer
  (`Py.downsample`, `Py.flatten`, `Py.intersection`, `countCommon`, `removeMany`, ...);
* `Model/GatherL.lean`: `α = LS`, a scaled sketch reduced to (scaled, ascending hashes, abundances) with
  the operations written directly as filters; this is the instance the theorems of `Props/C07.lean`
  are about.  The driver runs both on every op and reports any difference
  (`L=ok` / `L=DIFF` in every observation).

Floats.  Two kinds occur:
* correctly rounded quotients of integers (`threshold_bp / scaled`, `shared / query_size`,
  `len / orig_query_len`, weighted fractions): exact binary64 model `F64.F`;
* `MinHash.contained_by`, which divides by a *bias factor* `1 - (1 - 1/scaled)^(len*scaled)`
  (libm `pow`), and numpy's `std`: these are not modelled bit-exactly.  The model is generic in
  a record `ScoreOps σ` of the operations the control flow applies to such values; the driver
  instantiates it with the runtime `Float`, theorems assume the order-theoretic laws they need
  (`Props/C07.lean`, `ScoreLaws`) and say so.

An md5 digest is an opaque number supplied with each signature (the harness computes it from
`(ksize, mins)`); it keys the dictionaries of `CounterGather` and breaks ties in
`best_containment`.
-/
import SmVerif.Model.Float64

namespace Sm.Gather

open Sm Sm.F64

/-- Python exception classes that can leave the modelled code -/
inductive GErr where
  | value | type | assertion | key | runtime | zerodiv
deriving DecidableEq, Repr

/-- operations on floats that went through `pow` / `sqrt` (see the header) -/
structure ScoreOps (σ : Type) where
  /-- `contained_by` from `count_common`, `len(self)`, `self.scaled` (`len > 0`) -/
  contained : (common denom scaled : Nat) → σ
  /-- embed an exactly modelled double -/
  ofF : F → σ
  gt : σ → σ → Bool
  ge : σ → σ → Bool
  isZero : σ → Bool
  ltOne : σ → Bool
  /-- `numpy.std` of a list of integers -/
  std : List Nat → σ
  str : σ → String

/-- the MinHash operations gather calls (names follow `minhash.py`) -/
structure SkOps (α : Type) where
  /-- `.scaled` -/
  scaled : α → Nat
  /-- `.num` -/
  num : α → Nat
  /-- sorted hash values -/
  mins : α → List Nat
  /-- `.track_abundance` -/
  track : α → Bool
  /-- `.hashes` as (hash, abundance) pairs; flat sketches report 1 -/
  pairs : α → List (Nat × Nat)
  /-- `MinHash.downsample(scaled=)` -/
  dsM : α → Nat → Except GErr α
  /-- `FrozenMinHash.downsample(scaled=)` -/
  dsF : α → Nat → Except GErr α
  /-- `flatten()` -/
  flat : α → Except GErr α
  /-- `a & b` -/
  and : α → α → Except GErr α
  /-- `a.count_common(b, downsample=True)` -/
  cc : α → α → Except GErr Nat
  /-- `a.is_compatible(b)` -/
  compatible : α → α → Bool
  /-- `a.intersection_and_union_size(b)` after the compatibility check -/
  interSize : α → α → Except GErr (Nat × Nat)
  /-- `copy_and_clear()` -/
  copyAndClear : α → Except GErr α
  /-- `FrozenMinHash.to_mutable()` -/
  toMutable : α → α
  /-- `a.remove_many(b)` -/
  removeFrom : α → α → α
  /-- `a.add_many(b)` -/
  addFrom : α → α → α

structure Sig (α : Type) where
  md5 : Nat
  name : Nat
  mh : α
deriving Repr, Inhabited

section
variable {α : Type} (K : SkOps α)

/-! ### sketch helpers (`minhash.py`) -/

def len (s : α) : Nat := (K.mins s).length

/-- `a.contained_by(b, downsample=True)` -/
def containedBy {σ : Type} (ops : ScoreOps σ) (a b : α) : Except GErr σ :=
  if K.scaled a = 0 ∨ K.scaled b = 0 then .error .type
  else if len K a = 0 then .ok (ops.ofF ⟨0, 0⟩)
  else
    match K.cc a b with
    | .ok c => .ok (ops.contained c (len K a) (K.scaled a))
    | .error e => .error e

/-- `flatten_and_downsample_scaled(mh, sc)` with one scaled value -/
def flattenAndDownsample (s : α) (sc : Nat) : Except GErr α :=
  if K.scaled s = 0 ∨ sc = 0 then .error .assertion
  else
    match K.flat s with
    | .error e => .error e
    | .ok f => if sc > K.scaled f then K.dsM f sc else .ok f

/-- `flatten_and_intersect_scaled(mh1, mh2)` -/
def flattenAndIntersect (a b : α) : Except GErr α :=
  let sc := max (K.scaled a) (K.scaled b)
  match K.flat a with
  | .error e => .error e
  | .ok a1 =>
    match K.dsF a1 sc with
    | .error e => .error e
    | .ok a2 =>
      match K.flat b with
      | .error e => .error e
      | .ok b1 =>
        match K.dsF b1 sc with
        | .error e => .error e
        | .ok b2 => K.and a2 b2

end

/-! ### `search.py`: thresholds -/

def fzero : F := ⟨0, 0⟩
def fone : F := F64.ofNat 1

/-- `calc_threshold_from_bp(threshold_bp, scaled, query_size)` for an integer `threshold_bp ≥ 0`:
    `(threshold, n_threshold_hashes)` or `ValueError` -/
def calcThreshold (thrBp scaled qsize : Nat) : Except GErr (F × F) :=
  if thrBp = 0 then .ok (fzero, fzero)
  else if scaled = 0 ∨ qsize = 0 then .error .zerodiv
  else
    let n := F64.div (F64.ofNat thrBp) (F64.ofNat scaled)
    let t := F64.div n (F64.ofNat qsize)
    if ¬ F64.ge fone t then .error .value else .ok (t, n)

/-- `JaccardSearch.passes` -/
def passes (score thr : F) : Bool := decide (score.m ≠ 0) && F64.ge score thr

/-- `score_containment` -/
def scoreContainment (qsize shared : Nat) : F :=
  if qsize = 0 then fzero else F64.divNat shared qsize

section
variable {α : Type} (K : SkOps α)

/-! ### `Index.find` for a containment search over an in-memory list of signatures -/

/-- one loop iteration of `find`: `(score, passes)` -/
def findOne (query : α) (subj : Sig α) (thr : F) : Except GErr (F × Bool) :=
  match flattenAndDownsample K subj.mh (K.scaled query) with
  | .error e => .error e
  | .ok smh =>
    match flattenAndDownsample K query (K.scaled smh) with
    | .error e => .error e
    | .ok qmh =>
      if K.track qmh ∨ K.track smh then .error .assertion
      else if !K.compatible qmh smh then .error .type
      else
        match K.interSize qmh smh with
        | .error e => .error e
        | .ok (shared, _) =>
          let score := scoreContainment (len K qmh) shared
          .ok (score, passes score thr)

/-- the loop of `find`; `bestOnly` = `JaccardSearchBestOnly.collect` raises the threshold -/
def findLoop (query : α) (bestOnly : Bool) : List (Sig α) → F → Except GErr (List (F × Sig α))
  | [], _ => .ok []
  | s :: rest, thr =>
    match findOne K query s thr with
    | .error e => .error e
    | .ok (score, ok) =>
      if ok then
        let thr' := if bestOnly then (if F64.ge thr score then thr else score) else thr
        match findLoop query bestOnly rest thr' with
        | .error e => .error e
        | .ok l => .ok ((score, s) :: l)
      else findLoop query bestOnly rest thr

/-- `Index.prefetch(query, threshold_bp, best_only=)` (generator, forced) -/
def prefetch (db : List (Sig α)) (query : α) (thrBp : Nat) (bestOnly : Bool) :
    Except GErr (List (F × Sig α)) :=
  if db.isEmpty then .error .value                      -- "no signatures to search"
  else if len K query = 0 then .error .value            -- make_containment_query: "query is empty!?"
  else if K.scaled query = 0 then .error .type
  else
    match calcThreshold thrBp (K.scaled query) (len K query) with
    | .error e => .error e
    | .ok (thr, _) =>
      -- find: check_is_compatible
      if K.track query then .error .type
      else findLoop K query bestOnly db thr

/-- first element of `sorted(results, key=lambda x: (-x.score, x.signature.md5sum()))` -/
def bestOf : List (F × Sig α) → Option (F × Sig α)
  | [] => none
  | x :: rest =>
    match bestOf rest with
    | none => some x
    | some y =>
      -- keep x unless y is strictly better (greater score, or equal score and smaller md5)
      if (F64.ge y.1 x.1 && !F64.ge x.1 y.1) || (F64.eq y.1 x.1 && decide (y.2.md5 < x.2.md5))
      then some y else some x

/-- `Index.best_containment` -/
def bestContainment (db : List (Sig α)) (query : α) (thrBp : Nat) : Except GErr (Option (F × Sig α)) :=
  match prefetch K db query thrBp true with
  | .error e => .error e
  | .ok l => .ok (bestOf l)

end

/-! ### `CounterGather` -/

structure CEntry (α : Type) where
  md5 : Nat
  count : Int
  sig : Sig α
deriving Repr, Inhabited

/-- `counter`, `siglist`, `locations` (three dictionaries with the same insertion-ordered keys;
    keys deleted from `counter` are never looked up again) -/
structure Counter (α : Type) where
  origQuery : α
  scaled : Nat
  entries : List (CEntry α)
deriving Repr, Inhabited

/-- `d[md5] = v` on an insertion-ordered dict -/
def upsert {α : Type} (e : CEntry α) : List (CEntry α) → List (CEntry α)
  | [] => [e]
  | x :: xs => if x.md5 = e.md5 then e :: xs else x :: upsert e xs

/-- `most_common()[0]`: the first entry carrying the largest count
    (`sorted(..., reverse=True)` is stable) -/
def mostCommon {α : Type} : List (CEntry α) → Option (CEntry α)
  | [] => none
  | x :: xs =>
    match mostCommon xs with
    | none => some x
    | some y => if y.count > x.count then some y else some x

/-- `match_size < n_threshold_hashes` (int against float) -/
def belowThreshold (count : Int) (n : F) : Bool :=
  if count < 0 then true else !F64.ge (F64.ofNat count.toNat) n

section
variable {α : Type} (K : SkOps α)

/-- `CounterGather.__init__` -/
def Counter.new (query : α) : Except GErr (Counter α) :=
  if K.scaled query = 0 then .error .value
  else
    -- query_mh.copy().flatten(): the frozen copy is the object itself
    match K.flat query with
    | .error e => .error e
    | .ok f => .ok { origQuery := f, scaled := K.scaled query, entries := [] }

/-- `CounterGather.add(ss)` (`require_overlap=True`) -/
def Counter.add (c : Counter α) (ss : Sig α) : Except GErr (Counter α) :=
  match K.cc c.origQuery ss.mh with
  | .error e => .error e
  | .ok overlap =>
    if overlap ≠ 0 then
      .ok { c with entries := upsert ⟨ss.md5, overlap, ss⟩ c.entries,
                   scaled := max c.scaled (K.scaled ss.mh) }
    else .error .value

/-- `counter[md5] = v` for a key that is present (dictionary order is kept) -/
def setCount {α : Type} (md5 : Nat) (v : Int) : List (CEntry α) → List (CEntry α)
  | [] => []
  | x :: xs => if x.md5 = md5 then { x with count := v } :: xs else x :: setCount md5 v xs

/-- `del counter[md5]` -/
def delEntry {α : Type} (md5 : Nat) : List (CEntry α) → List (CEntry α)
  | [] => []
  | x :: xs => if x.md5 = md5 then xs else x :: delEntry md5 xs

/-- the lazy-refresh loop of `peek`: take the entry with the largest counter, recompute its overlap with the
    current query at the current resolution, accept it only if the counter was exact; otherwise refresh (or
    drop) the counter and look again.  Every entry is refreshed at most once, so `len(entries) + 1` rounds
    suffice; the fuel running out is unreachable and reported as `RuntimeError`.
    Result: the counters, and `none` (= `return []`) or the accepted entry with `intersect_mh`. -/
def peekLoop (cur : α) (scaled : Nat) (nThr : F) :
    Nat → List (CEntry α) → Except GErr (List (CEntry α) × Option (CEntry α × α))
  | 0, _ => .error .runtime
  | fuel + 1, es =>
    match mostCommon es with
    | none => .ok (es, none)
    | some best =>
      if belowThreshold best.count nThr then .ok (es, none)
      else
        match K.dsF best.sig.mh scaled with
        | .error e => .error e
        | .ok m1 =>
          match K.flat m1 with
          | .error e => .error e
          | .ok m2 =>
            match K.and cur m2 with
            | .error e => .error e
            | .ok inter =>
              if ((len K inter : Nat) : Int) = best.count then .ok (es, some (best, inter))
              else if len K inter ≠ 0 then peekLoop cur scaled nThr fuel (setCount best.md5 (len K inter) es)
              else peekLoop cur scaled nThr fuel (delEntry best.md5 es)

/-- `CounterGather.peek(cur_query_mh, threshold_bp=)`: the counter (its `scaled` may have been raised, stale
    counters may have been refreshed or dropped) and `[]` or `(score, match, intersect_mh)` -/
def Counter.peek {σ : Type} (ops : ScoreOps σ) (c : Counter α) (cur : α) (thrBp : Nat) :
    Except GErr (Counter α × Option (σ × Sig α × α)) :=
  if c.entries.isEmpty then .ok (c, none)
  else
    let scaled := max c.scaled (K.scaled cur)
    match K.dsF cur scaled with
    | .error e => .error e
    | .ok cur =>
      if len K cur = 0 then .ok ({ c with scaled := scaled }, none)
      else
        match containedBy K ops cur c.origQuery with
        | .error e => .error e
        | .ok sub =>
          if ops.ltOne sub then .error .value   -- "current query not a subset of original query"
          else
            match calcThreshold thrBp scaled (len K cur) with
            | .error .value => .ok ({ c with scaled := scaled }, none)
            | .error e => .error e
            | .ok (thr, nThr) =>
              match peekLoop K cur scaled nThr (c.entries.length + 1) c.entries with
              | .error e => .error e
              | .ok (es, none) => .ok ({ c with scaled := scaled, entries := es }, none)
              | .ok (es, some (best, inter)) =>
                match containedBy K ops cur best.sig.mh with
                | .error e => .error e
                | .ok cont =>
                  if ops.isZero cont then .error .assertion
                  else if !ops.ge cont (ops.ofF thr) then .error .assertion
                  else .ok ({ c with scaled := scaled, entries := es }, some (cont, best.sig, inter))

/-- the loop of `consume` -/
def consumeEntries (inter : α) : List (CEntry α) → Except GErr (List (CEntry α))
  | [] => .ok []
  | e :: rest =>
    match K.cc inter e.sig.mh with
    | .error err => .error err
    | .ok k =>
      match consumeEntries inter rest with
      | .error err => .error err
      | .ok rest' =>
        if k ≠ 0 then
          if e.count - k = 0 then .ok rest' else .ok ({ e with count := e.count - k } :: rest')
        else .ok (e :: rest')

/-- `CounterGather.consume(intersect_mh)` -/
def Counter.consume (c : Counter α) (inter : α) : Except GErr (Counter α) :=
  if len K inter = 0 then .ok c
  else
    match consumeEntries K inter c.entries with
    | .error e => .error e
    | .ok es => .ok { c with entries := es }

/-- `Index.counter_gather(query, threshold_bp)` for a `LinearIndex` -/
def addAll (c : Counter α) : List (F × Sig α) → Except GErr (Counter α)
  | [] => .ok c
  | (_, s) :: rest =>
    match c.add K s with
    | .error e => .error e
    | .ok c' => addAll c' rest

def counterGather (db : List (Sig α)) (query : α) (thrBp : Nat) : Except GErr (Counter α) :=
  match K.flat query with
  | .error e => .error e
  | .ok pq =>
    match Counter.new K pq with
    | .error e => .error e
    | .ok c =>
      match prefetch K db pq thrBp false with
      | .error e => .error e
      | .ok l => addAll K c l

/-- `CounterGather.union_found`: the original query intersected with every loaded match -/
def unionFoundLoop (orig : α) : α → List (CEntry α) → Except GErr α
  | found, [] => .ok found
  | found, e :: es =>
    match flattenAndIntersect K e.sig.mh orig with
    | .error err => .error err
    | .ok i => unionFoundLoop orig (K.addFrom found i) es

def Counter.unionFound (c : Counter α) : Except GErr α :=
  match K.copyAndClear c.origQuery with
  | .error e => .error e
  | .ok found => unionFoundLoop K c.origQuery found c.entries

/-- `commands.gather` / `multigather`: the identified / unidentified split of the (flattened) query
    over the prefetch counters: `(ident_mh, noident_mh)` -/
def cliSplitLoop : α → α → List (Counter α) → Except GErr (α × α)
  | ident, noident, [] => .ok (ident, noident)
  | ident, noident, c :: cs =>
    match c.unionFound K with
    | .error e => .error e
    | .ok u => cliSplitLoop (K.addFrom ident u) (K.removeFrom noident u) cs

def cliSplit (query : α) (cs : List (Counter α)) : Except GErr (α × α) :=
  match K.flat query with
  | .error e => .error e
  | .ok pq =>
    let noident := K.toMutable pq
    match K.copyAndClear noident with
    | .error e => .error e
    | .ok ident => cliSplitLoop K ident noident cs

end

/-! ### the two kinds of objects `GatherDatabases` accepts as "counters" -/

inductive CObj (α : Type) where
  | cg (c : Counter α)
  | idx (db : List (Sig α))
deriving Repr, Inhabited

section
variable {α : Type} (K : SkOps α)

/-- `Index.peek(query_mh, threshold_bp=)`: `[]` or `[IndexSearchResult, intersect_mh]` -/
def idxPeek {σ : Type} (ops : ScoreOps σ) (db : List (Sig α)) (cur : α) (thrBp : Nat) :
    Except GErr (Option (σ × Sig α × α)) :=
  match bestContainment K db cur thrBp with
  | .error .value => .ok none
  | .error e => .error e
  | .ok none => .ok none
  | .ok (some (score, s)) =>
    match flattenAndIntersect K s.mh cur with
    | .error e => .error e
    | .ok inter => .ok (some (ops.ofF score, s, inter))

def CObj.peek {σ : Type} (ops : ScoreOps σ) (o : CObj α) (cur : α) (thrBp : Nat) :
    Except GErr (CObj α × Option (σ × Sig α × α)) :=
  match o with
  | .cg c =>
    match c.peek K ops cur thrBp with
    | .error e => .error e
    | .ok (c', r) => .ok (.cg c', r)
  | .idx db =>
    match idxPeek K ops db cur thrBp with
    | .error e => .error e
    | .ok r => .ok (.idx db, r)

def CObj.consume (o : CObj α) (inter : α) : Except GErr (CObj α) :=
  match o with
  | .cg c =>
    match c.consume K inter with
    | .error e => .error e
    | .ok c' => .ok (.cg c')
  | .idx db => .ok (.idx db)

/-- `if best_result is None or sr.score > best_result.score` -/
def better {σ : Type} (ops : ScoreOps σ) (r best : Option (σ × Sig α × α)) : Option (σ × Sig α × α) :=
  match r, best with
  | none, b => b
  | some x, none => some x
  | some x, some b => if ops.gt x.1 b.1 then some x else some b

/-- first loop of `_find_best`: strict `>` keeps the earlier counter on equal scores -/
def peekAll {σ : Type} (ops : ScoreOps σ) (cur : α) (thrBp : Nat) :
    List (CObj α) → Option (σ × Sig α × α) → Except GErr (List (CObj α) × Option (σ × Sig α × α))
  | [], best => .ok ([], best)
  | o :: rest, best =>
    match o.peek K ops cur thrBp with
    | .error e => .error e
    | .ok (o', r) =>
      match peekAll ops cur thrBp rest (better ops r best) with
      | .error e => .error e
      | .ok (rest', b) => .ok (o' :: rest', b)

def consumeAll (inter : α) : List (CObj α) → Except GErr (List (CObj α))
  | [] => .ok []
  | o :: rest =>
    match o.consume K inter with
    | .error e => .error e
    | .ok o' =>
      match consumeAll inter rest with
      | .error e => .error e
      | .ok rest' => .ok (o' :: rest')

/-- `_find_best(counters, query, threshold_bp)` -/
def findBest {σ : Type} (ops : ScoreOps σ) (counters : List (CObj α)) (cur : α) (thrBp : Nat) :
    Except GErr (List (CObj α) × Option (σ × Sig α × α)) :=
  match peekAll K ops cur thrBp counters none with
  | .error e => .error e
  | .ok (cs, none) => .ok (cs, none)
  | .ok (cs, some (sc, s, inter)) =>
    match consumeAll K inter cs with
    | .error e => .error e
    | .ok cs' => .ok (cs', some (sc, s, inter))

end

/-! ### `GatherDatabases` -/

/-- `d[k]` on the dictionary `orig_query_abunds` -/
def abLookup (d : List (Nat × Nat)) (k : Nat) : Except GErr Nat :=
  match d.lookup k with
  | some v => .ok v
  | none => .error .key

/-- `sum(orig_query_abunds[k] for k in hashes)` -/
def abSum (d : List (Nat × Nat)) : List Nat → Except GErr Nat
  | [] => .ok 0
  | k :: ks =>
    match abLookup d k with
    | .error e => .error e
    | .ok v =>
      match abSum d ks with
      | .error e => .error e
      | .ok s => .ok (v + s)

structure GD (α : Type) where
  /-- `orig_query.minhash`: the query as given (abundances, unidentified hashes included) -/
  origSigMh : α
  /-- `self.query.minhash`: the hashes not yet assigned -/
  query : α
  counters : List (CObj α)
  thresholdBp : Nat
  trackAbundance : Bool
  origQueryMh : α
  origQueryAbunds : List (Nat × Nat)
  noidentMh : α
  cmpScaled : Nat
  noidentSum : Nat
  totalWeighted : Nat
  resultN : Nat
deriving Repr, Inhabited

/-- the columns of a `GatherResult` this model accounts for -/
structure GRes (σ : Type) where
  name : Nat
  md5 : Nat
  rank : Nat
  cmpScaled : Nat
  intersectBp : Nat
  uniqueIntersectBp : Nat
  fOrigQuery : F
  fMatch : σ
  fMatchOrig : σ
  fUniqueToQuery : F
  fUniqueWeighted : F
  /-- `average_abund`, `median_abund` as exact quotients `(num, den)`; `std_abund` through numpy -/
  avgAbund : Option (Nat × Nat)
  medAbund : Option (Nat × Nat)
  stdAbund : Option σ
  remainingBp : Nat
  nUniqueWeightedFound : Option Nat
  sumWeightedFound : Nat
  totalWeightedHashes : Nat
  queryBp : Nat
  queryNHashes : Nat
  queryAbundance : Bool
  /-- the sets the columns are defined on: `cmp.intersect_mh`, `gather_comparison.intersect_mh`,
      and the sizes of `gather_comparison.mh1_cmp` / `mh2_cmp` (numerator / denominator of `f_match`) -/
  isectOrig : List Nat
  isectCur : List Nat
  matchLen : Nat
  curLen : Nat

/-- insertion sort (for the median) -/
def insSorted (x : Nat) : List Nat → List Nat
  | [] => [x]
  | y :: ys => if x ≤ y then x :: y :: ys else y :: insSorted x ys

def sortNats (l : List Nat) : List Nat := l.foldr insSorted []

/-- `numpy.median` of a non-empty list as an exact quotient -/
def medianQ (l : List Nat) : Nat × Nat :=
  let s := sortNats l
  let n := s.length
  if n % 2 = 1 then (s.getD (n / 2) 0, 1) else (s.getD (n / 2 - 1) 0 + s.getD (n / 2) 0, 2)

/-- `{k: from_abundD.get(k, 1) for k in hashes}.values()` -/
def abGetD1 (d : List (Nat × Nat)) (ks : List Nat) : List Nat :=
  ks.map (fun k => (d.lookup k).getD 1)

def sumNats (l : List Nat) : Nat := l.foldr (· + ·) 0

section
variable {α : Type} (K : SkOps α)

/-- `_update_scaled(scaled)` -/
def GD.updateScaled (g : GD α) (scaled : Nat) : Except GErr (GD α) :=
  let maxScaled := max g.cmpScaled scaled
  if g.cmpScaled ≠ maxScaled then
    match K.dsM g.origQueryMh scaled with
    | .error e => .error e
    | .ok oq =>
      match K.dsF g.noidentMh scaled with
      | .error e => .error e
      | .ok ni =>
        match abSum g.origQueryAbunds (K.mins ni) with
        | .error e => .error e
        | .ok nsum =>
          match abSum g.origQueryAbunds (K.mins oq) with
          | .error e => .error e
          | .ok tot =>
            .ok { g with cmpScaled := maxScaled, origQueryMh := oq, noidentMh := ni,
                         noidentSum := nsum, totalWeighted := tot + nsum }
  else .ok g

/-- `GatherDatabases.__init__(query, counters, threshold_bp=, ignore_abundance=, noident_mh=, ident_mh=)` -/
def GD.init (query : α) (counters : List (CObj α)) (thrBp : Nat) (ignoreAbund : Bool)
    (noident ident : Option α) : Except GErr (GD α) :=
  let track := K.track query && !ignoreAbund
  let abunds := if track then K.pairs query else (K.mins query).map (fun h => (h, 1))
  let noidentE : Except GErr α := match noident with
    | some n => .ok n
    | none => K.copyAndClear query
  match noidentE with
  | .error e => .error e
  | .ok noidentMh =>
    -- `.to_frozen()` copies a mutable sketch (`__copy__`); a frozen one is returned as is.
    let queryMh := match ident with
      | none => K.removeFrom (K.toMutable query) noidentMh   -- to_mutable(); remove_many(noident_mh)
      | some i => K.toMutable i
    match K.flat queryMh with
    | .error e => .error e
    | .ok origQueryMh =>
      let g : GD α := { origSigMh := query, query := origQueryMh, counters := counters, thresholdBp := thrBp,
                        trackAbundance := track, origQueryMh := origQueryMh, origQueryAbunds := abunds,
                        noidentMh := noidentMh, cmpScaled := 0, noidentSum := 0, totalWeighted := 0,
                        resultN := 0 }
      g.updateScaled K (K.scaled origQueryMh)

/-- second half of `FracMinHashComparison.__post_init__`: downsample both sides to `cmp_scaled`,
    check compatibility; `intersect_mh` = flatten both and intersect -/
def fracCmpCore (a0 b0 : α) (cmpScaled : Nat) : Except GErr (α × α × α) :=
  match K.dsF a0 cmpScaled with
  | .error e => .error e
  | .ok a =>
    match K.dsF b0 cmpScaled with
    | .error e => .error e
    | .ok b =>
      if !K.compatible a b then .error .type
      else
        match K.flat a with
        | .error e => .error e
        | .ok fa =>
          match K.flat b with
          | .error e => .error e
          | .ok fb =>
            match K.and fa fb with
            | .error e => .error e
            | .ok i => .ok (a, b, i)

/-- `FracMinHashComparison(mh1, mh2, cmp_scaled=, ignore_abundance=)`: `(mh1_cmp, mh2_cmp, intersect_mh)` -/
def fracCmp (mh1 mh2 : α) (cmpScaled : Nat) (ignoreAbund : Bool) : Except GErr (α × α × α) :=
  if ¬ ((K.num mh1 ≠ 0 ∧ K.num mh2 ≠ 0) ∨ (K.scaled mh1 ≠ 0 ∧ K.scaled mh2 ≠ 0)) then .error .type
  else if ignoreAbund then
    match K.flat mh1 with
    | .error e => .error e
    | .ok a0 =>
      match K.flat mh2 with
      | .error e => .error e
      | .ok b0 => fracCmpCore K a0 b0 cmpScaled
  else fracCmpCore K mh1 mh2 cmpScaled

/-- `GatherResult.__post_init__` restricted to the modelled columns -/
def buildResult {σ : Type} (ops : ScoreOps σ) (g : GD α) (best : Sig α) (scaled : Nat) (gatherQuery : α)
    (sumWeightedFound : Nat) (origQueryLen noidentLen : Nat) : Except GErr (GRes σ) :=
  let ignoreAbund := !g.trackAbundance
  -- check_gatherresult_input
  if g.totalWeighted = 0 then .error .value
  else if g.origQueryAbunds.isEmpty then .error .value
  -- init_sigcomparison: original query against the match, at cmp_scaled
  else if K.scaled g.origSigMh = 0 ∨ K.scaled best.mh = 0 then .error .type
  else
    match fracCmp K g.origSigMh best.mh scaled ignoreAbund with
    | .error e => .error e
    | .ok (_, m2, i0) =>
      -- init_gathersketchcomparison: remaining query against the flattened match, at the max scaled
      match K.flat best.mh with
      | .error e => .error e
      | .ok bflat =>
        let s2 := max (K.scaled gatherQuery) (K.scaled bflat)
        match fracCmp K gatherQuery bflat s2 false with
        | .error e => .error e
        | .ok (g1, g2, i1) =>
          if origQueryLen = 0 then .error .zerodiv
          -- the two `assert ... contained_by(...) == 1.0`
          else if len K i1 = 0 then .error .assertion
          else
            let fUniq := F64.divNat (len K i1) origQueryLen
            let vals := abGetD1 g.origQueryAbunds (K.mins i1)
            let nuw := sumNats vals
            .ok {
              name := best.name, md5 := best.md5, rank := g.resultN, cmpScaled := scaled,
              intersectBp := len K i0 * scaled,
              uniqueIntersectBp := len K i1 * s2,
              fOrigQuery := F64.divNat (len K i0) origQueryLen,
              fMatch := if len K g2 = 0 then ops.ofF fzero
                        else ops.contained (len K i1) (len K g2) (K.scaled g2),
              fMatchOrig := if len K m2 = 0 then ops.ofF fzero
                            else ops.contained (len K i0) (len K m2) (K.scaled m2),
              fUniqueToQuery := fUniq,
              fUniqueWeighted := if ignoreAbund then fUniq else F64.divNat nuw g.totalWeighted,
              avgAbund := if ignoreAbund then none else some (nuw, vals.length),
              medAbund := if ignoreAbund then none else some (medianQ vals),
              stdAbund := if ignoreAbund then none else some (ops.std vals),
              remainingBp := noidentLen + len K g1 * K.scaled g1 - len K i1 * s2,
              nUniqueWeightedFound := if ignoreAbund then none else some nuw,
              sumWeightedFound := sumWeightedFound,
              totalWeightedHashes := g.totalWeighted,
              queryBp := origQueryLen * K.scaled g.origSigMh,
              queryNHashes := origQueryLen,
              queryAbundance := !ignoreAbund,
              isectOrig := K.mins i0, isectCur := K.mins i1,
              matchLen := len K g2, curLen := len K g1 }

/-- the part of `__next__` after `_find_best` returned a match -/
def GD.report {σ : Type} (ops : ScoreOps σ) (g : GD α) (best : Sig α) :
    Except GErr (GD α × Option (GRes σ)) :=
  let matchScaled := K.scaled best.mh
  if matchScaled = 0 then .error .assertion
  else
    match g.updateScaled K matchScaled with
    | .error e => .error e
    | .ok g =>
      let scaled := g.cmpScaled
      let origQueryLen := len K g.origQueryMh + len K g.noidentMh
      match K.dsF g.query scaled with
      | .error e => .error e
      | .ok queryMh =>
        match K.dsF best.mh scaled with
        | .error e => .error e
        | .ok found0 =>
          match K.flat found0 with
          | .error e => .error e
          | .ok foundMh =>
            let newQuery := K.removeFrom (K.toMutable queryMh) foundMh
            match abSum g.origQueryAbunds (K.mins newQuery) with
            | .error e => .error e
            | .ok missed =>
              let sumWeightedFound := g.totalWeighted - (missed + g.noidentSum)
              match buildResult K ops g best scaled g.query sumWeightedFound origQueryLen
                      (len K g.noidentMh * K.scaled g.noidentMh) with
              | .error e => .error e
              | .ok res => .ok ({ g with resultN := g.resultN + 1, query := newQuery }, some res)

/-- `GatherDatabases.__next__`: `none` = `StopIteration` -/
def GD.next {σ : Type} (ops : ScoreOps σ) (g : GD α) : Except GErr (GD α × Option (GRes σ)) :=
  if len K g.query = 0 then .ok (g, none)
  else
    match findBest K ops g.counters g.query g.thresholdBp with
    | .error e => .error e
    | .ok (cs, none) => .ok ({ g with counters := cs }, none)
    | .ok (cs, some (_, best, _)) => GD.report K ops { g with counters := cs } best

/-- `for result in gather_iter: ...` with at most `fuel` calls of `__next__`; the iteration ends at the
    first `StopIteration` -/
def GD.run {σ : Type} (ops : ScoreOps σ) : Nat → GD α → Except GErr (GD α × List (GRes σ))
  | 0, g => .ok (g, [])
  | fuel + 1, g =>
    match g.next K ops with
    | .error e => .error e
    | .ok (g', none) => .ok (g', [])
    | .ok (g', some r) =>
      match GD.run ops fuel g' with
      | .error e => .error e
      | .ok (g'', rs) => .ok (g'', r :: rs)

end

end Sm.Gather
