/-
Executable model of `src/sourmash/distance_utils.py` and of the ANI wrappers of
`src/sourmash/minhash.py` (C17).

Two layers:

1. DECISION LOGIC, generic in the number type `V` (instantiated with `Float` by the driver and
   with `ℝ` by the theorems): `check_distance`, `check_prob_threshold`, `check_jaccard_error`,
   the three result classes `ANIResult` / `jaccardANIResult` / `ciANIResult` with their
   `__post_init__` and their `ani`, `ani_low`, `ani_high` properties, the averaging rule of
   `avg_containment_ani`, the size-accuracy flag the MinHash wrappers set.  Only comparisons
   and `1 - x` occur: on `Float` these are exact IEEE-754 operations, nothing is approximated.

2. CLOSED FORMS on `Float` (binary64; `Float.pow/exp/log` are the C library's, as are Python's
   `**`, `math.exp`, `math.log`): `r1_to_q`, `exp_n_mutated`, `var_n_mutated`,
   `get_exp_probability_nothing_common`, `containment_to_distance` (the confidence interval is an
   INPUT: `scipy.optimize.brentq` is not modelled), `jaccard_to_distance`, transcribed operation
   by operation in Python's evaluation order.  Their rounding is not the subject of any theorem;
   the theorems about the closed forms are over ℝ (Props/C17.lean).

The default thresholds (1e-3, 1e-4) and the way the native twin treats a failed root search are the
constants `Sm.Gen.ani*` that harness/translators/ani.py re-reads from the sources on every run.

Imports only other Model files.
-/
import SmVerif.Model.Generated

namespace Sm.Ani

/-! ### 1. decision logic -/

section Decision

variable {V : Type} [LE V] [LT V] [DecidableLE V] [DecidableLT V] [Sub V] [OfNat V 0] [OfNat V 1]

/-- `check_distance`: `if not 0 <= dist <= 1: raise ValueError` -/
def checkDistance (d : V) : Except String V :=
  if (0 : V) ≤ d ∧ d ≤ 1 then .ok d else .error "ValueError"

/-- `check_prob_threshold` / `check_jaccard_error`: `threshold is not None and val > threshold` -/
def exceeds (val : V) (threshold : Option V) : Bool :=
  match threshold with
  | none => false
  | some t => decide (t < val)

/-- `ANIResult` after `__post_init__` -/
structure ANIResult (V : Type) where
  dist : V
  pNothing : V
  pThreshold : Option V
  sizeIsInaccurate : Bool
  pExceeds : Bool

/-- `ANIResult(dist, p_nothing_in_common, p_threshold, size_is_inaccurate)` -/
def ANIResult.new (dist p : V) (pThreshold : Option V) (sizeIsInaccurate : Bool) : Except String (ANIResult V) := do
  let d ← checkDistance dist
  pure { dist := d, pNothing := p, pThreshold, sizeIsInaccurate, pExceeds := exceeds p pThreshold }

/-- `ANIResult.ani` -/
def ANIResult.ani (r : ANIResult V) : Option V :=
  if r.sizeIsInaccurate then none else some (1 - r.dist)

/-- `jaccardANIResult` after `__post_init__` -/
structure JaccardANIResult (V : Type) extends ANIResult V where
  jaccardError : V
  jeThreshold : Option V
  jeExceeds : Bool

/-- `jaccardANIResult(dist, p, jaccard_error=…, p_threshold=…, je_threshold=…)`: distance first, then
    `jaccard_error is None -> ValueError` -/
def JaccardANIResult.new (dist p : V) (pThreshold : Option V) (sizeIsInaccurate : Bool)
    (jaccardError : Option V) (jeThreshold : Option V) : Except String (JaccardANIResult V) := do
  let base ← ANIResult.new dist p pThreshold sizeIsInaccurate
  match jaccardError with
  | none => .error "ValueError"
  | some e => pure { toANIResult := base, jaccardError := e, jeThreshold, jeExceeds := exceeds e jeThreshold }

/-- `jaccardANIResult.ani` -/
def JaccardANIResult.ani (r : JaccardANIResult V) : Option V :=
  if r.jeExceeds || r.sizeIsInaccurate then none else some (1 - r.dist)

/-- `ciANIResult` after `__post_init__` -/
structure CiANIResult (V : Type) extends ANIResult V where
  distLow : Option V
  distHigh : Option V

/-- `ciANIResult(dist, p, dist_low=…, dist_high=…, p_threshold=…)`: the bounds are range-checked only
    when BOTH are present -/
def CiANIResult.new (dist p : V) (pThreshold : Option V) (sizeIsInaccurate : Bool)
    (distLow distHigh : Option V) : Except String (CiANIResult V) := do
  let base ← ANIResult.new dist p pThreshold sizeIsInaccurate
  match distLow, distHigh with
  | some lo, some hi => do
    let lo ← checkDistance lo
    let hi ← checkDistance hi
    pure { toANIResult := base, distLow := some lo, distHigh := some hi }
  | lo, hi => pure { toANIResult := base, distLow := lo, distHigh := hi }

def CiANIResult.ani (r : CiANIResult V) : Option V := r.toANIResult.ani

/-- `ani_low`: `None if dist_high is None or size_is_inaccurate else 1 - dist_high` -/
def CiANIResult.aniLow (r : CiANIResult V) : Option V :=
  match r.distHigh with
  | none => none
  | some h => if r.sizeIsInaccurate then none else some (1 - h)

/-- `ani_high`: `None if dist_low is None or size_is_inaccurate else 1 - dist_low` -/
def CiANIResult.aniHigh (r : CiANIResult V) : Option V :=
  match r.distLow with
  | none => none
  | some l => if r.sizeIsInaccurate then none else some (1 - l)

/-- the MinHash wrappers: `if not self.size_is_accurate() or not other.size_is_accurate():
    result.size_is_inaccurate = True` -/
def sizeFlag (accSelf accOther : Bool) : Bool := !accSelf || !accOther

end Decision

/-- `avg_containment_ani`: `None if any([a1 is None, a2 is None]) else (a1 + a2) / 2` -/
def avgAni {V : Type} (avg : V → V → V) (a1 a2 : Option V) : Option V :=
  match a1, a2 with
  | some x, some y => some (avg x y)
  | _, _ => none

/-- `estimate_all_containment_ani`: `max_containment_ani = None if any None else max(a1, a2)` -/
def maxAni {V : Type} (mx : V → V → V) (a1 a2 : Option V) : Option V :=
  match a1, a2 with
  | some x, some y => some (mx x y)
  | _, _ => none

/-! ### 1b. the comparison / result classes (`sketchcomparison.py`, `search.py`): plumbing only

Which MinHash-level answer feeds which field, how None propagates, max / average of two optional values,
which cells of the CSV row are written.  The MinHash-level answers (on the sketches downsampled to the
comparison scaled) are INPUTS. -/

/-- what a `containment_ani` / `max_containment_ani` call returns, as far as the classes look at it -/
structure CiAns (V : Type) where
  ani : Option V
  lo : Option V
  hi : Option V
  px : Bool

/-- … and a `jaccard_ani` call -/
structure JacAns (V : Type) where
  ani : Option V
  px : Bool
  jx : Bool

/-- `estimate_ani_from_mh1_containment_in_mh2` (and `…mh2…mh1`, `estimate_max_containment_ani`): `.ani` is copied,
    `potential_false_negative` is set when `p_exceeds_threshold`, the bounds are copied only `if self.estimate_ani_ci` -/
def cmpDirectional {V : Type} (ci : Bool) (r : CiAns V) : CiAns V :=
  { ani := r.ani, lo := if ci then r.lo else none, hi := if ci then r.hi else none, px := r.px }

/-- `FracMinHashComparison.avg_containment_ani` (property): both directional estimates, None if either is None,
    else `(a + b) / 2`; second component = `potential_false_negative` afterwards -/
def cmpAvgProperty {V : Type} (avg : V → V → V) (r12 r21 : CiAns V) : Option V × Bool :=
  (avgAni avg r12.ani r21.ani, r12.px || r21.px)

/-- `estimate_all_containment_ani()`: the two directional values, `max_containment_ani = None if either is None else max(..)` -/
def cmpEstimateAll {V : Type} (mx : V → V → V) (r12 r21 : CiAns V) : Option V × Option V × Option V × Bool :=
  (r12.ani, r21.ani, maxAni mx r12.ani r21.ani, r12.px || r21.px)

/-- `size_may_be_inaccurate` -/
def cmpSizeMayBeInaccurate (acc1 acc2 : Bool) : Bool := !acc1 || !acc2

/-- the ANI fields of `PrefetchResult` / `GatherResult` (`estimate_containment_ani` + `handle_ani_ci`) -/
structure PrefetchAni (V : Type) where
  query : Option V
  «match» : Option V
  average : Option V
  max : Option V
  pfn : Bool
  qlo : Option V
  qhi : Option V
  mlo : Option V
  mhi : Option V

def prefetchAni {V : Type} (ci : Bool) (avg mx : V → V → V) (r12 r21 : CiAns V) : PrefetchAni V :=
  let d12 := cmpDirectional ci r12
  let d21 := cmpDirectional ci r21
  let all := cmpEstimateAll mx r12 r21
  { query := all.1, «match» := all.2.1, average := (cmpAvgProperty avg r12 r21).1, max := all.2.2.1, pfn := all.2.2.2,
    qlo := d12.lo, qhi := d12.hi, mlo := d21.lo, mhi := d21.hi }

/-- `BaseResult.to_write`: a column is written iff its value `is not None` (so 0.0 IS written) -/
def csvPresent {V : Type} (v : Option V) : Bool := v.isSome

inductive SearchKind where
  | containment | maxContainment | jaccard
deriving DecidableEq, Repr

/-- `SearchResult.estimate_search_ani`: which estimate becomes `ani` (+ bounds, + `potential_false_negative`) -/
def searchAni {V : Type} (kind : SearchKind) (ci : Bool) (r12 mc : CiAns V) (j : Except String (JacAns V)) :
    Except String (CiAns V) :=
  match kind with
  | .containment => .ok (cmpDirectional ci r12)
  | .maxContainment => .ok (cmpDirectional ci mc)
  | .jaccard => j.map fun r => { ani := r.ani, lo := none, hi := none, px := r.px }

/-- the compare-level entry points (`sourmash.compare`, `return_ani=True`): `ani = result.ani; if ani is None: ani = 0.0`
    on EVERY path (serial loop bodies and the per-pair worker of the multi-process path) -/
def compareAniEntry {V : Type} (zero : V) (a : Option V) : V := a.getD zero

/-- `compare_serial_avg_containment(return_ani=True)`: mean of the two directional estimates, 0.0 if either is withheld -/
def compareAvgAniEntry {V : Type} (avg : V → V → V) (zero : V) (a1 a2 : Option V) : V :=
  compareAniEntry zero (avgAni avg a1 a2)

/-! ### 2. closed forms on binary64 -/

/-- `r1_to_q(k, r1) = 1 - (1 - r1) ** k` -/
def r1ToQ (k : Nat) (r1 : Float) : Float := 1 - Float.pow (1 - r1) k.toFloat

/-- `exp_n_mutated(L, k, r1) = L * q` -/
def expNMutated (L : Float) (k : Nat) (r1 : Float) : Float := L * r1ToQ k r1

/-- `var_n_mutated(L, k, r1)`; `varN < 0.0 -> ValueError` -/
def varNMutated (L : Float) (k : Nat) (r1 : Float) : Except String Float :=
  if r1 == 0 then .ok 0.0 else
  let q := r1ToQ k r1
  let kf := k.toFloat
  let twoK := (2 * k).toFloat
  let t1 := L * (1 - q) * (q * (twoK + (2 / r1) - 1) - twoK)
  let t2 := (k * (k - 1)).toFloat * Float.pow (1 - q) 2
  let t3 := (2 * (1 - q) / Float.pow r1 2) * ((1 + (kf - 1) * (1 - q)) * r1 - q)
  let varN := t1 + t2 + t3
  if varN < 0.0 then .error "ValueError" else .ok varN

/-- `get_exp_probability_nothing_common(mutation_rate, ksize, scaled, n_unique_kmers=…)`.
    `math.log(1.0 - f_scaled)` raises for `scaled = 1`; the bare `except:` turns that into `-inf` -/
def pNothingInCommon (r : Float) (k : Nat) (scaled : Float) (n : Float) : Float :=
  let fScaled := 1.0 / scaled
  if r == 1.0 then 1.0
  else if r == 0.0 then 0.0
  else
    let arg := 1.0 - fScaled
    if arg ≤ 0.0 then Float.exp (-(1.0 / 0.0))
    else Float.exp ((n - expNMutated n k r) * Float.log arg)

/-- point estimate of `containment_to_distance`: `1.0 - containment ** (1.0 / ksize)`, exact at 0 and 1 -/
def distFromContainment (c : Float) (k : Nat) : Float :=
  if c == 0 then 1.0 else if c == 1 then 0.0 else 1.0 - Float.pow c (1.0 / k.toFloat)

/-- `containment_to_distance(containment, ksize, scaled, n_unique_kmers=n, estimate_ci=…)`;
    `ci` = what the `brentq` block produced: `none` when `estimate_ci=False` or `brentq` raised,
    `some (sol2, sol1)` otherwise (for containment 0 / 1 the code sets both to the point estimate) -/
def containmentToDistance (c : Float) (k : Nat) (scaled n : Float) (pThreshold : Option Float)
    (ci : Option (Float × Float)) : Except String (CiANIResult Float) :=
  let point := distFromContainment c k
  let ci := if c == 0 || c == 1 then some (point, point) else ci
  let p := pNothingInCommon point k scaled n
  CiANIResult.new point p pThreshold false (ci.map (·.1)) (ci.map (·.2))

/-- point estimate of `jaccard_to_distance`: `1.0 - (2.0 * j / float(1 + j)) ** (1.0 / float(ksize))` -/
def distFromJaccard (j : Float) (k : Nat) : Float :=
  if j == 0 then 1.0 else if j == 1 then 0.0 else 1.0 - Float.pow (2.0 * j / (1 + j)) (1.0 / k.toFloat)

/-- `jaccard_to_distance(jaccard, ksize, scaled, n_unique_kmers=n, …)` -/
def jaccardToDistance (j : Float) (k : Nat) (scaled n : Float) (pThreshold eThreshold : Option Float) :
    Except String (JaccardANIResult Float) := do
  let point := distFromJaccard j k
  let err ← if j == 0 || j == 1 then pure 0.0 else do
    let expN := expNMutated n k point
    let varN ← varNMutated n k point
    pure (1.0 * n * varN / Float.pow (n + expN) 3)
  let p := pNothingInCommon point k scaled n
  JaccardANIResult.new point p pThreshold false (some err) eThreshold

/-- Python `round(x)` for a non-negative float: half to even -/
def roundHalfEven (x : Float) : Float :=
  let f := x.floor
  let d := x - f
  if d < 0.5 then f else if d > 0.5 then f + 1
  else if (f / 2).floor * 2 == f then f else f + 1

/-- `MinHash.containment_ani(other)` given `containment = self.contained_by(other)` (C05's business),
    `len(self)` and the two `size_is_accurate()` answers -/
def mhContainmentAni (containment : Float) (k : Nat) (scaled lenSelf : Nat) (accSelf accOther : Bool) :
    Except String (CiANIResult Float) := do
  let r ← containmentToDistance containment k scaled.toFloat (lenSelf * scaled).toFloat (some Gen.aniPThreshold) none
  pure { r with sizeIsInaccurate := sizeFlag accSelf accOther }

/-- `MinHash.max_containment_ani(other)`: `n_kmers = min(len(self), len(other)) * scaled` -/
def mhMaxContainmentAni (maxContainment : Float) (k : Nat) (scaled lenSelf lenOther : Nat)
    (accSelf accOther : Bool) : Except String (CiANIResult Float) := do
  let r ← containmentToDistance maxContainment k scaled.toFloat
    ((Nat.min lenSelf lenOther) * scaled).toFloat (some Gen.aniPThreshold) none
  pure { r with sizeIsInaccurate := sizeFlag accSelf accOther }

/-- `MinHash.jaccard_ani(other)`: `avg_n_kmers = round((len(self) + len(other)) / 2 * scaled)` -/
def mhJaccardAni (jaccard : Float) (k : Nat) (scaled lenSelf lenOther : Nat) (accSelf accOther : Bool) :
    Except String (JaccardANIResult Float) := do
  let avgN := roundHalfEven ((lenSelf + lenOther).toFloat / 2 * scaled.toFloat)
  let r ← jaccardToDistance jaccard k scaled.toFloat avgN (some Gen.aniPThreshold) (some Gen.aniJeThreshold)
  pure { r with sizeIsInaccurate := sizeFlag accSelf accOther }

/-- `MinHash.avg_containment_ani(other)` -/
def mhAvgContainmentAni (c12 c21 : Float) (k : Nat) (scaled len1 len2 : Nat) (acc1 acc2 : Bool) :
    Except String (Option Float) := do
  let r1 ← mhContainmentAni c12 k scaled len1 acc1 acc2
  let r2 ← mhContainmentAni c21 k scaled len2 acc2 acc1
  pure (avgAni (fun x y => (x + y) / 2) r1.ani r2.ani)

/-! ### the native twin (`src/core/src/ani_utils.rs`), same shapes -/

/-- `ani_from_containment`: `1.0 - (1.0 - containment.powf(1.0 / ksize))`, exact at 0 and 1 -/
def rustAniFromContainment (c : Float) (k : Float) : Float :=
  if c == 0.0 then 0.0 else if c == 1.0 then 1.0 else 1.0 - (1.0 - Float.pow c (1.0 / k))

/-- decision skeleton of `ani_ci_from_containment`: a failed root search (`none`) is replaced by the default
    `0.0` (`find_root_brent(..).unwrap_or_default()`), i.e. by an ANI bound of exactly 1; were the error
    propagated instead (`Gen.aniRustCiDefaultsOnFailure = false`) the interval would be withheld -/
def rustAniCi {V : Type} [Sub V] [OfNat V 0] [OfNat V 1] (root1 root2 : Option V) : Option (V × V) :=
  if Gen.aniRustCiDefaultsOnFailure then some (1 - root1.getD 0, 1 - root2.getD 0)
  else match root1, root2 with
    | some r1, some r2 => some (1 - r1, 1 - r2)
    | _, _ => none

/-- `f64::powi(a, b)` for `b ≥ 0`: compiler-builtins' `__powidf2` (binary exponentiation by multiplication only:
    `mul = 1; loop { if b & 1 { mul *= a }; b >>= 1; if b == 0 { break }; a *= a }`) -/
def rustPowiAux : Nat → Float → Nat → Float → Float
  | 0, _, _, mul => mul
  | fuel + 1, a, b, mul =>
    let mul := if b % 2 = 1 then mul * a else mul
    let b := b / 2
    if b = 0 then mul else rustPowiAux fuel (a * a) b mul

def rustPowi (a : Float) (b : Nat) : Float := rustPowiAux 64 a b 1.0

/-- `r1_to_q(k, r1) = 1.0 - (1.0 - r1).powi(k as i32)` (Python uses the C library's `pow` here) -/
def rustR1ToQ (k : Nat) (r1 : Float) : Float := 1.0 - rustPowi (1.0 - r1) k

/-- `exp_n_mutated(l, k, r1) = l * q` -/
def rustExpNMutated (l : Float) (k : Nat) (r1 : Float) : Float := l * rustR1ToQ k r1

/-- `var_n_mutated(l, k, r1, None)`; `var_n < 0.0` -> `Err(ANIEstimationError)` -/
def rustVarNMutated (l : Float) (k : Nat) (r1 : Float) : Except String Float :=
  if r1 == 0.0 then .ok 0.0 else
  let q := rustR1ToQ k r1
  let kf := k.toFloat
  let varN := l * (1.0 - q) * (q * (2.0 * kf + (2.0 / r1) - 1.0) - 2.0 * kf)
    + kf * (kf - 1.0) * rustPowi (1.0 - q) 2
    + (2.0 * (1.0 - q) / rustPowi r1 2) * ((1.0 + (kf - 1.0) * (1.0 - q)) * r1 - q)
  if varN < 0.0 then .error "ANIEstimationError" else .ok varN

/-- `exp_n_mutated_squared(l, k, p) = var_n_mutated(l, k, p)? + exp_n_mutated(l, k, p).powi(2)` -/
def rustExpNMutatedSquared (l : Float) (k : Nat) (p : Float) : Except String Float := do
  let v ← rustVarNMutated l k p
  pure (v + rustPowi (rustExpNMutated l k p) 2)

/-- `get_exp_probability_nothing_common(ani_estimate, ksize, f_scaled, n_unique_kmers)` -/
def rustPNothingInCommon (ani : Float) (k : Nat) (fScaled n : Float) : Float :=
  if ani == 0.0 || ani == 1.0 then 1.0 - ani else
  let expNmut := rustExpNMutated n k (1.0 - ani)
  let elp := (n - expNmut) * Float.log (1.0 - fScaled)
  let elp := if elp.isInf then -(1.0 / 0.0) else elp
  Float.exp elp

/-- the two exact branches of `ani_ci_from_containment` (`containment == 0.0 -> (0, 0)`, `== 1.0 -> (1, 1)`);
    everything else goes through `probit` (statrs) and `find_root_brent` (roots), which are not modelled -/
def rustAniCiExact (c : Float) : Option (Float × Float) :=
  if c == 0.0 then some (0.0, 0.0) else if c == 1.0 then some (1.0, 1.0) else none

/-- the ANI point fields of the native `GatherResult` (`calculate_gather_stats`, src/core/src/index/mod.rs):
    `f_orig_query = |match ∩ orig_query| / |orig_query|`, `f_match_orig = |match ∩ orig_query| / |match|` (no bias correction,
    no size-accuracy test), `query/match_containment_ani = ani_from_containment(f, ksize)`, their mean and `f64::max`.
    Returns (query, match, average, max, f_orig_query, f_match_orig). -/
def rustGatherAni (isect lenQuery lenMatch k : Nat) : Float × Float × Float × Float × Float × Float :=
  let fq := isect.toFloat / lenQuery.toFloat
  let fm := isect.toFloat / lenMatch.toFloat
  let q := rustAniFromContainment fq k.toFloat
  let m := rustAniFromContainment fm k.toFloat
  (q, m, (q + m) / 2.0, if q < m then m else q, fq, fm)

/-! ### `MinHash.size_is_accurate` / `set_size_exact_prob`: the decision structure

`binom.cdf` / `binom.pmf` (scipy) are parameters.  `size_is_accurate(relative_error=0.20, confidence=0.95)`:
TypeError for a num sketch, ValueError unless both parameters are in [0,1], then
`set_size_exact_prob(len * scaled, scaled, relative_error=…) >= confidence`. -/

/-- `set_size_exact_prob`: `pmf_arg = -set_size / scaled * (relative_error - 1)`; when it is an integer the
    lower boundary point is added back (`+ binom.pmf(pmf_arg, …)`), otherwise not -/
def setSizeExactProb {V : Type} [Add V] [Sub V] (pmfArgIsInt : Bool) (cdfHi cdfLo pmfLo : V) : V :=
  if pmfArgIsInt then cdfHi - cdfLo + pmfLo else cdfHi - cdfLo

/-- the three arguments of the scipy calls, binary64, in Python's operation order:
    `set_size / scaled * (relative_error + 1)`, `-set_size / scaled * (relative_error - 1)`, and whether the latter
    `== int(…)` -/
def setSizeArgs (setSize scaled : Nat) (relErr : Float) : Float × Float × Bool :=
  let hi := setSize.toFloat / scaled.toFloat * (relErr + 1)
  let lo := -(setSize.toFloat) / scaled.toFloat * (relErr - 1)
  (hi, lo, lo.isFinite && lo == (if lo < 0 then lo.ceil else lo.floor))

inductive SizeAcc where
  | typeError      -- not a scaled sketch
  | valueError     -- relative_error / confidence outside [0,1]
  | answer (accurate : Bool)
deriving DecidableEq, Repr

/-- `MinHash.size_is_accurate`: parameter checks, then `probability >= confidence` -/
def sizeIsAccurate {V : Type} [LE V] [DecidableLE V] [OfNat V 0] [OfNat V 1]
    (scaled : Nat) (relErr confidence probability : V) : SizeAcc :=
  if scaled = 0 then .typeError
  else if ¬ ((0 : V) ≤ relErr ∧ relErr ≤ 1) ∨ ¬ ((0 : V) ≤ confidence ∧ confidence ≤ 1) then .valueError
  else .answer (decide (confidence ≤ probability))

/-- the deprecated `set_size_chernoff` is not called by `size_is_accurate` (the translator checks that) -/
def sizeAccuracyFormula : String := "set_size_exact_prob"

end Sm.Ani
