/-
Driver for the `nodegraph` correspondence sub-stream (C13): a table of Nodegraph handles.
-/
import SmVerif.Model.Nodegraph
import SmVerif.Model.Proto

namespace Sm.DriverNodegraph

open Sm.Proto

abbrev St := Array (Option NG)

def init : St := Array.replicate 16 none

def get (st : St) (i : Nat) : Option NG := (st[i]?).join
def put (st : St) (i : Nat) (g : NG) : St := st.setIfInBounds i (some g)

def showNG (g : NG) : String := s!"ok sizes={joinNats g.sizes} occ={g.occupied}"

def errName : NG.Err → String
  | .panic => "Panic"
  | .io => "Io"

/-- a position-weighted checksum both sides compute on the raw image -/
def checksum (l : List Nat) : Nat :=
  (l.foldl (fun (acc : Nat × Nat) b => ((acc.1 + (acc.2 + 1) * (b + 1)) % 1000000007, acc.2 + 1)) (0, 0)).1

def showBytes (l : List Nat) : String :=
  let full := if l.length ≤ 160 then " bytes=" ++ joinNats l else ""
  s!"ok len={l.length} ck={checksum l}{full}"

def sortDedup (l : List Nat) : List Nat := (l.mergeSort (· ≤ ·)).eraseDups

/-- nodegraph.rs `_hash` of a k-mer over ACGT: the smaller of the 2-bit encodings of the k-mer
(`A=0, C=2, G=3, T=1`) and of its reverse complement (`A=1, C=3, G=2, T=0`, read backwards) -/
def khash? (kmer : String) : Option Nat :=
  let cs := kmer.toList
  let fw (c : Char) : Option Nat := match c with | 'A' => some 0 | 'C' => some 2 | 'G' => some 3 | 'T' => some 1 | _ => none
  let rc (c : Char) : Option Nat := match c with | 'A' => some 1 | 'C' => some 3 | 'G' => some 2 | 'T' => some 0 | _ => none
  match cs.mapM fw, cs.reverse.mapM rc with
  | some f, some r =>
    if cs.isEmpty then none else
    some (min (f.foldl (fun acc x => acc * 4 + x) 0) (r.foldl (fun acc x => acc * 4 + x) 0))
  | _, _ => none

def step (st : St) (line : String) : St × String :=
  let bad := (st, "bad-op")
  match words line with
  | "#" :: _ => (init, "#")
  | ["new", r, ksize, size, nt] =>
    match nats? [r, ksize, size, nt] with
    | some [r, ksize, size, nt] =>
      if size = 0 then bad else
      let g := NG.withTables size nt ksize
      (put st r g, showNG g)
    | _ => bad
  | ["count", r, h] =>
    match nats? [r, h] with
    | some [r, h] => match get st r with
      | some g => let (g', isNew) := g.count h; (put st r g', s!"ok {b2s isNew} occ={g'.occupied}")
      | none => bad
    | _ => bad
  | ["countk", r, kmer] =>
    match nat? r, khash? kmer with
    | some r, some h => match get st r with
      | some g => let (g', isNew) := g.count h; (put st r g', s!"ok {b2s isNew} occ={g'.occupied}")
      | none => bad
    | _, _ => bad
  | ["getk", r, kmer] =>
    match nat? r, khash? kmer with
    | some r, some h => match get st r with
      | some g => (st, s!"ok {g.get h}")
      | none => bad
    | _, _ => bad
  | ["get", r, h] =>
    match nats? [r, h] with
    | some [r, h] => match get st r with
      | some g => (st, s!"ok {g.get h}")
      | none => bad
    | _ => bad
  | "addmany" :: r :: hs =>
    match nat? r, nats? hs with
    | some r, some hs => match get st r with
      | some g => let g' := g.addMany (sortDedup hs); (put st r g', showNG g')
      | none => bad
    | _, _ => bad
  | "matches" :: r :: hs =>
    match nat? r, nats? hs with
    | some r, some hs => match get st r with
      | some g => (st, s!"ok {g.matchCount (sortDedup hs)}")
      | none => bad
    | _, _ => bad
  | ["update", r, s] =>
    match nats? [r, s] with
    | some [r, s] => match get st r, get st s with
      | some g, some o => let g' := g.update o; (put st r g', showNG g')
      | _, _ => bad
    | _ => bad
  | ["show", r] =>
    match nat? r with
    | some r => match get st r with
      | some g => (st, showNG g)
      | none => bad
    | none => bad
  | ["bytes", r] =>
    match nat? r with
    | some r => match get st r with
      | some g => match g.save with
        | .ok l => (st, showBytes l)
        | .error e => (st, "err " ++ errName e)
      | none => bad
    | none => bad
  | ["rt", r, s, _compression] =>
    match nats? [r, s] with
    | some [r, s] => match get st s with
      | some g => match g.save with
        | .ok l => match NG.load l with
          | .ok g' => (put st r g', showNG g')
          | .error e => (st, "err " ++ errName e)
        | .error e => (st, "err " ++ errName e)
      | none => bad
    | _ => bad
  | "loadraw" :: r :: bs =>
    match nat? r, nats? bs with
    | some r, some bs => match NG.load bs with
      | .ok g => (put st r g, showNG g)
      | .error e => (st, "err " ++ errName e)
    | _, _ => bad
  | _ => bad

end Sm.DriverNodegraph
