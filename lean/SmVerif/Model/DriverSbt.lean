/-
Driver for the `sbt` correspondence stream (C13): one tree, one Python-API-level operation
per line.  Which variant of `_rebuild_node`, of `add_node` (rebuild of `_missing_nodes` first) and of
`Node.unload` (dirty flag) the source has is read from it by the translator
(`Sm.Gen.sbtRebuildFixed`, `sbtAddRebuildsMissing`, `sbtUnloadKeepsDirty`).
-/
import SmVerif.Model.SBT
import SmVerif.Model.Generated
import SmVerif.Model.Proto

namespace Sm.DriverSbt

open Sm.Proto Sm.SBT

abbrev St := Option Tree

def init : St := none

def fixed : Bool := Sm.Gen.sbtRebuildFixed
def pre : Bool := Sm.Gen.sbtAddRebuildsMissing
def keep : Bool := Sm.Gen.sbtUnloadKeepsDirty

def sortDedup (l : List Nat) : List Nat := (l.mergeSort (· ≤ ·)).eraseDups

def optNat : Option Nat → String
  | some n => toString n
  | none => "-"

def nodeFields (t : Tree) (p : Nat) (n : INode) : String :=
  let below := t.leavesBelow p
  let cov := (below.filter (fun kv => leafCovered t.sizes n kv.2)).length
  s!"{optNat n.minN}:{(n.data t.sizes).occupied}:{cov}/{below.length}"

def entry (t : Tree) (p : Nat) : String :=
  let l := t.leaves.get? p
  let n := t.nodes.get? p
  let m := t.missing.contains p
  let kinds := (if l.isSome then "L" else "") ++ (if n.isSome then "N" else "") ++ (if m then "M" else "")
  let lf := match l with
    | some l => s!":{l.id}:{l.hashes.length}"
    | none => ""
  let nf := match n with
    | some n => ":" ++ nodeFields t p n
    | none => ""
  s!"{p}:{kinds}{lf}{nf}"

def dump (t : Tree) : String :=
  "ok " ++ " ".intercalate (t.positions.map (entry t))

def probe (t : Tree) (hs : List Nat) : String :=
  let ps := t.positions.filter (fun p => t.nodes.has p)
  "ok " ++ " ".intercalate (ps.map (fun p =>
    match t.nodes.get? p with
    | some n => s!"{p}={(n.data t.sizes).matchCount hs}"
    | none => ""))

def fin (st : St) (r : Except Err Tree) : St × String :=
  match r with
  | .ok t => (some t, "ok")
  | .error e => (st, "err " ++ e.name)

def step (st : St) (line : String) : St × String :=
  let bad := (st, "bad-op")
  match words line with
  | "#" :: _ => (init, "#")
  | ["new", d, bf, nt] =>
    match nats? [d, bf, nt] with
    | some [d, bf, nt] =>
      if bf = 0 then bad else
      let sizes := NG.tableSizes bf nt
      (some (Tree.new d sizes), s!"ok sizes={joinNats sizes}")
    | _ => bad
  | "ins" :: id :: hs =>
    match st, nat? id, nats? hs with
    | some t, some id, some hs =>
      match addNode fixed pre t ⟨id, sortDedup hs⟩ with
      | .ok t' =>
        let pos := match t'.leaves.find? (fun kv => kv.2.id = id) with
          | some kv => toString kv.1
          | none => "-"
        (some t', s!"ok n={t'.leaves.length} pos={pos}")
      | .error e => (st, "err " ++ e.name)
    | _, _, _ => bad
  | ["dump"] =>
    match st with
    | some t => (st, dump t)
    | none => bad
  | "probe" :: hs =>
    match st, nats? hs with
    | some t, some hs => (st, probe t (sortDedup hs))
    | _, _ => bad
  | ["saveload", sp, seed, ver, cache] =>
    match st, nats? [sp, seed, ver, cache] with
    | some t, some [sp, seed, ver, cache] =>
      if ver < 3 ∨ ver > 6 then bad else
      let im := save t (fun p => drawAt seed p ≤ sp)
      fin st (load fixed im ver (if cache = 0 then none else some cache))
    | _, _ => bad
  | "search" :: c :: thr :: hs =>
    match st, bool? c, nat? thr, nats? hs with
    | some t, some c, some thr, some hs =>
      if t.leaves.isEmpty then (st, "err RuntimeError") else
      match search fixed keep t ⟨c, thr, sortDedup hs⟩ with
      | (t', .ok ls) => (some t', "ok " ++ joinNats ((ls.map (·.id)).mergeSort (· ≤ ·)))
      | (t', .error e) => (some t', "err " ++ e.name)
    | _, _, _, _ => bad
  | ["rebuild", p] =>
    match st, nat? p with
    | some t, some p => fin st (rebuild fixed t.rebuildFuel t p)
    | _, _ => bad
  | ["rebuildm", k] =>
    match st, nat? k with
    | some t, some k =>
      let ms := (sortDesc t.missing).reverse
      if ms.isEmpty then (st, "ok") else fin st (rebuild fixed t.rebuildFuel t (ms.getD (k % ms.length) 0))
    | _, _ => bad
  | ["fillint"] =>
    match st with
    | some t => fin st (fillInternal fixed t)
    | none => bad
  | ["fillmin"] =>
    match st with
    | some t => fin st (fillMinNBelow fixed t)
    | none => bad
  | _ => bad

end Sm.DriverSbt
