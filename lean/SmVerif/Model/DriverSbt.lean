/-
Driver for the `sbt` correspondence stream (C13): one tree, one Python-API-level operation
per line.  Which variant of `_rebuild_node`, of `add_node` (rebuild of `_missing_nodes` first) and of
`Node.unload` (dirty flag) the source has is read from it by the translator
(`Sm.Gen.sbtRebuildFixed`, `sbtAddRebuildsMissing`, `sbtUnloadKeepsDirty`).
-/
import SmVerif.Model.SBT
import SmVerif.Model.Generated
import SmVerif.Model.Proto
import SmVerif.Model.Scaled

namespace Sm.DriverSbt

open Sm.Proto Sm.SBT

/-- driver state.  `saved`: image of the last `save` to another location (`saveas`; `SBT.save` leaves the
in-memory tree as it was).  `img`: the index the tree in use was loaded from (version 3-6), for the
file-damage ops.  `stash`: a second tree put aside for `combine`.  `mf`: number of rows of the
manifest the tree carries (loaded from a version 3-6 index), which `tree.signatures()` reads instead
of the leaves.  `skip`: after a file of the index was damaged the model predicts nothing -/
structure S where
  t : Tree
  sT : Nat
  saved : Option Image := none
  img : Option Image := none
  stash : Option Tree := none
  mf : Option Nat := none
  skip : Bool := false
  needNew : Bool := false
  combined : Bool := false     -- the tree went through `combine` (it can have free positions under internal nodes)

abbrev St := Option S

def init : St := none

def fixed : Bool := Sm.Gen.sbtRebuildFixed
def pre : Bool := Sm.Gen.sbtAddRebuildsMissing
def keep : Bool := Sm.Gen.sbtUnloadKeepsDirty
def legacyFills : Bool := Sm.Gen.sbtLegacyFillsMin
def selectEmptyOk : Bool := Sm.Gen.sbtSelectEmptyOk
def insertDropsManifest : Bool := Sm.Gen.sbtInsertDropsManifest
def addNodeClimbs : Bool := Sm.Gen.sbtAddNodeClimbs
def missingOnlyAncestors : Bool := Sm.Gen.sbtMissingOnlyAncestors

/-- the loaders' `_missing_nodes` in the variant that records only absent ancestors of what was loaded
(the same set as `load` computes on every tree without free positions, i.e. every insertion-built one) -/
def trimMissing (t : Tree) : Tree :=
  if missingOnlyAncestors then
    { t with missing := t.missing.filter (fun a =>
        (t.nodes.keys ++ t.leaves.keys).any (fun p => (ancestors t.d p).contains a)) }
  else t

/-- `MinHash(0, 21, scaled=s)` keeps the hashes up to `_get_max_hash_for_scaled(s)` -/
def maxHashOf (s : Nat) : Nat := Sm.mhP s
def keepBelow (s : Nat) (hs : List Nat) : List Nat := hs.filter (fun h => h ≤ maxHashOf s)

/-- what `find` makes of a query of scaled `sQ` on a tree of scaled `sT` -/
def mkQuery (c thr sT sQ : Nat) (hs : List Nat) : Query :=
  let q0 := keepBelow sQ hs
  let mins := if sQ < sT then keepBelow sT q0 else q0
  { containment := c == 1, thr := thr, mins := mins, maxc := c == 2,
    cut := if sQ > sT then some (maxHashOf sQ) else none }

def sortDedup (l : List Nat) : List Nat := (l.mergeSort (· ≤ ·)).eraseDups

def optNat : Option Nat → String
  | some n => toString n
  | none => "-"

def nodeFields (t : Tree) (p : Nat) (n : INode) : String :=
  let below := t.leavesBelow p
  let cov := (below.filter (fun kv => leafCovered t.sizes n kv.2)).length
  s!"{optNat n.minN}:{(n.data t.sizes).occupied}:{cov}/{below.length}"

def entry (t : Tree) (p : Nat) : String :=
  let l := t.leaves.get? p
  let n := t.nodes.get? p
  let m := t.missing.contains p
  let kinds := (if l.isSome then "L" else "") ++ (if n.isSome then "N" else "") ++ (if m then "M" else "")
  let lf := match l with
    | some l => s!":{l.id}:{l.hashes.length}"
    | none => ""
  let nf := match n with
    | some n => ":" ++ nodeFields t p n
    | none => ""
  s!"{p}:{kinds}{lf}{nf}"

def dumpTree (t : Tree) : String :=
  "ok " ++ " ".intercalate (t.positions.map (entry t))

/-- `sv` = how many signatures `tree.signatures()` yields: the manifest's rows when the tree carries
one, else the leaves -/
def dump (t : Tree) (mf : Option Nat) : String :=
  "ok " ++ " ".intercalate (t.positions.map (entry t) ++ [s!"sv={match mf with | some n => n | none => t.leaves.length}"])

def probe (t : Tree) (hs : List Nat) : String :=
  let ps := t.positions.filter (fun p => t.nodes.has p)
  "ok " ++ " ".intercalate (ps.map (fun p =>
    match t.nodes.get? p with
    | some n => s!"{p}={(n.data t.sizes).matchCount hs}"
    | none => ""))

def fin (s : S) (r : Except Err Tree) : St × String :=
  match r with
  | .ok t => (some { s with t := t }, "ok")
  | .error e => (some s, "err " ++ e.name)

def doSearch (s : S) (q : Query) : St × String :=
  if s.t.leaves.isEmpty then (some s, "err RuntimeError") else
  match search fixed keep s.t q with
  | (t', .ok ls) => (some { s with t := t' }, "ok " ++ joinNats ((ls.map (·.id)).mergeSort (· ≤ ·)))
  | (t', .error e) => (some { s with t := t' }, "err " ++ e.name)

def sortedKeys {α : Type} (m : PMap α) : List Nat := (sortDesc m.keys).reverse

def step (st : St) (line : String) : St × String :=
  let bad := (st, "bad-op")
  match words line, st with
  | "#" :: _, _ => (init, "#")
  | "new" :: d :: bf :: nt :: rest, _ =>
    match nats? [d, bf, nt], nats? rest with
    | some [d, bf, nt], some rest =>
      let sT := match rest with | [s] => s | _ => 1
      if bf = 0 ∨ sT = 0 ∨ rest.length > 1 then bad else
      let sizes := NG.tableSizes bf nt
      let stash := match st with | some s => s.stash | none => none
      (some { t := Tree.new d sizes, sT := sT, stash := stash }, s!"ok sizes={joinNats sizes}")
    | _, _ => bad
  | _, none => bad
  | ws, some s =>
    if s.needNew then bad else
    if s.skip then (st, "skip") else
    match ws with
    | "ins" :: id :: hs =>
      match nat? id, nats? hs with
      | some id, some hs =>
        -- the variant of `add_node` that climbs to an existing parent is not modelled; it differs from the modelled one
        -- only on trees with free positions under internal nodes, i.e. after `combine`
        if addNodeClimbs ∧ s.combined then (some { s with skip := true }, "skip") else
        match addNode fixed pre s.t ⟨id, keepBelow s.sT (sortDedup hs)⟩ with
        | .ok t' =>
          let pos := match t'.leaves.find? (fun kv => kv.2.id = id) with
            | some kv => toString kv.1
            | none => "-"
          (some { s with t := t', mf := if insertDropsManifest then none else s.mf }, s!"ok n={t'.leaves.length} pos={pos}")
        | .error e => (st, "err " ++ e.name)
      | _, _ => bad
    | ["dump"] => (st, dump s.t s.mf)
    | ["stash"] =>
      -- the tree in use is put aside (for `combine`); a `new` must follow
      (some { s with stash := some s.t, needNew := true, mf := none, img := none, saved := none }, "ok")
    | ["combine"] =>
      match s.stash with
      | some other =>
        if s.t.leaves.isEmpty ∨ other.leaves.isEmpty ∨ other.d ≠ s.t.d then bad else
        match combine s.t other with
        | .ok t' =>
          -- the node cache is keyed by the positions BEFORE the combination: a source that keeps it answers later
          -- searches from stale node objects, which this model (keys only) cannot follow
          let stale := !Sm.Gen.sbtCombineResetsCache && !s.t.cache.isEmpty
          (some { s with t := { t' with cache := [] }, stash := none, img := none, combined := true, skip := stale },
           s!"ok n={t'.leaves.length}")
        | .error e => (st, "err " ++ e.name)
      | none => bad
    | "probe" :: hs =>
      match nats? hs with
      | some hs => (st, probe s.t (sortDedup hs))
      | none => bad
    | ["saveload", sp, seed, ver, cache] =>
      match nats? [sp, seed, ver, cache] with
      | some [sp, seed, ver, cache] =>
        if ver < 1 ∨ ver > 6 then bad else
        let im := save s.t (fun p => drawAt seed p ≤ sp)
        let cm := if cache = 0 then none else some cache
        if ver ≤ 2 then
          if im.leaves.isEmpty then (st, "err ValueError")
          else if ver = 1 ∧ im.d ≠ 2 then bad
          else fin { s with img := none, mf := none } (loadLegacy fixed legacyFills im cm)
        else fin { s with img := some im, mf := some im.leaves.length } ((load fixed im ver cm).map trimMissing)
      | _ => bad
    | ["saveas", sp, seed, _fmt] =>
      -- save to another location; the in-memory tree stays in use, unchanged
      match nats? [sp, seed] with
      | some [sp, seed] =>
        let (t', im) := saveElsewhere s.t (fun p => drawAt seed p ≤ sp)
        (some { s with t := t', saved := some im }, "ok")
      | _ => bad
    | ["checksaved", cache] =>
      -- load the copy written by the last `saveas` (index version 6) and walk it; the tree in use is not replaced
      match s.saved, nat? cache with
      | some im, some cache =>
        match (load fixed im 6 (if cache = 0 then none else some cache)).map trimMissing with
        | .ok t2 => (st, dump t2 (some t2.leaves.length))
        | .error e => (st, "err " ++ e.name)
      | _, _ => bad
    | ["damage", kind, k] =>
      -- a file of the index the tree was loaded from is damaged and the index loaded again: from here on the
      -- model predicts nothing (`skip`); the oracle demands an error or the right answer, never a wrong one
      match s.img, nat? k with
      | some im, some k =>
        let I := sortedKeys im.nodes
        let L := sortedKeys im.leaves
        if I.isEmpty ∨ L.isEmpty then bad
        else if kind = "swap" ∧ I.length < 2 then bad
        else if kind ∈ ["del", "trunc", "empty", "swapleaf", "swap", "delleaf"] then
          (some { s with skip := true }, "skip")       -- loading the damaged index may already raise
        else bad
      | _, _ => bad
    | "search" :: c :: thr :: hs =>
      match nat? c, nat? thr, nats? hs with
      | some c, some thr, some hs =>
        if c > 1 then bad else doSearch s (mkQuery c thr s.sT s.sT (sortDedup hs))
      | _, _, _ => bad
    | "searchs" :: c :: thr :: sQ :: hs =>
      match nats? [c, thr, sQ], nats? hs with
      | some [c, thr, sQ], some hs =>
        if c > 2 ∨ sQ = 0 then bad else doSearch s (mkQuery c thr s.sT sQ (sortDedup hs))
      | _, _ => bad
    | ["select", ks, sc, cont] =>
      match nats? [ks, sc], bool? cont with
      | some [ks, sc], some cont =>
        let nsig := match s.mf with | some n => n | none => s.t.leaves.length
        if nsig = 0 then (st, if selectEmptyOk then "ok" else "err StopIteration")
        else if ks ≠ 21 then (st, "err ValueError")
        else if sc > s.sT ∧ !cont then (st, "err ValueError")
        else (st, "ok")
      | _, _ => bad
    | ["rebuild", p] =>
      match nat? p with
      | some p => fin s (rebuild fixed s.t.rebuildFuel s.t p)
      | none => bad
    | ["rebuildm", k] =>
      match nat? k with
      | some k =>
        let ms := (sortDesc s.t.missing).reverse
        if ms.isEmpty then (st, "ok") else fin s (rebuild fixed s.t.rebuildFuel s.t (ms.getD (k % ms.length) 0))
      | none => bad
    | ["fillint"] => fin s (fillInternal fixed s.t)
    | ["fillmin"] => fin s (fillMinNBelow fixed s.t)
    | _ => bad

end Sm.DriverSbt
