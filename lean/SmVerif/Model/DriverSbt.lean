/-
Driver for the `sbt` correspondence stream (C13): one tree, one Python-API-level operation
per line.  Which variant of `_rebuild_node`, of `add_node` (rebuild of `_missing_nodes` first) and of
`Node.unload` (dirty flag) the source has is read from it by the translator
(`Sm.Gen.sbtRebuildFixed`, `sbtAddRebuildsMissing`, `sbtUnloadKeepsDirty`).
-/
import SmVerif.Model.SBT
import SmVerif.Model.Generated
import SmVerif.Model.Proto
import SmVerif.Model.Scaled

namespace Sm.DriverSbt

open Sm.Proto Sm.SBT

/-- the tree, the scaled value of its sketches, and the image of the last `save` to another
location (`saveas`).  `SBT.save` leaves the in-memory tree as it was: node contents, the storage a
node was loaded from and its dirty flag are untouched -/
abbrev St := Option (Tree × Nat × Option Image)

def init : St := none

def fixed : Bool := Sm.Gen.sbtRebuildFixed
def pre : Bool := Sm.Gen.sbtAddRebuildsMissing
def keep : Bool := Sm.Gen.sbtUnloadKeepsDirty
def legacyFills : Bool := Sm.Gen.sbtLegacyFillsMin
def selectEmptyOk : Bool := Sm.Gen.sbtSelectEmptyOk

/-- `MinHash(0, 21, scaled=s)` keeps the hashes up to `_get_max_hash_for_scaled(s)` -/
def maxHashOf (s : Nat) : Nat := Sm.mhP s
def keepBelow (s : Nat) (hs : List Nat) : List Nat := hs.filter (fun h => h ≤ maxHashOf s)

/-- what `find` makes of a query of scaled `sQ` on a tree of scaled `sT` -/
def mkQuery (c thr sT sQ : Nat) (hs : List Nat) : Query :=
  let q0 := keepBelow sQ hs
  let mins := if sQ < sT then keepBelow sT q0 else q0
  { containment := c == 1, thr := thr, mins := mins, maxc := c == 2,
    cut := if sQ > sT then some (maxHashOf sQ) else none }

def sortDedup (l : List Nat) : List Nat := (l.mergeSort (· ≤ ·)).eraseDups

def optNat : Option Nat → String
  | some n => toString n
  | none => "-"

def nodeFields (t : Tree) (p : Nat) (n : INode) : String :=
  let below := t.leavesBelow p
  let cov := (below.filter (fun kv => leafCovered t.sizes n kv.2)).length
  s!"{optNat n.minN}:{(n.data t.sizes).occupied}:{cov}/{below.length}"

def entry (t : Tree) (p : Nat) : String :=
  let l := t.leaves.get? p
  let n := t.nodes.get? p
  let m := t.missing.contains p
  let kinds := (if l.isSome then "L" else "") ++ (if n.isSome then "N" else "") ++ (if m then "M" else "")
  let lf := match l with
    | some l => s!":{l.id}:{l.hashes.length}"
    | none => ""
  let nf := match n with
    | some n => ":" ++ nodeFields t p n
    | none => ""
  s!"{p}:{kinds}{lf}{nf}"

def dump (t : Tree) : String :=
  "ok " ++ " ".intercalate (t.positions.map (entry t))

def probe (t : Tree) (hs : List Nat) : String :=
  let ps := t.positions.filter (fun p => t.nodes.has p)
  "ok " ++ " ".intercalate (ps.map (fun p =>
    match t.nodes.get? p with
    | some n => s!"{p}={(n.data t.sizes).matchCount hs}"
    | none => ""))

def fin (st : St) (sT : Nat) (sv : Option Image) (r : Except Err Tree) : St × String :=
  match r with
  | .ok t => (some (t, sT, sv), "ok")
  | .error e => (st, "err " ++ e.name)

def doSearch (st : St) (t : Tree) (sT : Nat) (sv : Option Image) (q : Query) : St × String :=
  if t.leaves.isEmpty then (st, "err RuntimeError") else
  match search fixed keep t q with
  | (t', .ok ls) => (some (t', sT, sv), "ok " ++ joinNats ((ls.map (·.id)).mergeSort (· ≤ ·)))
  | (t', .error e) => (some (t', sT, sv), "err " ++ e.name)

def step (st : St) (line : String) : St × String :=
  let bad := (st, "bad-op")
  match words line with
  | "#" :: _ => (init, "#")
  | "new" :: d :: bf :: nt :: rest =>
    match nats? [d, bf, nt], nats? rest with
    | some [d, bf, nt], some rest =>
      let sT := match rest with | [s] => s | _ => 1
      if bf = 0 ∨ sT = 0 ∨ rest.length > 1 then bad else
      let sizes := NG.tableSizes bf nt
      (some (Tree.new d sizes, sT, none), s!"ok sizes={joinNats sizes}")
    | _, _ => bad
  | "ins" :: id :: hs =>
    match st, nat? id, nats? hs with
    | some (t, sT, sv), some id, some hs =>
      match addNode fixed pre t ⟨id, keepBelow sT (sortDedup hs)⟩ with
      | .ok t' =>
        let pos := match t'.leaves.find? (fun kv => kv.2.id = id) with
          | some kv => toString kv.1
          | none => "-"
        (some (t', sT, sv), s!"ok n={t'.leaves.length} pos={pos}")
      | .error e => (st, "err " ++ e.name)
    | _, _, _ => bad
  | ["dump"] =>
    match st with
    | some (t, _, _) => (st, dump t)
    | none => bad
  | "probe" :: hs =>
    match st, nats? hs with
    | some (t, _, _), some hs => (st, probe t (sortDedup hs))
    | _, _ => bad
  | ["saveload", sp, seed, ver, cache] =>
    match st, nats? [sp, seed, ver, cache] with
    | some (t, sT, sv), some [sp, seed, ver, cache] =>
      if ver < 1 ∨ ver > 6 then bad else
      let im := save t (fun p => drawAt seed p ≤ sp)
      let cm := if cache = 0 then none else some cache
      if ver ≤ 2 then
        if im.leaves.isEmpty then (st, "err ValueError")
        else if ver = 1 ∧ im.d ≠ 2 then bad
        else fin st sT sv (loadLegacy fixed legacyFills im cm)
      else fin st sT sv (load fixed im ver cm)
    | _, _ => bad
  | ["saveas", sp, seed, _fmt] =>
    -- save to another location; the in-memory tree stays in use, unchanged
    match st, nats? [sp, seed] with
    | some (t, sT, _), some [sp, seed] =>
      let (t', im) := saveElsewhere t (fun p => drawAt seed p ≤ sp)
      (some (t', sT, some im), "ok")
    | _, _ => bad
  | ["checksaved", cache] =>
    -- load the copy written by the last `saveas` (index version 6) and walk it; the tree in use is not replaced
    match st, nat? cache with
    | some (_, _, some im), some cache =>
      match load fixed im 6 (if cache = 0 then none else some cache) with
      | .ok t2 => (st, dump t2)
      | .error e => (st, "err " ++ e.name)
    | _, _ => bad
  | "search" :: c :: thr :: hs =>
    match st, nat? c, nat? thr, nats? hs with
    | some (t, sT, sv), some c, some thr, some hs =>
      if c > 1 then bad else doSearch st t sT sv (mkQuery c thr sT sT (sortDedup hs))
    | _, _, _, _ => bad
  | "searchs" :: c :: thr :: sQ :: hs =>
    match st, nats? [c, thr, sQ], nats? hs with
    | some (t, sT, sv), some [c, thr, sQ], some hs =>
      if c > 2 ∨ sQ = 0 then bad else doSearch st t sT sv (mkQuery c thr sT sQ (sortDedup hs))
    | _, _, _ => bad
  | ["select", ks, sc, cont] =>
    match st, nats? [ks, sc], bool? cont with
    | some (t, sT, sv), some [ks, sc], some cont =>
      if t.leaves.isEmpty then (st, if selectEmptyOk then "ok" else "err StopIteration")
      else if ks ≠ 21 then (st, "err ValueError")
      else if sc > sT ∧ !cont then (st, "err ValueError")
      else (st, "ok")
    | _, _, _ => bad
  | ["rebuild", p] =>
    match st, nat? p with
    | some (t, sT, sv), some p => fin st sT sv (rebuild fixed t.rebuildFuel t p)
    | _, _ => bad
  | ["rebuildm", k] =>
    match st, nat? k with
    | some (t, sT, sv), some k =>
      let ms := (sortDesc t.missing).reverse
      if ms.isEmpty then (st, "ok") else fin st sT sv (rebuild fixed t.rebuildFuel t (ms.getD (k % ms.length) 0))
    | _, _ => bad
  | ["fillint"] =>
    match st with
    | some (t, sT, sv) => fin st sT sv (fillInternal fixed t)
    | none => bad
  | ["fillmin"] =>
    match st with
    | some (t, sT, sv) => fin st sT sv (fillMinNBelow fixed t)
    | none => bad
  | _ => bad

end Sm.DriverSbt
