/-
Field-level model of the JSON signature format (C09).

What is modelled (hand-written, branch for branch; literal tables, defaults and
the flags `Gen.*` come from the translator):

* `impl Serialize / Deserialize for KmerMinHash` (src/core/src/sketch/minhash.rs):
  the record written for a sketch, which fields are required, their integer
  ranges, `num := 0 if max_hash != 0`, molecule string <-> hash function with
  case folding, the load-time sort of (min, abundance) pairs, and what goes into
  the md5 cache (`Gen.md5TrustedFromFile`: the md5sum string of the file,
  unverified -- the code before 517223f -- or nothing).
* `struct Signature` serde attributes (src/core/src/signature.rs): defaults,
  `filename: null` vs. `name` omitted, required fields; `load_signatures`
  (flatten to one sketch per signature, `(ksize, moltype)` filter).
* the FFI entry points (src/core/src/ffi/signature.rs): `ksize = 0` means no
  filter, `select_moltype` parsed before the data is read, C-string truncation
  of names at NUL.
* Python (src/sourmash/signature.py, minhash.py): `SourmashSignature(...)`,
  `.minhash`, `__copy__`, `__reduce__`/`__setstate__`, `to_frozen`/`to_mutable`,
  `_detect_input_type`, `load_signatures_from_json`, `save_signatures_to_json`,
  `MinHash.__copy__`/`__getstate__`/`__setstate__` with the x3 / ÷3 k conversion
  and the `hashes` dict.

What is NOT modelled (trusted): JSON text, serde_json, gzip/niffler, the
file system.  A document is the list of its top-level objects with, per known
key, `absent` / `null` / `bad` (present with a value of the wrong JSON type or
not an integer) / `val`.  Keys are assumed to appear in the canonical order
(the order `Serialize` writes them); unknown keys are ignored by serde and do
not appear here.  A sketch record that fails `KmerMinHash` is assumed to fail
the other two variants of the untagged `Sketch` enum as well (no HyperLogLog
fields).

md5: as in `MinHash.lean` the cache of a sketch holds the *pre-image*; a string
read from a file is either the md5 of a pre-image the harness knows (`Md5.pre`)
or an arbitrary string (`Md5.raw`), which lives in `Sk.raw`.
-/
import SmVerif.Model.MinHash

namespace Sm.SigJson

open Sm

/-! ### documents -/

/-- one known key of a JSON object -/
inductive Fld (α : Type) where
  | absent
  | null
  | bad
  | val (a : α)
deriving DecidableEq, Repr, Inhabited

/-- an md5sum string: the md5 of a known pre-image, or any other string -/
inductive Md5 where
  | pre (d : Digest)
  | raw (s : String)
deriving DecidableEq, Repr, Inhabited

structure SkRec where
  num : Fld Nat
  ksize : Fld Nat
  seed : Fld Nat
  maxHash : Fld Nat
  mins : Fld (List Nat)
  md5sum : Fld Md5
  abundances : Fld (List Nat)
  molecule : Fld String
deriving DecidableEq, Repr, Inhabited

structure SigRec where
  cls : Fld String
  email : Fld String
  hashFunction : Fld String
  filename : Fld String
  name : Fld String
  license : Fld String
  signatures : Fld (List SkRec)
  version : Fld String          -- the number token (f64 formatting is serde_json's)
deriving DecidableEq, Repr, Inhabited

abbrev Doc := List SigRec

/-! ### objects in memory -/

/-- a `KmerMinHash` whose md5 cache may hold a string that came from a file -/
structure Sk where
  mh : MH
  raw : Option String := none
deriving DecidableEq, Repr, Inhabited

/-- Rust `Signature` -/
structure Sig where
  cls : String
  email : String
  hashFunction : String
  filename : Option String
  name : Option String
  license : String
  sketches : List Sk
  version : String
deriving DecidableEq, Repr, Inhabited

inductive Err where
  | serde        -- serde_json error                      -> sourmash.exceptions.SerdeError
  | panic        -- `unimplemented!()` behind the landing pad -> sourmash.exceptions.Panic
  | value        -- Python ValueError
  | assertion    -- Python AssertionError
  | internal     -- SourmashError::Internal
  | niffler      -- niffler: file too short / compression feature not compiled in -> sourmash.exceptions.NifflerError
  | mh (e : MH.Err)
deriving DecidableEq, Repr

namespace Sk

def ofMH (m : MH) : Sk := { mh := m, raw := none }

/-- `md5sum()`: the cached string if there is one, else computed and cached -/
def md5sum (s : Sk) : Sk × Md5 :=
  match s.raw with
  | some r => (s, .raw r)
  | none => ({ s with mh := s.mh.md5sum.1 }, .pre s.mh.md5sum.2)

/-- the state after anything that calls `md5sum()` (Serialize, Clone) -/
def touch (s : Sk) : Sk := s.md5sum.1

/-- `Clone`: source with its cache filled, and the copy -/
def clone (s : Sk) : Sk × Sk := (s.touch, s.touch)

def molName (hf : Nat) : String := (Gen.moleculeNames.lookup hf).getD "?"

/-- `impl Serialize for KmerMinHash` -/
def encode (s : Sk) : SkRec :=
  { num := .val s.mh.num, ksize := .val s.mh.ksize, seed := .val s.mh.seed, maxHash := .val s.mh.maxHash,
    mins := .val s.mh.mins, md5sum := .val s.md5sum.2,
    abundances := match s.mh.abunds with
      | some ab => .val ab
      | none => .absent,
    molecule := .val (molName s.mh.hf) }

end Sk

/-! ### Deserialize -/

def reqNat (bound : Nat) : Fld Nat → Except Err Nat
  | .val n => if n < bound then .ok n else .error .serde
  | _ => .error .serde

def allU64 (l : List Nat) : Bool := l.all (fun x => decide (x < 2 ^ 64))

def reqNats : Fld (List Nat) → Except Err (List Nat)
  | .val l => if allU64 l then .ok l else .error .serde
  | _ => .error .serde

def optNats : Fld (List Nat) → Except Err (Option (List Nat))
  | .absent => .ok none
  | .null => .ok none
  | .val l => if allU64 l then .ok (some l) else .error .serde
  | .bad => .error .serde

def req {α : Type} : Fld α → Except Err α
  | .val s => .ok s
  | _ => .error .serde

/-- `#[serde(default ..)]` on a non-optional field -/
def dflt {α : Type} (d : α) : Fld α → Except Err α
  | .absent => .ok d
  | .val s => .ok s
  | _ => .error .serde

/-- an `Option<_>` field -/
def opt {α : Type} : Fld α → Except Err (Option α)
  | .absent => .ok none
  | .null => .ok none
  | .val s => .ok (some s)
  | .bad => .error .serde

def insertNat (x : Nat) : List Nat → List Nat
  | [] => [x]
  | y :: ys => if x ≤ y then x :: y :: ys else y :: insertNat x ys

/-- `values.sort_unstable()` on `Vec<u64>` -/
def sortNat (l : List Nat) : List Nat := l.foldr insertNat []

/-- `to_lowercase()`; computed on character lists so that the kernel can evaluate it.
    (Rust lower-cases by Unicode; no non-ASCII character lower-cases to an ASCII letter of
    "dna" / "protein" / "dayhoff" / "hp", so ASCII folding decides the same matches.) -/
def lower (s : String) : List Char := s.toList.map Char.toLower

/-- look a string up in a (string, code) table, optionally case-folded -/
def lookupStr (tbl : List (String × Nat)) (fold : Bool) (s : String) : Option Nat :=
  (tbl.map (fun p => (p.1.toList, p.2))).lookup (if fold then lower s else s.toList)

def parseMolecule (mol : String) : Except Err Nat :=
  match lookupStr Gen.moleculeParse Gen.moleculeCaseFold mol with
  | some hf => .ok hf
  | none => .error .panic

/-- the load-time ordering of `(mins, abundances)`; `zip` stops at the shorter vector -/
def loadOrder (sorts : Bool) (mins : List Nat) (ab : Option (List Nat)) : List Nat × Option (List Nat) :=
  match ab with
  | some ab =>
    let v := if sorts then MH.sortPairs (mins.zip ab) else mins.zip ab
    (v.map Prod.fst, some (v.map Prod.snd))
  | none => (if sorts then sortNat mins else mins, none)

/-- what `Mutex::new(Some(tmpsig.md5sum))` / `Mutex::new(None)` leaves in the cache -/
def cacheOf (trusted : Bool) (m : Md5) : Option Digest × Option String :=
  if trusted then
    match m with
    | .pre d => (some d, none)
    | .raw r => (none, some r)
  else (none, none)

/-- `impl Deserialize for KmerMinHash`, parameterised by the two translator flags
    that a repair would change -/
def decodeSkWith (trusted sorts : Bool) (r : SkRec) : Except Err Sk := do
  let num ← reqNat (2 ^ 32) r.num
  let ksize ← reqNat (2 ^ 32) r.ksize
  let seed ← reqNat (2 ^ 64) r.seed
  let maxHash ← reqNat (2 ^ 64) r.maxHash
  let md5 ← req r.md5sum
  let mins ← reqNats r.mins
  let ab ← optNats r.abundances
  let mol ← req r.molecule
  let num := if Gen.numZeroedWhenScaled ∧ maxHash ≠ 0 then 0 else num
  let hf ← parseMolecule mol
  let o := loadOrder sorts mins ab
  let c := cacheOf trusted md5
  pure { mh := { num := num, maxHash := maxHash, ksize := ksize, seed := seed, hf := hf,
                 mins := o.1, abunds := o.2, md5 := c.1 },
         raw := c.2 }

def decodeSk (r : SkRec) : Except Err Sk := decodeSkWith Gen.md5TrustedFromFile Gen.loadSortsMins r

namespace Sig

/-- `impl Default for Signature` (what `signature_new()` returns) -/
def default : Sig :=
  { cls := Gen.sigDefaultClass, email := Gen.sigDefaultEmail, hashFunction := Gen.sigDefaultHashFunction,
    filename := none, name := none, license := Gen.sigDefaultLicense, sketches := [],
    version := Gen.sigDefaultVersion }

/-- derived `Serialize`: `filename: None` is written as `null`, `name: None` is skipped -/
def encode (s : Sig) : SigRec :=
  { cls := .val s.cls, email := .val s.email, hashFunction := .val s.hashFunction,
    filename := match s.filename with
      | some f => .val f
      | none => .null,
    name := match s.name with
      | some n => .val n
      | none => .absent,
    license := .val s.license,
    signatures := .val (s.sketches.map Sk.encode),
    version := .val s.version }

def touch (s : Sig) : Sig := { s with sketches := s.sketches.map Sk.touch }

end Sig

/-- a present key whose value has the wrong type is an error where it stands -/
def typed {α : Type} (nullable : Bool) : Fld α → Except Err Unit
  | .bad => .error .serde
  | .null => if nullable then .ok () else .error .serde
  | _ => .ok ()

/-- derived `Deserialize for Signature` over keys in canonical order: values are
    checked as they are met (so a sketch that panics does so before a later key is
    looked at); missing required keys are reported at the end of the object -/
def checkTypes (r : SigRec) : Except Err Unit := do
  typed false r.cls
  typed false r.email
  typed false r.hashFunction
  typed true r.filename
  typed true r.name
  typed false r.license

def decodeSks (trusted sorts : Bool) : Fld (List SkRec) → Except Err (List Sk)
  | .val l => l.mapM (decodeSkWith trusted sorts)
  | .absent => .ok []
  | _ => .error .serde

def finishSig (r : SigRec) (sks : List Sk) : Except Err Sig := do
  typed false r.version
  let cls ← dflt Gen.sigDefaultClass r.cls
  let email ← dflt Gen.sigDefaultEmail r.email
  let hashFunction ← req r.hashFunction
  let filename ← opt r.filename
  let name ← opt r.name
  let license ← dflt Gen.sigDefaultLicense r.license
  let _ ← req r.signatures
  let version ← dflt Gen.sigDefaultVersion r.version
  pure { cls := cls, email := email, hashFunction := hashFunction, filename := filename, name := name,
         license := license, sketches := sks, version := version }

def decodeSigWith (trusted sorts : Bool) (r : SigRec) : Except Err Sig := do
  checkTypes r
  let sks ← decodeSks trusted sorts r.signatures
  finishSig r sks

def decodeSig (r : SigRec) : Except Err Sig := decodeSigWith Gen.md5TrustedFromFile Gen.loadSortsMins r

/-- `Signature::from_reader`: a JSON array of signatures -/
def decodeDocWith (trusted sorts : Bool) (d : Doc) : Except Err (List Sig) := d.mapM (decodeSigWith trusted sorts)

def decodeDoc (d : Doc) : Except Err (List Sig) := decodeDocWith Gen.md5TrustedFromFile Gen.loadSortsMins d

/-- `serde_json::to_writer(&rsigs)` in `signatures_save_buffer` -/
def encodeDoc (sigs : List Sig) : Doc := sigs.map Sig.encode

/-! ### `Signature::load_signatures` -/

/-- one signature per sketch -/
def flatten (sigs : List Sig) : List Sig :=
  sigs.flatMap (fun s => s.sketches.map (fun sk => { s with sketches := [sk] }))

/-- the k the filter compares with -/
def filterK (raw : Bool) (sk : Sk) (k : Nat) : Nat :=
  if raw then k else if sk.mh.hf = 1 then k else k * 3

def keepsWith (raw : Bool) (ksize moltype : Option Nat) (sk : Sk) : Bool :=
  (match ksize with
   | some k => decide (filterK raw sk k = sk.mh.ksize)
   | none => true) &&
  (match moltype with
   | some m => decide (sk.mh.hf = m)
   | none => true)

def keeps (ksize moltype : Option Nat) (sk : Sk) : Bool := keepsWith Gen.loadFilterKsizeRaw ksize moltype sk

def loadSignatures (ksize moltype : Option Nat) (sigs : List Sig) : List Sig :=
  (flatten sigs).filterMap (fun sig =>
    let good := sig.sketches.filter (keeps ksize moltype)
    if good.isEmpty then none else some { sig with sketches := good })

/-! ### FFI -/

/-- `CStr::from_ptr`: a Python string handed over as `char*` ends at its first NUL -/
def cstr (s : String) : String := String.ofList (s.toList.takeWhile (fun c => c ≠ Char.ofNat 0))

/-- `HashFunctions::try_from(&str)` for `select_moltype` -/
def parseMoltype (s : String) : Except Err Nat :=
  match lookupStr Gen.moltypeParse Gen.moltypeCaseFold s with
  | some hf => .ok hf
  | none => .error .panic

/-- `signatures_load_buffer` / `signatures_load_path`; `doc = none`: the bytes are not a JSON value -/
def ffiLoad (doc : Option Doc) (ksize : Nat) (selectMoltype : Option String) : Except Err (List Sig) := do
  let m ← match selectMoltype with
    | none => pure none
    | some s => (parseMoltype (cstr s)).map some
  let k := if ksize = 0 then none else some ksize
  match doc with
  | none => .error .serde
  | some d => do
    let sigs ← decodeDoc d
    pure (loadSignatures k m sigs)

/-- `signature_first_mh` -/
def firstMh (s : Sig) : Except Err Sk :=
  match s.sketches with
  | sk :: _ => .ok sk.touch
  | [] => .error .internal

/-! ### Python: `MinHash` -/

namespace Py

/-- `MinHash.ksize`: stored k, divided by 3 for protein-like sketches (asserting divisibility) -/
def ksizeProp (m : MH) : Except Err Nat :=
  if m.hf = 1 then .ok m.ksize
  else if m.ksize % 3 = 0 then .ok (m.ksize / 3)
  else .error .assertion

/-- the constructor's `ksize * 3` for `is_protein` / `dayhoff` / `hp` -/
def ctorKsize (hf k : Nat) : Nat := if hf = 1 then k else k * 3

/-- `(is_protein, dayhoff, hp)` properties -/
def flagsOf (hf : Nat) : Bool × Bool × Bool := (hf == 2, hf == 3, hf == 4)

/-- which hash function the constructor / `__setstate__` picks from the three flags -/
def hfOfFlags (f : Bool × Bool × Bool) : Nat :=
  if f.2.1 then 3 else if f.2.2 then 4 else if f.1 then 2 else 1

def liftMH {α : Type} (x : Except MH.Err α) : Except Err α :=
  match x with
  | .ok a => .ok a
  | .error e => .error (.mh e)

/-- `MinHash(n, ksize, is_protein=, dayhoff=, hp=, track_abundance=, seed=, max_hash=, scaled=)` -/
def mkMH (n k : Nat) (flags : Bool × Bool × Bool) (seed : Nat) (track : Bool) (maxHash scaled : Nat) :
    Except Err MH :=
  let hf := hfOfFlags flags
  liftMH (Sm.Py.mkMinHash n (ctorKsize hf k) hf seed track maxHash scaled)

/-- a Python dict built from pairs: first-insertion order, last value wins -/
def dictInsert (d : List (Nat × Nat)) (k v : Nat) : List (Nat × Nat) :=
  if d.any (fun p => p.1 == k) then d.map (fun p => if p.1 == k then (k, v) else p) else d ++ [(k, v)]

def dictOf (ps : List (Nat × Nat)) : List (Nat × Nat) := ps.foldl (fun d p => dictInsert d p.1 p.2) []

/-- `MinHash.hashes` -/
def hashes (m : MH) : List (Nat × Nat) := dictOf m.pairs

/-- `MinHash.__copy__` (also `to_mutable` / `to_frozen` of a mutable sketch) -/
def copyMH (m : MH) : Except Err MH := do
  let k ← ksizeProp m
  let a ← mkMH m.num k (flagsOf m.hf) m.seed m.trackAbundance m.maxHash 0
  liftMH (a.merge m)

/-- `__getstate__` then `__setstate__` (pickle; `FrozenMinHash.to_mutable`) -/
def pickleMH (m : MH) : Except Err MH := do
  let k ← ksizeProp m
  let kState := if m.hf = 1 then k else k * 3
  pure (Sm.Py.setState m.num kState (hfOfFlags (flagsOf m.hf)) m.seed m.trackAbundance m.maxHash (hashes m))

/-- the tuple `MinHash.__getstate__` returns (its seventh slot is always `None`): everything a
    pickle of a sketch carries.  There is no md5 in it. -/
structure MHState where
  num : Nat
  ksize : Nat                 -- the STORED k (`self.ksize * 3` for protein-like sketches, see #2262)
  isProtein : Bool
  dayhoff : Bool
  hp : Bool
  hashes : List (Nat × Nat)   -- the `hashes` dict: hash -> abundance (1 for flat sketches)
  track : Bool
  maxHash : Nat
  seed : Nat
deriving DecidableEq, Repr

/-- `MinHash.__getstate__` -/
def getState (m : MH) : Except Err MHState := do
  let k ← ksizeProp m
  let f := flagsOf m.hf
  pure { num := m.num, ksize := if m.hf = 1 then k else k * 3, isProtein := f.1, dayhoff := f.2.1, hp := f.2.2,
         hashes := hashes m, track := m.trackAbundance, maxHash := m.maxHash, seed := m.seed }

/-- `MinHash.__setstate__` / `FrozenMinHash.__setstate__` -/
def ofState (s : MHState) : MH :=
  Sm.Py.setState s.num s.ksize (hfOfFlags (s.isProtein, s.dayhoff, s.hp)) s.seed s.track s.maxHash s.hashes

/-- the arguments `SourmashSignature.__reduce__` hands to the constructor: the sketch (pickled as its
    own state), the name and the filename.  License, class, email, version and hash_function are not
    among them. -/
structure SigState where
  minhash : MHState
  name : String
  filename : String
deriving DecidableEq, Repr

/-! ### Python: `SourmashSignature` -/

/-- `SourmashSignature(minhash, name=, filename=)`: a default envelope, `if name:` / `if filename:`,
    the sketch cloned in -/
def mkSig (mh : Sk) (name filename : String) : Sig :=
  let s := Sig.default
  let s := if name ≠ "" then { s with name := some (cstr name) } else s
  let s := if filename ≠ "" then { s with filename := some (cstr filename) } else s
  { s with sketches := [mh.touch] }

def nameOf (s : Sig) : String := s.name.getD ""
def filenameOf (s : Sig) : String := s.filename.getD ""

/-- `__copy__` of a mutable signature; `to_frozen`; `FrozenSourmashSignature.to_mutable` -/
def copySig (s : Sig) : Except Err Sig := do
  let mh ← firstMh s
  pure (mkSig mh (nameOf s) (filenameOf s))

/-- `SourmashSignature.__reduce__` -/
def reduceSig (s : Sig) : Except Err SigState := do
  let mh ← firstMh s
  let st ← getState mh.mh
  pure { minhash := st, name := nameOf s, filename := filenameOf s }

/-- unpickling: `SourmashSignature(minhash, name, filename)` on the rebuilt sketch -/
def ofSigState (st : SigState) : Sig := mkSig (Sk.ofMH (ofState st.minhash)) st.name st.filename

/-- `pickle.loads(pickle.dumps(sig))`: `__reduce__` pickles the (frozen) sketch -/
def pickleSig (s : Sig) : Except Err Sig := do
  let mh ← firstMh s
  let m ← pickleMH mh.mh
  pure (mkSig (Sk.ofMH m) (nameOf s) (filenameOf s))

/-- `SourmashSignature.from_params(ComputeParameters(ksizes=ks, dna=True, ...))`: ONE signature holding one
    (empty) sketch per k-mer size, in the default envelope -/
def fromParams (ks : List Nat) (scaled num seed : Nat) (track : Bool) : Sig :=
  { Sig.default with sketches := ks.map (fun k => Sk.ofMH (MH.new scaled k 1 seed track num)) }

/-- `SourmashSignature.__eq__` = `signature_eq` = Rust `PartialEq for Signature`: class, email, hash_function,
    filename, name, and the md5 of the FIRST sketch of each (license and version are not compared;
    indexing an empty sketch list panics) -/
def sigEq (a b : Sig) : Except Err Bool :=
  match a.sketches, b.sketches with
  | x :: _, y :: _ =>
    .ok (decide (a.cls = b.cls) && decide (a.email = b.email) && decide (a.hashFunction = b.hashFunction) &&
         decide (a.filename = b.filename) && decide (a.name = b.name) && decide (x.md5sum.2 = y.md5sum.2))
  | _, _ => .error .panic

/-- `MinHash.__eq__`: the two `__getstate__` tuples are equal -/
def mhEq (a b : MH) : Except Err Bool := do
  let sa ← getState a
  let sb ← getState b
  pure (decide (sa = sb))

/-! ### `_detect_input_type` -/

inductive SigInput where
  | fileLike | path | buffer | unknown
deriving DecidableEq, Repr

/-- what `_detect_input_type` can tell apart -/
inductive PyData where
  | fileLike                                   -- has `read` / `fileno` / `mode`
  | str (s : List Char) (isPath : Bool)        -- a `str`; does `os.path.exists` say yes
  | bytes (b : List Nat) (isPath : Bool)       -- a `bytes`
  | other (isPath : Option Bool)               -- no `find`; `os.path.exists` answers or raises
deriving DecidableEq, Repr

/-- `data.find(pat)` -/
def findSub {α : Type} [BEq α] (pat : List α) : List α → Option Nat
  | [] => if pat.isEmpty then some 0 else none
  | x :: xs => if pat.isPrefixOf (x :: xs) then some 0 else (findSub pat xs).map (· + 1)

def hit (r : Option Nat) : Bool :=
  match r with
  | some i => decide (Gen.sniffMinIndex ≤ i)
  | none => false

def litBytes : List Nat := Gen.sniffLiteral.toList.map Char.toNat

/-- `str.isspace()` of a single character (CPython: bidirectional class WS / B / S or category Zs) -/
def pyIsSpace (c : Char) : Bool :=
  let n := c.toNat
  (9 ≤ n && n ≤ 13) || (28 ≤ n && n ≤ 32) || n == 0x85 || n == 0xA0 || n == 0x1680 ||
  (0x2000 ≤ n && n ≤ 0x200A) || n == 0x2028 || n == 0x2029 || n == 0x202F || n == 0x205F || n == 0x3000

/-- `data.lstrip().startswith("[")` -/
def lstripStartsBracket (s : List Char) : Bool :=
  (s.dropWhile pyIsSpace).head? == some '['

/-- `_detect_input_type`; `guard`: text counts as a buffer only if it also starts with `[`
    (the variant before the repair of C09.3 is `guard = false`) -/
def detectInputTypeWith (guard : Bool) : PyData → SigInput
  | .fileLike => .fileLike
  | .str s e =>
    if hit (findSub Gen.sniffLiteral.toList s) && (!guard || lstripStartsBracket s) then .buffer
    else if e then .path else .unknown
  | .bytes b e =>
    if hit (findSub litBytes b) then .buffer
    else if b.take Gen.gzipMagic.length == Gen.gzipMagic then .buffer
    else if e then .path else .unknown
  | .other e =>
    match e with
    | some true => .path
    | _ => .unknown

def detectInputType (d : PyData) : SigInput := detectInputTypeWith Gen.sniffBracketGuard d

/-! ### `load_signatures_from_json` / `save_signatures_to_json` -/

structure LoadIn where
  data : PyData
  empty : Bool             -- `not data`
  bufDoc : Option Doc      -- the JSON value of the text / bytes themselves (after gunzip)
  fileDoc : Option Doc     -- the JSON value of the file `data` names

/-- the loop that yields the results: `sig.to_frozen()` (a copy) or the loaded object itself -/
def finishLoadWith (copies : Bool) (sigs : List Sig) : Except Err (List Sig) :=
  if copies then sigs.mapM copySig else .ok sigs

def finishLoad (sigs : List Sig) : Except Err (List Sig) := finishLoadWith Gen.loaderCopies sigs

def loadFromJson (i : LoadIn) (ksize : Option Nat) (selectMoltype : Option String) (doRaise : Bool) :
    Except Err (List Sig) :=
  if i.empty then .ok []
  else
    let k := ksize.getD 0
    let run (doc : Option Doc) : Except Err (List Sig) :=
      match (do
        let sigs ← ffiLoad doc k selectMoltype
        finishLoad sigs) with
      | .ok r => .ok r
      | .error e => if doRaise then .error e else .ok []
    match detectInputType i.data with
    | .unknown => if doRaise then .error .value else .ok []
    | .path => run i.fileDoc
    | .fileLike => run i.bufDoc
    | .buffer => run i.bufDoc

/-- `load_signatures_from_json(open(path, "rt"))`: a text-mode file object to which the caller keeps no
    other reference.  The function rebinds `data = data.buffer`; the wrapper is then unreferenced, CPython
    finalises it, which closes the buffer, and `data.read()` raises `ValueError: read of closed file`
    (swallowed without `do_raise`).  With another reference alive (`with open(..) as fp:`) it is `loadFromJson`. -/
def loadFromTextTemp (i : LoadIn) (ksize : Option Nat) (selectMoltype : Option String) (doRaise : Bool) :
    Except Err (List Sig) :=
  if Gen.textWrapperDropped then (if doRaise then .error .value else .ok [])
  else loadFromJson i ksize selectMoltype doRaise

/-- `load_one_signature_from_json`: `load_signatures_from_json` WITHOUT `do_raise` (errors are swallowed),
    then exactly one result or ValueError -/
def loadOne (i : LoadIn) (ksize : Option Nat) (selectMoltype : Option String) : Except Err Sig :=
  match loadFromJson i ksize selectMoltype false with
  | .ok [s] => .ok s
  | _ => .error .value

/-- does the JSON text of a document contain the sniffed literal: only string *values* can
    (keys, punctuation, numbers and escape sequences cannot produce it) -/
def mentions (s : String) : Bool := (findSub Gen.sniffLiteral.toList s.toList).isSome

def fldMentions : Fld String → Bool
  | .val s => mentions s
  | _ => false

def skRecMentions (r : SkRec) : Bool :=
  fldMentions r.molecule ||
  (match r.md5sum with
   | .val (.raw s) => mentions s
   | _ => false)

def sigRecMentions (r : SigRec) : Bool :=
  fldMentions r.cls || fldMentions r.email || fldMentions r.hashFunction || fldMentions r.filename ||
  fldMentions r.name || fldMentions r.license ||
  (match r.signatures with
   | .val l => l.any skRecMentions
   | _ => false)

def docMentions (d : Doc) : Bool := d.any sigRecMentions

/-- `save_signatures_to_json(siglist, compression=c)`: the document, and whether the bytes are gzip -/
def saveToJson (sigs : List Sig) (compression : Nat) : Doc × Bool := (encodeDoc sigs, decide (compression ≠ 0))

end Py

end Sm.SigJson
