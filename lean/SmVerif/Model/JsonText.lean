/-
The JSON TEXT layer of the signature format (C09, second round).

  text --lex--> tokens --parseTop--> JV (a tree that ends at the first syntax error)
       --readDoc (document order)--> signatures            and back:
  signatures --docJV--> JV --toks--> tokens --printToks--> text

What is modelled (the subset of JSON that signature files use, as serde_json 1.0 reads and
writes it for these Rust types):

* lexing: white space (space, \t, \n, \r); strings with the escapes \" \\ \/ \b \f \n \r \t
  \uXXXX (either hex case) including surrogate pairs, refusing lone surrogates, raw control
  characters (< 0x20) and unknown escapes; numbers by the JSON grammar (no leading zeros, no
  `+`, digits after `.` and after the exponent), classified as `Num.nat n` when the token is a
  plain digit string with `n ≤ 2^64 - 1` (what serde_json hands to a `u64` visitor) and
  `Num.other tok` otherwise (negative, fractional, exponent, or beyond u64: an i64 / f64 for
  serde); the literals true / false / null;
* printing: compact (no white space); strings escaped as serde_json does (`"` `\` and the
  control characters, \u00xx in lower case for those without a short form, everything else
  raw, `/` not escaped); integers in decimal; the float `version` as its token;
* parsing is STREAMING in effect: the tree stops at the first syntax error (`JV.err`), and
  the readers walk it in document order, so that a sketch that panics (`unimplemented!()` for
  an unknown molecule) does so before a later syntax / type error is noticed -- as in the code;
* derived `Deserialize for Signature` over a map in ANY key order: unknown keys ignored,
  duplicate known keys refused, `#[serde(default)]`s, missing required keys reported at the end
  of the object; and over a sequence (serde accepts `[class, email, ...]` too);
* the untagged `Sketch` enum: the value is buffered (recursion limit: nesting depth of a sketch
  value <= 124, i.e. 127 from the top), then tried as KmerMinHash, (KmerMinHashBTree: same
  fields,) HyperLogLog {registers: Vec<u8>, p, q, ksize: usize}; map or sequence form each.
  A HyperLogLog sketch is accepted by `from_reader` and makes `load_signatures` panic
  (`Sketch::HyperLogLog(_) => unimplemented!()`).

Not modelled: invalid UTF-8 (texts are character lists); the numeric value of floats (the
`version` token is kept as written; a plain integer token `n` is re-written as `n.0` like
ryu does for small values; out-of-range floats such as 1e999 are a serde error in the code).
-/
import SmVerif.Model.SigJson

namespace Sm.JsonText

open Sm Sm.SigJson

/-! ### tokens -/

inductive Num where
  | nat (n : Nat)               -- plain digits, value <= 2^64-1
  | other (tok : List Char)     -- any other well-formed number token
deriving DecidableEq, Repr, Inhabited

inductive Tok where
  | lbrack | rbrack | lbrace | rbrace | colon | comma
  | str (s : List Char)
  | num (n : Num)
  | tru | fls | nul
  | err
deriving DecidableEq, Repr, Inhabited

/-! ### printing -/

def hexDigit (n : Nat) : Char := if n < 10 then Char.ofNat (48 + n) else Char.ofNat (87 + n)

def escapeChar (c : Char) : List Char :=
  if c = '"' then ['\\', '"']
  else if c = '\\' then ['\\', '\\']
  else if c.toNat < 32 then
    if c.toNat = 8 then ['\\', 'b']
    else if c.toNat = 12 then ['\\', 'f']
    else if c.toNat = 10 then ['\\', 'n']
    else if c.toNat = 13 then ['\\', 'r']
    else if c.toNat = 9 then ['\\', 't']
    else ['\\', 'u', '0', '0', hexDigit (c.toNat / 16), hexDigit (c.toNat % 16)]
  else [c]

def escapeStr : List Char → List Char
  | [] => []
  | c :: cs => escapeChar c ++ escapeStr cs

def printNum : Num → List Char
  | .nat n => (Nat.toDigits 10 n)
  | .other t => t

def printTok : Tok → List Char
  | .lbrack => ['['] | .rbrack => [']'] | .lbrace => ['{'] | .rbrace => ['}']
  | .colon => [':'] | .comma => [',']
  | .str s => '"' :: (escapeStr s ++ ['"'])
  | .num n => printNum n
  | .tru => "true".toList | .fls => "false".toList | .nul => "null".toList
  | .err => ['?']

def printToks : List Tok → List Char
  | [] => []
  | t :: ts => printTok t ++ printToks ts

/-! ### lexing (one pass, one character at a time) -/

def isWs (c : Char) : Bool := c = ' ' || c = '\n' || c = '\t' || c = '\r'
def isDigit (c : Char) : Bool := decide ('0' ≤ c ∧ c ≤ '9')
def isNumChar (c : Char) : Bool := isDigit c || c = '.' || c = 'e' || c = 'E' || c = '+' || c = '-'
def isLower (c : Char) : Bool := decide ('a' ≤ c ∧ c ≤ 'z')

def hexVal (c : Char) : Option Nat :=
  if '0' ≤ c ∧ c ≤ '9' then some (c.toNat - 48)
  else if 'a' ≤ c ∧ c ≤ 'f' then some (c.toNat - 87)
  else if 'A' ≤ c ∧ c ≤ 'F' then some (c.toNat - 55)
  else none

def digitsVal : List Char → Nat → Nat
  | [], acc => acc
  | c :: cs, acc => digitsVal cs (acc * 10 + (c.toNat - 48))

/-- digits+ ; returns the rest -/
def takeDigits : List Char → List Char × List Char
  | [] => ([], [])
  | c :: cs => if isDigit c then let r := takeDigits cs; (c :: r.1, r.2) else ([], c :: cs)

def stripMinus : List Char → Bool × List Char
  | '-' :: r => (true, r)
  | r => (false, r)

/-- `0` or a digit string without a leading zero -/
def intPartOk : List Char → Bool
  | [] => false
  | [_] => true
  | c :: _ :: _ => c != '0'

/-- optional `.digits+`: (present, rest) -/
def fracPart : List Char → Option (Bool × List Char)
  | '.' :: r =>
    let d := takeDigits r
    if d.1.isEmpty then none else some (true, d.2)
  | r => some (false, r)

/-- optional `[eE][+-]?digits+`: (present, rest) -/
def expPart : List Char → Option (Bool × List Char)
  | [] => some (false, [])
  | c :: r =>
    if c = 'e' || c = 'E' then
      let r' := match r with
        | '+' :: q => q
        | '-' :: q => q
        | q => q
      let d := takeDigits r'
      if d.1.isEmpty then none else some (true, d.2)
    else some (false, c :: r)

/-- the JSON number grammar on a whole token -/
def classifyNum (tok : List Char) : Option Num :=
  let sm := stripMinus tok
  let ip := takeDigits sm.2
  if !intPartOk ip.1 then none
  else
    match fracPart ip.2 with
    | none => none
    | some fr =>
      match expPart fr.2 with
      | none => none
      | some ex =>
        if !ex.2.isEmpty then none
        else if sm.1 || fr.1 || ex.1 then some (.other tok)
        else
          let n := digitsVal ip.1 0
          if n < 2 ^ 64 then some (.nat n) else some (.other tok)

def numTok (revTok : List Char) : Tok :=
  match classifyNum revTok.reverse with
  | some n => .num n
  | none => .err

def litTok (revLit : List Char) : Tok :=
  let s := revLit.reverse
  if s = "true".toList then .tru
  else if s = "false".toList then .fls
  else if s = "null".toList then .nul
  else .err

inductive LS where
  | top
  | str (acc : List Char)                                  -- reversed content so far
  | esc (acc : List Char)                                  -- after a backslash
  | hex (acc : List Char) (hi : Option Nat) (ds : List Nat)   -- collecting the 4 digits of \u
  | hi1 (acc : List Char) (hi : Nat)                       -- after a high surrogate: expect backslash
  | hi2 (acc : List Char) (hi : Nat)                       -- ... then `u`
  | num (tok : List Char)                                  -- reversed
  | lit (cs : List Char)                                   -- reversed
  | dead
deriving Repr, Inhabited

/-- what a character does at token level: an emitted token and the next state -/
def topChar (c : Char) : Option Tok × LS :=
  if isWs c then (none, .top)
  else if c = '[' then (some .lbrack, .top)
  else if c = ']' then (some .rbrack, .top)
  else if c = '{' then (some .lbrace, .top)
  else if c = '}' then (some .rbrace, .top)
  else if c = ':' then (some .colon, .top)
  else if c = ',' then (some .comma, .top)
  else if c = '"' then (none, .str [])
  else if isDigit c || c = '-' then (none, .num [c])
  else if isLower c then (none, .lit [c])
  else (some .err, .dead)

def push (o : Option Tok) (out : List Tok) : List Tok :=
  match o with
  | some t => t :: out
  | none => out

def hex4 (ds : List Nat) : Nat := ds.foldl (fun a d => a * 16 + d) 0

/-- one step; `out` is the reversed token list -/
def lexStep (st : LS) (out : List Tok) (c : Char) : LS × List Tok :=
  match st with
  | .dead => (.dead, out)
  | .top => let r := topChar c; (r.2, push r.1 out)
  | .str acc =>
    if c = '"' then (.top, .str acc.reverse :: out)
    else if c = '\\' then (.esc acc, out)
    else if c.toNat < 32 then (.dead, .err :: out)
    else (.str (c :: acc), out)
  | .esc acc =>
    if c = '"' then (.str ('"' :: acc), out)
    else if c = '\\' then (.str ('\\' :: acc), out)
    else if c = '/' then (.str ('/' :: acc), out)
    else if c = 'b' then (.str (Char.ofNat 8 :: acc), out)
    else if c = 'f' then (.str (Char.ofNat 12 :: acc), out)
    else if c = 'n' then (.str ('\n' :: acc), out)
    else if c = 'r' then (.str ('\r' :: acc), out)
    else if c = 't' then (.str ('\t' :: acc), out)
    else if c = 'u' then (.hex acc none [], out)
    else (.dead, .err :: out)
  | .hex acc hi ds =>
    match hexVal c with
    | none => (.dead, .err :: out)
    | some d =>
      let ds := ds ++ [d]
      if ds.length < 4 then (.hex acc hi ds, out)
      else
        let n := hex4 ds
        match hi with
        | none =>
          if 0xD800 ≤ n ∧ n < 0xDC00 then (.hi1 acc n, out)
          else if 0xDC00 ≤ n ∧ n < 0xE000 then (.dead, .err :: out)
          else (.str (Char.ofNat n :: acc), out)
        | some h =>
          if 0xDC00 ≤ n ∧ n < 0xE000 then
            (.str (Char.ofNat (0x10000 + (h - 0xD800) * 0x400 + (n - 0xDC00)) :: acc), out)
          else (.dead, .err :: out)
  | .hi1 acc h => if c = '\\' then (.hi2 acc h, out) else (.dead, .err :: out)
  | .hi2 acc h => if c = 'u' then (.hex acc (some h) [], out) else (.dead, .err :: out)
  | .num tok =>
    if isNumChar c then (.num (c :: tok), out)
    else
      match numTok tok with
      | .err => (.dead, .err :: out)
      | t => let r := topChar c; (r.2, push r.1 (t :: out))
  | .lit cs =>
    if isLower c then (.lit (c :: cs), out)
    else
      match litTok cs with
      | .err => (.dead, .err :: out)
      | t => let r := topChar c; (r.2, push r.1 (t :: out))

def lexRun : LS → List Tok → List Char → LS × List Tok
  | st, out, [] => (st, out)
  | st, out, c :: cs => let r := lexStep st out c; lexRun r.1 r.2 cs

/-- end of input -/
def lexFinish (st : LS) (out : List Tok) : List Tok :=
  match st with
  | .top => out
  | .dead => out
  | .num tok => numTok tok :: out
  | .lit cs => litTok cs :: out
  | _ => .err :: out

/-- the tokens of a text; ends with `Tok.err` at the first lexical error -/
def lex (cs : List Char) : List Tok :=
  let r := lexRun .top [] cs
  (lexFinish r.1 r.2).reverse

/-! ### trees -/

inductive JV where
  | null
  | bool (b : Bool)
  | num (n : Num)
  | str (s : List Char)
  | arr (l : List JV)
  | obj (m : List (List Char × JV))
  | err                         -- where the text stopped making sense
deriving Repr, Inhabited

mutual
def JV.hasErr : JV → Bool
  | .err => true
  | .arr l => anyErr l
  | .obj m => anyErrM m
  | _ => false
def anyErr : List JV → Bool
  | [] => false
  | v :: vs => v.hasErr || anyErr vs
def anyErrM : List (List Char × JV) → Bool
  | [] => false
  | (_, v) :: vs => v.hasErr || anyErrM vs
end

mutual
/-- nesting depth: scalars 0, `[]` 1 -/
def JV.depth : JV → Nat
  | .arr l => 1 + depthL l
  | .obj m => 1 + depthM m
  | _ => 0
def depthL : List JV → Nat
  | [] => 0
  | v :: vs => max v.depth (depthL vs)
def depthM : List (List Char × JV) → Nat
  | [] => 0
  | (_, v) :: vs => max v.depth (depthM vs)
end

mutual
def JV.toks : JV → List Tok
  | .null => [.nul]
  | .bool true => [.tru]
  | .bool false => [.fls]
  | .num n => [.num n]
  | .str s => [.str s]
  | .arr l => .lbrack :: toksL l
  | .obj m => .lbrace :: toksM m
  | .err => [.err]
/-- `v , v , ... ]` (or just `]`) -/
def toksL : List JV → List Tok
  | [] => [.rbrack]
  | v :: vs =>
    match vs with
    | [] => v.toks ++ [.rbrack]
    | _ :: _ => v.toks ++ .comma :: toksL vs
/-- `"k" : v , ... }` (or just `}`) -/
def toksM : List (List Char × JV) → List Tok
  | [] => [.rbrace]
  | (k, v) :: ms =>
    match ms with
    | [] => .str k :: .colon :: (v.toks ++ [.rbrace])
    | _ :: _ => .str k :: .colon :: (v.toks ++ .comma :: toksM ms)
end

/-- result of a parser: the tree read so far, the unread tokens, and whether no error was met -/
structure PR (α : Type) where
  val : α
  rest : List Tok
  ok : Bool
deriving Repr, Inhabited

mutual
def parseValue : Nat → List Tok → PR JV
  | 0, _ => ⟨.err, [], false⟩
  | _ + 1, [] => ⟨.err, [], false⟩
  | f + 1, t :: ts =>
    match t with
    | .nul => ⟨.null, ts, true⟩
    | .tru => ⟨.bool true, ts, true⟩
    | .fls => ⟨.bool false, ts, true⟩
    | .num n => ⟨.num n, ts, true⟩
    | .str s => ⟨.str s, ts, true⟩
    | .lbrack =>
      match ts with
      | .rbrack :: r => ⟨.arr [], r, true⟩
      | _ => let p := parseElems f ts; ⟨.arr p.val, p.rest, p.ok⟩
    | .lbrace =>
      match ts with
      | .rbrace :: r => ⟨.obj [], r, true⟩
      | _ => let p := parseMembers f ts; ⟨.obj p.val, p.rest, p.ok⟩
    | _ => ⟨.err, [], false⟩
/-- after `[` (not followed by `]`) or after a `,` -/
def parseElems : Nat → List Tok → PR (List JV)
  | 0, _ => ⟨[.err], [], false⟩
  | f + 1, ts =>
    let p := parseValue f ts
    if !p.ok then ⟨[p.val], [], false⟩
    else
      match p.rest with
      | .comma :: r => let q := parseElems f r; ⟨p.val :: q.val, q.rest, q.ok⟩
      | .rbrack :: r => ⟨[p.val], r, true⟩
      | _ => ⟨[p.val, .err], [], false⟩
/-- after `{` (not followed by `}`) or after a `,` -/
def parseMembers : Nat → List Tok → PR (List (List Char × JV))
  | 0, _ => ⟨[([], .err)], [], false⟩
  | f + 1, ts =>
    match ts with
    | .str k :: .colon :: r =>
      let p := parseValue f r
      if !p.ok then ⟨[(k, p.val)], [], false⟩
      else
        match p.rest with
        | .comma :: r' => let q := parseMembers f r'; ⟨(k, p.val) :: q.val, q.rest, q.ok⟩
        | .rbrace :: r' => ⟨[(k, p.val)], r', true⟩
        | _ => ⟨[(k, p.val), ([], .err)], [], false⟩
    | _ => ⟨[([], .err)], [], false⟩
end

def parseTop (ts : List Tok) : PR JV := parseValue (ts.length + 1) ts

/-! ### typed readers (serde derive), in document order -/

def jStr : JV → Option String
  | .str s => some (String.ofList s)
  | _ => none

/-- a `String` field -/
def rdStr (v : JV) : Except Err String :=
  match v with
  | .str s => .ok (String.ofList s)
  | _ => .error .serde

/-- an `Option<String>` field -/
def rdOptStr (v : JV) : Except Err (Option String) :=
  match v with
  | .str s => .ok (some (String.ofList s))
  | .null => .ok none
  | _ => .error .serde

/-- how ryu re-writes the float read from a token (see the header: tokens are kept) -/
def normVersion (n : Num) : String :=
  match n with
  | .nat k => String.ofList (Nat.toDigits 10 k ++ ['.', '0'])
  | .other t => String.ofList t

/-- an `f64` field -/
def rdF64 (v : JV) : Except Err String :=
  match v with
  | .num n => .ok (normVersion n)
  | _ => .error .serde

/-! #### sketches: the untagged enum over the buffered value -/

def fldNat (v : JV) : Fld Nat :=
  match v with
  | .num (.nat n) => .val n
  | .null => .null
  | _ => .bad

def natsOf : List JV → Option (List Nat)
  | [] => some []
  | .num (.nat n) :: vs => (natsOf vs).map (n :: ·)
  | _ :: _ => none

def fldNats (v : JV) : Fld (List Nat) :=
  match v with
  | .arr l =>
    match natsOf l with
    | some ns => .val ns
    | none => .bad
  | .null => .null
  | _ => .bad

def fldMd5 (v : JV) : Fld Md5 :=
  match v with
  | .str s => .val (.raw (String.ofList s))
  | .null => .null
  | _ => .bad

def fldStr (v : JV) : Fld String :=
  match v with
  | .str s => .val (String.ofList s)
  | .null => .null
  | _ => .bad

/-- which field of `TempSig` a key names (8 = none: ignored) -/
def skKey (k : List Char) : Nat :=
  if k = "num".toList then 0
  else if k = "ksize".toList then 1
  else if k = "seed".toList then 2
  else if k = "max_hash".toList then 3
  else if k = "md5sum".toList then 4
  else if k = "mins".toList then 5
  else if k = "abundances".toList then 6
  else if k = "molecule".toList then 7
  else 8

/-- the derived map visitor of `TempSig`: one slot per field, `dup` once a known key repeats -/
structure SkAcc where
  num : Option (Fld Nat) := none
  ksize : Option (Fld Nat) := none
  seed : Option (Fld Nat) := none
  maxHash : Option (Fld Nat) := none
  md5sum : Option (Fld Md5) := none
  mins : Option (Fld (List Nat)) := none
  abundances : Option (Fld (List Nat)) := none
  molecule : Option (Fld String) := none
  dup : Bool := false
deriving Repr, Inhabited

def skStep (acc : SkAcc) (k : List Char) (v : JV) : SkAcc :=
  match skKey k with
  | 0 => if acc.num.isSome then { acc with dup := true } else { acc with num := some (fldNat v) }
  | 1 => if acc.ksize.isSome then { acc with dup := true } else { acc with ksize := some (fldNat v) }
  | 2 => if acc.seed.isSome then { acc with dup := true } else { acc with seed := some (fldNat v) }
  | 3 => if acc.maxHash.isSome then { acc with dup := true } else { acc with maxHash := some (fldNat v) }
  | 4 => if acc.md5sum.isSome then { acc with dup := true } else { acc with md5sum := some (fldMd5 v) }
  | 5 => if acc.mins.isSome then { acc with dup := true } else { acc with mins := some (fldNats v) }
  | 6 => if acc.abundances.isSome then { acc with dup := true } else { acc with abundances := some (fldNats v) }
  | 7 => if acc.molecule.isSome then { acc with dup := true } else { acc with molecule := some (fldStr v) }
  | _ => acc

def skFold : SkAcc → List (List Char × JV) → SkAcc
  | acc, [] => acc
  | acc, (k, v) :: ms => skFold (skStep acc k v) ms

/-- TempSig from a map: `none` = a known key occurs twice; a key that is not there is `absent` -/
def tempSigOfMap (m : List (List Char × JV)) : Option SkRec :=
  let a := skFold {} m
  if a.dup then none
  else some { num := a.num.getD .absent, ksize := a.ksize.getD .absent, seed := a.seed.getD .absent,
              maxHash := a.maxHash.getD .absent, mins := a.mins.getD .absent, md5sum := a.md5sum.getD .absent,
              abundances := a.abundances.getD .absent, molecule := a.molecule.getD .absent }

/-- TempSig from a sequence: exactly the eight fields in declaration order -/
def tempSigOfSeq (l : List JV) : Option SkRec :=
  match l with
  | [a, b, c, d, e, f, g, h] =>
    some { num := fldNat a, ksize := fldNat b, seed := fldNat c, maxHash := fldNat d, md5sum := fldMd5 e,
           mins := fldNats f, abundances := fldNats g, molecule := fldStr h }
  | _ => none

def isU8s (l : List Nat) : Bool := l.all (fun x => decide (x < 256))

def okUsize (f : Fld Nat) : Bool :=
  match f with
  | .val n => decide (n < 2 ^ 64)
  | _ => false

def okRegs (f : Fld (List Nat)) : Bool :=
  match f with
  | .val l => isU8s l
  | _ => false

/-- which field of `HyperLogLog` a key names (4 = none) -/
def hllKey (k : List Char) : Nat :=
  if k = "registers".toList then 0
  else if k = "p".toList then 1
  else if k = "q".toList then 2
  else if k = "ksize".toList then 3
  else 4

structure HllAcc where
  registers : Option (Fld (List Nat)) := none
  p : Option (Fld Nat) := none
  q : Option (Fld Nat) := none
  ksize : Option (Fld Nat) := none
  dup : Bool := false
deriving Repr, Inhabited

def hllStep (acc : HllAcc) (k : List Char) (v : JV) : HllAcc :=
  match hllKey k with
  | 0 => if acc.registers.isSome then { acc with dup := true } else { acc with registers := some (fldNats v) }
  | 1 => if acc.p.isSome then { acc with dup := true } else { acc with p := some (fldNat v) }
  | 2 => if acc.q.isSome then { acc with dup := true } else { acc with q := some (fldNat v) }
  | 3 => if acc.ksize.isSome then { acc with dup := true } else { acc with ksize := some (fldNat v) }
  | _ => acc

def hllFold : HllAcc → List (List Char × JV) → HllAcc
  | acc, [] => acc
  | acc, (k, v) :: ms => hllFold (hllStep acc k v) ms

/-- does the buffered value deserialize as `HyperLogLog {registers, p, q, ksize}` -/
def isHll (v : JV) : Bool :=
  match v with
  | .obj m =>
    let a := hllFold {} m
    !a.dup && okRegs (a.registers.getD .absent) && okUsize (a.p.getD .absent) && okUsize (a.q.getD .absent) &&
      okUsize (a.ksize.getD .absent)
  | .arr [r, p, q, k] => okRegs (fldNats r) && okUsize (fldNat p) && okUsize (fldNat q) && okUsize (fldNat k)
  | _ => false

/-- recursion budget left for a sketch value (127 from the top, three levels above it) -/
def sketchDepthLimit : Nat := 124

inductive SkV where
  | mh (s : Sk)
  | hll
deriving Repr, Inhabited

/-- `Sketch::deserialize`: buffer, then KmerMinHash, (KmerMinHashBTree,) HyperLogLog -/
def skOfJV (trusted sorts : Bool) (v : JV) : Except Err SkV :=
  if v.hasErr then .error .serde
  else if v.depth > sketchDepthLimit then .error .serde
  else
    let rec? : Option SkRec := match v with
      | .obj m => tempSigOfMap m
      | .arr l => tempSigOfSeq l
      | _ => none
    let asMh : Except Err Sk := match rec? with
      | some r => decodeSkWith trusted sorts r
      | none => .error .serde
    match asMh with
    | .ok s => .ok (.mh s)
    | .error .panic => .error .panic
    | .error _ => if isHll v then .ok .hll else .error .serde

/-- `Vec<Sketch>` -/
def sksOfJV (trusted sorts : Bool) (v : JV) : Except Err (List SkV) :=
  match v with
  | .arr l => l.mapM (skOfJV trusted sorts)
  | _ => .error .serde

def mhsOf : List SkV → List Sk
  | [] => []
  | .mh s :: r => s :: mhsOf r
  | .hll :: r => mhsOf r

def hllCount : List SkV → Nat
  | [] => 0
  | .mh _ :: r => hllCount r
  | .hll :: r => hllCount r + 1

/-! #### signatures -/

structure SigAcc where
  cls : Option String := none
  email : Option String := none
  hf : Option String := none
  filename : Option (Option String) := none
  name : Option (Option String) := none
  license : Option String := none
  sks : Option (List SkV) := none
  version : Option String := none
deriving Repr, Inhabited

/-- set a field once -/
def setOnce {α : Type} (cur : Option α) (r : Except Err α) : Except Err (Option α) :=
  match cur with
  | some _ => .error .serde          -- duplicate field
  | none => r.map some

/-- which field of `Signature` a key names (8 = none: ignored) -/
def sigKey (k : List Char) : Nat :=
  if k = "class".toList then 0
  else if k = "email".toList then 1
  else if k = "hash_function".toList then 2
  else if k = "filename".toList then 3
  else if k = "name".toList then 4
  else if k = "license".toList then 5
  else if k = "signatures".toList then 6
  else if k = "version".toList then 7
  else 8

/-- the derived map visitor, one member -/
def sigStep (trusted sorts : Bool) (acc : SigAcc) (k : List Char) (v : JV) : Except Err SigAcc :=
  match sigKey k with
  | 0 => do let x ← setOnce acc.cls (rdStr v); pure { acc with cls := x }
  | 1 => do let x ← setOnce acc.email (rdStr v); pure { acc with email := x }
  | 2 => do let x ← setOnce acc.hf (rdStr v); pure { acc with hf := x }
  | 3 => do let x ← setOnce acc.filename (rdOptStr v); pure { acc with filename := x }
  | 4 => do let x ← setOnce acc.name (rdOptStr v); pure { acc with name := x }
  | 5 => do let x ← setOnce acc.license (rdStr v); pure { acc with license := x }
  | 6 => do let x ← setOnce acc.sks (sksOfJV trusted sorts v); pure { acc with sks := x }
  | 7 => do let x ← setOnce acc.version (rdF64 v); pure { acc with version := x }
  | _ => if v.hasErr then .error .serde else pure acc     -- an ignored value still has to be well-formed

def sigFold (trusted sorts : Bool) : SigAcc → List (List Char × JV) → Except Err SigAcc
  | acc, [] => .ok acc
  | acc, (k, v) :: ms => do
    let acc' ← sigStep trusted sorts acc k v
    sigFold trusted sorts acc' ms

/-- end of the object: missing required fields, defaults -/
def sigFinish (acc : SigAcc) : Except Err (Sig × Nat) :=
  match acc.hf, acc.sks with
  | some hf, some sks =>
    .ok ({ cls := acc.cls.getD Gen.sigDefaultClass, email := acc.email.getD Gen.sigDefaultEmail,
           hashFunction := hf, filename := acc.filename.getD none, name := acc.name.getD none,
           license := acc.license.getD Gen.sigDefaultLicense, sketches := mhsOf sks,
           version := acc.version.getD Gen.sigDefaultVersion }, hllCount sks)
  | _, _ => .error .serde

/-- the derived sequence visitor: fields in declaration order; a missing tail takes defaults where
    the field has one (only `version`, given that `signatures` is required) -/
def sigOfSeq (trusted sorts : Bool) (l : List JV) : Except Err (Sig × Nat) :=
  match l with
  | c :: e :: h :: f :: n :: li :: s :: rest => do
    let cls ← rdStr c
    let email ← rdStr e
    let hf ← rdStr h
    let filename ← rdOptStr f
    let name ← rdOptStr n
    let license ← rdStr li
    let sks ← sksOfJV trusted sorts s
    let version ← match rest with
      | [] => pure Gen.sigDefaultVersion
      | v :: _ => rdF64 v
    match rest with
    | _ :: _ :: _ => .error .serde          -- more than eight elements
    | _ =>
      pure ({ cls := cls, email := email, hashFunction := hf, filename := filename, name := name,
              license := license, sketches := mhsOf sks, version := version }, hllCount sks)
  | _ => .error .serde      -- fewer than seven elements: `signatures` (no default) is missing; the six
                            -- fields before it are strings, so nothing can panic on the way

def sigOfJV (trusted sorts : Bool) (v : JV) : Except Err (Sig × Nat) :=
  match v with
  | .obj m => do
    let acc ← sigFold trusted sorts {} m
    sigFinish acc
  | .arr l => sigOfSeq trusted sorts l
  | _ => .error .serde

/-- `serde_json::from_reader::<Vec<Signature>>` on a text: the signatures and the number of
    HyperLogLog sketches met -/
def readTextWith (trusted sorts : Bool) (cs : List Char) : Except Err (List Sig × Nat) :=
  let p := parseTop (lex cs)
  match p.val with
  | .arr l => do
    let r ← l.mapM (sigOfJV trusted sorts)
    if p.ok && !p.rest.isEmpty then .error .serde       -- trailing characters
    else pure (r.map Prod.fst, (r.map Prod.snd).foldl (· + ·) 0)
  | _ => .error .serde

def readText (cs : List Char) : Except Err (List Sig × Nat) :=
  readTextWith Gen.md5TrustedFromFile Gen.loadSortsMins cs

/-! ### from documents / signatures to text -/

def jstr (s : String) : JV := .str s.toList

/-- an unsigned integer as serde_json writes it; read back as `Num.nat` only within u64 -/
def jnat (n : Nat) : JV := if n < 2 ^ 64 then .num (.nat n) else .num (.other (Nat.toDigits 10 n))

/-- a number token for the `version` field -/
def jver (s : String) : JV := .num (.other s.toList)

/-- the text of an md5sum field; `md5hex` is the (unmodelled) md5 of a pre-image -/
def md5Text (md5hex : Digest → List Char) : Md5 → List Char
  | .pre d => md5hex d
  | .raw s => s.toList

/-- one key of a field-level record as object members: absent = no member, `bad` = a value of a
    type no field accepts -/
def fldJV {α : Type} (conv : α → JV) (k : String) : Fld α → List (List Char × JV)
  | .absent => []
  | .null => [(k.toList, .null)]
  | .bad => [(k.toList, .bool true)]
  | .val a => [(k.toList, conv a)]

def natsJV (l : List Nat) : JV := .arr (l.map jnat)

def skRecJV (md5hex : Digest → List Char) (r : SkRec) : JV :=
  .obj (fldJV jnat "num" r.num ++ fldJV jnat "ksize" r.ksize ++ fldJV jnat "seed" r.seed ++
        fldJV jnat "max_hash" r.maxHash ++ fldJV natsJV "mins" r.mins ++
        fldJV (fun m => .str (md5Text md5hex m)) "md5sum" r.md5sum ++
        fldJV natsJV "abundances" r.abundances ++ fldJV jstr "molecule" r.molecule)

def sigRecJV (md5hex : Digest → List Char) (r : SigRec) : JV :=
  .obj (fldJV jstr "class" r.cls ++ fldJV jstr "email" r.email ++ fldJV jstr "hash_function" r.hashFunction ++
        fldJV jstr "filename" r.filename ++ fldJV jstr "name" r.name ++ fldJV jstr "license" r.license ++
        fldJV (fun l => .arr (l.map (skRecJV md5hex))) "signatures" r.signatures ++
        fldJV jver "version" r.version)

/-- a field-level document as a tree (keys in canonical order) -/
def docRecJV (md5hex : Digest → List Char) (d : Doc) : JV := .arr (d.map (sigRecJV md5hex))

def docJV (md5hex : Digest → List Char) (sigs : List Sig) : JV := docRecJV md5hex (encodeDoc sigs)

/-- the text of a tree, compact -/
def printJV (v : JV) : List Char := printToks v.toks

/-- `serde_json::to_writer(&rsigs)`: the text `save_signatures_to_json` produces (uncompressed) -/
def renderDoc (md5hex : Digest → List Char) (sigs : List Sig) : List Char := printJV (docJV md5hex sigs)

/-! ### compression sniffing (niffler 2.x `sniff`) and the reader on bytes -/

inductive Compression where
  | none | gzip | bzip | lzma | zstd
deriving DecidableEq, Repr

/-- `niffler::sniff`: needs five bytes; decided by the first two to five -/
def nifflerSniff (b : List Nat) : Option Compression :=
  match b with
  | b0 :: b1 :: b2 :: b3 :: b4 :: _ =>
    if b0 = 0x1f ∧ b1 = 0x8b then some .gzip
    else if b0 = 0x42 ∧ b1 = 0x5a then some .bzip
    else if b0 = 0x28 ∧ b1 = 0xb5 ∧ b2 = 0x2f ∧ b3 = 0xfd then some .zstd
    else if b0 = 0xfd ∧ b1 = 0x37 ∧ b2 = 0x7a ∧ b3 = 0x58 ∧ b4 = 0x5a then some .lzma
    else some .none
  | _ => Option.none          -- FileTooShort

/-- a byte stream as a reader sees it: the bytes it delivers, and whether it then fails with an
    I/O error (a damaged gzip stream) instead of reporting end of file -/
structure Stream where
  bytes : List Nat
  fails : Bool
deriving Repr, Inhabited

/-- one `niffler::get_reader` layer.  `gunzip`: the (trusted) result of inflating `s.bytes`, as a
    stream.  Only the `gz` feature is compiled in, the other formats are recognised and refused. -/
def nifflerLayer (s : Stream) (gunzip : Stream) : Except Err Stream :=
  match nifflerSniff s.bytes with
  | Option.none => .error .niffler         -- FileTooShort (also when the stream fails within five bytes)
  | some .none => .ok s
  | some .gzip => .ok gunzip
  | some _ => .error .niffler              -- FeatureDisabled

def utf8Text (b : List Nat) : Option (List Char) :=
  (String.fromUTF8? (ByteArray.mk (b.map UInt8.ofNat).toArray)).map String.toList

/-- serde_json reading a stream to its end: a stream that fails is a text followed by an error
    (a sketch met before that point may still panic first) -/
def readStream (s : Stream) : Except Err (List Sig × Nat) :=
  match utf8Text s.bytes with
  | Option.none => .error .serde
  | some cs => readText (if s.fails then cs ++ ['@'] else cs)

/-- `signatures_load_buffer` (one sniff: `Signature::from_reader`) and `signatures_load_path`
    (two: `niffler::from_path`, then `from_reader` again on what comes out) on bytes.
    `g1`: the bytes inflated; `g2`: that result inflated once more. -/
def ffiLoadBytes (viaPath : Bool) (b : List Nat) (g1 g2 : Stream) (ksize : Nat) (selectMoltype : Option String) :
    Except Err (List Sig) := do
  let m ← match selectMoltype with
    | Option.none => pure Option.none
    | some s => (parseMoltype (cstr s)).map some
  let k := if ksize = 0 then Option.none else some ksize
  let s1 ← nifflerLayer ⟨b, false⟩ g1
  let s2 ← if viaPath then nifflerLayer s1 g2 else pure s1
  let r ← readStream s2
  if r.2 ≠ 0 then .error .panic        -- `Sketch::HyperLogLog(_) => unimplemented!()` in load_signatures
  else pure (loadSignatures k m r.1)

/-! ### Python on top: `load_signatures_from_json` with the byte-level reader -/

/-- as `Py.loadFromJson`, the FFI call being given: `viaBuffer` for a buffer / file object,
    `viaPath` for a path -/
def pyLoadWith (data : Py.PyData) (empty : Bool) (viaBuffer viaPath : Except Err (List Sig)) (doRaise : Bool) :
    Except Err (List Sig) :=
  if empty then .ok []
  else
    let run (x : Except Err (List Sig)) : Except Err (List Sig) :=
      match (do let sigs ← x; Py.finishLoad sigs) with
      | .ok r => .ok r
      | .error e => if doRaise then .error e else .ok []
    match Py.detectInputType data with
    | .unknown => if doRaise then .error .value else .ok []
    | .path => run viaPath
    | .fileLike => run viaBuffer
    | .buffer => run viaBuffer

end Sm.JsonText
