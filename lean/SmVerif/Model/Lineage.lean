/-
Executable model of the lineage-tree code of `src/sourmash/lca/lca_utils.py`
(`build_tree`, `find_lca`, `count_lca_for_assignments`, `pop_to_rank`), of its
statement-for-statement twin `tax_utils.LineageTree` (the translator checks that
the two are the same statements), of the aggregation loop of
`command_summarize.summarize` and of `command_classify.classify_signature`.

Conventions
* a `LineagePair(rank, name)` is `(rank index, name id) : Nat × Nat`; name id 0 is
  the empty name `""`.  Rank index `i < 8` is `taxlist()[i]`; anything else is a rank
  outside `taxlist()`.
* the nested dict `{pair: {pair: {...}}}` is `Tree`: `nil` is `{}`, `cons k c r` is a
  dict whose first entry is `k ↦ c` followed by the entries `r` (first-child /
  next-sibling encoding; keeps every function structurally recursive).
* `Counter` / `defaultdict(int)` are insertion-ordered association lists
  (`Model/Dict.lean`); `most_common()` is a stable descending sort.
-/
import SmVerif.Model.Dict
import SmVerif.Model.Generated

namespace Sm.Lin

abbrev Key := Nat × Nat
abbrev Lineage := List Key

/-- number of ranks in `taxlist()` -/
def nRanks : Nat := Gen.lcaTaxlist.length

inductive Tree (κ : Type) where
  | nil : Tree κ
  | cons (k : κ) (child rest : Tree κ) : Tree κ
deriving Repr, DecidableEq, Inhabited

namespace Tree

variable {κ : Type}

/-- `len(node)` -/
def size : Tree κ → Nat
  | nil => 0
  | cons _ _ r => r.size + 1

/-- `node.keys()` -/
def keys : Tree κ → List κ
  | nil => []
  | cons k _ r => k :: r.keys

/-- `node.get(k)` -/
def get? [DecidableEq κ] : Tree κ → κ → Option (Tree κ)
  | nil, _ => none
  | cons k c r, x => if x = k then some c else r.get? x

/-- `child = node.get(k, {}); node[k] = child; <f applied to child in place>` -/
def upsert [DecidableEq κ] (x : κ) (f : Tree κ → Tree κ) : Tree κ → Tree κ
  | nil => cons x (f nil) nil
  | cons k c r => if x = k then cons k (f c) r else cons k c (upsert x f r)

/-- the inner loop of `build_tree` for one (already filtered) assignment -/
def insertPath [DecidableEq κ] : List κ → Tree κ → Tree κ
  | [], t => t
  | k :: ks, t => t.upsert k (insertPath ks)

/-- `find_lca(tree)`: descend while there is exactly one child -/
def findLca : Tree κ → List κ × Nat
  | nil => ([], 0)
  | cons k c nil => let r := findLca c; (k :: r.1, r.2)
  | cons _ _ (cons _ _ r) => ([], r.size + 2)

end Tree

/-- the `if lineage_tup.name:` filter of `build_tree` -/
def canon (l : Lineage) : Lineage := l.filter (fun p => p.2 != 0)

/-- `build_tree(assignments, initial)` for a non-empty `assignments` -/
def buildTreeFrom (t : Tree Key) (ls : List Lineage) : Tree Key :=
  ls.foldl (fun t l => t.insertPath (canon l)) t

inductive Err where
  | value | assertion | key | notImplemented
deriving DecidableEq, Repr

/-- `build_tree(assignments, initial=None)`; `ValueError` on an empty argument -/
def buildTree (ls : List Lineage) (initial : Tree Key := .nil) : Except Err (Tree Key) :=
  if ls.isEmpty then .error .value else .ok (buildTreeFrom initial ls)

/-- `find_lca(build_tree(ls))` -/
def lcaOf (ls : List Lineage) : Lineage × Nat := (buildTreeFrom .nil ls).findLca

/-! ### `count_lca_for_assignments` -/

/-- `counts[k] += w` on a `Counter` -/
def bump (c : List (Lineage × Nat)) (k : Lineage) (w : Nat) : List (Lineage × Nat) :=
  Dict.set c k ((Dict.get? c k).getD 0 + w)

/-- `hashval_counts[hashval]`, or 1 when `hashval_counts` is `None` or empty (`weights = none`) -/
def wOf (weights : Option (List (Nat × Nat))) (h : Nat) : Option Nat :=
  match weights with
  | none => some 1
  | some w => Dict.get? w h

/-- loop body of `count_lca_for_assignments` -/
def countStep (weights : Option (List (Nat × Nat))) (counts : List (Lineage × Nat))
    (a : Nat × List Lineage) : Except Err (List (Lineage × Nat)) :=
  match buildTree a.2 with
  | .error e => .error e
  | .ok tree => match wOf weights a.1 with
    | some c => .ok (bump counts tree.findLca.1 c)
    | none => .error .key

/-- `count_lca_for_assignments(assignments, hashval_counts)` -/
def countLca (assignments : List (Nat × List Lineage)) (weights : Option (List (Nat × Nat))) :
    Except Err (List (Lineage × Nat)) :=
  assignments.foldlM (countStep weights) []

/-- insertion of one item into a list sorted by descending count, after all items
    with a count `>=` its own (stable) -/
def insertDesc (x : Lineage × Nat) : List (Lineage × Nat) → List (Lineage × Nat)
  | [] => [x]
  | y :: ys => if y.2 < x.2 then x :: y :: ys else y :: insertDesc x ys

/-- `Counter.most_common()`: stable sort by descending count -/
def mostCommon (c : List (Lineage × Nat)) : List (Lineage × Nat) :=
  c.foldl (fun acc x => insertDesc x acc) []

/-! ### the aggregation loop of `summarize` -/

/-- `while lca: aggregated_counts[lca] += count; lca = lca[:-1]`, written on the reversed
    lineage so that `lca[:-1]` is the tail -/
def climbRev (agg : List (Lineage × Nat)) (count : Nat) : Lineage → List (Lineage × Nat)
  | [] => agg
  | k :: ks => climbRev (bump agg (k :: ks).reverse count) count ks

/-- one iteration of the loop body (after the threshold test) -/
def aggStep (agg : List (Lineage × Nat)) (lca : Lineage) (count : Nat) : List (Lineage × Nat) :=
  let agg := if lca.isEmpty then bump agg lca count else agg
  climbRev agg count lca.reverse

/-- `for lca, count in counts.most_common(): if count < threshold: break; ...` -/
def aggLoop (threshold : Nat) : List (Lineage × Nat) → List (Lineage × Nat) → List (Lineage × Nat)
  | [], agg => agg
  | (lca, count) :: rest, agg =>
    if count < threshold then agg else aggLoop threshold rest (aggStep agg lca count)

def aggregate (counts : List (Lineage × Nat)) (threshold : Nat) : List (Lineage × Nat) :=
  aggLoop threshold (mostCommon counts) []

/-! ### `classify_signature` (after `gather_assignments`) -/

inductive Status where
  | nomatch | found | disagree
deriving DecidableEq, Repr

def classifyCounts (counts : List (Lineage × Nat)) (threshold : Nat) (majority : Bool) :
    Lineage × Status :=
  let mc := mostCommon counts
  let tree : Tree Key :=
    if !counts.isEmpty && majority then
      match mc with
      | (vote, count) :: _ => if count > threshold then buildTreeFrom .nil [vote] else .nil
      | [] => .nil
    else
      buildTreeFrom .nil ((mc.takeWhile (fun p => !(p.2 < threshold))).map Prod.fst)
  match tree with
  | .nil => ([], .nomatch)
  | t =>
    let r := t.findLca
    (r.1, if r.2 = 0 then .found else .disagree)

/-! ### `pop_to_rank` -/

/-- `lin[-1].rank` -/
def lastRank (l : Lineage) : Option Nat := l.getLast?.map Prod.fst

/-- `while lin and lin[-1].rank != rank: lin.pop()` on the reversed list -/
def popWhileRev (rank : Nat) : Lineage → Lineage
  | [] => []
  | k :: ks => if k.1 = rank then k :: ks else popWhileRev rank ks

/-- `pop_to_rank(lin, rank)`; ranks `>= nRanks` are names outside `taxlist()` -/
def popToRank (lin : Lineage) (rank : Nat) : Lineage :=
  let beforeRank := (List.range nRanks).takeWhile (· != rank)
  match lastRank lin with
  | some r => if beforeRank.contains r then lin else (popWhileRev rank lin.reverse).reverse
  | none => lin

end Sm.Lin
