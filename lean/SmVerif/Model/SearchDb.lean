/-
Executable model of searching several collections (C08):

* `src/sourmash/search.py`  : `JaccardSearch` (three score functions, `passes`, `collect` of the
                              best-only subclass), `search_databases_with_flat_query` (per-database
                              `search`, de-duplication on (md5, scaled, num) keeping the first seen, final sort)
* `src/sourmash/index/__init__.py` : `Index.find` (scaled branch) and `Index.search` of an in-memory index
* `src/sourmash/commands.py` : `prefetch` over several databases (per-database `prefetch`, rows concatenated)

Generic in the sketch type like `Model/Gather.lean` (instances `mhOps`, `lsOps`).
-/
import SmVerif.Model.Gather

namespace Sm.SearchDb

open Sm Sm.F64 Sm.Gather

inductive SearchType where
  | jaccard | containment | maxContainment
deriving DecidableEq, Repr

/-- `score_jaccard` / `score_containment` / `score_max_containment` -/
def scoreFn (st : SearchType) (qsize shared ssize total : Nat) : F :=
  match st with
  | .jaccard => if total = 0 then fzero else F64.divNat shared total
  | .containment => if qsize = 0 then fzero else F64.divNat shared qsize
  | .maxContainment =>
    let m := min qsize ssize
    if m = 0 then fzero else F64.divNat shared m

section
variable {α : Type} (K : SkOps α)

/-- one loop iteration of `Index.find` (scaled query): `(score, passes)` -/
def findOneS (st : SearchType) (query : α) (subj : Sig α) (thr : F) : Except GErr (F × Bool) :=
  match flattenAndDownsample K subj.mh (K.scaled query) with
  | .error e => .error e
  | .ok smh =>
    match flattenAndDownsample K query (K.scaled smh) with
    | .error e => .error e
    | .ok qmh =>
      if K.track qmh ∨ K.track smh then .error .assertion
      else if !K.compatible qmh smh then .error .type
      else
        match K.interSize qmh smh with
        | .error e => .error e
        | .ok (shared, total) =>
          let score := scoreFn st (len K qmh) shared (len K smh) total
          .ok (score, passes score thr)

/-- the loop of `find`; `bestOnly` = `JaccardSearchBestOnly.collect` raises the threshold -/
def findLoopS (st : SearchType) (query : α) (bestOnly : Bool) :
    List (Sig α) → F → Except GErr (List (F × Sig α))
  | [], _ => .ok []
  | s :: rest, thr =>
    match findOneS K st query s thr with
    | .error e => .error e
    | .ok (score, ok) =>
      if ok then
        let thr' := if bestOnly then (if F64.ge thr score then thr else score) else thr
        match findLoopS st query bestOnly rest thr' with
        | .error e => .error e
        | .ok l => .ok ((score, s) :: l)
      else findLoopS st query bestOnly rest thr

end

/-- stable insertion into a list sorted by descending score (`sort(key=lambda x: -x.score)`) -/
def insertDesc {β : Type} (x : F × β) : List (F × β) → List (F × β)
  | [] => [x]
  | y :: ys => if F64.ge y.1 x.1 && !F64.ge x.1 y.1 then y :: insertDesc x ys else x :: y :: ys

/-- stable sort by descending score -/
def sortDesc {β : Type} (l : List (F × β)) : List (F × β) := l.foldr insertDesc []

section
variable {α : Type} (K : SkOps α)

/-- `Index.search(query, threshold=, do_containment=, do_max_containment=, best_only=)` -/
def searchDb (st : SearchType) (db : List (Sig α)) (query : α) (thr : F) (bestOnly : Bool) :
    Except GErr (List (F × Sig α)) :=
  -- check_is_compatible
  if st ≠ .jaccard ∧ K.scaled query = 0 then .error .type
  else if K.track query then .error .type
  else if K.scaled query = 0 then .error .type      -- num queries are outside this model
  else
    match findLoopS K st query bestOnly db thr with
    | .error e => .error e
    | .ok l => .ok (sortDesc l)

/-- the key `search_databases_with_flat_query` de-duplicates on:
    `(match.md5sum(), match.minhash.scaled, match.minhash.num)` -/
def sigKey (s : Sig α) : Nat × Nat × Nat := (s.md5, K.scaled s.mh, K.num s.mh)

/-- the de-duplication loop of `search_databases_with_flat_query`: keep the first result per key -/
def dedupKey : List (Nat × Nat × Nat) → List (F × Sig α) → List (F × Sig α)
  | _, [] => []
  | seen, x :: xs =>
    if seen.contains (sigKey K x.2) then dedupKey seen xs else x :: dedupKey (sigKey K x.2 :: seen) xs

def searchEach (st : SearchType) (query : α) (thr : F) (bestOnly : Bool) :
    List (List (Sig α)) → Except GErr (List (F × Sig α))
  | [] => .ok []
  | db :: rest =>
    match searchDb K st db query thr bestOnly with
    | .error e => .error e
    | .ok l =>
      match searchEach st query thr bestOnly rest with
      | .error e => .error e
      | .ok r => .ok (l ++ r)

/-- `search_databases_with_flat_query(query, databases, threshold=, ...)`: `(similarity, match)` rows -/
def searchDatabases (st : SearchType) (dbs : List (List (Sig α))) (query : α) (thr : F) (bestOnly : Bool) :
    Except GErr (List (F × Sig α)) :=
  match searchEach K st query thr bestOnly dbs with
  | .error e => .error e
  | .ok l => .ok (sortDesc (dedupKey K [] l))

/-- `commands.prefetch`: per-database `prefetch` (empty databases are skipped), rows concatenated -/
def prefetchDatabases (query : α) (thrBp : Nat) : List (List (Sig α)) → Except GErr (List (F × Sig α))
  | [] => .ok []
  | db :: rest =>
    if db.isEmpty then prefetchDatabases query thrBp rest
    else
      match prefetch K db query thrBp false with
      | .error e => .error e
      | .ok l =>
        match prefetchDatabases query thrBp rest with
        | .error e => .error e
        | .ok r => .ok (l ++ r)

end

end Sm.SearchDb
