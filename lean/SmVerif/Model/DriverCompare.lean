/-
Driver for the `compare` correspondence stream (C16).

  sig <idx> ...                       -> ok            (only counted: the model never sees sketch contents)
  tab <kind> <ds> <n*n tokens>        -> tab <kind> <ds> <tokens>   (pairwise table, row-major:
                                         token (a,b) = outcome of sig_a.<method>(sig_b, downsample=ds);
                                         decimal = IEEE-754 bits of the float, N = None, E<Class> = raised)
  cmp <func> <kind> <ds> <jobs|-> <perm|->   -> mat <m> <m*m decimal bit patterns> | err <Class>
       func ∈ serial parallel allpairs containment max avg ; siglist = [sig[p] for p in perm]
  recheck                             -> recheck <k> unchanged     (k matrices handed out so far in this case; the adapter keeps every
                                         matrix OBJECT uncopied and compares it with the values it had when it was returned)
-/
import SmVerif.Model.CompareMatrix
import SmVerif.Model.Proto

namespace Sm.DriverCompare

open Sm.Proto Sm.Compare

abbrev Tok := Except String (Option Nat)

structure St where
  n : Nat := 0
  tabs : List ((String × Nat) × Array Tok) := []
  /-- the matrices returned so far in this case (the history of the compare API): VALUES, nothing can change them -/
  results : List (Mat Nat) := []

def init : St := {}

/-- IEEE-754 binary64 bit patterns of 1.0 and 0.0 -/
def oneBits : Nat := 0x3FF0000000000000
def zeroBits : Nat := 0

def tok? (s : String) : Option Tok :=
  if s = "N" then some (.ok none)
  else if s.startsWith "E" && s.length > 1 then some (.error (s.drop 1).toString)
  else (s.toNat?).map fun v => .ok (some v)

def kinds : List String := ["sim0", "sim1", "jani", "cont", "cani", "maxc", "maxani", "avgc", "avgani"]

def isAni (kind : String) : Bool := kind ∈ ["jani", "cani", "maxani", "avgani"]

/-- which pairwise tables each compare function may be run on, and the table the CODE consults:
    `compare_serial_avg_containment(return_ani=True)` calls `containment_ani` in both directions (table `cani`
    at the same `downsample`) and averages; the table `avgani` (`avg_containment_ani`) is only echoed: it is the
    oracle's reference -/
def tableFor (func kind : String) (ds : Nat) : Option (String × Nat) :=
  if func ∈ ["serial", "parallel", "allpairs"] ∧ kind ∈ ["sim0", "sim1", "jani"] then some (kind, ds)
  else if func = "containment" ∧ kind ∈ ["cont", "cani"] then some (kind, ds)
  else if func = "max" ∧ kind ∈ ["maxc", "maxani"] then some (kind, ds)
  else if func = "avg" ∧ kind = "avgc" then some (kind, ds)
  else if func = "avg" ∧ kind = "avgani" then some ("cani", ds)
  else none

def lookup (st : St) (key : String × Nat) : Option (Array Tok) :=
  (st.tabs.find? (fun kv => kv.1 = key)).map (·.2)

/-- the value the loop body stores for a pair: plain float, or `.ani` with `None -> 0.0` -/
def cellOf (n : Nat) (tab : Array Tok) (ani : Bool) (perm : Array Nat) (a b : Nat) : Except String Nat :=
  let t : Tok := tab.getD (perm.getD a 0 * n + perm.getD b 0) (.error "IndexError")
  if ani then aniOrZero zeroBits t
  else match t with
    | .ok (some v) => .ok v
    | .ok none => .error "TypeError"      -- float(None); unreachable: non-ANI methods return floats
    | .error e => .error e

/-- the raw table entry for the permuted list (ANI tables: `.ani` of the result, possibly None) -/
def tokOf (n : Nat) (tab : Array Tok) (perm : Array Nat) (a b : Nat) : Tok :=
  tab.getD (perm.getD a 0 * n + perm.getD b 0) (.error "IndexError")

/-- `(x + y) / 2` on binary64 bit patterns (two exact IEEE-754 operations) -/
def avgBits (x y : Nat) : Nat :=
  ((Float.ofBits x.toUInt64 + Float.ofBits y.toUInt64) / 2).toBits.toNat

def showMat (m : Nat) (r : Except String (Mat Nat)) : String :=
  match r with
  | .ok mat => s!"mat {m} " ++ " ".intercalate (mat.flatten.map toString)
  | .error e => "err " ++ e

def permOf (s : String) : Option (List Nat) :=
  if s = "-" then some [] else (s.splitOn ",").mapM nat?

def step (st : St) (line : String) : St × String :=
  let bad := (st, "bad-op")
  match words line with
  | "#" :: _ => (init, "#")
  | "sig" :: idx :: _ =>
    match nat? idx with
    | some i => if i = st.n then ({ st with n := st.n + 1 }, "ok") else bad
    | none => bad
  | "tab" :: kind :: ds :: toks =>
    match nat? ds, toks.mapM tok? with
    | some ds, some ts =>
      if kind ∈ kinds ∧ ds ≤ 1 ∧ ts.length = st.n * st.n then
        ({ st with tabs := ((kind, ds), ts.toArray) :: st.tabs }, "tab " ++ kind ++ s!" {ds} " ++ " ".intercalate toks)
      else bad
    | _, _ => bad
  | ["cmp", func, kind, ds, jobs, perm] =>
    match nat? ds, permOf perm, (if jobs = "-" then some none else (nat? jobs).map some) with
    | some ds, some perm, some jobs =>
      if perm.any (· ≥ st.n) then bad else
      match (tableFor func kind ds).bind (lookup st) with
      | none => bad
      | some tab =>
        let m := perm.length
        let cell := cellOf st.n tab (isAni kind) perm.toArray
        let r : Option (Except String (Mat Nat)) :=
          match func, jobs with
          | "serial", none => some (compareSerial m cell oneBits)
          | "containment", none => some (compareSerialContainment m cell oneBits)
          | "max", none => some (compareSerialMax m cell oneBits)
          | "avg", none =>
            if kind = "avgani" then
              some (compareSerialAvgAni m (tokOf st.n tab perm.toArray) avgBits zeroBits oneBits)
            else some (compareSerialAvg m cell oneBits)
          | "parallel", some j => some (compareParallel m j cell oneBits zeroBits)
          | "allpairs", j => some (compareAllPairs m j cell oneBits zeroBits)
          | _, _ => none
        match r with
        | some r =>
          let st' := match r with
            | .ok mat => { st with results := st.results ++ [mat] }
            | .error _ => st
          (st', showMat m r)
        | none => bad
    | _, _, _ => bad
  | ["recheck"] => (st, s!"recheck {st.results.length} unchanged")
  | _ => bad

end Sm.DriverCompare
