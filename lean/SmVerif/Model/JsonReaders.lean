/-
C20: decision + work models of the two hand-written JSON readers

* `LCA_Database.load`                      (src/sourmash/lca/lca_db.py)
* `SBT.load`, `SBT._load_v1` … `_load_v6`  (src/sourmash/sbt.py)

over the *decoded* document (`Py.J`): the JSON decoder, the text decoder and the file system stay
trusted; what they report for the file at hand is an input of the model (`LcaFile`, `SbtFile`).
Everything the hand-written code decides from the decoded document is in the model, branch for
branch: which key is looked up in which order, which Python exception each malformed shape raises,
which conversions are applied to keys — and how many loop iterations the reader makes (`Run.work`).
The readers touch the document only to a fixed depth, so the models need no recursion over `J`
beyond list traversals.
-/
import SmVerif.Model.PyVal
import SmVerif.Model.CsvReaders
import SmVerif.Model.Generated

namespace Sm.JsonR

open Sm.Py
open Sm.CsvR (Run)

def s (x : String) : List Char := x.toList

/-- what the JSON decoder made of the text -/
inductive JsonDec where
  | doc (j : J)
  | jsonError          -- json.JSONDecodeError (a ValueError)
  | valueError         -- a plain ValueError from the decoder (integer literal beyond the digit limit)
  | recursion          -- RecursionError inside the decoder (deep nesting)
  | decodeError        -- UnicodeDecodeError of the text layer while the decoder reads
deriving Repr

/-- `x[i]` for a literal non-negative index -/
def getIdx (x : J) (i : Nat) : R J :=
  match x with
  | .obj _ => raise .KeyError
  | .arr xs => match xs[i]? with | some v => pure v | none => raise .IndexError
  | .str cs => match cs[i]? with | some c => pure (.str [c]) | none => raise .IndexError
  | _ => raise .TypeError

/-- is this JSON value the string `k`? (`x == "k"` / `x != "k"`) -/
def isStr (x : J) (k : List Char) : Bool :=
  match x with
  | .str t => t == k
  | _ => false

/-- `{int(k): v for (k, v) in d.items()}`: keys in order of first insertion, later values win;
    one unit of work per entry -/
def intKeyed : List (List Char × J) → R (List (Int × J))
  | [] => pure []
  | (k, v) :: rest => do
    let i ← pyIntStr k
    let r ← intKeyed rest
    -- dict semantics, built back to front: if `i` occurs later, the later value wins but the
    -- position is this (first) one
    match r.find? (fun p => p.1 == i) with
    | some p => pure ((i, p.2) :: r.filter (fun q => q.1 != i))
    | none => pure ((i, v) :: r)

/-! ### LCA database -/

/-- outcome of the SQLite probe `LCA_SqliteDatabase.load(db_name)` that comes first -/
inductive SqlProbe where
  | valueError         -- not an SQLite database: swallowed
  | raises (c : Cls)
  | loads
deriving Repr

inductive LcaText where
  | read1Fail                              -- `fp.read(1)` raised a ValueError (undecodable first chunk)
  | empty                                  -- `fp.read(1)` returned ""
  | text (first : Char) (dec : JsonDec)
deriving Repr

structure LcaFile where
  isFile : Bool
  sqlite : SqlProbe
  text : LcaText
deriving Repr

structure LcaInfo where
  ksize : Int
  scaled : Int
  nLid : Nat
  nHash : Nat
  nIdx : Nat
  nextIndex : Option Int     -- `none`: not an int (a float)
  nextLid : Option Int
deriving Repr, DecidableEq

def taxlist : List (List Char) := Gen.c20LcaTaxlist.map String.toList

/-- `dict((x[0], x[1]) for x in v)`: the (key, value) pairs, in order; work = number of pairs -/
def lineagePairs : List J → R (List (J × J))
  | [] => pure []
  | x :: xs => do
    let a ← getIdx x 0
    let b ← getIdx x 1
    if !a.hashable then raise .TypeError else
    let r ← lineagePairs xs
    pure ((a, b) :: r)

/-- `v.get(rank, "")` on that dict: the last pair whose key is the string `rank` -/
def rankName (rank : List Char) (pairs : List (J × J)) : Option J :=
  (pairs.reverse.find? (fun p => isStr p.1 rank)).map Prod.snd

/-- one entry of `lid_to_lineage`; returns the int key, and the work done -/
def lidEntry (k : List Char) (v : J) : R (Int × Nat) := do
  let xs ← iter v
  let pairs ← lineagePairs xs
  let i ← pyIntStr k
  -- `lineage_to_lid[vv] = int(k)`: the tuple of LineagePairs must be hashable
  if taxlist.any (fun r => match rankName r pairs with | some n => !n.hashable | none => false)
  then raise .TypeError
  else pure (i, 1 + xs.length + taxlist.length)

def lidEntries : List (List Char × J) → List Int → Nat → Run (List Int)
  | [], acc, w => ⟨pure acc.reverse, w⟩
  | (k, v) :: rest, acc, w =>
    match lidEntry k v with
    | .ok (i, dw) => lidEntries rest (i :: acc) (w + dw)
    | .error e => ⟨.error e, w + 1⟩

/-- one entry of `hashval_to_idx`: `hashval_to_idx[int(k)] = set(v)` (right-hand side first) -/
def hashEntry (k : List Char) (v : J) : R (Int × Nat) := do
  let xs ← iter v
  if xs.any (fun x => !x.hashable) then raise .TypeError else
  let i ← pyIntStr k
  pure (i, 1 + xs.length)

def hashEntries : List (List Char × J) → List Int → Nat → Run (List Int)
  | [], acc, w => ⟨pure acc.reverse, w⟩
  | (k, v) :: rest, acc, w =>
    match hashEntry k v with
    | .ok (i, dw) => hashEntries rest (i :: acc) (w + dw)
    | .error e => ⟨.error e, w + 1⟩

def distinctCount (l : List Int) : Nat := l.eraseDups.length

/-- `max(values) + 1` -/
def maxPlusOne (vals : List J) : R (Option Int) :=
  match vals with
  | [] => pure (some 0)               -- not reached: guarded by the truthiness test
  | [x] =>
    match x with
    | .int i => pure (some (i + 1))
    | .bool b => pure (some (if b then 2 else 1))
    | .flt _ _ => pure none
    | .nan => pure none
    | .inf _ => pure none
    | _ => raise .TypeError           -- None + 1, "s" + 1, [..] + 1, {..} + 1
  | _ =>
    let ints := vals.filterMap (fun v => match v with
      | .int i => some i
      | .bool b => some (if b then 1 else 0)
      | _ => none)
    if ints.length == vals.length then
      pure (some (ints.foldl max (ints.headD 0) + 1))
    else decline "max() over values of mixed or non-integer types"

/-- `load_d.get(k)` with the AttributeError of a non-dict swallowed (then `None`) -/
def getOrNull (d : J) (k : List Char) : J :=
  match d with
  | .obj kvs => (lookup k kvs).getD .null
  | _ => .null

/-- `version < 2.0 or "lid_to_lineage" not in load_d` (with `version = float(version)` first) -/
def lcaTooOld (d : J) : R Bool := do
  let old ← pyFloatLtTwo (getOrNull d (s "version"))
  if old then pure true else
  let b ← strIn (s "lid_to_lineage") d
  pure (!b)

/-- ksize, scaled, moltype: `int(load_d["ksize"])`, `int(load_d["scaled"])`, the protein rule -/
def lcaHeader (d : J) : R (Int × Int) := do
  let k ← getKey d (s "ksize")
  let ksize ← pyInt k
  let sc ← getKey d (s "scaled")
  let scaled ← pyInt sc
  let moltype ← getOr d (s "moltype") (.str (s "DNA"))
  if isStr moltype (s "DNA") then pure (ksize, scaled) else
  if ksize % 3 != 0 then raise .AssertionError else
  -- ksize = int(ksize / 3): true division through a double
  if (ksize / 3).natAbs ≥ floatOverflowAt then raise .OverflowError else
  pure (if ksize < 0 then -(Int.ofNat (round53 (ksize / 3).natAbs)) else Int.ofNat (round53 (ksize / 3).natAbs), scaled)

/-- `db._next_index`: `max(db._ident_to_idx.values()) + 1` if the (arbitrary) value is truthy, else 0 -/
def nextIndexOf (identToIdx : J) : R (Option Int) :=
  if identToIdx.truthy then
    match identToIdx with
    | .obj kvs => maxPlusOne (kvs.map Prod.snd)
    | _ => raise .AttributeError            -- .values()
  else pure (some 0)

/-- `db._next_lid` from the converted `idx_to_lid` dict -/
def nextLidOf (conv : List (Int × J)) : R (Option Int) :=
  if conv.isEmpty then pure (some 0) else maxPlusOne (conv.map Prod.snd)

/-- `ident_to_name`, `ident_to_idx`, `idx_to_lid` and the two `max(...) + 1` -/
def lcaTail (d : J) : R (List Int × Option Int × Option Int) := do
  let _ ← getKey d (s "ident_to_name")
  let identToIdx ← getKey d (s "ident_to_idx")
  let i2l ← getKey d (s "idx_to_lid")
  let i2lItems ← items i2l
  let conv ← intKeyed i2lItems
  let nextIndex ← nextIndexOf identToIdx
  let nextLid ← nextLidOf conv
  pure (conv.map Prod.fst, nextIndex, nextLid)

def lcaItems (d : J) (k : List Char) : R (List (List Char × J)) := do
  let l ← getKey d k
  items l

def topLevelKeys (d : J) : Nat :=
  match d with
  | .obj kvs => kvs.length
  | _ => 0

/-- the body of `LCA_Database.load` once the document is decoded -/
def loadLcaDoc (d : J) : Run LcaInfo :=
  if !d.truthy then ⟨raise .ValueError, 0⟩ else
  if !isStr (getOrNull d (s "type")) (s Gen.c20LcaType) then ⟨raise .ValueError, 0⟩ else
  match lcaTooOld d with
  | .error e => ⟨.error e, 0⟩
  | .ok true => ⟨raise .ValueError, 0⟩
  | .ok false =>
  match lcaHeader d with
  | .error e => ⟨.error e, 0⟩
  | .ok (ksize, scaled) =>
  match lcaItems d (s "lid_to_lineage") with
  | .error e => ⟨.error e, 0⟩
  | .ok lids =>
  match (lidEntries lids [] 0).res with
  | .error e => ⟨.error e, (lidEntries lids [] 0).work⟩
  | .ok lidKeys =>
  match lcaItems d (s "hashval_to_idx") with
  | .error e => ⟨.error e, (lidEntries lids [] 0).work⟩
  | .ok hvs =>
  match (hashEntries hvs [] (lidEntries lids [] 0).work).res with
  | .error e => ⟨.error e, (hashEntries hvs [] (lidEntries lids [] 0).work).work⟩
  | .ok hashKeys =>
  match lcaTail d with
  | .error e => ⟨.error e, (hashEntries hvs [] (lidEntries lids [] 0).work).work⟩
  | .ok (idxKeys, ni, nl) =>
    ⟨pure ⟨ksize, scaled, distinctCount lidKeys, distinctCount hashKeys, idxKeys.length, ni, nl⟩,
     (hashEntries hvs [] (lidEntries lids [] 0).work).work + 2 * idxKeys.length + topLevelKeys d⟩

/-- `LCA_Database.load(db_name)` -/
def loadLca (f : LcaFile) : Run LcaInfo :=
  if !f.isFile then ⟨raise .ValueError, 0⟩ else
  match f.sqlite with
  | .loads => ⟨decline "an SQLite LCA database", 0⟩
  | .raises c => if c.isValueError then ⟨decline "probe reported a ValueError subclass", 0⟩ else ⟨raise c, 0⟩
  | .valueError =>
    match f.text with
    | .read1Fail => ⟨raise .ValueError, 0⟩
    | .empty => ⟨raise .ValueError, 0⟩
    | .text c dec =>
      if c != '{' then ⟨raise .ValueError, 0⟩ else
      match dec with
      | .jsonError => ⟨raise .ValueError, 0⟩        -- swallowed, then `not load_d`
      | .valueError => ⟨raise .ValueError, 0⟩       -- not a JSONDecodeError: propagates as it is
      | .recursion => ⟨raise .RecursionError, 0⟩
      | .decodeError => ⟨raise .UnicodeDecodeError, 0⟩
      | .doc d => loadLcaDoc d

/-! ### SBT index -/

/-- what the file system says about a path the document names -/
inductive FsRead where
  | notFound | isDir | unreadable (c : Cls) | exists_
deriving Repr

inductive MfState where
  | fs (r : FsRead)                       -- `storage.load(manifest_path)` did not return bytes
  | undecodable                           -- bytes are not UTF-8
  | content (doc : CsvR.CsvDoc)
deriving Repr

/-- the first step of `SBT.load`: is `location` (or `location + ".sbt.zip"`) a zip file, and what does it hold -/
inductive ZipState where
  | none_                       -- neither is a zip file: the index description is read from `location[.sbt.json]`
  | raises (c : Cls)            -- `ZipStorage(..)`, `list_sbts()` or `load(member)` raised (native code)
  | members (nSbt : Nat)        -- opened; number of members whose name ends in `.sbt.json`
deriving Repr

structure SbtFile where
  /-- the JSON decoder's answer for the index description that `SBT.load` ends up reading: the single `.sbt.json`
      member of the zip (through a temporary file) when there is exactly one, else the file `location[.sbt.json]` -/
  dec : JsonDec
  /-- `os.makedirs(join(dirname, subdir))` in `FSStorage.__init__`, for the `path` the document names -/
  mkdirExc : Option Cls
  /-- opening the node file `_load_v1/_load_v2` sample first (`extract_nodegraph_info`) -/
  sample : FsRead
  /-- the manifest the document points to -/
  manifest : MfState
  /-- are the optional `redis` / `ipfshttpclient` modules importable? -/
  netModules : Bool
  zip : ZipState
  /-- `open(sbt_fn)` failed with this class (the description file does not exist, is a directory, …) -/
  openExc : Option Cls
deriving Repr

/-- a storage object exists before the description is read (so none is chosen from the document) -/
def SbtFile.hasStorage (f : SbtFile) : Bool :=
  match f.zip with
  | .members _ => true
  | _ => false

structure SbtInfo where
  version : Nat
  d : Option Int               -- `tree.d` when the document has an int there (anything is accepted)
  nNodes : Nat
  nLeaves : Nat
  maxNode : Nat
  nMissing : Nat               -- `len(tree._missing_nodes)`
  mfRows : Option Nat          -- rows of the attached manifest
deriving Repr, DecidableEq

/-- `loaders[version]`: which of `_load_v1..v6` — dict lookup by hash/equality, so `6.0` and `True`
    find `6` and `1` -/
def loaderOf (version : J) : R Nat :=
  let known (i : Int) : R Nat :=
    if Gen.c20SbtVersions.contains i.toNat && i > 0 then pure i.toNat else raise .IndexNotSupported
  match version with
  | .int i => known i
  | .bool b => known (if b then 1 else 0)
  | .flt n d => if d != 0 && n % (Int.ofNat d) == 0 then known (n / Int.ofNat d) else raise .IndexNotSupported
  | .arr _ => raise .TypeError
  | .obj _ => raise .TypeError
  | _ => raise .IndexNotSupported

/-- `GraphFactory(*x)`: `x` must be iterable and have exactly three items -/
def factoryArgs (x : J) : R Unit := do
  let xs ← iter x
  if xs.length == 3 then pure () else raise .TypeError

/-- `Node.load(info, storage)` after `info["factory"] = factory`: `info["name"]`, `info["filename"]` -/
def nodeLoad (node : J) : R Unit :=
  match node with
  | .obj _ => do
    let _ ← getKey node (s "name")
    let _ ← getKey node (s "filename")
    pure ()
  | _ => raise .TypeError          -- item assignment on a list / str / number / None

/-- `Leaf.load(info, storage)`: `info["metadata"]`, `info["name"]`, `info["filename"]` -/
def leafLoad (node : J) : R Unit := do
  let _ ← getKey node (s "metadata")
  let _ ← getKey node (s "name")
  let _ ← getKey node (s "filename")
  pure ()

/-- v3/v4 loop body: `"internal" in node["name"]` decides between Node.load and the leaf loader -/
def nodeOrLeaf (node : J) : R Bool := do
  let name ← getKey node (s "name")
  let internal ← strIn (s "internal") name
  if internal then
    -- node["factory"] = factory; Node.load
    let _ ← getKey node (s "filename")
    pure true
  else
    let _ ← leafLoad node
    pure false

/-- counts of a v3/v4 pass: (internal positions, leaf positions, max_node) ; one unit of work per entry -/
def mixedLoop (skipNull : Bool) : List (Int × J) → List Int → List Int → Int → Nat → Run (List Int × List Int × Int)
  | [], ns, ls, mx, w => ⟨pure (ns, ls, mx), w⟩
  | (k, node) :: rest, ns, ls, mx, w =>
    match node, skipNull with
    | .null, true => mixedLoop skipNull rest ns ls mx (w + 1)
    | _, _ =>
      match nodeOrLeaf node with
      | .error e => ⟨.error e, w + 1⟩
      | .ok true => mixedLoop skipNull rest (k :: ns) ls (max mx k) (w + 1)
      | .ok false => mixedLoop skipNull rest ns (k :: ls) (max mx k) (w + 1)

def loopAll (f : J → R Unit) : List (Int × J) → Int → Nat → Run Int
  | [], mx, w => ⟨pure mx, w⟩
  | (k, node) :: rest, mx, w =>
    match f node with
    | .error e => ⟨.error e, w + 1⟩
    | .ok _ => loopAll f rest (max mx k) (w + 1)

/-- `len({i for i in range(max_node) if i not in nodes and i not in leaves})` -/
def missingCount (maxNode : Int) (ns ls : List Int) : Nat :=
  let present := (ns ++ ls).eraseDups.filter (fun k => 0 ≤ k && k < maxNode)
  maxNode.toNat - present.length

def dOf (x : J) : Option Int :=
  match x with
  | .int i => some i
  | _ => none

/-- the storage the document asks for, when none was passed in (version ≥ 3) -/
def pickStorage (f : SbtFile) (doc : J) : R Unit := do
  let st ← getKey doc (s "storage")
  let backend ← getKey st (s "backend")
  if !backend.hashable then raise .TypeError else
  match backend with
  | .str b =>
    if !(Gen.c20SbtStorages.map String.toList).contains b then raise .KeyError else
    let args ← getKey st (s "args")
    if b == s "FSStorage" then
      let p ← getKey args (s "path")
      match p with
      | .str _ => match f.mkdirExc with | some c => raise c | none => pure ()
      | _ => raise .TypeError              -- os.path.join(dirname, <not a str>)
    else
      -- klass(**args)
      if !args.isObj then raise .TypeError else
      if b == s "ZipStorage" then decline "ZipStorage named by the document" else
      if f.netModules then decline "network storage back end" else raise .ModuleNotFoundError
  | _ => raise .KeyError

/-- the part of `_load_v1/_load_v2` before any node file is opened, then the file system's answer -/
def sampleFile (f : SbtFile) (first : J) : R Unit := do
  let fnm ← getKey first (s "filename")
  match fnm with
  | .str _ =>
    -- extract_nodegraph_info wraps every failure (bare `except:`) into a ValueError
    match f.sample with
    | .notFound => raise .ValueError
    | .isDir => raise .ValueError
    | .unreadable _ => raise .ValueError
    | .exists_ => decline "reads a node file"
  | _ => raise .TypeError

structure Loaded where
  version : Nat
  d : J
  ns : List Int
  ls : List Int
  maxNode : Int
  work : Nat

/-- iterations of `{i for i in range(max_node) if …}` (when the source builds the set that way) -/
def rangeWork (maxNode : Int) : Nat := if Gen.c20SbtMissingEnumeratesRange then maxNode.toNat else 0

/-- `_load_v1`: `jnodes[0]` must not be None, then the sample node file is opened -/
def v1Check (f : SbtFile) (doc : J) : R Unit := do
  let x ← getIdx doc 0
  match x with
  | .null => raise .ValueError
  | _ => sampleFile f x

/-- `{int(k): v for (k, v) in info[key].items()}` and the number of entries -/
def intTable (doc : J) (key : List Char) : R (List (Int × J) × Nat) := do
  let n ← getKey doc key
  let kvs ← items n
  let c ← intKeyed kvs
  pure (c, kvs.length)

/-- `_load_v2`: `nodes[0]` must exist and not be None, then the sample node file is opened -/
def v2Check (f : SbtFile) (nodes : List (Int × J)) : R Unit :=
  match nodes.find? (fun p => p.1 == 0) with
  | none => raise .KeyError
  | some (_, .null) => raise .ValueError
  | some (_, x) => sampleFile f x

/-- `GraphFactory(*info["factory"]["args"])` -/
def factoryOf (doc : J) : R Unit := do
  let fa ← getKey doc (s "factory")
  let a ← getKey fa (s "args")
  factoryArgs a

def failRun {α : Type} (e : Stop) (w : Nat) : Run α := ⟨.error e, w⟩

def loadV34 (v : Nat) (doc : J) (nodes : List (Int × J)) (w0 : Nat) : Run Loaded :=
  if nodes.isEmpty then failRun (.exc .ValueError) w0 else
  match factoryOf doc with
  | .error e => failRun e w0
  | .ok _ =>
  match (mixedLoop (v == 3) nodes [] [] 0 w0).res with
  | .error e => failRun e (mixedLoop (v == 3) nodes [] [] 0 w0).work
  | .ok (ns, ls, mx) =>
  match getKey doc (s "d") with
  | .error e => failRun e (mixedLoop (v == 3) nodes [] [] 0 w0).work
  | .ok d =>
    if v == 3 then failRun (.unmodelled "v3 fills min_n_below from the node files") (mixedLoop (v == 3) nodes [] [] 0 w0).work
    else ⟨pure ⟨v, d, ns, ls, mx, (mixedLoop (v == 3) nodes [] [] 0 w0).work + rangeWork mx⟩,
          (mixedLoop (v == 3) nodes [] [] 0 w0).work + rangeWork mx⟩

def loadV56 (v : Nat) (doc : J) (nodes : List (Int × J)) (w0 : Nat) : Run Loaded :=
  match intTable doc (if v == 5 then s "leaves" else s "signatures") with
  | .error e => failRun e w0
  | .ok (leaves, w1) =>
  if leaves.isEmpty then failRun (.exc .ValueError) (w0 + w1) else
  match factoryOf doc with
  | .error e => failRun e (w0 + w1)
  | .ok _ =>
  match (loopAll nodeLoad nodes 0 (w0 + w1)).res with
  | .error e => failRun e (loopAll nodeLoad nodes 0 (w0 + w1)).work
  | .ok mx1 =>
  match (loopAll leafLoad leaves mx1 (loopAll nodeLoad nodes 0 (w0 + w1)).work).res with
  | .error e => failRun e (loopAll leafLoad leaves mx1 (loopAll nodeLoad nodes 0 (w0 + w1)).work).work
  | .ok mx =>
  match getKey doc (s "d") with
  | .error e => failRun e (loopAll leafLoad leaves mx1 (loopAll nodeLoad nodes 0 (w0 + w1)).work).work
  | .ok d =>
    ⟨pure ⟨v, d, nodes.map Prod.fst, leaves.map Prod.fst, mx,
           (loopAll leafLoad leaves mx1 (loopAll nodeLoad nodes 0 (w0 + w1)).work).work + rangeWork mx⟩,
     (loopAll leafLoad leaves mx1 (loopAll nodeLoad nodes 0 (w0 + w1)).work).work + rangeWork mx⟩

/-- `_load_vN(info, …)` for the version chosen by `loaderOf` -/
def runLoader (f : SbtFile) (v : Nat) (doc : J) : Run Loaded :=
  if v == 1 then
    match v1Check f doc with
    | .error e => failRun e 0
    | .ok _ => failRun (.unmodelled "v1 past the sample file") 0
  else
  -- nodes = {int(k): v for (k, v) in info["nodes"].items()}
  match intTable doc (s "nodes") with
  | .error e => failRun e 0
  | .ok (nodes, w0) =>
  if v == 2 then
    match v2Check f nodes with
    | .error e => failRun e w0
    | .ok _ => failRun (.unmodelled "v2 past the sample file") w0
  else if v == 3 || v == 4 then loadV34 v doc nodes w0
  else loadV56 v doc nodes w0

/-- version = 1; if isinstance(jnodes, Mapping): version = jnodes["version"] -/
def sbtVersion (doc : J) : R J :=
  match doc with
  | .obj _ => getKey doc (s "version")
  | _ => pure (.int 1)

def storageFor (f : SbtFile) (v : Nat) (doc : J) : R Unit :=
  if f.hasStorage || v < Gen.c20SbtHiddenDirBelow then pure () else pickStorage f doc

def infoOf (ld : Loaded) (mf : Option Nat) : SbtInfo :=
  ⟨ld.version, dOf ld.d, ld.ns.length, ld.ls.length, ld.maxNode.toNat, missingCount ld.maxNode ld.ns ld.ls, mf⟩

/-- `if "manifest_path" in jnodes: …`: `none` = no manifest attached -/
def manifestPath (doc : J) : R (Option J) := do
  let b ← strIn (s "manifest_path") doc
  if b then
    let p ← getKey doc (s "manifest_path")
    pure (some p)
  else pure none

/-- `storage.load(manifest_path)`, `.decode("utf-8")`, `CollectionManifest.load_from_csv` -/
def attachManifest (lit : CsvR.Cell → CsvR.Lit) (f : SbtFile) (p : J) : Run Nat :=
  match p with
  | .int i =>
    -- FSStorage: Path(..) / subdir / 5 is a TypeError.  ZipStorage.load: `to_bytes(path)` accepts an int as one byte
    -- (outside 0..255 a ValueError, which `load` turns into FileNotFoundError), then `len(path)` is a TypeError
    if f.hasStorage && (i < 0 || i > 255) then ⟨raise .FileNotFoundError, 0⟩ else ⟨raise .TypeError, 0⟩
  | .str _ =>
    match f.manifest with
    | .fs .notFound => ⟨raise .FileNotFoundError, 0⟩
    | .fs .isDir => ⟨raise .IsADirectoryError, 0⟩
    | .fs (.unreadable c) => ⟨raise c, 0⟩
    | .fs .exists_ => ⟨decline "manifest content not supplied", 0⟩
    | .undecodable => ⟨raise .UnicodeDecodeError, 0⟩
    | .content csv =>
      match (CsvR.loadManifest lit csv).res with
      | .error e => ⟨.error e, (CsvR.loadManifest lit csv).work⟩
      | .ok rows => ⟨pure rows.length, (CsvR.loadManifest lit csv).work⟩
  | _ => ⟨raise .TypeError, 0⟩                 -- Path(..) / subdir / <not a str>

/-- everything after the JSON decoder -/
def loadSbtDoc (lit : CsvR.Cell → CsvR.Lit) (f : SbtFile) (doc : J) : Run SbtInfo :=
  match sbtVersion doc with
  | .error e => failRun e 0
  | .ok version =>
  match loaderOf version with
  | .error e => failRun e 0
  | .ok v =>
  match storageFor f v doc with
  | .error e => failRun e 0
  | .ok _ =>
  match (runLoader f v doc).res with
  | .error e => failRun e (runLoader f v doc).work
  | .ok ld =>
  match manifestPath doc with
  | .error e => failRun e (runLoader f v doc).work
  | .ok none => ⟨pure (infoOf ld none), (runLoader f v doc).work⟩
  | .ok (some p) =>
    match (attachManifest lit f p).res with
    | .error e => failRun e ((runLoader f v doc).work + (attachManifest lit f p).work)
    | .ok n => ⟨pure (infoOf ld (some n)), (runLoader f v doc).work + (attachManifest lit f p).work⟩

/-- `SBT.load(location)` (no storage passed in): a `.sbt.json` next to its node directory, or a zip collection -/
def loadSbt (lit : CsvR.Cell → CsvR.Lit) (f : SbtFile) : Run SbtInfo :=
  match f.zip with
  | .raises c => ⟨raise c, 0⟩
  | _ =>
  match f.openExc with
  | some c => ⟨raise (if c == .NotADirectoryError then .ValueError else c), 0⟩      -- except NotADirectoryError: ValueError
  | none =>
  match f.dec with
  | .jsonError => ⟨raise .JSONDecodeError, 0⟩      -- a ValueError subclass, not caught here
  | .valueError => ⟨raise .ValueError, 0⟩
  | .recursion => ⟨raise .RecursionError, 0⟩
  | .decodeError => ⟨raise .UnicodeDecodeError, 0⟩
  | .doc doc => loadSbtDoc lit f doc

/-- D26: `SBT.children(pos)` is `[self.child(pos, c) for c in range(self.d)]` — `d` iterations per
    visited node, whatever the number of nodes the file describes -/
def childrenCost (info : SbtInfo) : Nat :=
  match info.d with
  | some i => i.toNat
  | none => 0

end Sm.JsonR
