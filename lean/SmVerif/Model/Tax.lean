/-
Executable model of sourmash's taxonomic summarisation of gather results
(`src/sourmash/tax/tax_utils.py`): `get_ident`, taxonomy loading (`LineageDB.load`),
`QueryTaxResult.summarize_up_ranks`, `build_summarized_result`,
`SummarizedGatherResult.check_values`, `build_classification_result`, and the
projections the `krona` / `lineage_summary` / `csv_summary` writers make.

The arithmetic is a parameter (`Arith α`): the property theorems instantiate it with
exact rationals, the driver and the rejection analysis with the exact binary64 model
(`F64.SF`).  Lineage names are a parameter too (`ν`): strings in the driver, naturals
in kernel-checked examples.

A lineage is the list of its per-rank entries, index 0 = highest rank (superkingdom /
realm / LIN position 0), `none` = rank not filled.  `pop_to_rank(r)` of a lineage whose
rank `r` is filled is its prefix of length `r+1` (the implementation pads it with empty
pairs up to the number of ranks; padding is the same for every key of one per-rank
dictionary, so prefix equality is key equality).

Loop order.  The implementation loops rows (outer) and ranks (inner) over three
dictionaries per rank; the per-rank dictionaries never interact, so the model builds
each rank's table by one fold over the rows (`sumAtRank`).  The three dictionaries
always receive the same keys in the same order and are merged into one table of `Acc`.

Import-free (other Model files only): this file is part of the executable model.
-/
import SmVerif.Model.Float64
import SmVerif.Model.Generated

namespace Sm.Tax

/-- the arithmetic the summaries are computed in (`float` in the implementation) -/
structure Arith (α : Type) where
  zero : α
  one : α
  add : α → α → α
  sub : α → α → α
  lt : α → α → Bool

namespace Arith
variable {α : Type} (A : Arith α)
/-- `x <= y` -/
def le (x y : α) : Bool := !A.lt y x
/-- `x == 0` -/
def isZero (x : α) : Bool := !A.lt x A.zero && !A.lt A.zero x
end Arith

/-- the exact binary64 instance -/
def f64 : Arith F64.SF :=
  { zero := F64.SF.zero, one := F64.SF.one, add := F64.SF.add, sub := F64.SF.sub, lt := F64.SF.lt }

abbrev Lineage (ν : Type) := List (Option ν)

/-- one gather row as `TaxResult` holds it: the two fractions, the base pairs and the
lineage found for the match (`[]` when the identifier is missing from the taxonomy) -/
structure RowV (α ν : Type) where
  f : α
  fw : α
  bp : Nat
  lin : Lineage ν

/-- the three per-lineage accumulators `sum_uniq_to_query`, `sum_uniq_weighted`, `sum_uniq_bp` -/
structure Acc (α : Type) where
  f : α
  fw : α
  bp : Nat

abbrev Tbl (α ν : Type) := List (Lineage ν × Acc α)

section
variable {α ν : Type}

/-- `rank in lininfo.filled_ranks` -/
def filledAt (lin : Lineage ν) (r : Nat) : Bool :=
  match lin[r]? with
  | some (some _) => true
  | _ => false

/-- `lininfo.filled_lineage` is non-empty -/
def hasLineage (lin : Lineage ν) : Bool := lin.any Option.isSome

/-- the condition under which `summarize_up_ranks` adds a row to the rank's dictionaries -/
def counted (row : RowV α ν) (r : Nat) : Bool := hasLineage row.lin && filledAt row.lin r

/-- `pop_to_rank(rank)` for a filled rank -/
def popTo (lin : Lineage ν) (r : Nat) : Lineage ν := lin.take (r + 1)

/-- `d[key] += v` on an insertion-ordered `defaultdict` (new keys go last, start from zero) -/
def bump [DecidableEq ν] (A : Arith α) (key : Lineage ν) (row : RowV α ν) : Tbl α ν → Tbl α ν
  | [] => [(key, ⟨A.add A.zero row.f, A.add A.zero row.fw, row.bp⟩)]
  | (k, a) :: t =>
    if k = key then (k, ⟨A.add a.f row.f, A.add a.fw row.fw, a.bp + row.bp⟩) :: t
    else (k, a) :: bump A key row t

/-- the per-rank dictionaries after `summarize_up_ranks` -/
def sumAtRank [DecidableEq ν] (A : Arith α) (rows : List (RowV α ν)) (r : Nat) : Tbl α ν :=
  rows.foldl (fun t row => if counted row r then bump A (popTo row.lin r) row t else t) []

/-- `list.sort(key=lambda x: -x[1])`: stable, descending by the summed fraction -/
def insertDesc (A : Arith α) (x : Lineage ν × Acc α) : Tbl α ν → Tbl α ν
  | [] => [x]
  | y :: t => if A.lt y.2.f x.2.f then x :: y :: t else y :: insertDesc A x t

def sortDesc (A : Arith α) (l : Tbl α ν) : Tbl α ν :=
  l.foldl (fun acc x => insertDesc A x acc) []

/-- a `SummarizedGatherResult`; `lin = []` is the unclassified remainder -/
structure Entry (α ν : Type) where
  rank : Nat
  lin : Lineage ν
  f : α
  fw : α
  bp : Int

inductive Err where
  | gt100      -- "Summarized fraction is > 100% of the query!"
  | le0        -- "Summarized fraction is <=0% of the query!"
  | rank       -- requested rank not available / not summarized
  | noRanks    -- "no ranks remain for classification"
  | multi      -- "multiple lineages for identifier"
  | missing    -- --fail-on-missing-taxonomy
  | thr        -- threshold outside [0, 1]
  | empty      -- nothing loaded
  | dupq       -- "Gather query … was found in more than one CSV"
  | cols       -- "… is missing columns needed for taxonomic summarization"
  | unbound    -- `UnboundLocalError` in `LineageDB.load`: a LIN taxonomy file without any row (finding C19.4)
  | other
deriving Repr, DecidableEq

/-- the tolerance repair of D18: `FLOAT_TOLERANCE` and `1 + FLOAT_TOLERANCE` as the arithmetic computes them.
`none` = the code as it was.  Two variants:
  `strict = true`  (`patches/C19-D18-tolerance-v2.diff`): `f_weighted <= 0` still raises and the weighted
                   remainder is `1.0 - total` unclamped (keeps the project's unit tests as they are);
  `strict = false` (`patches/C19-D18-tolerance.diff`): `f_weighted < 0` raises, weighted remainder `max(0.0, ·)`. -/
structure Repair (α : Type) where
  tol : α
  onePlus : α
  strict : Bool

/-- `SummarizedGatherResult.check_values`; answers the two fractions as the object keeps them
(the repaired version clamps rounding noise above 1.0).
  as is:     `fraction > 1 or f_weighted > 1` -> error; `fraction <= 0 or f_weighted <= 0` -> error
  repaired:  `> 1 + tol` -> error; both clamped with `min(x, 1.0)`; `fraction <= 0 or f_weighted <= 0` -> error
             (non-strict variant: `f_weighted < 0`) -/
def checkValues (A : Arith α) (rp : Option (Repair α)) (f fw : α) : Except Err (α × α) :=
  match rp with
  | none =>
    if A.lt A.one f || A.lt A.one fw then .error .gt100
    else if A.le f A.zero || A.le fw A.zero then .error .le0
    else .ok (f, fw)
  | some p =>
    if A.lt p.onePlus f || A.lt p.onePlus fw then .error .gt100
    else
      let f' := if A.lt A.one f then A.one else f
      let fw' := if A.lt A.one fw then A.one else fw
      if A.le f' A.zero || (if p.strict then A.le fw' A.zero else A.lt fw' A.zero) then .error .le0
      else .ok (f', fw')

/-- `if f_unique == 0: continue` -/
def nonzero (A : Arith α) (t : Tbl α ν) : Tbl α ν := t.filter (fun x => !A.isZero x.2.f)

/-- the loop over the sorted (non-zero) lineages of one rank in `build_summarized_result`:
each becomes a checked `SummarizedGatherResult` -/
def classified (A : Arith α) (rp : Option (Repair α)) (r : Nat) : Tbl α ν → Except Err (List (Entry α ν))
  | [] => .ok []
  | (lin, a) :: t =>
    match checkValues A rp a.f a.fw with
    | .error e => .error e
    | .ok (f, fw) =>
      match classified A rp r t with
      | .error e => .error e
      | .ok es => .ok (⟨r, lin, f, fw, (a.bp : Int)⟩ :: es)

/-- `total_f_classified[rank]` etc.: accumulated from `0.0` in list order, from the sums themselves
(not from the possibly clamped values the result objects keep) -/
def totalF (A : Arith α) (t : Tbl α ν) : α := t.foldl (fun s x => A.add s x.2.f) A.zero
def totalFw (A : Arith α) (t : Tbl α ν) : α := t.foldl (fun s x => A.add s x.2.fw) A.zero
def totalBp (t : Tbl α ν) : Int := t.foldl (fun s x => s + (x.2.bp : Int)) 0

/-- one rank of `build_summarized_result`: the classified entries, then the unclassified
remainder when `1.0 - total > 0` (repaired: `> tol`; non-strict variant: weighted remainder clamped at `0.0`) -/
def buildRank (A : Arith α) (rp : Option (Repair α)) (qbp : Nat) (r : Nat) (tbl : Tbl α ν) :
    Except Err (List (Entry α ν)) :=
  let s := nonzero A (sortDesc A tbl)
  match classified A rp r s with
  | .error e => .error e
  | .ok es =>
    let fUn := A.sub A.one (totalF A s)
    let keep := match rp with
      | none => A.lt A.zero fUn
      | some p => A.lt p.tol fUn
    if keep then
      let d := A.sub A.one (totalFw A s)
      let fwUn := match rp with
        | none => d
        | some p => if p.strict then d else if A.lt A.zero d then d else A.zero
      match checkValues A rp fUn fwUn with
      | .error e => .error e
      | .ok (f, fw) => .ok (es ++ [⟨r, [], f, fw, (qbp : Int) - totalBp s⟩])
    else .ok es

/-- ranks (descending: index ascending) that received at least one row: `summarized_ranks[::-1]` -/
def summarizedRanks (nranks : Nat) (rows : List (RowV α ν)) : List Nat :=
  (List.range nranks).filter (fun r => rows.any (fun row => counted row r))

def mapMRanks [DecidableEq ν] (A : Arith α) (rp : Option (Repair α)) (qbp : Nat) (rows : List (RowV α ν)) :
    List Nat → Except Err (List (List (Entry α ν)))
  | [] => .ok []
  | r :: rs =>
    match buildRank A rp qbp r (sumAtRank A rows r) with
    | .error e => .error e
    | .ok es =>
      match mapMRanks A rp qbp rows rs with
      | .error e => .error e
      | .ok ess => .ok (es :: ess)

/-- `summarize_up_ranks(single_rank)` followed by `build_summarized_result(single_rank)`:
one list of entries per summarized rank, highest rank first -/
def buildSummarized [DecidableEq ν] (A : Arith α) (rp : Option (Repair α)) (qbp nranks : Nat)
    (rows : List (RowV α ν)) (single : Option Nat) : Except Err (List (List (Entry α ν))) :=
  match single with
  | none => mapMRanks A rp qbp rows (summarizedRanks nranks rows)
  | some r =>
    if r < nranks ∧ r ∈ summarizedRanks nranks rows then mapMRanks A rp qbp rows [r]
    else .error .rank

inductive Status where
  | nomatch | below | match_
deriving Repr, DecidableEq

/-- a `ClassificationResult` -/
structure Cls (α ν : Type) where
  status : Status
  rank : Nat
  lin : Lineage ν
  f : α
  fw : α
  bp : Nat

/-- `ClassificationResult.set_status` with a containment threshold (or none) -/
def statusOf (A : Arith α) (thr : Option α) (f : α) : Status :=
  match thr with
  | none => .nomatch
  | some t => if A.lt f t then .below else .match_

/-- the loop of `build_classification_result` over `classified_ranks` (lowest rank first):
the best lineage of the rank, checked, given a status; stop unless `below_threshold` -/
def classifyLoop (A : Arith α) (rp : Option (Repair α)) (thr : Option α) :
    List (Nat × Tbl α ν) → Option (Cls α ν) → Except Err (Option (Cls α ν))
  | [], last => .ok last
  | (r, tbl) :: t, _ =>
    match sortDesc A tbl with
    | [] => .error .other
    | (lin, a) :: _ =>
      match checkValues A rp a.f a.fw with
      | .error e => .error e
      | .ok (f, fw) =>
        let st := statusOf A thr f
        let c : Cls α ν := ⟨st, r, lin, f, fw, a.bp⟩
        if st = .below then classifyLoop A rp thr t (some c) else .ok (some c)

/-- `build_classification_result(rank, containment_threshold)` on a fresh `QueryTaxResult`.
`thrOk` is the range check `0 <= containment_threshold <= 1` made on the caller's number. -/
def classify [DecidableEq ν] (A : Arith α) (rp : Option (Repair α)) (nranks : Nat) (rows : List (RowV α ν))
    (rank : Option Nat) (thr : Option α) (thrOk : Bool) : Except Err (Option (Cls α ν)) :=
  if !thrOk then .error .thr
  else
    let sr := summarizedRanks nranks rows
    match rank with
    | some r =>
      if r < nranks then
        if r ∈ sr then classifyLoop A rp thr [(r, sumAtRank A rows r)] none else .error .rank
      else .error .rank
    | none =>
      if sr.isEmpty then .error .noRanks
      else classifyLoop A rp thr (sr.reverse.map (fun r => (r, sumAtRank A rows r))) none

/-! ### several queries: `aggregate_by_lineage_at_rank` (krona / lineage_summary of a multi-query run) -/

/-- `lineage_summary[key] += v` on an insertion-ordered `defaultdict(float)` -/
def aggBump {κ : Type} [DecidableEq κ] (A : Arith α) (key : κ) (v : α) : List (κ × α) → List (κ × α)
  | [] => [(key, A.add A.zero v)]
  | (k, a) :: t => if k = key then (k, A.add a v) :: t else (k, a) :: aggBump A key v t

/-- `aggregate_by_lineage_at_rank(query_gather_results, rank, by_query=False)`: the entries of rank `r` of every
query (queries in order, each query's entries in table order) are summed per display lineage, then every sum is
divided by the number of queries -/
def aggregateAt {κ : Type} [DecidableEq κ] (A : Arith α) (divn : α → Nat → α) (keyOf : Lineage ν → κ) (r : Nat)
    (qs : List (List (Entry α ν))) : List (κ × α) :=
  let all := qs.flatMap (fun es => es.filter (fun e => e.rank = r))
  let summed := all.foldl (fun acc e => aggBump A (keyOf e.lin) e.f acc) []
  summed.map (fun p => (p.1, divn p.2 qs.length))

/-! ### re-summarising and classifying ONE `QueryTaxResult` again and again

`summarized_ranks` (and the per-rank sums behind it) survive between calls: `build_summarized_result` and
`build_classification_result` only call `summarize_up_ranks` when the object was never summarized or when
`force_resummarize` is given; everything else (`_init_summarization_results`: totals and result lists) is rebuilt by
every `build_summarized_result`.  `sr` = the summarized ranks the object holds (highest rank first), `none` = none yet. -/

/-- `summarize_up_ranks(single_rank)` from scratch: the ranks that received at least one row -/
def sessSummarize (nranks : Nat) (rows : List (RowV α ν)) (single : Option Nat) : Except Err (List Nat) :=
  match single with
  | none => .ok (summarizedRanks nranks rows)
  | some r => if r < nranks ∧ r ∈ summarizedRanks nranks rows then .ok [r] else .error .rank

/-- the summarized ranks after the `if not self.summarized_ranks or force_resummarize` step -/
def sessRanks (nranks : Nat) (rows : List (RowV α ν)) (single : Option Nat) (force : Bool) (sr : Option (List Nat)) :
    Except Err (List Nat) :=
  match sr with
  | some l => if force || l.isEmpty then sessSummarize nranks rows single else .ok l
  | none => sessSummarize nranks rows single

/-- `build_summarized_result(single_rank, force_resummarize)`: the new summarized ranks and the rebuilt result lists -/
def sessBuild [DecidableEq ν] (A : Arith α) (rp : Option (Repair α)) (qbp nranks : Nat) (rows : List (RowV α ν))
    (single : Option Nat) (force : Bool) (sr : Option (List Nat)) :
    Except Err (List Nat × List (List (Entry α ν))) :=
  match sessRanks nranks rows single force sr with
  | .error e => .error e
  | .ok l =>
    let okSingle := match single with
      | some r => decide (r ∈ l)
      | none => true
    if okSingle then (mapMRanks A rp qbp rows l).map (fun ess => (l, ess)) else .error .rank

/-- `build_classification_result(rank, containment_threshold, force_resummarize)` on the same object -/
def sessClassify [DecidableEq ν] (A : Arith α) (rp : Option (Repair α)) (nranks : Nat) (rows : List (RowV α ν))
    (rank : Option Nat) (thr : Option α) (thrOk : Bool) (force : Bool) (sr : Option (List Nat)) :
    Except Err (List Nat × Option (Cls α ν)) :=
  if !thrOk then .error .thr
  else
    match sessRanks nranks rows rank force sr with
    | .error e => .error e
    | .ok l =>
      match rank with
      | some r =>
        if r ∈ l then (classifyLoop A rp thr [(r, sumAtRank A rows r)] none).map (fun c => (l, c)) else .error .rank
      | none =>
        if l.isEmpty then .error .noRanks
        else (classifyLoop A rp thr (l.reverse.map (fun r => (r, sumAtRank A rows r))) none).map (fun c => (l, c))

/-- the repair the translator found in the source (`none` = the code as it is): `FLOAT_TOLERANCE = 1/den`
as a double, and `1 + FLOAT_TOLERANCE` as the double addition computes it -/
def f64Repair : Option (Repair F64.SF) :=
  if Sm.Gen.taxRepaired then
    let tol := F64.divNat 1 Sm.Gen.taxTolDen
    some ⟨F64.SF.ofF tol, F64.SF.ofF (F64.fadd ⟨1, 0⟩ tol), Sm.Gen.taxRepairStrict⟩
  else none

/-! ### writers: projections of the summarised table -/

def isUnclassified (e : Entry α ν) : Bool := e.lin.isEmpty

def insertEntryDesc (A : Arith α) (x : Entry α ν) : List (Entry α ν) → List (Entry α ν)
  | [] => [x]
  | y :: t => if A.lt y.f x.f then x :: y :: t else y :: insertEntryDesc A x t

def sortEntriesDesc (A : Arith α) (l : List (Entry α ν)) : List (Entry α ν) :=
  l.foldl (fun acc x => insertEntryDesc A x acc) []

/-- `make_full_summary` / `format_for_krona` for one rank: re-sort by fraction (stable),
classified lineages first, the unclassified entry last -/
def writerOrder (A : Arith α) (es : List (Entry α ν)) : List (Entry α ν) :=
  let s := sortEntriesDesc A es
  s.filter (fun e => !isUnclassified e) ++ s.filter isUnclassified

/-! ### the writers as operations on ONE `QueryTaxResult`: `summarized_lineage_results` is shared, mutable state

`make_full_summary` (csv_summary) sorts every rank's list IN PLACE by fraction, `make_human_summary` sorts the displayed
rank's list in place by weighted fraction; kreport, bioboxes, krona and lineage_summary read the lists as they find them.
A session state is the list of per-rank entry lists (highest rank first). -/

def insertEntryDescW (A : Arith α) (x : Entry α ν) : List (Entry α ν) → List (Entry α ν)
  | [] => [x]
  | y :: t => if A.lt y.fw x.fw then x :: y :: t else y :: insertEntryDescW A x t

/-- `list.sort(key=lambda res: -res.f_weighted_at_rank)` -/
def sortEntriesDescW (A : Arith α) (l : List (Entry α ν)) : List (Entry α ν) :=
  l.foldl (fun acc x => insertEntryDescW A x acc) []

/-- the list `summarized_lineage_results[rank r]` among the per-rank lists (every list holds one rank's entries) -/
def isRank (r : Nat) (es : List (Entry α ν)) : Bool := es.any (fun e => e.rank = r)

/-- `make_full_summary`: new state (every list sorted by fraction) and the rows written (per rank: classified in
sorted order, then the unclassified entry) -/
def sessCsv (A : Arith α) (ess : List (List (Entry α ν))) : List (List (Entry α ν)) × List (Entry α ν) :=
  let sorted := ess.map (sortEntriesDesc A)
  (sorted, (sorted.map (fun s => s.filter (fun e => !isUnclassified e) ++ s.filter isUnclassified)).flatten)

/-- `make_human_summary(display_rank)`: the displayed rank's list sorted by weighted fraction, in place -/
def sessHuman (A : Arith α) (r : Nat) (ess : List (List (Entry α ν))) : List (List (Entry α ν)) × List (Entry α ν) :=
  let st := ess.map (fun es => if isRank r es then sortEntriesDescW A es else es)
  (st, (st.filter (isRank r)).flatten)

/-- `format_for_krona` (one query): the rank's list as it stands, re-sorted (stable) by fraction, unclassified last -/
def sessKrona (A : Arith α) (r : Nat) (ess : List (List (Entry α ν))) : List (Entry α ν) :=
  writerOrder A ((ess.filter (isRank r)).flatten)


end


/-! ### a gather result as gather itself produces it (integers) -/

/-- one gather row: `k` = hashes in the unique overlap, `w` = their summed abundance,
`lin` = the lineage the taxonomy gives the match (`[]` = none) -/
structure GRow (ν : Type) where
  k : Nat
  w : Nat
  lin : Lineage ν

/-- a gather result for one query: `N` hashes of total abundance `W`, at `scaled` -/
structure Gather (ν : Type) where
  N : Nat
  W : Nat
  scaled : Nat
  rows : List (GRow ν)

/-- `query_bp` -/
def Gather.qbp {ν : Type} (g : Gather ν) : Nat := g.N * g.scaled

/-- the rows as `TaxResult` reads them back from the CSV, in binary64:
`f_unique_to_query = k/N`, `f_unique_weighted = w/W` (one correctly rounded division each),
`unique_intersect_bp = k * scaled` -/
def Gather.toF {ν : Type} (g : Gather ν) : List (RowV F64.SF ν) :=
  g.rows.map (fun r => ⟨F64.SF.ofF (F64.divNat r.k g.N), F64.SF.ofF (F64.divNat r.w g.W), r.k * g.scaled, r.lin⟩)


/-! ### writers that format numbers: kreport, bioboxes, human -/

/-- Python `'%.<k>f' % x` for a non-negative double, as the integer `round_half_even(x · 10^k)` of the EXACT binary
value (CPython formats the exact value, correctly rounded) -/
def fmtDec (x : F64.F) (k : Nat) : Nat :=
  if x.e ≥ 0 then x.m * 2 ^ x.e.toNat * 10 ^ k
  else F64.shiftRNE (x.m * 10 ^ k) (-x.e).toNat false

/-- the text of `'%.<k>f'` (k ≥ 1) -/
def fmtDecStr (x : F64.F) (k : Nat) : String :=
  let h := fmtDec x k
  let frac := toString (h % 10 ^ k)
  toString (h / 10 ^ k) ++ "." ++ String.ofList (List.replicate (k - frac.length) '0') ++ frac

/-- `f_weighted * 100` (the int 100 becomes the double 100.0) -/
def timesHundred (fw : F64.SF) : F64.F := F64.fmul fw.a (F64.ofNat 100)

/-- kreport / lingroup `num_bp_contained = int(f_weighted * total_weighted_bp)`: one float product, truncated -/
def kreportBp (fw : F64.SF) (totalBp : Nat) : Nat := F64.floor (F64.fmul fw.a (F64.ofNat totalBp))

/-- one kreport row: percent text, bp contained, bp assigned, rank code, name -/
structure KRow where
  pct : String
  bpc : Nat
  bpa : Nat
  code : String
  name : String

def rankCodes : List String := ["D", "P", "C", "O", "F", "G", "S"]

/-- the row of a classified entry / of the unclassified remainder -/
def kreportRowC (totalBp : Nat) (e : Entry F64.SF String) : KRow :=
  let bpc := kreportBp e.fw totalBp
  ⟨fmtDecStr (timesHundred e.fw) 2, bpc, if e.rank = 6 then bpc else 0, rankCodes.getD e.rank "?",
   (e.lin.getLast?.join).getD ""⟩

def kreportRowU (totalBp : Nat) (e : Entry F64.SF String) : KRow :=
  let bpc := kreportBp e.fw totalBp
  ⟨fmtDecStr (timesHundred e.fw) 2, bpc, bpc, "U", "unclassified"⟩

/-- the loop of `make_kreport_results` over the entries in rank order: classified entries are always reported, an
unclassified entry only if none was reported yet (`continue` otherwise) -/
def kreportGo (totalBp : Nat) : List (Entry F64.SF String) → Bool → List KRow
  | [], _ => []
  | e :: t, seenU =>
    if e.lin.isEmpty then
      if seenU then kreportGo totalBp t seenU else kreportRowU totalBp e :: kreportGo totalBp t true
    else kreportRowC totalBp e :: kreportGo totalBp t seenU

/-- `make_kreport_results`: ranks in order (strain has no code and is skipped), the entries of each rank in the order
the (shared, possibly re-sorted) list has them, the unclassified remainder reported once (the first one met) -/
def kreportRows (totalBp : Nat) (ess : List (List (Entry F64.SF String))) : List KRow :=
  kreportGo totalBp (ess.flatten.filter (fun e => e.rank < 7)) false

/-! ### `load_gather_results` / `check_and_load_gather_csvs`: grouping the CSV rows into one result per query -/

/-- `gather_results.get(query_name, new)` + `add_taxresult`: the row joins the result already stored under its query
name (wherever earlier rows of that query were in the file), or starts a new one — results keep first-appearance order -/
def groupAdd {κ β : Type} [DecidableEq κ] (key : κ) (x : β) : List (κ × List β) → List (κ × List β)
  | [] => [(key, [x])]
  | (k, l) :: t => if k = key then (k, l ++ [x]) :: t else (k, l) :: groupAdd key x t

/-- all rows of one file, grouped -/
def groupRows {κ β : Type} [DecidableEq κ] (rows : List (κ × β)) (acc : List (κ × List β)) : List (κ × List β) :=
  rows.foldl (fun a r => groupAdd r.1 r.2 a) acc

/-- one gather CSV: a row whose query was already loaded from an EARLIER file is refused, a row without lineage is refused
under `--fail-on-missing-taxonomy`, a file without rows is refused -/
def loadFile {κ β : Type} [DecidableEq κ] (failMissing : Bool) (missing : β → Bool) (seen : List κ) :
    List (κ × β) → List (κ × List β) → Except Err (List (κ × List β))
  | [], acc => if acc.isEmpty then .error .empty else .ok acc
  | (k, x) :: t, acc =>
    if seen.contains k then .error .dupq
    else if failMissing && missing x then .error .missing
    else loadFile failMissing missing seen t (groupAdd k x acc)

/-- `check_and_load_gather_csvs` (no `--force`): the files in order, `gather_results.update(these_results)` -/
def loadFiles {κ β : Type} [DecidableEq κ] (failMissing : Bool) (missing : β → Bool) :
    List (List (κ × β)) → List (κ × List β) → Except Err (List (κ × List β))
  | [], acc => .ok acc
  | f :: fs, acc =>
    match loadFile failMissing missing (acc.map Prod.fst) f [] with
    | .error e => .error e
    | .ok these => loadFiles failMissing missing fs (acc ++ these)

/-! ### identifiers and taxonomy loading (strings) -/

/-- module-level `get_ident` (used for the taxonomy file) -/
def getIdent (ident : String) (keepFull keepVer : Bool) : String :=
  if !keepFull then
    let a := (ident.splitOn " ").headD ""
    if !keepVer then (a.splitOn ".").headD "" else a
  else ident

/-- `BaseTaxResult.get_ident` (used for the gather rows): same outcome, written differently -/
def getIdentRow (name : String) (keepFull keepVer : Bool) : String :=
  let (a, keepVer) := if !keepFull then ((name.splitOn " ").headD "", keepVer) else (name, true)
  if !keepVer then (a.splitOn ".").headD "" else a

/-- `null_names`, re-extracted from the source by the translator on every run -/
def nullNames : List String := Sm.Gen.taxNullNames

/-- Python `str.strip()` restricted to the blanks the generator can produce (space, tab) -/
def strip (s : String) : String :=
  let cs := s.toList.dropWhile (fun c => c = ' ' || c = '\t')
  String.ofList (cs.reverse.dropWhile (fun c => c = ' ' || c = '\t')).reverse

/-- a taxonomy cell: null names become an unfilled rank -/
def cleanName (s : String) : Option String := if nullNames.contains (strip s) then none else some s

/-- `filled_lineage`: the lineage down to its lowest filled rank -/
def filledLineage {ν : Type} (l : Lineage ν) : Lineage ν :=
  (l.reverse.dropWhile (fun x => x.isNone)).reverse

/-- one row of the taxonomy CSV: the identifier cell and the rank cells (in rank order) -/
structure TaxRow where
  ident : String
  cells : List String

/-- the `assignments` dictionary built by `LineageDB.load` (standard / ICTV ranks) -/
def loadTaxLoop (keepFull keepVer force : Bool) :
    List TaxRow → List (String × Lineage String) → Except Err (List (String × Lineage String))
  | [], acc => .ok acc
  | row :: rest, acc =>
    let lin := filledLineage (row.cells.map cleanName)
    let ident := getIdent row.ident keepFull keepVer
    if lin.isEmpty then loadTaxLoop keepFull keepVer force rest acc
    else
      match acc.lookup ident with
      | some l0 =>
        if l0 ≠ lin ∧ !force then .error .multi else loadTaxLoop keepFull keepVer force rest acc
      | none => loadTaxLoop keepFull keepVer force rest (acc ++ [(ident, lin)])

/-- LIN taxonomies: one cell `a;b;c` (or `a,b,c`), every row with the same number of positions -/
def linCells (s : String) : List String :=
  let a := s.splitOn ";"
  if a.length = 1 then s.splitOn "," else a

def loadLinLoop (keepFull keepVer force : Bool) :
    List TaxRow → Option Nat → List (String × Lineage String) → Except Err (Nat × List (String × Lineage String))
  | [], n, acc => .ok (n.getD 0, acc)
  | row :: rest, n, acc =>
    let names := linCells (row.cells.headD "")
    if n.isSome ∧ n ≠ some names.length then .error .other
    else
      let n' := some names.length
      let lin : Lineage String := names.map some
      let ident := getIdent row.ident keepFull keepVer
      match acc.lookup ident with
      | some l0 =>
        if l0 ≠ lin ∧ !force then .error .multi else loadLinLoop keepFull keepVer force rest n' acc
      | none => loadLinLoop keepFull keepVer force rest n' (acc ++ [(ident, lin)])

/-- `TaxResult.get_match_lineage`: `[]` = identifier not in the taxonomy -/
def matchLineage (tax : List (String × Lineage String)) (name : String) (keepFull keepVer : Bool) :
    Lineage String :=
  (tax.lookup (getIdentRow name keepFull keepVer)).getD []

/-- `display_lineage(null_as_unclassified=True)` -/
def display (lin : Lineage String) : String :=
  let fl := filledLineage lin
  if fl.isEmpty then "unclassified" else ";".intercalate (fl.map (fun x => x.getD ""))

end Sm.Tax
