/-
Ownership / aliasing model for C15: a heap of sketch cells addressed through
handles.  Every Python-API entry point is given, from the code, (i) whether it
may write the cell of its receiver, (ii) whether its result is a fresh cell or
an alias of an existing one:

* `FrozenMinHash` overrides every mutator to raise `TypeError`
  (add_sequence, add_kmer, add_many, remove_many, add_hash,
  add_hash_with_abundance, clear, set_abundances, add_protein, `+=`, merge) and,
  since the repair of D24, the `track_abundance` setter;
* `to_mutable`: always a fresh cell (`__copy__` for a mutable sketch,
  `__getstate__/__setstate__` for a frozen one);
* `to_frozen`: frozen -> the object itself; mutable -> copy, then class switch;
* `into_frozen`: in place;
* `copy`: frozen -> the object itself; mutable -> fresh;
* `flatten`: tracks abundance -> fresh (frozen if the source is); flat -> the
  object itself (for a *mutable* flat sketch this is an alias of a mutable cell);
* `downsample`: frozen and already at that scaled/num -> itself; otherwise fresh;
* `SourmashSignature(mh).minhash`: clone in, clone out -> fresh frozen cell;
* every comparison / query returns numbers or fresh cells and writes nothing
  (except filling md5 caches, which are not content).
-/
import SmVerif.Model.MinHash
import SmVerif.Model.SeqToHashes
import SmVerif.Model.Murmur3

namespace Sm.Own

structure Cell where
  val : MH
  frozen : Bool
deriving Repr, Inhabited

/-- handles are small naturals; `cells` is indexed by cell id -/
structure Heap where
  cells : List Cell
  handles : List (Nat × Nat)      -- (handle, cell id); first binding wins
deriving Repr, Inhabited

def Heap.empty : Heap := { cells := [], handles := [] }

def Heap.cid (hp : Heap) (h : Nat) : Option Nat := hp.handles.lookup h

def Heap.cell (hp : Heap) (h : Nat) : Option Cell :=
  match hp.cid h with
  | some c => hp.cells[c]?
  | none => none

/-- bind handle `h` to cell id `c` (shadowing any earlier binding) -/
def Heap.bind (hp : Heap) (h c : Nat) : Heap :=
  { hp with handles := (h, c) :: hp.handles.filter (fun p => p.1 ≠ h) }

/-- allocate a fresh cell and bind `h` to it -/
def Heap.alloc (hp : Heap) (h : Nat) (v : MH) (frozen : Bool) : Heap :=
  ({ hp with cells := hp.cells ++ [Cell.mk v frozen] } : Heap).bind h hp.cells.length

/-- make `r` an alias of `h`'s cell -/
def Heap.alias (hp : Heap) (r h : Nat) : Heap :=
  match hp.cid h with
  | some c => hp.bind r c
  | none => hp

inductive Res where
  | ok
  | err (name : String)
  | bad
deriving Repr, DecidableEq

def errName : MH.Err → String
  | .pyType => "TypeError"
  | .pyRuntime => "RuntimeError"
  | .frozen => "TypeError"
  | _ => "ValueError"

/-- a mutator on handle `h`: refused on a frozen cell, otherwise rewrites that one cell -/
def Heap.mutate (hp : Heap) (h : Nat) (f : MH → Except MH.Err MH) : Heap × Res :=
  match hp.cid h with
  | none => (hp, .bad)
  | some c =>
    match hp.cells[c]? with
    | none => (hp, .bad)
    | some cell =>
      if cell.frozen then (hp, .err "TypeError")
      else match f cell.val with
        | .error e => (hp, .err (errName e))
        | .ok v => ({ hp with cells := hp.cells.set c (Cell.mk v false) }, .ok)

/-- a mutator that can fail half-way (`add_sequence`: every hash before the first invalid k-mer HAS been added):
    refused on a frozen cell, otherwise rewrites that one cell with whatever `f` got to -/
def Heap.mutateP (hp : Heap) (h : Nat) (f : MH → MH × Res) : Heap × Res :=
  match hp.cid h with
  | none => (hp, .bad)
  | some c =>
    match hp.cells[c]? with
    | none => (hp, .bad)
    | some cell =>
      if cell.frozen then (hp, .err "TypeError")
      else
        let r := f cell.val
        ({ hp with cells := hp.cells.set c (Cell.mk r.1 false) }, r.2)

def seqHashFn (m : MH) : Seq.HashFn :=
  if m.hf == 2 then .protein else if m.hf == 3 then .dayhoff else if m.hf == 4 then .hp else .dna

def seqPyK (m : MH) : Nat := if m.hf == 1 then m.ksize else m.ksize / 3

def seqRes : Option Seq.Py.PyErr → Res
  | none => .ok
  | some .valueError => .err "ValueError"
  | some .assertionError => .err "AssertionError"
  | some .panic => .err "Panic"

/-- `MinHash.add_sequence(seq, force)` (and `add_kmer`, which checks the length and calls it) -/
def addSeqMH (m : MH) (seq : List Nat) (force : Bool) : MH × Res :=
  let r := Seq.Py.addSequence (Murmur3.hashNat m.seed) (seqHashFn m) (seqPyK m) seq force
  (m.addMany r.1, seqRes r.2)

/-- `MinHash.add_protein(seq)` -/
def addProtMH (m : MH) (seq : List Nat) : MH × Res :=
  let r := Seq.Py.addProtein (Murmur3.hashNat m.seed) (seqHashFn m) (seqPyK m) seq
  (m.addMany r.1, seqRes r.2)

/-- an operation that returns a new object bound to `r` -/
def Heap.fresh (hp : Heap) (r : Nat) (x : Except MH.Err MH) (frozen : Bool) : Heap × Res :=
  match x with
  | .ok v => (hp.alloc r v frozen, .ok)
  | .error e => (hp, .err (errName e))

inductive Op where
  -- constructors
  | new (r num scaled : Nat) (track : Bool)
  -- mutators (receiver first)
  | add (h v : Nat)
  | addAb (h v a : Nat)
  | addMany (h : Nat) (vs : List Nat)
  | removeMany (h : Nat) (vs : List Nat)
  | clear (h : Nat)
  | merge (h g : Nat)
  | setAbundances (h : Nat) (ps : List (Nat × Nat)) (clear : Bool)
  | setTrack (h : Nat) (b : Bool)
  | addSeq (h : Nat) (seq : List Nat) (force : Bool)
  | addProt (h : Nat) (seq : List Nat)
  | intoFrozen (h : Nat)
  -- operations returning an object
  | toMutable (r h : Nat)
  | toFrozen (r h : Nat)
  | copy (r h : Nat)
  | flatten (r h : Nat)
  | downsample (r h sc : Nat)
  | sigMinhash (r h : Nat)
  | plus (r h g : Nat)
  | inter (r h g : Nat)
  -- read-only queries (any number of operands)
  | readOnly (name : String) (hs : List Nat)
deriving Repr

/-- `track_abundance = b` -/
def setTrackMH (s : MH) (b : Bool) : Except MH.Err MH :=
  if s.trackAbundance = b then .ok s
  else if b = false then .ok { s with abunds := none }
  else if s.mins.length > 0 then .error .pyRuntime
  else .ok { s with abunds := some [] }

def step (hp : Heap) : Op → Heap × Res
  | .new r num scaled track => hp.fresh r (Py.mkMinHash num 21 1 42 track 0 scaled) false
  | .add h v => hp.mutate h (fun s => .ok (s.addHash v))
  | .addAb h v a => hp.mutate h (fun s => Py.addHashWithAbundance s v a)
  | .addMany h vs => hp.mutate h (fun s => .ok (s.addMany vs))
  | .removeMany h vs => hp.mutate h (fun s => .ok (s.removeMany vs))
  | .clear h => hp.mutate h (fun s => .ok s.clear)
  | .merge h g =>
    match hp.cell g with
    | some o => hp.mutate h (fun s => s.merge o.val)
    | none => (hp, .bad)
  | .setAbundances h ps c => hp.mutate h (fun s => Py.setAbundances s ps c)
  | .setTrack h b =>
    match hp.cell h with
    | some c => if c.val.trackAbundance = b then (hp, .ok) else hp.mutate h (fun s => setTrackMH s b)
    | none => (hp, .bad)
  | .addSeq h seq force => hp.mutateP h (fun s => addSeqMH s seq force)
  | .addProt h seq => hp.mutateP h (fun s => addProtMH s seq)
  | .intoFrozen h =>
    match hp.cid h, hp.cell h with
    | some c, some cell => ({ hp with cells := hp.cells.set c (Cell.mk cell.val true) }, .ok)
    | _, _ => (hp, .bad)
  | .toMutable r h =>
    match hp.cell h with
    | some c => hp.fresh r (if c.frozen then .ok (Py.pickleRoundTrip c.val) else Py.copy c.val) false
    | none => (hp, .bad)
  | .toFrozen r h =>
    match hp.cell h with
    | some c => if c.frozen then (hp.alias r h, .ok) else hp.fresh r (Py.copy c.val) true
    | none => (hp, .bad)
  | .copy r h =>
    match hp.cell h with
    | some c => if c.frozen then (hp.alias r h, .ok) else hp.fresh r (Py.copy c.val) false
    | none => (hp, .bad)
  | .flatten r h =>
    match hp.cell h with
    | some c =>
      match Py.flatten c.val with
      | .ok (some f) => hp.fresh r (.ok f) c.frozen
      | .ok none => (hp.alias r h, .ok)
      | .error e => (hp, .err (errName e))
    | none => (hp, .bad)
  | .downsample r h sc =>
    match hp.cell h with
    | some c =>
      if c.frozen ∧ sc ≠ 0 ∧ Py.scaledProp c.val = sc then (hp.alias r h, .ok)
      else hp.fresh r (Py.downsample c.val none (some sc)) c.frozen
    | none => (hp, .bad)
  | .sigMinhash r h =>
    match hp.cell h with
    | some c => hp.fresh r (.ok c.val) true
    | none => (hp, .bad)
  | .plus r h g =>
    match hp.cell h, hp.cell g with
    | some a, some b =>
      -- `__add__`: `self.to_mutable()` then `+=`
      if a.val.num ≠ 0 ∧ b.val.num ≠ 0 ∧ a.val.num ≠ b.val.num then (hp, .err "TypeError")
      else
        let m := if a.frozen then .ok (Py.pickleRoundTrip a.val) else Py.copy a.val
        hp.fresh r (m.bind (fun n => n.merge b.val)) false
    | _, _ => (hp, .bad)
  | .inter r h g =>
    match hp.cell h, hp.cell g with
    | some a, some b => hp.fresh r ((Py.intersection a.val b.val).map Prod.snd) false
    | _, _ => (hp, .bad)
  | .readOnly _ hs =>
    if hs.all (fun h => (hp.cell h).isSome) then (hp, .ok) else (hp, .bad)

/-- the observable content of a cell: everything except the md5 cache -/
def content (c : Cell) : (Nat × Nat × List Nat × Option (List Nat) × Bool) :=
  (c.val.num, c.val.maxHash, c.val.mins, c.val.abunds, c.frozen)

def isMutator : Op → Bool
  | .add .. | .addAb .. | .addMany .. | .removeMany .. | .clear .. | .merge .. | .setAbundances ..
  | .setTrack .. | .addSeq .. | .addProt .. => true
  | _ => false

def receiver : Op → Option Nat
  | .add h _ | .addAb h _ _ | .addMany h _ | .removeMany h _ | .clear h | .merge h _
  | .setAbundances h _ _ | .setTrack h _ | .intoFrozen h | .addSeq h _ _ | .addProt h _ => some h
  | _ => none

end Sm.Own
