/-
C20: decision + resource model of `Nodegraph::from_reader` (src/core/src/sketch/nodegraph.rs),
the hand-written binary parser that takes sizes from the file.

Input: the (already decompressed) byte string.  Output: the header fields and table sizes, or an
error kind — and the list of buffer sizes the reader asks the allocator for, in order.

Two allocation disciplines exist in the history of the code; the translator tells which one the
current source has (`Gen.ngPrealloc`):
* pre-allocation `vec![0; byte_size / 4]` from the size field before reading (the reader aborts the
  process when the field is inflated: defect D19);
* bounded reading `take(byte_size).read_to_end(..)` (allocates at most what the input provides).
-/
import SmVerif.Model.Generated

namespace Sm.Ng

inductive Err where
  | eof | badSignature | badVersion | badType | zeroTable
deriving Repr, DecidableEq

structure Parsed where
  ksize : Nat
  occupied : Nat
  tables : List (Nat × List Nat)        -- (tablesize in bits, the table's bytes)
deriving Repr

/-- little-endian value of a byte list -/
def le : List Nat → Nat
  | [] => 0
  | b :: bs => b + 256 * le bs

def be (bs : List Nat) : Nat := le bs.reverse

/-- take exactly `n` bytes -/
def takeN (n : Nat) (bs : List Nat) : Option (List Nat × List Nat) :=
  if bs.length < n then none else some (bs.take n, bs.drop n)

/-- read the tables; `allocs` accumulates the buffer sizes requested -/
def readTables (prealloc rejectZero : Bool) : Nat → List Nat → List (Nat × List Nat) → List Nat →
    Except Err (List (Nat × List Nat)) × List Nat
  | 0, _, acc, allocs => (.ok acc.reverse, allocs)
  | n + 1, bs, acc, allocs =>
    match takeN 8 bs with
    | none => (.error .eof, allocs)
    | some (szb, rest) =>
      let tablesize := le szb
      if rejectZero ∧ tablesize = 0 then (.error .zeroTable, allocs) else
      let byteSize := tablesize / 8 + 1
      -- what is requested from the allocator for this table
      let req := if prealloc then byteSize / 4 * 4 else min byteSize rest.length
      match takeN byteSize rest with
      | none => (.error .eof, allocs ++ [req])
      | some (tb, rest') => readTables prealloc rejectZero n rest' ((tablesize, tb) :: acc) (allocs ++ [req])

def parseWith (prealloc rejectZero : Bool) (bs : List Nat) : Except Err Parsed × List Nat :=
  match takeN 4 bs with
  | none => (.error .eof, [])
  | some (sig, r1) =>
    if be sig ≠ 0x4f584c49 then (.error .badSignature, []) else
    match takeN 1 r1 with
    | none => (.error .eof, [])
    | some (v, r2) =>
      if le v ≠ 4 then (.error .badVersion, []) else
      match takeN 1 r2 with
      | none => (.error .eof, [])
      | some (t, r3) =>
        if le t ≠ 2 then (.error .badType, []) else
        match takeN 4 r3 with
        | none => (.error .eof, [])
        | some (k, r4) =>
          match takeN 1 r4 with
          | none => (.error .eof, [])
          | some (nt, r5) =>
            match takeN 8 r5 with
            | none => (.error .eof, [])
            | some (occ, r6) =>
              let (res, allocs) := readTables prealloc rejectZero (le nt) r6 [] []
              match res with
              | .error e => (.error e, allocs)
              | .ok tabs => (.ok ⟨le k, le occ, tabs⟩, allocs)

/-- the reader as the current source has it.  `Gen.ngRejectsNoTables`: a file that declares zero tables is refused
    (it is accepted by `parseWith`: no table to read) -/
def parse (bs : List Nat) : Except Err Parsed × List Nat :=
  match parseWith Gen.ngPrealloc Gen.ngRejectsZeroTable bs with
  | (.ok p, a) => if Gen.ngRejectsNoTables ∧ p.tables = [] then (.error .zeroTable, a) else (.ok p, a)
  | r => r

def totalAlloc (bs : List Nat) : Nat := (parse bs).2.foldl (· + ·) 0

/-! ### `HyperLogLog::from_reader` (src/core/src/sketch/hyperloglog/mod.rs)

"HLL" 0x01 p q ksize, then 2^p one-byte registers.  `p` is a shift count and an allocation size (`vec![0u8; 1 << p]`,
zero-filled BEFORE anything is read), every register an index into a table of q + 2 counters in the estimators, which
run inside `extern "C"` functions that are not wrapped by the panic landing pad. -/

inductive HllErr where
  | eof | badSignature | badVersion | bounds | register
deriving Repr, DecidableEq

structure HllParsed where
  p : Nat
  q : Nat
  ksize : Nat
  registers : List Nat
deriving Repr, DecidableEq

/-- returns the result and the bytes requested from the allocator before the registers are read.
    A shift count ≥ 64 is taken modulo 64 by the release build (`1 << p` on usize wraps). -/
def hllParseWith (checksHeader checksRegisters : Bool) (bs : List Nat) : Except HllErr HllParsed × Nat :=
  match bs with
  | s0 :: s1 :: s2 :: v :: p :: q :: k :: rest =>
    if be [s0, s1, s2] ≠ 0x484c4c then (.error .badSignature, 0) else
    if v ≠ 1 then (.error .badVersion, 0) else
    if checksHeader ∧ (p < 4 ∨ 18 < p ∨ q ≠ 64 - p) then (.error .bounds, 0) else
    let n := 2 ^ (p % 64)
    match takeN n rest with
    | none => (.error .eof, n)
    | some (regs, _) =>
      if checksRegisters ∧ regs.any (fun r => r > q + 1) then (.error .register, n)
      else (.ok ⟨p, q, k, regs⟩, n)
  | _ => (.error .eof, 0)

def hllParse (bs : List Nat) : Except HllErr HllParsed × Nat := hllParseWith Gen.hllChecksHeader Gen.hllChecksRegisters bs

/-! ### `<ZipStorage as Storage>::load` (src/core/src/storage/mod.rs): the buffer a zip member is read into

`declared` is the uncompressed size the zip directory CLAIMS (attacker-controlled, never compared with the data by the
zip reader), `actual` the number of bytes the member really inflates to.  `Vec::new()` + `read_to_end` asks the allocator
for what arrives (at most twice, amortised); `Vec::with_capacity(entry.size)` asks for the claim — and a failed
allocation is `handle_alloc_error` -> abort, not a panic the FFI landing pad could turn into an exception. -/

/-- bytes requested from the allocator up front -/
def zipLoadRequestWith (prealloc : Bool) (declared actual : Nat) : Nat :=
  if prealloc then declared else actual

def zipLoadRequest (declared actual : Nat) : Nat := zipLoadRequestWith Gen.zipLoadPrealloc declared actual

end Sm.Ng
